#!/bin/bash
# Regenerate Gen/ from /repo's working tree and build the Lean project + driver (offline).
set -e
cd "$(dirname "$0")"
/venv/bin/python tools/translate.py
cd lean
lake build PyTRS driver
