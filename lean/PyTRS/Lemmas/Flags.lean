/-
The typing invariant of flag lists: flags are `str`, flag lines are `(str, str)` tuples, paired one-to-one
with equal first components.  (In the model the lists are `List PyVal`, so this has content.)
-/
import PyTRS.Model.Plss
import PyTRS.Lemmas.Chunk
namespace PyTRS

def Typed (fs ls : List PyVal) : Prop :=
  ∃ ps : List (Str × Str), fs = ps.map (fun p => PyVal.str p.1) ∧ ls = ps.map (fun p => PyVal.tup [.str p.1, .str p.2])

theorem Typed.nil : Typed [] [] := ⟨[], rfl, rfl⟩

theorem Typed.append {a b c d : List PyVal} (h1 : Typed a b) (h2 : Typed c d) : Typed (a ++ c) (b ++ d) := by
  obtain ⟨p, rfl, rfl⟩ := h1
  obtain ⟨q, rfl, rfl⟩ := h2
  exact ⟨p ++ q, by simp, by simp⟩

theorem Typed.single (f c : Str) : Typed [.str f] [.tup [.str f, .str c]] := ⟨[(f, c)], rfl, rfl⟩

theorem Typed.snoc {a b : List PyVal} (h : Typed a b) (f c : Str) :
    Typed (a ++ [.str f]) (b ++ [.tup [.str f, .str c]]) := h.append (Typed.single f c)

/-- consequences a user sees: equal lengths, every flag a str, every line a 2-tuple of str with the flag first -/
theorem Typed.length_eq {a b : List PyVal} (h : Typed a b) : a.length = b.length := by
  obtain ⟨p, rfl, rfl⟩ := h; simp

theorem Typed.all_str {a b : List PyVal} (h : Typed a b) : ∀ x ∈ a, ∃ s, x = PyVal.str s := by
  obtain ⟨p, rfl, rfl⟩ := h
  intro x hx
  simp only [List.mem_map] at hx
  obtain ⟨q, _, rfl⟩ := hx
  exact ⟨_, rfl⟩

def FlagsTyped (fl : Tract.Flags) : Prop := Typed fl.w fl.wl ∧ Typed fl.e fl.el

theorem FlagsTyped.empty : FlagsTyped {} := ⟨Typed.nil, Typed.nil⟩

namespace Plss

theorem addE_typed (c : Chunk) (f x : Str) (h : FlagsTyped c.fl) : FlagsTyped (addE c f x).fl :=
  ⟨h.1, h.2.snoc f x⟩

theorem flagUnusedSec_typed (c : Chunk) (h : FlagsTyped c.fl) : FlagsTyped (flagUnusedSec c).fl := by
  unfold flagUnusedSec
  split
  · split
    · exact addE_typed _ _ _ h
    · exact h
  · exact h

theorem flagUnusedTR_typed (c : Chunk) (h : FlagsTyped c.fl) : FlagsTyped (flagUnusedTR c).fl := by
  unfold flagUnusedTR
  split
  · split
    · exact addE_typed _ _ _ h
    · exact h
  · exact h

theorem getNextSec_typed (c : Chunk) (h : FlagsTyped c.fl) : FlagsTyped (getNextSec c).fl := by
  unfold getNextSec
  simp only []
  split <;> exact flagUnusedSec_typed c h

theorem getNextTwprge_typed (c : Chunk) (h : FlagsTyped c.fl) : FlagsTyped (getNextTwprge c).fl := by
  unfold getNextTwprge
  simp only []
  split <;> exact flagUnusedTR_typed c h

theorem parseCopyAll_typed (c c' : Chunk) (txt : Str) (h : FlagsTyped c.fl) (hc : parseCopyAll c txt = .ok c') :
    FlagsTyped c'.fl := by
  unfold parseCopyAll at hc
  simp only [] at hc
  split at hc
  · cases hc
    exact getNextTwprge_typed _ (getNextSec_typed _ h)
  · cases hc

end Plss
end PyTRS
