/-
Observational equivalence of patterns — the tool for making proofs over REGENERATED patterns robust against
behaviour-preserving respellings of a regex.

`Rx.Equiv r r'` : the two patterns have the same list of successes (same end states, same captures, same backtracking
order) from every state.  Everything the library does with a pattern (`Rx.m`, `matchHere`, `scan`, `search`, `matchAt`,
`fullmatch`, `finditer`, `sub`, `subWith`, `split`) then agrees (`Rx.Equiv.search`, …), so a theorem proved for one
spelling transfers to the other by one rewrite.  Equivalence is a congruence for `seq`, `alt`, `grp`, `rep`, look-ahead,
and the usual respellings are instances:

* `Rx.Equiv.seq_assoc`      `(ab)c ≈ a(bc)`          (a group-less sub-pattern spliced into a flat sequence)
* `Rx.Equiv.seq_eps_left/right`
* `Rx.Equiv.alt_assoc`
* `Rx.Equiv.chr_exact2`     `[c]{2} ≈ [c][c]`
-/
import PyTRS.Lemmas.RxAll
namespace PyTRS

/-- same successes, in the same order, from every state -/
def Rx.Equiv (r r' : Rx) : Prop := ∀ s, r.all s = r'.all s

namespace Rx.Equiv

theorem refl (r : Rx) : Rx.Equiv r r := fun _ => rfl
theorem symm {r r' : Rx} (h : Rx.Equiv r r') : Rx.Equiv r' r := fun s => (h s).symm
theorem trans {a b c : Rx} (h1 : Rx.Equiv a b) (h2 : Rx.Equiv b c) : Rx.Equiv a c := fun s => (h1 s).trans (h2 s)
theorem of_eq {r r' : Rx} (h : r = r') : Rx.Equiv r r' := h ▸ refl r

/-! ### everything the library computes from a pattern agrees -/

theorem m {r r' : Rx} (h : Rx.Equiv r r') {R : Type} (s : St) (k : St → Option R) : r.m s k = r'.m s k := by
  rw [Rx.m_eq_findSome, Rx.m_eq_findSome, h s]

theorem matchHere {r r' : Rx} (h : Rx.Equiv r r') (s : St) (adv : Bool) : matchHere r s adv = PyTRS.matchHere r' s adv :=
  h.m s _

theorem scan {r r' : Rx} (h : Rx.Equiv r r') : ∀ (rest : List Char) (prev : Option Char) (pos : Nat) (adv : Bool),
    scan r prev rest pos adv = PyTRS.scan r' prev rest pos adv := by
  intro rest
  induction rest with
  | nil => intro prev pos adv; rw [PyTRS.scan, PyTRS.scan, h.matchHere]
  | cons c t ih =>
    intro prev pos adv
    rw [PyTRS.scan, PyTRS.scan, h.matchHere]
    simp only [ih]

theorem search {r r' : Rx} (h : Rx.Equiv r r') (text : List Char) (pos endpos : Nat) :
    r.search text pos endpos = r'.search text pos endpos := by
  unfold Rx.search
  simp only [h.scan]

theorem matchAt {r r' : Rx} (h : Rx.Equiv r r') (text : List Char) (pos endpos : Nat) :
    r.matchAt text pos endpos = r'.matchAt text pos endpos := by
  unfold Rx.matchAt
  simp only [h.matchHere]

theorem fullmatch {r r' : Rx} (h : Rx.Equiv r r') (text : List Char) : r.fullmatch text = r'.fullmatch text :=
  h.m _ _

theorem finditerAux {r r' : Rx} (h : Rx.Equiv r r') : ∀ (fuel : Nat) (prev : Option Char) (rest : List Char) (pos : Nat)
    (adv : Bool), finditerAux r fuel prev rest pos adv = PyTRS.finditerAux r' fuel prev rest pos adv := by
  intro fuel
  induction fuel with
  | zero => intros; rfl
  | succ n ih =>
    intro prev rest pos adv
    rw [PyTRS.finditerAux, PyTRS.finditerAux, h.scan]
    simp only [ih]

theorem finditer {r r' : Rx} (h : Rx.Equiv r r') (text : List Char) (pos endpos : Nat) :
    r.finditer text pos endpos = r'.finditer text pos endpos := by
  unfold Rx.finditer
  simp only [h.finditerAux]

theorem subWith {r r' : Rx} (h : Rx.Equiv r r') (text : List Char) (f : Match → List Char) :
    r.subWith text f = r'.subWith text f := by
  unfold Rx.subWith
  simp only [h.finditer]

theorem sub {r r' : Rx} (h : Rx.Equiv r r') (repl text : List Char) : r.sub repl text = r'.sub repl text :=
  h.subWith text _

theorem split {r r' : Rx} (h : Rx.Equiv r r') (text : List Char) : r.split text = r'.split text := by
  unfold Rx.split
  simp only [h.finditer]

/-! ### congruence -/

theorem seq {a a' b b' : Rx} (ha : Rx.Equiv a a') (hb : Rx.Equiv b b') : Rx.Equiv (.seq a b) (.seq a' b') := by
  intro s
  show (a.all s).flatMap b.all = (a'.all s).flatMap b'.all
  rw [ha s, funext hb]

theorem alt {a a' b b' : Rx} (ha : Rx.Equiv a a') (hb : Rx.Equiv b b') : Rx.Equiv (.alt a b) (.alt a' b') := by
  intro s
  show a.all s ++ b.all s = a'.all s ++ b'.all s
  rw [ha s, hb s]

theorem grp {a a' : Rx} (i : Nat) (ha : Rx.Equiv a a') : Rx.Equiv (.grp i a) (.grp i a') := by
  intro s
  show (a.all s).map _ = (a'.all s).map _
  rw [ha s]

theorem rep {a a' : Rx} (lo : Nat) (hi : Option Nat) (ha : Rx.Equiv a a') : Rx.Equiv (.rep a lo hi) (.rep a' lo hi) := by
  intro s
  show repAll a.all lo hi _ 0 none s = repAll a'.all lo hi _ 0 none s
  rw [funext ha]

theorem ahead {a a' : Rx} (ha : Rx.Equiv a a') : Rx.Equiv (.ahead a) (.ahead a') := by
  intro s
  show (match a.all s with | s' :: _ => _ | [] => _) = (match a'.all s with | s' :: _ => _ | [] => _)
  rw [ha s]

theorem nahead {a a' : Rx} (ha : Rx.Equiv a a') : Rx.Equiv (.nahead a) (.nahead a') := by
  intro s
  show (match a.all s with | _ :: _ => _ | [] => _) = (match a'.all s with | _ :: _ => _ | [] => _)
  rw [ha s]

/-! ### respellings -/

theorem seq_assoc (a b c : Rx) : Rx.Equiv (.seq (.seq a b) c) (.seq a (.seq b c)) := by
  intro s
  show ((a.all s).flatMap b.all).flatMap c.all = (a.all s).flatMap (fun x => (b.all x).flatMap c.all)
  exact List.flatMap_assoc

theorem seq_eps_left (a : Rx) : Rx.Equiv (.seq .eps a) a := by
  intro s
  show [s].flatMap a.all = a.all s
  simp

theorem seq_eps_right (a : Rx) : Rx.Equiv (.seq a .eps) a := by
  intro s
  show (a.all s).flatMap (fun x => [x]) = a.all s
  simp

theorem alt_assoc (a b c : Rx) : Rx.Equiv (.alt (.alt a b) c) (.alt a (.alt b c)) := by
  intro s
  show (a.all s ++ b.all s) ++ c.all s = a.all s ++ (b.all s ++ c.all s)
  exact List.append_assoc _ _ _

/-- `[c]{2}` and `[c][c]` -/
theorem chr_exact2 (cs : CharSet) : Rx.Equiv (.rep (.chr cs) 2 (some 2)) (.seq (.chr cs) (.chr cs)) := by
  intro ⟨p, l, n, caps⟩
  rcases l with _ | ⟨c1, _ | ⟨c2, t⟩⟩
  · simp [Rx.all, repAll]
  · cases h1 : cs.mem c1 <;> simp [Rx.all, repAll, h1]
  · cases h1 : cs.mem c1 <;> cases h2 : cs.mem c2 <;> simp [Rx.all, repAll, h1, h2, canMore]

end Rx.Equiv

#print axioms Rx.Equiv.search
#print axioms Rx.Equiv.finditer
#print axioms Rx.Equiv.sub
#print axioms Rx.Equiv.split
#print axioms Rx.Equiv.fullmatch
#print axioms Rx.Equiv.rep
#print axioms Rx.Equiv.seq_assoc
#print axioms Rx.Equiv.chr_exact2

end PyTRS
