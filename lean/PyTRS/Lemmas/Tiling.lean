/-
C02 — the aliquot parser tiles exactly the described region (for ALL chains).
Stage A: typed mirror of the string-level model and refinement lemmas.
Stage B: region preservation, termination within the model's fuel, shape of the fixed point.
Stage C: subdivision / rebuild tile; depth properties; main theorems.
-/
import PyTRS.Model.Aliquot
namespace PyTRS.Tiling
open PyTRS PyTRS.Aliquot

/-! ## Specification definitions (as given) -/

inductive Comp where | N | S | E | W | NE | NW | SE | SW
  deriving DecidableEq, Repr
def Comp.str : Comp → Str
  | .N => "N".toList | .S => "S".toList | .E => "E".toList | .W => "W".toList
  | .NE => "NE".toList | .NW => "NW".toList | .SE => "SE".toList | .SW => "SW".toList
def Comp.isHalf : Comp → Bool | .N | .S | .E | .W => true | _ => false

/-- a dyadic box: binary address on each axis, most significant bit first (x: false = west, true = east;
    y: false = south, true = north) -/
structure Box where
  xs : List Bool
  ys : List Bool
  deriving DecidableEq, Repr
def Box.refine (b : Box) : Comp → Box
  | .N => { b with ys := b.ys ++ [true] }   | .S => { b with ys := b.ys ++ [false] }
  | .E => { b with xs := b.xs ++ [true] }   | .W => { b with xs := b.xs ++ [false] }
  | .NE => ⟨b.xs ++ [true], b.ys ++ [true]⟩   | .NW => ⟨b.xs ++ [false], b.ys ++ [true]⟩
  | .SE => ⟨b.xs ++ [true], b.ys ++ [false]⟩  | .SW => ⟨b.xs ++ [false], b.ys ++ [false]⟩
/-- region of a component list given LARGEST FIRST (as `parseComponents` receives it) -/
def region (comps : List Comp) : Box := comps.foldl Box.refine ⟨[], []⟩
def Box.trunc (b : Box) (d : Nat) : Box := ⟨b.xs.take d, b.ys.take d⟩
def Box.inside (a b : Box) : Prop := b.xs <+: a.xs ∧ b.ys <+: a.ys
def compat (p q : List Bool) : Prop := p <+: q ∨ q <+: p
def Box.overlaps (a b : Box) : Prop := compat a.xs b.xs ∧ compat a.ys b.ys
/-- area in units of 4^(-D) (use a D at least as large as every address length involved) -/
def Box.area (D : Nat) (b : Box) : Nat := 2 ^ (2 * D - b.xs.length - b.ys.length)

/-- one two-character token of a printed piece -/
def tokOf : Char → Char → Option Comp
  | 'N', '2' => some .N | 'S', '2' => some .S | 'E', '2' => some .E | 'W', '2' => some .W
  | 'N', 'E' => some .NE | 'N', 'W' => some .NW | 'S', 'E' => some .SE | 'S', 'W' => some .SW
  | _, _ => none
/-- tokens of a printed piece in printing order (smallest component first) -/
def pieceToks : Str → Option (List Comp)
  | [] => some []
  | [_] => none
  | a :: b :: rest =>
    match tokOf a b, pieceToks rest with
    | some c, some cs => some (c :: cs)
    | _, _ => none
/-- tokens of a printed piece, as components LARGEST FIRST; `none` if the string is not a sequence of
    two-character tokens "N2" "S2" "E2" "W2" "NE" "NW" "SE" "SW" -/
def pieceComps (p : Str) : Option (List Comp) := (pieceToks p).map List.reverse
def pieceBox (p : Str) : Option Box := (pieceComps p).map region

/-! ## Stage A — typed mirror -/

def Comp.isNS : Comp → Bool | .N | .S => true | _ => false
/-- the N/S letter of a quarter, as a half -/
def Comp.nsPart : Comp → Comp | .NE | .NW => .N | .SE | .SW => .S | c => c
/-- the E/W letter of a quarter, as a half -/
def Comp.ewPart : Comp → Comp | .NE | .SE => .E | .NW | .SW => .W | c => c
/-- quarter from an N/S half and an E/W half -/
def mkQ : Comp → Comp → Comp
  | .N, .E => .NE | .N, .W => .NW | .S, .E => .SE | .S, .W => .SW | a, _ => a

/-- typed `passBackLoop` (on the reversed list: smallest first) -/
def pblT : List Comp → List Comp
  | a :: b :: rest =>
    if b.isHalf && !a.isHalf then
      if b.isNS then a.nsPart :: pblT (mkQ b a.ewPart :: rest)
      else a.ewPart :: pblT (mkQ a.nsPart b :: rest)
    else a :: pblT (b :: rest)
  | l => l
termination_by l => l.length

def passBackT (l : List Comp) : List Comp := (pblT l.reverse).reverse

/-- typed `combineConsecutiveHalves` (largest first) -/
def combineT : List Comp → List Comp
  | a :: b :: rest =>
    if a.isHalf && b.isHalf && (a.isNS != b.isNS) then
      (if a.isNS then mkQ a b else mkQ b a) :: combineT rest
    else a :: combineT (b :: rest)
  | l => l
termination_by l => l.length

def stepT (l : List Comp) : List Comp := combineT (passBackT l)

theorem halves_eq : halves = [['N'], ['S'], ['E'], ['W']] := by decide
theorem quarters_eq : quarters = [['N','E'], ['N','W'], ['S','E'], ['S','W']] := by decide
theorem qqNS_eq : qqNS = [['N'], ['S']] := by decide
theorem sameAxis_eq : sameAxisTbl =
    [(['N'], [['N'], ['S']]), (['S'], [['N'], ['S']]), (['E'], [['E'], ['W']]), (['W'], [['E'], ['W']])] := by
  decide
theorem subdivDefs_eq : subdivDefs =
    [(['A','L','L'], [['N','E'], ['N','W'], ['S','E'], ['S','W']]), (['N'], [['N','E'], ['N','W']]),
     (['S'], [['S','E'], ['S','W']]), (['E'], [['N','E'], ['S','E']]), (['W'], [['N','W'], ['S','W']])] := by
  decide

theorem Comp.str_eq (c : Comp) : c.str = match c with
    | .N => ['N'] | .S => ['S'] | .E => ['E'] | .W => ['W']
    | .NE => ['N','E'] | .NW => ['N','W'] | .SE => ['S','E'] | .SW => ['S','W'] := by
  cases c <;> rfl

theorem Comp.str_injective : ∀ a b : Comp, a.str = b.str → a = b := by
  intro a b; cases a <;> cases b <;> simp [Comp.str_eq]

theorem map_str_injective : ∀ l m : List Comp, l.map Comp.str = m.map Comp.str → l = m := by
  intro l
  induction l with
  | nil => intro m h; cases m <;> simp_all
  | cons a l ih =>
    intro m h
    cases m with
    | nil => simp at h
    | cons b m =>
      simp only [List.map_cons, List.cons.injEq] at h
      rw [Comp.str_injective a b h.1, ih m h.2]

theorem halves_contains (c : Comp) : halves.contains c.str = c.isHalf := by
  cases c <;> simp [halves_eq, Comp.str_eq, Comp.isHalf]
theorem quarters_contains (c : Comp) : quarters.contains c.str = !c.isHalf := by
  cases c <;> simp [quarters_eq, Comp.str_eq, Comp.isHalf]

theorem pbl_step (a b : Comp) (rest : List Str) :
    passBackLoop (a.str :: b.str :: rest) =
      (if b.isHalf && !a.isHalf then
        if b.isNS then a.nsPart.str :: passBackLoop ((mkQ b a.ewPart).str :: rest)
        else a.ewPart.str :: passBackLoop ((mkQ a.nsPart b).str :: rest)
      else a.str :: passBackLoop (b.str :: rest)) := by
  rw [passBackLoop.eq_def]
  cases a <;> cases b <;> rfl

theorem passBackLoop_refines (l : List Comp) :
    passBackLoop (l.map Comp.str) = (pblT l).map Comp.str := by
  induction l using pblT.induct with
  | case1 a b rest h1 h2 ih =>
    rw [pblT, if_pos h1, if_pos h2]
    simp only [List.map_cons] at ih ⊢
    rw [pbl_step, if_pos h1, if_pos h2, ih]
  | case2 a b rest h1 h2 ih =>
    rw [pblT, if_pos h1, if_neg h2]
    simp only [List.map_cons] at ih ⊢
    rw [pbl_step, if_pos h1, if_neg h2, ih]
  | case3 a b rest h1 ih =>
    rw [pblT, if_neg h1]
    simp only [List.map_cons] at ih ⊢
    rw [pbl_step, if_neg h1, ih]
  | case4 l h =>
    match l, h with
    | [], _ => simp [pblT, passBackLoop]
    | [a], _ => simp [pblT, passBackLoop]
    | a :: b :: rest, h => exact absurd rfl (h a b rest)

theorem combine_cond (a b : Comp) :
    (halves.contains a.str && halves.contains b.str
        && !((lookup sameAxisTbl a.str).getD []).contains b.str)
      = (a.isHalf && b.isHalf && (a.isNS != b.isNS)) := by
  cases a <;> cases b <;> decide

theorem combine_newQ (a b : Comp) (h : (a.isHalf && b.isHalf && (a.isNS != b.isNS)) = true) :
    (if isInfix a.str ("EW".toList) then b.str ++ a.str else a.str ++ b.str)
      = (if a.isNS then mkQ a b else mkQ b a).str := by
  revert h
  cases a <;> cases b <;> decide

theorem combine_refines (l : List Comp) :
    combineConsecutiveHalves (l.map Comp.str) = (combineT l).map Comp.str := by
  induction l using combineT.induct with
  | case1 a b rest h ih =>
    rw [combineT]; simp only [h, if_true, List.map_cons]
    rw [combineConsecutiveHalves, combine_cond, ← ih]
    simp only [h, if_true, combine_newQ a b h]
  | case2 a b rest h ih =>
    rw [combineT, if_neg h]
    simp only [List.map_cons] at ih ⊢
    rw [combineConsecutiveHalves, combine_cond, if_neg h, ← ih]
  | case3 l h =>
    match l, h with
    | [], _ => simp [combineT, combineConsecutiveHalves]
    | [a], _ => simp [combineT, combineConsecutiveHalves]
    | a :: b :: rest, h => exact absurd rfl (h a b rest)

theorem passBackHalves_refines (l : List Comp) :
    passBackHalves (l.map Comp.str) = (passBackT l).map Comp.str := by
  simp only [passBackHalves, passBackT, ← List.map_reverse, passBackLoop_refines]

theorem standardizeStep_refines (l : List Comp) :
    standardizeStep (l.map Comp.str) = (stepT l).map Comp.str := by
  simp only [standardizeStep, stepT, passBackHalves_refines, combine_refines]

/-! ## Stage B — region preservation, termination, shape of the fixed point -/

def Comp.xb : Comp → List Bool
  | .E | .NE | .SE => [true] | .W | .NW | .SW => [false] | _ => []
def Comp.yb : Comp → List Bool
  | .N | .NE | .NW => [true] | .S | .SE | .SW => [false] | _ => []
def xbits (l : List Comp) : List Bool := l.flatMap Comp.xb
def ybits (l : List Comp) : List Bool := l.flatMap Comp.yb
/-- region relative to a starting box -/
def regionFrom (b : Box) (cs : List Comp) : Box := cs.foldl Box.refine b

theorem refine_eq (b : Box) (c : Comp) : b.refine c = ⟨b.xs ++ c.xb, b.ys ++ c.yb⟩ := by
  cases c <;> simp [Box.refine, Comp.xb, Comp.yb]

theorem regionFrom_eq (b : Box) (cs : List Comp) :
    regionFrom b cs = ⟨b.xs ++ xbits cs, b.ys ++ ybits cs⟩ := by
  induction cs generalizing b with
  | nil => simp [regionFrom, xbits, ybits]
  | cons c cs ih =>
    have : regionFrom b (c :: cs) = regionFrom (b.refine c) cs := rfl
    rw [this, ih, refine_eq]; simp [xbits, ybits]

theorem region_eq (cs : List Comp) : region cs = ⟨xbits cs, ybits cs⟩ := by
  have := regionFrom_eq ⟨[], []⟩ cs
  simpa [regionFrom, region] using this

@[simp] theorem xbits_nil : xbits [] = [] := rfl
@[simp] theorem ybits_nil : ybits [] = [] := rfl
@[simp] theorem xbits_cons (c : Comp) (l : List Comp) : xbits (c :: l) = c.xb ++ xbits l := by simp [xbits]
@[simp] theorem ybits_cons (c : Comp) (l : List Comp) : ybits (c :: l) = c.yb ++ ybits l := by simp [ybits]
@[simp] theorem xbits_append (l m : List Comp) : xbits (l ++ m) = xbits l ++ xbits m := by simp [xbits]
@[simp] theorem ybits_append (l m : List Comp) : ybits (l ++ m) = ybits l ++ ybits m := by simp [ybits]

theorem pbl_bits_NS (a b : Comp) (h1 : (b.isHalf && !a.isHalf) = true) (h2 : b.isNS = true) :
    (mkQ b a.ewPart).xb ++ a.nsPart.xb = b.xb ++ a.xb ∧ (mkQ b a.ewPart).yb ++ a.nsPart.yb = b.yb ++ a.yb := by
  revert h1 h2; cases a <;> cases b <;> decide
theorem pbl_bits_EW (a b : Comp) (h1 : (b.isHalf && !a.isHalf) = true) (h2 : ¬ b.isNS = true) :
    (mkQ a.nsPart b).xb ++ a.ewPart.xb = b.xb ++ a.xb ∧ (mkQ a.nsPart b).yb ++ a.ewPart.yb = b.yb ++ a.yb := by
  revert h1 h2; cases a <;> cases b <;> decide

theorem pblT_bits (r : List Comp) :
    xbits (pblT r).reverse = xbits r.reverse ∧ ybits (pblT r).reverse = ybits r.reverse := by
  induction r using pblT.induct with
  | case1 a b rest h1 h2 ih =>
    rw [pblT, if_pos h1, if_pos h2]
    have := pbl_bits_NS a b h1 h2
    simp only [List.reverse_cons, xbits_append, ybits_append, xbits_cons, ybits_cons, xbits_nil, ybits_nil,
      List.append_nil, List.append_assoc] at ih ⊢
    rw [ih.1, ih.2, List.append_assoc, List.append_assoc, this.1, this.2]; simp
  | case2 a b rest h1 h2 ih =>
    rw [pblT, if_pos h1, if_neg h2]
    have := pbl_bits_EW a b h1 h2
    simp only [List.reverse_cons, xbits_append, ybits_append, xbits_cons, ybits_cons, xbits_nil, ybits_nil,
      List.append_nil, List.append_assoc] at ih ⊢
    rw [ih.1, ih.2, List.append_assoc, List.append_assoc, this.1, this.2]; simp
  | case3 a b rest h1 ih =>
    rw [pblT, if_neg h1]
    simp only [List.reverse_cons, xbits_append, ybits_append, xbits_cons, ybits_cons, xbits_nil, ybits_nil,
      List.append_nil, List.append_assoc] at ih ⊢
    rw [ih.1, ih.2]; simp
  | case4 l h =>
    match l, h with
    | [], _ => simp [pblT]
    | [a], _ => simp [pblT]
    | a :: b :: rest, h => exact absurd rfl (h a b rest)

theorem passBackT_bits (l : List Comp) :
    xbits (passBackT l) = xbits l ∧ ybits (passBackT l) = ybits l := by
  have := pblT_bits l.reverse
  simpa [passBackT] using this

theorem combine_bits (a b : Comp) (h : (a.isHalf && b.isHalf && (a.isNS != b.isNS)) = true) :
    (if a.isNS then mkQ a b else mkQ b a).xb = a.xb ++ b.xb ∧
    (if a.isNS then mkQ a b else mkQ b a).yb = a.yb ++ b.yb := by
  revert h; cases a <;> cases b <;> decide

theorem combineT_bits (l : List Comp) :
    xbits (combineT l) = xbits l ∧ ybits (combineT l) = ybits l := by
  induction l using combineT.induct with
  | case1 a b rest h ih =>
    rw [combineT, if_pos h]
    have := combine_bits a b h
    simp only [xbits_cons, ybits_cons, ih.1, ih.2, this.1, this.2, List.append_assoc, and_self]
  | case2 a b rest h ih =>
    rw [combineT, if_neg h]
    simp only [xbits_cons, ybits_cons] at ih ⊢
    simp only [ih.1, ih.2, and_self]
  | case3 l h =>
    match l, h with
    | [], _ => simp [combineT]
    | [a], _ => simp [combineT]
    | a :: b :: rest, h => exact absurd rfl (h a b rest)

theorem stepT_bits (l : List Comp) : xbits (stepT l) = xbits l ∧ ybits (stepT l) = ybits l := by
  unfold stepT
  rw [(combineT_bits _).1, (combineT_bits _).2]; exact passBackT_bits l

/-- each standardisation step preserves the region, bit for bit -/
theorem region_stepT (l : List Comp) : region (stepT l) = region l := by
  rw [region_eq, region_eq, (stepT_bits l).1, (stepT_bits l).2]
theorem region_passBackT (l : List Comp) : region (passBackT l) = region l := by
  rw [region_eq, region_eq, (passBackT_bits l).1, (passBackT_bits l).2]
theorem region_combineT (l : List Comp) : region (combineT l) = region l := by
  rw [region_eq, region_eq, (combineT_bits l).1, (combineT_bits l).2]

/-! ### termination measure -/

def countH (r : List Comp) : Nat := r.countP Comp.isHalf
/-- inversions on the reversed (smallest first) list: a quarter with a half somewhere after it -/
def invR : List Comp → Nat
  | [] => 0
  | c :: r => (if c.isHalf then 0 else countH r) + invR r

@[simp] theorem countH_cons (c : Comp) (r : List Comp) :
    countH (c :: r) = countH r + (if c.isHalf then 1 else 0) := by
  simp [countH, List.countP_cons]

theorem countH_le (r : List Comp) : countH r ≤ r.length := List.countP_le_length

theorem pbl_kinds_NS (a b : Comp) (h1 : (b.isHalf && !a.isHalf) = true) (h2 : b.isNS = true) :
    a.nsPart.isHalf = true ∧ (mkQ b a.ewPart).isHalf = false := by
  revert h1 h2; cases a <;> cases b <;> decide
theorem pbl_kinds_EW (a b : Comp) (h1 : (b.isHalf && !a.isHalf) = true) (h2 : ¬ b.isNS = true) :
    a.ewPart.isHalf = true ∧ (mkQ a.nsPart b).isHalf = false := by
  revert h1 h2; cases a <;> cases b <;> decide

theorem pblT_length (r : List Comp) : (pblT r).length = r.length := by
  induction r using pblT.induct with
  | case1 a b rest h1 h2 ih => rw [pblT, if_pos h1, if_pos h2]; simp_all
  | case2 a b rest h1 h2 ih => rw [pblT, if_pos h1, if_neg h2]; simp_all
  | case3 a b rest h1 ih => rw [pblT, if_neg h1]; simp_all
  | case4 l h =>
    match l, h with
    | [], _ => simp [pblT]
    | [a], _ => simp [pblT]
    | a :: b :: rest, h => exact absurd rfl (h a b rest)

theorem pblT_countH (r : List Comp) : countH (pblT r) = countH r := by
  induction r using pblT.induct with
  | case1 a b rest h1 h2 ih =>
    rw [pblT, if_pos h1, if_pos h2]
    have k := pbl_kinds_NS a b h1 h2
    simp only [Bool.and_eq_true, Bool.not_eq_true'] at h1
    simp_all
  | case2 a b rest h1 h2 ih =>
    rw [pblT, if_pos h1, if_neg h2]
    have k := pbl_kinds_EW a b h1 h2
    simp only [Bool.and_eq_true, Bool.not_eq_true'] at h1
    simp_all
  | case3 a b rest h1 ih => rw [pblT, if_neg h1]; simp_all
  | case4 l h =>
    match l, h with
    | [], _ => simp [pblT]
    | [a], _ => simp [pblT]
    | a :: b :: rest, h => exact absurd rfl (h a b rest)

theorem pblT_invR (r : List Comp) :
    invR (pblT r) ≤ invR r ∧ (pblT r = r ∨ invR (pblT r) < invR r) := by
  induction r using pblT.induct with
  | case1 a b rest h1 h2 ih =>
    rw [pblT, if_pos h1, if_pos h2]
    have k := pbl_kinds_NS a b h1 h2
    simp only [Bool.and_eq_true, Bool.not_eq_true'] at h1
    have e1 : invR (a.nsPart :: pblT (mkQ b a.ewPart :: rest)) = invR (pblT (mkQ b a.ewPart :: rest)) := by
      simp [invR, k.1]
    have e2 : invR (mkQ b a.ewPart :: rest) = countH rest + invR rest := by simp [invR, k.2]
    have e3 : invR (a :: b :: rest) = countH rest + 1 + invR rest := by simp [invR, h1.1, h1.2]
    rw [e1, e3]; rw [e2] at ih; omega
  | case2 a b rest h1 h2 ih =>
    rw [pblT, if_pos h1, if_neg h2]
    have k := pbl_kinds_EW a b h1 h2
    simp only [Bool.and_eq_true, Bool.not_eq_true'] at h1
    have e1 : invR (a.ewPart :: pblT (mkQ a.nsPart b :: rest)) = invR (pblT (mkQ a.nsPart b :: rest)) := by
      simp [invR, k.1]
    have e2 : invR (mkQ a.nsPart b :: rest) = countH rest + invR rest := by simp [invR, k.2]
    have e3 : invR (a :: b :: rest) = countH rest + 1 + invR rest := by simp [invR, h1.1, h1.2]
    rw [e1, e3]; rw [e2] at ih; omega
  | case3 a b rest h1 ih =>
    rw [pblT, if_neg h1]
    have e1 : invR (a :: pblT (b :: rest)) = (if a.isHalf then 0 else countH (b :: rest)) + invR (pblT (b :: rest)) := by
      rw [invR, pblT_countH]
    have e2 : invR (a :: b :: rest) = (if a.isHalf then 0 else countH (b :: rest)) + invR (b :: rest) := by
      rw [invR]
    rw [e1, e2]
    refine ⟨by omega, ?_⟩
    rcases ih.2 with h | h
    · left; rw [h]
    · right; omega
  | case4 l h =>
    match l, h with
    | [], _ => simp [pblT]
    | [a], _ => simp [pblT]
    | a :: b :: rest, h => exact absurd rfl (h a b rest)

theorem invR_le_sq (r : List Comp) : invR r ≤ r.length * r.length := by
  induction r with
  | nil => simp [invR]
  | cons c r ih =>
    have := countH_le r
    have e : (r.length + 1) * (r.length + 1) = r.length * r.length + 2 * r.length + 1 := by
      simp only [Nat.add_mul, Nat.mul_add]; omega
    simp only [invR, List.length_cons, e]
    split <;> omega

theorem combineT_length (l : List Comp) :
    combineT l = l ∨ (combineT l).length < l.length := by
  induction l using combineT.induct with
  | case1 a b rest h ih =>
    rw [combineT, if_pos h]; right
    rcases ih with h | h
    · rw [h]; simp
    · simp; omega
  | case2 a b rest h ih =>
    rw [combineT, if_neg h]
    rcases ih with h | h
    · left; rw [h]
    · right; simpa using h
  | case3 l h =>
    match l, h with
    | [], _ => simp [combineT]
    | [a], _ => simp [combineT]
    | a :: b :: rest, h => exact absurd rfl (h a b rest)

theorem passBackT_length (l : List Comp) : (passBackT l).length = l.length := by
  simp [passBackT, pblT_length]

/-- per-length weight of the measure -/
def wG : Nat → Nat
  | 0 => 0
  | k+1 => wG k + k * k + 1

theorem wG_mono {a b : Nat} (h : a ≤ b) : wG a ≤ wG b := by
  induction b with
  | zero => have : a = 0 := by omega
            subst this; exact Nat.le_refl _
  | succ b ih =>
    by_cases hb : a = b + 1
    · subst hb; exact Nat.le_refl _
    · have := ih (by omega); simp only [wG]; omega

/-- the termination measure of the `while a != copy` loop -/
def mu (l : List Comp) : Nat := wG l.length + invR l.reverse

theorem stepT_fixed_iff (l : List Comp) : stepT l = l ↔ (passBackT l = l ∧ combineT l = l) := by
  constructor
  · intro h
    have hp : passBackT l = l := by
      rcases combineT_length (passBackT l) with h1 | h1
      · unfold stepT at h; rw [h1] at h; exact h
      · exfalso; unfold stepT at h; rw [h, passBackT_length] at h1; omega
    refine ⟨hp, ?_⟩
    unfold stepT at h; rw [hp] at h; exact h
  · rintro ⟨h1, h2⟩; unfold stepT; rw [h1, h2]

theorem mu_stepT_lt (l : List Comp) (h : stepT l ≠ l) : mu (stepT l) < mu l := by
  have hlen := passBackT_length l
  have hinv := pblT_invR l.reverse
  have hinv' : invR (passBackT l).reverse = invR (pblT l.reverse) := by simp [passBackT]
  rcases combineT_length (passBackT l) with h1 | h1
  · have e : stepT l = passBackT l := h1
    rw [e] at h ⊢
    have hne : pblT l.reverse ≠ l.reverse := by
      intro hh; apply h; simp [passBackT, hh]
    unfold mu; rw [hlen, hinv']
    rcases hinv.2 with h2 | h2
    · exact absurd h2 hne
    · omega
  · have hk : (stepT l).length + 1 ≤ l.length := by
      have : (stepT l).length < (passBackT l).length := h1
      omega
    have h3 := invR_le_sq (stepT l).reverse
    have h4 : wG ((stepT l).length + 1) ≤ wG l.length := wG_mono hk
    unfold mu
    simp only [List.length_reverse, wG] at h3 h4
    omega

theorem wG_budget (n : Nat) : wG n + n * n ≤ n * n * n + 2 * n + 1 := by
  induction n with
  | zero => simp [wG]
  | succ n ih =>
    have e2 : (n + 1) * (n + 1) = n * n + 2 * n + 1 := by
      simp only [Nat.add_mul, Nat.mul_add]; omega
    have e3 : (n + 1) * (n + 1) * (n + 1) = n * n * n + 3 * (n * n) + 3 * n + 1 := by
      rw [e2]; simp only [Nat.add_mul, Nat.mul_add, Nat.mul_one, Nat.one_mul]
      have : n * n * n + 2 * n * n + n + (n * n + 2 * n + 1) = n * n * n + 3 * (n * n) + 3 * n + 1 := by
        have : 2 * n * n = 2 * (n * n) := Nat.mul_assoc 2 n n
        omega
      exact this
    rw [e3, e2, wG]
    omega

theorem mu_budget (l : List Comp) : mu l + 2 ≤ standardizeBudget l.length := by
  have h1 := invR_le_sq l.reverse
  have h2 := wG_budget l.length
  simp only [List.length_reverse] at h1
  unfold mu standardizeBudget
  omega

/-! ### the loop terminates within the model's fuel -/

theorem map_str_beq_false {l c : List Comp} (h : l ≠ c) : (l.map Comp.str == c.map Comp.str) = false := by
  rw [beq_eq_false_iff_ne]
  intro hh; exact h (map_str_injective _ _ hh)

theorem stdFuel_ok : ∀ (N : Nat) (l copy : List Comp) (fuel : Nat), mu l ≤ N → l ≠ copy → mu l + 2 ≤ fuel →
    ∃ r, standardizeFuel fuel (l.map Comp.str) (copy.map Comp.str) = some (r.map Comp.str) ∧
      stepT r = r ∧ region r = region l := by
  intro N
  induction N with
  | zero =>
    intro l copy fuel hN hne hf
    obtain ⟨f, rfl⟩ : ∃ f, fuel = f + 2 := ⟨fuel - 2, by omega⟩
    by_cases hs : stepT l = l
    · refine ⟨l, ?_, hs, rfl⟩
      rw [standardizeFuel, map_str_beq_false hne]
      simp only [Bool.false_eq_true, if_false]
      rw [standardizeStep_refines, hs, standardizeFuel]; simp
    · have := mu_stepT_lt l hs; omega
  | succ N ih =>
    intro l copy fuel hN hne hf
    obtain ⟨f, rfl⟩ : ∃ f, fuel = f + 2 := ⟨fuel - 2, by omega⟩
    by_cases hs : stepT l = l
    · refine ⟨l, ?_, hs, rfl⟩
      rw [standardizeFuel, map_str_beq_false hne]
      simp only [Bool.false_eq_true, if_false]
      rw [standardizeStep_refines, hs, standardizeFuel]; simp
    · have hlt := mu_stepT_lt l hs
      obtain ⟨r, h1, h2, h3⟩ := ih (stepT l) l (f + 1) (by omega) hs (by omega)
      refine ⟨r, ?_, h2, by rw [h3, region_stepT]⟩
      rw [standardizeFuel, map_str_beq_false hne]
      simp only [Bool.false_eq_true, if_false]
      rw [standardizeStep_refines]; exact h1

/-- the standardisation loop terminates within the model's fuel, on a fixed point of the step, and
    the region is preserved -/
theorem standardize_ok (l : List Comp) (hl : l ≠ []) :
    ∃ r, standardize (l.map Comp.str) = some (r.map Comp.str) ∧ stepT r = r ∧ region r = region l := by
  have := stdFuel_ok (mu l) l [] (standardizeBudget l.length) (Nat.le_refl _) hl (mu_budget l)
  simpa [standardize] using this

/-! ### shape of the fixed point: quarters first, then halves all on one axis -/

/-- standard form: once a half occurs, everything after it is a half on the same axis -/
def Std (l : List Comp) : Prop :=
  l.Pairwise (fun a b => a.isHalf = true → b.isHalf = true ∧ b.isNS = a.isNS)

theorem pblT_fixed_sorted (r : List Comp) (h : pblT r = r) :
    r.Pairwise (fun a b => ¬ (b.isHalf = true ∧ a.isHalf = false)) := by
  induction r using pblT.induct with
  | case1 a b rest h1 h2 ih =>
    rw [pblT, if_pos h1, if_pos h2] at h
    have k := pbl_kinds_NS a b h1 h2
    simp only [Bool.and_eq_true, Bool.not_eq_true'] at h1
    simp only [List.cons.injEq] at h
    have k1 := k.1
    rw [h.1, h1.2] at k1; cases k1
  | case2 a b rest h1 h2 ih =>
    rw [pblT, if_pos h1, if_neg h2] at h
    have k := pbl_kinds_EW a b h1 h2
    simp only [Bool.and_eq_true, Bool.not_eq_true'] at h1
    simp only [List.cons.injEq] at h
    have k1 := k.1
    rw [h.1, h1.2] at k1; cases k1
  | case3 a b rest h1 ih =>
    rw [pblT, if_neg h1] at h
    simp only [List.cons.injEq, true_and] at h
    have ih := ih h
    rw [List.pairwise_cons]
    refine ⟨?_, ih⟩
    intro x hx ⟨hxh, hah⟩
    have hb : b.isHalf = false := by
      cases hbb : b.isHalf
      · rfl
      · exfalso; apply h1; simp [hbb, hah]
    rcases List.mem_cons.1 hx with rfl | hx
    · simp [hb] at hxh
    · rw [List.pairwise_cons] at ih
      exact ih.1 x hx ⟨hxh, hb⟩
  | case4 l h' =>
    match l, h' with
    | [], _ => simp
    | [a], _ => simp
    | a :: b :: rest, h' => exact absurd rfl (h' a b rest)

theorem passBackT_fixed_sorted (l : List Comp) (h : passBackT l = l) :
    l.Pairwise (fun a b => ¬ (a.isHalf = true ∧ b.isHalf = false)) := by
  have h' : pblT l.reverse = l.reverse := by
    have := congrArg List.reverse h
    simpa [passBackT] using this
  have := pblT_fixed_sorted _ h'
  rw [List.pairwise_reverse] at this
  exact this

theorem combineT_cons_fixed {a : Comp} {rest : List Comp} (h : combineT (a :: rest) = a :: rest) :
    combineT rest = rest ∧
      (∀ b rest', rest = b :: rest' → ¬ ((a.isHalf && b.isHalf && (a.isNS != b.isNS)) = true)) := by
  cases rest with
  | nil => simp [combineT]
  | cons b rest' =>
    by_cases hc : (a.isHalf && b.isHalf && (a.isNS != b.isNS)) = true
    · exfalso
      rw [combineT, if_pos hc] at h
      have hl := congrArg List.length h
      rcases combineT_length rest' with h2 | h2
      · rw [h2] at hl; simp at hl
      · simp at hl; omega
    · rw [combineT, if_neg hc] at h
      simp only [List.cons.injEq, true_and] at h
      refine ⟨h, ?_⟩
      intro b' r' he
      simp only [List.cons.injEq] at he
      rw [← he.1]; exact hc

theorem fixed_Std (l : List Comp) (hs : l.Pairwise (fun a b => ¬ (a.isHalf = true ∧ b.isHalf = false)))
    (hc : combineT l = l) : Std l := by
  induction l with
  | nil => exact List.Pairwise.nil
  | cons a rest ih =>
    rw [List.pairwise_cons] at hs
    obtain ⟨hc1, hc2⟩ := combineT_cons_fixed hc
    have ihr : Std rest := ih hs.2 hc1
    unfold Std; rw [List.pairwise_cons]
    refine ⟨?_, ihr⟩
    intro x hx ha
    have hall : ∀ y ∈ rest, y.isHalf = true := by
      intro y hy
      have := hs.1 y hy
      cases hyh : y.isHalf
      · exact absurd ⟨ha, hyh⟩ this
      · rfl
    refine ⟨hall x hx, ?_⟩
    cases rest with
    | nil => cases hx
    | cons b rest' =>
      have hb : b.isHalf = true := hall b (List.mem_cons_self ..)
      have hab : b.isNS = a.isNS := by
        have := hc2 b rest' rfl
        simp only [ha, hb, Bool.and_self, Bool.true_and, bne_iff_ne, ne_eq, Decidable.not_not] at this
        exact this.symm
      rcases List.mem_cons.1 hx with rfl | hx
      · exact hab
      · unfold Std at ihr; rw [List.pairwise_cons] at ihr
        rw [(ihr.1 x hx hb).2, hab]

/-- a fixed point of the standardisation step is in standard form -/
theorem stepT_fixed_Std (l : List Comp) (h : stepT l = l) : Std l := by
  rw [stepT_fixed_iff] at h
  exact fixed_Std l (passBackT_fixed_sorted l h.1) h.2

theorem Std.take {l : List Comp} (h : Std l) (m : Nat) : Std (l.take m) :=
  List.Pairwise.sublist (List.take_sublist _ _) h

theorem Std.tail {a : Comp} {l : List Comp} (h : Std (a :: l)) : Std l := by
  unfold Std at h; rw [List.pairwise_cons] at h; exact h.2

theorem half_bits (c : Comp) (h : c.isHalf = true) :
    (c.isNS = true → c.xb = []) ∧ (c.isNS = false → c.yb = []) := by
  revert h; cases c <;> decide

/-- after an N/S half only N/S halves follow: no more x bits; likewise for E/W and y bits -/
theorem Std.rest_bits {a : Comp} {l : List Comp} (h : Std (a :: l)) (ha : a.isHalf = true) :
    (a.isNS = true → xbits l = []) ∧ (a.isNS = false → ybits l = []) := by
  unfold Std at h; rw [List.pairwise_cons] at h
  constructor
  · intro hn
    simp only [xbits, List.flatMap_eq_nil_iff]
    intro x hx
    have := h.1 x hx ha
    exact (half_bits x this.1).1 (by rw [this.2, hn])
  · intro hn
    simp only [ybits, List.flatMap_eq_nil_iff]
    intro x hx
    have := h.1 x hx ha
    exact (half_bits x this.1).2 (by rw [this.2, hn])

theorem bits_len (c : Comp) :
    (c.xb = [] ∧ c.isHalf = true ∧ c.isNS = true ∨ ∃ b, c.xb = [b]) ∧
    (c.yb = [] ∧ c.isHalf = true ∧ c.isNS = false ∨ ∃ b, c.yb = [b]) := by
  cases c <;> simp [Comp.xb, Comp.yb, Comp.isHalf, Comp.isNS]

/-- for a list in standard form, keeping the first `m` components truncates the box at depth `m` -/
theorem Std.bits_take {l : List Comp} (h : Std l) (m : Nat) :
    xbits (l.take m) = (xbits l).take m ∧ ybits (l.take m) = (ybits l).take m := by
  induction l generalizing m with
  | nil => simp
  | cons a l ih =>
    cases m with
    | zero => simp
    | succ m =>
      have ih := ih h.tail m
      simp only [List.take_succ_cons, xbits_cons, ybits_cons, ih.1, ih.2]
      constructor
      · rcases (bits_len a).1 with ⟨h1, h2, h3⟩ | ⟨b, hb⟩
        · rw [h1, (h.rest_bits h2).1 h3]; simp
        · rw [hb]; simp
      · rcases (bits_len a).2 with ⟨h1, h2, h3⟩ | ⟨b, hb⟩
        · rw [h1, (h.rest_bits h2).2 h3]; simp
        · rw [hb]; simp

theorem Std.region_take {l : List Comp} (h : Std l) (m : Nat) :
    region (l.take m) = (region l).trunc m := by
  rw [region_eq, region_eq, (h.bits_take m).1, (h.bits_take m).2]; rfl

theorem bits_length_le (l : List Comp) : (xbits l).length ≤ l.length ∧ (ybits l).length ≤ l.length := by
  induction l with
  | nil => simp
  | cons a l ih =>
    simp only [xbits_cons, ybits_cons, List.length_append, List.length_cons]
    constructor
    · rcases (bits_len a).1 with ⟨h1, _⟩ | ⟨b, hb⟩
      · rw [h1]; simp; omega
      · rw [hb]; simp; omega
    · rcases (bits_len a).2 with ⟨h1, _⟩ | ⟨b, hb⟩
      · rw [h1]; simp; omega
      · rw [hb]; simp; omega

theorem region_trunc_of_le (l : List Comp) (m : Nat) (h : l.length ≤ m) : (region l).trunc m = region l := by
  have := bits_length_le l
  rw [region_eq]; simp only [Box.trunc]
  rw [List.take_of_length_le (by omega), List.take_of_length_le (by omega)]

theorem region_ne_of_ne_nil (l : List Comp) (h : l ≠ []) : region l ≠ ⟨[], []⟩ := by
  rw [region_eq]
  intro hh
  simp only [Box.mk.injEq] at hh
  cases l with
  | nil => exact h rfl
  | cons a l =>
    simp only [xbits_cons, ybits_cons, List.append_eq_nil_iff] at hh
    have := hh.1.1; have := hh.2.1
    revert this; revert this; cases a <;> simp [Comp.xb, Comp.yb]

/-- **C02_region_standardize** (typed mirror, linked to the string-level model):
    the `while a != copy` loop of the model terminates within the supplied fuel; its result is the image
    of a typed list `r` that describes exactly the same region as the input chain and is in standard form
    (quarters first, then halves all on one axis). -/
theorem C02_region_standardize (chain : List Comp) (hne : chain ≠ []) :
    ∃ r, standardize (chain.map Comp.str) = some (r.map Comp.str) ∧
      region r = region chain ∧ Std r ∧ stepT r = r ∧ r ≠ [] := by
  obtain ⟨r, h1, h2, h3⟩ := standardize_ok chain hne
  refine ⟨r, h1, h3, stepT_fixed_Std r h2, h2, ?_⟩
  intro hr
  apply region_ne_of_ne_nil chain hne
  rw [← h3, hr]; rfl

/-! ## Stage C — tilings -/

def Box.fits (D : Nat) (b : Box) : Prop := b.xs.length ≤ D ∧ b.ys.length ≤ D

/-- the list of boxes `P` tiles the box `R` -/
structure Tiling (P : List Box) (R : Box) : Prop where
  ne : P ≠ []
  inside : ∀ p ∈ P, p.inside R
  disj : P.Pairwise (fun p q => ¬ p.overlaps q)
  area : ∀ D, (∀ p ∈ P, p.fits D) → (P.map (Box.area D)).sum = R.area D

theorem Box.inside_refl (b : Box) : b.inside b := ⟨List.prefix_refl _, List.prefix_refl _⟩
theorem Box.inside_trans {a b c : Box} (h1 : a.inside b) (h2 : b.inside c) : a.inside c :=
  ⟨h2.1.trans h1.1, h2.2.trans h1.2⟩

theorem compat_of_prefix {p q r s : List Bool} (h : compat p q) (hr : r <+: p) (hs : s <+: q) : compat r s := by
  rcases h with h | h
  · exact List.prefix_or_prefix_of_prefix (hr.trans h) hs
  · exact List.prefix_or_prefix_of_prefix hr (hs.trans h)

theorem not_overlaps_of_inside {a b R1 R2 : Box} (ha : a.inside R1) (hb : b.inside R2)
    (h : ¬ R1.overlaps R2) : ¬ a.overlaps b := by
  intro hab
  exact h ⟨compat_of_prefix hab.1 ha.1 hb.1, compat_of_prefix hab.2 ha.2 hb.2⟩

theorem not_compat_snoc (l : List Bool) : ¬ compat (l ++ [true]) (l ++ [false]) := by
  intro h
  rcases h with h | h
  · have := h.eq_of_length (by simp); simp at this
  · have := h.eq_of_length (by simp); simp at this

/-- `R1` and `R2` are the two halves of `R` (east/west or north/south) -/
def IsSplit (R R1 R2 : Box) : Prop :=
  (R1 = ⟨R.xs ++ [true], R.ys⟩ ∧ R2 = ⟨R.xs ++ [false], R.ys⟩) ∨
  (R1 = ⟨R.xs, R.ys ++ [true]⟩ ∧ R2 = ⟨R.xs, R.ys ++ [false]⟩)

theorem IsSplit.inside1 {R R1 R2 : Box} (h : IsSplit R R1 R2) : R1.inside R := by
  rcases h with ⟨rfl, rfl⟩ | ⟨rfl, rfl⟩ <;> exact ⟨by simp, by simp⟩
theorem IsSplit.inside2 {R R1 R2 : Box} (h : IsSplit R R1 R2) : R2.inside R := by
  rcases h with ⟨rfl, rfl⟩ | ⟨rfl, rfl⟩ <;> exact ⟨by simp, by simp⟩
theorem IsSplit.disjoint {R R1 R2 : Box} (h : IsSplit R R1 R2) : ¬ R1.overlaps R2 := by
  rcases h with ⟨rfl, rfl⟩ | ⟨rfl, rfl⟩
  · intro hh; exact not_compat_snoc _ hh.1
  · intro hh; exact not_compat_snoc _ hh.2

theorem two_pow_split (e : Nat) : 2 ^ e + 2 ^ e = 2 ^ (e + 1) := by
  rw [Nat.pow_succ]; omega

theorem IsSplit.area {R R1 R2 : Box} (h : IsSplit R R1 R2) (D : Nat) (hf : R1.fits D) :
    R1.area D + R2.area D = R.area D := by
  rcases h with ⟨rfl, rfl⟩ | ⟨rfl, rfl⟩
  · simp only [Box.fits, List.length_append, List.length_cons, List.length_nil] at hf
    simp only [Box.area, List.length_append, List.length_cons, List.length_nil]
    rw [two_pow_split]; congr 1; omega
  · simp only [Box.fits, List.length_append, List.length_cons, List.length_nil] at hf
    simp only [Box.area, List.length_append, List.length_cons, List.length_nil]
    rw [two_pow_split]; congr 1; omega

theorem Box.fits_of_inside {a b : Box} {D : Nat} (h : a.inside b) (hf : a.fits D) : b.fits D :=
  ⟨Nat.le_trans h.1.length_le hf.1, Nat.le_trans h.2.length_le hf.2⟩

theorem Tiling.fits {P : List Box} {R : Box} (t : Tiling P R) {D : Nat} (hf : ∀ p ∈ P, p.fits D) :
    R.fits D := by
  cases P with
  | nil => exact absurd rfl t.ne
  | cons p P => exact Box.fits_of_inside (t.inside p (List.mem_cons_self ..)) (hf p (List.mem_cons_self ..))

theorem Tiling.single (R : Box) : Tiling [R] R where
  ne := by simp
  inside := by intro p hp; simp at hp; subst hp; exact Box.inside_refl _
  disj := by simp
  area := by intro D _; simp

theorem Tiling.union {R R1 R2 : Box} {P1 P2 : List Box} (h : IsSplit R R1 R2)
    (t1 : Tiling P1 R1) (t2 : Tiling P2 R2) : Tiling (P1 ++ P2) R where
  ne := by
    intro hh
    exact t1.ne (List.append_eq_nil_iff.1 hh).1
  inside := by
    intro p hp
    rcases List.mem_append.1 hp with hp | hp
    · exact Box.inside_trans (t1.inside p hp) h.inside1
    · exact Box.inside_trans (t2.inside p hp) h.inside2
  disj := by
    rw [List.pairwise_append]
    refine ⟨t1.disj, t2.disj, ?_⟩
    intro a ha b hb
    exact not_overlaps_of_inside (t1.inside a ha) (t2.inside b hb) h.disjoint
  area := by
    intro D hf
    have hf1 : ∀ p ∈ P1, p.fits D := fun p hp => hf p (List.mem_append_left _ hp)
    have hf2 : ∀ p ∈ P2, p.fits D := fun p hp => hf p (List.mem_append_right _ hp)
    rw [List.map_append, List.sum_append, t1.area D hf1, t2.area D hf2]
    exact h.area D (t1.fits hf1)

/-! ### typed pieces (each piece is a component list, LARGEST first) -/

/-- typed `second.flatMap (fun shallow => deepest.map (fun deep => deep ++ shallow))` -/
def crossT (sh deep : List (List Comp)) : List (List Comp) :=
  sh.flatMap (fun s => deep.map (fun d => s ++ d))
/-- typed `rebuildAliquots` (levels largest first) -/
def rbT : List (List (List Comp)) → List (List Comp)
  | [] => [[]]
  | a :: rest => crossT a (rbT rest)
def allQ : List Comp := [.NE, .NW, .SE, .SW]
def quartersT : List (List Comp) := allQ.map ([·])
def splitH : Comp → List Comp
  | .N => [.NE, .NW] | .S => [.SE, .SW] | .E => [.NE, .SE] | .W => [.NW, .SW] | c => [c]
/-- all quarterings to depth `k` -/
def Qs (k : Nat) : List (List Comp) := rbT (List.replicate k quartersT)
/-- typed `subdivideAliquot` -/
def subT (c : Comp) (d : Int) : List (List Comp) :=
  if d ≤ 0 then [[c]]
  else if c.isHalf then rbT ((splitH c).map ([·]) :: List.replicate (d.toNat - 1) quartersT)
  else rbT ([[c]] :: List.replicate d.toNat quartersT)

theorem regionFrom_cons (b : Box) (c : Comp) (p : List Comp) :
    regionFrom b (c :: p) = regionFrom (b.refine c) p := rfl

theorem map_cons_regionFrom (b : Box) (c : Comp) (P : List (List Comp)) :
    (P.map (fun p => c :: p)).map (regionFrom b) = P.map (regionFrom (b.refine c)) := by
  rw [List.map_map]; rfl

theorem crossT_single (c : Comp) (P : List (List Comp)) : crossT [[c]] P = P.map (fun p => c :: p) := by
  simp [crossT]
theorem crossT_pair (c1 c2 : Comp) (P : List (List Comp)) :
    crossT [[c1], [c2]] P = P.map (fun p => c1 :: p) ++ P.map (fun p => c2 :: p) := by
  simp [crossT]
theorem crossT_quarters (P : List (List Comp)) :
    crossT quartersT P = (P.map (fun p => Comp.NE :: p) ++ P.map (fun p => Comp.NW :: p)) ++
      (P.map (fun p => Comp.SE :: p) ++ P.map (fun p => Comp.SW :: p)) := by
  simp [crossT, quartersT, allQ]
theorem crossT_nil_right (L : List (List Comp)) : crossT L [[]] = L := by
  simp [crossT]

theorem Qs_zero : Qs 0 = [[]] := rfl
theorem Qs_succ (k : Nat) : Qs (k + 1) = crossT quartersT (Qs k) := rfl

theorem split_x (b : Box) (c1 c2 c : Comp) (h1 : c1.xb = c.xb ++ [true]) (h2 : c2.xb = c.xb ++ [false])
    (h3 : c1.yb = c.yb) (h4 : c2.yb = c.yb) : IsSplit (b.refine c) (b.refine c1) (b.refine c2) := by
  left; simp [refine_eq, h1, h2, h3, h4]
theorem split_y (b : Box) (c1 c2 c : Comp) (h1 : c1.yb = c.yb ++ [true]) (h2 : c2.yb = c.yb ++ [false])
    (h3 : c1.xb = c.xb) (h4 : c2.xb = c.xb) : IsSplit (b.refine c) (b.refine c1) (b.refine c2) := by
  right; simp [refine_eq, h1, h2, h3, h4]

/-- whole box = north half + south half (as a "refine by nothing" statement) -/
theorem split_NS (b : Box) : IsSplit b (b.refine .N) (b.refine .S) := by
  right; simp [refine_eq, Comp.xb, Comp.yb]

/-- all quarterings to depth `k` tile the box they start from -/
theorem Qs_tiles (k : Nat) : ∀ b : Box, Tiling ((Qs k).map (regionFrom b)) b := by
  induction k with
  | zero => intro b; exact Tiling.single b
  | succ k ih =>
    intro b
    rw [Qs_succ, crossT_quarters]
    simp only [List.map_append, map_cons_regionFrom]
    refine Tiling.union (split_NS b) ?_ ?_
    · exact Tiling.union (split_x b .NE .NW .N rfl rfl rfl rfl) (ih _) (ih _)
    · exact Tiling.union (split_x b .SE .SW .S rfl rfl rfl rfl) (ih _) (ih _)

/-- the two quarters of a half split it; stated relative to a tail of components that adds no bits on the
    axis that the split introduces -/
theorem splitH_IsSplit (b : Box) (c : Comp) (hc : c.isHalf = true) (rest : List Comp)
    (hx : c.isNS = true → xbits rest = []) (hy : c.isNS = false → ybits rest = []) :
    ∃ c1 c2, splitH c = [c1, c2] ∧
      IsSplit (regionFrom (b.refine c) rest) (regionFrom (b.refine c1) rest) (regionFrom (b.refine c2) rest) := by
  cases c <;> simp only [Comp.isHalf, Bool.false_eq_true] at hc
  · refine ⟨.NE, .NW, rfl, ?_⟩
    left; simp [regionFrom_eq, refine_eq, Comp.xb, Comp.yb, hx rfl]
  · refine ⟨.SE, .SW, rfl, ?_⟩
    left; simp [regionFrom_eq, refine_eq, Comp.xb, Comp.yb, hx rfl]
  · refine ⟨.NE, .SE, rfl, ?_⟩
    right; simp [regionFrom_eq, refine_eq, Comp.xb, Comp.yb, hy rfl]
  · refine ⟨.NW, .SW, rfl, ?_⟩
    right; simp [regionFrom_eq, refine_eq, Comp.xb, Comp.yb, hy rfl]

/-- `subdivideAliquot c d` tiles `refine b c`, for every depth -/
theorem subT_tiles (c : Comp) (d : Int) (b : Box) : Tiling ((subT c d).map (regionFrom b)) (b.refine c) := by
  unfold subT
  split
  · exact Tiling.single _
  · split
    · rename_i hc
      obtain ⟨c1, c2, hs, hsp⟩ := splitH_IsSplit b c hc [] (fun _ => rfl) (fun _ => rfl)
      rw [hs]
      show Tiling ((crossT [[c1], [c2]] (Qs _)).map (regionFrom b)) _
      rw [crossT_pair, List.map_append, map_cons_regionFrom, map_cons_regionFrom]
      exact Tiling.union hsp (Qs_tiles _ _) (Qs_tiles _ _)
    · show Tiling ((crossT [[c]] (Qs _)).map (regionFrom b)) _
      rw [crossT_single, map_cons_regionFrom]
      exact Qs_tiles _ _

/-- depth of a component that is not the last one: a quarter is kept, a half is kept or split once -/
theorem depthFor_nonlast (i n : Nat) (c : Comp) (q : Int) (bh : Bool) (h : i < n) :
    (c.isHalf = false → depthFor i n c.str q bh ≤ 0) ∧
    (c.isHalf = true → depthFor i n c.str q bh ≤ 0 ∨ depthFor i n c.str q bh = 1) := by
  have hne : (i == n) = false := by simp; omega
  unfold depthFor
  simp only [quarters_contains, halves_contains, hne, Bool.false_and, Bool.false_eq_true, if_false]
  constructor
  · intro hc; simp only [hc, Bool.not_false, if_true, Bool.false_and, Bool.false_eq_true, if_false]
    split <;> omega
  · intro hc; simp only [hc, Bool.not_true, Bool.false_eq_true, if_false, Bool.true_and]
    split
    · right; rfl
    · split
      · right; rfl
      · left; exact Int.le_refl _

/-- the typed list of subdivided components, positions `k+1, k+2, …` of a list of total length `n` -/
def subsFrom (k n : Nat) (q : Int) (bh : Bool) : List Comp → List (List (List Comp))
  | [] => []
  | c :: rest => subT c (depthFor (k + 1) n c.str q bh) :: subsFrom (k + 1) n q bh rest

/-- a component list in standard form, subdivided position by position and rebuilt, tiles its region -/
theorem chain_tiles (n : Nat) (q : Int) (bh : Bool) :
    ∀ (cs : List Comp) (k : Nat) (b : Box), Std cs → k + cs.length = n →
      Tiling ((rbT (subsFrom k n q bh cs)).map (regionFrom b)) (regionFrom b cs) := by
  intro cs
  induction cs with
  | nil => intro k b _ _; exact Tiling.single b
  | cons c rest ih =>
    intro k b hstd hlen
    simp only [subsFrom, rbT]
    cases rest with
    | nil =>
      simp only [subsFrom, rbT, crossT_nil_right]
      exact subT_tiles c _ b
    | cons c' rest' =>
      have hlt : k + 1 < n := by simp at hlen; omega
      have hd := depthFor_nonlast (k + 1) n c q bh hlt
      have ih' := fun b' => ih (k + 1) b' hstd.tail (by simp at hlen ⊢; omega)
      have keep : depthFor (k + 1) n c.str q bh ≤ 0 →
          Tiling ((crossT (subT c (depthFor (k + 1) n c.str q bh))
            (rbT (subsFrom (k + 1) n q bh (c' :: rest')))).map (regionFrom b)) (regionFrom b (c :: c' :: rest')) := by
        intro hle
        rw [subT, if_pos hle, crossT_single, map_cons_regionFrom]
        exact ih' _
      cases hc : c.isHalf with
      | false => exact keep (hd.1 hc)
      | true =>
        rcases hd.2 hc with hle | h1
        · exact keep hle
        · have hb := hstd.rest_bits hc
          obtain ⟨c1, c2, hs, hsp⟩ := splitH_IsSplit b c hc (c' :: rest') hb.1 hb.2
          rw [h1, subT, if_neg (by omega), if_pos hc, hs]
          show Tiling ((crossT (crossT [[c1], [c2]] [[]]) _).map (regionFrom b)) _
          rw [crossT_nil_right, crossT_pair, List.map_append, map_cons_regionFrom, map_cons_regionFrom]
          exact Tiling.union hsp (ih' _) (ih' _)

/-! ### printing of typed pieces and its inverse `pieceComps` -/

/-- printed token of one component: halves carry a "2" suffix -/
def tok (c : Comp) : Str := if c.isHalf then c.str ++ "2".toList else c.str
/-- printed piece of a typed piece (LARGEST first): smallest component is printed first -/
def renderL : List Comp → Str
  | [] => []
  | c :: cs => renderL cs ++ tok c

theorem renderL_append (a b : List Comp) : renderL (a ++ b) = renderL b ++ renderL a := by
  induction a with
  | nil => simp [renderL]
  | cons c a ih => simp [renderL, ih]

theorem pieceToks_tok (c : Comp) (s : Str) :
    pieceToks (tok c ++ s) = (pieceToks s).map (fun cs => c :: cs) := by
  cases c <;> simp only [tok, Comp.isHalf, Comp.str_eq, if_true, Bool.false_eq_true, if_false] <;>
    (show pieceToks (_ :: _ :: s) = _) <;> rw [pieceToks] <;> cases pieceToks s <;> rfl

theorem pieceToks_renderL (cs : List Comp) (s : Str) :
    pieceToks (renderL cs ++ s) = (pieceToks s).map (fun t => cs.reverse ++ t) := by
  induction cs generalizing s with
  | nil => simp [renderL]
  | cons c cs ih =>
    rw [renderL, List.append_assoc, ih, pieceToks_tok]
    cases pieceToks s <;> simp

theorem pieceComps_renderL (cs : List Comp) : pieceComps (renderL cs) = some cs := by
  have := pieceToks_renderL cs []
  rw [List.append_nil] at this
  simp [pieceComps, this, pieceToks]

theorem pieceBox_renderL (cs : List Comp) : pieceBox (renderL cs) = some (region cs) := by
  simp [pieceBox, pieceComps_renderL]

/-! ### `rebuildAliquots` as a right-nested product -/

def cross (sh deep : List Str) : List Str :=
  sh.flatMap (fun shallow => deep.map (fun d => d ++ shallow))
def rbS : List (List Str) → List Str
  | [] => [[]]
  | a :: rest => cross a (rbS rest)

theorem cross_nil_right (L : List Str) : cross L [[]] = L := by simp [cross]

theorem rebuild_snoc2 (l2 : List (List Str)) (a b : List Str) :
    rebuildAliquots (l2 ++ [a, b]) = rebuildAliquots (l2 ++ [cross a b]) := by
  have key : ∀ l : List (List Str), 2 ≤ l.length → rebuildAliquots l =
      rebuildAliquots (l.dropLast.dropLast ++
        [cross l.dropLast.getLast! l.getLast!]) := by
    intro l hl
    match l, hl with
    | x :: y :: zs, _ => rw [rebuildAliquots]; rfl
  rw [key _ (by simp)]
  simp

theorem rbS_snoc2 (l2 : List (List Str)) (a b : List Str) :
    rbS (l2 ++ [a, b]) = rbS (l2 ++ [cross a b]) := by
  induction l2 with
  | nil => simp [rbS, cross_nil_right]
  | cons c l2 ih => simp only [List.cons_append, rbS, ih]

theorem rebuild_eq_rbS : ∀ (n : Nat) (l : List (List Str)), l.length = n → l ≠ [] → rebuildAliquots l = rbS l := by
  intro n
  induction n with
  | zero => intro l hl hne; cases l <;> simp_all
  | succ n ih =>
    intro l hl hne
    rcases List.eq_nil_or_concat l with rfl | ⟨l1, b, rfl⟩
    · exact absurd rfl hne
    · rcases List.eq_nil_or_concat l1 with rfl | ⟨l2, a, rfl⟩
      · simp [rebuildAliquots, rbS, cross_nil_right]
      · simp only [List.concat_eq_append, List.append_assoc, List.cons_append, List.nil_append] at hl ⊢
        rw [rebuild_snoc2, rbS_snoc2]
        apply ih
        · simp at hl ⊢; omega
        · simp

theorem cross_map (sh deep : List (List Comp)) :
    cross (sh.map renderL) (deep.map renderL) = (crossT sh deep).map renderL := by
  simp only [cross, crossT, List.flatMap_map, List.map_flatMap, List.map_map]
  congr 1; funext s; congr 1; funext d
  simp [renderL_append]

theorem rbS_map (Ls : List (List (List Comp))) :
    rbS (Ls.map (List.map renderL)) = (rbT Ls).map renderL := by
  induction Ls with
  | nil => simp [rbS, rbT, renderL]
  | cons a Ls ih => simp only [List.map_cons, rbS, rbT, ih, cross_map]

theorem rebuild_map (Ls : List (List (List Comp))) (h : Ls ≠ []) :
    rebuildAliquots (Ls.map (List.map renderL)) = (rbT Ls).map renderL := by
  rw [rebuild_eq_rbS _ _ rfl (by simpa using h), rbS_map]

/-! ### `subdivideLoop` / `subdivideAliquot` -/

theorem quarters_render : quarters = quartersT.map renderL := by
  rw [quarters_eq]; decide

theorem lookup_quarters_head : lookup subdivDefs ((quarters.head?).getD []) = none := by decide

theorem subdivideLoop_stable (n : Nat) : ∀ (d : List (List Str)) (qs : List Str),
    lookup subdivDefs ((qs.head?).getD []) = none →
    subdivideLoop n (d ++ [qs]) = d ++ [qs] ++ List.replicate n quarters := by
  induction n with
  | zero => intro d qs _; simp [subdivideLoop]
  | succ n ih =>
    intro d qs h
    rw [subdivideLoop]
    simp only [List.getLast?_concat, Option.getD_some, h]
    rw [ih _ _ lookup_quarters_head, List.replicate_succ]
    simp

theorem lookup_half (c : Comp) (h : c.isHalf = true) :
    lookup subdivDefs c.str = some ((splitH c).map Comp.str) := by
  revert h; cases c <;> decide
theorem lookup_quarter (c : Comp) (h : c.isHalf = false) : lookup subdivDefs c.str = none := by
  revert h; cases c <;> decide
theorem lookup_split_head (c : Comp) (h : c.isHalf = true) :
    lookup subdivDefs (((((splitH c).map Comp.str)).head?).getD []) = none := by
  revert h; cases c <;> decide
theorem split_render (c : Comp) (h : c.isHalf = true) :
    (splitH c).map Comp.str = ((splitH c).map ([·])).map renderL := by
  revert h; cases c <;> decide
theorem tok_quarter (c : Comp) (h : c.isHalf = false) : c.str = renderL [c] := by
  simp [renderL, tok, h]

theorem subdivideLoop_half (c : Comp) (h : c.isHalf = true) (n : Nat) :
    subdivideLoop (n + 1) [[c.str]] =
      (((splitH c).map ([·])) :: List.replicate n quartersT).map (List.map renderL) := by
  rw [subdivideLoop]
  simp only [List.getLast?_singleton, Option.getD_some, List.head?_cons, lookup_half c h,
    List.dropLast_singleton, List.nil_append]
  have := subdivideLoop_stable n [] _ (lookup_split_head c h)
  simp only [List.nil_append] at this
  rw [this, split_render c h, quarters_render]
  simp

theorem subdivideLoop_quarter (c : Comp) (h : c.isHalf = false) (n : Nat) :
    subdivideLoop n [[c.str]] = ([[c]] :: List.replicate n quartersT).map (List.map renderL) := by
  have := subdivideLoop_stable n [] [c.str] (by simpa using lookup_quarter c h)
  simp only [List.nil_append] at this
  rw [this, quarters_render, tok_quarter c h]
  simp

/-- typed mirror of `subdivideAliquot` -/
theorem subdivideAliquot_refines (c : Comp) (d : Int) :
    subdivideAliquot c.str d = (subT c d).map renderL := by
  unfold subdivideAliquot subT
  by_cases hd : d ≤ 0
  · simp only [hd, if_true, halves_contains]
    cases hc : c.isHalf <;> simp [renderL, tok, hc]
  · simp only [hd, if_false]
    cases hc : c.isHalf
    · simp only [Bool.false_eq_true, if_false]
      rw [subdivideLoop_quarter c hc, rebuild_map _ (by simp)]
    · simp only [if_true]
      obtain ⟨n, hn⟩ : ∃ n, d.toNat = n + 1 := ⟨d.toNat - 1, by omega⟩
      rw [hn, subdivideLoop_half c hc, rebuild_map _ (by simp)]
      simp

theorem subdivideLoop_all (n : Nat) :
    subdivideLoop (n + 1) [["ALL".toList]] = (List.replicate (n + 1) quartersT).map (List.map renderL) := by
  rw [subdivideLoop]
  have h1 : lookup subdivDefs ((([["ALL".toList]] : List (List Str)).getLast?.getD []).head?.getD []) = some quarters := by
    decide
  simp only [h1, List.dropLast_singleton, List.nil_append]
  have := subdivideLoop_stable n [] _ lookup_quarters_head
  simp only [List.nil_append] at this
  rw [this, quarters_render, List.replicate_succ]
  simp

/-! ### assembling `parseComponents` -/

def mapFrom {α β : Type} (g : Nat → α → β) : Nat → List α → List β
  | _, [] => []
  | k, x :: xs => g k x :: mapFrom g (k + 1) xs

theorem range_map_getElem! {α β : Type} [Inhabited α] (g : Nat → α → β) (l : List α) :
    ∀ k, (List.range l.length).map (fun i => g (i + k) l[i]!) = mapFrom g k l := by
  induction l with
  | nil => intro k; simp [mapFrom]
  | cons x xs ih =>
    intro k
    rw [List.length_cons, List.range_succ_eq_map, List.map_cons, List.map_map, mapFrom, ← ih (k + 1)]
    simp only [Nat.zero_add, List.cons.injEq]
    refine ⟨by simp, ?_⟩
    apply List.map_congr_left
    intro i _
    simp only [Function.comp, Nat.succ_eq_add_one, List.getElem!_cons_succ]
    rw [Nat.add_right_comm, Nat.add_assoc]

theorem mapFrom_subs (n : Nat) (q : Int) (bh : Bool) (cs : List Comp) : ∀ k,
    mapFrom (fun i comp => subdivideAliquot comp (depthFor (i + 1) n comp q bh)) k (cs.map Comp.str)
      = (subsFrom k n q bh cs).map (List.map renderL) := by
  induction cs with
  | nil => intro k; simp [mapFrom, subsFrom]
  | cons c cs ih =>
    intro k
    simp only [List.map_cons, mapFrom, subsFrom, ih, subdivideAliquot_refines]

/-- typed "keep only the first `qq_depth_max` components" -/
def truncT (r : List Comp) : Option Int → List Comp
  | none => r
  | some mx => if (r.length : Int) > mx then r.take mx.toNat else r

/-- typed result of `parseComponents` on a standardised list `r` -/
def piecesT (r : List Comp) (a : DepthArgs) : List (List Comp) :=
  rbT (subsFrom 0 (truncT r a.qqMax).length a.qqMin a.breakHalves (truncT r a.qqMax))

theorem parse_core (cs : List Comp) (q : Int) (bh : Bool) (hne : cs ≠ []) :
    rebuildAliquots ((List.range (cs.map Comp.str).length).map (fun idx =>
      subdivideAliquot (cs.map Comp.str)[idx]!
        (depthFor (idx + 1) (cs.map Comp.str).length (cs.map Comp.str)[idx]! q bh)))
      = (rbT (subsFrom 0 cs.length q bh cs)).map renderL := by
  have h1 := range_map_getElem!
    (fun i comp => subdivideAliquot comp (depthFor (i + 1) cs.length comp q bh)) (cs.map Comp.str) 0
  simp only [Nat.add_zero, List.length_map] at h1
  simp only [List.length_map]
  rw [h1, mapFrom_subs, rebuild_map]
  cases cs with
  | nil => exact absurd rfl hne
  | cons c cs => simp [subsFrom]

theorem truncT_ne_nil (r : List Comp) (hr : r ≠ []) (mx : Option Int) (hmax : ∀ m, mx = some m → 1 ≤ m) :
    truncT r mx ≠ [] := by
  cases mx with
  | none => exact hr
  | some mx =>
    have := hmax mx rfl
    simp only [truncT]
    split
    · cases r with
      | nil => exact absurd rfl hr
      | cons x xs =>
        obtain ⟨k, hk⟩ : ∃ k, mx.toNat = k + 1 := ⟨mx.toNat - 1, by omega⟩
        rw [hk]; simp
    · exact hr

theorem parse_eq (chain r : List Comp) (a : DepthArgs) (hne : chain ≠ []) (hd : a.qqDepth = none)
    (hmax : ∀ m, a.qqMax = some m → 1 ≤ m) (hr : r ≠ [])
    (hs : standardize (chain.map Comp.str) = some (r.map Comp.str)) :
    parseComponents (chain.map Comp.str) a = some ((piecesT r a).map renderL) := by
  have hemp : (chain.map Comp.str).isEmpty = false := by
    cases chain with
    | nil => exact absurd rfl hne
    | cons _ _ => rfl
  have hne' := truncT_ne_nil r hr a.qqMax hmax
  unfold parseComponents piecesT
  simp only [hd, hemp, Bool.false_eq_true, if_false, hs]
  cases hm : a.qqMax with
  | none =>
    rw [hm] at hne'
    simp only [truncT] at hne' ⊢
    rw [parse_core r _ _ hr]
  | some mx =>
    have := hmax mx hm
    rw [hm] at hne'
    simp only [truncT] at hne' ⊢
    simp only [List.length_map]
    by_cases hlt : (r.length : Int) > mx
    · simp only [hlt, if_true] at hne' ⊢
      rw [if_pos (by omega), ← List.map_take, parse_core _ _ _ hne']
    · simp only [hlt, if_false] at hne' ⊢
      rw [parse_core r _ _ hr]

/-! ### depth properties -/

theorem mem_crossT {p : List Comp} {A B : List (List Comp)} :
    p ∈ crossT A B ↔ ∃ s ∈ A, ∃ d ∈ B, p = s ++ d := by
  simp only [crossT, List.mem_flatMap, List.mem_map]
  constructor
  · rintro ⟨s, hs, d, hd, rfl⟩; exact ⟨s, hs, d, hd, rfl⟩
  · rintro ⟨s, hs, d, hd, rfl⟩; exact ⟨s, hs, d, hd, rfl⟩

theorem Qs_mem (k : Nat) : ∀ p ∈ Qs k, p.length = k ∧ ∀ x ∈ p, x.isHalf = false := by
  induction k with
  | zero => intro p hp; simp [Qs_zero] at hp; subst hp; simp
  | succ k ih =>
    intro p hp
    rw [Qs_succ, mem_crossT] at hp
    obtain ⟨s, hs, d, hd, rfl⟩ := hp
    have := ih d hd
    simp only [quartersT, allQ, List.map_cons, List.map_nil, List.mem_cons, List.not_mem_nil, or_false] at hs
    rcases hs with rfl | rfl | rfl | rfl <;>
      simp only [List.cons_append, List.nil_append, List.length_cons, this.1, List.mem_cons, true_and] <;>
      (intro x hx; rcases hx with rfl | hx; exact rfl; exact this.2 x hx)

theorem splitH_mem (c s : Comp) (h : c.isHalf = true) (hs : s ∈ splitH c) : s.isHalf = false := by
  revert h hs; cases c <;> simp [splitH, Comp.isHalf] <;> rintro (rfl | rfl) <;> rfl

theorem subT_mem (c : Comp) (d : Int) (p : List Comp) (h : p ∈ subT c d) :
    (d ≤ 0 ∧ p = [c]) ∨
    (0 < d ∧ (∀ x ∈ p, x.isHalf = false) ∧ p.length = (if c.isHalf then d.toNat else d.toNat + 1)) := by
  unfold subT at h
  by_cases hd : d ≤ 0
  · left; simp only [hd, if_true, List.mem_singleton] at h; exact ⟨hd, h⟩
  · right
    refine ⟨by omega, ?_⟩
    simp only [hd, if_false] at h
    cases hc : c.isHalf
    · simp only [hc, Bool.false_eq_true, if_false] at h ⊢
      change p ∈ crossT [[c]] (Qs d.toNat) at h
      rw [crossT_single] at h
      simp only [List.mem_map] at h
      obtain ⟨p', hp', rfl⟩ := h
      have := Qs_mem _ p' hp'
      refine ⟨?_, by simp [this.1]⟩
      intro x hx
      rcases List.mem_cons.1 hx with rfl | hx
      · exact hc
      · exact this.2 x hx
    · simp only [hc, if_true] at h ⊢
      change p ∈ crossT ((splitH c).map ([·])) (Qs (d.toNat - 1)) at h
      rw [mem_crossT] at h
      obtain ⟨s, hs, p', hp', rfl⟩ := h
      simp only [List.mem_map] at hs
      obtain ⟨s0, hs0, rfl⟩ := hs
      have := Qs_mem _ p' hp'
      refine ⟨?_, by simp [this.1]; omega⟩
      intro x hx
      simp only [List.cons_append, List.nil_append, List.mem_cons] at hx
      rcases hx with rfl | hx
      · exact splitH_mem c _ hc hs0
      · exact this.2 x hx

theorem depthFor_val (i n : Nat) (c : Comp) (q : Nat) (bh : Bool) :
    depthFor i n c.str (q : Int) bh =
      (if i = q then 1 else if i = n ∧ n < q then (q : Int) - i + 1
        else if c.isHalf = true ∧ (i < q ∨ bh = true) then 1 else 0) - (if c.isHalf = true then 0 else 1) := by
  unfold depthFor
  simp only [quarters_contains, halves_contains]
  cases hc : c.isHalf <;> by_cases h1 : i = q <;> by_cases h2 : i = n <;> by_cases h3 : n < q <;>
    by_cases h4 : i < q <;> cases bh <;> simp [h1, h2, h3, h4] <;> omega

/-- what one subdivided component contributes to a piece -/
theorem sub_piece (i n : Nat) (c : Comp) (q : Nat) (bh : Bool) (_hq : 1 ≤ q) (hi : i ≤ n) (p : List Comp)
    (hp : p ∈ subT c (depthFor i n c.str (q : Int) bh)) :
    (i < n → p.length = 1) ∧ (i = n → p.length = q - i + 1) ∧
    (i ≤ q → ∀ x ∈ p, x.isHalf = false) ∧ (bh = true → ∀ x ∈ p, x.isHalf = false) := by
  have hv := depthFor_val i n c q bh
  generalize depthFor i n c.str (q : Int) bh = D at hv hp
  rcases subT_mem c _ p hp with ⟨hd, rfl⟩ | ⟨hd, hall, hlen⟩
  · refine ⟨fun _ => rfl, ?_, ?_, ?_⟩
    · intro hin
      simp only [List.length_singleton]
      by_cases h1 : i = q <;> by_cases h2 : (i = n ∧ n < q) <;> cases hc : c.isHalf <;>
        by_cases h4 : (i < q ∨ bh = true) <;> simp [h1, h2, hc, h4] at hv <;> omega
    · intro hiq x hx
      simp only [List.mem_singleton] at hx; subst hx
      by_cases h1 : i = q <;> by_cases h2 : (i = n ∧ n < q) <;> cases hc : x.isHalf <;>
        by_cases h4 : (i < q ∨ bh = true) <;> simp [h1, h2, hc, h4] at hv <;> first | rfl | omega
    · intro hb x hx
      simp only [List.mem_singleton] at hx; subst hx
      by_cases h1 : i = q <;> by_cases h2 : (i = n ∧ n < q) <;> cases hc : x.isHalf <;>
        simp [h1, h2, hc, hb] at hv <;> first | rfl | omega
  · refine ⟨?_, ?_, fun _ => hall, fun _ => hall⟩
    · intro hin
      rw [hlen]
      by_cases h1 : i = q <;> by_cases h2 : (i = n ∧ n < q) <;> cases hc : c.isHalf <;>
        by_cases h4 : (i < q ∨ bh = true) <;> simp [h1, h2, hc, h4] at hv ⊢ <;> omega
    · intro hin
      rw [hlen]
      by_cases h1 : i = q <;> by_cases h2 : (i = n ∧ n < q) <;> cases hc : c.isHalf <;>
        by_cases h4 : (i < q ∨ bh = true) <;> simp [h1, h2, hc, h4] at hv ⊢ <;> omega

theorem depth_chain (n q : Nat) (bh : Bool) (hq : 1 ≤ q) :
    ∀ (cs : List Comp) (k : Nat), cs ≠ [] → k + cs.length = n →
      ∀ p ∈ rbT (subsFrom k n (q : Int) bh cs),
        q - k ≤ p.length ∧ (∀ c ∈ p.take (q - k), c.isHalf = false) ∧
        p.length ≤ max cs.length (q - k) ∧ (bh = true → ∀ c ∈ p, c.isHalf = false) := by
  intro cs
  induction cs with
  | nil => intro k h; exact absurd rfl h
  | cons c rest ih =>
    intro k _ hlen p hp
    simp only [subsFrom, rbT] at hp
    rw [mem_crossT] at hp
    obtain ⟨s, hs, d, hd, rfl⟩ := hp
    simp only [List.length_cons] at hlen
    have hsp := sub_piece (k + 1) n c q bh hq (by omega) s hs
    cases rest with
    | nil =>
      simp only [subsFrom, rbT, List.mem_singleton] at hd
      subst hd
      simp only [List.length_nil] at hlen
      have hl := hsp.2.1 (by omega)
      simp only [List.append_nil, List.length_cons, List.length_nil]
      refine ⟨by omega, ?_, by omega, hsp.2.2.2⟩
      intro x hx
      by_cases hk : k + 1 ≤ q
      · exact hsp.2.2.1 hk x (List.mem_of_mem_take hx)
      · have : q - k = 0 := by omega
        rw [this] at hx; simp at hx
    | cons c' rest' =>
      simp only [List.length_cons] at hlen
      have hl := hsp.1 (by omega)
      have ihd := ih (k + 1) (by simp) (by simp; omega) d hd
      obtain ⟨c0, rfl⟩ : ∃ c0, s = [c0] := by
        match s, hl with
        | [c0], _ => exact ⟨c0, rfl⟩
      simp only [List.cons_append, List.nil_append, List.length_cons]
      refine ⟨by omega, ?_, ?_, ?_⟩
      · intro x hx
        by_cases hk : k + 1 ≤ q
        · have e : q - k = (q - (k + 1)) + 1 := by omega
          rw [e, List.take_succ_cons] at hx
          rcases List.mem_cons.1 hx with rfl | hx
          · exact hsp.2.2.1 hk x (List.mem_singleton.2 rfl)
          · exact ihd.2.1 x hx
        · have : q - k = 0 := by omega
          rw [this] at hx; simp at hx
      · have := ihd.2.2.1
        simp only [List.length_cons] at this ⊢
        omega
      · intro hb x hx
        rcases List.mem_cons.1 hx with rfl | hx
        · exact hsp.2.2.2 hb x (List.mem_singleton.2 rfl)
        · exact ihd.2.2.2 hb x hx

/-! ## Main theorems -/

theorem regionFrom_origin : regionFrom ⟨[], []⟩ = region := rfl

theorem truncT_Std {r : List Comp} (h : Std r) (mx : Option Int) : Std (truncT r mx) := by
  cases mx with
  | none => exact h
  | some m => simp only [truncT]; split; exact h.take _; exact h

/-- the region of the truncated standardised list is the truncated region -/
theorem truncT_region_some {r : List Comp} (h : Std r) (m : Int) (hm : 1 ≤ m) :
    region (truncT r (some m)) = (region r).trunc m.toNat := by
  simp only [truncT]
  split
  · exact h.region_take _
  · rw [region_trunc_of_le]; omega

theorem truncT_length_le (r : List Comp) (m : Int) (hm : 1 ≤ m) : (truncT r (some m)).length ≤ m.toNat := by
  simp only [truncT]
  split
  · simp only [List.length_take]; omega
  · omega

/-- the typed pieces tile the target region -/
theorem piecesT_tiles (r : List Comp) (a : DepthArgs) (h : Std r) :
    Tiling ((piecesT r a).map region) (region (truncT r a.qqMax)) := by
  have := chain_tiles (truncT r a.qqMax).length a.qqMin a.breakHalves (truncT r a.qqMax) 0 ⟨[], []⟩
    (truncT_Std h _) (by simp)
  rw [regionFrom_origin] at this
  exact this

/-- hypotheses on the depth arguments, in the form used below -/
theorem hmax_one (a : DepthArgs) (hmin : 1 ≤ a.qqMin)
    (hmax : a.qqMax = none ∨ (∃ m, a.qqMax = some m ∧ a.qqMin ≤ m)) : ∀ m, a.qqMax = some m → 1 ≤ m := by
  intro m hm
  rcases hmax with h | ⟨m', h, hle⟩
  · rw [h] at hm; cases hm
  · rw [h] at hm; cases hm; omega

/-- everything the main theorems need, in one place -/
theorem parse_typed (chain : List Comp) (a : DepthArgs) (hne : chain ≠ []) (hd : a.qqDepth = none)
    (hmin : 1 ≤ a.qqMin) (hmax : a.qqMax = none ∨ (∃ m, a.qqMax = some m ∧ a.qqMin ≤ m)) :
    ∃ r, standardize (chain.map Comp.str) = some (r.map Comp.str) ∧ region r = region chain ∧ Std r ∧ r ≠ [] ∧
      parseComponents (chain.map Comp.str) a = some ((piecesT r a).map renderL) := by
  obtain ⟨r, h1, h2, h3, _, h5⟩ := C02_region_standardize chain hne
  exact ⟨r, h1, h2, h3, h5, parse_eq chain r a hne hd (hmax_one a hmin hmax) h5 h1⟩

/-- **C02_total**: `parseComponents` returns a result for every non-empty chain (in particular the
    `while a != copy` standardisation loop terminates within the fuel the model supplies). -/
theorem C02_total (chain : List Comp) (a : DepthArgs) (hne : chain ≠ []) (hd : a.qqDepth = none)
    (hmin : 1 ≤ a.qqMin) (hmax : a.qqMax = none ∨ (∃ m, a.qqMax = some m ∧ a.qqMin ≤ m)) :
    ∃ pieces, parseComponents (chain.map Comp.str) a = some pieces := by
  obtain ⟨r, _, _, _, _, h⟩ := parse_typed chain a hne hd hmin hmax
  exact ⟨_, h⟩

/-- from a tiling of typed pieces to the statement about printed pieces -/
theorem tiling_of_typed (T : List (List Comp)) (R : Box) (t : Tiling (T.map region) R) :
    (∀ p ∈ T.map renderL, ∃ b, pieceBox p = some b ∧ b.inside R) ∧
    (T.map renderL).Pairwise (fun p q => ∀ bp bq, pieceBox p = some bp → pieceBox q = some bq → ¬ bp.overlaps bq) ∧
    (∀ D, (∀ p ∈ T.map renderL, ∀ b, pieceBox p = some b → b.xs.length ≤ D ∧ b.ys.length ≤ D) →
      (((T.map renderL).filterMap pieceBox).map (Box.area D)).sum = R.area D) := by
  refine ⟨?_, ?_, ?_⟩
  · intro p hp
    obtain ⟨cs, hcs, rfl⟩ := List.mem_map.1 hp
    exact ⟨region cs, pieceBox_renderL cs, t.inside _ (List.mem_map_of_mem hcs)⟩
  · rw [List.pairwise_map]
    have := t.disj
    rw [List.pairwise_map] at this
    refine this.imp ?_
    intro p q hpq bp bq hbp hbq
    rw [pieceBox_renderL] at hbp hbq
    cases hbp; cases hbq; exact hpq
  · intro D hD
    have e : (T.map renderL).filterMap pieceBox = T.map region := by
      rw [List.filterMap_map]
      have : (pieceBox ∘ renderL) = (some ∘ region) := by
        funext cs; exact pieceBox_renderL cs
      rw [this, List.filterMap_eq_map]
    rw [e]
    apply t.area
    intro b hb
    obtain ⟨cs, hcs, rfl⟩ := List.mem_map.1 hb
    exact hD (renderL cs) (List.mem_map_of_mem hcs) _ (pieceBox_renderL cs)

/-- **C02_tiling**: the returned pieces tile exactly the region the chain describes (truncated at the
    maximum depth when one is set): every piece lies inside, pieces are pairwise disjoint, and their areas
    add up to the area of the region. -/
theorem C02_tiling (chain : List Comp) (a : DepthArgs) (pieces : List Str) (hne : chain ≠ [])
    (hd : a.qqDepth = none) (hmin : 1 ≤ a.qqMin)
    (hmax : a.qqMax = none ∨ (∃ m, a.qqMax = some m ∧ a.qqMin ≤ m))
    (h : parseComponents (chain.map Comp.str) a = some pieces) :
    let R := match a.qqMax with | none => region chain | some m => (region chain).trunc m.toNat
    (∀ p ∈ pieces, ∃ b, pieceBox p = some b ∧ b.inside R) ∧
    pieces.Pairwise (fun p q => ∀ bp bq, pieceBox p = some bp → pieceBox q = some bq → ¬ bp.overlaps bq) ∧
    (∀ D, (∀ p ∈ pieces, ∀ b, pieceBox p = some b → b.xs.length ≤ D ∧ b.ys.length ≤ D) →
          ((pieces.filterMap pieceBox).map (Box.area D)).sum = R.area D) := by
  obtain ⟨r, _, hreg, hstd, _, hp⟩ := parse_typed chain a hne hd hmin hmax
  rw [hp] at h; cases h
  have t := piecesT_tiles r a hstd
  have h1 := hmax_one a hmin hmax
  cases hm : a.qqMax with
  | none =>
    rw [hm] at t
    simp only [truncT, hreg] at t
    exact tiling_of_typed _ _ t
  | some m =>
    rw [hm, truncT_region_some hstd m (h1 m hm), hreg] at t
    exact tiling_of_typed _ _ t

/-- **C02_depth**: every piece is divided at least to the minimum depth (its largest `qqMin` components
    are quarters), never beyond the maximum depth, and contains no half when `breakHalves` is on. -/
theorem C02_depth (chain : List Comp) (a : DepthArgs) (pieces : List Str) (hne : chain ≠ [])
    (hd : a.qqDepth = none) (hmin : 1 ≤ a.qqMin)
    (hmax : a.qqMax = none ∨ (∃ m, a.qqMax = some m ∧ a.qqMin ≤ m))
    (h : parseComponents (chain.map Comp.str) a = some pieces) :
    ∀ p ∈ pieces, ∃ cs, pieceComps p = some cs ∧
      a.qqMin.toNat ≤ cs.length ∧ (∀ c ∈ cs.take a.qqMin.toNat, c.isHalf = false) ∧
      (∀ m, a.qqMax = some m → cs.length ≤ m.toNat) ∧ (a.breakHalves = true → ∀ c ∈ cs, c.isHalf = false) := by
  obtain ⟨r, _, _, _, hr, hp⟩ := parse_typed chain a hne hd hmin hmax
  rw [hp] at h; cases h
  intro p hpm
  obtain ⟨cs, hcs, rfl⟩ := List.mem_map.1 hpm
  refine ⟨cs, pieceComps_renderL cs, ?_⟩
  have hq : a.qqMin = ((a.qqMin.toNat : Nat) : Int) := by omega
  have hne' := truncT_ne_nil r hr a.qqMax (hmax_one a hmin hmax)
  unfold piecesT at hcs
  rw [hq] at hcs
  have := depth_chain (truncT r a.qqMax).length a.qqMin.toNat a.breakHalves (by omega)
    (truncT r a.qqMax) 0 hne' (by simp) cs hcs
  simp only [Nat.sub_zero] at this
  refine ⟨this.1, this.2.1, ?_, this.2.2.2⟩
  intro m hm
  have h1 := hmax_one a hmin hmax m hm
  have h2 : a.qqMin ≤ m := by
    rcases hmax with h | ⟨m', h, hle⟩
    · rw [h] at hm; cases hm
    · rw [h] at hm; cases hm; exact hle
  have h3 := truncT_length_le r m h1
  rw [← hm] at h3
  have := this.2.2.1
  omega

/-! ### the special chain ["ALL"] -/

theorem standardize_all : standardize [("ALL".toList : Str)] = some ["ALL".toList] := by
  simp [standardize, standardizeBudget, standardizeFuel, standardizeStep, passBackHalves, passBackLoop,
    combineConsecutiveHalves]

theorem all_eq : ("ALL".toList : Str) = ['A', 'L', 'L'] := by decide

theorem depthFor_all (q : Int) (bh : Bool) (hq : 1 ≤ q) : depthFor 1 1 ['A', 'L', 'L'] q bh = q := by
  have h1 : quarters.contains (['A', 'L', 'L'] : Str) = false := by decide
  unfold depthFor
  simp only [h1, Bool.false_eq_true, if_false]
  by_cases h : q = 1
  · subst h; rfl
  · simp; omega

theorem parse_all (a : DepthArgs) (hd : a.qqDepth = none) (hmin : 1 ≤ a.qqMin)
    (hmax : a.qqMax = none ∨ (∃ m, a.qqMax = some m ∧ a.qqMin ≤ m)) :
    parseComponents [("ALL".toList : Str)] a = some ((Qs a.qqMin.toNat).map renderL) := by
  have hsub : subdivideAliquot ['A', 'L', 'L'] a.qqMin = (Qs a.qqMin.toNat).map renderL := by
    obtain ⟨n, hn⟩ : ∃ n, a.qqMin.toNat = n + 1 := ⟨a.qqMin.toNat - 1, by omega⟩
    unfold subdivideAliquot
    rw [if_neg (by omega), hn, ← all_eq, subdivideLoop_all, rebuild_map _ (by simp)]
    rfl
  unfold parseComponents
  simp only [hd, standardize_all]
  rcases hmax with h | ⟨m, h, hle⟩
  · simp [h, depthFor_all _ _ hmin, hsub, rebuildAliquots]
  · have : ¬ ((1 : Int) > m) := by omega
    simp [h, this, depthFor_all _ _ hmin, hsub, rebuildAliquots]

/-- **C02_all**: the special chain ["ALL"] tiles the whole section ⟨[], []⟩, with every piece divided
    exactly to the minimum depth, into quarters only. -/
theorem C02_all (a : DepthArgs) (hd : a.qqDepth = none) (hmin : 1 ≤ a.qqMin)
    (hmax : a.qqMax = none ∨ (∃ m, a.qqMax = some m ∧ a.qqMin ≤ m)) :
    ∃ pieces, parseComponents [("ALL".toList : Str)] a = some pieces ∧
      (∀ p ∈ pieces, ∃ b, pieceBox p = some b ∧ b.inside ⟨[], []⟩) ∧
      pieces.Pairwise (fun p q => ∀ bp bq, pieceBox p = some bp → pieceBox q = some bq → ¬ bp.overlaps bq) ∧
      (∀ D, (∀ p ∈ pieces, ∀ b, pieceBox p = some b → b.xs.length ≤ D ∧ b.ys.length ≤ D) →
            ((pieces.filterMap pieceBox).map (Box.area D)).sum = Box.area D ⟨[], []⟩) ∧
      (∀ p ∈ pieces, ∃ cs, pieceComps p = some cs ∧ cs.length = a.qqMin.toNat ∧ ∀ c ∈ cs, c.isHalf = false) := by
  refine ⟨_, parse_all a hd hmin hmax, ?_⟩
  have t := Qs_tiles a.qqMin.toNat ⟨[], []⟩
  rw [regionFrom_origin] at t
  obtain ⟨h1, h2, h3⟩ := tiling_of_typed _ _ t
  refine ⟨h1, h2, h3, ?_⟩
  intro p hp
  obtain ⟨cs, hcs, rfl⟩ := List.mem_map.1 hp
  exact ⟨cs, pieceComps_renderL cs, Qs_mem _ cs hcs⟩

#print axioms C02_total
#print axioms C02_region_standardize
#print axioms C02_tiling
#print axioms C02_depth
#print axioms C02_all

end PyTRS.Tiling
