/-
C07 — the canonical text of a chain of aliquot components ("N½NE¼") is a FIXED POINT of the aliquot preprocessing
(`scrub_aliquots`), for chains of every length, with and without `clean_qq`; the same for several chains separated by
", " or "; ".

Method.  The text is cut into TOKENS (one canonical component, or one separator).  For every one of the 14 substitution
patterns we show: started at the beginning of a token the pattern either matches exactly that token (and the replacement
text is the token itself), or it does not match; started strictly inside a token it does not match.  A generic lemma
(`subWith_tokens`) turns this into "`re.sub` returns the text unchanged".  `half_plus_q_regex` and
`aliquot_intervener_remover_regex` match nowhere.

Contents (main theorems, all `C07_…`):
* `C07_canonical_chain_fixed`, `C07_canonical_tokens_fixed`, `C07_canonical_chains_comma_fixed`, `…_semi_fixed`, `…_join_fixed`
  — fixed points; `C07_newline_separated_not_fixed` — a newline (or blank) between two chains is NOT preserved.
* `C07_canonical_chain_parse_eq`, `…_parseRaw_eq`, `…_parse_text`, `C07_canonical_tokens_parse_text`, `…_parse_eq` — corollaries
  through `Lemmas/Normal.lean`; `C07_canonical_chain_parse`, `…_parse_qqs` — what the parser returns for a canonical chain.
* `C07_mixed_spelling_normalised` (+ `C07_slash_chain_normalised`, `C07_digit_chain_normalised`, `…_idempotent`, `…_parse_eq`,
  `C07_slash_chain_parse`) — "N/2NE/4", "N2NE4" and any mixture are normalised to the canonical text, for chains of every length.
-/
import PyTRS.Lemmas.ChainText
import PyTRS.Lemmas.Normal
import PyTRS.Lemmas.RxBounds
import PyTRS.Lemmas.RxSplit
set_option linter.unusedSimpArgs false
namespace PyTRS
open PyTRS.Aliquot PyTRS.Tiling PyTRS.Tract

/-! ### generic part: tokens, skipping, substitution -/

/-- a token of the canonical text: one component, or a separator ", " / "; " -/
inductive Tok where
  | comp (c : Comp)
  | comma
  | semi
  deriving DecidableEq, Repr

def Tok.text : Tok → Str
  | .comp c => compText c
  | .comma => [',', ' ']
  | .semi => [';', ' ']

def toksText (l : List Tok) : Str := l.flatMap Tok.text

theorem toksText_cons (t : Tok) (l : List Tok) : toksText (t :: l) = t.text ++ toksText l := by
  simp [toksText]

theorem toksText_append (a b : List Tok) : toksText (a ++ b) = toksText a ++ toksText b := by
  simp [toksText]

theorem toksText_comps (chain : List Comp) : toksText (chain.map Tok.comp) = chainText chain := by
  induction chain with
  | nil => rfl
  | cons c cs ih => rw [List.map_cons, toksText_cons, ih, C02_chainText_cons]; rfl

/-- the character before the cursor after walking over `a` -/
def lastOr (p : Option Char) : Str → Option Char
  | [] => p
  | c :: t => lastOr (some c) t

theorem advance_append (a : Str) : ∀ (p : Option Char) (rest : Str) (n : Nat),
    advance p (a ++ rest) (a.length + n) = advance (lastOr p a) rest n := by
  induction a with
  | nil => intro p rest n; simp [lastOr]
  | cons c t ih =>
    intro p rest n
    have e : (c :: t).length + n = (t.length + n) + 1 := by simp only [List.length_cons]; omega
    rw [e]
    show advance (some c) (t ++ rest) (t.length + n) = _
    rw [ih]; rfl

theorem scan_cons (r : Rx) (prev : Option Char) (c : Char) (t : Str) (pos : Nat) (adv : Bool) :
    scan r prev (c :: t) pos adv =
      match matchHere r ⟨prev, c :: t, pos, []⟩ adv with
      | some m => some m
      | none => scan r (some c) t (pos + 1) false := by
  rw [scan]
  cases matchHere r ⟨prev, c :: t, pos, []⟩ adv <;> rfl

theorem scan_cons_none (r : Rx) (prev : Option Char) (c : Char) (t : Str) (pos : Nat) (adv : Bool)
    (h : matchHere r ⟨prev, c :: t, pos, []⟩ adv = none) :
    scan r prev (c :: t) pos adv = scan r (some c) t (pos + 1) false := by
  rw [scan, h]

theorem scan_nil (r : Rx) (prev : Option Char) (pos : Nat) (adv : Bool) :
    scan r prev [] pos adv = matchHere r ⟨prev, [], pos, []⟩ adv := by
  rw [scan]; cases matchHere r ⟨prev, [], pos, []⟩ adv <;> rfl

/-- if scanning over the prefix `a` finds nothing that starts inside `a`, the iterator may as well start after `a` -/
theorem finditerAux_skip (r : Rx) (a rest : Str) (prev : Option Char) (pos : Nat) (adv : Bool) (fuel : Nat)
    (h : scan r prev (a ++ rest) pos adv = scan r (lastOr prev a) rest (pos + a.length) false) :
    finditerAux r fuel prev (a ++ rest) pos adv = finditerAux r fuel (lastOr prev a) rest (pos + a.length) false := by
  cases fuel with
  | zero => rfl
  | succ f =>
    rw [finditerAux, finditerAux, h]
    cases hs : scan r (lastOr prev a) rest (pos + a.length) false with
    | none => rfl
    | some m =>
      have hb := scan_bounds r _ _ _ _ m hs
      have e : m.stop - pos = a.length + (m.stop - (pos + a.length)) := by omega
      simp only []
      rw [e, advance_append]

/-- the pattern cannot match starting strictly inside a token -/
def InnerFail (r : Rx) : Prop :=
  ∀ (c1 c2 : Char) (t rest : Str) (tok : Tok) (pos : Nat), tok.text = c1 :: c2 :: t →
    matchHere r ⟨some c1, c2 :: (t ++ rest), pos, []⟩ false = none ∧
    ∀ c3, t = [c3] → matchHere r ⟨some c2, c3 :: rest, pos, []⟩ false = none

theorem Tok.text_shape (tok : Tok) : ∃ c1 c2 t, tok.text = c1 :: c2 :: t ∧ (t = [] ∨ ∃ c3, t = [c3]) := by
  cases tok with
  | comp c =>
    cases c
    · exact ⟨'N', '½', [], rfl, Or.inl rfl⟩
    · exact ⟨'S', '½', [], rfl, Or.inl rfl⟩
    · exact ⟨'E', '½', [], rfl, Or.inl rfl⟩
    · exact ⟨'W', '½', [], rfl, Or.inl rfl⟩
    · exact ⟨'N', 'E', ['¼'], rfl, Or.inr ⟨_, rfl⟩⟩
    · exact ⟨'N', 'W', ['¼'], rfl, Or.inr ⟨_, rfl⟩⟩
    · exact ⟨'S', 'E', ['¼'], rfl, Or.inr ⟨_, rfl⟩⟩
    · exact ⟨'S', 'W', ['¼'], rfl, Or.inr ⟨_, rfl⟩⟩
  | comma => exact ⟨',', ' ', [], rfl, Or.inl rfl⟩
  | semi => exact ⟨';', ' ', [], rfl, Or.inl rfl⟩

/-- scanning over one token: only a match starting at the beginning of the token is possible -/
theorem scan_tok (r : Rx) (hin : InnerFail r) (tok : Tok) (rest : Str) (prev : Option Char) (pos : Nat) (adv : Bool) :
    scan r prev (tok.text ++ rest) pos adv =
      match matchHere r ⟨prev, tok.text ++ rest, pos, []⟩ adv with
      | some m => some m
      | none => scan r (lastOr prev tok.text) rest (pos + tok.text.length) false := by
  obtain ⟨c1, c2, t, ht, hshape⟩ := tok.text_shape
  rw [ht]
  rcases hshape with rfl | ⟨c3, rfl⟩
  · have h1 := (hin c1 c2 [] rest tok (pos + 1) ht).1
    simp only [List.cons_append, List.nil_append] at h1 ⊢
    rw [scan_cons]
    cases matchHere r ⟨prev, c1 :: c2 :: rest, pos, []⟩ adv with
    | some m => rfl
    | none =>
      simp only []
      rw [scan_cons_none _ _ _ _ _ _ h1]
      rfl
  · have h := hin c1 c2 [c3] rest tok (pos + 1) ht
    have h1 := h.1
    have h2 := (hin c1 c2 [c3] rest tok (pos + 1 + 1) ht).2 c3 rfl
    simp only [List.cons_append, List.nil_append] at h1 ⊢
    rw [scan_cons]
    cases matchHere r ⟨prev, c1 :: c2 :: c3 :: rest, pos, []⟩ adv with
    | some m => rfl
    | none =>
      simp only []
      rw [scan_cons_none _ _ _ _ _ _ h1, scan_cons_none _ _ _ _ _ _ h2]
      rfl

/-- the characters that can precede a token: nothing, a fraction glyph, or the blank that ends a separator -/
def OkPrev (p : Option Char) : Prop := p = none ∨ p = some '½' ∨ p = some '¼' ∨ p = some ' '

theorem okPrev_lastOr (p : Option Char) (tok : Tok) : OkPrev (lastOr p tok.text) := by
  cases tok with
  | comp c => cases c <;> simp [Tok.text, compText, Comp.str, Comp.isHalf, lastOr, OkPrev]
  | comma => simp [Tok.text, lastOr, OkPrev]
  | semi => simp [Tok.text, lastOr, OkPrev]

/-- what a pattern does when started at the beginning of a token, in a canonical context: it matches exactly the token and
    the replacement is the token itself, or it does not match -/
def StartStep (r : Rx) (f : Match → Str) : Prop :=
  ∀ (tok : Tok) (toks : List Tok) (prev : Option Char) (pos : Nat) (adv : Bool), OkPrev prev →
    (∃ caps, matchHere r ⟨prev, tok.text ++ toksText toks, pos, []⟩ adv = some ⟨pos, pos + tok.text.length, caps⟩ ∧
      f ⟨pos, pos + tok.text.length, caps⟩ = tok.text) ∨
    matchHere r ⟨prev, tok.text ++ toksText toks, pos, []⟩ adv = none

theorem slice_drop_split (text : Str) (i j : Nat) (h : i ≤ j) : slice text i j ++ text.drop j = text.drop i := by
  unfold slice
  have e : j = i + (j - i) := by omega
  rw [e, ← List.drop_drop, ← List.take_drop, List.take_append_drop]

/-- the accumulator of `re.sub` over a text made of tokens returns the text unchanged -/
theorem subgo_tokens (r : Rx) (f : Match → Str) (hin : InnerFail r) (hst : StartStep r f)
    (hnil : ∀ prev pos adv, matchHere r ⟨prev, [], pos, []⟩ adv = none) :
    ∀ (toks : List Tok) (fuel : Nat) (prev : Option Char) (pre : Str) (adv : Bool) (i : Nat) (acc : Str),
      OkPrev prev → i ≤ pre.length →
      Rx.subWith.go (pre ++ toksText toks) f (finditerAux r fuel prev (toksText toks) pre.length adv) i acc =
        acc ++ (pre ++ toksText toks).drop i := by
  intro toks
  induction toks with
  | nil =>
    intro fuel prev pre adv i acc _ _
    cases fuel with
    | zero => rfl
    | succ n =>
      have : scan r prev (toksText []) pre.length adv = none := by
        show scan r prev [] pre.length adv = none
        rw [scan_nil, hnil]
      rw [finditerAux_none _ _ _ _ _ _ this]
      rfl
  | cons tok toks ih =>
    intro fuel prev pre adv i acc hp hi
    have hsc := scan_tok r hin tok (toksText toks) prev pre.length adv
    rw [toksText_cons]
    rcases hst tok toks prev pre.length adv hp with ⟨caps, hm, hf⟩ | hm
    · -- hit
      rw [hm] at hsc
      simp only [] at hsc
      cases fuel with
      | zero =>
        rfl
      | succ n =>
        rw [finditerAux, hsc]
        simp only []
        have e : pre.length + tok.text.length - pre.length = tok.text.length + 0 := by omega
        rw [e, advance_append]
        simp only [advance]
        rw [Rx.subWith.go]
        simp only []
        rw [hf]
        have hlen : pre.length + tok.text.length = (pre ++ tok.text).length := by simp
        have htxt : pre ++ (tok.text ++ toksText toks) = (pre ++ tok.text) ++ toksText toks := by simp
        rw [hlen, htxt, ih n (lastOr prev tok.text) (pre ++ tok.text) _ (pre ++ tok.text).length _
          (okPrev_lastOr prev tok) (Nat.le_refl _)]
        rw [← htxt, ← slice_drop_split (pre ++ (tok.text ++ toksText toks)) i pre.length hi]
        have hd : (pre ++ (tok.text ++ toksText toks)).drop pre.length = tok.text ++ toksText toks := by simp
        have hd2 : ((pre ++ tok.text) ++ toksText toks).drop (pre ++ tok.text).length = toksText toks := by simp
        rw [hd, htxt, hd2]
        simp
    · -- miss
      rw [hm] at hsc
      simp only [] at hsc
      rw [finditerAux_skip r tok.text (toksText toks) prev pre.length adv fuel hsc]
      have hlen : pre.length + tok.text.length = (pre ++ tok.text).length := by simp
      have htxt : pre ++ (tok.text ++ toksText toks) = (pre ++ tok.text) ++ toksText toks := by simp
      rw [hlen, htxt]
      exact ih fuel (lastOr prev tok.text) (pre ++ tok.text) false i acc (okPrev_lastOr prev tok)
        (by rw [← hlen]; omega)

/-- **generic**: a pattern that, on canonical tokens, only ever replaces a token by itself leaves the text unchanged -/
theorem subWith_tokens (r : Rx) (f : Match → Str) (hin : InnerFail r) (hst : StartStep r f)
    (hnil : ∀ prev pos adv, matchHere r ⟨prev, [], pos, []⟩ adv = none) (toks : List Tok) :
    r.subWith (toksText toks) f = toksText toks := by
  show Rx.subWith.go (toksText toks) f (r.finditer (toksText toks)) 0 [] = _
  rw [finditer_default]
  have := subgo_tokens r f hin hst hnil toks (2 * (toksText toks).length + 2) none [] false 0 [] (Or.inl rfl)
    (Nat.le_refl _)
  simpa using this

/-! ### look-behind / look-ahead groups shared by the eight spelling patterns -/

/-- `((?<=…)|(?<=\b))` -/
def LBof (cs : CharSet) : Rx := .grp 1 (Rx.alts [.behind cs, .wordb Gen.cs_14d6aa8a])
/-- `((?=N|S|E|W)|(?=[\s,.;])|(?=$))` -/
def LA : Rx := .grp 12 (Rx.alts [.ahead (.chr Gen.cs_ec587de9), .ahead (.chr Gen.cs_21c56079), .ahead .eos])
def coreOf : Rx → Rx
  | .seq _ (.seq b _) => b
  | _ => .fail
def tailOf : Rx → Rx
  | .seq _ b => b
  | _ => .fail
def headOf : Rx → Rx
  | .seq a _ => a
  | _ => .fail

theorem optId {α : Type} (o : Option α) : (match o with | some r => some r | none => none) = o := by
  cases o <;> rfl

theorem w_N : Gen.cs_14d6aa8a.mem 'N' = true := by decide +kernel
theorem w_S : Gen.cs_14d6aa8a.mem 'S' = true := by decide +kernel
theorem w_E : Gen.cs_14d6aa8a.mem 'E' = true := by decide +kernel
theorem w_W : Gen.cs_14d6aa8a.mem 'W' = true := by decide +kernel
theorem w_half : Gen.cs_14d6aa8a.mem '½' = true := by decide +kernel
theorem w_quarter : Gen.cs_14d6aa8a.mem '¼' = true := by decide +kernel
theorem w_comma : Gen.cs_14d6aa8a.mem ',' = false := by decide +kernel
theorem w_semi : Gen.cs_14d6aa8a.mem ';' = false := by decide +kernel
theorem w_blank : Gen.cs_14d6aa8a.mem ' ' = false := by decide +kernel

/-- the look-behind group only changes captures: if the rest of the pattern fails whatever the captures, so does the whole -/
theorem LB_none {R : Type} (cs : CharSet) (prev : Option Char) (rest : Str) (pos : Nat) (caps : List (Nat × Nat × Nat))
    (k : St → Option R) (hk : ∀ caps', k ⟨prev, rest, pos, caps'⟩ = none) :
    (LBof cs).m ⟨prev, rest, pos, caps⟩ k = none := by
  cases prev with
  | none => simp [LBof, Rx.alts, Rx.m, hk]
  | some p => simp [LBof, Rx.alts, Rx.m, hk]

/-- strictly inside a token the look-behind fails: the previous character is no fraction glyph and there is no word boundary -/
theorem LB_block {R : Type} (cs : CharSet) (p ch : Char) (t : Str) (pos : Nat) (caps : List (Nat × Nat × Nat))
    (k : St → Option R) (hp : cs.mem p = false) (hw : Gen.cs_14d6aa8a.mem p = Gen.cs_14d6aa8a.mem ch) :
    (LBof cs).m ⟨some p, ch :: t, pos, caps⟩ k = none := by
  simp [LBof, Rx.alts, Rx.m, hp, hw, isWord]

/-- at the beginning of a token (a word character) after nothing, a fraction glyph or a blank the look-behind succeeds -/
theorem LB_pass {R : Type} (cs : CharSet) (prev : Option Char) (ch : Char) (t : Str) (pos : Nat)
    (caps : List (Nat × Nat × Nat)) (k : St → Option R)
    (hp : prev = none ∨ ∃ p, prev = some p ∧ (cs.mem p = true ∨ Gen.cs_14d6aa8a.mem p = false))
    (hch : Gen.cs_14d6aa8a.mem ch = true) :
    (LBof cs).m ⟨prev, ch :: t, pos, caps⟩ k = k ⟨prev, ch :: t, pos, (1, pos, pos) :: caps⟩ := by
  rcases hp with rfl | ⟨p, rfl, hp⟩
  · simp [LBof, Rx.alts, Rx.m, isWord, hch]
  · by_cases h1 : cs.mem p = true
    · by_cases h2 : Gen.cs_14d6aa8a.mem p = true
      · simp [LBof, Rx.alts, Rx.m, isWord, hch, h1, h2]
        generalize k _ = o; cases o <;> rfl
      · simp [LBof, Rx.alts, Rx.m, isWord, hch, h1, h2]
        generalize k _ = o; cases o <;> rfl
    · have h2 : Gen.cs_14d6aa8a.mem p = false := by
        rcases hp with hp | hp
        · exact absurd hp h1
        · exact hp
      simp [LBof, Rx.alts, Rx.m, isWord, hch, h1, h2]

theorem matchHere_LB_block (cs : CharSet) (more : Rx) (p ch : Char) (t : Str) (pos : Nat) (adv : Bool)
    (hp : cs.mem p = false) (hw : Gen.cs_14d6aa8a.mem p = Gen.cs_14d6aa8a.mem ch) :
    matchHere (.seq (LBof cs) more) ⟨some p, ch :: t, pos, []⟩ adv = none := by
  unfold matchHere
  rw [Rx.m]
  exact LB_block cs p ch t pos [] _ hp hw

/-- every pattern that begins with the look-behind group cannot match strictly inside a token -/
theorem innerFail_LB (cs : CharSet) (more : Rx)
    (hcs : cs.mem 'N' = false ∧ cs.mem 'S' = false ∧ cs.mem 'E' = false ∧ cs.mem 'W' = false ∧
      cs.mem ',' = false ∧ cs.mem ';' = false) :
    InnerFail (.seq (LBof cs) more) := by
  obtain ⟨hN, hS, hE, hW, hc, hs⟩ := hcs
  intro c1 c2 t rest tok pos ht
  cases tok with
  | comp c =>
    cases c <;> simp [Tok.text, compText, Comp.str, Comp.isHalf] at ht <;> obtain ⟨rfl, rfl, rfl⟩ := ht <;>
      refine ⟨matchHere_LB_block _ _ _ _ _ _ _ (by assumption) (by simp only [w_N, w_S, w_E, w_W, w_half, w_quarter]), ?_⟩ <;>
      intro c3 h3 <;> cases h3 <;>
      exact matchHere_LB_block _ _ _ _ _ _ _ (by assumption) (by simp only [w_N, w_S, w_E, w_W, w_half, w_quarter])
  | comma =>
    simp [Tok.text] at ht
    obtain ⟨rfl, rfl, rfl⟩ := ht
    refine ⟨matchHere_LB_block _ _ _ _ _ _ _ hc (by simp [w_comma, w_blank]), ?_⟩
    intro c3 h3; cases h3
  | semi =>
    simp [Tok.text] at ht
    obtain ⟨rfl, rfl, rfl⟩ := ht
    refine ⟨matchHere_LB_block _ _ _ _ _ _ _ hs (by simp [w_semi, w_blank]), ?_⟩
    intro c3 h3; cases h3

/-- what can follow a token: nothing, the first letter of a component, or a separator -/
def OkRest (rest : Str) : Prop :=
  rest = [] ∨ ∃ ch t, rest = ch :: t ∧ (ch = 'N' ∨ ch = 'S' ∨ ch = 'E' ∨ ch = 'W' ∨ ch = ',' ∨ ch = ';')

theorem okRest_toks (toks : List Tok) : OkRest (toksText toks) := by
  cases toks with
  | nil => exact Or.inl rfl
  | cons tok toks =>
    rw [toksText_cons]
    right
    cases tok with
    | comp c => cases c <;> simp [Tok.text, compText, Comp.str, Comp.isHalf]
    | comma => simp [Tok.text]
    | semi => simp [Tok.text]

theorem LA_pass {R : Type} (p : Option Char) (rest : Str) (pos : Nat) (caps : List (Nat × Nat × Nat))
    (k : St → Option R) (h : OkRest rest) :
    LA.m ⟨p, rest, pos, caps⟩ k = k ⟨p, rest, pos, (12, pos, pos) :: caps⟩ := by
  rcases h with rfl | ⟨ch, t, rfl, rfl | rfl | rfl | rfl | rfl | rfl⟩
  · simp [LA, Rx.alts, Rx.m]
  all_goals
    cases t <;> simp [LA, Rx.alts, Rx.m, Gen.cs_ec587de9, Gen.cs_21c56079, CharSet.mem] <;>
      (generalize k _ = o; cases o <;> rfl)

/-! ### the eight spelling patterns `ne_regex … w2_regex` -/

/-! evaluation lemmas: as the defining equations of `Rx.m` / `repLoop`, but alternation written with `Option.or`, so that
    `simp` can discard alternatives that fail (`o.or none = o`) -/

theorem m_eps {R : Type} (s : St) (k : St → Option R) : Rx.eps.m s k = k s := by simp only [Rx.m]
theorem m_fail {R : Type} (s : St) (k : St → Option R) : Rx.fail.m s k = none := by simp only [Rx.m]
theorem m_chr_cons {R : Type} (cs : CharSet) (p : Option Char) (c : Char) (t : Str) (pos : Nat)
    (caps : List (Nat × Nat × Nat)) (k : St → Option R) :
    (Rx.chr cs).m ⟨p, c :: t, pos, caps⟩ k = if cs.mem c then k ⟨some c, t, pos + 1, caps⟩ else none := by
  simp only [Rx.m]
theorem m_chr_nil {R : Type} (cs : CharSet) (p : Option Char) (pos : Nat)
    (caps : List (Nat × Nat × Nat)) (k : St → Option R) : (Rx.chr cs).m ⟨p, [], pos, caps⟩ k = none := by
  simp only [Rx.m]
theorem m_seq {R : Type} (a b : Rx) (s : St) (k : St → Option R) :
    (Rx.seq a b).m s k = a.m s (fun s' => b.m s' k) := by
  simp only [Rx.m]

theorem m_alt {R : Type} (a b : Rx) (s : St) (k : St → Option R) :
    (Rx.alt a b).m s k = (a.m s k).or (b.m s k) := by
  simp only [Rx.m]; cases a.m s k <;> rfl
theorem m_rep {R : Type} (r : Rx) (lo : Nat) (hi : Option Nat) (s : St) (k : St → Option R) :
    (Rx.rep r lo hi).m s k = repLoop r.m lo hi (s.rest.length + lo + 2) 0 none s k := by simp only [Rx.m]
theorem m_grp {R : Type} (i : Nat) (r : Rx) (s : St) (k : St → Option R) :
    (Rx.grp i r).m s k = r.m s (fun s' => k { s' with caps := (i, s.pos, s'.pos) :: s'.caps }) := by simp only [Rx.m]
theorem m_ahead {R : Type} (r : Rx) (s : St) (k : St → Option R) :
    (Rx.ahead r).m s k = match r.m (R := St) s some with
      | some s' => k { s with caps := s'.caps }
      | none => none := by
  simp only [Rx.m]; cases r.m (R := St) s some <;> rfl
theorem m_eos_nil {R : Type} (p : Option Char) (pos : Nat) (caps : List (Nat × Nat × Nat)) (k : St → Option R) :
    Rx.eos.m ⟨p, [], pos, caps⟩ k = k ⟨p, [], pos, caps⟩ := by simp only [Rx.m]
theorem m_eos_cons2 {R : Type} (p : Option Char) (c d : Char) (t : Str) (pos : Nat) (caps : List (Nat × Nat × Nat))
    (k : St → Option R) : Rx.eos.m ⟨p, c :: d :: t, pos, caps⟩ k = none := by simp only [Rx.m]
theorem m_eos_one {R : Type} (p : Option Char) (c : Char) (pos : Nat) (caps : List (Nat × Nat × Nat))
    (k : St → Option R) : Rx.eos.m ⟨p, [c], pos, caps⟩ k = if c == '\n' then k ⟨p, [c], pos, caps⟩ else none := by
  simp only [Rx.m]
theorem repLoop_zero {R : Type} (body : St → (St → Option R) → Option R) (lo : Nat) (hi : Option Nat)
    (count : Nat) (last : Option Nat) (s : St) (k : St → Option R) :
    repLoop body lo hi 0 count last s k = none := by simp only [repLoop]
theorem repLoop_succ {R : Type} (body : St → (St → Option R) → Option R) (lo : Nat) (hi : Option Nat)
    (fuel count : Nat) (last : Option Nat) (s : St) (k : St → Option R) :
    repLoop body lo hi (fuel + 1) count last s k =
      if count < lo then body s (fun s' => repLoop body lo hi fuel (count + 1) last s' k)
      else if canMore hi count && last != some s.pos then
        (body s (fun s' => repLoop body lo hi fuel (count + 1) (some s.pos) s' k)).or (k s)
      else k s := by
  simp only [repLoop]
  split
  · rfl
  · split
    · cases body s (fun s' => repLoop body lo hi fuel (count + 1) (some s.pos) s' k) <;> rfl
    · rfl

/-! the same, restricted to states whose remaining text is visibly `c :: t` or `[]`: `simp` then evaluates a pattern only
    where the text is known (call by need) and never unfolds it under the binder of a continuation -/

theorem e_seq_c {R : Type} (a b : Rx) (p : Option Char) (c : Char) (t : Str) (pos : Nat) (caps : List (Nat × Nat × Nat))
    (k : St → Option R) : (Rx.seq a b).m ⟨p, c :: t, pos, caps⟩ k = a.m ⟨p, c :: t, pos, caps⟩ (fun s' => b.m s' k) := m_seq ..
theorem e_seq_n {R : Type} (a b : Rx) (p : Option Char) (pos : Nat) (caps : List (Nat × Nat × Nat))
    (k : St → Option R) : (Rx.seq a b).m ⟨p, [], pos, caps⟩ k = a.m ⟨p, [], pos, caps⟩ (fun s' => b.m s' k) := m_seq ..
theorem e_alt_c {R : Type} (a b : Rx) (p : Option Char) (c : Char) (t : Str) (pos : Nat) (caps : List (Nat × Nat × Nat))
    (k : St → Option R) :
    (Rx.alt a b).m ⟨p, c :: t, pos, caps⟩ k = (a.m ⟨p, c :: t, pos, caps⟩ k).or (b.m ⟨p, c :: t, pos, caps⟩ k) := m_alt ..
theorem e_alt_n {R : Type} (a b : Rx) (p : Option Char) (pos : Nat) (caps : List (Nat × Nat × Nat))
    (k : St → Option R) :
    (Rx.alt a b).m ⟨p, [], pos, caps⟩ k = (a.m ⟨p, [], pos, caps⟩ k).or (b.m ⟨p, [], pos, caps⟩ k) := m_alt ..
theorem e_rep_c {R : Type} (r : Rx) (lo : Nat) (hi : Option Nat) (p : Option Char) (c : Char) (t : Str) (pos : Nat)
    (caps : List (Nat × Nat × Nat)) (k : St → Option R) :
    (Rx.rep r lo hi).m ⟨p, c :: t, pos, caps⟩ k =
      repLoop r.m lo hi (t.length + 1 + lo + 2) 0 none ⟨p, c :: t, pos, caps⟩ k := m_rep ..
theorem e_rep_n {R : Type} (r : Rx) (lo : Nat) (hi : Option Nat) (p : Option Char) (pos : Nat)
    (caps : List (Nat × Nat × Nat)) (k : St → Option R) :
    (Rx.rep r lo hi).m ⟨p, [], pos, caps⟩ k = repLoop r.m lo hi (0 + lo + 2) 0 none ⟨p, [], pos, caps⟩ k := m_rep ..
theorem e_grp_c {R : Type} (i : Nat) (r : Rx) (p : Option Char) (c : Char) (t : Str) (pos : Nat)
    (caps : List (Nat × Nat × Nat)) (k : St → Option R) :
    (Rx.grp i r).m ⟨p, c :: t, pos, caps⟩ k =
      r.m ⟨p, c :: t, pos, caps⟩ (fun s' => k ⟨s'.prev, s'.rest, s'.pos, (i, pos, s'.pos) :: s'.caps⟩) := m_grp ..
theorem e_grp_n {R : Type} (i : Nat) (r : Rx) (p : Option Char) (pos : Nat)
    (caps : List (Nat × Nat × Nat)) (k : St → Option R) :
    (Rx.grp i r).m ⟨p, [], pos, caps⟩ k =
      r.m ⟨p, [], pos, caps⟩ (fun s' => k ⟨s'.prev, s'.rest, s'.pos, (i, pos, s'.pos) :: s'.caps⟩) := m_grp ..
theorem e_ahead_c {R : Type} (r : Rx) (p : Option Char) (c : Char) (t : Str) (pos : Nat)
    (caps : List (Nat × Nat × Nat)) (k : St → Option R) :
    (Rx.ahead r).m ⟨p, c :: t, pos, caps⟩ k = match r.m (R := St) ⟨p, c :: t, pos, caps⟩ some with
      | some s' => k ⟨p, c :: t, pos, s'.caps⟩
      | none => none := m_ahead ..
theorem e_ahead_n {R : Type} (r : Rx) (p : Option Char) (pos : Nat)
    (caps : List (Nat × Nat × Nat)) (k : St → Option R) :
    (Rx.ahead r).m ⟨p, [], pos, caps⟩ k = match r.m (R := St) ⟨p, [], pos, caps⟩ some with
      | some s' => k ⟨p, [], pos, s'.caps⟩
      | none => none := m_ahead ..
theorem e_loop_c {R : Type} (body : St → (St → Option R) → Option R) (lo : Nat) (hi : Option Nat)
    (fuel count : Nat) (last : Option Nat) (p : Option Char) (c : Char) (t : Str) (pos : Nat)
    (caps : List (Nat × Nat × Nat)) (k : St → Option R) :
    repLoop body lo hi (fuel + 1) count last ⟨p, c :: t, pos, caps⟩ k =
      if count < lo then body ⟨p, c :: t, pos, caps⟩ (fun s' => repLoop body lo hi fuel (count + 1) last s' k)
      else if canMore hi count && last != some pos then
        (body ⟨p, c :: t, pos, caps⟩ (fun s' => repLoop body lo hi fuel (count + 1) (some pos) s' k)).or
          (k ⟨p, c :: t, pos, caps⟩)
      else k ⟨p, c :: t, pos, caps⟩ := repLoop_succ ..
theorem e_loop_n {R : Type} (body : St → (St → Option R) → Option R) (lo : Nat) (hi : Option Nat)
    (fuel count : Nat) (last : Option Nat) (p : Option Char) (pos : Nat)
    (caps : List (Nat × Nat × Nat)) (k : St → Option R) :
    repLoop body lo hi (fuel + 1) count last ⟨p, [], pos, caps⟩ k =
      if count < lo then body ⟨p, [], pos, caps⟩ (fun s' => repLoop body lo hi fuel (count + 1) last s' k)
      else if canMore hi count && last != some pos then
        (body ⟨p, [], pos, caps⟩ (fun s' => repLoop body lo hi fuel (count + 1) (some pos) s' k)).or
          (k ⟨p, [], pos, caps⟩)
      else k ⟨p, [], pos, caps⟩ := repLoop_succ ..

/-- a bounded repeat that has used up its iterations continues without looking at the text -/
theorem e_loop_done {R : Type} (body : St → (St → Option R) → Option R) (lo h : Nat)
    (fuel count : Nat) (last : Option Nat) (s : St) (k : St → Option R) (h1 : lo ≤ count) (h2 : h ≤ count) :
    repLoop body lo (some h) (fuel + 1) count last s k = k s := by
  rw [repLoop_succ]
  have : ¬ count < lo := by omega
  have hc : canMore (some h) count = false := by simp [canMore]; omega
  simp [this, hc]

/-- symbolic evaluation of a pattern on a text with a known beginning -/
macro "rx_eval" "[" ts:Lean.Parser.Tactic.simpLemma,* "]" : tactic =>
  `(tactic| simp [$ts,*, coreOf, tailOf, headOf, Rx.seqs, Rx.alts, m_eps, m_fail, m_chr_cons, m_chr_nil, e_seq_c, e_seq_n,
      e_alt_c, e_alt_n, e_rep_c, e_rep_n, e_grp_c, e_grp_n, e_ahead_c, e_ahead_n, m_eos_nil, m_eos_cons2, m_eos_one,
      repLoop_zero, e_loop_c, e_loop_n, e_loop_done, canMore, CharSet.mem, Tok.text, compText,
      Comp.str, Comp.isHalf, lastOr,
      Gen.cs_0f512a0d, Gen.cs_ec587de9, Gen.cs_ec6bba2a, Gen.cs_38ea6e46, Gen.cs_5f20f5ed, Gen.cs_ae876102, Gen.cs_faf00333, Gen.cs_a7428032, Gen.cs_70d553c2, Gen.cs_ff6fca51, Gen.cs_ad7dd545, Gen.cs_93b62202,
      Gen.cs_d4a22649, Gen.cs_a4edc5c7, Gen.cs_c61dc3f6, Gen.cs_b6397694, Gen.cs_ecd0074f, Gen.cs_76a08037, Gen.cs_3ac704d2, Gen.cs_d51eeaa1, Gen.cs_50cf3e98, Gen.cs_11a482f9, Gen.cs_21c56079,
      Gen.cs_a41953ce, Gen.cs_b18a8079, Gen.cs_f3c352d4])

theorem comp_head_word (c : Comp) : ∃ ch t, compText c = ch :: t ∧ Gen.cs_14d6aa8a.mem ch = true := by
  cases c <;> simp [compText, Comp.str, Comp.isHalf, w_N, w_S, w_E, w_W]

theorem okPrev_LB35 (prev : Option Char) (h : OkPrev prev) :
    prev = none ∨ ∃ p, prev = some p ∧ (Gen.cs_76a08037.mem p = true ∨ Gen.cs_14d6aa8a.mem p = false) := by
  rcases h with rfl | rfl | rfl | rfl
  · exact Or.inl rfl
  · exact Or.inr ⟨_, rfl, Or.inl (by decide)⟩
  · exact Or.inr ⟨_, rfl, Or.inl (by decide)⟩
  · exact Or.inr ⟨_, rfl, Or.inr w_blank⟩

/-- the behaviour of one spelling pattern `X` (whose own canonical component is `c`) at the beginning of a token, from the
    behaviour of its core (the part between look-behind and look-ahead) -/
theorem startStep_family (X : Rx) (c : Comp)
    (hshape : X = .seq (LBof Gen.cs_76a08037) (.seq (coreOf X) LA))
    (hhit : ∀ (prev : Option Char) (rest : Str) (pos : Nat) (caps : List (Nat × Nat × Nat)) (k : St → Option Match),
      ∃ caps', (coreOf X).m ⟨prev, compText c ++ rest, pos, caps⟩ k =
        k ⟨lastOr prev (compText c), rest, pos + (compText c).length, caps'⟩)
    (hmiss : ∀ (tok : Tok), tok ≠ .comp c → ∀ (prev : Option Char) (rest : Str) (pos : Nat) (caps : List (Nat × Nat × Nat))
      (k : St → Option Match), (coreOf X).m ⟨prev, tok.text ++ rest, pos, caps⟩ k = none) :
    StartStep X (fun _ => compText c) := by
  generalize coreOf X = core at hshape hhit hmiss
  subst hshape
  intro tok toks prev pos adv hp
  by_cases htok : tok = .comp c
  · subst htok
    left
    obtain ⟨ch, t, hct, hw⟩ := comp_head_word c
    unfold matchHere
    simp only [m_seq]
    show ∃ caps, (LBof Gen.cs_76a08037).m ⟨prev, compText c ++ toksText toks, pos, []⟩ _ = _ ∧ _
    rw [hct, List.cons_append, LB_pass Gen.cs_76a08037 prev ch _ pos [] _ (okPrev_LB35 prev hp) hw, ← List.cons_append, ← hct]
    obtain ⟨caps', hc⟩ := hhit prev (toksText toks) pos [(1, pos, pos)]
      (fun s' => LA.m s' (fun s' => if (adv && s'.pos == pos) = true then none else some ⟨pos, s'.pos, s'.caps⟩))
    refine ⟨(12, pos + (compText c).length, pos + (compText c).length) :: caps', ?_, rfl⟩
    rw [hc, LA_pass _ _ _ _ _ (okRest_toks toks)]
    have hl := C02_compText_length c
    have : (pos + (compText c).length == pos) = false := by
      simp only [beq_eq_false_iff_ne, ne_eq]; omega
    simp [this, Tok.text]
  · right
    unfold matchHere
    simp only [m_seq]
    apply LB_none
    intro caps'
    exact hmiss tok htok prev _ pos caps' _

theorem ne_shape : Gen.ne_regex = .seq (LBof Gen.cs_76a08037) (.seq (coreOf Gen.ne_regex) LA) := rfl
theorem nw_shape : Gen.nw_regex = .seq (LBof Gen.cs_76a08037) (.seq (coreOf Gen.nw_regex) LA) := rfl
theorem se_shape : Gen.se_regex = .seq (LBof Gen.cs_76a08037) (.seq (coreOf Gen.se_regex) LA) := rfl
theorem sw_shape : Gen.sw_regex = .seq (LBof Gen.cs_76a08037) (.seq (coreOf Gen.sw_regex) LA) := rfl
theorem n2_shape : Gen.n2_regex = .seq (LBof Gen.cs_76a08037) (.seq (coreOf Gen.n2_regex) LA) := rfl
theorem s2_shape : Gen.s2_regex = .seq (LBof Gen.cs_76a08037) (.seq (coreOf Gen.s2_regex) LA) := rfl
theorem e2_shape : Gen.e2_regex = .seq (LBof Gen.cs_76a08037) (.seq (coreOf Gen.e2_regex) LA) := rfl
theorem w2_shape : Gen.w2_regex = .seq (LBof Gen.cs_76a08037) (.seq (coreOf Gen.w2_regex) LA) := rfl

theorem ne_hit (prev : Option Char) (rest : Str) (pos : Nat) (caps : List (Nat × Nat × Nat)) (k : St → Option Match) :
    ∃ caps', (coreOf Gen.ne_regex).m ⟨prev, compText .NE ++ rest, pos, caps⟩ k =
      k ⟨lastOr prev (compText .NE), rest, pos + (compText .NE).length, caps'⟩ := by
  rx_eval [Gen.ne_regex]
  exact ⟨_, rfl⟩

theorem ne_miss (tok : Tok) (h : tok ≠ .comp .NE) (prev : Option Char) (rest : Str) (pos : Nat)
    (caps : List (Nat × Nat × Nat)) (k : St → Option Match) :
    (coreOf Gen.ne_regex).m ⟨prev, tok.text ++ rest, pos, caps⟩ k = none := by
  cases tok with
  | comp c => cases c <;> first | exact absurd rfl h | rx_eval [Gen.ne_regex]
  | comma => rx_eval [Gen.ne_regex]
  | semi => rx_eval [Gen.ne_regex]

theorem ne_start : StartStep Gen.ne_regex (fun _ => compText .NE) :=
  startStep_family Gen.ne_regex .NE ne_shape ne_hit ne_miss

theorem ne_inner : InnerFail Gen.ne_regex := by
  rw [ne_shape]; exact innerFail_LB _ _ (by decide)

theorem ne_nil (prev : Option Char) (pos : Nat) (adv : Bool) : matchHere Gen.ne_regex ⟨prev, [], pos, []⟩ adv = none := by
  unfold matchHere
  rw [ne_shape, m_seq]
  apply LB_none
  intro caps'
  rx_eval [Gen.ne_regex]

theorem nw_hit (prev : Option Char) (rest : Str) (pos : Nat) (caps : List (Nat × Nat × Nat)) (k : St → Option Match) :
    ∃ caps', (coreOf Gen.nw_regex).m ⟨prev, compText .NW ++ rest, pos, caps⟩ k =
      k ⟨lastOr prev (compText .NW), rest, pos + (compText .NW).length, caps'⟩ := by
  rx_eval [Gen.nw_regex]
  exact ⟨_, rfl⟩

theorem nw_miss (tok : Tok) (h : tok ≠ .comp .NW) (prev : Option Char) (rest : Str) (pos : Nat)
    (caps : List (Nat × Nat × Nat)) (k : St → Option Match) :
    (coreOf Gen.nw_regex).m ⟨prev, tok.text ++ rest, pos, caps⟩ k = none := by
  cases tok with
  | comp c => cases c <;> first | exact absurd rfl h | rx_eval [Gen.nw_regex]
  | comma => rx_eval [Gen.nw_regex]
  | semi => rx_eval [Gen.nw_regex]

theorem nw_start : StartStep Gen.nw_regex (fun _ => compText .NW) :=
  startStep_family Gen.nw_regex .NW nw_shape nw_hit nw_miss

theorem nw_inner : InnerFail Gen.nw_regex := by
  rw [nw_shape]; exact innerFail_LB _ _ (by decide)

theorem nw_nil (prev : Option Char) (pos : Nat) (adv : Bool) : matchHere Gen.nw_regex ⟨prev, [], pos, []⟩ adv = none := by
  unfold matchHere
  rw [nw_shape, m_seq]
  apply LB_none
  intro caps'
  rx_eval [Gen.nw_regex]

theorem se_hit (prev : Option Char) (rest : Str) (pos : Nat) (caps : List (Nat × Nat × Nat)) (k : St → Option Match) :
    ∃ caps', (coreOf Gen.se_regex).m ⟨prev, compText .SE ++ rest, pos, caps⟩ k =
      k ⟨lastOr prev (compText .SE), rest, pos + (compText .SE).length, caps'⟩ := by
  rx_eval [Gen.se_regex]
  exact ⟨_, rfl⟩

theorem se_miss (tok : Tok) (h : tok ≠ .comp .SE) (prev : Option Char) (rest : Str) (pos : Nat)
    (caps : List (Nat × Nat × Nat)) (k : St → Option Match) :
    (coreOf Gen.se_regex).m ⟨prev, tok.text ++ rest, pos, caps⟩ k = none := by
  cases tok with
  | comp c => cases c <;> first | exact absurd rfl h | rx_eval [Gen.se_regex]
  | comma => rx_eval [Gen.se_regex]
  | semi => rx_eval [Gen.se_regex]

theorem se_start : StartStep Gen.se_regex (fun _ => compText .SE) :=
  startStep_family Gen.se_regex .SE se_shape se_hit se_miss

theorem se_inner : InnerFail Gen.se_regex := by
  rw [se_shape]; exact innerFail_LB _ _ (by decide)

theorem se_nil (prev : Option Char) (pos : Nat) (adv : Bool) : matchHere Gen.se_regex ⟨prev, [], pos, []⟩ adv = none := by
  unfold matchHere
  rw [se_shape, m_seq]
  apply LB_none
  intro caps'
  rx_eval [Gen.se_regex]

theorem sw_hit (prev : Option Char) (rest : Str) (pos : Nat) (caps : List (Nat × Nat × Nat)) (k : St → Option Match) :
    ∃ caps', (coreOf Gen.sw_regex).m ⟨prev, compText .SW ++ rest, pos, caps⟩ k =
      k ⟨lastOr prev (compText .SW), rest, pos + (compText .SW).length, caps'⟩ := by
  rx_eval [Gen.sw_regex]
  exact ⟨_, rfl⟩

theorem sw_miss (tok : Tok) (h : tok ≠ .comp .SW) (prev : Option Char) (rest : Str) (pos : Nat)
    (caps : List (Nat × Nat × Nat)) (k : St → Option Match) :
    (coreOf Gen.sw_regex).m ⟨prev, tok.text ++ rest, pos, caps⟩ k = none := by
  cases tok with
  | comp c => cases c <;> first | exact absurd rfl h | rx_eval [Gen.sw_regex]
  | comma => rx_eval [Gen.sw_regex]
  | semi => rx_eval [Gen.sw_regex]

theorem sw_start : StartStep Gen.sw_regex (fun _ => compText .SW) :=
  startStep_family Gen.sw_regex .SW sw_shape sw_hit sw_miss

theorem sw_inner : InnerFail Gen.sw_regex := by
  rw [sw_shape]; exact innerFail_LB _ _ (by decide)

theorem sw_nil (prev : Option Char) (pos : Nat) (adv : Bool) : matchHere Gen.sw_regex ⟨prev, [], pos, []⟩ adv = none := by
  unfold matchHere
  rw [sw_shape, m_seq]
  apply LB_none
  intro caps'
  rx_eval [Gen.sw_regex]

theorem n2_hit (prev : Option Char) (rest : Str) (pos : Nat) (caps : List (Nat × Nat × Nat)) (k : St → Option Match) :
    ∃ caps', (coreOf Gen.n2_regex).m ⟨prev, compText .N ++ rest, pos, caps⟩ k =
      k ⟨lastOr prev (compText .N), rest, pos + (compText .N).length, caps'⟩ := by
  rx_eval [Gen.n2_regex]
  exact ⟨_, rfl⟩

theorem n2_miss (tok : Tok) (h : tok ≠ .comp .N) (prev : Option Char) (rest : Str) (pos : Nat)
    (caps : List (Nat × Nat × Nat)) (k : St → Option Match) :
    (coreOf Gen.n2_regex).m ⟨prev, tok.text ++ rest, pos, caps⟩ k = none := by
  cases tok with
  | comp c => cases c <;> first | exact absurd rfl h | rx_eval [Gen.n2_regex]
  | comma => rx_eval [Gen.n2_regex]
  | semi => rx_eval [Gen.n2_regex]

theorem n2_start : StartStep Gen.n2_regex (fun _ => compText .N) :=
  startStep_family Gen.n2_regex .N n2_shape n2_hit n2_miss

theorem n2_inner : InnerFail Gen.n2_regex := by
  rw [n2_shape]; exact innerFail_LB _ _ (by decide)

theorem n2_nil (prev : Option Char) (pos : Nat) (adv : Bool) : matchHere Gen.n2_regex ⟨prev, [], pos, []⟩ adv = none := by
  unfold matchHere
  rw [n2_shape, m_seq]
  apply LB_none
  intro caps'
  rx_eval [Gen.n2_regex]

theorem s2_hit (prev : Option Char) (rest : Str) (pos : Nat) (caps : List (Nat × Nat × Nat)) (k : St → Option Match) :
    ∃ caps', (coreOf Gen.s2_regex).m ⟨prev, compText .S ++ rest, pos, caps⟩ k =
      k ⟨lastOr prev (compText .S), rest, pos + (compText .S).length, caps'⟩ := by
  rx_eval [Gen.s2_regex]
  exact ⟨_, rfl⟩

theorem s2_miss (tok : Tok) (h : tok ≠ .comp .S) (prev : Option Char) (rest : Str) (pos : Nat)
    (caps : List (Nat × Nat × Nat)) (k : St → Option Match) :
    (coreOf Gen.s2_regex).m ⟨prev, tok.text ++ rest, pos, caps⟩ k = none := by
  cases tok with
  | comp c => cases c <;> first | exact absurd rfl h | rx_eval [Gen.s2_regex]
  | comma => rx_eval [Gen.s2_regex]
  | semi => rx_eval [Gen.s2_regex]

theorem s2_start : StartStep Gen.s2_regex (fun _ => compText .S) :=
  startStep_family Gen.s2_regex .S s2_shape s2_hit s2_miss

theorem s2_inner : InnerFail Gen.s2_regex := by
  rw [s2_shape]; exact innerFail_LB _ _ (by decide)

theorem s2_nil (prev : Option Char) (pos : Nat) (adv : Bool) : matchHere Gen.s2_regex ⟨prev, [], pos, []⟩ adv = none := by
  unfold matchHere
  rw [s2_shape, m_seq]
  apply LB_none
  intro caps'
  rx_eval [Gen.s2_regex]

theorem e2_hit (prev : Option Char) (rest : Str) (pos : Nat) (caps : List (Nat × Nat × Nat)) (k : St → Option Match) :
    ∃ caps', (coreOf Gen.e2_regex).m ⟨prev, compText .E ++ rest, pos, caps⟩ k =
      k ⟨lastOr prev (compText .E), rest, pos + (compText .E).length, caps'⟩ := by
  rx_eval [Gen.e2_regex]
  exact ⟨_, rfl⟩

theorem e2_miss (tok : Tok) (h : tok ≠ .comp .E) (prev : Option Char) (rest : Str) (pos : Nat)
    (caps : List (Nat × Nat × Nat)) (k : St → Option Match) :
    (coreOf Gen.e2_regex).m ⟨prev, tok.text ++ rest, pos, caps⟩ k = none := by
  cases tok with
  | comp c => cases c <;> first | exact absurd rfl h | rx_eval [Gen.e2_regex]
  | comma => rx_eval [Gen.e2_regex]
  | semi => rx_eval [Gen.e2_regex]

theorem e2_start : StartStep Gen.e2_regex (fun _ => compText .E) :=
  startStep_family Gen.e2_regex .E e2_shape e2_hit e2_miss

theorem e2_inner : InnerFail Gen.e2_regex := by
  rw [e2_shape]; exact innerFail_LB _ _ (by decide)

theorem e2_nil (prev : Option Char) (pos : Nat) (adv : Bool) : matchHere Gen.e2_regex ⟨prev, [], pos, []⟩ adv = none := by
  unfold matchHere
  rw [e2_shape, m_seq]
  apply LB_none
  intro caps'
  rx_eval [Gen.e2_regex]

theorem w2_hit (prev : Option Char) (rest : Str) (pos : Nat) (caps : List (Nat × Nat × Nat)) (k : St → Option Match) :
    ∃ caps', (coreOf Gen.w2_regex).m ⟨prev, compText .W ++ rest, pos, caps⟩ k =
      k ⟨lastOr prev (compText .W), rest, pos + (compText .W).length, caps'⟩ := by
  rx_eval [Gen.w2_regex]
  exact ⟨_, rfl⟩

theorem w2_miss (tok : Tok) (h : tok ≠ .comp .W) (prev : Option Char) (rest : Str) (pos : Nat)
    (caps : List (Nat × Nat × Nat)) (k : St → Option Match) :
    (coreOf Gen.w2_regex).m ⟨prev, tok.text ++ rest, pos, caps⟩ k = none := by
  cases tok with
  | comp c => cases c <;> first | exact absurd rfl h | rx_eval [Gen.w2_regex]
  | comma => rx_eval [Gen.w2_regex]
  | semi => rx_eval [Gen.w2_regex]

theorem w2_start : StartStep Gen.w2_regex (fun _ => compText .W) :=
  startStep_family Gen.w2_regex .W w2_shape w2_hit w2_miss

theorem w2_inner : InnerFail Gen.w2_regex := by
  rw [w2_shape]; exact innerFail_LB _ _ (by decide)

theorem w2_nil (prev : Option Char) (pos : Nat) (adv : Bool) : matchHere Gen.w2_regex ⟨prev, [], pos, []⟩ adv = none := by
  unfold matchHere
  rw [w2_shape, m_seq]
  apply LB_none
  intro caps'
  rx_eval [Gen.w2_regex]

/-! ### the four `clean_qq` patterns `ne_clean … sw_clean` (no look-around: context-free) -/

theorem nec_inner : InnerFail Gen.ne_clean := by
  intro c1 c2 t rest tok pos ht
  cases tok with
  | comp c =>
    cases c <;> simp [Tok.text, compText, Comp.str, Comp.isHalf] at ht <;> obtain ⟨rfl, rfl, rfl⟩ := ht <;>
      refine ⟨by rx_eval [matchHere, Gen.ne_clean], ?_⟩ <;> intro c3 h3 <;> cases h3 <;> rx_eval [matchHere, Gen.ne_clean]
  | comma =>
    simp [Tok.text] at ht
    obtain ⟨rfl, rfl, rfl⟩ := ht
    refine ⟨by rx_eval [matchHere, Gen.ne_clean], ?_⟩
    intro c3 h3; cases h3
  | semi =>
    simp [Tok.text] at ht
    obtain ⟨rfl, rfl, rfl⟩ := ht
    refine ⟨by rx_eval [matchHere, Gen.ne_clean], ?_⟩
    intro c3 h3; cases h3

theorem nec_start : StartStep Gen.ne_clean (fun _ => compText .NE) := by
  intro tok toks prev pos adv _
  have h3 : ¬ (pos + 1 + 1 + 1 = pos) := by omega
  by_cases htok : tok = .comp .NE
  · subst htok
    left
    refine ⟨?_, ?_, rfl⟩
    rotate_left
    · rx_eval [matchHere, Gen.ne_clean, h3]
      rfl
  · right
    cases tok with
    | comp c => cases c <;> first | exact absurd rfl htok | rx_eval [matchHere, Gen.ne_clean]
    | comma => rx_eval [matchHere, Gen.ne_clean]
    | semi => rx_eval [matchHere, Gen.ne_clean]

theorem nec_nil (prev : Option Char) (pos : Nat) (adv : Bool) : matchHere Gen.ne_clean ⟨prev, [], pos, []⟩ adv = none := by
  rx_eval [matchHere, Gen.ne_clean]

theorem nwc_inner : InnerFail Gen.nw_clean := by
  intro c1 c2 t rest tok pos ht
  cases tok with
  | comp c =>
    cases c <;> simp [Tok.text, compText, Comp.str, Comp.isHalf] at ht <;> obtain ⟨rfl, rfl, rfl⟩ := ht <;>
      refine ⟨by rx_eval [matchHere, Gen.nw_clean], ?_⟩ <;> intro c3 h3 <;> cases h3 <;> rx_eval [matchHere, Gen.nw_clean]
  | comma =>
    simp [Tok.text] at ht
    obtain ⟨rfl, rfl, rfl⟩ := ht
    refine ⟨by rx_eval [matchHere, Gen.nw_clean], ?_⟩
    intro c3 h3; cases h3
  | semi =>
    simp [Tok.text] at ht
    obtain ⟨rfl, rfl, rfl⟩ := ht
    refine ⟨by rx_eval [matchHere, Gen.nw_clean], ?_⟩
    intro c3 h3; cases h3

theorem nwc_start : StartStep Gen.nw_clean (fun _ => compText .NW) := by
  intro tok toks prev pos adv _
  have h3 : ¬ (pos + 1 + 1 + 1 = pos) := by omega
  by_cases htok : tok = .comp .NW
  · subst htok
    left
    refine ⟨?_, ?_, rfl⟩
    rotate_left
    · rx_eval [matchHere, Gen.nw_clean, h3]
      rfl
  · right
    cases tok with
    | comp c => cases c <;> first | exact absurd rfl htok | rx_eval [matchHere, Gen.nw_clean]
    | comma => rx_eval [matchHere, Gen.nw_clean]
    | semi => rx_eval [matchHere, Gen.nw_clean]

theorem nwc_nil (prev : Option Char) (pos : Nat) (adv : Bool) : matchHere Gen.nw_clean ⟨prev, [], pos, []⟩ adv = none := by
  rx_eval [matchHere, Gen.nw_clean]

theorem sec_inner : InnerFail Gen.se_clean := by
  intro c1 c2 t rest tok pos ht
  cases tok with
  | comp c =>
    cases c <;> simp [Tok.text, compText, Comp.str, Comp.isHalf] at ht <;> obtain ⟨rfl, rfl, rfl⟩ := ht <;>
      refine ⟨by rx_eval [matchHere, Gen.se_clean], ?_⟩ <;> intro c3 h3 <;> cases h3 <;> rx_eval [matchHere, Gen.se_clean]
  | comma =>
    simp [Tok.text] at ht
    obtain ⟨rfl, rfl, rfl⟩ := ht
    refine ⟨by rx_eval [matchHere, Gen.se_clean], ?_⟩
    intro c3 h3; cases h3
  | semi =>
    simp [Tok.text] at ht
    obtain ⟨rfl, rfl, rfl⟩ := ht
    refine ⟨by rx_eval [matchHere, Gen.se_clean], ?_⟩
    intro c3 h3; cases h3

theorem sec_start : StartStep Gen.se_clean (fun _ => compText .SE) := by
  intro tok toks prev pos adv _
  have h3 : ¬ (pos + 1 + 1 + 1 = pos) := by omega
  by_cases htok : tok = .comp .SE
  · subst htok
    left
    refine ⟨?_, ?_, rfl⟩
    rotate_left
    · rx_eval [matchHere, Gen.se_clean, h3]
      rfl
  · right
    cases tok with
    | comp c => cases c <;> first | exact absurd rfl htok | rx_eval [matchHere, Gen.se_clean]
    | comma => rx_eval [matchHere, Gen.se_clean]
    | semi => rx_eval [matchHere, Gen.se_clean]

theorem sec_nil (prev : Option Char) (pos : Nat) (adv : Bool) : matchHere Gen.se_clean ⟨prev, [], pos, []⟩ adv = none := by
  rx_eval [matchHere, Gen.se_clean]

theorem swc_inner : InnerFail Gen.sw_clean := by
  intro c1 c2 t rest tok pos ht
  cases tok with
  | comp c =>
    cases c <;> simp [Tok.text, compText, Comp.str, Comp.isHalf] at ht <;> obtain ⟨rfl, rfl, rfl⟩ := ht <;>
      refine ⟨by rx_eval [matchHere, Gen.sw_clean], ?_⟩ <;> intro c3 h3 <;> cases h3 <;> rx_eval [matchHere, Gen.sw_clean]
  | comma =>
    simp [Tok.text] at ht
    obtain ⟨rfl, rfl, rfl⟩ := ht
    refine ⟨by rx_eval [matchHere, Gen.sw_clean], ?_⟩
    intro c3 h3; cases h3
  | semi =>
    simp [Tok.text] at ht
    obtain ⟨rfl, rfl, rfl⟩ := ht
    refine ⟨by rx_eval [matchHere, Gen.sw_clean], ?_⟩
    intro c3 h3; cases h3

theorem swc_start : StartStep Gen.sw_clean (fun _ => compText .SW) := by
  intro tok toks prev pos adv _
  have h3 : ¬ (pos + 1 + 1 + 1 = pos) := by omega
  by_cases htok : tok = .comp .SW
  · subst htok
    left
    refine ⟨?_, ?_, rfl⟩
    rotate_left
    · rx_eval [matchHere, Gen.sw_clean, h3]
      rfl
  · right
    cases tok with
    | comp c => cases c <;> first | exact absurd rfl htok | rx_eval [matchHere, Gen.sw_clean]
    | comma => rx_eval [matchHere, Gen.sw_clean]
    | semi => rx_eval [matchHere, Gen.sw_clean]

theorem swc_nil (prev : Option Char) (pos : Nat) (adv : Bool) : matchHere Gen.sw_clean ⟨prev, [], pos, []⟩ adv = none := by
  rx_eval [matchHere, Gen.sw_clean]

/-! ### `half_plus_q_regex` matches nowhere in a canonical text -/

theorem hpq_shape : Gen.half_plus_q_regex =
    .seq (LBof Gen.cs_ec6bba2a) (.seq (headOf (tailOf Gen.half_plus_q_regex)) (tailOf (tailOf Gen.half_plus_q_regex))) := rfl

/-- after a half, the "one or more quarters without fraction, then an end marker" part fails on whatever canonical text follows -/
theorem hpq_rep_none (toks : List Tok) (prev : Option Char) (pos : Nat) (caps : List (Nat × Nat × Nat))
    (k : St → Option Match) :
    (tailOf (tailOf Gen.half_plus_q_regex)).m ⟨prev, toksText toks, pos, caps⟩ k = none := by
  cases toks with
  | nil => rx_eval [Gen.half_plus_q_regex, toksText]
  | cons tok' toks' =>
    rw [toksText_cons]
    generalize toksText toks' = rest'
    cases tok' with
    | comp c' => cases c' <;> cases rest' <;> rx_eval [Gen.half_plus_q_regex]
    | comma => rx_eval [Gen.half_plus_q_regex]
    | semi => rx_eval [Gen.half_plus_q_regex]

theorem hpq_tail_none (tok : Tok) (toks : List Tok) (prev : Option Char) (pos : Nat) (caps : List (Nat × Nat × Nat))
    (k : St → Option Match) :
    (Rx.seq (headOf (tailOf Gen.half_plus_q_regex)) (tailOf (tailOf Gen.half_plus_q_regex))).m
      ⟨prev, tok.text ++ toksText toks, pos, caps⟩ k = none := by
  rw [m_seq]
  cases tok with
  | comp c =>
    cases c
    case N => rx_eval [Gen.half_plus_q_regex]; exact hpq_rep_none _ _ _ _ _
    case S => rx_eval [Gen.half_plus_q_regex]; exact hpq_rep_none _ _ _ _ _
    case E => rx_eval [Gen.half_plus_q_regex]; exact hpq_rep_none _ _ _ _ _
    case W => rx_eval [Gen.half_plus_q_regex]; exact hpq_rep_none _ _ _ _ _
    all_goals rx_eval [Gen.half_plus_q_regex]
  | comma => rx_eval [Gen.half_plus_q_regex]
  | semi => rx_eval [Gen.half_plus_q_regex]

theorem hpq_inner : InnerFail Gen.half_plus_q_regex := by
  rw [hpq_shape]; exact innerFail_LB _ _ (by decide)

theorem hpq_start (f : Match → Str) : StartStep Gen.half_plus_q_regex f := by
  intro tok toks prev pos adv _
  right
  unfold matchHere
  rw [hpq_shape, m_seq]
  apply LB_none
  intro caps'
  exact hpq_tail_none tok toks prev pos caps' _

theorem hpq_nil (prev : Option Char) (pos : Nat) (adv : Bool) :
    matchHere Gen.half_plus_q_regex ⟨prev, [], pos, []⟩ adv = none := by
  unfold matchHere
  rw [hpq_shape, m_seq]
  apply LB_none
  intro caps'
  rx_eval [Gen.half_plus_q_regex]

/-! ### `aliquot_intervener_remover_regex` matches nowhere in a canonical text

It needs a blank, an 'o' or an 'f' between two components; a canonical text has none.  The greedy `(component)+` may run over
any number of components; the induction is over the fuel of that loop. -/

/-- the loop body `(([NESW]½)|((NE|NW|SE|SW)¼))` -/
def ivBody : Rx := match headOf Gen.aliquot_intervener_remover_regex with
  | .grp _ (.rep b _ _) => b
  | _ => .fail

theorem iv_shape : Gen.aliquot_intervener_remover_regex =
    .seq (.grp 1 (.rep ivBody 1 none)) (tailOf Gen.aliquot_intervener_remover_regex) := rfl

/-- one component is consumed by one iteration of the loop body … -/
theorem iv_body_comp (c : Comp) (prev : Option Char) (rest : Str) (pos : Nat) (caps : List (Nat × Nat × Nat))
    (k : St → Option Match) :
    ∃ caps', ivBody.m ⟨prev, compText c ++ rest, pos, caps⟩ k =
      k ⟨lastOr prev (compText c), rest, pos + (compText c).length, caps'⟩ := by
  cases c <;> rx_eval [ivBody, Gen.aliquot_intervener_remover_regex] <;> exact ⟨_, rfl⟩

/-- … a separator or the end of the text by none -/
theorem iv_body_comma (prev : Option Char) (rest : Str) (pos : Nat) (caps : List (Nat × Nat × Nat))
    (k : St → Option Match) : ivBody.m ⟨prev, Tok.comma.text ++ rest, pos, caps⟩ k = none := by
  rx_eval [ivBody, Gen.aliquot_intervener_remover_regex]
theorem iv_body_semi (prev : Option Char) (rest : Str) (pos : Nat) (caps : List (Nat × Nat × Nat))
    (k : St → Option Match) : ivBody.m ⟨prev, Tok.semi.text ++ rest, pos, caps⟩ k = none := by
  rx_eval [ivBody, Gen.aliquot_intervener_remover_regex]
theorem iv_body_nil (prev : Option Char) (pos : Nat) (caps : List (Nat × Nat × Nat))
    (k : St → Option Match) : ivBody.m ⟨prev, [], pos, caps⟩ k = none := by
  rx_eval [ivBody, Gen.aliquot_intervener_remover_regex]

/-- what must follow the components (a blank, 'o', 'f', …) is not there -/
theorem iv_tail_none (toks : List Tok) (prev : Option Char) (pos : Nat) (caps : List (Nat × Nat × Nat))
    (k : St → Option Match) :
    (tailOf Gen.aliquot_intervener_remover_regex).m ⟨prev, toksText toks, pos, caps⟩ k = none := by
  cases toks with
  | nil => rx_eval [Gen.aliquot_intervener_remover_regex, toksText]
  | cons tok toks =>
    rw [toksText_cons]
    cases tok with
    | comp c => cases c <;> rx_eval [Gen.aliquot_intervener_remover_regex]
    | comma => rx_eval [Gen.aliquot_intervener_remover_regex]
    | semi => rx_eval [Gen.aliquot_intervener_remover_regex]

/-- the greedy loop over components, whatever its fuel and counters: every way of leaving it fails -/
theorem iv_loop_none (K : St → Option Match)
    (hK : ∀ (toks : List Tok) prev pos caps, K ⟨prev, toksText toks, pos, caps⟩ = none) :
    ∀ (fuel : Nat) (toks : List Tok) (count : Nat) (last : Option Nat) (prev : Option Char) (pos : Nat)
      (caps : List (Nat × Nat × Nat)),
      repLoop ivBody.m 1 none fuel count last ⟨prev, toksText toks, pos, caps⟩ K = none := by
  intro fuel
  induction fuel with
  | zero => intro toks count last prev pos caps; rfl
  | succ n ih =>
    intro toks count last prev pos caps
    have hbody : ∀ (l : Option Nat) (cnt : Nat),
        ivBody.m ⟨prev, toksText toks, pos, caps⟩ (fun s' => repLoop ivBody.m 1 none n cnt l s' K) = none := by
      intro l cnt
      cases toks with
      | nil => exact iv_body_nil _ _ _ _
      | cons tok toks =>
        rw [toksText_cons]
        cases tok with
        | comp c =>
          obtain ⟨caps', hc⟩ := iv_body_comp c prev (toksText toks) pos caps
            (fun s' => repLoop ivBody.m 1 none n cnt l s' K)
          show ivBody.m ⟨prev, compText c ++ toksText toks, pos, caps⟩ _ = none
          rw [hc]
          exact ih toks cnt l _ _ caps'
        | comma => exact iv_body_comma _ _ _ _ _
        | semi => exact iv_body_semi _ _ _ _ _
    rw [repLoop_succ]
    split
    · exact hbody _ _
    · split
      · rw [hbody, hK]; rfl
      · exact hK _ _ _ _

theorem iv_matchHere_none (toks : List Tok) (prev : Option Char) (pos : Nat) (adv : Bool) :
    matchHere Gen.aliquot_intervener_remover_regex ⟨prev, toksText toks, pos, []⟩ adv = none := by
  unfold matchHere
  rw [iv_shape, m_seq, m_grp, m_rep]
  apply iv_loop_none
  intro toks' prev' pos' caps'
  exact iv_tail_none toks' prev' pos' _ _

theorem iv_inner : InnerFail Gen.aliquot_intervener_remover_regex := by
  intro c1 c2 t rest tok pos ht
  cases tok with
  | comp c =>
    cases c <;> simp [Tok.text, compText, Comp.str, Comp.isHalf] at ht <;> obtain ⟨rfl, rfl, rfl⟩ := ht <;>
      refine ⟨by rx_eval [matchHere, Gen.aliquot_intervener_remover_regex], ?_⟩ <;> intro c3 h3 <;> cases h3 <;> rx_eval [matchHere, Gen.aliquot_intervener_remover_regex]
  | comma =>
    simp [Tok.text] at ht
    obtain ⟨rfl, rfl, rfl⟩ := ht
    refine ⟨by rx_eval [matchHere, Gen.aliquot_intervener_remover_regex], ?_⟩
    intro c3 h3; cases h3
  | semi =>
    simp [Tok.text] at ht
    obtain ⟨rfl, rfl, rfl⟩ := ht
    refine ⟨by rx_eval [matchHere, Gen.aliquot_intervener_remover_regex], ?_⟩
    intro c3 h3; cases h3

theorem iv_start (f : Match → Str) : StartStep Gen.aliquot_intervener_remover_regex f := by
  intro tok toks prev pos adv _
  right
  rw [← toksText_cons]
  exact iv_matchHere_none _ _ _ _

theorem iv_nil (prev : Option Char) (pos : Nat) (adv : Bool) :
    matchHere Gen.aliquot_intervener_remover_regex ⟨prev, [], pos, []⟩ adv = none :=
  iv_matchHere_none [] prev pos adv

/-! ### the sixteen substitutions leave a canonical text unchanged -/

theorem scrubStep_tokens (name : String) (hn : name ∈ Gen.QQ_SCRUBBER_REGEXES ++ Gen.QQ_CLEAN_REGEXES) (toks : List Tok) :
    scrubStep name (toksText toks) = toksText toks := by
  simp only [Gen.QQ_SCRUBBER_REGEXES, Gen.QQ_CLEAN_REGEXES, List.cons_append, List.nil_append, List.mem_cons,
    List.not_mem_nil, or_false] at hn
  rcases hn with rfl | rfl | rfl | rfl | rfl | rfl | rfl | rfl | rfl | rfl | rfl | rfl
  · exact subWith_tokens Gen.ne_regex _ ne_inner ne_start ne_nil toks
  · exact subWith_tokens Gen.nw_regex _ nw_inner nw_start nw_nil toks
  · exact subWith_tokens Gen.se_regex _ se_inner se_start se_nil toks
  · exact subWith_tokens Gen.sw_regex _ sw_inner sw_start sw_nil toks
  · exact subWith_tokens Gen.n2_regex _ n2_inner n2_start n2_nil toks
  · exact subWith_tokens Gen.s2_regex _ s2_inner s2_start s2_nil toks
  · exact subWith_tokens Gen.e2_regex _ e2_inner e2_start e2_nil toks
  · exact subWith_tokens Gen.w2_regex _ w2_inner w2_start w2_nil toks
  · exact subWith_tokens Gen.ne_clean _ nec_inner nec_start nec_nil toks
  · exact subWith_tokens Gen.nw_clean _ nwc_inner nwc_start nwc_nil toks
  · exact subWith_tokens Gen.se_clean _ sec_inner sec_start sec_nil toks
  · exact subWith_tokens Gen.sw_clean _ swc_inner swc_start swc_nil toks

theorem halfPlusQStep_tokens (toks : List Tok) : halfPlusQStep (toksText toks) = toksText toks :=
  subWith_tokens Gen.half_plus_q_regex _ hpq_inner (hpq_start _) hpq_nil toks

theorem intervenerStep_tokens (toks : List Tok) : intervenerStep (toksText toks) = toksText toks :=
  subWith_tokens Gen.aliquot_intervener_remover_regex _ iv_inner (iv_start _) iv_nil toks

theorem scrubAll_fixed (names : List String) (t : Str) (h : ∀ n ∈ names, scrubStep n t = t) :
    scrubAll names t = some t := by
  unfold scrubAll
  induction names with
  | nil => rfl
  | cons n ns ih =>
    rw [List.foldlM_cons, (subScrubber_self_iff n t).mpr (h n (by simp))]
    exact ih (fun m hm => h m (by simp [hm]))

/-- **every canonical token text is a fixed point of `scrub_aliquots`**, with and without `clean_qq` -/
theorem C07_canonical_tokens_fixed (toks : List Tok) (cleanQQ : Bool) :
    Tract.scrubAliquots (toksText toks) cleanQQ = some (toksText toks) := by
  have h1 : scrubAll Gen.QQ_SCRUBBER_REGEXES (toksText toks) = some (toksText toks) :=
    scrubAll_fixed _ _ (fun n hn => scrubStep_tokens n (by simp [hn]) toks)
  have h2 : scrubAll Gen.QQ_CLEAN_REGEXES (toksText toks) = some (toksText toks) :=
    scrubAll_fixed _ _ (fun n hn => scrubStep_tokens n (by simp [hn]) toks)
  have h3 := (halfPlusQScrubber_self_iff _).mpr (halfPlusQStep_tokens toks)
  have h4 := (removeAliquotInterveners_self_iff _).mpr (intervenerStep_tokens toks)
  unfold scrubAliquots
  cases cleanQQ <;> simp [h1, h2, h3, h4]

/-- **C07 (canonical chain)**: the canonical text of a chain of aliquot components of ANY length ("N½NE¼", "S½N½SW¼", …, the
    empty text) is returned unchanged by `scrub_aliquots`, with and without `clean_qq`.  (`Comp` has no constructor for
    'ALL', so there is no side condition.) -/
theorem C07_canonical_chain_fixed (chain : List Comp) (cleanQQ : Bool) :
    Tract.scrubAliquots (chainText chain) cleanQQ = some (chainText chain) := by
  rw [← toksText_comps]
  exact C07_canonical_tokens_fixed _ cleanQQ

/-! ### several chains separated by ", " or "; " -/

/-- the tokens of several chains with the separator `sep` between them -/
def chainsToks (sep : Tok) : List (List Comp) → List Tok
  | [] => []
  | [c] => c.map Tok.comp
  | c :: d :: cs => c.map Tok.comp ++ sep :: chainsToks sep (d :: cs)

theorem toksText_chainsToks (sep : Tok) (chains : List (List Comp)) :
    toksText (chainsToks sep chains) = sep.text.intercalate (chains.map chainText) := by
  induction chains with
  | nil => rfl
  | cons c cs ih =>
    cases cs with
    | nil => simp [chainsToks, toksText_comps, List.intercalate, List.intersperse]
    | cons d cs =>
      rw [chainsToks, toksText_append, toksText_cons, ih, toksText_comps]
      simp [List.intercalate, List.intersperse]

theorem pyJoin_eq_intercalate (sep : Str) (l : List Str) : pyJoin sep l = sep.intercalate l := by
  induction l with
  | nil => rfl
  | cons a t ih =>
    cases t with
    | nil => simp [pyJoin, List.intercalate, List.intersperse]
    | cons b t =>
      have e : pyJoin sep (a :: b :: t) = a ++ sep ++ pyJoin sep (b :: t) := by simp [pyJoin]
      rw [e, ih]
      simp [List.intercalate, List.intersperse]

/-- **C07 (several chains, ", ")**: canonical chains joined by ", " are returned unchanged -/
theorem C07_canonical_chains_comma_fixed (chains : List (List Comp)) (cleanQQ : Bool) :
    Tract.scrubAliquots (", ".toList.intercalate (chains.map chainText)) cleanQQ =
      some (", ".toList.intercalate (chains.map chainText)) := by
  have h := toksText_chainsToks .comma chains
  rw [show Tok.comma.text = ", ".toList from rfl] at h
  rw [← h]
  exact C07_canonical_tokens_fixed _ cleanQQ

/-- **C07 (several chains, "; ")**: canonical chains joined by "; " are returned unchanged -/
theorem C07_canonical_chains_semi_fixed (chains : List (List Comp)) (cleanQQ : Bool) :
    Tract.scrubAliquots ("; ".toList.intercalate (chains.map chainText)) cleanQQ =
      some ("; ".toList.intercalate (chains.map chainText)) := by
  have h := toksText_chainsToks .semi chains
  rw [show Tok.semi.text = "; ".toList from rfl] at h
  rw [← h]
  exact C07_canonical_tokens_fixed _ cleanQQ

/-- the same with Python's `', '.join(...)` as modelled in `PyStr` -/
theorem C07_canonical_chains_join_fixed (chains : List (List Comp)) (cleanQQ : Bool) :
    Tract.scrubAliquots (pyJoin ", ".toList (chains.map chainText)) cleanQQ =
      some (pyJoin ", ".toList (chains.map chainText)) := by
  rw [pyJoin_eq_intercalate]; exact C07_canonical_chains_comma_fixed chains cleanQQ

/-- chains separated by a NEWLINE (or a blank) are NOT a fixed point: white space between two components is removed by
    `remove_aliquot_interveners`, the two chains are fused into one (same on the Python library:
    `scrub_aliquots('N½\nNE¼') == 'N½NE¼'`) -/
theorem C07_newline_separated_not_fixed :
    Tract.scrubAliquots ("\n".toList.intercalate ([[Comp.N], [Comp.NE]].map chainText)) false =
      some (chainText [.N, .NE]) ∧
    Tract.scrubAliquots (" ".toList.intercalate ([[Comp.N], [Comp.NE]].map chainText)) false =
      some (chainText [.N, .NE]) ∧
    "\n".toList.intercalate ([[Comp.N], [Comp.NE]].map chainText) ≠ chainText [.N, .NE] := by
  refine ⟨by decide +kernel, by decide +kernel, by decide⟩

/-! ### corollaries for the parser (through `Lemmas/Normal.lean`) -/

/-- the text a parse records as preprocessed text is the normal form of the original text -/
theorem tractParseRaw_text (t p : Str) (a : ParseArgs) (inh : Flags) (r : ParseResult)
    (h : scrubAliquots t a.cleanQQ = some p) (hr : tractParseRaw t a inh = .ok r) : r.text = p := by
  unfold tractParseRaw at hr
  rw [h] at hr
  simp only [] at hr
  repeat' split at hr
  all_goals first | (cases hr; rfl) | cases hr

theorem tractParse_text (t p : Str) (a : ParseArgs) (inh : Flags) (r : ParseResult)
    (h : scrubAliquots t a.cleanQQ = some p) (hr : tractParse t a inh = .ok r) : r.text = p := by
  unfold tractParse tractParseOwn at hr
  split at hr
  · cases hr
  · rename_i r0 h0
    cases hr
    exact tractParseRaw_text t p a {} r0 h h0

/-- **C07 (re-parse)**: parsing the canonical text of a chain gives exactly what parsing ANY text with that normal form gives
    (lots, aliquots, acreages, flags, …) -/
theorem C07_canonical_chain_parse_eq (chain : List Comp) (t : Str) (a : ParseArgs) (inh : Flags)
    (ht : scrubAliquots t a.cleanQQ = some (chainText chain)) :
    tractParse t a inh = tractParse (chainText chain) a inh :=
  C07_parse_depends_on_normal_form_full t (chainText chain) a inh (chainText chain) ht
    (C07_canonical_chain_fixed chain a.cleanQQ)

theorem C07_canonical_chain_parseRaw_eq (chain : List Comp) (t : Str) (a : ParseArgs) (inh : Flags)
    (ht : scrubAliquots t a.cleanQQ = some (chainText chain)) :
    tractParseRaw (chainText chain) a inh = tractParseRaw t a inh :=
  C07_reparse_normalised t (chainText chain) a inh ht (C07_canonical_chain_fixed chain a.cleanQQ)

/-- **C07 (recorded text)**: the preprocessed text (`pp_desc`) recorded by the parse of a canonical chain text is that text itself -/
theorem C07_canonical_chain_parse_text (chain : List Comp) (a : ParseArgs) (inh : Flags) (r : ParseResult)
    (hr : tractParse (chainText chain) a inh = .ok r) : r.text = chainText chain :=
  tractParse_text _ _ a inh r (C07_canonical_chain_fixed chain a.cleanQQ) hr

/-- the same for any canonical token text (several chains with separators) -/
theorem C07_canonical_tokens_parse_text (toks : List Tok) (a : ParseArgs) (inh : Flags) (r : ParseResult)
    (hr : tractParse (toksText toks) a inh = .ok r) : r.text = toksText toks :=
  tractParse_text _ _ a inh r (C07_canonical_tokens_fixed toks a.cleanQQ) hr

theorem C07_canonical_tokens_parse_eq (toks : List Tok) (t : Str) (a : ParseArgs) (inh : Flags)
    (ht : scrubAliquots t a.cleanQQ = some (toksText toks)) :
    tractParse t a inh = tractParse (toksText toks) a inh :=
  C07_parse_depends_on_normal_form_full t (toksText toks) a inh (toksText toks) ht
    (C07_canonical_tokens_fixed toks a.cleanQQ)

/-! ### general form of the token argument: a substitution that REWRITES tokens

`text tok` is what a token looks like before the substitution, `out tok` after it.  Used below for the non-canonical spellings
("N/2", "NE4"), which one pass of the corresponding spelling pattern turns into the canonical token. -/

section General
variable {T : Type} (text : T → Str) (out : T → Str) (ok : Option Char → Prop)

def textOf (l : List T) : Str := l.flatMap text

/-- the cursor states from `(p, s)` to the end of `s` -/
def innerStates : Option Char → Str → List (Option Char × Str)
  | _, [] => []
  | p, c :: t => (p, c :: t) :: innerStates (some c) t

/-- the cursor states strictly inside a token text -/
def innerOf : Str → List (Option Char × Str)
  | [] => []
  | c :: t => innerStates (some c) t

def InnerFailG (r : Rx) : Prop :=
  ∀ (tok : T) (rest : Str) (pos : Nat), ∀ ps ∈ innerOf (text tok),
    matchHere r ⟨ps.1, ps.2 ++ rest, pos, []⟩ false = none

def StartStepG (r : Rx) (f : Match → Str) : Prop :=
  ∀ (tok : T) (toks : List T) (prev : Option Char) (pos : Nat) (adv : Bool), ok prev →
    (∃ caps, matchHere r ⟨prev, text tok ++ textOf text toks, pos, []⟩ adv = some ⟨pos, pos + (text tok).length, caps⟩ ∧
      f ⟨pos, pos + (text tok).length, caps⟩ = out tok) ∨
    (matchHere r ⟨prev, text tok ++ textOf text toks, pos, []⟩ adv = none ∧ out tok = text tok)

theorem scan_skipG (r : Rx) (rest : Str) : ∀ (t : Str) (p : Option Char) (pos : Nat),
    (∀ ps ∈ innerStates p t, ∀ pos', matchHere r ⟨ps.1, ps.2 ++ rest, pos', []⟩ false = none) →
    scan r p (t ++ rest) pos false = scan r (lastOr p t) rest (pos + t.length) false := by
  intro t
  induction t with
  | nil => intro p pos _; rfl
  | cons c t ih =>
    intro p pos h
    have h0 : matchHere r ⟨p, c :: (t ++ rest), pos, []⟩ false = none := h (p, c :: t) (by simp [innerStates]) pos
    rw [List.cons_append, scan_cons_none _ _ _ _ _ _ h0,
      ih (some c) (pos + 1) (fun ps hps => h ps (by simp [innerStates, hps]))]
    have e : pos + 1 + t.length = pos + (c :: t).length := by simp only [List.length_cons]; omega
    rw [e]; rfl

theorem scan_tokG (r : Rx) (hin : InnerFailG text r) (hne : ∀ tok, text tok ≠ []) (tok : T) (rest : Str)
    (prev : Option Char) (pos : Nat) (adv : Bool) :
    scan r prev (text tok ++ rest) pos adv =
      match matchHere r ⟨prev, text tok ++ rest, pos, []⟩ adv with
      | some m => some m
      | none => scan r (lastOr prev (text tok)) rest (pos + (text tok).length) false := by
  have hin' := hin tok rest
  cases h : text tok with
  | nil => exact absurd h (hne tok)
  | cons c t =>
    rw [h] at hin'
    rw [List.cons_append, scan_cons]
    cases matchHere r ⟨prev, c :: (t ++ rest), pos, []⟩ adv with
    | some m => rfl
    | none =>
      simp only []
      rw [scan_skipG r rest t (some c) (pos + 1) (fun ps hps pos' => hin' pos' ps hps)]
      have e : pos + 1 + t.length = pos + (c :: t).length := by simp only [List.length_cons]; omega
      rw [e]; rfl

theorem textOf_cons (t : T) (l : List T) : textOf text (t :: l) = text t ++ textOf text l := by
  simp [textOf]

theorem textOf_length (hne : ∀ tok, text tok ≠ []) (l : List T) : l.length ≤ (textOf text l).length := by
  induction l with
  | nil => simp [textOf]
  | cons t l ih =>
    rw [textOf_cons, List.length_append, List.length_cons]
    have : 0 < (text t).length := List.length_pos_iff.mpr (hne t)
    omega

theorem slice_extend (pre mid post : Str) (i : Nat) (h : i ≤ pre.length) :
    slice (pre ++ (mid ++ post)) i (pre.length + mid.length) = slice (pre ++ (mid ++ post)) i pre.length ++ mid := by
  unfold slice
  have e1 : (pre ++ (mid ++ post)).take (pre.length + mid.length) = pre ++ mid := by
    rw [← List.append_assoc, ← List.length_append, List.take_left']
    rfl
  have e2 : (pre ++ (mid ++ post)).take pre.length = pre := by simp
  rw [e1, e2, List.drop_append_of_le_length h]

theorem slice_all (pre post : Str) (i : Nat) : slice (pre ++ post) i pre.length = pre.drop i := by
  unfold slice; simp

/-- the accumulator of `re.sub` over a text made of tokens rewrites every token as `out` says -/
theorem subgoG (r : Rx) (f : Match → Str) (hin : InnerFailG text r) (hne : ∀ tok, text tok ≠ [])
    (hok : ∀ p tok, ok (lastOr p (text tok))) (hst : StartStepG text out ok r f)
    (hnil : ∀ prev pos adv, matchHere r ⟨prev, [], pos, []⟩ adv = none) :
    ∀ (toks : List T) (fuel : Nat) (prev : Option Char) (pre : Str) (adv : Bool) (i : Nat) (acc : Str),
      ok prev → i ≤ pre.length → toks.length < fuel →
      Rx.subWith.go (pre ++ textOf text toks) f (finditerAux r fuel prev (textOf text toks) pre.length adv) i acc =
        acc ++ slice (pre ++ textOf text toks) i pre.length ++ textOf out toks := by
  intro toks
  induction toks with
  | nil =>
    intro fuel prev pre adv i acc _ _ hf
    obtain ⟨n, rfl⟩ : ∃ n, fuel = n + 1 := ⟨fuel - 1, by simp at hf; omega⟩
    have : scan r prev (textOf text []) pre.length adv = none := by
      show scan r prev [] pre.length adv = none
      rw [scan_nil, hnil]
    rw [finditerAux_none _ _ _ _ _ _ this]
    show acc ++ (pre ++ []).drop i = acc ++ slice (pre ++ []) i pre.length ++ []
    rw [slice_all]; simp
  | cons tok toks ih =>
    intro fuel prev pre adv i acc hp hi hf
    have hsc := scan_tokG text r hin hne tok (textOf text toks) prev pre.length adv
    have hlen : pre.length + (text tok).length = (pre ++ text tok).length := by simp
    have htxt : pre ++ (text tok ++ textOf text toks) = (pre ++ text tok) ++ textOf text toks := by simp
    rw [textOf_cons, textOf_cons]
    rcases hst tok toks prev pre.length adv hp with ⟨caps, hm, hf'⟩ | ⟨hm, ho⟩
    · rw [hm] at hsc
      simp only [] at hsc
      obtain ⟨n, rfl⟩ : ∃ n, fuel = n + 1 := ⟨fuel - 1, by simp at hf; omega⟩
      rw [finditerAux, hsc]
      simp only []
      have e : pre.length + (text tok).length - pre.length = (text tok).length + 0 := by omega
      rw [e, advance_append]
      simp only [advance]
      rw [Rx.subWith.go]
      simp only []
      rw [hf', hlen, htxt, ih n (lastOr prev (text tok)) (pre ++ text tok) _ (pre ++ text tok).length _
        (hok prev tok) (Nat.le_refl _) (by simpa using hf)]
      rw [slice_all]
      simp
    · rw [hm] at hsc
      simp only [] at hsc
      rw [finditerAux_skip r (text tok) (textOf text toks) prev pre.length adv fuel hsc, hlen, htxt,
        ih fuel (lastOr prev (text tok)) (pre ++ text tok) false i acc (hok prev tok) (by rw [← hlen]; omega)
          (by simp at hf; omega)]
      rw [← htxt, ← hlen, slice_extend pre (text tok) (textOf text toks) i hi, ho]
      simp

/-- **generic, rewriting form** -/
theorem subWithG (r : Rx) (f : Match → Str) (hin : InnerFailG text r) (hne : ∀ tok, text tok ≠ [])
    (hok : ∀ p tok, ok (lastOr p (text tok))) (hnone : ok none) (hst : StartStepG text out ok r f)
    (hnil : ∀ prev pos adv, matchHere r ⟨prev, [], pos, []⟩ adv = none) (toks : List T) :
    r.subWith (textOf text toks) f = textOf out toks := by
  show Rx.subWith.go (textOf text toks) f (r.finditer (textOf text toks)) 0 [] = _
  rw [finditer_default]
  have hl := textOf_length text hne toks
  have := subgoG text out ok r f hin hne hok hst hnil toks (2 * (textOf text toks).length + 2) none [] false 0 []
    hnone (Nat.le_refl _) (by omega)
  simpa [slice] using this

end General

/-! ### non-canonical spellings of the fraction: "N/2", "NE/4" and "N2", "NE4" -/

/-- a non-canonical way of writing the fraction -/
inductive Sp where
  | slash   -- "/2", "/4"
  | digit   -- "2", "4"
  deriving DecidableEq, Repr

def Sp.frac : Sp → Bool → Str
  | .slash, true => ['/', '2']
  | .slash, false => ['/', '4']
  | .digit, true => ['2']
  | .digit, false => ['4']

/-- a token of a text in mixed spelling: a canonical token, or a component with its fraction written differently -/
inductive STok where
  | canon (t : Tok)
  | alt (sp : Sp) (c : Comp)
  deriving DecidableEq, Repr

def STok.text : STok → Str
  | .canon t => t.text
  | .alt sp c => c.str ++ sp.frac c.isHalf

/-- the canonical token a token stands for -/
def STok.norm : STok → Tok
  | .canon t => t
  | .alt _ c => .comp c

/-- what the spelling pattern of component `c` does to a token: it rewrites the other spellings of `c`, nothing else -/
def STok.outFor (c : Comp) : STok → STok
  | .alt sp c' => if c' = c then .canon (.comp c) else .alt sp c'
  | t => t

def stoksText (l : List STok) : Str := textOf STok.text l

theorem STok.text_ne_nil (tok : STok) : tok.text ≠ [] := by
  cases tok with
  | canon t => obtain ⟨c1, c2, tl, h, _⟩ := t.text_shape; simp [STok.text, h]
  | alt sp c => cases c <;> simp [STok.text, Comp.str]

/-- what can precede a token in mixed spelling -/
def OkPrev2 (p : Option Char) : Prop :=
  p = none ∨ p = some '½' ∨ p = some '¼' ∨ p = some ' ' ∨ p = some '2' ∨ p = some '4'

theorem okPrev2_lastOr (p : Option Char) (tok : STok) : OkPrev2 (lastOr p tok.text) := by
  cases tok with
  | canon t =>
    rcases okPrev_lastOr p t with h | h | h | h <;> simp [STok.text, OkPrev2, h]
  | alt sp c => cases sp <;> cases c <;> simp [STok.text, Comp.str, Comp.isHalf, Sp.frac, lastOr, OkPrev2]

theorem okPrev2_LB35 (prev : Option Char) (h : OkPrev2 prev) :
    prev = none ∨ ∃ p, prev = some p ∧ (Gen.cs_76a08037.mem p = true ∨ Gen.cs_14d6aa8a.mem p = false) := by
  rcases h with rfl | rfl | rfl | rfl | rfl | rfl
  · exact Or.inl rfl
  · exact Or.inr ⟨_, rfl, Or.inl (by decide)⟩
  · exact Or.inr ⟨_, rfl, Or.inl (by decide)⟩
  · exact Or.inr ⟨_, rfl, Or.inr w_blank⟩
  · exact Or.inr ⟨_, rfl, Or.inl (by decide)⟩
  · exact Or.inr ⟨_, rfl, Or.inl (by decide)⟩

theorem stok_head_word (tok : STok) (h : tok.norm ≠ .comma ∧ tok.norm ≠ .semi) :
    ∃ ch t, tok.text = ch :: t ∧ Gen.cs_14d6aa8a.mem ch = true := by
  cases tok with
  | canon t =>
    cases t with
    | comp c => exact comp_head_word c
    | comma => exact absurd rfl h.1
    | semi => exact absurd rfl h.2
  | alt sp c => cases c <;> simp [STok.text, Comp.str, w_N, w_S, w_E, w_W]

theorem okRest_stoks (toks : List STok) : OkRest (stoksText toks) := by
  cases toks with
  | nil => exact Or.inl rfl
  | cons tok toks =>
    rw [stoksText, textOf_cons]
    right
    cases tok with
    | canon t =>
      cases t with
      | comp c => cases c <;> simp [STok.text, Tok.text, compText, Comp.str, Comp.isHalf]
      | comma => simp [STok.text, Tok.text]
      | semi => simp [STok.text, Tok.text]
    | alt sp c => cases c <;> simp [STok.text, Comp.str]

/-- a spelling pattern matches a whole token text `tt` when its core does and the context is canonical -/
theorem family_hit (core : Rx) (tt rest : Str) (prev : Option Char) (pos : Nat) (adv : Bool)
    (hp : prev = none ∨ ∃ p, prev = some p ∧ (Gen.cs_76a08037.mem p = true ∨ Gen.cs_14d6aa8a.mem p = false))
    (hw : ∃ ch t, tt = ch :: t ∧ Gen.cs_14d6aa8a.mem ch = true) (hr : OkRest rest)
    (hhit : ∀ (caps : List (Nat × Nat × Nat)) (k : St → Option Match),
      ∃ caps', core.m ⟨prev, tt ++ rest, pos, caps⟩ k = k ⟨lastOr prev tt, rest, pos + tt.length, caps'⟩) :
    ∃ caps, matchHere (.seq (LBof Gen.cs_76a08037) (.seq core LA)) ⟨prev, tt ++ rest, pos, []⟩ adv =
      some ⟨pos, pos + tt.length, caps⟩ := by
  obtain ⟨ch, t, hct, hw⟩ := hw
  unfold matchHere
  simp only [m_seq]
  show ∃ caps, (LBof Gen.cs_76a08037).m ⟨prev, tt ++ rest, pos, []⟩ _ = _
  rw [hct, List.cons_append, LB_pass Gen.cs_76a08037 prev ch _ pos [] _ hp hw, ← List.cons_append, ← hct]
  obtain ⟨caps', hc⟩ := hhit [(1, pos, pos)]
    (fun s' => LA.m s' (fun s' => if (adv && s'.pos == pos) = true then none else some ⟨pos, s'.pos, s'.caps⟩))
  refine ⟨(12, pos + tt.length, pos + tt.length) :: caps', ?_⟩
  rw [hc, LA_pass _ _ _ _ _ hr]
  have hl : 0 < tt.length := by rw [hct]; simp
  have : (pos + tt.length == pos) = false := by
    simp only [beq_eq_false_iff_ne, ne_eq]; omega
  simp [this]

theorem family_miss (core : Rx) (text : Str) (prev : Option Char) (pos : Nat) (adv : Bool)
    (hmiss : ∀ (caps : List (Nat × Nat × Nat)) (k : St → Option Match), core.m ⟨prev, text, pos, caps⟩ k = none) :
    matchHere (.seq (LBof Gen.cs_76a08037) (.seq core LA)) ⟨prev, text, pos, []⟩ adv = none := by
  unfold matchHere
  simp only [m_seq]
  apply LB_none
  intro caps'
  exact hmiss caps' _

theorem w_2 : Gen.cs_14d6aa8a.mem '2' = true := by decide +kernel
theorem w_4 : Gen.cs_14d6aa8a.mem '4' = true := by decide +kernel
theorem w_slash : Gen.cs_14d6aa8a.mem '/' = false := by decide +kernel

/-- the explicit inner-failure statement for canonical tokens, in the form of the general section -/
theorem innerFail_bridge (r : Rx) (hin : InnerFail r) (t : Tok) (rest : Str) (pos : Nat) :
    ∀ ps ∈ innerOf t.text, matchHere r ⟨ps.1, ps.2 ++ rest, pos, []⟩ false = none := by
  obtain ⟨c1, c2, tl, ht, hshape⟩ := t.text_shape
  rw [ht]
  have h := hin c1 c2 tl rest t pos ht
  rcases hshape with rfl | ⟨c3, rfl⟩
  · intro ps hps
    simp [innerOf, innerStates] at hps
    subst hps
    simpa using h.1
  · intro ps hps
    simp [innerOf, innerStates] at hps
    rcases hps with rfl | rfl
    · simpa using h.1
    · simpa using h.2 c3 rfl

/-- the behaviour of the spelling pattern `X` of component `c` on a token in mixed spelling -/
theorem startStep_family2 (X : Rx) (c : Comp)
    (hshape : X = .seq (LBof Gen.cs_76a08037) (.seq (coreOf X) LA))
    (hhit : ∀ (prev : Option Char) (rest : Str) (pos : Nat) (caps : List (Nat × Nat × Nat)) (k : St → Option Match),
      ∃ caps', (coreOf X).m ⟨prev, compText c ++ rest, pos, caps⟩ k =
        k ⟨lastOr prev (compText c), rest, pos + (compText c).length, caps'⟩)
    (hmiss : ∀ (tok : Tok), tok ≠ .comp c → ∀ (prev : Option Char) (rest : Str) (pos : Nat) (caps : List (Nat × Nat × Nat))
      (k : St → Option Match), (coreOf X).m ⟨prev, tok.text ++ rest, pos, caps⟩ k = none)
    (hhitA : ∀ (sp : Sp) (prev : Option Char) (rest : Str) (pos : Nat) (caps : List (Nat × Nat × Nat))
      (k : St → Option Match),
      ∃ caps', (coreOf X).m ⟨prev, (STok.alt sp c).text ++ rest, pos, caps⟩ k =
        k ⟨lastOr prev (STok.alt sp c).text, rest, pos + (STok.alt sp c).text.length, caps'⟩)
    (hmissA : ∀ (sp : Sp) (c' : Comp), c' ≠ c → ∀ (prev : Option Char) (rest : Str) (pos : Nat)
      (caps : List (Nat × Nat × Nat)) (k : St → Option Match),
      (coreOf X).m ⟨prev, (STok.alt sp c').text ++ rest, pos, caps⟩ k = none) :
    StartStepG STok.text (fun t => (t.outFor c).text) OkPrev2 X (fun _ => compText c) := by
  generalize coreOf X = core at hshape hhit hmiss hhitA hmissA
  subst hshape
  intro tok toks prev pos adv hp
  have hr := okRest_stoks toks
  cases tok with
  | canon t =>
    by_cases ht : t = .comp c
    · subst ht
      left
      obtain ⟨caps, h⟩ := family_hit core (compText c) _ prev pos adv (okPrev2_LB35 prev hp) (comp_head_word c) hr
        (fun caps k => hhit prev _ pos caps k)
      exact ⟨caps, h, rfl⟩
    · right
      exact ⟨family_miss core _ prev pos adv (fun caps k => hmiss t ht prev _ pos caps k), rfl⟩
  | alt sp c' =>
    by_cases hc : c' = c
    · subst hc
      left
      obtain ⟨caps, h⟩ := family_hit core (STok.alt sp c').text _ prev pos adv (okPrev2_LB35 prev hp)
        (stok_head_word _ (by simp [STok.norm])) hr (fun caps k => hhitA sp prev _ pos caps k)
      exact ⟨caps, h, by simp [STok.outFor, STok.text, Tok.text]⟩
    · right
      exact ⟨family_miss core _ prev pos adv (fun caps k => hmissA sp c' hc prev _ pos caps k),
        by simp [STok.outFor, hc]⟩

theorem untilStable_two (f : Str → Str) (n : Nat) (t : Str) (h : f (f t) = f t) :
    untilStable f (n + 2) t = some (f t) := by
  rw [untilStable]
  by_cases hc : (f t == t) = true
  · have : f t = t := by simpa using hc
    simp [this]
  · simp only [hc]
    exact untilStable_of_fixed f n (f t) h

theorem outFor_idem (c : Comp) (tok : STok) : (tok.outFor c).outFor c = tok.outFor c := by
  cases tok with
  | canon t => rfl
  | alt sp c' =>
    by_cases h : c' = c
    · simp [STok.outFor, h]
    · simp [STok.outFor, h]

theorem stoksText_map_out (c : Comp) (toks : List STok) :
    textOf (fun t => (STok.outFor c t).text) toks = stoksText (toks.map (STok.outFor c)) := by
  simp [stoksText, textOf, List.flatMap_map]

theorem subScrubber_pass (name : String) (c : Comp) (toks : List STok)
    (h : ∀ toks : List STok, scrubStep name (stoksText toks) = stoksText (toks.map (STok.outFor c))) :
    subScrubber name (stoksText toks) = some (stoksText (toks.map (STok.outFor c))) := by
  rw [subScrubber_eq]
  have e : stableBudget (stoksText toks) = (2 * (stoksText toks).length + 6) + 2 := rfl
  rw [e, ← h toks]
  apply untilStable_two
  rw [h toks, h (toks.map (STok.outFor c)), List.map_map]
  congr 2
  funext tok
  exact outFor_idem c tok

theorem ne_hitA (sp : Sp) (prev : Option Char) (rest : Str) (pos : Nat) (caps : List (Nat × Nat × Nat))
    (k : St → Option Match) :
    ∃ caps', (coreOf Gen.ne_regex).m ⟨prev, (STok.alt sp .NE).text ++ rest, pos, caps⟩ k =
      k ⟨lastOr prev (STok.alt sp .NE).text, rest, pos + (STok.alt sp .NE).text.length, caps'⟩ := by
  cases sp <;> rx_eval [Gen.ne_regex, STok.text, Sp.frac] <;> exact ⟨_, rfl⟩

theorem ne_missA (sp : Sp) (c' : Comp) (h : c' ≠ .NE) (prev : Option Char) (rest : Str) (pos : Nat)
    (caps : List (Nat × Nat × Nat)) (k : St → Option Match) :
    (coreOf Gen.ne_regex).m ⟨prev, (STok.alt sp c').text ++ rest, pos, caps⟩ k = none := by
  cases sp <;> cases c' <;> first | exact absurd rfl h | rx_eval [Gen.ne_regex, STok.text, Sp.frac]

theorem ne_innerG : InnerFailG STok.text Gen.ne_regex := by
  intro tok rest pos ps hps
  cases tok with
  | canon t => exact innerFail_bridge _ ne_inner t rest pos ps hps
  | alt sp c =>
    rw [ne_shape]
    cases sp <;> cases c <;> simp [STok.text, Comp.str, Comp.isHalf, Sp.frac, innerOf, innerStates] at hps <;>
      rcases hps with rfl | rfl | rfl <;>
      first
        | (apply matchHere_LB_block
           · decide
           · simp only [w_N, w_S, w_E, w_W, w_2, w_4])
        | exact family_miss _ _ _ _ _ (fun caps k => by rx_eval [Gen.ne_regex])

theorem ne_startG : StartStepG STok.text (fun t => (t.outFor .NE).text) OkPrev2 Gen.ne_regex (fun _ => compText .NE) :=
  startStep_family2 Gen.ne_regex .NE ne_shape ne_hit ne_miss ne_hitA ne_missA

theorem ne_pass (toks : List STok) :
    scrubStep "ne_regex" (stoksText toks) = stoksText (toks.map (STok.outFor .NE)) := by
  rw [← stoksText_map_out]
  exact subWithG STok.text _ OkPrev2 Gen.ne_regex _ ne_innerG STok.text_ne_nil okPrev2_lastOr (Or.inl rfl) ne_startG
    ne_nil toks

theorem nw_hitA (sp : Sp) (prev : Option Char) (rest : Str) (pos : Nat) (caps : List (Nat × Nat × Nat))
    (k : St → Option Match) :
    ∃ caps', (coreOf Gen.nw_regex).m ⟨prev, (STok.alt sp .NW).text ++ rest, pos, caps⟩ k =
      k ⟨lastOr prev (STok.alt sp .NW).text, rest, pos + (STok.alt sp .NW).text.length, caps'⟩ := by
  cases sp <;> rx_eval [Gen.nw_regex, STok.text, Sp.frac] <;> exact ⟨_, rfl⟩

theorem nw_missA (sp : Sp) (c' : Comp) (h : c' ≠ .NW) (prev : Option Char) (rest : Str) (pos : Nat)
    (caps : List (Nat × Nat × Nat)) (k : St → Option Match) :
    (coreOf Gen.nw_regex).m ⟨prev, (STok.alt sp c').text ++ rest, pos, caps⟩ k = none := by
  cases sp <;> cases c' <;> first | exact absurd rfl h | rx_eval [Gen.nw_regex, STok.text, Sp.frac]

theorem nw_innerG : InnerFailG STok.text Gen.nw_regex := by
  intro tok rest pos ps hps
  cases tok with
  | canon t => exact innerFail_bridge _ nw_inner t rest pos ps hps
  | alt sp c =>
    rw [nw_shape]
    cases sp <;> cases c <;> simp [STok.text, Comp.str, Comp.isHalf, Sp.frac, innerOf, innerStates] at hps <;>
      rcases hps with rfl | rfl | rfl <;>
      first
        | (apply matchHere_LB_block
           · decide
           · simp only [w_N, w_S, w_E, w_W, w_2, w_4])
        | exact family_miss _ _ _ _ _ (fun caps k => by rx_eval [Gen.nw_regex])

theorem nw_startG : StartStepG STok.text (fun t => (t.outFor .NW).text) OkPrev2 Gen.nw_regex (fun _ => compText .NW) :=
  startStep_family2 Gen.nw_regex .NW nw_shape nw_hit nw_miss nw_hitA nw_missA

theorem nw_pass (toks : List STok) :
    scrubStep "nw_regex" (stoksText toks) = stoksText (toks.map (STok.outFor .NW)) := by
  rw [← stoksText_map_out]
  exact subWithG STok.text _ OkPrev2 Gen.nw_regex _ nw_innerG STok.text_ne_nil okPrev2_lastOr (Or.inl rfl) nw_startG
    nw_nil toks

theorem se_hitA (sp : Sp) (prev : Option Char) (rest : Str) (pos : Nat) (caps : List (Nat × Nat × Nat))
    (k : St → Option Match) :
    ∃ caps', (coreOf Gen.se_regex).m ⟨prev, (STok.alt sp .SE).text ++ rest, pos, caps⟩ k =
      k ⟨lastOr prev (STok.alt sp .SE).text, rest, pos + (STok.alt sp .SE).text.length, caps'⟩ := by
  cases sp <;> rx_eval [Gen.se_regex, STok.text, Sp.frac] <;> exact ⟨_, rfl⟩

theorem se_missA (sp : Sp) (c' : Comp) (h : c' ≠ .SE) (prev : Option Char) (rest : Str) (pos : Nat)
    (caps : List (Nat × Nat × Nat)) (k : St → Option Match) :
    (coreOf Gen.se_regex).m ⟨prev, (STok.alt sp c').text ++ rest, pos, caps⟩ k = none := by
  cases sp <;> cases c' <;> first | exact absurd rfl h | rx_eval [Gen.se_regex, STok.text, Sp.frac]

theorem se_innerG : InnerFailG STok.text Gen.se_regex := by
  intro tok rest pos ps hps
  cases tok with
  | canon t => exact innerFail_bridge _ se_inner t rest pos ps hps
  | alt sp c =>
    rw [se_shape]
    cases sp <;> cases c <;> simp [STok.text, Comp.str, Comp.isHalf, Sp.frac, innerOf, innerStates] at hps <;>
      rcases hps with rfl | rfl | rfl <;>
      first
        | (apply matchHere_LB_block
           · decide
           · simp only [w_N, w_S, w_E, w_W, w_2, w_4])
        | exact family_miss _ _ _ _ _ (fun caps k => by rx_eval [Gen.se_regex])

theorem se_startG : StartStepG STok.text (fun t => (t.outFor .SE).text) OkPrev2 Gen.se_regex (fun _ => compText .SE) :=
  startStep_family2 Gen.se_regex .SE se_shape se_hit se_miss se_hitA se_missA

theorem se_pass (toks : List STok) :
    scrubStep "se_regex" (stoksText toks) = stoksText (toks.map (STok.outFor .SE)) := by
  rw [← stoksText_map_out]
  exact subWithG STok.text _ OkPrev2 Gen.se_regex _ se_innerG STok.text_ne_nil okPrev2_lastOr (Or.inl rfl) se_startG
    se_nil toks

theorem sw_hitA (sp : Sp) (prev : Option Char) (rest : Str) (pos : Nat) (caps : List (Nat × Nat × Nat))
    (k : St → Option Match) :
    ∃ caps', (coreOf Gen.sw_regex).m ⟨prev, (STok.alt sp .SW).text ++ rest, pos, caps⟩ k =
      k ⟨lastOr prev (STok.alt sp .SW).text, rest, pos + (STok.alt sp .SW).text.length, caps'⟩ := by
  cases sp <;> rx_eval [Gen.sw_regex, STok.text, Sp.frac] <;> exact ⟨_, rfl⟩

theorem sw_missA (sp : Sp) (c' : Comp) (h : c' ≠ .SW) (prev : Option Char) (rest : Str) (pos : Nat)
    (caps : List (Nat × Nat × Nat)) (k : St → Option Match) :
    (coreOf Gen.sw_regex).m ⟨prev, (STok.alt sp c').text ++ rest, pos, caps⟩ k = none := by
  cases sp <;> cases c' <;> first | exact absurd rfl h | rx_eval [Gen.sw_regex, STok.text, Sp.frac]

theorem sw_innerG : InnerFailG STok.text Gen.sw_regex := by
  intro tok rest pos ps hps
  cases tok with
  | canon t => exact innerFail_bridge _ sw_inner t rest pos ps hps
  | alt sp c =>
    rw [sw_shape]
    cases sp <;> cases c <;> simp [STok.text, Comp.str, Comp.isHalf, Sp.frac, innerOf, innerStates] at hps <;>
      rcases hps with rfl | rfl | rfl <;>
      first
        | (apply matchHere_LB_block
           · decide
           · simp only [w_N, w_S, w_E, w_W, w_2, w_4])
        | exact family_miss _ _ _ _ _ (fun caps k => by rx_eval [Gen.sw_regex])

theorem sw_startG : StartStepG STok.text (fun t => (t.outFor .SW).text) OkPrev2 Gen.sw_regex (fun _ => compText .SW) :=
  startStep_family2 Gen.sw_regex .SW sw_shape sw_hit sw_miss sw_hitA sw_missA

theorem sw_pass (toks : List STok) :
    scrubStep "sw_regex" (stoksText toks) = stoksText (toks.map (STok.outFor .SW)) := by
  rw [← stoksText_map_out]
  exact subWithG STok.text _ OkPrev2 Gen.sw_regex _ sw_innerG STok.text_ne_nil okPrev2_lastOr (Or.inl rfl) sw_startG
    sw_nil toks

theorem n2_hitA (sp : Sp) (prev : Option Char) (rest : Str) (pos : Nat) (caps : List (Nat × Nat × Nat))
    (k : St → Option Match) :
    ∃ caps', (coreOf Gen.n2_regex).m ⟨prev, (STok.alt sp .N).text ++ rest, pos, caps⟩ k =
      k ⟨lastOr prev (STok.alt sp .N).text, rest, pos + (STok.alt sp .N).text.length, caps'⟩ := by
  cases sp <;> rx_eval [Gen.n2_regex, STok.text, Sp.frac] <;> exact ⟨_, rfl⟩

theorem n2_missA (sp : Sp) (c' : Comp) (h : c' ≠ .N) (prev : Option Char) (rest : Str) (pos : Nat)
    (caps : List (Nat × Nat × Nat)) (k : St → Option Match) :
    (coreOf Gen.n2_regex).m ⟨prev, (STok.alt sp c').text ++ rest, pos, caps⟩ k = none := by
  cases sp <;> cases c' <;> first | exact absurd rfl h | rx_eval [Gen.n2_regex, STok.text, Sp.frac]

theorem n2_innerG : InnerFailG STok.text Gen.n2_regex := by
  intro tok rest pos ps hps
  cases tok with
  | canon t => exact innerFail_bridge _ n2_inner t rest pos ps hps
  | alt sp c =>
    rw [n2_shape]
    cases sp <;> cases c <;> simp [STok.text, Comp.str, Comp.isHalf, Sp.frac, innerOf, innerStates] at hps <;>
      rcases hps with rfl | rfl | rfl <;>
      first
        | (apply matchHere_LB_block
           · decide
           · simp only [w_N, w_S, w_E, w_W, w_2, w_4])
        | exact family_miss _ _ _ _ _ (fun caps k => by rx_eval [Gen.n2_regex])

theorem n2_startG : StartStepG STok.text (fun t => (t.outFor .N).text) OkPrev2 Gen.n2_regex (fun _ => compText .N) :=
  startStep_family2 Gen.n2_regex .N n2_shape n2_hit n2_miss n2_hitA n2_missA

theorem n2_pass (toks : List STok) :
    scrubStep "n2_regex" (stoksText toks) = stoksText (toks.map (STok.outFor .N)) := by
  rw [← stoksText_map_out]
  exact subWithG STok.text _ OkPrev2 Gen.n2_regex _ n2_innerG STok.text_ne_nil okPrev2_lastOr (Or.inl rfl) n2_startG
    n2_nil toks

theorem s2_hitA (sp : Sp) (prev : Option Char) (rest : Str) (pos : Nat) (caps : List (Nat × Nat × Nat))
    (k : St → Option Match) :
    ∃ caps', (coreOf Gen.s2_regex).m ⟨prev, (STok.alt sp .S).text ++ rest, pos, caps⟩ k =
      k ⟨lastOr prev (STok.alt sp .S).text, rest, pos + (STok.alt sp .S).text.length, caps'⟩ := by
  cases sp <;> rx_eval [Gen.s2_regex, STok.text, Sp.frac] <;> exact ⟨_, rfl⟩

theorem s2_missA (sp : Sp) (c' : Comp) (h : c' ≠ .S) (prev : Option Char) (rest : Str) (pos : Nat)
    (caps : List (Nat × Nat × Nat)) (k : St → Option Match) :
    (coreOf Gen.s2_regex).m ⟨prev, (STok.alt sp c').text ++ rest, pos, caps⟩ k = none := by
  cases sp <;> cases c' <;> first | exact absurd rfl h | rx_eval [Gen.s2_regex, STok.text, Sp.frac]

theorem s2_innerG : InnerFailG STok.text Gen.s2_regex := by
  intro tok rest pos ps hps
  cases tok with
  | canon t => exact innerFail_bridge _ s2_inner t rest pos ps hps
  | alt sp c =>
    rw [s2_shape]
    cases sp <;> cases c <;> simp [STok.text, Comp.str, Comp.isHalf, Sp.frac, innerOf, innerStates] at hps <;>
      rcases hps with rfl | rfl | rfl <;>
      first
        | (apply matchHere_LB_block
           · decide
           · simp only [w_N, w_S, w_E, w_W, w_2, w_4])
        | exact family_miss _ _ _ _ _ (fun caps k => by rx_eval [Gen.s2_regex])

theorem s2_startG : StartStepG STok.text (fun t => (t.outFor .S).text) OkPrev2 Gen.s2_regex (fun _ => compText .S) :=
  startStep_family2 Gen.s2_regex .S s2_shape s2_hit s2_miss s2_hitA s2_missA

theorem s2_pass (toks : List STok) :
    scrubStep "s2_regex" (stoksText toks) = stoksText (toks.map (STok.outFor .S)) := by
  rw [← stoksText_map_out]
  exact subWithG STok.text _ OkPrev2 Gen.s2_regex _ s2_innerG STok.text_ne_nil okPrev2_lastOr (Or.inl rfl) s2_startG
    s2_nil toks

theorem e2_hitA (sp : Sp) (prev : Option Char) (rest : Str) (pos : Nat) (caps : List (Nat × Nat × Nat))
    (k : St → Option Match) :
    ∃ caps', (coreOf Gen.e2_regex).m ⟨prev, (STok.alt sp .E).text ++ rest, pos, caps⟩ k =
      k ⟨lastOr prev (STok.alt sp .E).text, rest, pos + (STok.alt sp .E).text.length, caps'⟩ := by
  cases sp <;> rx_eval [Gen.e2_regex, STok.text, Sp.frac] <;> exact ⟨_, rfl⟩

theorem e2_missA (sp : Sp) (c' : Comp) (h : c' ≠ .E) (prev : Option Char) (rest : Str) (pos : Nat)
    (caps : List (Nat × Nat × Nat)) (k : St → Option Match) :
    (coreOf Gen.e2_regex).m ⟨prev, (STok.alt sp c').text ++ rest, pos, caps⟩ k = none := by
  cases sp <;> cases c' <;> first | exact absurd rfl h | rx_eval [Gen.e2_regex, STok.text, Sp.frac]

theorem e2_innerG : InnerFailG STok.text Gen.e2_regex := by
  intro tok rest pos ps hps
  cases tok with
  | canon t => exact innerFail_bridge _ e2_inner t rest pos ps hps
  | alt sp c =>
    rw [e2_shape]
    cases sp <;> cases c <;> simp [STok.text, Comp.str, Comp.isHalf, Sp.frac, innerOf, innerStates] at hps <;>
      rcases hps with rfl | rfl | rfl <;>
      first
        | (apply matchHere_LB_block
           · decide
           · simp only [w_N, w_S, w_E, w_W, w_2, w_4])
        | exact family_miss _ _ _ _ _ (fun caps k => by rx_eval [Gen.e2_regex])

theorem e2_startG : StartStepG STok.text (fun t => (t.outFor .E).text) OkPrev2 Gen.e2_regex (fun _ => compText .E) :=
  startStep_family2 Gen.e2_regex .E e2_shape e2_hit e2_miss e2_hitA e2_missA

theorem e2_pass (toks : List STok) :
    scrubStep "e2_regex" (stoksText toks) = stoksText (toks.map (STok.outFor .E)) := by
  rw [← stoksText_map_out]
  exact subWithG STok.text _ OkPrev2 Gen.e2_regex _ e2_innerG STok.text_ne_nil okPrev2_lastOr (Or.inl rfl) e2_startG
    e2_nil toks

theorem w2_hitA (sp : Sp) (prev : Option Char) (rest : Str) (pos : Nat) (caps : List (Nat × Nat × Nat))
    (k : St → Option Match) :
    ∃ caps', (coreOf Gen.w2_regex).m ⟨prev, (STok.alt sp .W).text ++ rest, pos, caps⟩ k =
      k ⟨lastOr prev (STok.alt sp .W).text, rest, pos + (STok.alt sp .W).text.length, caps'⟩ := by
  cases sp <;> rx_eval [Gen.w2_regex, STok.text, Sp.frac] <;> exact ⟨_, rfl⟩

theorem w2_missA (sp : Sp) (c' : Comp) (h : c' ≠ .W) (prev : Option Char) (rest : Str) (pos : Nat)
    (caps : List (Nat × Nat × Nat)) (k : St → Option Match) :
    (coreOf Gen.w2_regex).m ⟨prev, (STok.alt sp c').text ++ rest, pos, caps⟩ k = none := by
  cases sp <;> cases c' <;> first | exact absurd rfl h | rx_eval [Gen.w2_regex, STok.text, Sp.frac]

theorem w2_innerG : InnerFailG STok.text Gen.w2_regex := by
  intro tok rest pos ps hps
  cases tok with
  | canon t => exact innerFail_bridge _ w2_inner t rest pos ps hps
  | alt sp c =>
    rw [w2_shape]
    cases sp <;> cases c <;> simp [STok.text, Comp.str, Comp.isHalf, Sp.frac, innerOf, innerStates] at hps <;>
      rcases hps with rfl | rfl | rfl <;>
      first
        | (apply matchHere_LB_block
           · decide
           · simp only [w_N, w_S, w_E, w_W, w_2, w_4])
        | exact family_miss _ _ _ _ _ (fun caps k => by rx_eval [Gen.w2_regex])

theorem w2_startG : StartStepG STok.text (fun t => (t.outFor .W).text) OkPrev2 Gen.w2_regex (fun _ => compText .W) :=
  startStep_family2 Gen.w2_regex .W w2_shape w2_hit w2_miss w2_hitA w2_missA

theorem w2_pass (toks : List STok) :
    scrubStep "w2_regex" (stoksText toks) = stoksText (toks.map (STok.outFor .W)) := by
  rw [← stoksText_map_out]
  exact subWithG STok.text _ OkPrev2 Gen.w2_regex _ w2_innerG STok.text_ne_nil okPrev2_lastOr (Or.inl rfl) w2_startG
    w2_nil toks


/-! ### the whole preprocessing on a text in mixed spelling -/

theorem scrubAll_cons (n : String) (ns : List String) (t t' : Str) (h : subScrubber n t = some t') :
    scrubAll (n :: ns) t = scrubAll ns t' := by
  unfold scrubAll
  rw [List.foldlM_cons, h]
  rfl

theorem outFor_all (tok : STok) :
    STok.outFor .W (STok.outFor .E (STok.outFor .S (STok.outFor .N (STok.outFor .SW (STok.outFor .SE
      (STok.outFor .NW (STok.outFor .NE tok))))))) = .canon tok.norm := by
  cases tok with
  | canon t => rfl
  | alt sp c => cases c <;> rfl

theorem stoksText_canon (toks : List STok) :
    stoksText (toks.map (fun t => STok.canon t.norm)) = toksText (toks.map STok.norm) := by
  simp [stoksText, textOf, toksText, List.flatMap_map, STok.text]

/-- the eight spelling patterns, one after the other, turn every component into its canonical form -/
theorem scrubAll_spelling (toks : List STok) :
    scrubAll Gen.QQ_SCRUBBER_REGEXES (stoksText toks) = some (toksText (toks.map STok.norm)) := by
  rw [show Gen.QQ_SCRUBBER_REGEXES =
    ["ne_regex", "nw_regex", "se_regex", "sw_regex", "n2_regex", "s2_regex", "e2_regex", "w2_regex"] from rfl]
  rw [scrubAll_cons _ _ _ _ (subScrubber_pass "ne_regex" .NE _ ne_pass),
    scrubAll_cons _ _ _ _ (subScrubber_pass "nw_regex" .NW _ nw_pass),
    scrubAll_cons _ _ _ _ (subScrubber_pass "se_regex" .SE _ se_pass),
    scrubAll_cons _ _ _ _ (subScrubber_pass "sw_regex" .SW _ sw_pass),
    scrubAll_cons _ _ _ _ (subScrubber_pass "n2_regex" .N _ n2_pass),
    scrubAll_cons _ _ _ _ (subScrubber_pass "s2_regex" .S _ s2_pass),
    scrubAll_cons _ _ _ _ (subScrubber_pass "e2_regex" .E _ e2_pass),
    scrubAll_cons _ _ _ _ (subScrubber_pass "w2_regex" .W _ w2_pass)]
  show some _ = some _
  simp only [List.map_map]
  rw [← stoksText_canon]
  congr 3
  funext tok
  exact outFor_all tok

/-- **C07 (mixed spelling)**: a text whose components are written canonically ("N½"), with a slash ("N/2", "NE/4") or with
    a bare digit ("N2", "NE4"), in any mixture, with ", " / "; " between chains, is normalised to the canonical text of the
    same components — with and without `clean_qq` -/
theorem C07_mixed_spelling_normalised (toks : List STok) (cleanQQ : Bool) :
    Tract.scrubAliquots (stoksText toks) cleanQQ = some (toksText (toks.map STok.norm)) := by
  have h1 := scrubAll_spelling toks
  have h2 : scrubAll Gen.QQ_CLEAN_REGEXES (toksText (toks.map STok.norm)) = some (toksText (toks.map STok.norm)) :=
    scrubAll_fixed _ _ (fun n hn => scrubStep_tokens n (by simp [hn]) _)
  have h3 := (halfPlusQScrubber_self_iff _).mpr (halfPlusQStep_tokens (toks.map STok.norm))
  have h4 := (removeAliquotInterveners_self_iff _).mpr (intervenerStep_tokens (toks.map STok.norm))
  unfold scrubAliquots
  cases cleanQQ <;> simp [h1, h2, h3, h4]

/-- a chain rendered with "/2" and "/4" instead of "½" and "¼": [N, NE] ↦ "N/2NE/4" -/
def slashText (c : Comp) : Str := c.str ++ (if c.isHalf then ['/', '2'] else ['/', '4'])
/-- a chain rendered with "2" and "4": [N, NE] ↦ "N2NE4" -/
def digitText (c : Comp) : Str := c.str ++ (if c.isHalf then ['2'] else ['4'])

theorem altChain_eq (sp : Sp) (chain : List Comp) :
    chain.flatMap (fun c => (STok.alt sp c).text) = stoksText (chain.map (STok.alt sp)) := by
  simp [stoksText, textOf, List.flatMap_map]

theorem altChain_norm (sp : Sp) (chain : List Comp) :
    toksText ((chain.map (STok.alt sp)).map STok.norm) = chainText chain := by
  rw [List.map_map, ← toksText_comps]
  rfl

/-- **C07 (slash spelling)**: "N/2NE/4" ↦ "N½NE¼", for chains of every length -/
theorem C07_slash_chain_normalised (chain : List Comp) (cleanQQ : Bool) :
    Tract.scrubAliquots (chain.flatMap slashText) cleanQQ = some (chainText chain) := by
  have e : chain.flatMap slashText = chain.flatMap (fun c => (STok.alt .slash c).text) := by
    congr 1; funext c; cases c <;> rfl
  rw [e, altChain_eq, C07_mixed_spelling_normalised, altChain_norm]

/-- **C07 (digit spelling)**: "N2NE4" ↦ "N½NE¼", for chains of every length -/
theorem C07_digit_chain_normalised (chain : List Comp) (cleanQQ : Bool) :
    Tract.scrubAliquots (chain.flatMap digitText) cleanQQ = some (chainText chain) := by
  have e : chain.flatMap digitText = chain.flatMap (fun c => (STok.alt .digit c).text) := by
    congr 1; funext c; cases c <;> rfl
  rw [e, altChain_eq, C07_mixed_spelling_normalised, altChain_norm]

/-- **C07 (spelling does not matter for the parse)**: the slash and digit spellings of a chain parse exactly like its canonical text -/
theorem C07_slash_chain_parse_eq (chain : List Comp) (a : ParseArgs) (inh : Flags) :
    tractParse (chain.flatMap slashText) a inh = tractParse (chainText chain) a inh :=
  C07_canonical_chain_parse_eq chain _ a inh (C07_slash_chain_normalised chain a.cleanQQ)

theorem C07_digit_chain_parse_eq (chain : List Comp) (a : ParseArgs) (inh : Flags) :
    tractParse (chain.flatMap digitText) a inh = tractParse (chainText chain) a inh :=
  C07_canonical_chain_parse_eq chain _ a inh (C07_digit_chain_normalised chain a.cleanQQ)

theorem C07_mixed_spelling_parse_eq (toks : List STok) (a : ParseArgs) (inh : Flags) :
    tractParse (stoksText toks) a inh = tractParse (toksText (toks.map STok.norm)) a inh :=
  C07_canonical_tokens_parse_eq _ _ a inh (C07_mixed_spelling_normalised toks a.cleanQQ)

/-! ### what the parser makes of the canonical text of a chain

`multilot_with_aliquot_regex` needs an 'L'; the canonical text has none.  `aliquot_unpacker_regex` matches the whole chain. -/

/-- every match of the pattern contains a character of the class `X` (a syntactic sufficient condition) -/
def Rx.needs (X : CharSet) : Rx → Bool
  | .chr cs => cs == X
  | .seq a b => a.needs X || b.needs X
  | .alt a b => a.needs X && b.needs X
  | .rep r lo _ => decide (1 ≤ lo) && r.needs X
  | .grp _ r => r.needs X
  | _ => false

/-- a pattern that needs a character the remaining text does not contain cannot match -/
theorem Rx.needs_none (X : CharSet) : ∀ (r : Rx) {R : Type} (s : St) (k : St → Option R),
    r.needs X = true → (∀ c ∈ s.rest, X.mem c = false) → r.m s k = none := by
  intro r
  induction r with
  | chr cs =>
    intro R s k h hs
    have : cs = X := by simpa [Rx.needs] using h
    subst this
    rw [Rx.m]
    split
    · rename_i c t hrest
      have := hs c (by rw [hrest]; simp)
      simp [this]
    · rfl
  | seq a b iha ihb =>
    intro R s k h hs
    simp only [Rx.needs, Bool.or_eq_true] at h
    rw [m_seq]
    rcases h with h | h
    · exact iha s _ h hs
    · cases hr : a.m s (fun s' => b.m s' k) with
      | none => rfl
      | some x =>
        obtain ⟨s', ⟨c, hc, _⟩, hk⟩ := Rx.m_progressive a s _ x hr
        have := ihb s' k h (fun ch hch => hs ch (by rw [hc]; simp [hch]))
        rw [this] at hk
        cases hk
  | alt a b iha ihb =>
    intro R s k h hs
    simp only [Rx.needs, Bool.and_eq_true] at h
    rw [m_alt, iha s k h.1 hs, ihb s k h.2 hs]
    rfl
  | rep r lo hi ih =>
    intro R s k h hs
    simp only [Rx.needs, Bool.and_eq_true, decide_eq_true_eq] at h
    rw [m_rep]
    have e : s.rest.length + lo + 2 = (s.rest.length + lo + 1) + 1 := rfl
    rw [e, repLoop_succ]
    have : 0 < lo := h.1
    simp only [this, if_true]
    exact ih s _ h.2 hs
  | grp i r ih =>
    intro R s k h hs
    rw [m_grp]
    exact ih s _ h hs
  | eps => intro R s k h; simp [Rx.needs] at h
  | fail => intro R s k h; simp [Rx.needs] at h
  | ahead r _ => intro R s k h; simp [Rx.needs] at h
  | nahead r _ => intro R s k h; simp [Rx.needs] at h
  | behind cs => intro R s k h; simp [Rx.needs] at h
  | wordb w => intro R s k h; simp [Rx.needs] at h
  | eos => intro R s k h; simp [Rx.needs] at h
  | bos => intro R s k h; simp [Rx.needs] at h

theorem scan_none_of_needs (X : CharSet) (r : Rx) (h : r.needs X = true) :
    ∀ (rest : Str) (prev : Option Char) (pos : Nat) (adv : Bool), (∀ c ∈ rest, X.mem c = false) →
      scan r prev rest pos adv = none := by
  intro rest
  induction rest with
  | nil =>
    intro prev pos adv hs
    rw [scan_nil]
    exact Rx.needs_none X r _ _ h hs
  | cons c t ih =>
    intro prev pos adv hs
    rw [scan_cons_none _ _ _ _ _ _ (Rx.needs_none X r _ _ h hs)]
    exact ih _ _ _ (fun ch hch => hs ch (by simp [hch]))

theorem search_none_of_needs (X : CharSet) (r : Rx) (h : r.needs X = true) (text : Str)
    (hs : ∀ c ∈ text, X.mem c = false) : r.search text = none := by
  unfold Rx.search
  simp only [cursorAt, List.take_length, List.drop_zero]
  split
  · rfl
  · exact scan_none_of_needs X r h text _ 0 false hs

theorem chainText_chars (chain : List Comp) : ∀ ch ∈ chainText chain, ch ∈ ['N', 'S', 'E', 'W', '½', '¼'] := by
  induction chain with
  | nil => intro ch h; simp [chainText] at h
  | cons c cs ih =>
    intro ch h
    rw [C02_chainText_cons, List.mem_append] at h
    rcases h with h | h
    · cases c <;> simp [compText, Comp.str, Comp.isHalf] at h <;> rcases h with rfl | rfl | rfl <;> simp
    · exact ih ch h

theorem multilot_needs_L : Gen.multilot_with_aliquot_regex.needs Gen.cs_c61dc3f6 = true := by decide

/-- no lot is found in the canonical text of a chain -/
theorem multilot_search_chain (chain : List Comp) : multilotWithAliquot.rx.search (chainText chain) = none := by
  apply search_none_of_needs Gen.cs_c61dc3f6 _ multilot_needs_L
  intro c hc
  have := chainText_chars chain c hc
  simp only [List.mem_cons, List.not_mem_nil, or_false] at this
  rcases this with rfl | rfl | rfl | rfl | rfl | rfl <;> decide

theorem extractLots_chain (chain : List Comp) (n : Nat) :
    extractLots (n + 1) (chainText chain) [] = some (chainText chain, []) := by
  rw [extractLots, multilot_search_chain]

/-- the loop body `(([NESW]½)|((NE|NW|SE|SW)¼))` of `aliquot_unpacker_regex` -/
def auBody : Rx := match tailOf Gen.aliquot_unpacker_regex with
  | .seq (.rep b _ _) _ => b
  | _ => .fail

theorem au_shape : Gen.aliquot_unpacker_regex =
    .seq (.wordb Gen.cs_14d6aa8a) (.seq (.rep auBody 1 none) (.wordb Gen.cs_14d6aa8a)) := rfl

theorem au_body_comp (c : Comp) (prev : Option Char) (rest : Str) (pos : Nat) (caps : List (Nat × Nat × Nat))
    (k : St → Option Match) :
    ∃ caps', auBody.m ⟨prev, compText c ++ rest, pos, caps⟩ k =
      k ⟨lastOr prev (compText c), rest, pos + (compText c).length, caps'⟩ := by
  cases c <;> rx_eval [auBody, Gen.aliquot_unpacker_regex, Gen.cs_93662873, Gen.cs_7eed9a1e, Gen.cs_a5149636, Gen.cs_5fc3e14c, Gen.cs_a5cc869e] <;>
    exact ⟨_, rfl⟩

theorem au_body_nil (prev : Option Char) (pos : Nat) (caps : List (Nat × Nat × Nat)) (k : St → Option Match) :
    auBody.m ⟨prev, [], pos, caps⟩ k = none := by
  rx_eval [auBody, Gen.aliquot_unpacker_regex]

theorem lastOr_append (p : Option Char) (a b : Str) : lastOr p (a ++ b) = lastOr (lastOr p a) b := by
  induction a generalizing p with
  | nil => rfl
  | cons c t ih => exact ih (some c)

/-- a greedy `(component)+` loop runs to the end of a chain, provided what follows the loop accepts the end of the text -/
theorem loop_to_end (body : Rx)
    (hstep : ∀ (c : Comp) (prev : Option Char) (rest : Str) (pos : Nat) (caps : List (Nat × Nat × Nat))
      (k : St → Option Match), ∃ caps', body.m ⟨prev, compText c ++ rest, pos, caps⟩ k =
        k ⟨lastOr prev (compText c), rest, pos + (compText c).length, caps'⟩)
    (hnil : ∀ (prev : Option Char) (pos : Nat) (caps : List (Nat × Nat × Nat)) (k : St → Option Match),
      body.m ⟨prev, [], pos, caps⟩ k = none)
    (K : St → Option Match) :
    ∀ (chain : List Comp) (fuel count : Nat) (last : Option Nat) (prev : Option Char) (pos : Nat)
      (caps : List (Nat × Nat × Nat)), chain.length < fuel → (∀ l, last = some l → l < pos) →
      (chain ≠ [] ∨ 1 ≤ count) →
      (∀ pos' caps', (K ⟨lastOr prev (chainText chain), [], pos', caps'⟩).isSome = true) →
      ∃ caps', repLoop body.m 1 none fuel count last ⟨prev, chainText chain, pos, caps⟩ K =
        K ⟨lastOr prev (chainText chain), [], pos + (chainText chain).length, caps'⟩ := by
  intro chain
  induction chain with
  | nil =>
    intro fuel count last prev pos caps hf _ hc _
    obtain ⟨n, rfl⟩ : ∃ n, fuel = n + 1 := ⟨fuel - 1, by simp at hf; omega⟩
    have hcount : ¬ count < 1 := by
      rcases hc with h | h
      · exact absurd rfl h
      · omega
    refine ⟨caps, ?_⟩
    show repLoop body.m 1 none (n + 1) count last ⟨prev, [], pos, caps⟩ K = K ⟨prev, [], pos + 0, caps⟩
    rw [repLoop_succ]
    simp only [hcount, if_false, hnil, Option.none_or, ite_self, Nat.add_zero]
  | cons c cs ih =>
    intro fuel count last prev pos caps hf hl _ hK
    rw [C02_chainText_cons] at hK
    obtain ⟨n, rfl⟩ : ∃ n, fuel = n + 1 := ⟨fuel - 1, by simp at hf; omega⟩
    have hn : cs.length < n := by simpa using hf
    have hlen := C02_compText_length c
    have hend : ∀ (cnt : Nat) (l : Option Nat), (∀ x, l = some x → x < pos + (compText c).length) →
        ∃ caps', body.m ⟨prev, compText c ++ chainText cs, pos, caps⟩
          (fun s' => repLoop body.m 1 none n (cnt + 1) l s' K) =
          K ⟨lastOr prev (chainText (c :: cs)), [], pos + (chainText (c :: cs)).length, caps'⟩ := by
      intro cnt l hl'
      obtain ⟨caps1, h1⟩ := hstep c prev (chainText cs) pos caps (fun s' => repLoop body.m 1 none n (cnt + 1) l s' K)
      obtain ⟨caps2, h2⟩ := ih n (cnt + 1) l (lastOr prev (compText c)) (pos + (compText c).length) caps1 hn hl'
        (Or.inr (by omega)) (by intro p' c'; rw [← lastOr_append]; exact hK p' c')
      refine ⟨caps2, ?_⟩
      rw [h1, h2, C02_chainText_cons, lastOr_append, List.length_append, Nat.add_assoc]
    rw [C02_chainText_cons, repLoop_succ]
    by_cases hc : count < 1
    · simp only [hc, if_true]
      obtain ⟨caps', h⟩ := hend count last (fun x hx => by have := hl x hx; omega)
      exact ⟨caps', by rw [h, C02_chainText_cons]⟩
    · have hlast : (last != some pos) = true := by
        cases last with
        | none => rfl
        | some l =>
          have := hl l rfl
          simp only [bne_iff_ne, ne_eq, Option.some.injEq]
          omega
      simp only [hc, if_false, canMore, hlast, Bool.and_self, if_true]
      obtain ⟨caps', h⟩ := hend count (some pos) (fun x hx => by cases hx; omega)
      refine ⟨caps', ?_⟩
      rw [h, C02_chainText_cons]
      have := hK (pos + (compText c ++ chainText cs).length) caps'
      cases hk : K ⟨lastOr prev (compText c ++ chainText cs), [], pos + (compText c ++ chainText cs).length, caps'⟩ with
      | none => rw [hk] at this; cases this
      | some x => rfl

theorem chain_head_word (chain : List Comp) (h : chain ≠ []) :
    ∃ ch t, chainText chain = ch :: t ∧ Gen.cs_14d6aa8a.mem ch = true := by
  cases chain with
  | nil => exact absurd rfl h
  | cons c cs =>
    obtain ⟨ch, t, hc, hw⟩ := comp_head_word c
    exact ⟨ch, t ++ chainText cs, by rw [C02_chainText_cons, hc]; rfl, hw⟩

theorem chain_last_word (chain : List Comp) (p : Option Char) (h : chain ≠ []) :
    ∃ g, lastOr p (chainText chain) = some g ∧ Gen.cs_14d6aa8a.mem g = true := by
  induction chain generalizing p with
  | nil => exact absurd rfl h
  | cons c cs ih =>
    rw [C02_chainText_cons, lastOr_append]
    cases cs with
    | nil =>
      cases c <;> simp [chainText, compText, Comp.str, Comp.isHalf, lastOr, w_half, w_quarter]
    | cons d ds => exact ih _ (by simp)

/-- `aliquot_unpacker_regex` finds the whole canonical text of a non-empty chain as one block -/
theorem au_search_chain (chain : List Comp) (h : chain ≠ []) :
    ∃ caps, aliquotUnpacker.rx.search (chainText chain) = some ⟨0, (chainText chain).length, caps⟩ := by
  obtain ⟨ch, t, hct, hw⟩ := chain_head_word chain h
  obtain ⟨g, hg, hgw⟩ := chain_last_word chain none h
  have hK : ∀ (pos : Nat) (caps : List (Nat × Nat × Nat)) (k : St → Option Match),
      (Rx.wordb Gen.cs_14d6aa8a).m ⟨lastOr none (chainText chain), [], pos, caps⟩ k =
        k ⟨lastOr none (chainText chain), [], pos, caps⟩ := by
    intro pos caps k
    rw [hg]
    simp [Rx.m, isWord, hgw]
  have hlen := C02_chainText_length chain
  obtain ⟨caps', hloop⟩ := loop_to_end auBody au_body_comp au_body_nil
    (fun s' => (Rx.wordb Gen.cs_14d6aa8a).m s' (fun s' =>
      if (false && s'.pos == 0) = true then none else some ⟨0, s'.pos, s'.caps⟩))
    chain ((chainText chain).length + 1 + 2) 0 none none 0 [] (by omega) (by simp) (Or.inl h)
    (by intro p' c'; rw [hK]; rfl)
  refine ⟨caps', ?_⟩
  have hm : matchHere Gen.aliquot_unpacker_regex ⟨none, chainText chain, 0, []⟩ false =
      some ⟨0, (chainText chain).length, caps'⟩ := by
    unfold matchHere
    rw [au_shape, m_seq]
    have h1 : ∀ (k : St → Option Match), (Rx.wordb Gen.cs_14d6aa8a).m ⟨none, chainText chain, 0, []⟩ k =
        k ⟨none, chainText chain, 0, []⟩ := by
      intro k; rw [hct]; simp [Rx.m, isWord, hw]
    rw [h1, m_seq, m_rep]
    show repLoop auBody.m 1 none ((chainText chain).length + 1 + 2) 0 none ⟨none, chainText chain, 0, []⟩ _ = _
    rw [hloop, hK]
    simp
  unfold Rx.search aliquotUnpacker
  simp only [cursorAt, List.take_length, List.drop_zero]
  split
  · rename_i hlt; simp at hlt
  · show scan Gen.aliquot_unpacker_regex none (chainText chain) 0 false = _
    rw [hct] at hm ⊢
    rw [scan_cons, hm]

theorem au_search_patch : aliquotUnpacker.rx.search ";;".toList = none := by decide +kernel

/-- the second extraction loop takes the whole chain as its only aliquot block -/
theorem extractAliquots_chain (chain : List Comp) (h : chain ≠ []) (n : Nat) :
    extractAliquots (n + 2) (chainText chain) [] = some (";;".toList, [chainText chain]) := by
  obtain ⟨caps, hs⟩ := au_search_chain chain h
  rw [extractAliquots, hs]
  simp only [Match.group0, slice, List.take_zero, List.drop_length, List.take_length, List.drop_zero,
    List.nil_append, List.append_nil]
  rw [extractAliquots, au_search_patch]

theorem aliquotBlocksOf_patch (blocks : List Str) : aliquotBlocksOf blocks ";;".toList = blocks := by
  have : allRx.rx.search (pyStrip (Gen.inl_tract_parse_TractParser_parse_0.sub " ".toList ";;".toList)) = none := by
    decide +kernel
  unfold aliquotBlocksOf
  simp only [this]

/-- **C07 (the parse of a canonical chain)**: the parser reads the canonical text of a non-empty chain as exactly one aliquot
    block — the chain itself: no lots, no acreages, the recorded text is the text, the QQs are `parse_aliquot` of the text,
    no flag except a possible duplicate-QQ flag.  (With `Lemmas/ChainText.lean`: these QQs tile the region of the chain.) -/
theorem C07_canonical_chain_parse (chain : List Comp) (h : chain ≠ []) (a : ParseArgs) (inh : Flags) :
    tractParseRaw (chainText chain) a inh = .ok
      { text := chainText chain, lots := [], qqs := (qqsOf a.depth [chainText chain]).1, lotAcres := [],
        aliquotsWhole := [removeFractions (chainText chain)],
        flags := dupFlags inh [] (qqsOf a.depth [chainText chain]).1,
        diverged := (qqsOf a.depth [chainText chain]).2 } := by
  have hl := C02_chainText_length chain
  unfold tractParseRaw
  rw [C07_canonical_chain_fixed chain a.cleanQQ]
  simp only []
  rw [show (chainText chain).length + 2 = ((chainText chain).length + 1) + 1 from rfl, extractLots_chain]
  simp only [lotBlocksFold]
  rw [show (chainText chain).length + 1 + 1 = (chainText chain).length + 2 from rfl, extractAliquots_chain chain h]
  simp only [aliquotBlocksOf_patch, List.map_cons, List.map_nil, Bool.false_or]

theorem qqsOf_single (depth : Aliquot.DepthArgs) (t : Str) (pieces : List Str)
    (h : Aliquot.parseAliquot t depth = some pieces) : qqsOf depth [t] = (pieces, false) := by
  simp [qqsOf, h]

/-- … and under the usual depth settings the QQs are the pieces of `parse_aliquot`, the parse does not diverge -/
theorem C07_canonical_chain_parse_qqs (chain : List Comp) (h : chain ≠ []) (a : ParseArgs) (inh : Flags)
    (hd : a.depth.qqDepth = none) (hmin : 1 ≤ a.depth.qqMin)
    (hmax : a.depth.qqMax = none ∨ (∃ m, a.depth.qqMax = some m ∧ a.depth.qqMin ≤ m)) :
    ∃ pieces, Aliquot.parseAliquot (chainText chain) a.depth = some pieces ∧
      tractParseRaw (chainText chain) a inh = .ok
        { text := chainText chain, lots := [], qqs := pieces, lotAcres := [],
          aliquotsWhole := [removeFractions (chainText chain)], flags := dupFlags inh [] pieces, diverged := false } := by
  obtain ⟨pieces, hp⟩ := C02_parseAliquot_canonical_total chain a.depth h hd hmin hmax
  refine ⟨pieces, hp, ?_⟩
  rw [C07_canonical_chain_parse chain h a inh, qqsOf_single _ _ _ hp]

/-- hence ANY text whose normal form is the canonical text of a chain — e.g. its slash or digit spelling — parses to that -/
theorem C07_slash_chain_parse (chain : List Comp) (h : chain ≠ []) (a : ParseArgs) (inh : Flags) :
    tractParseRaw (chain.flatMap slashText) a inh = .ok
      { text := chainText chain, lots := [], qqs := (qqsOf a.depth [chainText chain]).1, lotAcres := [],
        aliquotsWhole := [removeFractions (chainText chain)],
        flags := dupFlags inh [] (qqsOf a.depth [chainText chain]).1,
        diverged := (qqsOf a.depth [chainText chain]).2 } := by
  rw [← C07_canonical_chain_parseRaw_eq chain _ a inh (C07_slash_chain_normalised chain a.cleanQQ)]
  exact C07_canonical_chain_parse chain h a inh

/-- **C07 (idempotence on mixed spellings)**: normalising a second time changes nothing -/
theorem C07_mixed_spelling_idempotent (toks : List STok) (cleanQQ : Bool) :
    ∃ p, Tract.scrubAliquots (stoksText toks) cleanQQ = some p ∧ Tract.scrubAliquots p cleanQQ = some p :=
  ⟨_, C07_mixed_spelling_normalised toks cleanQQ, C07_canonical_tokens_fixed _ cleanQQ⟩

/-! ### non-vacuity: concrete instances, and the same facts by evaluation of the model -/

example : chainText [.S, .SE, .SW] = "S½SE¼SW¼".toList := by decide
example : Tract.scrubAliquots "S½SE¼SW¼".toList true = some "S½SE¼SW¼".toList :=
  C07_canonical_chain_fixed [.S, .SE, .SW] true
example : Tract.scrubAliquots "N½NE¼".toList false = some "N½NE¼".toList := by decide +kernel
example : Tract.scrubAliquots [] true = some [] := C07_canonical_chain_fixed [] true
example : ", ".toList.intercalate ([[Comp.N, .NE], [.SW]].map chainText) = "N½NE¼, SW¼".toList := by decide
example : Tract.scrubAliquots "N½NE¼, SW¼".toList true = some "N½NE¼, SW¼".toList :=
  C07_canonical_chains_comma_fixed [[.N, .NE], [.SW]] true
example : Tract.scrubAliquots "E½; NE¼NE¼".toList false = some "E½; NE¼NE¼".toList :=
  C07_canonical_chains_semi_fixed [[.E], [.NE, .NE]] false
example : [Comp.N, .NE].flatMap slashText = "N/2NE/4".toList := by decide
example : Tract.scrubAliquots "N/2NE/4".toList false = some "N½NE¼".toList :=
  C07_slash_chain_normalised [.N, .NE] false
example : Tract.scrubAliquots "N/2NE/4".toList false = some "N½NE¼".toList := by decide +kernel
example : Tract.scrubAliquots "S2SE4SW4".toList true = some "S½SE¼SW¼".toList :=
  C07_digit_chain_normalised [.S, .SE, .SW] true
example : stoksText [.alt .slash .N, .canon (.comp .NE), .canon .comma, .alt .digit .SW] = "N/2NE¼, SW4".toList := by
  decide
example : Tract.scrubAliquots "N/2NE¼, SW4".toList false = some "N½NE¼, SW¼".toList :=
  C07_mixed_spelling_normalised [.alt .slash .N, .canon (.comp .NE), .canon .comma, .alt .digit .SW] false
/-- the hypothesis of the re-parse corollary is satisfiable by a text different from the canonical one -/
example : tractParse "N/2NE/4".toList {} {} = tractParse "N½NE¼".toList {} {} :=
  C07_canonical_chain_parse_eq [.N, .NE] "N/2NE/4".toList {} {} (C07_slash_chain_normalised [.N, .NE] false)
/-- … and the parse of the canonical text does return a result, whose recorded text is the text itself -/
example : (match tractParse (chainText [.N, .NE]) {} {} with
    | .ok r => r.text == chainText [.N, .NE] && r.qqs == ["NENE".toList, "NWNE".toList]
    | .error _ => false) = true := by
  decide +kernel

/-- the full parse of a canonical chain: hypotheses satisfiable, and the pieces are what Python returns -/
example : ∃ pieces, Aliquot.parseAliquot (chainText [.N, .NE]) ({} : ParseArgs).depth = some pieces ∧
    tractParseRaw (chainText [.N, .NE]) {} {} = .ok
      { text := chainText [.N, .NE], lots := [], qqs := pieces, lotAcres := [],
        aliquotsWhole := [removeFractions (chainText [.N, .NE])], flags := dupFlags {} [] pieces, diverged := false } :=
  C07_canonical_chain_parse_qqs [.N, .NE] (by decide) {} {} rfl (by decide) (Or.inl rfl)
example : removeFractions (chainText [.N, .NE]) = "N2NE".toList := by decide

#print axioms C07_canonical_chain_fixed
#print axioms C07_canonical_chain_parse
#print axioms C07_canonical_chain_parse_qqs
#print axioms C07_slash_chain_parse
#print axioms C07_canonical_tokens_fixed
#print axioms C07_canonical_chains_comma_fixed
#print axioms C07_canonical_chains_semi_fixed
#print axioms C07_canonical_chains_join_fixed
#print axioms C07_newline_separated_not_fixed
#print axioms C07_canonical_chain_parse_eq
#print axioms C07_canonical_chain_parseRaw_eq
#print axioms C07_canonical_chain_parse_text
#print axioms C07_canonical_tokens_parse_text
#print axioms C07_canonical_tokens_parse_eq
#print axioms C07_mixed_spelling_normalised
#print axioms C07_mixed_spelling_idempotent
#print axioms C07_slash_chain_normalised
#print axioms C07_digit_chain_normalised
#print axioms C07_slash_chain_parse_eq
#print axioms C07_digit_chain_parse_eq
#print axioms C07_mixed_spelling_parse_eq

end PyTRS
