/-
C01 — the layouts Twp/Rge–desc–Sec (`TR_desc_S`) and desc–Sec–Twp/Rge (`desc_STR`) on TEXT, through the whole parser, with no
lexical premise (continuation of `Lemmas/LayoutText.lean` = Twp/Rge–Sec–desc and `Lemmas/LayoutText2.lean` = Sec–desc–Twp/Rge;
with this file all four documented layouts are covered).

TR_desc_S.  The canonical text `rText sp g gs`: per group the Twp/Rge `T154N-R97W`, a separator `sp` (blanks / line breaks, at
least one), then the lines `<inert block>, Sec nn:` separated by line breaks; groups separated by line breaks, e.g.
`"T154N-R97W hog valley by bluff, Sec 14:\nfern gully, Sec 15:\nT7S-R102E wy Wyoming; f/k/a marker, Sec 36:"`.
The colon behind the section number is part of the rendering: it is what stops every Twp/Rge pattern behind the two digits
whatever the next line starts with (`GapSkips.ref`), so that no lexical premise on the blocks beyond `Inert` is needed.
If the layout has to be DEDUCED the first block of the text must have at least 3 characters: `deduce_layout` chooses TR_desc_S
only if at least 4 characters (block and comma) stand between the first Twp/Rge and the first section word
(`C01_TR_desc_S_short_block_not_deduced`); with the layout given the premise is not needed
(`C01_canonical_forward_TR_desc_S_given`).

desc_STR.  The canonical text `dText v sp g gs` (`dTextF v sp fin g gs` with blanks / line breaks `fin` at the end): per group the
lines `<inert block>, Sec nn:` (separated by line breaks), the character `v` (a blank or a line break: class `VSep`), the Twp/Rge
that CLOSES the group; groups separated by `sp`, e.g. (`v` = line break) `"hog valley by bluff, Sec 14:\nfern gully, Sec 15:\nT154N-R97W\nwy Wyoming; f/k/a marker, Sec 36:\nT7S-R102E"`.

Contents.
* Part 1: the text `rText`; `RGap` (what a header pattern cannot do in white space + block + `, ` in front of `Sec nn:`),
  `rTiles` — tiling by headers for any pattern with `GapSkips` and `RGap` (also usable for the scrubbers: the header token may
  swallow a part `e` of the separator).
* Part 2: `twprgeFinder_rText` (no context check in this layout: `trStepR`); the section token `secTokG` (`Sec nn:` followed
  by ANYTHING on which the list continuation `(…)*` has no path), `secX_fails_hdr`, `RTail`, `multisec_tiles_rText`.
* Part 3: the arrangement `rGroups`, `ItemOK`, `secFinder_rText`, `populateMarkers_R`.
* Part 4: `rGroups_comps`, **`C01_finders_TR_desc_S`**, `C01_reports_TR_desc_S`, `C01_chunk_canonical_TR_desc_S_partial`, the
  statement `C01_chunk_canonical_TR_desc_S_statement`.
* Part 4b/4c: `markersOK_rText` (`rGroups_within`, `rGroups_last`), `deduceLayout_rText`, **`C01_chunk_canonical_TR_desc_S`**
  (= the statement: `C01_chunk_canonical_TR_desc_S_full`), **`C01_reports_canonical_TR_desc_S`**.
* Part 6: preprocessing: `rewrite_rhdr`, `scrub_rText`, the six scrubbers, white-space reduction, **`plssPreprocess_rText`**.
* Part 7: the unused blocks of the TR_desc_S walk (`unusedBlockD`, `fold_unusedD`, `rText_unused`),
  **`C01_chunk_canonical_TR_desc_S_unused`**.
* Part 8: **`C01_canonical_forward_TR_desc_S`** (whole parser, no premise); **`C01_canonical_forward_TR_desc_S_given`** (layout
  given, no length premise) stands behind Part 11.
* Part 9: desc_STR: `dText`, `dTiles`, `twprgeFinder_dText`, `secFinder_dText`, `populateMarkers_D` / `populateMarkers_dText`,
  `dGroups_comps`, **`C01_finders_desc_STR`**, **`C01_reports_desc_STR`**, `deduceLayout_dText`,
  **`C01_chunk_canonical_desc_STR`**, `dText_unused`, **`C01_chunk_canonical_desc_STR_unused`**.
* Part 10: preprocessing of `dTextF`: `dTilesF`, `rewrite_dhdrF`, `scrub_dText`, the six scrubbers, **`plssPreprocess_dText`**.
* Part 11: **`C01_canonical_forward_desc_STR`** (whole parser, no premise).
* Part 12: `layText`, **`C01_canonical_forward_all_layouts`**: the rendering of one abstract description in each of the four
  documented layouts is parsed into the same tracts, the layout reported being the one rendered in.
* Part 5 (at the end): concrete instances (non-vacuity), replayed on the library.
-/
import PyTRS.Lemmas.LayoutText2
import PyTRS.Lemmas.LayoutText
import PyTRS.Lemmas.Segment
set_option linter.unusedSimpArgs false
set_option linter.unusedVariables false
namespace PyTRS
open PyTRS.Obj PyTRS.Plss PyTRS.Export PyTRS.Unpack

/-! ## Part 1 — the canonical text of the layout Twp/Rge–desc–Sec -/

/-- a line `<d>, Sec nn:` -/
def Ln.rt (l : Ln) : Str := l.d ++ (',' :: ' ' :: l.ref)

/-- further lines, each preceded by a line break -/
def rlns : List Ln → Str
  | [] => []
  | l :: ls => '\n' :: (l.rt ++ rlns ls)

def Gp.rbody (sp : Str) (g : Gp) : Str := sp ++ (g.l.rt ++ rlns g.ls)
def Gp.rt (sp : Str) (g : Gp) : Str := g.h.text ++ g.rbody sp

/-- further groups, each preceded by a line break -/
def rgps (sp : Str) : List Gp → Str
  | [] => []
  | g :: gs => '\n' :: (g.rt sp ++ rgps sp gs)

/-- the canonical text -/
def rText (sp : Str) (g : Gp) (gs : List Gp) : Str := g.rt sp ++ rgps sp gs

theorem Ln.rt_length (l : Ln) : l.rt.length = l.d.length + 9 := by simp [Ln.rt, Ln.ref]

/-- blanks and line breaks -/
def WsOk (ws : Str) : Prop := ∀ c ∈ ws, c = ' ' ∨ c = '\n'

/-- what a header pattern must be unable to do in front of a section reference: in the block and the white space before it -/
structure RGap (r : Rx) : Prop where
  blk : ∀ (ws : Str) (l : Ln) (rest : Str), WsOk ws → l.Ok → Skips r (ws ++ (l.d ++ [',', ' '])) (l.ref ++ rest)

theorem RGap.ofFirst {r : Rx} (hn : r.nullable = false) (hp : plainFirst r = true) : RGap r where
  blk := by
    intro ws l rest hws hl
    refine Skips.of_first hn _ _ ?_
    intro c hc
    rcases List.mem_append.1 hc with hc | hc
    · rcases hws c hc with rfl | rfl
      · exact plainFirst.not_mem hp (by decide)
      · exact plainFirst.not_mem hp (by decide)
    · rcases List.mem_append.1 hc with hc | hc
      · exact plainFirst.safe hp (hl.d.safe c hc)
      · simp only [List.mem_cons, List.not_mem_nil, or_false] at hc
        rcases hc with rfl | rfl
        · exact plainFirst.safe hp (by decide +kernel)
        · exact plainFirst.not_mem hp (by decide)

theorem twprge_rGap : RGap Gen.twprge_regex := RGap.ofFirst (by decide +kernel) (by decide +kernel)

theorem rlns_skips {r : Rx} (hg : GapSkips r) (hr : RGap r) : ∀ (ls : List Ln) (tail : Str), (∀ l ∈ ls, l.Ok) →
    Skips r (rlns ls) tail
  | [], tail, _ => Skips.nil r tail
  | l :: ls, tail, hls => by
    have hl := hls l (by simp)
    have ih := rlns_skips hg hr ls tail (fun x hx => hls x (by simp [hx]))
    have e : rlns (l :: ls) = (['\n'] ++ (l.d ++ [',', ' '])) ++ (l.ref ++ rlns ls) := by simp [rlns, Ln.rt]
    rw [e]
    refine Skips.append ?_ (Skips.append (hg.ref l _ hl) ih)
    have := hr.blk ['\n'] l (rlns ls ++ tail) (by intro c hc; simp at hc; exact Or.inr hc) hl
    simpa [List.append_assoc] using this

/-- the lines of a group behind white space `w` -/
theorem rbody_skips {r : Rx} (hg : GapSkips r) (hr : RGap r) (w : Str) (hw : WsOk w) (l : Ln) (ls : List Ln) (tail : Str)
    (hl : l.Ok) (hls : ∀ x ∈ ls, x.Ok) : Skips r (w ++ (l.rt ++ rlns ls)) tail := by
  have e : w ++ (l.rt ++ rlns ls) = (w ++ (l.d ++ [',', ' '])) ++ (l.ref ++ rlns ls) := by simp [Ln.rt]
  rw [e]
  refine Skips.append ?_ (Skips.append (hg.ref l _ hl) (rlns_skips hg hr ls tail hls))
  have := hr.blk w l (rlns ls ++ tail) hw hl
  simpa [List.append_assoc] using this

/-- the header matches; `q` = position of the first header -/
def rhdrMs (mk : Hd → Nat → Match) (sp : Str) : Nat → List Gp → List Match
  | _, [] => []
  | q, g :: gs => mk g.h q :: rhdrMs mk sp (q + (g.rt sp).length + 1) gs

theorem Gp.rt_length (sp : Str) (g : Gp) : (g.rt sp).length = g.h.text.length + sp.length + (g.l.rt ++ rlns g.ls).length := by
  simp [Gp.rt, Gp.rbody]; omega

/-- **tiling by headers** (layout Twp/Rge–desc–Sec): a pattern that matches each header together with the part `e` of the
    separator `sp = e ++ w` behind it, and nothing in between -/
theorem rTiles (r : Rx) (hg : GapSkips r) (hr : RGap r) (e w : Str) (hw : WsOk w)
    (mk : Hd → Nat → Match)
    (htok : ∀ (h : Hd) (l : Ln) (rest : Str) (prev : Option Char) (pos : Nat), h.Ok → l.Ok →
       isWord Gen.cs_14d6aa8a prev = false →
       matchHere r ⟨prev, (h.text ++ e) ++ (w ++ (l.d ++ rest)), pos, []⟩ false = some (mk h pos) ∧ (mk h pos).start = pos ∧
       (mk h pos).stop = pos + (h.text ++ e).length) :
    ∀ (gs : List Gp) (g : Gp) (q : Nat) (prev : Option Char), g.Ok → (∀ x ∈ gs, x.Ok) →
      isWord Gen.cs_14d6aa8a prev = false →
      Tiles r prev (g.rt (e ++ w) ++ rgps (e ++ w) gs) q (rhdrMs mk (e ++ w) q (g :: gs)) := by
  intro gs
  induction gs with
  | nil =>
    intro g q prev hok _ hprev
    have hl := hok.ls g.l (by simp [Gp.lines])
    have hls : ∀ x ∈ g.ls, x.Ok := fun x hx => hok.ls x (by simp [Gp.lines, hx])
    obtain ⟨h1, h2, h3⟩ := htok g.h g.l ((',' :: ' ' :: g.l.ref) ++ rlns g.ls) prev q hok.h hl hprev
    have htxt : g.rt (e ++ w) ++ rgps (e ++ w) [] = (g.h.text ++ e) ++ ((w ++ (g.l.rt ++ rlns g.ls)) ++ []) := by
      simp [Gp.rt, Gp.rbody, rgps]
    have h1' : matchHere r ⟨prev, (g.h.text ++ e) ++ ((w ++ (g.l.rt ++ rlns g.ls)) ++ []), q, []⟩ false = some (mk g.h q) := by
      rw [← h1]; simp [Ln.rt]
    rw [htxt]
    simp only [rhdrMs]
    have hne : g.h.text ++ e ≠ [] := by simp [Hd.text, canonText]
    refine Tiles.tok prev (g.h.text ++ e) _ q _ [] h1' h2 h3 hne ?_
    exact Tiles.skipSeg (rbody_skips hg hr w hw g.l g.ls [] hl hls) _ _ (Tiles.nil _ _ (matchHere_of_failsOn hg.fin0 _ _ false))
  | cons g' gs ih =>
    intro g q prev hok hgs hprev
    have hok' := hgs g' (by simp)
    have hgs' : ∀ x ∈ gs, x.Ok := fun x hx => hgs x (by simp [hx])
    have hl := hok.ls g.l (by simp [Gp.lines])
    have hls : ∀ x ∈ g.ls, x.Ok := fun x hx => hok.ls x (by simp [Gp.lines, hx])
    obtain ⟨h1, h2, h3⟩ := htok g.h g.l ((',' :: ' ' :: g.l.ref) ++ (rlns g.ls ++ rgps (e ++ w) (g' :: gs))) prev q hok.h hl hprev
    have htxt : g.rt (e ++ w) ++ rgps (e ++ w) (g' :: gs) =
        (g.h.text ++ e) ++ ((w ++ (g.l.rt ++ rlns g.ls)) ++ rgps (e ++ w) (g' :: gs)) := by
      simp [Gp.rt, Gp.rbody]
    have h1' : matchHere r ⟨prev, (g.h.text ++ e) ++ ((w ++ (g.l.rt ++ rlns g.ls)) ++ rgps (e ++ w) (g' :: gs)), q, []⟩ false =
        some (mk g.h q) := by
      rw [← h1]; simp [Ln.rt]
    rw [htxt]
    rw [show rhdrMs mk (e ++ w) q (g :: g' :: gs) = mk g.h q :: rhdrMs mk (e ++ w) (q + (g.rt (e ++ w)).length + 1) (g' :: gs) from rfl]
    have hne : g.h.text ++ e ≠ [] := by simp [Hd.text, canonText]
    refine Tiles.tok prev (g.h.text ++ e) _ q _ _ h1' h2 h3 hne ?_
    refine Tiles.skipSeg (rbody_skips hg hr w hw g.l g.ls _ hl hls) _ _ ?_
    have e2 : rgps (e ++ w) (g' :: gs) = '\n' :: (g'.rt (e ++ w) ++ rgps (e ++ w) gs) := rfl
    rw [e2]
    have hnl : FailsOn r ('\n' :: (g'.h.text ++ (g'.rbody (e ++ w) ++ rgps (e ++ w) gs))) := hg.nlHdr g'.h _ hok'.h
    refine Tiles.skip _ '\n' _ _ _ ?_ ?_
    · have := matchHere_of_failsOn hnl (lastOr (lastOr prev (g.h.text ++ e)) (w ++ (g.l.rt ++ rlns g.ls)))
        (q + (g.h.text ++ e).length + (w ++ (g.l.rt ++ rlns g.ls)).length) false
      simpa [Gp.rt, List.append_assoc] using this
    · have hpos : q + (g.h.text ++ e).length + (w ++ (g.l.rt ++ rlns g.ls)).length + 1 = q + (g.rt (e ++ w)).length + 1 := by
        rw [g.rt_length]; simp only [List.length_append]; omega
      rw [hpos]
      exact ih g' _ (some '\n') hok' hgs' isWord_nl


/-! ## Part 2 — the finders -/

theorem twprge_tokR (sp : Str) (hsp : SepOk sp) (h : Hd) (l : Ln) (rest : Str) (prev : Option Char) (pos : Nat) (hok : h.Ok)
    (hprev : isWord Gen.cs_14d6aa8a prev = false) :
    matchHere Gen.twprge_regex ⟨prev, (h.text ++ []) ++ (sp ++ (l.d ++ rest)), pos, []⟩ false = some (twMk h pos) ∧ (twMk h pos).start = pos ∧
      (twMk h pos).stop = pos + (h.text ++ []).length := by
  have hv := h.valid hok (sp ++ (l.d ++ rest)) (endsTwprge_sep sp _ hsp)
  have := C08_spelling_matchHere h.sp _ hv prev hprev pos false
  rw [h.sp_text] at this
  refine ⟨by simpa [twMk] using this, rfl, ?_⟩
  simp [twMk, Spelling.matchAt, h.sp_text]

theorem SepOk.ws {sp : Str} (h : SepOk sp) : WsOk sp := h.chars

theorem twprge_tiles_rText (sp : Str) (hsp : SepOk sp) (g : Gp) (gs : List Gp) (hok : g.Ok) (hgs : ∀ x ∈ gs, x.Ok) :
    Tiles Gen.twprge_regex none (rText sp g gs) 0 (rhdrMs twMk sp 0 (g :: gs)) := by
  have := rTiles Gen.twprge_regex twprge_gapSkips twprge_rGap [] sp hsp.ws twMk
    (fun h l rest prev pos hok hl hprev => twprge_tokR sp hsp h l rest prev pos hok hprev) gs g 0 none hok hgs isWord_none
  simpa [rText] using this

theorem twprge_finditer_rText (sp : Str) (hsp : SepOk sp) (g : Gp) (gs : List Gp) (hok : g.Ok) (hgs : ∀ x ∈ gs, x.Ok) :
    twprge.rx.finditer (rText sp g gs) = rhdrMs twMk sp 0 (g :: gs) :=
  (twprge_tiles_rText sp hsp g gs hok hgs).finditer_eq

theorem tr_desc_s_layouts : (TR_DESC_S == DESC_STR || TR_DESC_S == TR_DESC_S || TR_DESC_S == COPY_ALL) = true := by decide

/-- one step of `findall_matching_twprge` in the layout Twp/Rge–desc–Sec: no context check -/
theorem trStepR (mc : MC) (hns : isLegal Gen.LEGAL_NS mc.ns = true) (hew : isLegal Gen.LEGAL_EW mc.ew = true)
    (text pre ctx : Str) (h : Hd) (hok : h.Ok) (hctx : EndsTwprge ctx) (htext : text = pre ++ (h.text ++ ctx)) (st : TRFindSt) :
    trFindStep mc text TR_DESC_S st (twMk h pre.length) =
      .ok { st with out := st.out ++ [⟨h.key, pre.length, pre.length + h.text.length⟩] } := by
  have hv := h.valid hok ctx hctx
  have htext' : text = pre ++ (h.sp.text ++ ctx) := by rw [htext, h.sp_text]
  have hunp : unpackTwprge twprge (twMk h pre.length) text mc.ns mc.ew false = .ok h.sp.canon := by
    rw [unpackTwprge_canon _ _ _ _ _ _ hns hew, htext']
    exact congrArg _ (h.sp.canonTR_at pre ctx hv mc.ns mc.ew)
  have hstart : (twMk h pre.length).start = pre.length := rfl
  have hstop : (twMk h pre.length).stop = pre.length + h.text.length := by
    simp [twMk, Spelling.matchAt, h.sp_text]
  unfold trFindStep
  simp only [hunp, tr_desc_s_layouts, if_true, hstart, hstop]
  rfl

/-- what `TwpRgeFinder` reports; `q` = position of the first header -/
def rtrOut (sp : Str) : Nat → List Gp → List TRMatch
  | _, [] => []
  | q, g :: gs => ⟨g.h.key, q, q + g.h.text.length⟩ :: rtrOut sp (q + (g.rt sp).length + 1) gs

theorem trFoldR (mc : MC) (hns : isLegal Gen.LEGAL_NS mc.ns = true) (hew : isLegal Gen.LEGAL_EW mc.ew = true)
    (sp : Str) (hsp : SepOk sp) (text : Str) : ∀ (gs : List Gp) (g : Gp) (pre : Str) (st : TRFindSt),
    g.Ok → (∀ x ∈ gs, x.Ok) → text = pre ++ (g.rt sp ++ rgps sp gs) →
    (rhdrMs twMk sp pre.length (g :: gs)).foldlM (trFindStep mc text TR_DESC_S) st =
      .ok { st with out := st.out ++ rtrOut sp pre.length (g :: gs) }
  | [], g, pre, st, hok, _, htext => by
    have h1 := trStepR mc hns hew text pre (g.rbody sp ++ rgps sp []) g.h hok.h
      (by simp only [Gp.rbody, List.append_assoc]; exact endsTwprge_sep sp _ hsp) (by rw [htext]; simp [Gp.rt]) st
    simp only [rhdrMs, List.foldlM_cons, h1, rtrOut]
    rfl
  | g' :: gs, g, pre, st, hok, hgs, htext => by
    have h1 := trStepR mc hns hew text pre (g.rbody sp ++ rgps sp (g' :: gs)) g.h hok.h
      (by simp only [Gp.rbody, List.append_assoc]; exact endsTwprge_sep sp _ hsp) (by rw [htext]; simp [Gp.rt]) st
    have ih := trFoldR mc hns hew sp hsp text gs g' (pre ++ g.rt sp ++ ['\n'])
      { st with out := st.out ++ [⟨g.h.key, pre.length, pre.length + g.h.text.length⟩] } (hgs g' (by simp))
      (fun x hx => hgs x (by simp [hx])) (by rw [htext]; simp [rgps])
    have hlen : (pre ++ g.rt sp ++ ['\n']).length = pre.length + (g.rt sp).length + 1 := by simp; omega
    rw [hlen] at ih
    rw [show rhdrMs twMk sp pre.length (g :: g' :: gs) = twMk g.h pre.length :: rhdrMs twMk sp (pre.length + (g.rt sp).length + 1) (g' :: gs) from rfl]
    simp only [List.foldlM_cons, h1]
    show (rhdrMs twMk sp (pre.length + (g.rt sp).length + 1) (g' :: gs)).foldlM (trFindStep mc text TR_DESC_S) _ = _
    rw [ih]
    simp [rtrOut]

/-- **`TwpRgeFinder` on the canonical text** -/
theorem twprgeFinder_rText (mc : MC) (hns : isLegal Gen.LEGAL_NS mc.ns = true) (hew : isLegal Gen.LEGAL_EW mc.ew = true)
    (sp : Str) (hsp : SepOk sp) (g : Gp) (gs : List Gp) (hok : g.Ok) (hgs : ∀ x ∈ gs, x.Ok) :
    twprgeFinder mc (rText sp g gs) TR_DESC_S = .ok (rtrOut sp 0 (g :: gs), {}) := by
  have h := trFoldR mc hns hew sp hsp (rText sp g gs) gs g [] {} hok hgs (by simp [rText])
  unfold twprgeFinder
  rw [twprge_finditer_rText sp hsp g gs hok hgs]
  simp only [List.length_nil] at h
  rw [h]
  rfl

/-! ### the section references -/

/-- `intervener+` and `(Section s?)? \s* \d{1,3}` -/
def sxA : Rx := match secX with | .seq a _ => a | _ => .fail
def sxB : Rx := match secX with | .seq _ b => b | _ => .fail
theorem secX_decomp : secX = .seq sxA sxB := rfl

/-- behind `Sec nn` the list continuation has no path across `:`, a line break and a header `T<digit>…`
    (the coarse neighbour relation allows every single step — "to", "Sect 7" — so the sequence is split by hand) -/
theorem secX_fails_vhdr (v : Char) (hv : v = ' ' ∨ v = '\n') (t0 : Char) (ht : asciiDigits.mem t0 = true) (rest : Str) :
    FailsOn secX (':' :: v :: 'T' :: t0 :: rest) := by
  have hadj : sxB.adjB v 'T' = false := by rcases hv with rfl | rfl <;> decide +kernel
  have hvd : digitD.mem v = false := by rcases hv with rfl | rfl <;> decide +kernel
  rw [secX_decomp]
  have hB : sxB.mustHitP (fun cs => cs.sub digitD) = true := by decide +kernel
  have hBn : sxB.nullable = false := by decide +kernel
  refine FailsOn.seq_foot ?_
  intro seg rest' hY hch hmem hnull
  match seg, hY, hch, hmem, hnull with
  | [], _, _, _, hnull =>
    have : sxA.nullable = false := by decide +kernel
    rw [hnull rfl] at this; cases this
  | [a], hY, _, _, _ =>
    simp only [List.cons_append, List.nil_append, List.cons.injEq] at hY
    obtain ⟨_, rfl⟩ := hY
    refine FailsOn.of_break hB [] v 'T' _ hadj ?_
    intro c hc
    simp only [List.nil_append, List.mem_singleton] at hc
    subst hc
    exact noHit_of_notMem hvd
  | [a, b], hY, _, _, _ =>
    simp only [List.cons_append, List.nil_append, List.cons.injEq] at hY
    obtain ⟨_, _, rfl⟩ := hY
    refine FailsOn.of_first hBn ?_
    intro c hc
    simp only [List.head?_cons, Option.some.injEq] at hc
    subst hc
    have : sxB.firstSets.all (fun cs => !cs.mem 'T') = true := by decide +kernel
    simp only [List.all_eq_true, Bool.not_eq_true'] at this
    exact this
  | [a, b, c], hY, hch, _, _ =>
    simp only [List.cons_append, List.nil_append, List.cons.injEq] at hY
    obtain ⟨_, _, rfl, _⟩ := hY
    obtain ⟨cs, hcs, hm⟩ := hch.last 'T' rfl
    have : sxA.lastSets.all (fun cs => !cs.mem 'T') = true := by decide +kernel
    simp only [List.all_eq_true, Bool.not_eq_true'] at this
    rw [this cs hcs] at hm; cases hm
  | a :: b :: c :: d :: more, hY, _, hmem, _ =>
    simp only [List.cons_append, List.cons.injEq] at hY
    obtain ⟨_, _, _, hd, _⟩ := hY
    subst hd
    obtain ⟨cs, hcs, hm⟩ := hmem t0 (by simp)
    have : sxA.chrSets.all (fun cs => asciiDigits.disj cs) = true := by decide +kernel
    simp only [List.all_eq_true] at this
    rw [CharSet.disj_mem (this cs hcs) ht] at hm; cases hm

theorem secX_fails_hdr (t0 : Char) (ht : asciiDigits.mem t0 = true) (rest : Str) :
    FailsOn secX (':' :: '\n' :: 'T' :: t0 :: rest) := secX_fails_vhdr '\n' (Or.inr rfl) t0 ht rest

/-- what may follow a section reference `Sec nn:`: nothing, or a line break and a character that cannot continue a section
    list, or a line break / a blank and a header -/
def RTail (T : Str) : Prop :=
  T = [] ∨ (∃ y rest, T = '\n' :: y :: rest ∧ secX.adjB '\n' y = false) ∨
    ∃ v t0 rest, T = v :: 'T' :: t0 :: rest ∧ (v = ' ' ∨ v = '\n') ∧ asciiDigits.mem t0 = true

theorem secX_after_nl :
    secX.follow.all (fun p => !p.1.mem '\n' || p.2.sub ((Gen.PY_SPACE : CharSet) ++ (Danger ++ HeadDanger))) = true := by decide +kernel

theorem RTail.fails {T : Str} (h : RTail T) : FailsOn secX (':' :: T) := by
  rcases h with rfl | ⟨y, rest, rfl, hadj⟩ | ⟨v, t0, rest, rfl, hv, ht⟩
  · refine FailsOn.of_noHit secX_hit _ ?_
    intro c hc
    simp only [List.mem_singleton] at hc
    subst hc
    exact noHit_of_notMem (by decide +kernel)
  · refine FailsOn.of_break secX_hit [':'] '\n' y rest hadj ?_
    intro c hc
    simp only [List.cons_append, List.nil_append, List.mem_cons, List.not_mem_nil, or_false] at hc
    rcases hc with rfl | rfl
    · exact noHit_of_notMem (by decide +kernel)
    · exact noHit_of_notMem (by decide +kernel)
  · exact secX_fails_vhdr v hv t0 ht rest

theorem rTail_vhdr (v : Char) (hv : v = ' ' ∨ v = '\n') (h : Hd) (hok : h.Ok) (rest : Str) : RTail (v :: (h.text ++ rest)) := by
  obtain ⟨t0, t', ht⟩ : ∃ t0 t', h.t = t0 :: t' := by
    cases e : h.t with
    | nil => have := hok.t_len; rw [e] at this; simp at this
    | cons a b => exact ⟨a, b, rfl⟩
  refine Or.inr (Or.inr ⟨v, t0, (t' ++ h.ns :: '-' :: 'R' :: (h.r ++ [h.ew])) ++ rest, by simp [Hd.text, canonText, ht], hv, ?_⟩)
  exact (isDigit_iff_mem t0).1 (hok.t_dig t0 (by rw [ht]; simp))

theorem rTail_hdr (h : Hd) (hok : h.Ok) (rest : Str) : RTail ('\n' :: (h.text ++ rest)) := rTail_vhdr '\n' (Or.inr rfl) h hok rest

theorem rTail_block (d : Str) (hd : Inert d) (rest : Str) : RTail ('\n' :: (d ++ rest)) := by
  obtain ⟨d0, d', e, h1, h2⟩ := hd.head_cons
  exact Or.inr (Or.inl ⟨d0, d' ++ rest, by rw [e]; rfl, adjB_false_of_sub secX '\n' d0 _ secX_after_nl (head_out h1 h2)⟩)

/-- **the section reference is a token of `multisec_regex`** whatever follows the colon, as long as the list continuation
    `(…)*` has no path there -/
theorem secTokG (l : Ln) (hl : l.Ok) (T : Str) (hX : FailsOn secX (':' :: T)) (prev : Option Char) (pos : Nat) (adv : Bool) :
    matchHere Gen.multisec_regex ⟨prev, l.ref ++ T, pos, []⟩ adv = some (secMatch pos) := by
  have hn1 := hl.n1
  have hn2 := hl.n2
  have c1 := eats_secWord 3 (l.n1 :: l.n2 :: ':' :: T)
  have c2 : Eats (.rep (.grp 4 (.chr Gen.cs_faf00333)) 0 (some 1)) [] (' ' :: l.n1 :: l.n2 :: ':' :: T) _ :=
    Eats.opt_none (FailsOn.grp 4 (FailsOn.chr_miss (by decide)))
  have c3 : Eats (.rep (.chr Gen.cs_9e1db48b) 0 (some 1)) [' '] (l.n1 :: l.n2 :: ':' :: T) _ :=
    Eats.opt_some (Eats.chr _ ' ' _ (by decide))
  have c4 := Eats.run Gen.cs_588a3e21 0 none [] (l.n1 :: l.n2 :: ':' :: T) (fun _ h => by cases h)
    (Or.inr (StopAt.cons (CharSet.disj_mem (by decide +kernel) hn1))) (Nat.zero_le _) (fun _ h => by cases h)
  have c5 := Eats.grp 5 (Eats.run Gen.cs_940665b9 1 (some 3) [l.n1, l.n2] (':' :: T)
    (fun c hc => by
      simp only [List.mem_cons, List.not_mem_nil, or_false] at hc
      rcases hc with rfl | rfl
      · exact ascii_digitD hn1
      · exact ascii_digitD hn2)
    (Or.inr (StopAt.cons (by decide +kernel))) (by simp) (fun h hh => by cases hh; simp))
  have c6 : Eats (.rep (.grp 6 secX) 0 none) [] (':' :: T) _ :=
    Eats.star_none none (FailsOn.grp 6 hX)
  have c7 : Eats (.rep (.grp 18 (.seq (.rep (.chr Gen.cs_70d553c2) 0 none) (.chr Gen.cs_df2d81f8))) 0 (some 1)) ([] ++ [':']) T _ :=
    Eats.opt_some (Eats.grp 18 (Eats.seq (Eats.run Gen.cs_70d553c2 0 none [] (':' :: T) (fun _ h => by cases h)
      (Or.inr (StopAt.cons (by decide +kernel))) (Nat.zero_le _) (fun _ h => by cases h)) (Eats.chr _ ':' _ (by decide))))
  have h45 := Eats.seq' c4 c5 (by simp)
  have h35 := Eats.seq' c3 h45 (by simp)
  have h25 := Eats.seq' c2 h35 (by simp)
  have h15 := Eats.seq' c1 h25 (by simp)
  have hg := Eats.grp 1 (Eats.grp 2 h15)
  have h67 := Eats.seq' c6 c7 (by simp)
  have hall := Eats.seq' hg h67 (by simp)
  have hL := hall prev pos []
  rw [← secHead_decomp, ← secColon_decomp, ← multisec_decomp] at hL
  have htxt : l.ref ++ T =
      (['S', 'e', 'c'] ++ ([] ++ ([' '] ++ ([] ++ [l.n1, l.n2]))) ++ ([] ++ ([] ++ [':']))) ++ T := by
    simp [Ln.ref]
  rw [htxt]
  rw [matchHere_of_leads adv hL (Or.inr (by simp))]
  simp [secMatch, Nat.add_assoc]

/-- the section references of further lines; `p` = position of the line break in front of the first of them -/
def rrefMs : Nat → List Ln → List Match
  | _, [] => []
  | p, l :: ls => secMatch (p + 1 + l.d.length + 2) :: rrefMs (p + 1 + l.rt.length) ls

theorem ws_plain {w : Str} (hw : WsOk w) : ∀ c ∈ w, hdrPlain.mem c = true := by
  intro c hc
  rcases hw c hc with rfl | rfl <;> decide

/-- one line behind white space `w`: `w <d>, Sec nn:` -/
theorem sec_rline (w : Str) (hw : WsOk w) (l : Ln) (hl : l.Ok) (T : Str) (hT : RTail T) (ms' : List Match) (pos : Nat)
    (h : ∀ p, Tiles Gen.multisec_regex p T (pos + w.length + l.rt.length) ms') :
    ∀ p, Tiles Gen.multisec_regex p (w ++ (l.rt ++ T)) pos (secMatch (pos + w.length + l.d.length + 2) :: ms') := by
  intro p
  have e : w ++ (l.rt ++ T) = (w ++ (l.d ++ [',', ' '])) ++ (l.ref ++ T) := by simp [Ln.rt]
  rw [e]
  have hsk : Skips Gen.multisec_regex (w ++ (l.d ++ [',', ' '])) (l.ref ++ T) :=
    Skips.append (multisec_skips_plain w _ (ws_plain hw)) (multisec_skips_safe _ _ (by
      intro c hc
      rcases List.mem_append.1 hc with hc | hc
      · exact hl.d.safe c hc
      · simp only [List.mem_cons, List.not_mem_nil, or_false] at hc
        rcases hc with rfl | rfl <;> decide +kernel))
  refine Tiles.skipSeg hsk p pos ?_
  have hp : pos + (w ++ (l.d ++ [',', ' '])).length = pos + w.length + l.d.length + 2 := by simp; omega
  rw [hp]
  refine Tiles.tok _ l.ref _ _ (secMatch _) ms' (secTokG l hl T hT.fails _ _ false) rfl rfl (by simp [Ln.ref]) ?_
  have hq : pos + w.length + l.d.length + 2 + l.ref.length = pos + w.length + l.rt.length := by
    rw [l.rt_length, l.ref_length]; omega
  rw [hq]
  exact h _

theorem sec_rlines : ∀ (ls : List Ln) (q : Nat) (tail : Str) (ms' : List Match), (∀ l ∈ ls, l.Ok) → RTail tail →
    (∀ p, Tiles Gen.multisec_regex p tail (q + (rlns ls).length) ms') →
    ∀ p, Tiles Gen.multisec_regex p (rlns ls ++ tail) q (rrefMs q ls ++ ms')
  | [], q, tail, ms', _, _, h => by simpa [rlns, rrefMs] using h
  | l :: ls, q, tail, ms', hls, ht, h => by
    have hl := hls l (by simp)
    have hls' : ∀ x ∈ ls, x.Ok := fun x hx => hls x (by simp [hx])
    have hT : RTail (rlns ls ++ tail) := by
      cases ls with
      | nil => simpa [rlns] using ht
      | cons z zs =>
        have : rlns (z :: zs) ++ tail = '\n' :: (z.d ++ ((',' :: ' ' :: z.ref) ++ (rlns zs ++ tail))) := by simp [rlns, Ln.rt]
        rw [this]; exact rTail_block z.d (hls' z (by simp)).d _
    have ih := sec_rlines ls (q + 1 + l.rt.length) tail ms' hls' ht (by
      have : q + 1 + l.rt.length + (rlns ls).length = q + (rlns (l :: ls)).length := by simp [rlns]; omega
      rw [this]; exact h)
    have := sec_rline ['\n'] (by intro c hc; simp at hc; exact Or.inr hc) l hl (rlns ls ++ tail) hT (rrefMs (q + 1 + l.rt.length) ls ++ ms') q
      (by simpa using ih)
    intro p
    have := this p
    simpa [rlns, rrefMs, List.append_assoc] using this

/-- the section references of a group that starts at `q` -/
def rgpRefMs (sp : Str) (q : Nat) (g : Gp) : List Match :=
  secMatch (q + g.h.text.length + sp.length + g.l.d.length + 2) :: rrefMs (q + g.h.text.length + sp.length + g.l.rt.length) g.ls

def rdocRefMs (sp : Str) : Nat → List Gp → List Match
  | _, [] => []
  | q, g :: gs => rgpRefMs sp q g ++ rdocRefMs sp (q + (g.rt sp).length + 1) gs

theorem sec_rgroup (sp : Str) (hsp : SepOk sp) (g : Gp) (hok : g.Ok) (q : Nat) (tail : Str) (ms' : List Match) (ht : RTail tail)
    (h : ∀ p, Tiles Gen.multisec_regex p tail (q + (g.rt sp).length) ms') :
    ∀ p, Tiles Gen.multisec_regex p (g.rt sp ++ tail) q (rgpRefMs sp q g ++ ms') := by
  intro p
  have hl := hok.ls g.l (by simp [Gp.lines])
  have hls : ∀ x ∈ g.ls, x.Ok := fun x hx => hok.ls x (by simp [Gp.lines, hx])
  have hT : RTail (rlns g.ls ++ tail) := by
    cases hg : g.ls with
    | nil => simpa [rlns] using ht
    | cons z zs =>
      have : rlns (z :: zs) ++ tail = '\n' :: (z.d ++ ((',' :: ' ' :: z.ref) ++ (rlns zs ++ tail))) := by simp [rlns, Ln.rt]
      rw [this]; exact rTail_block z.d (hls z (by rw [hg]; simp)).d _
  have h2 := sec_rlines g.ls (q + g.h.text.length + sp.length + g.l.rt.length) tail ms' hls ht (by
    have : q + g.h.text.length + sp.length + g.l.rt.length + (rlns g.ls).length = q + (g.rt sp).length := by
      rw [g.rt_length]; simp only [List.length_append]; omega
    rw [this]; exact h)
  have h1 := sec_rline [] (by intro c hc; cases hc) g.l hl (rlns g.ls ++ tail) hT _ (q + g.h.text.length + sp.length)
    (by simpa using h2)
  have e : g.rt sp ++ tail = (g.h.text ++ sp) ++ ([] ++ (g.l.rt ++ (rlns g.ls ++ tail))) := by simp [Gp.rt, Gp.rbody]
  rw [e]
  refine Tiles.skipSeg (multisec_skips_hdr g.h hok.h sp hsp _) p q ?_
  have hp : q + (g.h.text ++ sp).length = q + g.h.text.length + sp.length := by simp; omega
  rw [hp]
  have := h1 (lastOr p (g.h.text ++ sp))
  simpa [rgpRefMs] using this

theorem sec_rgroups (sp : Str) (hsp : SepOk sp) : ∀ (gs : List Gp) (q : Nat), (∀ g ∈ gs, g.Ok) →
    ∀ p, Tiles Gen.multisec_regex p (rgps sp gs) q (rdocRefMs sp (q + 1) gs)
  | [], q, _ => by
    intro p
    exact Tiles.nil p q (matchHere_of_failsOn multisec_fails_nil _ _ false)
  | g :: gs, q, hgs => by
    intro p
    have hgs' : ∀ x ∈ gs, x.Ok := fun x hx => hgs x (by simp [hx])
    have ih := sec_rgroups sp hsp gs (q + 1 + (g.rt sp).length) hgs'
    have ht : RTail (rgps sp gs) := by
      cases gs with
      | nil => exact Or.inl rfl
      | cons g' gs' =>
        have : rgps sp (g' :: gs') = '\n' :: (g'.h.text ++ (g'.rbody sp ++ rgps sp gs')) := by simp [rgps, Gp.rt]
        rw [this]; exact rTail_hdr g'.h (hgs g' (by simp)).h _
    have h1 := sec_rgroup sp hsp g (hgs g (by simp)) (q + 1) (rgps sp gs) (rdocRefMs sp (q + 1 + (g.rt sp).length + 1) gs) ht ih
    have e : rgps sp (g :: gs) = '\n' :: (g.rt sp ++ rgps sp gs) := rfl
    rw [e]
    refine Tiles.skip p '\n' _ q _ (matchHere_of_failsOn (multisec_fails_nl _) _ _ false) ?_
    have := h1 (some '\n')
    simpa [rdocRefMs] using this

theorem multisec_tiles_rText (sp : Str) (hsp : SepOk sp) (g : Gp) (gs : List Gp) (hok : g.Ok) (hgs : ∀ x ∈ gs, x.Ok) :
    Tiles Gen.multisec_regex none (rText sp g gs) 0 (rdocRefMs sp 0 (g :: gs)) := by
  have ht : RTail (rgps sp gs) := by
    cases gs with
    | nil => exact Or.inl rfl
    | cons g' gs' =>
      have : rgps sp (g' :: gs') = '\n' :: (g'.h.text ++ (g'.rbody sp ++ rgps sp gs')) := by simp [rgps, Gp.rt]
      rw [this]; exact rTail_hdr g'.h (hgs g' (by simp)).h _
  have := sec_rgroup sp hsp g hok 0 (rgps sp gs) (rdocRefMs sp (0 + (g.rt sp).length + 1) gs) ht
    (by
      have := sec_rgroups sp hsp gs (0 + (g.rt sp).length) hgs
      simpa using this) none
  simpa [rText, rdocRefMs] using this


/-! ## Part 3 — the arrangement, `SecFinder`, the markers -/

/-- the section references of further lines; `p` = position of the line break in front of the first of them -/
def rItems : Nat → List Ln → List SecItem
  | _, [] => []
  | p, l :: ls => ⟨p + 1 + l.d.length + 2, p + 1 + l.d.length + 9, [[l.n1, l.n2]]⟩ :: rItems (p + 1 + l.rt.length) ls

/-- the section references of the lines of a group; `p` = position of the first block -/
def rItems1 (p : Nat) (l : Ln) (ls : List Ln) : List SecItem :=
  ⟨p + l.d.length + 2, p + l.d.length + 9, [[l.n1, l.n2]]⟩ :: rItems (p + l.rt.length) ls

def rGroup (sp : Str) (q : Nat) (g : Gp) : TRGroup :=
  ⟨q, q + g.h.text.length, g.h.key, rItems1 (q + g.h.text.length + sp.length) g.l g.ls⟩

/-- the arrangement of the canonical text -/
def rGroups (sp : Str) : Nat → List Gp → List TRGroup
  | _, [] => []
  | q, g :: gs => rGroup sp q g :: rGroups sp (q + (g.rt sp).length + 1) gs

def RefAt (text : Str) (p : Nat) (l : Ln) : Prop := ∃ pre post, text = pre ++ (l.ref ++ post) ∧ pre.length = p

def ItemOK (text : Str) (s : SecItem) : Prop :=
  ∃ l : Ln, l.Ok ∧ s.secs = [[l.n1, l.n2]] ∧ s.sEnd = s.sStart + 7 ∧ RefAt text s.sStart l

theorem rItems_ok (text : Str) : ∀ (ls : List Ln) (pre tail : Str), text = pre ++ (rlns ls ++ tail) → (∀ l ∈ ls, l.Ok) →
    ∀ s ∈ rItems pre.length ls, ItemOK text s
  | [], _, _, _, _ => by intro s hs; cases hs
  | l :: ls, pre, tail, htxt, hls => by
    intro s hs
    simp only [rItems, List.mem_cons] at hs
    rcases hs with rfl | hs
    · refine ⟨l, hls l (by simp), rfl, rfl, ⟨pre ++ '\n' :: (l.d ++ [',', ' ']), rlns ls ++ tail, ?_, ?_⟩⟩
      · rw [htxt]; simp [rlns, Ln.rt]
      · simp; omega
    · have := rItems_ok text ls (pre ++ '\n' :: l.rt) tail (by rw [htxt]; simp [rlns]) (fun x hx => hls x (by simp [hx])) s
      have hlen : (pre ++ '\n' :: l.rt).length = pre.length + 1 + l.rt.length := by simp; omega
      rw [hlen] at this
      exact this hs

theorem rItems1_ok (text : Str) (l : Ln) (ls : List Ln) (pre tail : Str) (htxt : text = pre ++ (l.rt ++ (rlns ls ++ tail)))
    (hl : l.Ok) (hls : ∀ x ∈ ls, x.Ok) : ∀ s ∈ rItems1 pre.length l ls, ItemOK text s := by
  intro s hs
  simp only [rItems1, List.mem_cons] at hs
  rcases hs with rfl | hs
  · refine ⟨l, hl, rfl, rfl, ⟨pre ++ (l.d ++ [',', ' ']), rlns ls ++ tail, ?_, ?_⟩⟩
    · rw [htxt]; simp [Ln.rt]
    · simp; omega
  · have := rItems_ok text ls (pre ++ l.rt) tail (by rw [htxt]; simp) hls s
    have hlen : (pre ++ l.rt).length = pre.length + l.rt.length := by simp
    rw [hlen] at this
    exact this hs

theorem rGroups_ok (sp : Str) (text : Str) : ∀ (gs : List Gp) (g : Gp) (pre : Str), text = pre ++ (g.rt sp ++ rgps sp gs) →
    g.Ok → (∀ x ∈ gs, x.Ok) → ∀ G ∈ rGroups sp pre.length (g :: gs), ∀ s ∈ G.items, ItemOK text s
  | gs, g, pre, htxt, hok, hgs => by
    intro G hG
    simp only [rGroups, List.mem_cons] at hG
    rcases hG with rfl | hG
    · have := rItems1_ok text g.l g.ls (pre ++ g.h.text ++ sp) (rgps sp gs) (by rw [htxt]; simp [Gp.rt, Gp.rbody])
        (hok.ls g.l (by simp [Gp.lines])) (fun x hx => hok.ls x (by simp [Gp.lines, hx]))
      have hlen : (pre ++ g.h.text ++ sp).length = pre.length + g.h.text.length + sp.length := by simp; omega
      rw [hlen] at this
      exact this
    · match gs, hgs, htxt, hG with
      | [], _, _, hG => simp [rGroups] at hG
      | g' :: gs', hgs, htxt, hG =>
        have := rGroups_ok sp text gs' g' (pre ++ g.rt sp ++ ['\n']) (by rw [htxt]; simp [rgps]) (hgs g' (by simp))
          (fun x hx => hgs x (by simp [hx])) G
        have hlen : (pre ++ g.rt sp ++ ['\n']).length = pre.length + (g.rt sp).length + 1 := by simp; omega
        rw [hlen] at this
        exact this hG
termination_by gs => gs.length

theorem firstLayouts_trds : firstLayouts TR_DESC_S = false := by decide

/-- one step of `findall_matching_sec` at a section reference `Sec nn:` in the layout Twp/Rge–desc–Sec -/
theorem secStepR (text : Str) (s : SecItem) (hs : ItemOK text s) (st : SecFindSt) (needColon : Bool) :
    secFindStep text TR_DESC_S needColon st (secMatch s.sStart) =
      .ok { out := st.out ++ [⟨s.secs, s.sStart, s.sEnd⟩], lastNums := s.secs, ff := st.ff } := by
  obtain ⟨l, hl, h1, h2, pre, post, htext, hp⟩ := hs
  obtain ⟨u1, u2, u3⟩ := unpack_ref l hl
  rw [← hp] at h2 ⊢
  have hg0 : (secMatch pre.length).group0 text = l.ref := by
    unfold Match.group0
    exact slice_at text pre l.ref post _ _ htext rfl rfl
  have hcolon : (multisec.group (secMatch pre.length) text "colon").isNone = false := by
    simp [Pat.group, multisec_idx.1, Match.group?, Match.span?, secMatch]
  have hmulti : isMulti multisec "sec" (secMatch pre.length) text = some false := by
    simp [isMulti, multisec_idx, Pat.group, Match.group?, Match.span?, secMatch, List.find?]
  unfold secFindStep
  simp only [hg0, hcolon, hmulti, u1, u2, u3, firstLayouts_trds, Bool.false_and, Bool.and_false, Bool.not_false, Bool.and_self,
    Bool.not_true, Bool.false_eq_true, if_false, List.append_nil, h1, h2]
  rfl

theorem secFoldR (text : Str) (nc : Bool) : ∀ (its : List SecItem) (st : SecFindSt), (∀ s ∈ its, ItemOK text s) →
    ∃ st', (its.map (fun s => secMatch s.sStart)).foldlM (secFindStep text TR_DESC_S nc) st = .ok st' ∧
      st'.out = st.out ++ its.map (fun s => (⟨s.secs, s.sStart, s.sEnd⟩ : SecMatch)) ∧ st'.ff = st.ff
  | [], st, _ => ⟨st, rfl, by simp, rfl⟩
  | s :: its, st, h => by
    obtain ⟨st', a1, a2, a3⟩ := secFoldR text nc its
      { out := st.out ++ [⟨s.secs, s.sStart, s.sEnd⟩], lastNums := s.secs, ff := st.ff } (fun x hx => h x (by simp [hx]))
    refine ⟨st', ?_, ?_, a3⟩
    · simp only [List.map_cons, List.foldlM_cons, secStepR text s (h s (by simp)) st nc]
      exact a1
    · rw [a2]; simp

def allItems (groups : List TRGroup) : List SecItem := groups.flatMap (·.items)

theorem secsOf_allItems (groups : List TRGroup) :
    secsOf groups = (allItems groups).map (fun s => (⟨s.secs, s.sStart, s.sEnd⟩ : SecMatch)) := by
  simp [secsOf, allItems, List.map_flatMap]

theorem rrefMs_items : ∀ (ls : List Ln) (p : Nat), rrefMs p ls = (rItems p ls).map (fun s => secMatch s.sStart)
  | [], _ => rfl
  | l :: ls, p => by simp [rrefMs, rItems, rrefMs_items ls]

theorem rdocRefMs_items (sp : Str) : ∀ (gs : List Gp) (q : Nat),
    rdocRefMs sp q gs = (allItems (rGroups sp q gs)).map (fun s => secMatch s.sStart)
  | [], _ => rfl
  | g :: gs, q => by
    simp [rdocRefMs, rGroups, allItems, rgpRefMs, rGroup, rItems1, rrefMs_items, rdocRefMs_items sp gs]

/-- **`SecFinder` on the canonical text** -/
theorem secFinder_rText (sp : Str) (hsp : SepOk sp) (g : Gp) (gs : List Gp) (hok : g.Ok) (hgs : ∀ x ∈ gs, x.Ok) (rc : ReqColon) :
    secFinder (rText sp g gs) TR_DESC_S rc = .ok (secsOf (rGroups sp 0 (g :: gs)), {}) := by
  have hfind : multisec.rx.finditer (rText sp g gs) = (allItems (rGroups sp 0 (g :: gs))).map (fun s => secMatch s.sStart) := by
    rw [← rdocRefMs_items]
    exact (multisec_tiles_rText sp hsp g gs hok hgs).finditer_eq
  have hitems : ∀ s ∈ allItems (rGroups sp 0 (g :: gs)), ItemOK (rText sp g gs) s := by
    intro s hs
    simp only [allItems, List.mem_flatMap] at hs
    obtain ⟨G, hG, hs⟩ := hs
    exact rGroups_ok sp (rText sp g gs) gs g [] (by simp [rText]) hok hgs G hG s hs
  have hpass : ∀ nc, ∃ nums, secFinderPass (rText sp g gs) TR_DESC_S nc = .ok (secsOf (rGroups sp 0 (g :: gs)), {}, nums) := by
    intro nc
    obtain ⟨st', a1, a2, a3⟩ := secFoldR (rText sp g gs) nc _ {} hitems
    refine ⟨st'.lastNums, ?_⟩
    unfold secFinderPass
    rw [hfind, a1]
    simp only [a2, a3, secsOf_allItems, List.nil_append]
  unfold secFinder
  obtain ⟨nums, hp⟩ := hpass ((rc == .yes || rc == .cautious) && firstLayouts TR_DESC_S)
  simp only [hp]
  simp [secsOf, rGroups, rGroup, rItems1]

theorem trsOf_rGroups (sp : Str) : ∀ (gs : List Gp) (q : Nat), trsOf (rGroups sp q gs) = rtrOut sp q gs
  | [], _ => rfl
  | g :: gs, q => by simp [rGroups, trsOf, rtrOut, rGroup, ← trsOf_rGroups sp gs]

/-! ### the markers -/

/-- **`populate_markers` for a text that starts with a Twp/Rge and ends with a section reference** -/
theorem populateMarkers_R (len : Nat) (secs : List SecMatch) (trs : List TRMatch) (T : List (Nat × Marker))
    (hs : T.Pairwise (fun a b => a.1 < b.1)) (hperm : T.Perm (trMk trs ++ secMk secs))
    (rest s t : List (Nat × Marker)) (h0 : trMk trs = (0, Marker.trStart) :: rest)
    (hE : secMk secs = s ++ (len, Marker.secEnd) :: t) :
    populateMarkers len secs trs = T := by
  have hperm2 : T.Perm ((0, Marker.trStart) :: (len, Marker.secEnd) :: ((s ++ t) ++ rest)) := by
    refine hperm.trans ?_
    rw [h0, hE]
    simp only [List.cons_append]
    refine List.Perm.cons _ ?_
    have h1 : (rest ++ (s ++ (len, Marker.secEnd) :: t)).Perm ((s ++ (len, Marker.secEnd) :: t) ++ rest) := List.perm_append_comm
    refine h1.trans ?_
    have h2 : (s ++ (len, Marker.secEnd) :: t).Perm ((len, Marker.secEnd) :: (s ++ t)) := List.perm_middle
    exact (List.Perm.append_right rest h2)
  have hkeys : (0 :: len :: (((s ++ t) ++ rest).map (·.1))).Nodup := by
    have hT : (T.map (·.1)).Nodup := by
      rw [List.Nodup, List.pairwise_map]
      exact hs.imp (fun h => Nat.ne_of_lt h)
    have := (hperm2.map (·.1)).nodup_iff.1 hT
    simpa using this
  have hk0 := List.nodup_cons.1 hkeys
  have hk1 := List.nodup_cons.1 hk0.2
  have hlen0 : (0 : Nat) ≠ len := by intro e; exact hk0.1 (by simp [e])
  have hd1 : markSet (markSet [] 0 .textStart) len .textEnd = [(0, Marker.textStart), (len, Marker.textEnd)] := by
    rw [markSet_fresh [] 0 _ (fun _ h => by cases h)]
    exact markSet_fresh _ len _ (by intro e he; simp at he; rw [he]; exact hlen0)
  have hnd : (([(0, Marker.textStart), (len, Marker.textEnd)] ++ ((s ++ t) ++ rest)).map (·.1)).Nodup := by
    simpa using hkeys
  have hnd_s : (([(0, Marker.textStart), (len, Marker.textEnd)] ++ s).map (·.1)).Nodup := by
    refine List.Nodup.sublist ?_ hnd
    simp only [List.map_append]
    refine List.Sublist.append_left ?_ _
    exact (List.sublist_append_left _ _).trans (List.sublist_append_left _ _)
  unfold populateMarkers
  simp only [hd1, secs_fold, trs_fold, h0, hE, List.foldl_cons, List.foldl_append]
  rw [foldl_markSet s _ hnd_s]
  have hsec : markSet ([(0, Marker.textStart), (len, Marker.textEnd)] ++ s) len Marker.secEnd =
      (0, Marker.textStart) :: (len, Marker.secEnd) :: s := by
    refine markSet_second _ len _ _ _ hlen0 ?_
    intro e he h
    exact hk1.1 (by rw [← h]; simp only [List.map_append, List.mem_append, List.mem_map]; exact Or.inl (Or.inl ⟨e, he, rfl⟩))
  rw [hsec]
  have hnd_t : ((((0, Marker.textStart) :: (len, Marker.secEnd) :: s) ++ t).map (·.1)).Nodup := by
    refine List.Nodup.sublist ?_ hnd
    simp only [List.map_append, List.map_cons, List.cons_append, List.append_assoc, List.nil_append, List.map_nil]
    refine List.Sublist.cons_cons _ (List.Sublist.cons_cons _ ?_)
    rw [← List.append_assoc]
    exact List.sublist_append_left _ _
  rw [foldl_markSet t _ hnd_t]
  have hhead : markSet (((0, Marker.textStart) :: (len, Marker.secEnd) :: s) ++ t) 0 Marker.trStart =
      (0, Marker.trStart) :: ((len, Marker.secEnd) :: (s ++ t)) := by
    refine markSet_head 0 _ _ _ ?_
    intro e he h
    apply hk0.1
    have he' : e = (len, Marker.secEnd) ∨ e ∈ s ∨ e ∈ t := by simpa using he
    rcases he' with rfl | he | he
    · simp at h; simp [h]
    · simp only [List.mem_cons, List.map_append, List.mem_append, List.mem_map]
      exact Or.inr (Or.inl (Or.inl ⟨e, he, h⟩))
    · simp only [List.mem_cons, List.map_append, List.mem_append, List.mem_map]
      exact Or.inr (Or.inl (Or.inr ⟨e, he, h⟩))
  rw [hhead]
  have hnd_r : ((((0, Marker.trStart) :: ((len, Marker.secEnd) :: (s ++ t))) ++ rest).map (·.1)).Nodup := by
    simpa using hkeys
  rw [foldl_markSet rest _ hnd_r]
  exact sortMarkers_eq _ T (by simpa using hperm2) hs


/-! ## Part 4 — the walk stages exactly the lines -/

theorem rLines_comps (txt tr : Str) : ∀ (ls : List Ln) (pre tail : Str), txt = pre ++ (rlns ls ++ tail) → (∀ l ∈ ls, l.Ok) →
    dItemComps txt tr pre.length (rItems pre.length ls) = ls.map (lnComp tr)
  | [], _, _, _, _ => rfl
  | l :: ls, pre, tail, htxt, hls => by
    have hl := hls l (by simp)
    have hslice : slice txt pre.length (pre.length + 1 + l.d.length + 2) = ['\n'] ++ l.d ++ [',', ' '] := by
      refine slice_at txt pre _ (l.ref ++ (rlns ls ++ tail)) _ _ ?_ rfl (by simp; omega)
      rw [htxt]; simp [rlns, Ln.rt]
    have hclean : cleanupDesc (['\n'] ++ l.d ++ [',', ' ']) = l.d :=
      C01_cleanup_block ['\n'] l.d [',', ' '] (by decide) (by decide) hl.d.clean
    have ih := rLines_comps txt tr ls (pre ++ '\n' :: l.rt) tail (by rw [htxt]; simp [rlns]) (fun x hx => hls x (by simp [hx]))
    have hlen : (pre ++ '\n' :: l.rt).length = pre.length + 1 + l.rt.length := by simp; omega
    rw [hlen] at ih
    have hend : pre.length + 1 + l.d.length + 9 = pre.length + 1 + l.rt.length := by rw [l.rt_length]; omega
    simp only [rItems, dItemComps, hslice, hclean, hend, ih, List.map_cons, lnComp]

theorem rGroup_comps (sp : Str) (hsp : SepOk sp) (txt : Str) (g : Gp) (hok : g.Ok) (pre tail : Str)
    (htxt : txt = pre ++ (g.rt sp ++ tail)) :
    dItemComps txt g.h.key (pre.length + g.h.text.length) (rItems1 (pre.length + g.h.text.length + sp.length) g.l g.ls) =
      g.lines.map (lnComp g.h.key) := by
  have hl := hok.ls g.l (by simp [Gp.lines])
  have hls : ∀ x ∈ g.ls, x.Ok := fun x hx => hok.ls x (by simp [Gp.lines, hx])
  have hslice : slice txt (pre.length + g.h.text.length) (pre.length + g.h.text.length + sp.length + g.l.d.length + 2) =
      sp ++ g.l.d ++ [',', ' '] := by
    refine slice_at txt (pre ++ g.h.text) _ (g.l.ref ++ (rlns g.ls ++ tail)) _ _ ?_ (by simp) (by simp; omega)
    rw [htxt]; simp [Gp.rt, Gp.rbody, Ln.rt]
  have hclean : cleanupDesc (sp ++ g.l.d ++ [',', ' ']) = g.l.d :=
    C01_cleanup_block sp g.l.d [',', ' '] (by
      intro c hc
      rcases hsp.chars c hc with rfl | rfl <;> decide) (by decide) hl.d.clean
  have ih := rLines_comps txt g.h.key g.ls (pre ++ g.h.text ++ sp ++ g.l.rt) tail (by rw [htxt]; simp [Gp.rt, Gp.rbody]) hls
  have hlen : (pre ++ g.h.text ++ sp ++ g.l.rt).length = pre.length + g.h.text.length + sp.length + g.l.rt.length := by
    simp; omega
  rw [hlen] at ih
  have hend : pre.length + g.h.text.length + sp.length + g.l.d.length + 9 = pre.length + g.h.text.length + sp.length + g.l.rt.length := by
    rw [g.l.rt_length]; omega
  simp only [rItems1, dItemComps, hslice, hclean, hend, ih, Gp.lines, List.map_cons, lnComp]

theorem rGroups_comps (sp : Str) (hsp : SepOk sp) (txt : Str) : ∀ (gs : List Gp) (g : Gp) (pre : Str),
    txt = pre ++ (g.rt sp ++ rgps sp gs) → g.Ok → (∀ x ∈ gs, x.Ok) →
    expectedCompsTrDescS txt (rGroups sp pre.length (g :: gs)) = docComps (g :: gs)
  | [], g, pre, htxt, hok, _ => by
    have h1 := rGroup_comps sp hsp txt g hok pre (rgps sp []) htxt
    simp [expectedCompsTrDescS, rGroups, rGroup, docComps, h1]
  | g' :: gs, g, pre, htxt, hok, hgs => by
    have h1 := rGroup_comps sp hsp txt g hok pre (rgps sp (g' :: gs)) htxt
    have ih := rGroups_comps sp hsp txt gs g' (pre ++ g.rt sp ++ ['\n']) (by rw [htxt]; simp [rgps]) (hgs g' (by simp))
      (fun x hx => hgs x (by simp [hx]))
    have hlen : (pre ++ g.rt sp ++ ['\n']).length = pre.length + (g.rt sp).length + 1 := by simp; omega
    rw [hlen] at ih
    simp only [expectedCompsTrDescS, docComps, List.flatMap_cons] at ih ⊢
    rw [show rGroups sp pre.length (g :: g' :: gs) = rGroup sp pre.length g :: rGroups sp (pre.length + (g.rt sp).length + 1) (g' :: gs) from rfl]
    simp only [List.flatMap_cons, ih]
    simp [rGroup, h1]

theorem rGroups_items_ne (sp : Str) : ∀ (gs : List Gp) (q : Nat), ∀ G ∈ rGroups sp q gs, G.items ≠ []
  | [], _, G, h => by cases h
  | g :: gs, q, G, h => by
    simp only [rGroups, List.mem_cons] at h
    rcases h with rfl | h
    · simp [rGroup, rItems1]
    · exact rGroups_items_ne sp gs _ G h

theorem Reports.intro' {mc : MC} {rc : ReqColon} {txt : Str} {L : Lay} {groups : List TRGroup}
    (trs : List TRMatch) (tff : FinderFlags) (secs : List SecMatch) (sff : FinderFlags)
    (h1 : twprgeFinder mc txt L.str = .ok (trs, tff)) (h2 : secFinder txt L.str rc = .ok (secs, sff))
    (h3 : trs.map (fun m => (m.twprge, m.start, m.stop)) = groups.map (fun g => (g.tr, g.tStart, g.tEnd)))
    (h4 : secs.map (·.secs) = allSecs groups)
    (h5 : populateMarkers txt.length secs trs = L.markers groups txt.length) : Reports mc rc txt L groups :=
  Reports.intro trs tff secs sff h1 h2 h3 h4 h5

/-- the markers of the arrangement are what `populate_markers` builds (proved in general: `markersOK_rText`, Part 4b) -/
def MarkersOK (sp : Str) (g : Gp) (gs : List Gp) : Prop :=
  populateMarkers (rText sp g gs).length (secsOf (rGroups sp 0 (g :: gs))) (trsOf (rGroups sp 0 (g :: gs))) =
    Lay.trDescS.markers (rGroups sp 0 (g :: gs)) (rText sp g gs).length

/-- **C01 (layout Twp/Rge–desc–Sec, chunk level)**: what the two finders report on the canonical text, with NO lexical
    premise; given the marker list and the layout, `parse_chunk` stages exactly one component per line, in reading order, with the
    Twp/Rge of its group, its section and its block verbatim, and raises neither an error nor a warning flag -/
theorem C01_chunk_canonical_TR_desc_S_partial (mc : MC) (pc : ParserCfg) (hns : isLegal Gen.LEGAL_NS mc.ns = true)
    (hew : isLegal Gen.LEGAL_EW mc.ew = true) (sp : Str) (hsp : SepOk sp) (g : Gp) (gs : List Gp) (hok : g.Ok)
    (hgs : ∀ x ∈ gs, x.Ok) (parentLayout : Str)
    (hlay : chunkLayoutOf pc (rText sp g gs) false parentLayout = TR_DESC_S) (hmark : MarkersOK sp g gs) :
    ∃ c, parseChunkCore mc pc (rText sp g gs) false parentLayout = .ok c ∧ c.fl.e = [] ∧ c.fl.w = [] ∧
      (pc.secWithin = false → c.comps = docComps (g :: gs)) := by
  have htr := twprgeFinder_rText mc hns hew sp hsp g gs hok hgs
  have hsec := secFinder_rText sp hsp g gs hok hgs pc.requireColon
  have hne := rGroups_items_ne sp (g :: gs) 0
  have hg : rGroups sp 0 (g :: gs) ≠ [] := by simp [rGroups]
  have hcopy : (TR_DESC_S == COPY_ALL) = false := by decide
  have htrl : (rtrOut sp 0 (g :: gs)).map (·.twprge) = (rGroups sp 0 (g :: gs)).map (·.tr) := by
    rw [← trsOf_rGroups]; simp [trsOf, List.map_map, Function.comp_def]
  have hsecl : (secsOf (rGroups sp 0 (g :: gs))).map (·.secs) = allSecs (rGroups sp 0 (g :: gs)) := secsOf_secs _
  have hmark' : populateMarkers (rText sp g gs).length (secsOf (rGroups sp 0 (g :: gs))) (rtrOut sp 0 (g :: gs)) =
      Lay.trDescS.markers (rGroups sp 0 (g :: gs)) (rText sp g gs).length := by
    rw [← trsOf_rGroups]; exact hmark
  have W := C20_walk_all_layouts .trDescS (rText sp g gs) (rGroups sp 0 (g :: gs))
    (rText sp g gs).length { w := [], wl := [] } hne hg
  rw [show Lay.trDescS.str = TR_DESC_S from rfl] at W
  obtain ⟨w1, w2, w3, w4, w5, w6⟩ := W
  obtain ⟨f1, f2⟩ := finishChunk_clean pc _ w2 w3 w5 w6
  refine ⟨finishChunk pc (parseMeaningful (startChunk { w := [], wl := [] } (rGroups sp 0 (g :: gs))) (rText sp g gs)
    TR_DESC_S (Lay.trDescS.markers (rGroups sp 0 (g :: gs)) (rText sp g gs).length)), ?_, ?_, ?_, ?_⟩
  · unfold parseChunkCore
    simp only [hlay, htr, hsec, hcopy, hmark', htrl, hsecl]
    rfl
  · rw [f1]; exact (congrArg (·.e) w4)
  · rw [f1]; exact (congrArg (·.w) w4)
  · intro hsw
    refine ((f2 hsw).1).trans (w1.trans ?_)
    exact rGroups_comps sp hsp _ gs g [] (by simp [rText]) hok hgs


/-- the FULL chunk-level statement for the layout Twp/Rge–desc–Sec (what `C01_chunk_canonical_TR_desc_S_partial` proves given
    the two hypotheses `hlay` and `hmark`; the first block must have at least 3 characters, see the file header) -/
def C01_chunk_canonical_TR_desc_S_statement : Prop :=
  ∀ (mc : MC) (pc : ParserCfg), isLegal Gen.LEGAL_NS mc.ns = true → isLegal Gen.LEGAL_EW mc.ew = true →
    ∀ (sp : Str), SepOk sp → ∀ (g : Gp) (gs : List Gp), g.Ok → (∀ x ∈ gs, x.Ok) → 3 ≤ g.l.d.length →
    ∀ (parentLayout : Str), (pc.mandateLayout = true → parentLayout = TR_DESC_S) →
    ∃ c, parseChunkCore mc pc (rText sp g gs) false parentLayout = .ok c ∧ c.fl.e = [] ∧ c.fl.w = [] ∧
      (pc.secWithin = false → c.comps = docComps (g :: gs))

/-- **C01 (layout Twp/Rge–desc–Sec): the lexical premise `Reports` of `Lemmas/Segment.lean` holds for the canonical text**,
    given the marker list (both finders are discharged with no premise) -/
theorem C01_reports_TR_desc_S (mc : MC) (hns : isLegal Gen.LEGAL_NS mc.ns = true) (hew : isLegal Gen.LEGAL_EW mc.ew = true)
    (sp : Str) (hsp : SepOk sp) (g : Gp) (gs : List Gp) (hok : g.Ok) (hgs : ∀ x ∈ gs, x.Ok) (rc : ReqColon)
    (hmark : MarkersOK sp g gs) :
    Reports mc rc (rText sp g gs) .trDescS (rGroups sp 0 (g :: gs)) := by
  refine Reports.intro _ _ _ _ (twprgeFinder_rText mc hns hew sp hsp g gs hok hgs)
    (secFinder_rText sp hsp g gs hok hgs rc) ?_ (secsOf_secs _) ?_
  · rw [← trsOf_rGroups]; simp [trsOf, List.map_map, Function.comp_def]
  · rw [← trsOf_rGroups]; exact hmark

/-- **C01 (layout Twp/Rge–desc–Sec): what the two finders report on the canonical text, no premise** -/
theorem C01_finders_TR_desc_S (mc : MC) (hns : isLegal Gen.LEGAL_NS mc.ns = true) (hew : isLegal Gen.LEGAL_EW mc.ew = true)
    (sp : Str) (hsp : SepOk sp) (g : Gp) (gs : List Gp) (hok : g.Ok) (hgs : ∀ x ∈ gs, x.Ok) (rc : ReqColon) :
    twprgeFinder mc (rText sp g gs) TR_DESC_S = .ok (trsOf (rGroups sp 0 (g :: gs)), {}) ∧
    secFinder (rText sp g gs) TR_DESC_S rc = .ok (secsOf (rGroups sp 0 (g :: gs)), {}) ∧
    expectedCompsTrDescS (rText sp g gs) (rGroups sp 0 (g :: gs)) = docComps (g :: gs) := by
  refine ⟨?_, secFinder_rText sp hsp g gs hok hgs rc, rGroups_comps sp hsp _ gs g [] (by simp [rText]) hok hgs⟩
  rw [trsOf_rGroups]; exact twprgeFinder_rText mc hns hew sp hsp g gs hok hgs

/-! ## Part 4b — the markers of the canonical text -/

theorem Within.mono {lo lo' hi hi' : Nat} {b : List (Nat × Marker)} (h : Within lo' hi' b) (h1 : lo ≤ lo') (h2 : hi' ≤ hi) :
    Within lo hi b :=
  ⟨h.1, fun e he => by have := h.2 e he; omega⟩

theorem rItems_cons (p : Nat) (z : Ln) (zs : List Ln) : rItems p (z :: zs) = rItems1 (p + 1) z zs := rfl

theorem rlines_length (l : Ln) (z : Ln) (zs : List Ln) :
    (l.rt ++ rlns (z :: zs)).length = l.rt.length + 1 + (z.rt ++ rlns zs).length := by
  simp [rlns]; omega

/-- the markers of the lines of a group stand at strictly increasing positions; the last one at the end of the last line -/
theorem rItems1_within : ∀ (ls : List Ln) (l : Ln) (p : Nat),
    Within p (p + (l.rt ++ rlns ls).length + 1) (imk (rItems1 p l ls))
  | [], l, p => by
    have hl := l.rt_length
    have e : imk (rItems1 p l []) = [(p + l.d.length + 2, Marker.secStart), (p + l.d.length + 9, Marker.secEnd)] := by
      simp [rItems1, rItems, imk]
    rw [e]
    simp only [rlns, List.append_nil, hl]
    refine Within.cons (by simp; omega) (Within.cons (by simp) (Within.nil _ _) (by simp; omega)) (by simp; omega)
  | z :: zs, l, p => by
    have hl := l.rt_length
    have ih := rItems1_within zs z (p + l.rt.length + 1)
    have e : imk (rItems1 p l (z :: zs)) = (p + l.d.length + 2, Marker.secStart) :: (p + l.d.length + 9, Marker.secEnd) ::
        imk (rItems1 (p + l.rt.length + 1) z zs) := by
      simp [rItems1, rItems, imk]
    rw [e, rlines_length]
    refine Within.cons (by simp; omega) (Within.cons (by simp) ?_ (by simp; omega)) (by simp; omega)
    exact ih.mono (by simp; omega) (by omega)

theorem rItems1_last : ∀ (ls : List Ln) (l : Ln) (p : Nat),
    ∃ s, imk (rItems1 p l ls) = s ++ [(p + (l.rt ++ rlns ls).length, Marker.secEnd)]
  | [], l, p => by
    have hl := l.rt_length
    refine ⟨[(p + l.d.length + 2, Marker.secStart)], ?_⟩
    simp [rItems1, rItems, imk, rlns, hl]; omega
  | z :: zs, l, p => by
    obtain ⟨s, hs⟩ := rItems1_last zs z (p + l.rt.length + 1)
    refine ⟨(p + l.d.length + 2, Marker.secStart) :: (p + l.d.length + 9, Marker.secEnd) :: s, ?_⟩
    have e : imk (rItems1 p l (z :: zs)) = (p + l.d.length + 2, Marker.secStart) :: (p + l.d.length + 9, Marker.secEnd) ::
        imk (rItems1 (p + l.rt.length + 1) z zs) := by
      simp [rItems1, rItems, imk]
    rw [e, hs, rlines_length]
    simp; omega

theorem rGroup_markers (sp : Str) (q : Nat) (g : Gp) :
    groupMarkers (rGroup sp q g) = (q, Marker.trStart) :: (q + g.h.text.length, Marker.trEnd) ::
      imk (rItems1 (q + g.h.text.length + sp.length) g.l g.ls) := rfl

theorem rGroup_within (sp : Str) (hsp : SepOk sp) (g : Gp) (q : Nat) :
    Within q (q + (g.rt sp).length + 1) (groupMarkers (rGroup sp q g)) := by
  have hh := g.h.text_length
  have hspl : 0 < sp.length := List.length_pos_iff.mpr hsp.ne
  have ih := rItems1_within g.ls g.l (q + g.h.text.length + sp.length)
  rw [rGroup_markers, g.rt_length]
  refine Within.cons (Nat.le_refl _) (Within.cons (by simp; omega) ?_ (by simp; omega)) (by simp; omega)
  exact ih.mono (by simp; omega) (by omega)

theorem rdoc_length (sp : Str) (g g' : Gp) (gs : List Gp) :
    (g.rt sp ++ rgps sp (g' :: gs)).length = (g.rt sp).length + 1 + (g'.rt sp ++ rgps sp gs).length := by
  simp [rgps]; omega

/-- the markers of the arrangement stand at strictly increasing positions -/
theorem rGroups_within (sp : Str) (hsp : SepOk sp) : ∀ (gs : List Gp) (g : Gp) (q : Nat),
    Within q (q + (g.rt sp ++ rgps sp gs).length + 1) ((rGroups sp q (g :: gs)).flatMap groupMarkers)
  | [], g, q => by
    have := rGroup_within sp hsp g q
    simpa [rGroups, rgps] using this
  | g' :: gs, g, q => by
    have h1 := rGroup_within sp hsp g q
    have ih := rGroups_within sp hsp gs g' (q + (g.rt sp).length + 1)
    have e : (rGroups sp q (g :: g' :: gs)).flatMap groupMarkers = groupMarkers (rGroup sp q g) ++
        (rGroups sp (q + (g.rt sp).length + 1) (g' :: gs)).flatMap groupMarkers := by
      simp [rGroups]
    rw [e, rdoc_length]
    have hh : q + (g.rt sp).length + 1 + (g'.rt sp ++ rgps sp gs).length + 1 =
        q + ((g.rt sp).length + 1 + (g'.rt sp ++ rgps sp gs).length) + 1 := by omega
    rw [← hh]
    exact Within.append h1 ih (Nat.le_refl _) (by omega) (by omega)

theorem secMk_cons (G : TRGroup) (Gs : List TRGroup) : secMk (secsOf (G :: Gs)) = imk G.items ++ secMk (secsOf Gs) := by
  simp [secMk, secsOf, imk, List.flatMap_append, List.flatMap_map]

/-- the last marker is the end of the last section reference = the end of the text -/
theorem rGroups_last (sp : Str) : ∀ (gs : List Gp) (g : Gp) (q : Nat),
    ∃ s init, secMk (secsOf (rGroups sp q (g :: gs))) = s ++ [(q + (g.rt sp ++ rgps sp gs).length, Marker.secEnd)] ∧
      (rGroups sp q (g :: gs)).flatMap groupMarkers = init ++ [(q + (g.rt sp ++ rgps sp gs).length, Marker.secEnd)]
  | [], g, q => by
    obtain ⟨s, hs⟩ := rItems1_last g.ls g.l (q + g.h.text.length + sp.length)
    have hlen : q + g.h.text.length + sp.length + (g.l.rt ++ rlns g.ls).length = q + (g.rt sp ++ rgps sp []).length := by
      simp only [rgps, List.append_nil, g.rt_length]; omega
    rw [hlen] at hs
    refine ⟨s, (q, Marker.trStart) :: (q + g.h.text.length, Marker.trEnd) :: s, ?_, ?_⟩
    · rw [show rGroups sp q [g] = [rGroup sp q g] from rfl, secMk_cons]
      simp [secMk, secsOf, rGroup, hs]
    · simp [rGroups, rGroup_markers, hs]
  | g' :: gs, g, q => by
    obtain ⟨s, init, h1, h2⟩ := rGroups_last sp gs g' (q + (g.rt sp).length + 1)
    have hlen : q + (g.rt sp).length + 1 + (g'.rt sp ++ rgps sp gs).length = q + (g.rt sp ++ rgps sp (g' :: gs)).length := by
      rw [rdoc_length]; omega
    rw [hlen] at h1 h2
    refine ⟨imk (rGroup sp q g).items ++ s, groupMarkers (rGroup sp q g) ++ init, ?_, ?_⟩
    · rw [show rGroups sp q (g :: g' :: gs) = rGroup sp q g :: rGroups sp (q + (g.rt sp).length + 1) (g' :: gs) from rfl,
        secMk_cons, h1, List.append_assoc]
    · rw [show rGroups sp q (g :: g' :: gs) = rGroup sp q g :: rGroups sp (q + (g.rt sp).length + 1) (g' :: gs) from rfl,
        List.flatMap_cons, h2, List.append_assoc]

/-- **the markers of the canonical text** -/
theorem markersOK_rText (sp : Str) (hsp : SepOk sp) (g : Gp) (gs : List Gp) : MarkersOK sp g gs := by
  unfold MarkersOK
  obtain ⟨s, init, h1, h2⟩ := rGroups_last sp gs g 0
  rw [Nat.zero_add] at h1 h2
  have hw := rGroups_within sp hsp gs g 0
  have hmk : Lay.trDescS.markers (rGroups sp 0 (g :: gs)) (rText sp g gs).length =
      (rGroups sp 0 (g :: gs)).flatMap groupMarkers := by
    have hfirstT : firstT (rGroups sp 0 (g :: gs)) = 0 := by simp [rGroups, firstT, rGroup]
    simp only [Lay.markers, Lay.core, hfirstT, pre0, if_true, List.nil_append, withEnd]
    rw [if_pos]
    rw [h2]; simp [lastPos, rText]
  rw [hmk]
  refine populateMarkers_R _ _ _ _ hw.1 (markers_perm _) (trMk (trsOf (rGroups sp 0 (g :: gs)))).tail s [] ?_ ?_
  · simp [rGroups, rGroup, trsOf, trMk]
  · rw [h1]; rfl

/-! ## Part 4c — the layout is deduced -/

theorem rbody_last : ∀ (ls : List Ln) (l : Ln), ∃ X, l.rt ++ rlns ls = X ++ [':']
  | [], l => ⟨l.d ++ [',', ' ', 'S', 'e', 'c', ' ', l.n1, l.n2], by simp [Ln.rt, Ln.ref, rlns]⟩
  | z :: zs, l => by
    obtain ⟨X, h⟩ := rbody_last zs z
    exact ⟨l.rt ++ '\n' :: X, by simp [rlns, h]⟩

theorem rText_last (sp : Str) : ∀ (gs : List Gp) (g : Gp), ∃ X, g.rt sp ++ rgps sp gs = X ++ [':']
  | [], g => by
    obtain ⟨X, h⟩ := rbody_last g.ls g.l
    exact ⟨g.h.text ++ sp ++ X, by simp [Gp.rt, Gp.rbody, rgps, h]⟩
  | g' :: gs, g => by
    obtain ⟨X, h⟩ := rText_last sp gs g'
    exact ⟨g.rt sp ++ '\n' :: X, by simp [rgps, h]⟩

theorem pyStrip_rText (sp : Str) (g : Gp) (gs : List Gp) : pyStrip (rText sp g gs) = rText sp g gs := by
  obtain ⟨X, hX⟩ := rText_last sp gs g
  have hhead : rText sp g gs = 'T' :: ((g.h.t ++ g.h.ns :: '-' :: 'R' :: (g.h.r ++ [g.h.ew])) ++ (g.rbody sp ++ rgps sp gs)) := by
    simp [rText, Gp.rt, Hd.text, canonText]
  have hlast : (rText sp g gs).getLast? = some ':' := by
    rw [rText, hX]; exact List.getLast?_concat
  unfold pyStrip stripBy
  have h1 : lstripBy pyIsSpace (rText sp g gs) = rText sp g gs := by
    rw [hhead]; exact Pretty.lstripBy_head_false _ _ _ Pretty.pyIsSpace_T
  rw [h1]
  exact Pretty.rstripBy_getLast_false _ _ ':' hlast (by decide)

theorem nonum_skips_safe (seg tail : Str) (h : ∀ c ∈ seg, Danger.mem c = false) : Skips Gen.no_num_sec_regex seg tail := by
  refine Skips.of_first (by decide +kernel) _ _ ?_
  intro c hc cs hcs
  have : Gen.no_num_sec_regex.firstSets.all (fun cs => cs.sub Danger) = true := by decide +kernel
  simp only [List.all_eq_true] at this
  exact noHit_of_notMem (h c hc) cs (this cs hcs)

/-- the first section word of the canonical text stands behind the first header, its separator and the first block -/
theorem nonum_search_rText (sp : Str) (hsp : SepOk sp) (g : Gp) (hok : g.Ok) (rest : Str) :
    ∃ sm, Gen.no_num_sec_regex.search (g.rt sp ++ rest) = some sm ∧ sm.start = g.h.text.length + sp.length + g.l.d.length + 2 := by
  have hl := hok.ls g.l (by simp [Gp.lines])
  have hsk1 : Skips Gen.no_num_sec_regex (g.h.text ++ sp) ((g.l.d ++ [',', ' ']) ++ (g.l.ref ++ (rlns g.ls ++ rest))) :=
    skips_header nonum_skips_plain (fun r => FailsOn.congr nonum_decomp (FailsOn.grp 1 (failsOn_secA_S r))) g.h hok.h sp hsp.chars _
  have hsk2 : Skips Gen.no_num_sec_regex (g.l.d ++ [',', ' ']) (g.l.ref ++ (rlns g.ls ++ rest)) :=
    nonum_skips_safe _ _ (by
      intro c hc
      rcases List.mem_append.1 hc with hc | hc
      · exact hl.d.safe c hc
      · simp only [List.mem_cons, List.not_mem_nil, or_false] at hc
        rcases hc with rfl | rfl <;> decide +kernel)
  have hsk := Skips.append hsk1 hsk2
  have htxt : g.rt sp ++ rest = ((g.h.text ++ sp) ++ (g.l.d ++ [',', ' '])) ++ (g.l.ref ++ (rlns g.ls ++ rest)) := by
    simp [Gp.rt, Gp.rbody, Ln.rt]
  rw [search_default, htxt, scan_skipSeg hsk none 0]
  have hL := (eats_secWord 1 (g.l.n1 :: g.l.n2 :: ':' :: (rlns g.ls ++ rest))) (lastOr none ((g.h.text ++ sp) ++ (g.l.d ++ [',', ' '])))
    (0 + ((g.h.text ++ sp) ++ (g.l.d ++ [',', ' '])).length) []
  rw [← nonum_decomp] at hL
  have hm := matchHere_of_leads false hL (Or.inl rfl)
  have e : g.l.ref ++ (rlns g.ls ++ rest) = 'S' :: (['e', 'c'] ++ ' ' :: (g.l.n1 :: g.l.n2 :: ':' :: (rlns g.ls ++ rest))) := by
    simp [Ln.ref]
  rw [e, LT.scan_cons]
  have e2 : (['S', 'e', 'c'] ++ ' ' :: (g.l.n1 :: g.l.n2 :: ':' :: (rlns g.ls ++ rest))) =
      'S' :: (['e', 'c'] ++ ' ' :: (g.l.n1 :: g.l.n2 :: ':' :: (rlns g.ls ++ rest))) := rfl
  rw [e2] at hm
  rw [hm]
  exact ⟨_, rfl, by simp; omega⟩

theorem pyStrip_block (sp : Str) (hsp : SepOk sp) (d : Str) (hd : Inert d) : pyStrip (sp ++ d ++ [',', ' ']) = d ++ [','] := by
  obtain ⟨d0, d', e, h1, h2⟩ := hd.head_cons
  have hne : d0 ≠ ' ' := by rintro rfl; rw [headDanger_blank] at h2; cases h2
  have hd0 : pyIsSpace d0 = false := notSpace_of_safe h1 hne
  have hall : ∀ c ∈ sp, pyIsSpace c = true := by
    intro c hc
    rcases hsp.chars c hc with rfl | rfl
    · exact pyIsSpace_blank
    · exact pyIsSpace_nl'
  have := Pretty.stripBy_around pyIsSpace sp (d ++ [',']) [' '] hall (by intro c hc; simp at hc; subst hc; exact pyIsSpace_blank)
    (by rw [e]; exact Pretty.lstripBy_head_false _ _ _ hd0)
    (Pretty.rstripBy_getLast_false _ _ ',' List.getLast?_concat (by decide))
  unfold pyStrip
  rw [← this]; simp

/-- **the layout of the canonical text is deduced** (first block of at least 3 characters): the Twp/Rge comes first, and at
    least 4 characters stand between it and the first section word -/
theorem deduceLayout_rText (sp : Str) (hsp : SepOk sp) (g : Gp) (gs : List Gp) (hok : g.Ok) (hgs : ∀ x ∈ gs, x.Ok)
    (h3 : 3 ≤ g.l.d.length) : deduceLayout (rText sp g gs) = TR_DESC_S := by
  have hl := hok.ls g.l (by simp [Gp.lines])
  obtain ⟨sm, hsm, hstart⟩ := nonum_search_rText sp hsp g hok (rgps sp gs)
  have htr : twprge.rx.search (rText sp g gs) = some (twMk g.h 0) :=
    (twprge_tiles_rText sp hsp g gs hok hgs).search_eq.trans rfl
  have hstop : (twMk g.h 0).stop = g.h.text.length := by simp [twMk, Spelling.matchAt, g.h.sp_text]
  have hslice : slice (rText sp g gs) g.h.text.length (g.h.text.length + sp.length + g.l.d.length + 2) = sp ++ g.l.d ++ [',', ' '] := by
    refine slice_at _ g.h.text _ (g.l.ref ++ (rlns g.ls ++ rgps sp gs)) _ _ ?_ rfl (by simp; omega)
    simp [rText, Gp.rt, Gp.rbody, Ln.rt]
  have h0 : (twMk g.h 0).start = 0 := rfl
  unfold deduceLayout
  rw [pyStrip_rText sp g gs]
  simp only []
  rw [show g.rt sp ++ rgps sp gs = rText sp g gs from rfl] at hsm
  rw [hsm, htr]
  simp only [hstart, hstop, hslice, pyStrip_block sp hsp g.l.d hl.d, h0]
  have hc : ([TRS_DESC, DESC_STR, S_DESC_TR, TR_DESC_S] : List Str).contains TR_DESC_S = true := by decide
  have hlen : (g.l.d ++ [',']).length ≥ 4 := by simp; omega
  simp [hc, hlen]
  intro h; omega

/-- **C01 (layout Twp/Rge–desc–Sec, chunk level, no lexical premise)**: `parse_chunk` on the canonical text — per group the
    Twp/Rge, a separator of blanks / line breaks, then lines `<inert block>, Sec nn:`; first block of at least 3 characters —
    deduces (or accepts) the layout TR_desc_S, raises neither an error nor a warning flag, and (without `sec_within`) stages
    exactly one component per line, in reading order, with the Twp/Rge of its group, its section and its block verbatim -/
theorem C01_chunk_canonical_TR_desc_S (mc : MC) (pc : ParserCfg) (hns : isLegal Gen.LEGAL_NS mc.ns = true)
    (hew : isLegal Gen.LEGAL_EW mc.ew = true) (sp : Str) (hsp : SepOk sp) (g : Gp) (gs : List Gp) (hok : g.Ok)
    (hgs : ∀ x ∈ gs, x.Ok) (h3 : 3 ≤ g.l.d.length) (parentLayout : Str)
    (hml : pc.mandateLayout = true → parentLayout = TR_DESC_S) :
    ∃ c, parseChunkCore mc pc (rText sp g gs) false parentLayout = .ok c ∧ c.fl.e = [] ∧ c.fl.w = [] ∧
      (pc.secWithin = false → c.comps = docComps (g :: gs)) := by
  have hlay : chunkLayoutOf pc (rText sp g gs) false parentLayout = TR_DESC_S := by
    unfold chunkLayoutOf
    simp only [Bool.false_eq_true, if_false]
    split
    · rename_i h; exact hml h
    · exact deduceLayout_rText sp hsp g gs hok hgs h3
  exact C01_chunk_canonical_TR_desc_S_partial mc pc hns hew sp hsp g gs hok hgs parentLayout hlay (markersOK_rText sp hsp g gs)

/-- the full chunk-level statement recorded in Part 4 is proved -/
theorem C01_chunk_canonical_TR_desc_S_full : C01_chunk_canonical_TR_desc_S_statement :=
  fun mc pc hns hew sp hsp g gs hok hgs h3 parentLayout hml =>
    C01_chunk_canonical_TR_desc_S mc pc hns hew sp hsp g gs hok hgs h3 parentLayout hml

/-- **C01 (layout Twp/Rge–desc–Sec): the lexical premise `Reports` of `Lemmas/Segment.lean` holds for the canonical text**, no premise -/
theorem C01_reports_canonical_TR_desc_S (mc : MC) (hns : isLegal Gen.LEGAL_NS mc.ns = true) (hew : isLegal Gen.LEGAL_EW mc.ew = true)
    (sp : Str) (hsp : SepOk sp) (g : Gp) (gs : List Gp) (hok : g.Ok) (hgs : ∀ x ∈ gs, x.Ok) (rc : ReqColon) :
    Reports mc rc (rText sp g gs) .trDescS (rGroups sp 0 (g :: gs)) :=
  C01_reports_TR_desc_S mc hns hew sp hsp g gs hok hgs rc (markersOK_rText sp hsp g gs)

/-! ## Part 6 — preprocessing of the canonical text

Every scrubber rewrites a Twp/Rge into its canonical text and a blank; `pp_twprge_comma_remove` swallows the separator.  The
text ends in `Sec nn:`, so nothing is stripped at the end. -/

/-- a pattern that must hit a digit and has no path from `e` to `c` -/
theorem RGap.ofDigit {r : Rx} (hmD : r.mustHitP (fun cs => cs.sub digitD) = true) (hec : r.adjB 'e' 'c' = false) : RGap r where
  blk := by
    intro ws l rest hws hl
    have hnd : ∀ c, c = ' ' ∨ c = '\n' ∨ c = 'S' ∨ c = 'e' ∨ c = ',' → ∀ cs : CharSet, cs.sub digitD = true → cs.mem c = false := by
      intro c hc
      rcases hc with rfl | rfl | rfl | rfl | rfl <;> exact noHit_of_notMem (by decide +kernel)
    have e : l.ref ++ rest = ['S'] ++ 'e' :: 'c' :: (' ' :: l.n1 :: l.n2 :: ':' :: rest) := by simp [Ln.ref]
    rw [e]
    refine Skips.of_break hmD _ ['S'] 'e' 'c' _ ?_ ?_ hec
    · intro c hc
      rcases List.mem_append.1 hc with hc | hc
      · rcases hws c hc with rfl | rfl
        · exact hnd _ (Or.inl rfl)
        · exact hnd _ (Or.inr (Or.inl rfl))
      · rcases List.mem_append.1 hc with hc | hc
        · exact noHit_of_notMem (danger_not_digit (hl.d.safe c hc))
        · simp only [List.mem_cons, List.not_mem_nil, or_false] at hc
          rcases hc with rfl | rfl
          · exact hnd _ (Or.inr (Or.inr (Or.inr (Or.inr rfl))))
          · exact hnd _ (Or.inl rfl)
    · intro c hc
      simp only [List.cons_append, List.nil_append, List.mem_cons, List.not_mem_nil, or_false] at hc
      rcases hc with rfl | rfl
      · exact hnd _ (Or.inr (Or.inr (Or.inl rfl)))
      · exact hnd _ (Or.inr (Or.inr (Or.inr (Or.inl rfl))))

theorem nswe_rGap : RGap Gen.pp_twprge_no_nswe := RGap.ofFirst (by decide +kernel) (by decide +kernel)
theorem nsr_rGap : RGap Gen.pp_twprge_no_nsr := RGap.ofFirst (by decide +kernel) (by decide +kernel)
theorem ewt_rGap : RGap Gen.pp_twprge_no_ewt := RGap.ofDigit (by decide +kernel) (by decide +kernel)
theorem comma_rGap : RGap Gen.pp_twprge_comma_remove where
  blk := fun ws l rest hws hl => skips_comma (twprge_rGap.blk ws l rest hws hl)

/-- **one scrubbing pass along the headers** of the Twp/Rge–desc–Sec text: every header (with the part `e` of its separator
    `e ++ w` that the pattern swallows) is replaced by its canonical text and a blank, everything else is kept -/
theorem rewrite_rhdr (p : Pat) (ns ew e w : Str) (mk : Hd → Nat → Match) (text : Str)
    (hstart : ∀ h pos, (mk h pos).start = pos)
    (hstop : ∀ h pos, (mk h pos).stop = pos + h.text.length + e.length)
    (hcan : ∀ (g : Gp) (pre post : Str), g.Ok → g.h.Canon → text = pre ++ (g.rt (e ++ w) ++ post) →
      canonTR p (mk g.h pre.length) text ns ew false = g.h.text) :
    ∀ (gs : List Gp) (g : Gp) (pre mid : Str), g.Ok → g.h.Canon → (∀ x ∈ gs, x.Ok ∧ x.h.Canon) →
      text = pre ++ mid ++ (g.rt (e ++ w) ++ rgps (e ++ w) gs) →
      rewrite p text ns ew false (rhdrMs mk (e ++ w) (pre ++ mid).length (g :: gs)) pre.length =
        mid ++ (g.rt (' ' :: w) ++ rgps (' ' :: w) gs)
  | [], g, pre, mid, hok, hc, _, htext => by
    have hm := hcan g (pre ++ mid) [] hok hc (by rw [htext]; simp [rgps])
    have hsl : slice text pre.length (pre ++ mid).length = mid :=
      slice_at text pre mid (g.rt (e ++ w) ++ rgps (e ++ w) []) _ _ (by rw [htext]; simp) rfl (by simp)
    have hd : text.drop ((pre ++ mid).length + g.h.text.length + e.length) = w ++ (g.l.rt ++ rlns g.ls) := by
      have : text = (pre ++ mid ++ g.h.text ++ e) ++ (w ++ (g.l.rt ++ rlns g.ls)) := by rw [htext]; simp [Gp.rt, Gp.rbody, rgps]
      rw [this]
      have hl : (pre ++ mid).length + g.h.text.length + e.length = (pre ++ mid ++ g.h.text ++ e).length := by simp; omega
      rw [hl, List.drop_left]
    simp only [rhdrMs, rewrite, hstart, hstop, hm, hsl, hd, rgps]
    simp [Gp.rt, Gp.rbody]
  | g' :: gs, g, pre, mid, hok, hc, hgs, htext => by
    have hm := hcan g (pre ++ mid) (rgps (e ++ w) (g' :: gs)) hok hc (by rw [htext])
    have hsl : slice text pre.length (pre ++ mid).length = mid :=
      slice_at text pre mid (g.rt (e ++ w) ++ rgps (e ++ w) (g' :: gs)) _ _ (by rw [htext]; simp) rfl (by simp)
    have hg' := hgs g' (by simp)
    have hgs' : ∀ x ∈ gs, x.Ok ∧ x.h.Canon := fun x hx => hgs x (by simp [hx])
    rw [show rhdrMs mk (e ++ w) (pre ++ mid).length (g :: g' :: gs) =
      mk g.h (pre ++ mid).length :: rhdrMs mk (e ++ w) ((pre ++ mid).length + (g.rt (e ++ w)).length + 1) (g' :: gs) from rfl]
    simp only [rewrite, hstart, hstop, hm, hsl]
    have ih := rewrite_rhdr p ns ew e w mk text hstart hstop hcan gs g' (pre ++ mid ++ g.h.text ++ e) (w ++ (g.l.rt ++ rlns g.ls) ++ ['\n'])
      hg'.1 hg'.2 hgs' (by rw [htext]; simp [Gp.rt, Gp.rbody, rgps])
    have hl1 : (pre ++ mid ++ g.h.text ++ e ++ (w ++ (g.l.rt ++ rlns g.ls) ++ ['\n'])).length = (pre ++ mid).length + (g.rt (e ++ w)).length + 1 := by
      simp [Gp.rt, Gp.rbody]; omega
    have hl2 : (pre ++ mid ++ g.h.text ++ e).length = (pre ++ mid).length + g.h.text.length + e.length := by simp; omega
    rw [hl1, hl2] at ih
    rw [ih]
    simp [Gp.rt, Gp.rbody, rgps]

/-- one pass of a scrubber whose matches are the headers (with the part `e` of the separator) -/
theorem scrub_rText (name : String) (p : Pat) (hp : findPat name = p) (hocr : (name == Gen.PLSS_OCR_SCRUBBER) = false)
    (hg : GapSkips p.rx) (hr : RGap p.rx) (e w : Str) (hw : WsOk w) (mk : Hd → Nat → Match)
    (hstart : ∀ h pos, (mk h pos).start = pos)
    (hstop : ∀ h pos, (mk h pos).stop = pos + h.text.length + e.length)
    (htok : ∀ (h : Hd) (l : Ln) (rest : Str) (prev : Option Char) (pos : Nat), h.Ok → l.Ok →
       isWord Gen.cs_14d6aa8a prev = false →
       matchHere p.rx ⟨prev, (h.text ++ e) ++ (w ++ (l.d ++ rest)), pos, []⟩ false = some (mk h pos))
    (ns ew : Str) (h1 : isLegal Gen.LEGAL_NS ns = true) (h2 : isLegal Gen.LEGAL_EW ew = true)
    (hcan : ∀ (text : Str) (g : Gp) (pre post : Str), g.Ok → g.h.Canon → text = pre ++ (g.rt (e ++ w) ++ post) →
      canonTR p (mk g.h pre.length) text ns ew false = g.h.text)
    (g : Gp) (gs : List Gp) (hok : g.Ok) (hc : g.h.Canon) (hgs : ∀ x ∈ gs, x.Ok ∧ x.h.Canon) :
    subScrubber name (rText (e ++ w) g gs) ns ew = .ok (rText (' ' :: w) g gs) := by
  have hgs' : ∀ x ∈ gs, x.Ok := fun x hx => (hgs x hx).1
  have hfi : p.rx.finditer (rText (e ++ w) g gs) = rhdrMs mk (e ++ w) 0 (g :: gs) :=
    (rTiles p.rx hg hr e w hw mk
      (fun h l rest prev pos hh hl hprev => ⟨htok h l rest prev pos hh hl hprev, hstart h pos, by rw [hstop]; simp; omega⟩)
      gs g 0 none hok hgs' isWord_none).finditer_eq
  rw [C08_subScrubber_rewrites name _ ns ew h1 h2, hp, hocr, hfi]
  have := rewrite_rhdr p ns ew e w mk (rText (e ++ w) g gs) hstart hstop (hcan _) gs g [] [] hok hc hgs (by simp [rText])
  simp only [List.append_nil, List.length_nil, List.nil_append] at this
  rw [this]; rfl

theorem endsTwprge_rbody (sp : Str) (hsp : SepOk sp) (g : Gp) (post : Str) : EndsTwprge (g.rbody sp ++ post) := by
  simp only [Gp.rbody, List.append_assoc]; exact endsTwprge_sep sp _ hsp

theorem twprge_hcanR (sp : Str) (hsp : SepOk sp) (ns ew : Str) (text : Str) (g : Gp) (pre post : Str) (hok : g.Ok) (hc : g.h.Canon)
    (htext : text = pre ++ (g.rt sp ++ post)) : canonTR twprge (twMk g.h pre.length) text ns ew false = g.h.text := by
  have hv := g.h.valid hok.h (g.rbody sp ++ post) (endsTwprge_rbody sp hsp g post)
  have htext' : text = pre ++ (g.h.sp.text ++ (g.rbody sp ++ post)) := by rw [htext, g.h.sp_text]; simp [Gp.rt]
  rw [htext']
  exact (g.h.sp.canonTR_at pre _ hv ns ew).trans (g.h.canon_text hok.h hc)

/-- scrubber 1 (`twprge_regex`): a blank is inserted behind every header -/
theorem scrub1_rText (sp : Str) (hsp : SepOk sp) (ns ew : Str) (h1 : isLegal Gen.LEGAL_NS ns = true) (h2 : isLegal Gen.LEGAL_EW ew = true)
    (g : Gp) (gs : List Gp) (hok : g.Ok) (hc : g.h.Canon) (hgs : ∀ x ∈ gs, x.Ok ∧ x.h.Canon) :
    subScrubber "twprge_regex" (rText sp g gs) ns ew = .ok (rText (' ' :: sp) g gs) := by
  have := scrub_rText "twprge_regex" twprge rfl (by decide) twprge_gapSkips twprge_rGap [] sp hsp.ws twMk (fun _ _ => rfl)
    (fun h pos => by simp [twMk, Spelling.matchAt, h.sp_text])
    (fun h l rest prev pos hh hl hprev => (twprge_tokR sp hsp h l rest prev pos hh hprev).1) ns ew h1 h2
    (fun text g' pre post hok' hc' htext => twprge_hcanR sp hsp ns ew text g' pre post hok' hc' (by simpa using htext))
    g gs hok hc hgs
  simpa using this

/-- the common part of scrubbers 2–4 -/
theorem scrubPP_rText (name : String) (p : Pat) (hp : findPat name = p) (hocr : (name == Gen.PLSS_OCR_SCRUBBER) = false)
    (hg : GapSkips p.rx) (hr : RGap p.rx)
    (hidx : p.idx? "twpnum" = some 3 ∧ p.idx? "ns" = some 4 ∧ p.idx? "rgenum" = some 6 ∧ p.idx? "ew" = some 7)
    (caps : Str → Str → Nat → Caps) (hcaps : ∀ t r pos stop, CanonAt ⟨pos, stop, caps t r pos⟩ pos t r)
    (hat : ∀ (t r : Str) (nc ec : Char) (ctx : Str), CanonHyp t r nc ec ctx → ∀ (prev : Option Char) (pos : Nat),
      isWord Gen.cs_14d6aa8a prev = false →
      matchHere p.rx ⟨prev, canonText t nc r ec ++ ctx, pos, []⟩ false = some ⟨pos, pos + (5 + t.length + r.length), caps t r pos⟩)
    (sp : Str) (hsp : SepOk sp) (ns ew : Str) (h1 : isLegal Gen.LEGAL_NS ns = true) (h2 : isLegal Gen.LEGAL_EW ew = true)
    (g : Gp) (gs : List Gp) (hok : g.Ok) (hc : g.h.Canon) (hgs : ∀ x ∈ gs, x.Ok ∧ x.h.Canon) :
    subScrubber name (rText sp g gs) ns ew = .ok (rText (' ' :: sp) g gs) := by
  have := scrub_rText name p hp hocr hg hr [] sp hsp.ws
    (fun h pos => ⟨pos, pos + (5 + h.t.length + h.r.length), caps h.t h.r pos⟩) (fun _ _ => rfl)
    (fun h pos => by simp [h.text_length])
    (fun h l rest prev pos hh hl hprev => by
      have := hat h.t h.r h.ns h.ew _ (h.canonHyp hh (sp ++ (l.d ++ rest)) (endsTwprge_sep sp _ hsp)) prev pos hprev
      simpa [Hd.text] using this)
    ns ew h1 h2
    (fun text g' pre post hok' hc' htext => by
      have htext' : text = pre ++ (canonText g'.h.t g'.h.ns g'.h.r g'.h.ew ++ (g'.rbody sp ++ post)) := by
        rw [htext]; simp [Gp.rt, Hd.text]
      rw [htext']
      exact (canonTR_of_canonAt p hidx _ g'.h.t g'.h.r g'.h.ns g'.h.ew pre _ (hcaps _ _ _ _) hok'.h.ns hok'.h.ew ns ew).trans
        (g'.h.canon_canonText hc'))
    g gs hok hc hgs
  simpa using this

/-- the characters of the text -/
theorem docCh_rline (l : Ln) (hl : l.Ok) : ∀ c ∈ l.rt, DocCh c := by
  intro c hc
  have : c = ',' ∨ c ∈ l.text := by
    simp only [Ln.rt, Ln.text, List.mem_append, List.mem_cons] at hc ⊢
    rcases hc with h | h | h | h
    · exact Or.inr (Or.inr (Or.inr h))
    · exact Or.inl h
    · exact Or.inr (Or.inr (Or.inl h))
    · exact Or.inr (Or.inl h)
  rcases this with rfl | h
  · exact Or.inr (Or.inr (Or.inr (Or.inr (Or.inr (by decide +kernel)))))
  · exact docCh_line l hl c h

theorem docCh_rlns : ∀ (ls : List Ln), (∀ l ∈ ls, l.Ok) → ∀ c ∈ rlns ls, DocCh c
  | [], _, c, hc => by cases hc
  | l :: ls, hls, c, hc => by
    simp only [rlns, List.mem_cons, List.mem_append] at hc
    rcases hc with rfl | hc | hc
    · exact Or.inl (by decide)
    · exact docCh_rline l (hls l (by simp)) c hc
    · exact docCh_rlns ls (fun x hx => hls x (by simp [hx])) c hc

theorem docCh_rgroup (sp : Str) (hsp : SepOk sp) (g : Gp) (hok : g.Ok) : ∀ c ∈ g.rt sp, DocCh c := by
  intro c hc
  simp only [Gp.rt, Gp.rbody, List.mem_append] at hc
  rcases hc with hc | hc | hc | hc
  · exact docCh_hdr g.h hok.h c hc
  · rcases hsp.chars c hc with rfl | rfl <;> exact Or.inl (by decide)
  · exact docCh_rline g.l (hok.ls g.l (by simp [Gp.lines])) c hc
  · exact docCh_rlns g.ls (fun x hx => hok.ls x (by simp [Gp.lines, hx])) c hc

theorem docCh_rgps (sp : Str) (hsp : SepOk sp) : ∀ (gs : List Gp), (∀ g ∈ gs, g.Ok) → ∀ c ∈ rgps sp gs, DocCh c
  | [], _, c, hc => by cases hc
  | g :: gs, hgs, c, hc => by
    simp only [rgps, List.mem_cons, List.mem_append] at hc
    rcases hc with rfl | hc | hc
    · exact Or.inl (by decide)
    · exact docCh_rgroup sp hsp g (hgs g (by simp)) c hc
    · exact docCh_rgps sp hsp gs (fun x hx => hgs x (by simp [hx])) c hc

theorem docCh_rText (sp : Str) (hsp : SepOk sp) (g : Gp) (gs : List Gp) (hok : g.Ok) (hgs : ∀ x ∈ gs, x.Ok) :
    ∀ c ∈ rText sp g gs, DocCh c := by
  intro c hc
  rw [rText, List.mem_append] at hc
  rcases hc with hc | hc
  · exact docCh_rgroup sp hsp g hok c hc
  · exact docCh_rgps sp hsp gs hgs c hc

/-- scrubber 5 (`pp_twprge_pm`) finds nothing -/
theorem scrub5_rText (sp : Str) (hsp : SepOk sp) (ns ew : Str) (h1 : isLegal Gen.LEGAL_NS ns = true) (h2 : isLegal Gen.LEGAL_EW ew = true)
    (g : Gp) (gs : List Gp) (hok : g.Ok) (hgs : ∀ x ∈ gs, x.Ok) :
    subScrubber "pp_twprge_pm" (rText sp g gs) ns ew = .ok (rText sp g gs) := by
  have hm : Gen.pp_twprge_pm.mustHitP (fun cs => cs.sub pD) = true := by decide +kernel
  refine scrub_none "pp_twprge_pm" ppPmPat rfl _ ns ew h1 h2 (finditer_nil_of_noHit hm _ ?_)
  intro c hc
  exact docCh_avoid pD (by decide) (by decide +kernel) (by decide) (docCh_rText sp hsp g gs hok hgs c hc)

theorem comma_tokR (sp : Str) (hsp : SepOk sp) (h : Hd) (d0 : Char) (rest : Str) (hd0 : Gen.cs_0c338893.mem d0 = false)
    (prev : Option Char) (pos : Nat) (hok : h.Ok) (hprev : isWord Gen.cs_14d6aa8a prev = false) :
    matchHere Gen.pp_twprge_comma_remove ⟨prev, h.text ++ (sp ++ (d0 :: rest)), pos, []⟩ false = some (commaMk sp h pos) := by
  have hv := h.valid hok (sp ++ (d0 :: rest)) (endsTwprge_sep sp _ hsp)
  obtain ⟨c, t, htext, hc⟩ := hv.text_head
  obtain ⟨f, hf, hcaps⟩ := eats_twBody h.sp (sp ++ (d0 :: rest)) hv
  have h1 := leads_twG1 prev c t pos [] hprev hc
  rw [← htext] at h1
  have h2 := hf prev pos [(1, pos, pos)]
  have h12 : Leads Gen.twprge_regex _ _ := Leads.congr_rx twprge_decomp (Leads.seq h1 h2)
  have hws : ∀ c ∈ sp, Gen.cs_0c338893.mem c = true := by
    intro c hc
    rcases hsp.chars c hc with rfl | rfl <;> decide
  have hstop : StopAt Gen.cs_0c338893 (d0 :: rest) := StopAt.cons hd0
  have h15 := Eats.grp 15 (eats_dead Gen.cs_0c338893 sp (d0 :: rest) hws hstop) (lastOr prev h.sp.text) (pos + h.sp.text.length)
    (f pos [(1, pos, pos)])
  have hL := Leads.congr_rx comma_decomp (Leads.snoc (Leads.seq h12 h15))
  rw [h.sp_text] at hL
  rw [matchHere_of_leads false hL (Or.inl rfl), hcaps]
  simp [commaMk, h.sp_text]

theorem inert_head_notWs {d : Str} (hd : Inert d) : ∃ d0 d', d = d0 :: d' ∧ Gen.cs_0c338893.mem d0 = false := by
  obtain ⟨d0, d', e, h1, h2⟩ := hd.head_cons
  refine ⟨d0, d', e, ?_⟩
  have hsub : Gen.cs_0c338893.sub ((Gen.PY_SPACE : CharSet) ++ (Danger ++ HeadDanger)) = true := by decide +kernel
  exact noHit_of_notMem (head_out h1 h2) _ hsub

/-- scrubber 6 (`pp_twprge_comma_remove`): every header with ALL the white space behind it becomes the header and one blank -/
theorem scrub6_rText (sp : Str) (hsp : SepOk sp) (ns ew : Str) (h1 : isLegal Gen.LEGAL_NS ns = true) (h2 : isLegal Gen.LEGAL_EW ew = true)
    (g : Gp) (gs : List Gp) (hok : g.Ok) (hc : g.h.Canon) (hgs : ∀ x ∈ gs, x.Ok ∧ x.h.Canon) :
    subScrubber "pp_twprge_comma_remove" (rText sp g gs) ns ew = .ok (rText [' '] g gs) := by
  have := scrub_rText "pp_twprge_comma_remove" commaPat rfl (by decide) comma_gapSkips comma_rGap sp [] (fun _ h => by cases h)
    (commaMk sp) (fun _ _ => rfl) (fun h pos => by simp [commaMk])
    (fun h l rest prev pos hh hl hprev => by
      obtain ⟨d0, d', e, hd0⟩ := inert_head_notWs hl.d
      have := comma_tokR sp hsp h d0 (d' ++ rest) hd0 prev pos hh hprev
      rw [e]
      have e2 : commaPat.rx = Gen.pp_twprge_comma_remove := rfl
      rw [e2]
      simpa using this)
    ns ew h1 h2
    (fun text g' pre post hok' hc' htext => by
      have hv := g'.h.valid hok'.h (g'.rbody sp ++ post) (endsTwprge_rbody sp hsp g' post)
      have htext' : text = pre ++ (g'.h.sp.text ++ (g'.rbody sp ++ post)) := by rw [htext, g'.h.sp_text]; simp [Gp.rt]
      have := (g'.h.sp.canonTR_at pre _ hv ns ew).trans (g'.h.canon_text hok'.h hc')
      rw [← htext'] at this
      rw [← this]
      simp only [canonTR, twpPart, rgePart, dirPart, commaMk, comma_group])
    g gs hok hc hgs
  simpa using this

/-! ### white-space reduction -/

theorem Good.snoc {x : Str} (hx : Good x) (c : Char) (hc : neutral c) : Good (x ++ [c]) where
  np := noWsPair_join x c [] hx.np rfl hx.ne hx.last (fun _ h => by cases h)
  ne := by simp
  first := by
    intro a ha
    cases x with
    | nil => exact absurd rfl hx.ne
    | cons b x' => exact hx.first a (by simpa using ha)
  last := by
    intro a ha
    rw [List.getLast?_concat] at ha
    cases ha; exact hc

theorem good_rline_after (x : Str) (hx : Good x) (w : Char) (l : Ln) (hl : l.Ok) : Good (x ++ w :: l.rt) := by
  have h1 := ((hx.join (good_desc l.d hl.d) w).snoc ',' ⟨by decide, by decide⟩).join (good_ref l hl) ' '
  simpa [Ln.rt, List.append_assoc] using h1

theorem good_rlns : ∀ (ls : List Ln) (x : Str), Good x → (∀ l ∈ ls, l.Ok) → Good (x ++ rlns ls)
  | [], x, hx, _ => by simpa [rlns] using hx
  | l :: ls, x, hx, hls => by
    have h1 := good_rline_after x hx '\n' l (hls l (by simp))
    have := good_rlns ls _ h1 (fun y hy => hls y (by simp [hy]))
    simpa [rlns, List.append_assoc] using this

theorem good_rgroup (g : Gp) (hok : g.Ok) : Good (g.rt [' ']) := by
  have h1 := good_rline_after _ (good_hdr g.h hok.h) ' ' g.l (hok.ls g.l (by simp [Gp.lines]))
  have := good_rlns g.ls _ h1 (fun y hy => hok.ls y (by simp [Gp.lines, hy]))
  simpa [Gp.rt, Gp.rbody, List.append_assoc] using this

theorem good_rgps : ∀ (gs : List Gp) (x : Str), Good x → (∀ g ∈ gs, g.Ok) → Good (x ++ rgps [' '] gs)
  | [], x, hx, _ => by simpa [rgps] using hx
  | g :: gs, x, hx, hgs => by
    have h1 := hx.join (good_rgroup g (hgs g (by simp))) '\n'
    have := good_rgps gs _ h1 (fun y hy => hgs y (by simp [hy]))
    simpa [rgps, List.append_assoc] using this

theorem good_rText (g : Gp) (gs : List Gp) (hok : g.Ok) (hgs : ∀ x ∈ gs, x.Ok) : Good (rText [' '] g gs) :=
  good_rgps gs _ (good_rgroup g hok) hgs

/-- white-space reduction leaves the canonical text with one blank behind every header unchanged -/
theorem reduceWhitespace_rText (g : Gp) (gs : List Gp) (hok : g.Ok) (hgs : ∀ x ∈ gs, x.Ok) :
    reduceWhitespace (rText [' '] g gs) = some (rText [' '] g gs) := by
  have hgood := good_rText g gs hok hgs
  have hch := docCh_rText [' '] sepOk_blank g gs hok hgs
  have hhead : rText [' '] g gs = 'T' :: ((g.h.t ++ g.h.ns :: '-' :: 'R' :: (g.h.r ++ [g.h.ew])) ++ (g.rbody [' '] ++ rgps [' '] gs)) := by
    simp [rText, Gp.rt, Hd.text, canonText]
  have hstep : reduceWhitespaceStep (rText [' '] g gs) = rText [' '] g gs := by
    generalize hT : rText [' '] g gs = T at hgood hch hhead
    have e0 : Gen.inl_plss_preprocess_reduce_whitespace_0.sub (S " ") T = T := sub_blank_runs T hgood.np
    have e1 : Gen.inl_plss_preprocess_reduce_whitespace_1.sub (S " ") T = T :=
      sub_id_of_noHit (P := fun cs => cs.sub [(9, 9)]) (by decide) _ _
        (fun c hc => docCh_avoid [(9, 9)] (by decide) (by decide +kernel) (by decide) (hch c hc))
    have e2 : Gen.inl_plss_preprocess_reduce_whitespace_2.sub (S "\n") T = T :=
      sub_id_of_noHit (P := fun cs => cs.sub [(13, 13)]) (by decide) _ _
        (fun c hc => docCh_avoid [(13, 13)] (by decide) (by decide +kernel) (by decide) (hch c hc))
    have e3 : Gen.inl_plss_preprocess_reduce_whitespace_3.sub (S "\n\n") T = T := sub_nl_runs T hgood.np
    have e4 : Gen.inl_plss_preprocess_reduce_whitespace_4.sub [] T = T := by
      rw [hhead]; exact sub_bos_blank 'T' _ (by decide)
    unfold reduceWhitespaceStep
    simp only [e0, e1, e2, e3, e4]
  unfold reduceWhitespace
  simp only [pyStrip_rText [' '] g gs]
  rw [show 2 * (rText [' '] g gs).length + 8 = (2 * (rText [' '] g gs).length + 7) + 1 from rfl]
  exact Tract.untilStable_of_fixed _ _ _ hstep

/-! ### `find_twprge` and `plss_preprocess` -/

theorem map_canon_rhdr (p : Pat) (mk : Hd → Nat → Match) (sp ns ew text : Str)
    (hcan : ∀ (g : Gp) (pre post : Str), g.Ok → g.h.Canon → text = pre ++ (g.rt sp ++ post) →
      canonTR p (mk g.h pre.length) text ns ew false = g.h.text) :
    ∀ (gs : List Gp) (g : Gp) (pre : Str), g.Ok → g.h.Canon → (∀ x ∈ gs, x.Ok ∧ x.h.Canon) →
      text = pre ++ (g.rt sp ++ rgps sp gs) →
      (rhdrMs mk sp pre.length (g :: gs)).map (fun m => canonTR p m text ns ew false) = (g :: gs).map (fun x => x.h.text)
  | [], g, pre, hok, hc, _, htext => by
    simp only [rhdrMs, List.map_cons, List.map_nil, hcan g pre _ hok hc htext]
  | g' :: gs, g, pre, hok, hc, hgs, htext => by
    have ih := map_canon_rhdr p mk sp ns ew text hcan gs g' (pre ++ g.rt sp ++ ['\n']) (hgs g' (by simp)).1 (hgs g' (by simp)).2
      (fun x hx => hgs x (by simp [hx])) (by rw [htext]; simp [rgps])
    have hl : (pre ++ g.rt sp ++ ['\n']).length = pre.length + (g.rt sp).length + 1 := by simp; omega
    rw [hl] at ih
    rw [show rhdrMs mk sp pre.length (g :: g' :: gs) = mk g.h pre.length :: rhdrMs mk sp (pre.length + (g.rt sp).length + 1) (g' :: gs) from rfl]
    simp only [List.map_cons, hcan g pre _ hok hc htext]
    congr 1

/-- `find_twprge` on the canonical text: the headers, in order -/
theorem findTwprgeRaw_rText (sp : Str) (hsp : SepOk sp) (ns ew : Str) (h1 : isLegal Gen.LEGAL_NS ns = true) (h2 : isLegal Gen.LEGAL_EW ew = true)
    (g : Gp) (gs : List Gp) (hok : g.Ok) (hc : g.h.Canon) (hgs : ∀ x ∈ gs, x.Ok ∧ x.h.Canon) :
    findTwprgeRaw (rText sp g gs) ns ew = .ok ((g :: gs).map (fun x => x.h.text)) := by
  rw [C08_findTwprgeRaw_order _ ns ew h1 h2, twprge_finditer_rText sp hsp g gs hok (fun x hx => (hgs x hx).1)]
  have := map_canon_rhdr twprge twMk sp ns ew (rText sp g gs)
    (fun g' pre post hok' hc' ht => twprge_hcanR sp hsp ns ew _ g' pre post hok' hc' ht) gs g [] hok hc hgs (by simp [rText])
  simp only [List.length_nil] at this
  rw [this]

/-- **`plss_preprocess` on the canonical text of the layout Twp/Rge–desc–Sec** (whatever blanks / line breaks stand behind
    the Twp/Rges): the separator behind every Twp/Rge becomes one blank, everything else is kept; no `fixed_twprge`, no
    divergence -/
theorem plssPreprocess_rText (mc : MC) (defNS defEW : Option Str)
    (hm1 : isLegal Gen.LEGAL_NS mc.ns = true) (hm2 : isLegal Gen.LEGAL_EW mc.ew = true)
    (h1 : isLegal Gen.LEGAL_NS (resolve defNS mc.ns) = true) (h2 : isLegal Gen.LEGAL_EW (resolve defEW mc.ew) = true)
    (sp : Str) (hsp : SepOk sp) (g : Gp) (gs : List Gp) (hok : g.Ok) (hc : g.h.Canon) (hgs : ∀ x ∈ gs, x.Ok ∧ x.h.Canon) :
    plssPreprocess mc (rText sp g gs) defNS defEW false =
      .ok { text := rText [' '] g gs, fixed := [], diverged := false } := by
  have hgs' : ∀ x ∈ gs, x.Ok := fun x hx => (hgs x hx).1
  have hsp1 := sepOk_cons_blank hsp
  have hsp2 := sepOk_cons_blank hsp1
  have hsp3 := sepOk_cons_blank hsp2
  have hsp4 := sepOk_cons_blank hsp3
  have ho := findTwprgeRaw_rText sp hsp mc.ns mc.ew hm1 hm2 g gs hok hc hgs
  have hp := findTwprgeRaw_rText [' '] sepOk_blank mc.ns mc.ew hm1 hm2 g gs hok hc hgs
  have s1 := scrub1_rText sp hsp _ _ h1 h2 g gs hok hc hgs
  have s2 := scrubPP_rText "pp_twprge_no_nswe" ppNswePat rfl (by decide) nswe_gapSkips nswe_rGap (by decide) nsweCaps canonAt_nswe
    (fun t r nc ec ctx h prev pos hprev => no_nswe_at t r nc ec ctx h prev pos hprev) _ hsp1 _ _ h1 h2 g gs hok hc hgs
  have s3 := scrubPP_rText "pp_twprge_no_nsr" ppNsrPat rfl (by decide) nsr_gapSkips nsr_rGap (by decide) nsrCaps canonAt_nsr
    (fun t r nc ec ctx h prev pos hprev => no_nsr_at t r nc ec ctx h prev pos hprev) _ hsp2 _ _ h1 h2 g gs hok hc hgs
  have s4 := scrubPP_rText "pp_twprge_no_ewt" ppEwtPat rfl (by decide) ewt_gapSkips ewt_rGap (by decide) ewtCaps canonAt_ewt
    (fun t r nc ec ctx h prev pos hprev => no_ewt_at t r nc ec ctx h prev pos hprev) _ hsp3 _ _ h1 h2 g gs hok hc hgs
  have s5 := scrub5_rText _ hsp4 _ _ h1 h2 g gs hok hgs'
  have s6 := scrub6_rText _ hsp4 _ _ h1 h2 g gs hok hc hgs
  have hrw := reduceWhitespace_rText g gs hok hgs'
  have hnames : scrubberNames false = ["twprge_regex", "pp_twprge_no_nswe", "pp_twprge_no_nsr", "pp_twprge_no_ewt",
    "pp_twprge_pm", "pp_twprge_comma_remove"] := rfl
  unfold plssPreprocess
  simp only [ho, hnames, List.foldlM_cons, List.foldlM_nil, s1, s2, s3, s4, s5, s6, bind, Except.bind, pure, Except.pure, hrw, hp,
    C08_fixed_nil_of_same]

/-! ## Part 7 — the unused blocks of the walk (layout Twp/Rge–desc–Sec) -/

/-- the unused block a (marker, next marker) pair contributes in the TR_desc_S layout: the text behind a text-like marker
    that is NOT followed by a section reference -/
def unusedBlockD (txt : Str) (p : (Nat × Marker) × (Nat × Marker)) : Option Str :=
  match p.1.2 with
  | .trEnd | .secEnd | .textStart => if p.2.2 = .secStart then none else some (slice txt p.1.1 p.2.1)
  | _ => none

theorem unusedBlockD_secStart (txt : Str) (p : Nat) (n : Nat × Marker) : unusedBlockD txt ((p, .secStart), n) = none := rfl
theorem unusedBlockD_trStart (txt : Str) (p : Nat) (n : Nat × Marker) : unusedBlockD txt ((p, .trStart), n) = none := rfl

theorem stepD_unusedMap (txt : Str) (c : Chunk) (p : (Nat × Marker) × (Nat × Marker)) :
    (stepP txt TR_DESC_S c p).unused.map (·.2) = c.unused.map (·.2) ++ (unusedBlockD txt p).toList := by
  obtain ⟨⟨pos, ty⟩, ⟨q, nty⟩⟩ := p
  have htexty : ∀ ty', texty ty' → (stepP txt TR_DESC_S c ((pos, ty'), (q, nty))).unused.map (·.2) =
      c.unused.map (·.2) ++ (if nty = .secStart then none else some (slice txt pos q)).toList := by
    intro ty' hty
    by_cases hn : nty = .secStart
    · subst hn
      rw [stepD_tract txt c pos q ty' hty]; simp
    · rw [stepD_unused txt c pos ty' hty (q, nty) hn]; simp [hn]
  cases ty
  · exact htexty _ (Or.inl rfl)
  · simp [stepP_textEnd, unusedBlockD]
  · simp [stepP_secStart, getNextSec_unused, unusedBlockD]
  · exact htexty _ (Or.inr (Or.inr rfl))
  · simp [stepP_trStart, getNextTwprge_unused, unusedBlockD]
  · exact htexty _ (Or.inr (Or.inl rfl))

theorem fold_unusedD (txt : Str) : ∀ (ps : List ((Nat × Marker) × (Nat × Marker))) (c : Chunk),
    (ps.foldl (stepP txt TR_DESC_S) c).unused.map (·.2) = c.unused.map (·.2) ++ ps.filterMap (unusedBlockD txt)
  | [], c => by simp
  | p :: ps, c => by
    rw [List.foldl_cons, fold_unusedD txt ps, stepD_unusedMap, List.filterMap_cons]
    cases unusedBlockD txt p <;> simp

theorem parseMeaningful_pairs_D (c0 : Chunk) (txt : Str) (ms : List (Nat × Marker)) :
    parseMeaningful c0 txt TR_DESC_S ms = (pairs ms).foldl (stepP txt TR_DESC_S) (getNextSec c0) := by
  unfold parseMeaningful
  simp only [sDescLays_TR_DESC_S, trFirstLays_TR_DESC_S, Bool.not_true, Bool.not_false, Bool.false_eq_true, if_false, if_true]
  exact walk_eq_pairs _ _ _ _

/-- the markers of the lines of a group contribute no unused block; what follows the last one decides about the block behind it -/
theorem rItems1_unused (txt : Str) (R : List (Nat × Marker)) : ∀ (ls : List Ln) (l : Ln) (p : Nat),
    (pairs (imk (rItems1 p l ls) ++ R)).filterMap (unusedBlockD txt) =
      (pairs ((p + (l.rt ++ rlns ls).length, Marker.secEnd) :: R)).filterMap (unusedBlockD txt)
  | [], l, p => by
    have hl := l.rt_length
    have e : imk (rItems1 p l []) = [(p + l.d.length + 2, Marker.secStart), (p + l.d.length + 9, Marker.secEnd)] := by
      simp [rItems1, rItems, imk]
    have e2 : p + (l.rt ++ rlns []).length = p + l.d.length + 9 := by simp [rlns, hl]; omega
    rw [e, e2]
    simp only [List.cons_append, List.nil_append, pairs, List.filterMap_cons, List.head?_cons, Option.getD_some, unusedBlockD_secStart]
  | z :: zs, l, p => by
    have hl := l.rt_length
    have ih := rItems1_unused txt R zs z (p + l.rt.length + 1)
    have e : imk (rItems1 p l (z :: zs)) = (p + l.d.length + 2, Marker.secStart) :: (p + l.d.length + 9, Marker.secEnd) ::
        imk (rItems1 (p + l.rt.length + 1) z zs) := by
      simp [rItems1, rItems, imk]
    have hhead : (imk (rItems1 (p + l.rt.length + 1) z zs) ++ R).head? =
        some (p + l.rt.length + 1 + z.d.length + 2, Marker.secStart) := by
      simp [rItems1, imk]
    have e2 : p + (l.rt ++ rlns (z :: zs)).length = p + l.rt.length + 1 + (z.rt ++ rlns zs).length := by
      rw [rlines_length]; omega
    rw [e, e2, ← ih]
    simp only [List.cons_append, pairs, List.filterMap_cons, List.head?_cons, Option.getD_some, hhead]
    simp [unusedBlockD]

/-- **the unused blocks of the walk**: the line breaks between the groups, and an empty block at the end of the text -/
theorem rText_unused (sp : Str) (txt : Str) : ∀ (gs : List Gp) (g : Gp) (pre : Str), txt = pre ++ (g.rt sp ++ rgps sp gs) →
    (pairs ((rGroups sp pre.length (g :: gs)).flatMap groupMarkers)).filterMap (unusedBlockD txt) =
      gs.map (fun _ => ['\n']) ++ [[]]
  | [], g, pre, htxt => by
    have e : (rGroups sp pre.length [g]).flatMap groupMarkers = (pre.length, Marker.trStart) :: (pre.length + g.h.text.length, Marker.trEnd) ::
        (imk (rItems1 (pre.length + g.h.text.length + sp.length) g.l g.ls) ++ []) := by
      simp [rGroups, rGroup_markers]
    have hhead : (imk (rItems1 (pre.length + g.h.text.length + sp.length) g.l g.ls) ++ []).head? =
        some (pre.length + g.h.text.length + sp.length + g.l.d.length + 2, Marker.secStart) := by
      simp [rItems1, imk]
    have hs : ∀ n, slice txt n n = [] := by
      intro n; simp [slice, List.drop_eq_nil_iff]
    rw [e]
    simp only [pairs, List.filterMap_cons, List.head?_cons, Option.getD_some, hhead]
    rw [rItems1_unused]
    simp [pairs, unusedBlockD, hs]
  | g' :: gs, g, pre, htxt => by
    have ih := rText_unused sp txt gs g' (pre ++ g.rt sp ++ ['\n']) (by rw [htxt]; simp [rgps])
    have hlen : (pre ++ g.rt sp ++ ['\n']).length = pre.length + (g.rt sp).length + 1 := by simp; omega
    rw [hlen] at ih
    have e : (rGroups sp pre.length (g :: g' :: gs)).flatMap groupMarkers = (pre.length, Marker.trStart) ::
        (pre.length + g.h.text.length, Marker.trEnd) :: (imk (rItems1 (pre.length + g.h.text.length + sp.length) g.l g.ls) ++
          (rGroups sp (pre.length + (g.rt sp).length + 1) (g' :: gs)).flatMap groupMarkers) := by
      simp [rGroups, rGroup_markers]
    have hhead : (imk (rItems1 (pre.length + g.h.text.length + sp.length) g.l g.ls) ++
        (rGroups sp (pre.length + (g.rt sp).length + 1) (g' :: gs)).flatMap groupMarkers).head? =
        some (pre.length + g.h.text.length + sp.length + g.l.d.length + 2, Marker.secStart) := by
      simp [rItems1, imk]
    obtain ⟨T, hnext⟩ : ∃ T, ((rGroups sp (pre.length + (g.rt sp).length + 1) (g' :: gs)).flatMap groupMarkers) =
        (pre.length + (g.rt sp).length + 1, Marker.trStart) :: T := ⟨_, by simp [rGroups, rGroup_markers]; rfl⟩
    have hend : pre.length + g.h.text.length + sp.length + (g.l.rt ++ rlns g.ls).length = pre.length + (g.rt sp).length := by
      rw [g.rt_length]; omega
    have hslice : slice txt (pre.length + (g.rt sp).length) (pre.length + (g.rt sp).length + 1) = ['\n'] := by
      refine slice_at txt (pre ++ g.rt sp) ['\n'] (g'.rt sp ++ rgps sp gs) _ _ ?_ (by simp) (by simp)
      rw [htxt]; simp [rgps]
    rw [e]
    simp only [pairs, List.filterMap_cons, List.head?_cons, Option.getD_some, hhead]
    rw [rItems1_unused, hend]
    have h1 : unusedBlockD txt ((pre.length, Marker.trStart), (pre.length + g.h.text.length, Marker.trEnd)) = none := rfl
    have h2 : unusedBlockD txt ((pre.length + g.h.text.length, Marker.trEnd),
        (pre.length + g.h.text.length + sp.length + g.l.d.length + 2, Marker.secStart)) = none := by simp [unusedBlockD]
    rw [h1, h2]
    rw [hnext]
    simp only [pairs, List.filterMap_cons, List.head?_cons, Option.getD_some]
    have h3 : unusedBlockD txt ((pre.length + (g.rt sp).length, Marker.secEnd), (pre.length + (g.rt sp).length + 1, Marker.trStart)) =
        some ['\n'] := by simp [unusedBlockD, hslice]
    rw [h3]
    rw [hnext] at ih
    simp only [pairs, List.filterMap_cons, unusedBlockD_trStart] at ih ⊢
    simp only [List.map_cons, List.cons_append]
    rw [← ih]

theorem startChunk_unused (fl0 : Tract.Flags) (groups : List TRGroup) : (startChunk fl0 groups).unused = [] := rfl

/-- **C01 (layout Twp/Rge–desc–Sec, chunk level, no lexical premise), with the unused text**: as
    `C01_chunk_canonical_TR_desc_S`, and the only unused text are the line breaks between the groups (and an empty block at
    the end of the text); the length premise on the first block is needed only if the layout has to be deduced -/
theorem C01_chunk_canonical_TR_desc_S_unused (mc : MC) (pc : ParserCfg) (hns : isLegal Gen.LEGAL_NS mc.ns = true)
    (hew : isLegal Gen.LEGAL_EW mc.ew = true) (sp : Str) (hsp : SepOk sp) (g : Gp) (gs : List Gp) (hok : g.Ok)
    (hgs : ∀ x ∈ gs, x.Ok) (h3 : pc.mandateLayout = false → 3 ≤ g.l.d.length) (parentLayout : Str)
    (hml : pc.mandateLayout = true → parentLayout = TR_DESC_S) :
    ∃ c, parseChunkCore mc pc (rText sp g gs) false parentLayout = .ok c ∧ c.fl.e = [] ∧ c.fl.w = [] ∧
      (pc.secWithin = false → c.comps = docComps (g :: gs) ∧ c.unused.map (·.2) = gs.map (fun _ => ['\n']) ++ [[]]) := by
  have hlay : chunkLayoutOf pc (rText sp g gs) false parentLayout = TR_DESC_S := by
    unfold chunkLayoutOf
    simp only [Bool.false_eq_true, if_false]
    split
    · rename_i h; exact hml h
    · rename_i h; exact deduceLayout_rText sp hsp g gs hok hgs (h3 (by simpa using h))
  have hmark := markersOK_rText sp hsp g gs
  have htr := twprgeFinder_rText mc hns hew sp hsp g gs hok hgs
  have hsec := secFinder_rText sp hsp g gs hok hgs pc.requireColon
  have hne := rGroups_items_ne sp (g :: gs) 0
  have hg : rGroups sp 0 (g :: gs) ≠ [] := by simp [rGroups]
  have hcopy : (TR_DESC_S == COPY_ALL) = false := by decide
  have htrl : (rtrOut sp 0 (g :: gs)).map (·.twprge) = (rGroups sp 0 (g :: gs)).map (·.tr) := by
    rw [← trsOf_rGroups]; simp [trsOf, List.map_map, Function.comp_def]
  have hsecl : (secsOf (rGroups sp 0 (g :: gs))).map (·.secs) = allSecs (rGroups sp 0 (g :: gs)) := secsOf_secs _
  have hmark' : populateMarkers (rText sp g gs).length (secsOf (rGroups sp 0 (g :: gs))) (rtrOut sp 0 (g :: gs)) =
      Lay.trDescS.markers (rGroups sp 0 (g :: gs)) (rText sp g gs).length := by
    rw [← trsOf_rGroups]; exact hmark
  have W := C20_walk_all_layouts .trDescS (rText sp g gs) (rGroups sp 0 (g :: gs))
    (rText sp g gs).length { w := [], wl := [] } hne hg
  rw [show Lay.trDescS.str = TR_DESC_S from rfl] at W
  obtain ⟨w1, w2, w3, w4, w5, w6⟩ := W
  obtain ⟨f1, f2⟩ := finishChunk_clean pc _ w2 w3 w5 w6
  refine ⟨finishChunk pc (parseMeaningful (startChunk { w := [], wl := [] } (rGroups sp 0 (g :: gs))) (rText sp g gs)
    TR_DESC_S (Lay.trDescS.markers (rGroups sp 0 (g :: gs)) (rText sp g gs).length)), ?_, ?_, ?_, ?_⟩
  · unfold parseChunkCore
    simp only [hlay, htr, hsec, hcopy, hmark', htrl, hsecl]
    rfl
  · rw [f1]; exact (congrArg (·.e) w4)
  · rw [f1]; exact (congrArg (·.w) w4)
  · intro hsw
    refine ⟨((f2 hsw).1).trans (w1.trans ?_), ?_⟩
    · exact rGroups_comps sp hsp _ gs g [] (by simp [rText]) hok hgs
    · rw [(f2 hsw).2]
      show (parseMeaningful _ _ TR_DESC_S _).unused.map (·.2) = _
      rw [parseMeaningful_pairs_D, fold_unusedD, getNextSec_unused, startChunk_unused]
      have hmk : Lay.trDescS.markers (rGroups sp 0 (g :: gs)) (rText sp g gs).length =
          (rGroups sp 0 (g :: gs)).flatMap groupMarkers := by
        obtain ⟨s, init, h1, h2⟩ := rGroups_last sp gs g 0
        rw [Nat.zero_add] at h2
        have hfirstT : firstT (rGroups sp 0 (g :: gs)) = 0 := by simp [rGroups, firstT, rGroup]
        simp only [Lay.markers, Lay.core, hfirstT, pre0, if_true, List.nil_append, withEnd]
        rw [if_pos]
        rw [h2]; simp [lastPos, rText]
      rw [hmk]
      have := rText_unused sp (rText sp g gs) gs g [] (by simp [rText])
      simp only [List.length_nil] at this
      rw [this]
      rfl

/-! ## Part 8 — the whole parser on the canonical text of the layout Twp/Rge–desc–Sec -/

/-- **C01 — the layout Twp/Rge–desc–Sec on TEXT, through the whole parser, with no lexical premise.**
    For every abstract description — a non-empty list of standard Twp/Rges (numbers below 1000), each with a non-empty list
    of (two-digit section, inert block), the first block of at least 3 characters — the canonical text `rText sp g gs`
    (per group the Twp/Rge, any separator `sp` of blanks / line breaks, then lines `<block>, Sec nn:`) is parsed by
    `PLSSParser` (layout deduced or given as TR_desc_S; any `require_colon` mode, any `clean_up`, any legal default
    directions; no OCR scrubbing, no segmenting, no `sec_within`) into exactly one tract per line, in reading order, with the
    Twp/Rge of its group, its section and its block verbatim; the layout is TR_desc_S; the preprocessed text has one blank
    behind every Twp/Rge; there is no error flag; no tract has an error Twp/Rge/Sec. -/
theorem C01_canonical_forward_TR_desc_S (mc : MC) (uid0 : Nat) (a : ParserArgs) (sp : Str) (hsp : SepOk sp) (g : Gp) (gs : List Gp)
    (hstd : ∀ x ∈ g :: gs, StdGp x) (h3 : 3 ≤ g.l.d.length)
    (hm1 : isLegal Gen.LEGAL_NS mc.ns = true) (hm2 : isLegal Gen.LEGAL_EW mc.ew = true)
    (h1 : isLegal Gen.LEGAL_NS (resolve a.defaultNS mc.ns) = true) (h2 : isLegal Gen.LEGAL_EW (resolve a.defaultEW mc.ew) = true)
    (ha1 : a.ocrScrub = false) (ha2 : a.segment = false) (ha3 : a.secWithin = false)
    (hlay : a.layout = none ∨ a.layout = some TR_DESC_S) (hd : Str) (c : Config.Cfg)
    (hhd : handedDownText a = .ok hd) (hcfg : Config.ofText hd = .ok c) :
    ∃ out, plssParser mc uid0 (rText sp g gs) a = .ok out ∧ out.layout = TR_DESC_S ∧
      out.text = rText [' '] g gs ∧ out.fl.e = [] ∧
      out.tracts.map (fun t => (t.trs, t.desc)) = (docTracts (g :: gs)).map (fun p => (TRS.trsToDict (some p.1), p.2)) ∧
      (∀ t ∈ out.tracts, TRS.isError t.trs = false) := by
  have hok : g.Ok := (hstd g (by simp)).ok
  have hgs : ∀ x ∈ gs, x.Ok := fun x hx => (hstd x (by simp [hx])).ok
  have hgsc : ∀ x ∈ gs, x.Ok ∧ x.h.Canon := fun x hx => ⟨(hstd x (by simp [hx])).ok, (hstd x (by simp [hx])).canon⟩
  have hall : ∀ x ∈ g :: gs, x.Ok := fun x hx => (hstd x hx).ok
  -- preprocessing
  have hpp := plssPreprocess_rText mc a.defaultNS a.defaultEW hm1 hm2 h1 h2 sp hsp g gs hok (hstd g (by simp)).canon hgsc
  -- the layout
  have hdl := deduceLayout_rText [' '] sepOk_blank g gs hok hgs h3
  -- the chunk
  let pc : ParserCfg := { mandateLayout := !a.segment && a.layout.isSome, requireColon := a.requireColon, secWithin := a.secWithin }
  obtain ⟨ck, k1, k2, _, k4⟩ := C01_chunk_canonical_TR_desc_S_unused mc pc hm1 hm2 [' '] sepOk_blank g gs hok hgs (fun _ => h3) TR_DESC_S (fun _ => rfl)
  obtain ⟨k5, k6⟩ := k4 ha3
  have hne : ck.comps.isEmpty = false := by
    rw [k5]; simp [docComps, Gp.lines]
  -- the tracts
  obtain ⟨ts, hts, hlen⟩ := C03_buildTracts_total uid0 hd a.parseQQ a.source (rText sp g gs) TRS.trsToDict c hcfg
    ((docPairs (g :: gs)).map (fun p => (p.2.d, p.1 ++ [p.2.n1, p.2.n2], false))) 0
  have hpairs := TractsOf.buildTracts_pairs _ _ _ _ _ _ _ _ _ hts
  have hidx : secWithinIndexes ((docPairs (g :: gs)).map (fun p => (p.2.d, p.1 ++ [p.2.n1, p.2.n2], false))) = [] :=
    secWithinIndexes_false _ (by intro s hs; simp only [List.mem_map] at hs; obtain ⟨p, _, rfl⟩ := hs; rfl)
  have hunused : ∀ u ∈ ck.unused, u.2.length < Gen.MIN_REPORTABLE_UNUSED_LEN := by
    intro u hu
    have : u.2 ∈ ck.unused.map (·.2) := List.mem_map_of_mem hu
    rw [k6] at this
    simp only [List.mem_append, List.mem_map, List.mem_singleton] at this
    rcases this with ⟨_, _, e⟩ | e
    · rw [← e]; decide
    · rw [e]; decide
  have hnoerr : ∀ t ∈ ts, TRS.isError t.trs = false := by
    intro t ht
    have : (t.trs, t.desc) ∈ ts.map (fun t => (t.trs, t.desc)) := List.mem_map_of_mem ht
    rw [hpairs] at this
    simp only [List.map_map, List.mem_map, Function.comp_apply, Prod.mk.injEq] at this
    obtain ⟨p, hp, e1, _⟩ := this
    obtain ⟨a', b', ns, ew, ha', hb', hns, hew, hk, hl⟩ := docPairs_std _ hstd p hp
    rw [← e1, hk]
    exact (std_trs_ok a' b' ns ew ha' hb' hns hew p.2.n1 p.2.n2 hl.n1 hl.n2).1
  have hany : ts.any (fun t => TRS.isError t.trs) = false := by
    rw [List.any_eq_false]
    intro t ht
    simp [hnoerr t ht]
  have herr : ∀ fl, errorTractFlag fl ts = fl := by
    intro fl; unfold errorTractFlag; simp [hany]
  have hspecs' := fun cu => tractSpecs_pairs cu (docPairs (g :: gs)) (docPairs_ok _ hall)
  have hk1 : ∀ ml, parseChunkCore mc { mandateLayout := ml, requireColon := a.requireColon, secWithin := false }
      (rText [' '] g gs) false TR_DESC_S = .ok ck := by
    intro ml
    have : parseChunkCore mc pc (rText [' '] g gs) false TR_DESC_S =
        parseChunkCore mc { mandateLayout := ml, requireColon := a.requireColon, secWithin := false }
          (rText [' '] g gs) false TR_DESC_S := by
      unfold parseChunkCore chunkLayoutOf
      simp only [Bool.false_eq_true, if_false, pc, ha3, hdl]
      cases ml <;> cases (!a.segment && a.layout.isSome) <;> simp [hdl, finishChunk, ha3]
    rw [← this]; exact k1
  let pfl := genFlagsChunk (rText [' '] g gs) (fixedFlags [])
  let P : ParentSt := { fl := { w := pfl.w ++ ck.fl.w, wl := pfl.wl ++ ck.fl.wl, e := pfl.e ++ ck.fl.e, el := pfl.el ++ ck.fl.el },
                        comps := [] ++ ck.comps, unused := [] ++ ck.unused }
  have hchunk : ∀ ml, chunkParser mc { mandateLayout := ml, requireColon := a.requireColon, secWithin := false } (rText [' '] g gs) false TR_DESC_S
      { fl := fixedFlags [] } = .ok P := by
    intro ml
    unfold chunkParser
    rw [hk1 ml]
    simp only [hne, Bool.false_eq_true, if_false]
    rfl
  have hblocks : parseAllBlocks mc (rText [' '] g gs) TR_DESC_S a (fixedFlags []) = .ok P := by
    have hcopy : (TR_DESC_S == COPY_ALL) = false := by decide
    unfold parseAllBlocks
    simp only [ha2, ha3, Bool.false_eq_true, if_false, parseBlocks, hcopy, hchunk]
  have hPc : P.comps = (docPairs (g :: gs)).map (fun p => lnComp p.1 p.2) := by
    show [] ++ ck.comps = _
    rw [List.nil_append, k5, docComps_pairs]
  have hrest : ∀ cu, ∃ out, (match tractSpecs cu P.comps with
        | .error e => (.error e : Except PyErr ParserOut)
        | .ok specs =>
          match buildTracts uid0 hd a.parseQQ a.source (rText sp g gs) TRS.trsToDict 0 specs with
          | .error e => .error e
          | .ok tracts =>
            match secWithinFlags tracts (examineUnused P.fl P.unused) (secWithinIndexes specs) with
            | .error e => .error e
            | .ok fl1 =>
              let fl := errorTractFlag fl1 tracts
              let tracts := handDownFlags fl tracts
              .ok { tracts := tracts, fl := fl, layout := TR_DESC_S, text := (rText [' '] g gs), nextUid := uid0 + specs.length,
                    diverged := false || tracts.any (·.diverged), handedDown := hd }) = .ok out ∧
      out.layout = TR_DESC_S ∧ out.text = (rText [' '] g gs) ∧ out.fl.e = [] ∧
      out.tracts.map (fun t => (t.trs, t.desc)) = (docTracts (g :: gs)).map (fun p => (TRS.trsToDict (some p.1), p.2)) ∧
      (∀ t ∈ out.tracts, TRS.isError t.trs = false) := by
    intro cu
    rw [hPc, hspecs' cu]
    simp only [hts, hidx, secWithinFlags, herr]
    refine ⟨_, rfl, rfl, rfl, ?_, ?_, ?_⟩
    · simp only []
      have hu : ∀ u ∈ P.unused, u.2.length < Gen.MIN_REPORTABLE_UNUSED_LEN := by
        intro u hu; exact hunused u (by simpa [P] using hu)
      rw [examineUnused_short _ _ hu]
      show pfl.e ++ ck.fl.e = []
      rw [k2, (genFlagsChunk_e _ _).1]
      rfl
    · simp only [handDownFlags, List.map_map, Function.comp_def]
      rw [hpairs]
      simp [docTracts, List.map_map, Function.comp_def]
    · intro t ht
      simp only [handDownFlags, List.mem_map] at ht
      obtain ⟨t', ht', rfl⟩ := ht
      exact hnoerr t' ht'
  unfold plssParser
  simp only [hhd, ha1, hpp]
  rcases hlay with e | e
  · simp only [e, hdl]
    rw [hblocks]
    exact hrest _
  · simp only [e]
    rw [hblocks]
    exact hrest _

/-! ## Part 9 — the layout desc–Sec–Twp/Rge (`desc_STR`): the canonical text and the two finders

The canonical text `dText v sp g gs`: per group the lines `<inert block>, Sec nn:` (separated by line breaks), the character `v`
(a blank or a line break), the Twp/Rge `T154N-R97W` that CLOSES the group; groups separated by `sp` (blanks / line breaks, at least one), e.g.
`"hog valley by bluff, Sec 14:\nfern gully, Sec 15:\nT154N-R97W\nwy Wyoming; f/k/a marker, Sec 36:\nT7S-R102E"`. -/

/-- the character between the last line of a group and the Twp/Rge that closes it: a blank or a line break -/
class VSep (v : Char) : Prop where
  ok : v = ' ' ∨ v = '\n'

instance : VSep ' ' := ⟨Or.inl rfl⟩
instance : VSep '\n' := ⟨Or.inr rfl⟩

theorem isWord_v {v : Char} [h : VSep v] : isWord Gen.cs_14d6aa8a (some v) = false := by
  rcases h.ok with rfl | rfl <;> decide +kernel

theorem hdrPlain_v {v : Char} [h : VSep v] : hdrPlain.mem v = true := by
  rcases h.ok with rfl | rfl <;> decide

theorem multisec_fails_v {v : Char} [VSep v] (tail : Str) : FailsOn Gen.multisec_regex (v :: tail) := by
  have := multisec_skips_plain [v] tail (by intro c hc; simp only [List.mem_singleton] at hc; subst hc; exact hdrPlain_v) [] [] v rfl
  simpa using this

/-- what a header pattern must be unable to do in front of a header: start at the blank / line break before it -/
structure DGap (r : Rx) : Prop where
  hdr : ∀ (v : Char) (h : Hd) (rest : Str), (v = ' ' ∨ v = '\n') → h.Ok → FailsOn r (v :: (h.text ++ rest))

theorem DGap.ofFirst {r : Rx} (hn : r.nullable = false) (hp : plainFirst r = true) : DGap r where
  hdr := by
    intro v h rest hv _
    refine FailsOn.of_first hn ?_
    intro c hc
    simp only [List.head?_cons, Option.some.injEq] at hc
    subst hc
    rcases hv with rfl | rfl
    · exact plainFirst.not_mem hp (by decide)
    · exact plainFirst.not_mem hp (by decide)

theorem twprge_dGap : DGap Gen.twprge_regex := DGap.ofFirst (by decide +kernel) (by decide +kernel)
theorem nswe_dGap : DGap Gen.pp_twprge_no_nswe := DGap.ofFirst (by decide +kernel) (by decide +kernel)
theorem nsr_dGap : DGap Gen.pp_twprge_no_nsr := DGap.ofFirst (by decide +kernel) (by decide +kernel)
theorem ewt_dGap : DGap Gen.pp_twprge_no_ewt where
  hdr := by
    intro v h rest hv hok
    rcases hv with rfl | rfl
    · have hmD : Gen.pp_twprge_no_ewt.mustHitP (fun cs => cs.sub digitD) = true := by decide +kernel
      have hadj : Gen.pp_twprge_no_ewt.adjB ' ' 'T' = false := by decide +kernel
      have e : ' ' :: (h.text ++ rest) = [] ++ ' ' :: 'T' :: ((h.t ++ h.ns :: '-' :: 'R' :: (h.r ++ [h.ew])) ++ rest) := by
        simp [Hd.text, canonText]
      rw [e]
      refine FailsOn.of_break hmD [] ' ' 'T' _ hadj ?_
      intro c hc
      simp only [List.nil_append, List.mem_cons, List.not_mem_nil, or_false] at hc
      subst hc
      exact noHit_of_notMem (by decide +kernel)
    · exact ewt_gapSkips.nlHdr h rest hok
theorem comma_dGap : DGap Gen.pp_twprge_comma_remove where
  hdr := fun v h rest hv hok => failsOn_comma (twprge_dGap.hdr v h rest hv hok)

section DescStr
set_option linter.unusedSectionVars false
variable {v : Char} [VSep v]

/-- a group: its lines, the character `v` (a blank or a line break), the Twp/Rge -/
def Gp.dt (v : Char) (g : Gp) : Str := (g.l.rt ++ rlns g.ls) ++ v :: g.h.text

/-- further groups, each preceded by the separator -/
def dgps (v : Char) (sp : Str) : List Gp → Str
  | [] => []
  | g :: gs => sp ++ ((g.dt v) ++ dgps v sp gs)

/-- the canonical text -/
def dText (v : Char) (sp : Str) (g : Gp) (gs : List Gp) : Str := (g.dt v) ++ dgps v sp gs

theorem Gp.dt_length (v : Char) (g : Gp) : (g.dt v).length = (g.l.rt ++ rlns g.ls).length + 1 + g.h.text.length := by
  simp [Gp.dt]; omega

/-- the header matches; `q` = position of the first block of the first group -/
def dhdrMs (v : Char) (mk : Hd → Nat → Match) (sp : Str) : Nat → List Gp → List Match
  | _, [] => []
  | q, g :: gs => mk g.h (q + (g.l.rt ++ rlns g.ls).length + 1) :: dhdrMs v mk sp (q + (g.dt v).length + sp.length) gs

/-- **tiling by headers** (layout desc–Sec–Twp/Rge): a pattern that matches each header and nothing in between; `w` = white
    space in front of the first block -/
theorem dTiles (r : Rx) (hg : GapSkips r) (hr : RGap r) (hd : DGap r) (sp : Str) (hsp : SepOk sp)
    (mk : Hd → Nat → Match)
    (htok : ∀ (h : Hd) (ctx : Str) (prev : Option Char) (pos : Nat), h.Ok → EndsTwprge ctx →
       isWord Gen.cs_14d6aa8a prev = false →
       matchHere r ⟨prev, h.text ++ ctx, pos, []⟩ false = some (mk h pos) ∧ (mk h pos).start = pos ∧
       (mk h pos).stop = pos + h.text.length) :
    ∀ (gs : List Gp) (g : Gp) (w : Str) (q : Nat) (prev : Option Char), WsOk w → g.Ok → (∀ x ∈ gs, x.Ok) →
      Tiles r prev (w ++ ((g.dt v) ++ dgps v sp gs)) q (dhdrMs v mk sp (q + w.length) (g :: gs)) := by
  intro gs
  induction gs with
  | nil =>
    intro g w q prev hw hok _
    have hl := hok.ls g.l (by simp [Gp.lines])
    have hls : ∀ x ∈ g.ls, x.Ok := fun x hx => hok.ls x (by simp [Gp.lines, hx])
    have htxt : w ++ ((g.dt v) ++ dgps v sp []) = (w ++ (g.l.rt ++ rlns g.ls)) ++ (v :: (g.h.text ++ [])) := by
      simp [Gp.dt, dgps]
    rw [htxt]
    refine Tiles.skipSeg (rbody_skips hg hr w hw g.l g.ls _ hl hls) _ _ ?_
    refine Tiles.skip _ v _ _ _ (matchHere_of_failsOn (hd.hdr v g.h [] VSep.ok hok.h) _ _ false) ?_
    obtain ⟨h1, h2, h3⟩ := htok g.h [] (some v) (q + (w ++ (g.l.rt ++ rlns g.ls)).length + 1) hok.h EndsTwprge.nil isWord_v
    have hpos : q + (w ++ (g.l.rt ++ rlns g.ls)).length + 1 = q + w.length + (g.l.rt ++ rlns g.ls).length + 1 := by
      simp only [List.length_append]; omega
    simp only [dhdrMs]
    rw [← hpos]
    exact Tiles.tok _ g.h.text [] _ _ [] h1 h2 h3 g.h.text_ne (Tiles.nil _ _ (matchHere_of_failsOn hg.fin0 _ _ false))
  | cons g' gs ih =>
    intro g w q prev hw hok hgs
    have hok' := hgs g' (by simp)
    have hgs' : ∀ x ∈ gs, x.Ok := fun x hx => hgs x (by simp [hx])
    have hl := hok.ls g.l (by simp [Gp.lines])
    have hls : ∀ x ∈ g.ls, x.Ok := fun x hx => hok.ls x (by simp [Gp.lines, hx])
    have htxt : w ++ ((g.dt v) ++ dgps v sp (g' :: gs)) =
        (w ++ (g.l.rt ++ rlns g.ls)) ++ (v :: (g.h.text ++ (sp ++ ((g'.dt v) ++ dgps v sp gs)))) := by
      simp [Gp.dt, dgps]
    rw [htxt]
    refine Tiles.skipSeg (rbody_skips hg hr w hw g.l g.ls _ hl hls) _ _ ?_
    refine Tiles.skip _ v _ _ _ (matchHere_of_failsOn (hd.hdr v g.h _ VSep.ok hok.h) _ _ false) ?_
    obtain ⟨h1, h2, h3⟩ := htok g.h (sp ++ ((g'.dt v) ++ dgps v sp gs)) (some v) (q + (w ++ (g.l.rt ++ rlns g.ls)).length + 1) hok.h
      (endsTwprge_sep sp _ hsp) isWord_v
    have hpos : q + (w ++ (g.l.rt ++ rlns g.ls)).length + 1 = q + w.length + (g.l.rt ++ rlns g.ls).length + 1 := by
      simp only [List.length_append]; omega
    rw [show dhdrMs v mk sp (q + w.length) (g :: g' :: gs) = mk g.h (q + w.length + (g.l.rt ++ rlns g.ls).length + 1) ::
      dhdrMs v mk sp (q + w.length + (g.dt v).length + sp.length) (g' :: gs) from rfl]
    rw [← hpos]
    refine Tiles.tok _ g.h.text _ _ _ _ h1 h2 h3 g.h.text_ne ?_
    have := ih g' sp (q + (w ++ (g.l.rt ++ rlns g.ls)).length + 1 + g.h.text.length) (lastOr (some v) g.h.text) hsp.ws hok' hgs'
    have hq : q + (w ++ (g.l.rt ++ rlns g.ls)).length + 1 + g.h.text.length + sp.length = q + w.length + (g.dt v).length + sp.length := by
      rw [g.dt_length v]; simp only [List.length_append]; omega
    rw [hq] at this
    exact this

theorem twprge_tokD (h : Hd) (ctx : Str) (prev : Option Char) (pos : Nat) (hok : h.Ok) (hctx : EndsTwprge ctx)
    (hprev : isWord Gen.cs_14d6aa8a prev = false) :
    matchHere Gen.twprge_regex ⟨prev, h.text ++ ctx, pos, []⟩ false = some (twMk h pos) ∧ (twMk h pos).start = pos ∧
      (twMk h pos).stop = pos + h.text.length := by
  have hv := h.valid hok ctx hctx
  have := C08_spelling_matchHere h.sp _ hv prev hprev pos false
  rw [h.sp_text] at this
  refine ⟨by simpa [twMk] using this, rfl, ?_⟩
  simp [twMk, Spelling.matchAt, h.sp_text]

theorem wsOk_nil : WsOk [] := fun _ h => by cases h

theorem twprge_tiles_dText (sp : Str) (hsp : SepOk sp) (g : Gp) (gs : List Gp) (hok : g.Ok) (hgs : ∀ x ∈ gs, x.Ok) :
    Tiles Gen.twprge_regex none (dText v sp g gs) 0 (dhdrMs v twMk sp 0 (g :: gs)) := by
  have := dTiles (v := v) Gen.twprge_regex twprge_gapSkips twprge_rGap twprge_dGap sp hsp twMk
    (fun h ctx prev pos hok hctx hprev => twprge_tokD h ctx prev pos hok hctx hprev) gs g [] 0 none wsOk_nil hok hgs
  simpa [dText] using this

theorem twprge_finditer_dText (sp : Str) (hsp : SepOk sp) (g : Gp) (gs : List Gp) (hok : g.Ok) (hgs : ∀ x ∈ gs, x.Ok) :
    twprge.rx.finditer (dText v sp g gs) = dhdrMs v twMk sp 0 (g :: gs) :=
  (twprge_tiles_dText sp hsp g gs hok hgs).finditer_eq

/-- one step of `findall_matching_twprge` in a layout without context check -/
theorem trStepL (L : Str) (hL : (L == DESC_STR || L == TR_DESC_S || L == COPY_ALL) = true)
    (mc : MC) (hns : isLegal Gen.LEGAL_NS mc.ns = true) (hew : isLegal Gen.LEGAL_EW mc.ew = true)
    (text pre ctx : Str) (h : Hd) (hok : h.Ok) (hctx : EndsTwprge ctx) (htext : text = pre ++ (h.text ++ ctx)) (st : TRFindSt) :
    trFindStep mc text L st (twMk h pre.length) =
      .ok { st with out := st.out ++ [⟨h.key, pre.length, pre.length + h.text.length⟩] } := by
  have hv := h.valid hok ctx hctx
  have htext' : text = pre ++ (h.sp.text ++ ctx) := by rw [htext, h.sp_text]
  have hunp : unpackTwprge twprge (twMk h pre.length) text mc.ns mc.ew false = .ok h.sp.canon := by
    rw [unpackTwprge_canon _ _ _ _ _ _ hns hew, htext']
    exact congrArg _ (h.sp.canonTR_at pre ctx hv mc.ns mc.ew)
  have hstart : (twMk h pre.length).start = pre.length := rfl
  have hstop : (twMk h pre.length).stop = pre.length + h.text.length := by
    simp [twMk, Spelling.matchAt, h.sp_text]
  unfold trFindStep
  simp only [hunp, hL, if_true, hstart, hstop]
  rfl

/-- what `TwpRgeFinder` reports; `q` = position of the first block of the first group -/
def dtrOut (v : Char) (sp : Str) : Nat → List Gp → List TRMatch
  | _, [] => []
  | q, g :: gs => ⟨g.h.key, q + (g.l.rt ++ rlns g.ls).length + 1, q + (g.l.rt ++ rlns g.ls).length + 1 + g.h.text.length⟩ ::
      dtrOut v sp (q + (g.dt v).length + sp.length) gs

theorem desc_str_layouts : (DESC_STR == DESC_STR || DESC_STR == TR_DESC_S || DESC_STR == COPY_ALL) = true := by decide

theorem trFoldD (mc : MC) (hns : isLegal Gen.LEGAL_NS mc.ns = true) (hew : isLegal Gen.LEGAL_EW mc.ew = true)
    (sp : Str) (hsp : SepOk sp) (text : Str) : ∀ (gs : List Gp) (g : Gp) (pre : Str) (st : TRFindSt),
    g.Ok → (∀ x ∈ gs, x.Ok) → text = pre ++ ((g.dt v) ++ dgps v sp gs) →
    (dhdrMs v twMk sp pre.length (g :: gs)).foldlM (trFindStep mc text DESC_STR) st =
      .ok { st with out := st.out ++ dtrOut v sp pre.length (g :: gs) }
  | [], g, pre, st, hok, _, htext => by
    have h1 := trStepL DESC_STR desc_str_layouts mc hns hew text (pre ++ (g.l.rt ++ rlns g.ls) ++ [v]) [] g.h hok.h
      EndsTwprge.nil (by rw [htext]; simp [Gp.dt, dgps]) st
    have hlen : (pre ++ (g.l.rt ++ rlns g.ls) ++ [v]).length = pre.length + (g.l.rt ++ rlns g.ls).length + 1 := by
      simp only [List.length_append, List.length_cons, List.length_nil]
    rw [hlen] at h1
    simp only [dhdrMs, List.foldlM_cons, h1, dtrOut]
    rfl
  | g' :: gs, g, pre, st, hok, hgs, htext => by
    have h1 := trStepL DESC_STR desc_str_layouts mc hns hew text (pre ++ (g.l.rt ++ rlns g.ls) ++ [v]) (sp ++ ((g'.dt v) ++ dgps v sp gs)) g.h hok.h
      (endsTwprge_sep sp _ hsp) (by rw [htext]; simp [Gp.dt, dgps]) st
    have hlen : (pre ++ (g.l.rt ++ rlns g.ls) ++ [v]).length = pre.length + (g.l.rt ++ rlns g.ls).length + 1 := by
      simp only [List.length_append, List.length_cons, List.length_nil]
    rw [hlen] at h1
    have ih := trFoldD mc hns hew sp hsp text gs g' (pre ++ (g.dt v) ++ sp)
      { st with out := st.out ++ [⟨g.h.key, pre.length + (g.l.rt ++ rlns g.ls).length + 1,
          pre.length + (g.l.rt ++ rlns g.ls).length + 1 + g.h.text.length⟩] } (hgs g' (by simp))
      (fun x hx => hgs x (by simp [hx])) (by rw [htext]; simp [dgps])
    have hlen2 : (pre ++ (g.dt v) ++ sp).length = pre.length + (g.dt v).length + sp.length := by simp; omega
    rw [hlen2] at ih
    rw [show dhdrMs v twMk sp pre.length (g :: g' :: gs) = twMk g.h (pre.length + (g.l.rt ++ rlns g.ls).length + 1) ::
      dhdrMs v twMk sp (pre.length + (g.dt v).length + sp.length) (g' :: gs) from rfl]
    simp only [List.foldlM_cons, h1]
    show (dhdrMs v twMk sp (pre.length + (g.dt v).length + sp.length) (g' :: gs)).foldlM (trFindStep mc text DESC_STR) _ = _
    rw [ih]
    simp [dtrOut]

/-- **`TwpRgeFinder` on the canonical text** -/
theorem twprgeFinder_dText (mc : MC) (hns : isLegal Gen.LEGAL_NS mc.ns = true) (hew : isLegal Gen.LEGAL_EW mc.ew = true)
    (sp : Str) (hsp : SepOk sp) (g : Gp) (gs : List Gp) (hok : g.Ok) (hgs : ∀ x ∈ gs, x.Ok) :
    twprgeFinder mc (dText v sp g gs) DESC_STR = .ok (dtrOut v sp 0 (g :: gs), {}) := by
  have h := trFoldD (v := v) mc hns hew sp hsp (dText v sp g gs) gs g [] {} hok hgs (by simp [dText])
  unfold twprgeFinder
  rw [twprge_finditer_dText sp hsp g gs hok hgs]
  simp only [List.length_nil] at h
  rw [h]
  rfl

/-! ### the section references -/

/-- the section references of a group whose first block stands at `q` -/
def dgpRefMs (q : Nat) (g : Gp) : List Match :=
  secMatch (q + g.l.d.length + 2) :: rrefMs (q + g.l.rt.length) g.ls

def ddocRefMs (v : Char) (sp : Str) : Nat → List Gp → List Match
  | _, [] => []
  | q, g :: gs => dgpRefMs q g ++ ddocRefMs v sp (q + (g.dt v).length + sp.length) gs

/-- one group, the white space `spx` behind its Twp/Rge, and what follows -/
theorem sec_dgroup (g : Gp) (hok : g.Ok) (q : Nat) (spx : Str) (hspx : WsOk spx) (tail : Str) (ms' : List Match)
    (h : ∀ p, Tiles Gen.multisec_regex p tail (q + (g.dt v).length + spx.length) ms') :
    ∀ p, Tiles Gen.multisec_regex p ((g.dt v) ++ (spx ++ tail)) q (dgpRefMs q g ++ ms') := by
  intro p
  have hl := hok.ls g.l (by simp [Gp.lines])
  have hls : ∀ x ∈ g.ls, x.Ok := fun x hx => hok.ls x (by simp [Gp.lines, hx])
  have hT1 : RTail (v :: (g.h.text ++ (spx ++ tail))) := rTail_vhdr v VSep.ok g.h hok.h _
  have hT : RTail (rlns g.ls ++ v :: (g.h.text ++ (spx ++ tail))) := by
    cases hg : g.ls with
    | nil => simpa [rlns] using hT1
    | cons z zs =>
      have : rlns (z :: zs) ++ v :: (g.h.text ++ (spx ++ tail)) =
          '\n' :: (z.d ++ ((',' :: ' ' :: z.ref) ++ (rlns zs ++ v :: (g.h.text ++ (spx ++ tail))))) := by simp [rlns, Ln.rt]
      rw [this]; exact rTail_block z.d (hls z (by rw [hg]; simp)).d _
  have htl : ∀ p, Tiles Gen.multisec_regex p (v :: (g.h.text ++ (spx ++ tail))) (q + g.l.rt.length + (rlns g.ls).length) ms' := by
    intro p
    refine Tiles.skip p v _ _ _ (matchHere_of_failsOn (multisec_fails_v _) _ _ false) ?_
    have hsk : Skips Gen.multisec_regex (g.h.text ++ spx) tail :=
      skips_header multisec_skips_plain failsOn_multisec_S g.h hok.h spx hspx tail
    have e : g.h.text ++ (spx ++ tail) = (g.h.text ++ spx) ++ tail := by simp
    rw [e]
    refine Tiles.skipSeg hsk _ _ ?_
    have hq : q + g.l.rt.length + (rlns g.ls).length + 1 + (g.h.text ++ spx).length = q + (g.dt v).length + spx.length := by
      rw [g.dt_length v]; simp only [List.length_append]; omega
    rw [hq]
    exact h _
  have h2 := sec_rlines g.ls (q + g.l.rt.length) _ ms' hls hT1 htl
  have h1 := sec_rline [] wsOk_nil g.l hl _ hT _ q (by simpa using h2)
  have e : (g.dt v) ++ (spx ++ tail) = [] ++ (g.l.rt ++ (rlns g.ls ++ v :: (g.h.text ++ (spx ++ tail)))) := by simp [Gp.dt]
  rw [e]
  have := h1 p
  simpa [dgpRefMs] using this

theorem multisec_tiles_dgps (sp : Str) (hsp : SepOk sp) : ∀ (gs : List Gp) (g : Gp) (q : Nat), g.Ok → (∀ x ∈ gs, x.Ok) →
    ∀ p, Tiles Gen.multisec_regex p ((g.dt v) ++ dgps v sp gs) q (ddocRefMs v sp q (g :: gs))
  | [], g, q, hok, _ => by
    intro p
    have := sec_dgroup (v := v) g hok q [] wsOk_nil [] [] (fun p => Tiles.nil p _ (matchHere_of_failsOn multisec_fails_nil _ _ false)) p
    simpa [dgps, ddocRefMs] using this
  | g' :: gs, g, q, hok, hgs => by
    intro p
    have ih := multisec_tiles_dgps sp hsp gs g' (q + (g.dt v).length + sp.length) (hgs g' (by simp)) (fun x hx => hgs x (by simp [hx]))
    have := sec_dgroup (v := v) g hok q sp hsp.ws ((g'.dt v) ++ dgps v sp gs) _ ih p
    simpa [dgps, ddocRefMs] using this

theorem multisec_tiles_dText (sp : Str) (hsp : SepOk sp) (g : Gp) (gs : List Gp) (hok : g.Ok) (hgs : ∀ x ∈ gs, x.Ok) :
    Tiles Gen.multisec_regex none (dText v sp g gs) 0 (ddocRefMs v sp 0 (g :: gs)) :=
  multisec_tiles_dgps sp hsp gs g 0 hok hgs none

/-! ### the arrangement and `SecFinder` -/

def dGroup (q : Nat) (g : Gp) : TRGroup :=
  ⟨q + (g.l.rt ++ rlns g.ls).length + 1, q + (g.l.rt ++ rlns g.ls).length + 1 + g.h.text.length, g.h.key, rItems1 q g.l g.ls⟩

/-- the arrangement of the canonical text; `q` = position of the first block of the first group -/
def dGroups (v : Char) (sp : Str) : Nat → List Gp → List TRGroup
  | _, [] => []
  | q, g :: gs => dGroup q g :: dGroups v sp (q + (g.dt v).length + sp.length) gs

theorem dGroups_ok (sp : Str) (text : Str) : ∀ (gs : List Gp) (g : Gp) (pre : Str), text = pre ++ ((g.dt v) ++ dgps v sp gs) →
    g.Ok → (∀ x ∈ gs, x.Ok) → ∀ G ∈ dGroups v sp pre.length (g :: gs), ∀ s ∈ G.items, ItemOK text s
  | gs, g, pre, htxt, hok, hgs => by
    intro G hG
    simp only [dGroups, List.mem_cons] at hG
    rcases hG with rfl | hG
    · exact rItems1_ok text g.l g.ls pre (v :: g.h.text ++ dgps v sp gs) (by rw [htxt]; simp [Gp.dt])
        (hok.ls g.l (by simp [Gp.lines])) (fun x hx => hok.ls x (by simp [Gp.lines, hx]))
    · match gs, hgs, htxt, hG with
      | [], _, _, hG => simp [dGroups] at hG
      | g' :: gs', hgs, htxt, hG =>
        have := dGroups_ok sp text gs' g' (pre ++ (g.dt v) ++ sp) (by rw [htxt]; simp [dgps]) (hgs g' (by simp))
          (fun x hx => hgs x (by simp [hx])) G
        have hlen : (pre ++ (g.dt v) ++ sp).length = pre.length + (g.dt v).length + sp.length := by simp; omega
        rw [hlen] at this
        exact this hG
termination_by gs => gs.length

/-- one step of `findall_matching_sec` at a section reference `Sec nn:` in a layout that does not start with the section -/
theorem secStepL (L : Str) (hL : firstLayouts L = false) (text : Str) (s : SecItem) (hs : ItemOK text s) (st : SecFindSt)
    (needColon : Bool) :
    secFindStep text L needColon st (secMatch s.sStart) =
      .ok { out := st.out ++ [⟨s.secs, s.sStart, s.sEnd⟩], lastNums := s.secs, ff := st.ff } := by
  obtain ⟨l, hl, h1, h2, pre, post, htext, hp⟩ := hs
  obtain ⟨u1, u2, u3⟩ := unpack_ref l hl
  rw [← hp] at h2 ⊢
  have hg0 : (secMatch pre.length).group0 text = l.ref := by
    unfold Match.group0
    exact slice_at text pre l.ref post _ _ htext rfl rfl
  have hcolon : (multisec.group (secMatch pre.length) text "colon").isNone = false := by
    simp [Pat.group, multisec_idx.1, Match.group?, Match.span?, secMatch]
  have hmulti : isMulti multisec "sec" (secMatch pre.length) text = some false := by
    simp [isMulti, multisec_idx, Pat.group, Match.group?, Match.span?, secMatch, List.find?]
  unfold secFindStep
  simp only [hg0, hcolon, hmulti, u1, u2, u3, hL, Bool.false_and, Bool.and_false, Bool.not_false, Bool.and_self,
    Bool.not_true, Bool.false_eq_true, if_false, List.append_nil, h1, h2]
  rfl

theorem secFoldL (L : Str) (hL : firstLayouts L = false) (text : Str) (nc : Bool) : ∀ (its : List SecItem) (st : SecFindSt),
    (∀ s ∈ its, ItemOK text s) →
    ∃ st', (its.map (fun s => secMatch s.sStart)).foldlM (secFindStep text L nc) st = .ok st' ∧
      st'.out = st.out ++ its.map (fun s => (⟨s.secs, s.sStart, s.sEnd⟩ : SecMatch)) ∧ st'.ff = st.ff
  | [], st, _ => ⟨st, rfl, by simp, rfl⟩
  | s :: its, st, h => by
    obtain ⟨st', a1, a2, a3⟩ := secFoldL L hL text nc its
      { out := st.out ++ [⟨s.secs, s.sStart, s.sEnd⟩], lastNums := s.secs, ff := st.ff } (fun x hx => h x (by simp [hx]))
    refine ⟨st', ?_, ?_, a3⟩
    · simp only [List.map_cons, List.foldlM_cons, secStepL L hL text s (h s (by simp)) st nc]
      exact a1
    · rw [a2]; simp

theorem ddocRefMs_items (sp : Str) : ∀ (gs : List Gp) (q : Nat),
    ddocRefMs v sp q gs = (allItems (dGroups v sp q gs)).map (fun s => secMatch s.sStart)
  | [], _ => rfl
  | g :: gs, q => by
    simp [ddocRefMs, dGroups, allItems, dgpRefMs, dGroup, rItems1, rrefMs_items, ddocRefMs_items sp gs]

theorem firstLayouts_dstr : firstLayouts DESC_STR = false := by decide

/-- **`SecFinder` on the canonical text** -/
theorem secFinder_dText (sp : Str) (hsp : SepOk sp) (g : Gp) (gs : List Gp) (hok : g.Ok) (hgs : ∀ x ∈ gs, x.Ok) (rc : ReqColon) :
    secFinder (dText v sp g gs) DESC_STR rc = .ok (secsOf (dGroups v sp 0 (g :: gs)), {}) := by
  have hfind : multisec.rx.finditer (dText v sp g gs) = (allItems (dGroups v sp 0 (g :: gs))).map (fun s => secMatch s.sStart) := by
    rw [← ddocRefMs_items]
    exact (multisec_tiles_dText (v := v) sp hsp g gs hok hgs).finditer_eq
  have hitems : ∀ s ∈ allItems (dGroups v sp 0 (g :: gs)), ItemOK (dText v sp g gs) s := by
    intro s hs
    simp only [allItems, List.mem_flatMap] at hs
    obtain ⟨G, hG, hs⟩ := hs
    exact dGroups_ok (v := v) sp (dText v sp g gs) gs g [] (by simp [dText]) hok hgs G hG s hs
  have hpass : ∀ nc, ∃ nums, secFinderPass (dText v sp g gs) DESC_STR nc = .ok (secsOf (dGroups v sp 0 (g :: gs)), {}, nums) := by
    intro nc
    obtain ⟨st', a1, a2, a3⟩ := secFoldL DESC_STR firstLayouts_dstr (dText v sp g gs) nc _ {} hitems
    refine ⟨st'.lastNums, ?_⟩
    unfold secFinderPass
    rw [hfind, a1]
    simp only [a2, a3, secsOf_allItems, List.nil_append]
  unfold secFinder
  obtain ⟨nums, hp⟩ := hpass ((rc == .yes || rc == .cautious) && firstLayouts DESC_STR)
  simp only [hp]
  simp [secsOf, dGroups, dGroup, rItems1]

theorem trsOf_dGroups (sp : Str) : ∀ (gs : List Gp) (q : Nat), trsOf (dGroups v sp q gs) = dtrOut v sp q gs
  | [], _ => rfl
  | g :: gs, q => by simp [dGroups, trsOf, dtrOut, dGroup, ← trsOf_dGroups sp gs]

/-! ### the markers -/

/-- **`populate_markers` for a text that starts with a description and ends with a Twp/Rge**: the start-of-text marker stays,
    the end-of-text marker is overwritten -/
theorem populateMarkers_D (len : Nat) (secs : List SecMatch) (trs : List TRMatch) (T : List (Nat × Marker))
    (hs : ((0, Marker.textStart) :: T).Pairwise (fun a b => a.1 < b.1)) (hperm : T.Perm (secMk secs ++ trMk trs))
    (init : List (Nat × Marker)) (hE : trMk trs = init ++ [(len, Marker.trEnd)]) :
    populateMarkers len secs trs = (0, Marker.textStart) :: T := by
  have hperm2 : T.Perm ((len, Marker.trEnd) :: (secMk secs ++ init)) := by
    refine hperm.trans ?_
    rw [hE, ← List.append_assoc]
    exact List.perm_append_comm
  have hperm3 : ((0, Marker.textStart) :: T).Perm ((0, Marker.textStart) :: (len, Marker.trEnd) :: (secMk secs ++ init)) :=
    List.Perm.cons _ hperm2
  have hkeys : (0 :: len :: ((secMk secs ++ init).map (·.1))).Nodup := by
    have hT : (((0, Marker.textStart) :: T).map (·.1)).Nodup := by
      rw [List.Nodup, List.pairwise_map]
      exact hs.imp (fun h => Nat.ne_of_lt h)
    have := (hperm3.map (·.1)).nodup_iff.1 hT
    simpa using this
  have hk0 := List.nodup_cons.1 hkeys
  have hk1 := List.nodup_cons.1 hk0.2
  have hlen0 : (0 : Nat) ≠ len := by intro e; exact hk0.1 (by simp [e])
  have hd1 : markSet (markSet [] 0 .textStart) len .textEnd = [(0, Marker.textStart), (len, Marker.textEnd)] := by
    rw [markSet_fresh [] 0 _ (fun _ h => by cases h)]
    exact markSet_fresh _ len _ (by intro e he; simp at he; rw [he]; exact hlen0)
  unfold populateMarkers
  simp only [hd1, secs_fold, trs_fold, hE, List.foldl_cons, List.foldl_append, List.foldl_nil]
  have hnd : (([(0, Marker.textStart), (len, Marker.textEnd)] ++ (secMk secs ++ init)).map (·.1)).Nodup := by
    simpa using hkeys
  have hf : init.foldl (fun d e => markSet d e.1 e.2) ((secMk secs).foldl (fun d e => markSet d e.1 e.2)
      [(0, Marker.textStart), (len, Marker.textEnd)]) = [(0, Marker.textStart), (len, Marker.textEnd)] ++ (secMk secs ++ init) := by
    rw [← List.foldl_append]
    exact foldl_markSet _ _ hnd
  rw [hf]
  have hlast : markSet ([(0, Marker.textStart), (len, Marker.textEnd)] ++ (secMk secs ++ init)) len Marker.trEnd =
      (0, Marker.textStart) :: (len, Marker.trEnd) :: (secMk secs ++ init) := by
    refine markSet_second _ len _ _ _ hlen0 ?_
    intro e he h
    exact hk1.1 (by rw [← h]; exact List.mem_map_of_mem he)
  rw [hlast]
  exact sortMarkers_eq _ _ hperm3 hs

theorem dGroup_markers (q : Nat) (g : Gp) :
    sGroupMarkers (dGroup q g) = imk (rItems1 q g.l g.ls) ++ [((q + (g.l.rt ++ rlns g.ls).length + 1, Marker.trStart) : Nat × Marker),
      (q + (g.l.rt ++ rlns g.ls).length + 1 + g.h.text.length, Marker.trEnd)] := rfl

theorem dGroup_within (g : Gp) (q : Nat) : Within q (q + (g.dt v).length + 1) (sGroupMarkers (dGroup q g)) := by
  have hh := g.h.text_length
  have ih := rItems1_within g.ls g.l q
  rw [dGroup_markers, g.dt_length v]
  refine Within.append ih (mid' := q + (g.l.rt ++ rlns g.ls).length + 1) ?_ (Nat.le_refl _) (by omega) (by omega)
  refine Within.cons (by simp) (Within.cons (by simp; omega) (Within.nil _ _) (by simp; omega)) (by simp; omega)

theorem ddoc_length (sp : Str) (g g' : Gp) (gs : List Gp) :
    ((g.dt v) ++ dgps v sp (g' :: gs)).length = (g.dt v).length + sp.length + ((g'.dt v) ++ dgps v sp gs).length := by
  simp [dgps]; omega

/-- the markers of the arrangement stand at strictly increasing positions; the first block has at least one character, so
    they all stand behind position 0 if `q = 0` -/
theorem dGroups_within (sp : Str) (hsp : SepOk sp) : ∀ (gs : List Gp) (g : Gp) (q : Nat),
    Within q (q + ((g.dt v) ++ dgps v sp gs).length + 1) ((dGroups v sp q (g :: gs)).flatMap sGroupMarkers)
  | [], g, q => by
    have := dGroup_within (v := v) g q
    simpa [dGroups, dgps] using this
  | g' :: gs, g, q => by
    have hspl : 0 < sp.length := List.length_pos_iff.mpr hsp.ne
    have h1 := dGroup_within (v := v) g q
    have ih := dGroups_within sp hsp gs g' (q + (g.dt v).length + sp.length)
    have e : (dGroups v sp q (g :: g' :: gs)).flatMap sGroupMarkers = sGroupMarkers (dGroup q g) ++
        (dGroups v sp (q + (g.dt v).length + sp.length) (g' :: gs)).flatMap sGroupMarkers := by
      simp [dGroups]
    rw [e, ddoc_length]
    have hh : q + (g.dt v).length + sp.length + ((g'.dt v) ++ dgps v sp gs).length + 1 =
        q + ((g.dt v).length + sp.length + ((g'.dt v) ++ dgps v sp gs).length) + 1 := by omega
    rw [← hh]
    exact Within.append h1 ih (by omega) (by omega) (by omega)

theorem dGroups_ne (sp : Str) (q : Nat) (g : Gp) (gs : List Gp) : dGroups v sp q (g :: gs) ≠ [] := by simp [dGroups]

theorem endOf_dGroups (sp : Str) : ∀ (gs : List Gp) (g : Gp) (q : Nat),
    endOf (dGroups v sp q (g :: gs)) = q + ((g.dt v) ++ dgps v sp gs).length
  | [], g, q => by simp [dGroups, endOf, dGroup, dgps, g.dt_length v]; omega
  | g' :: gs, g, q => by
    have ih := endOf_dGroups sp gs g' (q + (g.dt v).length + sp.length)
    have e : endOf (dGroups v sp q (g :: g' :: gs)) = endOf (dGroups v sp (q + (g.dt v).length + sp.length) (g' :: gs)) := by
      simp only [endOf]
      rw [show dGroups v sp q (g :: g' :: gs) = dGroup q g :: dGroups v sp (q + (g.dt v).length + sp.length) (g' :: gs) from rfl,
        List.getLast?_cons_of_ne_nil (dGroups_ne sp _ g' gs)]
    rw [e, ih, ddoc_length]; omega

/-- **the markers of the canonical text** -/
theorem populateMarkers_dText (sp : Str) (hsp : SepOk sp) (g : Gp) (gs : List Gp) (hok : g.Ok) :
    populateMarkers (dText v sp g gs).length (secsOf (dGroups v sp 0 (g :: gs))) (trsOf (dGroups v sp 0 (g :: gs))) =
      Lay.descStr.markers (dGroups v sp 0 (g :: gs)) (dText v sp g gs).length := by
  have hne := dGroups_ne (v := v) sp 0 g gs
  have hend := endOf_dGroups (v := v) sp gs g 0
  rw [Nat.zero_add] at hend
  obtain ⟨initM, hM⟩ := sMarkers_last _ hne
  obtain ⟨initT, hT⟩ := trMk_last _ hne
  rw [hend] at hM hT
  have hw := dGroups_within (v := v) sp hsp gs g 0
  have hmk : Lay.descStr.markers (dGroups v sp 0 (g :: gs)) (dText v sp g gs).length =
      (0, Marker.textStart) :: (dGroups v sp 0 (g :: gs)).flatMap sGroupMarkers := by
    have hc : Lay.descStr.core (dGroups v sp 0 (g :: gs)) = (0, Marker.textStart) :: (dGroups v sp 0 (g :: gs)).flatMap sGroupMarkers := rfl
    unfold Lay.markers withEnd
    rw [hc, if_pos]
    rw [hM]
    have : (0, Marker.textStart) :: (initM ++ [(((g.dt v) ++ dgps v sp gs).length, Marker.trEnd)]) =
        ((0, Marker.textStart) :: initM) ++ [(((g.dt v) ++ dgps v sp gs).length, Marker.trEnd)] := rfl
    rw [this]
    simp only [lastPos, List.getLast?_concat, Option.map_some, Option.getD_some, dText]
  rw [hmk]
  have hd0 : 0 < g.l.d.length := List.length_pos_iff.mpr (hok.ls g.l (by simp [Gp.lines])).d.ne
  refine populateMarkers_D _ _ _ _ ?_ (sMarkers_perm _) initT (by rw [hT]; rfl)
  refine List.pairwise_cons.2 ⟨?_, hw.1⟩
  intro e he
  have hfirst : ∀ e ∈ (dGroups v sp 0 (g :: gs)).flatMap sGroupMarkers, g.l.d.length + 2 ≤ e.1 := by
    have h1 := rItems1_within g.ls g.l 0
    intro e he
    rw [show dGroups v sp 0 (g :: gs) = dGroup 0 g :: dGroups v sp (0 + (g.dt v).length + sp.length) gs from rfl, List.flatMap_cons,
      List.mem_append] at he
    rcases he with he | he
    · rw [dGroup_markers, List.mem_append] at he
      rcases he with he | he
      · obtain ⟨rest, hr⟩ : ∃ rest, imk (rItems1 0 g.l g.ls) = (0 + g.l.d.length + 2, Marker.secStart) :: rest :=
          ⟨(0 + g.l.d.length + 9, Marker.secEnd) :: imk (rItems (0 + g.l.rt.length) g.ls), by simp [rItems1, imk]⟩
        have hp := h1.1
        rw [hr] at hp he
        rcases List.mem_cons.1 he with rfl | he
        · simp
        · have := (List.pairwise_cons.1 hp).1 e he
          simp at this; omega
      · have hl := g.l.rt_length
        simp only [List.mem_cons, List.not_mem_nil, or_false] at he
        rcases he with rfl | rfl <;> simp <;> omega
    · cases gs with
      | nil => simp [dGroups] at he
      | cons g' gs' =>
        have := (dGroups_within (v := v) sp hsp gs' g' (0 + (g.dt v).length + sp.length)).2 e he
        have hl := g.l.rt_length
        have := g.dt_length v
        simp only [List.length_append] at *
        omega
  have := hfirst e he
  show 0 < e.1
  omega

/-! ### the walk stages exactly the lines; the layout is deduced; `parse_chunk` -/

theorem ws_strip {w : Str} (hw : WsOk w) : ∀ c ∈ w, c ∈ cleanupStripSet := by
  intro c hc
  rcases hw c hc with rfl | rfl <;> decide

theorem dGroup_comps (txt : Str) (g : Gp) (hok : g.Ok) (pre w tail : Str) (hw : WsOk w)
    (htxt : txt = pre ++ (w ++ ((g.dt v) ++ tail))) :
    dItemComps txt g.h.key pre.length (rItems1 (pre.length + w.length) g.l g.ls) = g.lines.map (lnComp g.h.key) := by
  have hl := hok.ls g.l (by simp [Gp.lines])
  have hls : ∀ x ∈ g.ls, x.Ok := fun x hx => hok.ls x (by simp [Gp.lines, hx])
  have hslice : slice txt pre.length (pre.length + w.length + g.l.d.length + 2) = w ++ g.l.d ++ [',', ' '] := by
    refine slice_at txt pre _ (g.l.ref ++ (rlns g.ls ++ (v :: g.h.text ++ tail))) _ _ ?_ rfl (by simp; omega)
    rw [htxt]; simp [Gp.dt, Ln.rt]
  have hclean : cleanupDesc (w ++ g.l.d ++ [',', ' ']) = g.l.d :=
    C01_cleanup_block w g.l.d [',', ' '] (ws_strip hw) (by decide) hl.d.clean
  have ih := rLines_comps txt g.h.key g.ls (pre ++ w ++ g.l.rt) (v :: g.h.text ++ tail) (by rw [htxt]; simp [Gp.dt]) hls
  have hlen : (pre ++ w ++ g.l.rt).length = pre.length + w.length + g.l.rt.length := by simp; omega
  rw [hlen] at ih
  have hend : pre.length + w.length + g.l.d.length + 9 = pre.length + w.length + g.l.rt.length := by
    rw [g.l.rt_length]; omega
  simp only [rItems1, dItemComps, hslice, hclean, hend, ih, Gp.lines, List.map_cons, lnComp]

theorem dGroups_comps (sp : Str) (hsp : SepOk sp) (txt : Str) : ∀ (gs : List Gp) (g : Gp) (pre w : Str), WsOk w →
    txt = pre ++ (w ++ ((g.dt v) ++ dgps v sp gs)) → g.Ok → (∀ x ∈ gs, x.Ok) →
    strComps txt pre.length (dGroups v sp (pre.length + w.length) (g :: gs)) = docComps (g :: gs)
  | [], g, pre, w, hw, htxt, hok, _ => by
    have h1 := dGroup_comps (v := v) txt g hok pre w (dgps v sp []) hw htxt
    simp [strComps, dGroups, dGroup, docComps, h1]
  | g' :: gs, g, pre, w, hw, htxt, hok, hgs => by
    have h1 := dGroup_comps (v := v) txt g hok pre w (dgps v sp (g' :: gs)) hw htxt
    have ih := dGroups_comps sp hsp txt gs g' (pre ++ w ++ (g.dt v)) sp hsp.ws (by rw [htxt]; simp [dgps]) (hgs g' (by simp))
      (fun x hx => hgs x (by simp [hx]))
    have hlen : (pre ++ w ++ (g.dt v)).length = pre.length + w.length + (g.l.rt ++ rlns g.ls).length + 1 + g.h.text.length := by
      rw [List.length_append, List.length_append, g.dt_length v]; omega
    have hlen2 : (pre ++ w ++ (g.dt v)).length + sp.length = pre.length + w.length + (g.dt v).length + sp.length := by
      simp only [List.length_append]
    rw [hlen2] at ih
    rw [hlen] at ih
    rw [show dGroups v sp (pre.length + w.length) (g :: g' :: gs) = dGroup (pre.length + w.length) g ::
      dGroups v sp (pre.length + w.length + (g.dt v).length + sp.length) (g' :: gs) from rfl]
    simp only [strComps, docComps, List.flatMap_cons] at ih ⊢
    rw [show (dGroup (pre.length + w.length) g).tEnd = pre.length + w.length + (g.l.rt ++ rlns g.ls).length + 1 + g.h.text.length from rfl,
      ih]
    simp [dGroup, h1]

theorem dGroups_items_ne (sp : Str) : ∀ (gs : List Gp) (q : Nat), ∀ G ∈ dGroups v sp q gs, G.items ≠ []
  | [], _, G, h => by cases h
  | g :: gs, q, G, h => by
    simp only [dGroups, List.mem_cons] at h
    rcases h with rfl | h
    · simp [dGroup, rItems1]
    · exact dGroups_items_ne sp gs _ G h

/-- **C01 (layout desc–Sec–Twp/Rge): what the two finders report on the canonical text, and the marker list, no premise** -/
theorem C01_finders_desc_STR (mc : MC) (hns : isLegal Gen.LEGAL_NS mc.ns = true) (hew : isLegal Gen.LEGAL_EW mc.ew = true)
    (sp : Str) (hsp : SepOk sp) (g : Gp) (gs : List Gp) (hok : g.Ok) (hgs : ∀ x ∈ gs, x.Ok) (rc : ReqColon) :
    twprgeFinder mc (dText v sp g gs) DESC_STR = .ok (trsOf (dGroups v sp 0 (g :: gs)), {}) ∧
    secFinder (dText v sp g gs) DESC_STR rc = .ok (secsOf (dGroups v sp 0 (g :: gs)), {}) ∧
    populateMarkers (dText v sp g gs).length (secsOf (dGroups v sp 0 (g :: gs))) (trsOf (dGroups v sp 0 (g :: gs))) =
      Lay.descStr.markers (dGroups v sp 0 (g :: gs)) (dText v sp g gs).length ∧
    strComps (dText v sp g gs) 0 (dGroups v sp 0 (g :: gs)) = docComps (g :: gs) := by
  refine ⟨?_, secFinder_dText sp hsp g gs hok hgs rc, populateMarkers_dText sp hsp g gs hok, ?_⟩
  · rw [trsOf_dGroups]; exact twprgeFinder_dText (v := v) mc hns hew sp hsp g gs hok hgs
  · have := dGroups_comps (v := v) sp hsp (dText v sp g gs) gs g [] [] wsOk_nil (by simp [dText]) hok hgs
    simpa using this

/-- **C01 (layout desc–Sec–Twp/Rge): the lexical premise `Reports` of `Lemmas/Segment.lean` holds for the canonical text** -/
theorem C01_reports_desc_STR (mc : MC) (hns : isLegal Gen.LEGAL_NS mc.ns = true) (hew : isLegal Gen.LEGAL_EW mc.ew = true)
    (sp : Str) (hsp : SepOk sp) (g : Gp) (gs : List Gp) (hok : g.Ok) (hgs : ∀ x ∈ gs, x.Ok) (rc : ReqColon) :
    Reports mc rc (dText v sp g gs) .descStr (dGroups v sp 0 (g :: gs)) := by
  refine Reports.intro _ _ _ _ (twprgeFinder_dText mc hns hew sp hsp g gs hok hgs)
    (secFinder_dText sp hsp g gs hok hgs rc) ?_ (secsOf_secs _) ?_
  · rw [← trsOf_dGroups]; simp [trsOf, List.map_map, Function.comp_def]
  · rw [← trsOf_dGroups]; exact populateMarkers_dText (v := v) sp hsp g gs hok

/-! ### the layout desc_STR is deduced; `parse_chunk` -/

theorem dText_last (sp : Str) : ∀ (gs : List Gp) (g : Gp), g.Ok → (∀ x ∈ gs, x.Ok) →
    ∃ (Y : Str) (h : Hd), h.Ok ∧ (g.dt v) ++ dgps v sp gs = Y ++ h.text
  | [], g, hok, _ => ⟨(g.l.rt ++ rlns g.ls) ++ [v], g.h, hok.h, by simp [Gp.dt, dgps]⟩
  | g' :: gs, g, _, hgs => by
    obtain ⟨Y, h, hh, e⟩ := dText_last sp gs g' (hgs g' (by simp)) (fun x hx => hgs x (by simp [hx]))
    exact ⟨(g.dt v) ++ sp ++ Y, h, hh, by simp [dgps, e]⟩

theorem pyStrip_dText (sp : Str) (g : Gp) (gs : List Gp) (hok : g.Ok) (hgs : ∀ x ∈ gs, x.Ok) :
    pyStrip (dText v sp g gs) = dText v sp g gs := by
  obtain ⟨Y, h, hh, hY⟩ := dText_last (v := v) sp gs g hok hgs
  have hl := hok.ls g.l (by simp [Gp.lines])
  obtain ⟨d0, d', e, h1, h2⟩ := hl.d.head_cons
  have hne : d0 ≠ ' ' := by rintro rfl; rw [headDanger_blank] at h2; cases h2
  have hd0 : pyIsSpace d0 = false := notSpace_of_safe h1 hne
  have hns : pyIsSpace h.ew = false := by rcases hh.ew with e | e <;> rw [e] <;> decide
  have hlast : (dText v sp g gs).getLast? = some h.ew := by
    have e2 : dText v sp g gs = (Y ++ 'T' :: (h.t ++ h.ns :: '-' :: 'R' :: h.r)) ++ [h.ew] := by
      rw [dText, hY]; simp [Hd.text, canonText]
    rw [e2]; exact List.getLast?_concat
  have hhead : dText v sp g gs = d0 :: (d' ++ ((',' :: ' ' :: g.l.ref) ++ rlns g.ls ++ v :: g.h.text ++ dgps v sp gs)) := by
    simp [dText, Gp.dt, Ln.rt, e]
  unfold pyStrip stripBy
  have h1 : lstripBy pyIsSpace (dText v sp g gs) = dText v sp g gs := by
    rw [hhead]; exact Pretty.lstripBy_head_false _ _ _ hd0
  rw [h1]
  exact Pretty.rstripBy_getLast_false _ _ h.ew hlast hns

/-- **the layout of the canonical text is deduced**: the first section word stands behind the first block (at least 3
    characters from the start of the text), the first Twp/Rge later -/
theorem deduceLayout_dText (sp : Str) (hsp : SepOk sp) (g : Gp) (gs : List Gp) (hok : g.Ok) (hgs : ∀ x ∈ gs, x.Ok) :
    deduceLayout (dText v sp g gs) = DESC_STR := by
  have hl := hok.ls g.l (by simp [Gp.lines])
  obtain ⟨sm, hsm, hstart⟩ : ∃ sm, Gen.no_num_sec_regex.search (dText v sp g gs) = some sm ∧ sm.start = g.l.d.length + 2 := by
    have hsk : Skips Gen.no_num_sec_regex (g.l.d ++ [',', ' ']) (g.l.ref ++ (rlns g.ls ++ v :: g.h.text ++ dgps v sp gs)) :=
      nonum_skips_safe _ _ (by
        intro c hc
        rcases List.mem_append.1 hc with hc | hc
        · exact hl.d.safe c hc
        · simp only [List.mem_cons, List.not_mem_nil, or_false] at hc
          rcases hc with rfl | rfl <;> decide +kernel)
    have htxt : dText v sp g gs = (g.l.d ++ [',', ' ']) ++ (g.l.ref ++ (rlns g.ls ++ v :: g.h.text ++ dgps v sp gs)) := by
      simp [dText, Gp.dt, Ln.rt]
    rw [search_default, htxt, scan_skipSeg hsk none 0]
    have hL := (eats_secWord 1 (g.l.n1 :: g.l.n2 :: ':' :: (rlns g.ls ++ v :: g.h.text ++ dgps v sp gs))) (lastOr none (g.l.d ++ [',', ' ']))
      (0 + (g.l.d ++ [',', ' ']).length) []
    rw [← nonum_decomp] at hL
    have hm := matchHere_of_leads false hL (Or.inl rfl)
    have e : g.l.ref ++ (rlns g.ls ++ v :: g.h.text ++ dgps v sp gs) =
        'S' :: (['e', 'c'] ++ ' ' :: (g.l.n1 :: g.l.n2 :: ':' :: (rlns g.ls ++ v :: g.h.text ++ dgps v sp gs))) := by
      simp [Ln.ref]
    rw [e, LT.scan_cons]
    have e2 : (['S', 'e', 'c'] ++ ' ' :: (g.l.n1 :: g.l.n2 :: ':' :: (rlns g.ls ++ v :: g.h.text ++ dgps v sp gs))) =
        'S' :: (['e', 'c'] ++ ' ' :: (g.l.n1 :: g.l.n2 :: ':' :: (rlns g.ls ++ v :: g.h.text ++ dgps v sp gs))) := rfl
    rw [e2] at hm
    rw [hm]
    exact ⟨_, rfl, by simp⟩
  obtain ⟨tm, htm, htstart⟩ : ∃ tm, twprge.rx.search (dText v sp g gs) = some tm ∧ tm.start = (g.l.rt ++ rlns g.ls).length + 1 := by
    have := (twprge_tiles_dText (v := v) sp hsp g gs hok hgs).search_eq
    exact ⟨_, this.trans rfl, by simp [twMk, Spelling.matchAt]⟩
  unfold deduceLayout
  rw [pyStrip_dText sp g gs hok hgs]
  simp only []
  rw [hsm, htm]
  have hlt : sm.start < tm.start := by
    rw [hstart, htstart]; simp only [List.length_append, g.l.rt_length]; omega
  have hle : ¬ (sm.start ≤ 1) := by omega
  have hc : ([TRS_DESC, DESC_STR, S_DESC_TR, TR_DESC_S] : List Str).contains DESC_STR = true := by decide
  simp [hlt, hc, hle]

/-- **C01 (layout desc–Sec–Twp/Rge, chunk level, no lexical premise)**: `parse_chunk` on the canonical text — per group the
    lines `<inert block>, Sec nn:`, a blank or a line break `v`, the Twp/Rge closing the group; groups separated by blanks / line breaks —
    deduces (or accepts) the layout desc_STR, raises neither an error nor a warning flag, and (without `sec_within`) stages
    exactly one component per line, in reading order, with the Twp/Rge that closes its group, its section and its block
    verbatim -/
theorem C01_chunk_canonical_desc_STR (mc : MC) (pc : ParserCfg) (hns : isLegal Gen.LEGAL_NS mc.ns = true)
    (hew : isLegal Gen.LEGAL_EW mc.ew = true) (sp : Str) (hsp : SepOk sp) (g : Gp) (gs : List Gp) (hok : g.Ok)
    (hgs : ∀ x ∈ gs, x.Ok) (parentLayout : Str) (hml : pc.mandateLayout = true → parentLayout = DESC_STR) :
    ∃ c, parseChunkCore mc pc (dText v sp g gs) false parentLayout = .ok c ∧ c.fl.e = [] ∧ c.fl.w = [] ∧
      (pc.secWithin = false → c.comps = docComps (g :: gs)) := by
  have hlay : chunkLayoutOf pc (dText v sp g gs) false parentLayout = DESC_STR := by
    unfold chunkLayoutOf
    simp only [Bool.false_eq_true, if_false]
    split
    · rename_i h; exact hml h
    · exact deduceLayout_dText (v := v) sp hsp g gs hok hgs
  have htr := twprgeFinder_dText (v := v) mc hns hew sp hsp g gs hok hgs
  have hsec := secFinder_dText (v := v) sp hsp g gs hok hgs pc.requireColon
  have hne := dGroups_items_ne (v := v) sp (g :: gs) 0
  have hg : dGroups v sp 0 (g :: gs) ≠ [] := dGroups_ne (v := v) sp 0 g gs
  have hcopy : (DESC_STR == COPY_ALL) = false := by decide
  have htrl : (dtrOut v sp 0 (g :: gs)).map (·.twprge) = (dGroups v sp 0 (g :: gs)).map (·.tr) := by
    rw [← trsOf_dGroups]; simp [trsOf, List.map_map, Function.comp_def]
  have hsecl : (secsOf (dGroups v sp 0 (g :: gs))).map (·.secs) = allSecs (dGroups v sp 0 (g :: gs)) := secsOf_secs _
  have hmark' : populateMarkers (dText v sp g gs).length (secsOf (dGroups v sp 0 (g :: gs))) (dtrOut v sp 0 (g :: gs)) =
      Lay.descStr.markers (dGroups v sp 0 (g :: gs)) (dText v sp g gs).length := by
    rw [← trsOf_dGroups]; exact populateMarkers_dText (v := v) sp hsp g gs hok
  have W := C20_walk_all_layouts .descStr (dText v sp g gs) (dGroups v sp 0 (g :: gs))
    (dText v sp g gs).length { w := [], wl := [] } hne hg
  rw [show Lay.descStr.str = DESC_STR from rfl] at W
  obtain ⟨w1, w2, w3, w4, w5, w6⟩ := W
  obtain ⟨f1, f2⟩ := finishChunk_clean pc _ w2 w3 w5 w6
  refine ⟨finishChunk pc (parseMeaningful (startChunk { w := [], wl := [] } (dGroups v sp 0 (g :: gs))) (dText v sp g gs)
    DESC_STR (Lay.descStr.markers (dGroups v sp 0 (g :: gs)) (dText v sp g gs).length)), ?_, ?_, ?_, ?_⟩
  · unfold parseChunkCore
    simp only [hlay, htr, hsec, hcopy, hmark', htrl, hsecl]
    rfl
  · rw [f1]; exact (congrArg (·.e) w4)
  · rw [f1]; exact (congrArg (·.w) w4)
  · intro hsw
    refine ((f2 hsw).1).trans (w1.trans ?_)
    have := dGroups_comps (v := v) sp hsp (dText v sp g gs) gs g [] [] wsOk_nil (by simp [dText]) hok hgs
    show strComps (dText v sp g gs) 0 (dGroups v sp 0 (g :: gs)) = _
    simpa using this

/-! ### the unused blocks of the walk (layout desc–Sec–Twp/Rge) -/

theorem trFirstLays_DESC_STR' : trFirstLays DESC_STR = false := by decide

theorem parseMeaningful_pairs_STR (c0 : Chunk) (txt : Str) (ms : List (Nat × Marker)) :
    parseMeaningful c0 txt DESC_STR ms = (pairs ms).foldl (stepP txt TR_DESC_S) (getNextTwprge (getNextSec c0)) := by
  unfold parseMeaningful
  simp only [sDescLays_DESC_STR, trFirstLays_DESC_STR', Bool.not_true, Bool.not_false, Bool.false_eq_true, if_false, if_true]
  rw [walk_eq_pairs, stepP_STR_eq_D]

theorem unusedBlockD_secEnd_tr (txt : Str) (p q : Nat) :
    unusedBlockD txt ((p, .secEnd), (q, .trStart)) = some (slice txt p q) := by
  show (if Marker.trStart = Marker.secStart then none else some (slice txt p q)) = _
  rw [if_neg (by decide)]

theorem unusedBlockD_trEnd_self (txt : Str) (p : Nat) : unusedBlockD txt ((p, .trEnd), (p, .trEnd)) = some [] := by
  show (if Marker.trEnd = Marker.secStart then none else some (slice txt p p)) = _
  rw [if_neg (by decide)]
  simp [slice, List.drop_eq_nil_iff]

theorem unusedBlockD_trEnd_sec (txt : Str) (p q : Nat) : unusedBlockD txt ((p, .trEnd), (q, .secStart)) = none := by
  simp [unusedBlockD]

/-- **the unused blocks of the walk**: the line break in front of every Twp/Rge, and an empty block at the end of the text -/
theorem dText_unused (sp : Str) (txt : Str) : ∀ (gs : List Gp) (g : Gp) (pre : Str), txt = pre ++ ((g.dt v) ++ dgps v sp gs) →
    (pairs ((dGroups v sp pre.length (g :: gs)).flatMap sGroupMarkers)).filterMap (unusedBlockD txt) =
      (g :: gs).map (fun _ => [v]) ++ [[]]
  | [], g, pre, htxt => by
    have e : (dGroups v sp pre.length [g]).flatMap sGroupMarkers = imk (rItems1 pre.length g.l g.ls) ++
        [((pre.length + (g.l.rt ++ rlns g.ls).length + 1, Marker.trStart) : Nat × Marker),
          (pre.length + (g.l.rt ++ rlns g.ls).length + 1 + g.h.text.length, Marker.trEnd)] := by
      simp [dGroups, dGroup_markers]
    have hs : ∀ n, slice txt n n = [] := by
      intro n; simp [slice, List.drop_eq_nil_iff]
    have hslice : slice txt (pre.length + (g.l.rt ++ rlns g.ls).length) (pre.length + (g.l.rt ++ rlns g.ls).length + 1) = [v] := by
      refine slice_at txt (pre ++ (g.l.rt ++ rlns g.ls)) [v] (g.h.text ++ dgps v sp []) _ _ ?_ (by simp) (by simp)
      rw [htxt]; simp [Gp.dt]
    rw [e, rItems1_unused]
    simp only [pairs, List.filterMap_cons, List.filterMap_nil, List.head?_cons, List.head?_nil, Option.getD_some, Option.getD_none,
      unusedBlockD_trStart, unusedBlockD_secEnd_tr, unusedBlockD_trEnd_self, hslice, List.map_cons, List.map_nil, List.cons_append,
      List.nil_append]
  | g' :: gs, g, pre, htxt => by
    have ih := dText_unused sp txt gs g' (pre ++ (g.dt v) ++ sp) (by rw [htxt]; simp [dgps])
    have hlen : (pre ++ (g.dt v) ++ sp).length = pre.length + (g.dt v).length + sp.length := by simp; omega
    rw [hlen] at ih
    have e : (dGroups v sp pre.length (g :: g' :: gs)).flatMap sGroupMarkers = imk (rItems1 pre.length g.l g.ls) ++
        (((pre.length + (g.l.rt ++ rlns g.ls).length + 1, Marker.trStart) : Nat × Marker) ::
          (pre.length + (g.l.rt ++ rlns g.ls).length + 1 + g.h.text.length, Marker.trEnd) ::
          (dGroups v sp (pre.length + (g.dt v).length + sp.length) (g' :: gs)).flatMap sGroupMarkers) := by
      simp [dGroups, dGroup_markers]
    obtain ⟨T, hnext⟩ : ∃ T, (dGroups v sp (pre.length + (g.dt v).length + sp.length) (g' :: gs)).flatMap sGroupMarkers =
        (pre.length + (g.dt v).length + sp.length + g'.l.d.length + 2, Marker.secStart) :: T :=
      ⟨_, by simp [dGroups, dGroup_markers, rItems1, imk]; rfl⟩
    have hslice : slice txt (pre.length + (g.l.rt ++ rlns g.ls).length) (pre.length + (g.l.rt ++ rlns g.ls).length + 1) = [v] := by
      refine slice_at txt (pre ++ (g.l.rt ++ rlns g.ls)) [v] (g.h.text ++ dgps v sp (g' :: gs)) _ _ ?_ (by simp) (by simp)
      rw [htxt]; simp [Gp.dt]
    rw [e, rItems1_unused]
    rw [hnext] at ih ⊢
    simp only [pairs, List.filterMap_cons, List.head?_cons, Option.getD_some, unusedBlockD_trStart, unusedBlockD_trEnd_sec,
      unusedBlockD_secStart, unusedBlockD_secEnd_tr, hslice] at ih ⊢
    simp only [List.map_cons, List.cons_append] at ih ⊢
    rw [← ih]

/-- **C01 (layout desc–Sec–Twp/Rge, chunk level, no lexical premise), with the unused text**: as
    `C01_chunk_canonical_desc_STR`, and the only unused text are the characters `v` in front of the Twp/Rges (and an empty block
    at the end of the text) -/
theorem C01_chunk_canonical_desc_STR_unused (mc : MC) (pc : ParserCfg) (hns : isLegal Gen.LEGAL_NS mc.ns = true)
    (hew : isLegal Gen.LEGAL_EW mc.ew = true) (sp : Str) (hsp : SepOk sp) (g : Gp) (gs : List Gp) (hok : g.Ok)
    (hgs : ∀ x ∈ gs, x.Ok) (parentLayout : Str) (hml : pc.mandateLayout = true → parentLayout = DESC_STR) :
    ∃ c, parseChunkCore mc pc (dText v sp g gs) false parentLayout = .ok c ∧ c.fl.e = [] ∧ c.fl.w = [] ∧
      (pc.secWithin = false → c.comps = docComps (g :: gs) ∧ c.unused.map (·.2) = (g :: gs).map (fun _ => [v]) ++ [[]]) := by
  have hlay : chunkLayoutOf pc (dText v sp g gs) false parentLayout = DESC_STR := by
    unfold chunkLayoutOf
    simp only [Bool.false_eq_true, if_false]
    split
    · rename_i h; exact hml h
    · exact deduceLayout_dText (v := v) sp hsp g gs hok hgs
  have htr := twprgeFinder_dText (v := v) mc hns hew sp hsp g gs hok hgs
  have hsec := secFinder_dText (v := v) sp hsp g gs hok hgs pc.requireColon
  have hne := dGroups_items_ne (v := v) sp (g :: gs) 0
  have hg : dGroups v sp 0 (g :: gs) ≠ [] := dGroups_ne (v := v) sp 0 g gs
  have hcopy : (DESC_STR == COPY_ALL) = false := by decide
  have htrl : (dtrOut v sp 0 (g :: gs)).map (·.twprge) = (dGroups v sp 0 (g :: gs)).map (·.tr) := by
    rw [← trsOf_dGroups]; simp [trsOf, List.map_map, Function.comp_def]
  have hsecl : (secsOf (dGroups v sp 0 (g :: gs))).map (·.secs) = allSecs (dGroups v sp 0 (g :: gs)) := secsOf_secs _
  have hmark' : populateMarkers (dText v sp g gs).length (secsOf (dGroups v sp 0 (g :: gs))) (dtrOut v sp 0 (g :: gs)) =
      Lay.descStr.markers (dGroups v sp 0 (g :: gs)) (dText v sp g gs).length := by
    rw [← trsOf_dGroups]; exact populateMarkers_dText (v := v) sp hsp g gs hok
  have W := C20_walk_all_layouts .descStr (dText v sp g gs) (dGroups v sp 0 (g :: gs))
    (dText v sp g gs).length { w := [], wl := [] } hne hg
  rw [show Lay.descStr.str = DESC_STR from rfl] at W
  obtain ⟨w1, w2, w3, w4, w5, w6⟩ := W
  obtain ⟨f1, f2⟩ := finishChunk_clean pc _ w2 w3 w5 w6
  refine ⟨finishChunk pc (parseMeaningful (startChunk { w := [], wl := [] } (dGroups v sp 0 (g :: gs))) (dText v sp g gs)
    DESC_STR (Lay.descStr.markers (dGroups v sp 0 (g :: gs)) (dText v sp g gs).length)), ?_, ?_, ?_, ?_⟩
  · unfold parseChunkCore
    simp only [hlay, htr, hsec, hcopy, hmark', htrl, hsecl]
    rfl
  · rw [f1]; exact (congrArg (·.e) w4)
  · rw [f1]; exact (congrArg (·.w) w4)
  · intro hsw
    refine ⟨((f2 hsw).1).trans (w1.trans ?_), ?_⟩
    · have := dGroups_comps (v := v) sp hsp (dText v sp g gs) gs g [] [] wsOk_nil (by simp [dText]) hok hgs
      show strComps (dText v sp g gs) 0 (dGroups v sp 0 (g :: gs)) = _
      simpa using this
    · rw [(f2 hsw).2]
      show (parseMeaningful _ _ DESC_STR _).unused.map (·.2) = _
      rw [parseMeaningful_pairs_STR, fold_unusedD, getNextTwprge_unused, getNextSec_unused, startChunk_unused]
      have hmk : Lay.descStr.markers (dGroups v sp 0 (g :: gs)) (dText v sp g gs).length =
          (0, Marker.textStart) :: (dGroups v sp 0 (g :: gs)).flatMap sGroupMarkers := by
        have hend := endOf_dGroups (v := v) sp gs g 0
        rw [Nat.zero_add] at hend
        obtain ⟨initM, hM⟩ := sMarkers_last _ hg
        rw [hend] at hM
        have hc : Lay.descStr.core (dGroups v sp 0 (g :: gs)) = (0, Marker.textStart) :: (dGroups v sp 0 (g :: gs)).flatMap sGroupMarkers := rfl
        unfold Lay.markers withEnd
        rw [hc, if_pos]
        rw [hM]
        have : (0, Marker.textStart) :: (initM ++ [(((g.dt v) ++ dgps v sp gs).length, Marker.trEnd)]) =
            ((0, Marker.textStart) :: initM) ++ [(((g.dt v) ++ dgps v sp gs).length, Marker.trEnd)] := rfl
        rw [this]
        simp only [lastPos, List.getLast?_concat, Option.map_some, Option.getD_some, dText]
      rw [hmk]
      have hun := dText_unused (v := v) sp (dText v sp g gs) gs g [] (by simp [dText])
      simp only [List.length_nil] at hun
      obtain ⟨T, hT⟩ : ∃ T, (dGroups v sp 0 (g :: gs)).flatMap sGroupMarkers = (0 + g.l.d.length + 2, Marker.secStart) :: T :=
        ⟨_, by simp [dGroups, dGroup_markers, rItems1, imk]; rfl⟩
      rw [hT] at hun ⊢
      have h0 : unusedBlockD (dText v sp g gs) ((0, Marker.textStart), (0 + g.l.d.length + 2, Marker.secStart)) = none := by
        simp [unusedBlockD]
      simp only [pairs, List.filterMap_cons, List.head?_cons, Option.getD_some, h0] at hun ⊢
      rw [hun]
      rfl

/-! ## Part 10 — preprocessing of the canonical text of the layout desc–Sec–Twp/Rge

Every scrubber rewrites a Twp/Rge into its canonical text and a blank — also the LAST one, so the intermediate texts end in
blanks (`fin`), which `pp_twprge_comma_remove` reduces to one blank and the final strip removes. -/

def dgpsF (v : Char) (sp fin : Str) : List Gp → Str
  | [] => fin
  | g :: gs => sp ++ ((g.dt v) ++ dgpsF v sp fin gs)

/-- the canonical text with `fin` (blanks / line breaks) behind the last Twp/Rge -/
def dTextF (v : Char) (sp fin : Str) (g : Gp) (gs : List Gp) : Str := (g.dt v) ++ dgpsF v sp fin gs

theorem dgpsF_eq (sp fin : Str) : ∀ gs : List Gp, dgpsF v sp fin gs = dgps v sp gs ++ fin
  | [] => rfl
  | g :: gs => by simp [dgpsF, dgps, dgpsF_eq sp fin gs]

theorem dTextF_eq (sp fin : Str) (g : Gp) (gs : List Gp) : dTextF v sp fin g gs = dText v sp g gs ++ fin := by
  simp [dTextF, dText, dgpsF_eq]

theorem dTextF_nil (sp : Str) (g : Gp) (gs : List Gp) : dTextF v sp [] g gs = dText v sp g gs := by simp [dTextF_eq]

/-- the header matches (`mkL` for the last one) -/
def dhdrMsF (v : Char) (mk mkL : Hd → Nat → Match) (sp : Str) : Nat → Gp → List Gp → List Match
  | q, g, [] => [mkL g.h (q + (g.l.rt ++ rlns g.ls).length + 1)]
  | q, g, g' :: gs => mk g.h (q + (g.l.rt ++ rlns g.ls).length + 1) :: dhdrMsF v mk mkL sp (q + (g.dt v).length + sp.length) g' gs

/-- tiling by headers, the white space behind a header swallowed with it if `eat` -/
theorem dTilesF (r : Rx) (hg : GapSkips r) (hr : RGap r) (hd : DGap r) (sp fin : Str) (hsp : SepOk sp) (eat : Bool)
    (mk : Hd → Nat → Match)
    (htok : ∀ (h : Hd) (l : Ln) (rest : Str) (prev : Option Char) (pos : Nat), h.Ok → l.Ok →
       isWord Gen.cs_14d6aa8a prev = false →
       matchHere r ⟨prev, h.text ++ (sp ++ (l.d ++ rest)), pos, []⟩ false = some (mk h pos) ∧ (mk h pos).start = pos ∧
       (mk h pos).stop = pos + h.text.length + (if eat then sp.length else 0))
    (mkL : Hd → Nat → Match)
    (htokL : ∀ (h : Hd) (prev : Option Char) (pos : Nat), h.Ok → isWord Gen.cs_14d6aa8a prev = false →
       matchHere r ⟨prev, h.text ++ fin, pos, []⟩ false = some (mkL h pos) ∧ (mkL h pos).start = pos ∧
       (mkL h pos).stop = pos + h.text.length + (if eat then fin.length else 0))
    (hfinT : eat = false → ∀ p pos, Tiles r p fin pos []) :
    ∀ (gs : List Gp) (g : Gp) (w : Str) (q : Nat) (prev : Option Char), WsOk w → g.Ok → (∀ x ∈ gs, x.Ok) →
      Tiles r prev (w ++ ((g.dt v) ++ dgpsF v sp fin gs)) q (dhdrMsF v mk mkL sp (q + w.length) g gs) := by
  intro gs
  induction gs with
  | nil =>
    intro g w q prev hw hok _
    have hl := hok.ls g.l (by simp [Gp.lines])
    have hls : ∀ x ∈ g.ls, x.Ok := fun x hx => hok.ls x (by simp [Gp.lines, hx])
    have htxt : w ++ ((g.dt v) ++ dgpsF v sp fin []) = (w ++ (g.l.rt ++ rlns g.ls)) ++ (v :: (g.h.text ++ fin)) := by
      simp [Gp.dt, dgpsF]
    rw [htxt]
    refine Tiles.skipSeg (rbody_skips hg hr w hw g.l g.ls _ hl hls) _ _ ?_
    refine Tiles.skip _ v _ _ _ (matchHere_of_failsOn (hd.hdr v g.h _ VSep.ok hok.h) _ _ false) ?_
    obtain ⟨h1, h2, h3⟩ := htokL g.h (some v) (q + (w ++ (g.l.rt ++ rlns g.ls)).length + 1) hok.h isWord_v
    have hpos : q + (w ++ (g.l.rt ++ rlns g.ls)).length + 1 = q + w.length + (g.l.rt ++ rlns g.ls).length + 1 := by
      simp only [List.length_append]; omega
    simp only [dhdrMsF]
    rw [← hpos]
    cases eat with
    | false =>
      simp only [Bool.false_eq_true, if_false, Nat.add_zero] at h3
      exact Tiles.tok _ g.h.text fin _ _ [] h1 h2 h3 g.h.text_ne (hfinT rfl _ _)
    | true =>
      simp only [if_true] at h3
      have hne : g.h.text ++ fin ≠ [] := by simp [Hd.text, canonText]
      have := Tiles.tok (some v) (g.h.text ++ fin) [] _ _ [] (by simpa using h1) h2
        (by rw [h3]; simp only [List.length_append]; omega) hne (Tiles.nil _ _ (matchHere_of_failsOn hg.fin0 _ _ false))
      simpa using this
  | cons g' gs ih =>
    intro g w q prev hw hok hgs
    have hok' := hgs g' (by simp)
    have hgs' : ∀ x ∈ gs, x.Ok := fun x hx => hgs x (by simp [hx])
    have hl := hok.ls g.l (by simp [Gp.lines])
    have hls : ∀ x ∈ g.ls, x.Ok := fun x hx => hok.ls x (by simp [Gp.lines, hx])
    have hl' := hok'.ls g'.l (by simp [Gp.lines])
    have htxt : w ++ ((g.dt v) ++ dgpsF v sp fin (g' :: gs)) =
        (w ++ (g.l.rt ++ rlns g.ls)) ++ (v :: (g.h.text ++ (sp ++ ((g'.dt v) ++ dgpsF v sp fin gs)))) := by
      simp [Gp.dt, dgpsF]
    rw [htxt]
    refine Tiles.skipSeg (rbody_skips hg hr w hw g.l g.ls _ hl hls) _ _ ?_
    refine Tiles.skip _ v _ _ _ (matchHere_of_failsOn (hd.hdr v g.h _ VSep.ok hok.h) _ _ false) ?_
    have hdt : (g'.dt v) ++ dgpsF v sp fin gs = g'.l.d ++ ((',' :: ' ' :: g'.l.ref) ++ rlns g'.ls ++ v :: g'.h.text ++ dgpsF v sp fin gs) := by
      simp [Gp.dt, Ln.rt]
    obtain ⟨h1, h2, h3⟩ := htok g.h g'.l ((',' :: ' ' :: g'.l.ref) ++ rlns g'.ls ++ v :: g'.h.text ++ dgpsF v sp fin gs) (some v)
      (q + (w ++ (g.l.rt ++ rlns g.ls)).length + 1) hok.h hl' isWord_v
    rw [← hdt] at h1
    have hpos : q + (w ++ (g.l.rt ++ rlns g.ls)).length + 1 = q + w.length + (g.l.rt ++ rlns g.ls).length + 1 := by
      simp only [List.length_append]; omega
    rw [show dhdrMsF v mk mkL sp (q + w.length) g (g' :: gs) = mk g.h (q + w.length + (g.l.rt ++ rlns g.ls).length + 1) ::
      dhdrMsF v mk mkL sp (q + w.length + (g.dt v).length + sp.length) g' gs from rfl]
    rw [← hpos]
    cases eat with
    | false =>
      simp only [Bool.false_eq_true, if_false, Nat.add_zero] at h3
      refine Tiles.tok _ g.h.text _ _ _ _ h1 h2 h3 g.h.text_ne ?_
      have := ih g' sp (q + (w ++ (g.l.rt ++ rlns g.ls)).length + 1 + g.h.text.length) (lastOr (some v) g.h.text) hsp.ws hok' hgs'
      have hq : q + (w ++ (g.l.rt ++ rlns g.ls)).length + 1 + g.h.text.length + sp.length = q + w.length + (g.dt v).length + sp.length := by
        rw [g.dt_length v]; simp only [List.length_append]; omega
      rw [hq] at this
      exact this
    | true =>
      simp only [if_true] at h3
      have hne : g.h.text ++ sp ≠ [] := by simp [Hd.text, canonText]
      have e : g.h.text ++ (sp ++ ((g'.dt v) ++ dgpsF v sp fin gs)) = (g.h.text ++ sp) ++ ((g'.dt v) ++ dgpsF v sp fin gs) := by simp
      rw [e] at h1 ⊢
      refine Tiles.tok _ (g.h.text ++ sp) _ _ _ _ h1 h2 (by rw [h3]; simp only [List.length_append]; omega) hne ?_
      have := ih g' [] (q + (w ++ (g.l.rt ++ rlns g.ls)).length + 1 + (g.h.text ++ sp).length) (lastOr (some v) (g.h.text ++ sp))
        wsOk_nil hok' hgs'
      have hq : q + (w ++ (g.l.rt ++ rlns g.ls)).length + 1 + (g.h.text ++ sp).length + ([] : Str).length =
          q + w.length + (g.dt v).length + sp.length := by
        rw [g.dt_length v]; simp only [List.length_append, List.length_nil]; omega
      rw [hq] at this
      simpa using this

/-- **one scrubbing pass along the headers** of the desc–Sec–Twp/Rge text -/
theorem rewrite_dhdrF (p : Pat) (ns ew sp fin : Str) (hsp : SepOk sp) (hfin : FinB fin) (eat : Bool) (mk mkL : Hd → Nat → Match) (text : Str)
    (hstart : ∀ h pos, (mk h pos).start = pos)
    (hstop : ∀ h pos, (mk h pos).stop = pos + h.text.length + (if eat then sp.length else 0))
    (hstartL : ∀ h pos, (mkL h pos).start = pos)
    (hstopL : ∀ h pos, (mkL h pos).stop = pos + h.text.length + (if eat then fin.length else 0))
    (hcan : ∀ (h : Hd) (pre ctx : Str), h.Ok → h.Canon → EndsTwprge ctx → text = pre ++ (h.text ++ ctx) →
      canonTR p (mk h pre.length) text ns ew false = h.text)
    (hcanL : ∀ (h : Hd) (pre ctx : Str), h.Ok → h.Canon → EndsTwprge ctx → text = pre ++ (h.text ++ ctx) →
      canonTR p (mkL h pre.length) text ns ew false = h.text) :
    ∀ (gs : List Gp) (g : Gp) (pre mid : Str), (g.Ok ∧ g.h.Canon) → (∀ x ∈ gs, x.Ok ∧ x.h.Canon) →
      text = pre ++ mid ++ ((g.dt v) ++ dgpsF v sp fin gs) →
      rewrite p text ns ew false (dhdrMsF v mk mkL sp (pre ++ mid).length g gs) pre.length =
        mid ++ ((g.dt v) ++ dgpsF v (newSep eat sp) (newSep eat fin) gs)
  | [], g, pre, mid, hgc, _, htext => by
    have hP : (pre ++ mid ++ (g.l.rt ++ rlns g.ls) ++ [v]).length = (pre ++ mid).length + (g.l.rt ++ rlns g.ls).length + 1 := by
      simp only [List.length_append, List.length_cons, List.length_nil]
    have hm := hcanL g.h (pre ++ mid ++ (g.l.rt ++ rlns g.ls) ++ [v]) fin hgc.1.h hgc.2 (endsTwprge_fin fin hfin)
      (by rw [htext]; simp [Gp.dt, dgpsF])
    rw [hP] at hm
    have hsl : slice text pre.length ((pre ++ mid).length + (g.l.rt ++ rlns g.ls).length + 1) = mid ++ (g.l.rt ++ rlns g.ls) ++ [v] :=
      slice_at text pre _ (g.h.text ++ fin) _ _ (by rw [htext]; simp [Gp.dt, dgpsF]) rfl
        (by simp only [List.length_append, List.length_cons, List.length_nil]; omega)
    simp only [dhdrMsF, rewrite, hstartL, hstopL, hm, hsl, dgpsF]
    cases eat with
    | false =>
      have hd : text.drop ((pre ++ mid).length + (g.l.rt ++ rlns g.ls).length + 1 + g.h.text.length + 0) = fin := by
        have : text = (pre ++ mid ++ (g.l.rt ++ rlns g.ls) ++ [v] ++ g.h.text) ++ fin := by rw [htext]; simp [Gp.dt, dgpsF]
        rw [this]
        have hl : (pre ++ mid).length + (g.l.rt ++ rlns g.ls).length + 1 + g.h.text.length + 0 =
            (pre ++ mid ++ (g.l.rt ++ rlns g.ls) ++ [v] ++ g.h.text).length := by
          simp only [List.length_append, List.length_cons, List.length_nil]; omega
        rw [hl, List.drop_left]
      simp only [Bool.false_eq_true, if_false, hd, newSep]
      simp [Gp.dt]
    | true =>
      have hd : text.drop ((pre ++ mid).length + (g.l.rt ++ rlns g.ls).length + 1 + g.h.text.length + fin.length) = [] := by
        rw [List.drop_eq_nil_iff, htext]; simp [Gp.dt, dgpsF]; omega
      simp only [if_true, hd, newSep]
      simp [Gp.dt]
  | g' :: gs, g, pre, mid, hgc, hgs, htext => by
    have hg' := hgs g' (by simp)
    have hgs' : ∀ x ∈ gs, x.Ok ∧ x.h.Canon := fun x hx => hgs x (by simp [hx])
    have hP : (pre ++ mid ++ (g.l.rt ++ rlns g.ls) ++ [v]).length = (pre ++ mid).length + (g.l.rt ++ rlns g.ls).length + 1 := by
      simp only [List.length_append, List.length_cons, List.length_nil]
    have hm := hcan g.h (pre ++ mid ++ (g.l.rt ++ rlns g.ls) ++ [v]) (sp ++ ((g'.dt v) ++ dgpsF v sp fin gs)) hgc.1.h hgc.2
      (endsTwprge_sep sp _ hsp) (by rw [htext]; simp [Gp.dt, dgpsF])
    rw [hP] at hm
    have hsl : slice text pre.length ((pre ++ mid).length + (g.l.rt ++ rlns g.ls).length + 1) = mid ++ (g.l.rt ++ rlns g.ls) ++ [v] :=
      slice_at text pre _ (g.h.text ++ dgpsF v sp fin (g' :: gs)) _ _ (by rw [htext]; simp [Gp.dt]) rfl
        (by simp only [List.length_append, List.length_cons, List.length_nil]; omega)
    rw [show dhdrMsF v mk mkL sp (pre ++ mid).length g (g' :: gs) = mk g.h ((pre ++ mid).length + (g.l.rt ++ rlns g.ls).length + 1) ::
      dhdrMsF v mk mkL sp ((pre ++ mid).length + (g.dt v).length + sp.length) g' gs from rfl]
    simp only [rewrite, hstart, hstop, hm, hsl]
    cases eat with
    | false =>
      have ih := rewrite_dhdrF p ns ew sp fin hsp hfin false mk mkL text hstart hstop hstartL hstopL hcan hcanL gs g'
        (pre ++ mid ++ (g.dt v)) sp hg' hgs' (by rw [htext]; simp [dgpsF])
      have hl1 : (pre ++ mid ++ (g.dt v) ++ sp).length = (pre ++ mid).length + (g.dt v).length + sp.length := by
        simp only [List.length_append]
      have hl2 : (pre ++ mid ++ (g.dt v)).length = (pre ++ mid).length + (g.l.rt ++ rlns g.ls).length + 1 + g.h.text.length + 0 := by
        rw [List.length_append (as := pre ++ mid), g.dt_length v]; omega
      rw [hl1, hl2] at ih
      simp only [Bool.false_eq_true, if_false, ih, newSep]
      simp [Gp.dt, dgpsF]
    | true =>
      have ih := rewrite_dhdrF p ns ew sp fin hsp hfin true mk mkL text hstart hstop hstartL hstopL hcan hcanL gs g'
        (pre ++ mid ++ (g.dt v) ++ sp) [] hg' hgs' (by rw [htext]; simp [dgpsF])
      have hl1 : (pre ++ mid ++ (g.dt v) ++ sp ++ []).length = (pre ++ mid).length + (g.dt v).length + sp.length := by
        simp only [List.length_append, List.length_nil]; omega
      have hl2 : (pre ++ mid ++ (g.dt v) ++ sp).length = (pre ++ mid).length + (g.l.rt ++ rlns g.ls).length + 1 + g.h.text.length + sp.length := by
        rw [List.length_append, List.length_append (as := pre ++ mid), g.dt_length v]; omega
      rw [hl1, hl2] at ih
      simp only [if_true, ih, newSep]
      simp [Gp.dt, dgpsF]

/-- one pass of a scrubber whose matches are the headers -/
theorem scrub_dText (name : String) (p : Pat) (hp : findPat name = p) (hocr : (name == Gen.PLSS_OCR_SCRUBBER) = false)
    (hg : GapSkips p.rx) (hr : RGap p.rx) (hd : DGap p.rx) (sp fin : Str) (hsp : SepOk sp) (hfin : FinB fin) (eat : Bool) (mk mkL : Hd → Nat → Match)
    (hstart : ∀ h pos, (mk h pos).start = pos)
    (hstop : ∀ h pos, (mk h pos).stop = pos + h.text.length + (if eat then sp.length else 0))
    (hstartL : ∀ h pos, (mkL h pos).start = pos)
    (hstopL : ∀ h pos, (mkL h pos).stop = pos + h.text.length + (if eat then fin.length else 0))
    (htok : ∀ (h : Hd) (l : Ln) (rest : Str) (prev : Option Char) (pos : Nat), h.Ok → l.Ok →
       isWord Gen.cs_14d6aa8a prev = false →
       matchHere p.rx ⟨prev, h.text ++ (sp ++ (l.d ++ rest)), pos, []⟩ false = some (mk h pos))
    (htokL : ∀ (h : Hd) (prev : Option Char) (pos : Nat), h.Ok → isWord Gen.cs_14d6aa8a prev = false →
       matchHere p.rx ⟨prev, h.text ++ fin, pos, []⟩ false = some (mkL h pos))
    (hfinT : eat = false → ∀ pv pos, Tiles p.rx pv fin pos [])
    (ns ew : Str) (h1 : isLegal Gen.LEGAL_NS ns = true) (h2 : isLegal Gen.LEGAL_EW ew = true)
    (hcan : ∀ (text : Str) (h : Hd) (pre ctx : Str), h.Ok → h.Canon → EndsTwprge ctx → text = pre ++ (h.text ++ ctx) →
      canonTR p (mk h pre.length) text ns ew false = h.text)
    (hcanL : ∀ (text : Str) (h : Hd) (pre ctx : Str), h.Ok → h.Canon → EndsTwprge ctx → text = pre ++ (h.text ++ ctx) →
      canonTR p (mkL h pre.length) text ns ew false = h.text)
    (g : Gp) (gs : List Gp) (hgc : g.Ok ∧ g.h.Canon) (hgs : ∀ x ∈ gs, x.Ok ∧ x.h.Canon) :
    subScrubber name (dTextF v sp fin g gs) ns ew = .ok (dTextF v (newSep eat sp) (newSep eat fin) g gs) := by
  have hgs' : ∀ x ∈ gs, x.Ok := fun x hx => (hgs x hx).1
  have hfi : p.rx.finditer (dTextF v sp fin g gs) = dhdrMsF v mk mkL sp 0 g gs := by
    have := (dTilesF (v := v) p.rx hg hr hd sp fin hsp eat mk
      (fun h l rest prev pos hh hl hprev => ⟨htok h l rest prev pos hh hl hprev, hstart h pos, hstop h pos⟩) mkL
      (fun h prev pos hh hprev => ⟨htokL h prev pos hh hprev, hstartL h pos, hstopL h pos⟩) hfinT
      gs g [] 0 none wsOk_nil hgc.1 hgs').finditer_eq
    simpa [dTextF] using this
  rw [C08_subScrubber_rewrites name _ ns ew h1 h2, hp, hocr, hfi]
  have := rewrite_dhdrF (v := v) p ns ew sp fin hsp hfin eat mk mkL (dTextF v sp fin g gs) hstart hstop hstartL hstopL (hcan _) (hcanL _)
    gs g [] [] hgc hgs (by simp [dTextF])
  simp only [List.append_nil, List.length_nil, List.nil_append] at this
  rw [this]; rfl

theorem twprge_hcanD (ns ew : Str) (text : Str) (h : Hd) (pre ctx : Str) (hok : h.Ok) (hc : h.Canon) (hctx : EndsTwprge ctx)
    (htext : text = pre ++ (h.text ++ ctx)) : canonTR twprge (twMk h pre.length) text ns ew false = h.text := by
  have hv := h.valid hok ctx hctx
  have htext' : text = pre ++ (h.sp.text ++ ctx) := by rw [htext, h.sp_text]
  rw [htext']
  exact (h.sp.canonTR_at pre _ hv ns ew).trans (h.canon_text hok hc)

/-- scrubber 1 (`twprge_regex`) -/
theorem scrub1_dText (sp fin : Str) (hsp : SepOk sp) (hfin : FinB fin) (ns ew : Str) (h1 : isLegal Gen.LEGAL_NS ns = true)
    (h2 : isLegal Gen.LEGAL_EW ew = true) (g : Gp) (gs : List Gp) (hgc : g.Ok ∧ g.h.Canon) (hgs : ∀ x ∈ gs, x.Ok ∧ x.h.Canon) :
    subScrubber "twprge_regex" (dTextF v sp fin g gs) ns ew = .ok (dTextF v (' ' :: sp) (' ' :: fin) g gs) :=
  scrub_dText "twprge_regex" twprge rfl (by decide) twprge_gapSkips twprge_rGap twprge_dGap sp fin hsp hfin false twMk twMk (fun _ _ => rfl)
    (fun h pos => by simp [twMk, Spelling.matchAt, h.sp_text]) (fun _ _ => rfl)
    (fun h pos => by simp [twMk, Spelling.matchAt, h.sp_text])
    (fun h l rest prev pos hh hl hprev => (twprge_tokD h _ prev pos hh (endsTwprge_sep sp _ hsp) hprev).1)
    (fun h prev pos hh hprev => (twprge_tokD h _ prev pos hh (endsTwprge_fin fin hfin) hprev).1)
    (fun _ => fin_tiles twprge_mustDigit fin hfin) ns ew h1 h2
    (fun text h pre ctx hh hc hctx ht => twprge_hcanD ns ew text h pre ctx hh hc hctx ht)
    (fun text h pre ctx hh hc hctx ht => twprge_hcanD ns ew text h pre ctx hh hc hctx ht) g gs hgc hgs

/-- the common part of scrubbers 2–4 -/
theorem scrubPP_dText (name : String) (p : Pat) (hp : findPat name = p) (hocr : (name == Gen.PLSS_OCR_SCRUBBER) = false)
    (hg : GapSkips p.rx) (hr : RGap p.rx) (hd : DGap p.rx) (hmust : p.rx.mustHitP (fun cs => cs.sub digitD) = true)
    (hidx : p.idx? "twpnum" = some 3 ∧ p.idx? "ns" = some 4 ∧ p.idx? "rgenum" = some 6 ∧ p.idx? "ew" = some 7)
    (caps : Str → Str → Nat → Caps) (hcaps : ∀ t r pos stop, CanonAt ⟨pos, stop, caps t r pos⟩ pos t r)
    (hat : ∀ (t r : Str) (nc ec : Char) (ctx : Str), CanonHyp t r nc ec ctx → ∀ (prev : Option Char) (pos : Nat),
      isWord Gen.cs_14d6aa8a prev = false →
      matchHere p.rx ⟨prev, canonText t nc r ec ++ ctx, pos, []⟩ false = some ⟨pos, pos + (5 + t.length + r.length), caps t r pos⟩)
    (sp fin : Str) (hsp : SepOk sp) (hfin : FinB fin) (ns ew : Str) (h1 : isLegal Gen.LEGAL_NS ns = true) (h2 : isLegal Gen.LEGAL_EW ew = true)
    (g : Gp) (gs : List Gp) (hgc : g.Ok ∧ g.h.Canon) (hgs : ∀ x ∈ gs, x.Ok ∧ x.h.Canon) :
    subScrubber name (dTextF v sp fin g gs) ns ew = .ok (dTextF v (' ' :: sp) (' ' :: fin) g gs) := by
  have hcanPP : ∀ (text : Str) (h : Hd) (pre ctx : Str), h.Ok → h.Canon → EndsTwprge ctx → text = pre ++ (h.text ++ ctx) →
      canonTR p (⟨pre.length, pre.length + (5 + h.t.length + h.r.length), caps h.t h.r pre.length⟩ : Match) text ns ew false = h.text := by
    intro text h pre ctx hh hc _ htext
    have htext' : text = pre ++ (canonText h.t h.ns h.r h.ew ++ ctx) := by rw [htext]; rfl
    rw [htext']
    exact (canonTR_of_canonAt p hidx _ h.t h.r h.ns h.ew pre _ (hcaps _ _ _ _) hh.ns hh.ew ns ew).trans (h.canon_canonText hc)
  exact scrub_dText name p hp hocr hg hr hd sp fin hsp hfin false
    (fun h pos => ⟨pos, pos + (5 + h.t.length + h.r.length), caps h.t h.r pos⟩)
    (fun h pos => ⟨pos, pos + (5 + h.t.length + h.r.length), caps h.t h.r pos⟩) (fun _ _ => rfl)
    (fun h pos => by simp [h.text_length]) (fun _ _ => rfl) (fun h pos => by simp [h.text_length])
    (fun h l rest prev pos hh hl hprev => hat h.t h.r h.ns h.ew _ (h.canonHyp hh _ (endsTwprge_sep sp _ hsp)) prev pos hprev)
    (fun h prev pos hh hprev => hat h.t h.r h.ns h.ew _ (h.canonHyp hh _ (endsTwprge_fin fin hfin)) prev pos hprev)
    (fun _ => fin_tiles hmust fin hfin) ns ew h1 h2 hcanPP hcanPP g gs hgc hgs

/-- the characters of the text -/
theorem docCh_dgroup (g : Gp) (hok : g.Ok) : ∀ c ∈ (g.dt v), DocCh c := by
  intro c hc
  simp only [Gp.dt, List.mem_append, List.mem_cons] at hc
  rcases hc with (hc | hc) | rfl | hc
  · exact docCh_rline g.l (hok.ls g.l (by simp [Gp.lines])) c hc
  · exact docCh_rlns g.ls (fun x hx => hok.ls x (by simp [Gp.lines, hx])) c hc
  · exact Or.inl hdrPlain_v
  · exact docCh_hdr g.h hok.h c hc

theorem docCh_dgpsF (sp fin : Str) (hsp : SepOk sp) (hfin : FinB fin) : ∀ (gs : List Gp), (∀ g ∈ gs, g.Ok) →
    ∀ c ∈ dgpsF v sp fin gs, DocCh c
  | [], _, c, hc => by
    rcases hfin c hc with rfl | rfl <;> exact Or.inl (by decide)
  | g :: gs, hgs, c, hc => by
    simp only [dgpsF, List.mem_append] at hc
    rcases hc with hc | hc | hc
    · rcases hsp.chars c hc with rfl | rfl <;> exact Or.inl (by decide)
    · exact docCh_dgroup g (hgs g (by simp)) c hc
    · exact docCh_dgpsF sp fin hsp hfin gs (fun x hx => hgs x (by simp [hx])) c hc

theorem docCh_dTextF (sp fin : Str) (hsp : SepOk sp) (hfin : FinB fin) (g : Gp) (gs : List Gp) (hok : g.Ok) (hgs : ∀ x ∈ gs, x.Ok) :
    ∀ c ∈ dTextF v sp fin g gs, DocCh c := by
  intro c hc
  rw [dTextF, List.mem_append] at hc
  rcases hc with hc | hc
  · exact docCh_dgroup g hok c hc
  · exact docCh_dgpsF sp fin hsp hfin gs hgs c hc

/-- scrubber 5 (`pp_twprge_pm`) finds nothing -/
theorem scrub5_dText (sp fin : Str) (hsp : SepOk sp) (hfin : FinB fin) (ns ew : Str) (h1 : isLegal Gen.LEGAL_NS ns = true)
    (h2 : isLegal Gen.LEGAL_EW ew = true) (g : Gp) (gs : List Gp) (hok : g.Ok) (hgs : ∀ x ∈ gs, x.Ok) :
    subScrubber "pp_twprge_pm" (dTextF v sp fin g gs) ns ew = .ok (dTextF v sp fin g gs) := by
  have hm : Gen.pp_twprge_pm.mustHitP (fun cs => cs.sub pD) = true := by decide +kernel
  refine scrub_none "pp_twprge_pm" ppPmPat rfl _ ns ew h1 h2 (finditer_nil_of_noHit hm _ ?_)
  intro c hc
  exact docCh_avoid pD (by decide) (by decide +kernel) (by decide) (docCh_dTextF sp fin hsp hfin g gs hok hgs c hc)

theorem comma_hcanD (e : Str) (ns ew : Str) (text : Str) (h : Hd) (pre ctx : Str) (hok : h.Ok) (hc : h.Canon) (hctx : EndsTwprge ctx)
    (htext : text = pre ++ (h.text ++ ctx)) : canonTR commaPat (commaMk e h pre.length) text ns ew false = h.text := by
  have hv := h.valid hok ctx hctx
  have htext' : text = pre ++ (h.sp.text ++ ctx) := by rw [htext, h.sp_text]
  have := (h.sp.canonTR_at pre _ hv ns ew).trans (h.canon_text hok hc)
  rw [← htext'] at this
  rw [← this]
  simp only [canonTR, twpPart, rgePart, dirPart, commaMk, comma_group]

/-- scrubber 6 (`pp_twprge_comma_remove`): every header with ALL the white space behind it becomes the header and one blank -/
theorem scrub6_dText (sp fin : Str) (hsp : SepOk sp) (hfin : FinB fin) (ns ew : Str) (h1 : isLegal Gen.LEGAL_NS ns = true)
    (h2 : isLegal Gen.LEGAL_EW ew = true) (g : Gp) (gs : List Gp) (hgc : g.Ok ∧ g.h.Canon) (hgs : ∀ x ∈ gs, x.Ok ∧ x.h.Canon) :
    subScrubber "pp_twprge_comma_remove" (dTextF v sp fin g gs) ns ew = .ok (dTextF v [' '] [' '] g gs) :=
  scrub_dText "pp_twprge_comma_remove" commaPat rfl (by decide) comma_gapSkips comma_rGap comma_dGap sp fin hsp hfin true (commaMk sp) (commaMk fin)
    (fun _ _ => rfl) (fun h pos => by simp [commaMk]) (fun _ _ => rfl) (fun h pos => by simp [commaMk])
    (fun h l rest prev pos hh hl hprev => by
      obtain ⟨d0, d', e, hd0⟩ := inert_head_notWs hl.d
      have := comma_tokR sp hsp h d0 (d' ++ rest) hd0 prev pos hh hprev
      rw [e]
      have e2 : commaPat.rx = Gen.pp_twprge_comma_remove := rfl
      rw [e2]
      simpa using this)
    (fun h prev pos hh hprev => comma_tokL fin hfin h prev pos hh hprev) (fun h => by cases h) ns ew h1 h2
    (fun text h pre ctx hh hc hctx ht => comma_hcanD sp ns ew text h pre ctx hh hc hctx ht)
    (fun text h pre ctx hh hc hctx ht => comma_hcanD fin ns ew text h pre ctx hh hc hctx ht) g gs hgc hgs

/-! ### white-space reduction -/

theorem good_dgroup_after (x : Str) (hx : Good x) (w : Char) (g : Gp) (hok : g.Ok) : Good (x ++ w :: (g.dt v)) := by
  have h1 := good_rline_after x hx w g.l (hok.ls g.l (by simp [Gp.lines]))
  have h2 := good_rlns g.ls _ h1 (fun y hy => hok.ls y (by simp [Gp.lines, hy]))
  have h3 := h2.join (good_hdr g.h hok.h) v
  simpa [Gp.dt, List.append_assoc] using h3

theorem good_dgps : ∀ (gs : List Gp) (x : Str), Good x → (∀ g ∈ gs, g.Ok) → Good (x ++ dgps v [' '] gs)
  | [], x, hx, _ => by simpa [dgps] using hx
  | g :: gs, x, hx, hgs => by
    have h1 := good_dgroup_after (v := v) x hx ' ' g (hgs g (by simp))
    have := good_dgps gs _ h1 (fun y hy => hgs y (by simp [hy]))
    simpa [dgps, List.append_assoc] using this

theorem good_dText (g : Gp) (gs : List Gp) (hok : g.Ok) (hgs : ∀ x ∈ gs, x.Ok) : Good (dText v [' '] g gs) := by
  have hl := hok.ls g.l (by simp [Gp.lines])
  have h0 : Good g.l.rt := by
    have := ((good_desc g.l.d hl.d).snoc ',' ⟨by decide, by decide⟩).join (good_ref g.l hl) ' '
    simpa [Ln.rt, List.append_assoc] using this
  have h2 := good_rlns g.ls _ h0 (fun y hy => hok.ls y (by simp [Gp.lines, hy]))
  have h3 := h2.join (good_hdr g.h hok.h) v
  have := good_dgps (v := v) gs _ h3 hgs
  simpa [dText, Gp.dt, List.append_assoc] using this

/-- the final strip removes what stands behind the last Twp/Rge -/
theorem pyStrip_dText_fin (sp fin : Str) (hfin : FinB fin) (g : Gp) (gs : List Gp) (hok : g.Ok) (hgs : ∀ x ∈ gs, x.Ok) :
    pyStrip (dText v sp g gs ++ fin) = dText v sp g gs := by
  have h0 := pyStrip_dText (v := v) sp g gs hok hgs
  have hl := hok.ls g.l (by simp [Gp.lines])
  obtain ⟨d0, d', e, h1, h2⟩ := hl.d.head_cons
  have hne : d0 ≠ ' ' := by rintro rfl; rw [headDanger_blank] at h2; cases h2
  have hd0 : pyIsSpace d0 = false := notSpace_of_safe h1 hne
  have hlf : ∀ Y, lstripBy pyIsSpace (d0 :: Y) = d0 :: Y := fun Y => Pretty.lstripBy_head_false _ _ _ hd0
  have hsp : ∀ c ∈ fin, pyIsSpace c = true := by
    intro c hc
    rcases hfin c hc with rfl | rfl
    · exact pyIsSpace_blank
    · exact pyIsSpace_nl'
  have hhead : dText v sp g gs = d0 :: (d' ++ ((',' :: ' ' :: g.l.ref) ++ rlns g.ls ++ v :: g.h.text ++ dgps v sp gs)) := by
    simp [dText, Gp.dt, Ln.rt, e]
  unfold pyStrip stripBy at h0 ⊢
  rw [hhead] at h0 ⊢
  rw [hlf] at h0
  rw [List.cons_append, hlf, ← List.cons_append, Pretty.rstripBy_append_all _ _ _ hsp]
  exact h0

theorem reduceWhitespace_dText (fin : Str) (hfin : FinB fin) (g : Gp) (gs : List Gp) (hok : g.Ok) (hgs : ∀ x ∈ gs, x.Ok) :
    reduceWhitespace (dTextF v [' '] fin g gs) = some (dText v [' '] g gs) := by
  have hgood := good_dText (v := v) g gs hok hgs
  have hch : ∀ c ∈ dText v [' '] g gs, DocCh c := by
    have := docCh_dTextF (v := v) [' '] [] sepOk_blank finB_nil g gs hok hgs
    rwa [dTextF_nil] at this
  have hl := hok.ls g.l (by simp [Gp.lines])
  obtain ⟨d0, d', e, h1, h2⟩ := hl.d.head_cons
  have hne : d0 ≠ ' ' := by rintro rfl; rw [headDanger_blank] at h2; cases h2
  have hd0 : CharSet.mem [(9, 9), (32, 32)] d0 = false := by
    have hsub : CharSet.sub [(9, 9), (32, 32)] ((Gen.PY_SPACE : CharSet) ++ (Danger ++ HeadDanger)) = true := by decide +kernel
    exact noHit_of_notMem (head_out h1 h2) _ hsub
  have hhead : dText v [' '] g gs = d0 :: (d' ++ ((',' :: ' ' :: g.l.ref) ++ rlns g.ls ++ v :: g.h.text ++ dgps v [' '] gs)) := by
    simp [dText, Gp.dt, Ln.rt, e]
  have hstep : reduceWhitespaceStep (dText v [' '] g gs) = dText v [' '] g gs := by
    generalize hT : dText v [' '] g gs = T at hgood hch hhead
    have e0 : Gen.inl_plss_preprocess_reduce_whitespace_0.sub (S " ") T = T := sub_blank_runs T hgood.np
    have e1 : Gen.inl_plss_preprocess_reduce_whitespace_1.sub (S " ") T = T :=
      sub_id_of_noHit (P := fun cs => cs.sub [(9, 9)]) (by decide) _ _
        (fun c hc => docCh_avoid [(9, 9)] (by decide) (by decide +kernel) (by decide) (hch c hc))
    have e2 : Gen.inl_plss_preprocess_reduce_whitespace_2.sub (S "\n") T = T :=
      sub_id_of_noHit (P := fun cs => cs.sub [(13, 13)]) (by decide) _ _
        (fun c hc => docCh_avoid [(13, 13)] (by decide) (by decide +kernel) (by decide) (hch c hc))
    have e3 : Gen.inl_plss_preprocess_reduce_whitespace_3.sub (S "\n\n") T = T := sub_nl_runs T hgood.np
    have e4 : Gen.inl_plss_preprocess_reduce_whitespace_4.sub [] T = T := by
      rw [hhead]; exact sub_bos_blank d0 _ hd0
    unfold reduceWhitespaceStep
    simp only [e0, e1, e2, e3, e4]
  unfold reduceWhitespace
  simp only [dTextF_eq, pyStrip_dText_fin [' '] fin hfin g gs hok hgs]
  rw [show 2 * (dText v [' '] g gs).length + 8 = (2 * (dText v [' '] g gs).length + 7) + 1 from rfl]
  exact Tract.untilStable_of_fixed _ _ _ hstep

/-! ### `find_twprge` and `plss_preprocess` -/

theorem map_canon_dhdrF (p : Pat) (mk mkL : Hd → Nat → Match) (sp fin ns ew text : Str) (hsp : SepOk sp) (hfin : FinB fin)
    (hcan : ∀ (h : Hd) (pre ctx : Str), h.Ok → h.Canon → EndsTwprge ctx → text = pre ++ (h.text ++ ctx) →
      canonTR p (mk h pre.length) text ns ew false = h.text)
    (hcanL : ∀ (h : Hd) (pre ctx : Str), h.Ok → h.Canon → EndsTwprge ctx → text = pre ++ (h.text ++ ctx) →
      canonTR p (mkL h pre.length) text ns ew false = h.text) :
    ∀ (gs : List Gp) (g : Gp) (pre : Str), (g.Ok ∧ g.h.Canon) → (∀ x ∈ gs, x.Ok ∧ x.h.Canon) → text = pre ++ ((g.dt v) ++ dgpsF v sp fin gs) →
      (dhdrMsF v mk mkL sp pre.length g gs).map (fun m => canonTR p m text ns ew false) = (g :: gs).map (fun x => x.h.text)
  | [], g, pre, hgc, _, htext => by
    have hP : (pre ++ (g.l.rt ++ rlns g.ls) ++ [v]).length = pre.length + (g.l.rt ++ rlns g.ls).length + 1 := by
      simp only [List.length_append, List.length_cons, List.length_nil]
    have hm := hcanL g.h (pre ++ (g.l.rt ++ rlns g.ls) ++ [v]) fin hgc.1.h hgc.2 (endsTwprge_fin fin hfin)
      (by rw [htext]; simp [Gp.dt, dgpsF])
    rw [hP] at hm
    simp only [dhdrMsF, List.map_cons, List.map_nil, hm]
  | g' :: gs, g, pre, hgc, hgs, htext => by
    have hP : (pre ++ (g.l.rt ++ rlns g.ls) ++ [v]).length = pre.length + (g.l.rt ++ rlns g.ls).length + 1 := by
      simp only [List.length_append, List.length_cons, List.length_nil]
    have hm := hcan g.h (pre ++ (g.l.rt ++ rlns g.ls) ++ [v]) (sp ++ ((g'.dt v) ++ dgpsF v sp fin gs)) hgc.1.h hgc.2
      (endsTwprge_sep sp _ hsp) (by rw [htext]; simp [Gp.dt, dgpsF])
    rw [hP] at hm
    have ih := map_canon_dhdrF p mk mkL sp fin ns ew text hsp hfin hcan hcanL gs g' (pre ++ (g.dt v) ++ sp) (hgs g' (by simp))
      (fun x hx => hgs x (by simp [hx])) (by rw [htext]; simp [dgpsF])
    have hl : (pre ++ (g.dt v) ++ sp).length = pre.length + (g.dt v).length + sp.length := by simp only [List.length_append]
    rw [hl] at ih
    rw [show dhdrMsF v mk mkL sp pre.length g (g' :: gs) = mk g.h (pre.length + (g.l.rt ++ rlns g.ls).length + 1) ::
      dhdrMsF v mk mkL sp (pre.length + (g.dt v).length + sp.length) g' gs from rfl]
    simp only [List.map_cons, hm]
    congr 1

/-- `find_twprge` on the text: the Twp/Rges, in order -/
theorem findTwprgeRaw_dText (sp fin : Str) (hsp : SepOk sp) (hfin : FinB fin) (ns ew : Str) (h1 : isLegal Gen.LEGAL_NS ns = true)
    (h2 : isLegal Gen.LEGAL_EW ew = true) (g : Gp) (gs : List Gp) (hgc : g.Ok ∧ g.h.Canon) (hgs : ∀ x ∈ gs, x.Ok ∧ x.h.Canon) :
    findTwprgeRaw (dTextF v sp fin g gs) ns ew = .ok ((g :: gs).map (fun x => x.h.text)) := by
  have hfi : twprge.rx.finditer (dTextF v sp fin g gs) = dhdrMsF v twMk twMk sp 0 g gs := by
    have := (dTilesF (v := v) Gen.twprge_regex twprge_gapSkips twprge_rGap twprge_dGap sp fin hsp false twMk
      (fun h l rest prev pos hh hl hprev => by
        have := twprge_tokD h (sp ++ (l.d ++ rest)) prev pos hh (endsTwprge_sep sp _ hsp) hprev
        simpa using this) twMk
      (fun h prev pos hh hprev => by
        have := twprge_tokD h fin prev pos hh (endsTwprge_fin fin hfin) hprev
        simpa using this)
      (fun _ => fin_tiles twprge_mustDigit fin hfin) gs g [] 0 none wsOk_nil hgc.1 (fun x hx => (hgs x hx).1)).finditer_eq
    have e2 : twprge.rx = Gen.twprge_regex := rfl
    rw [e2]
    simpa [dTextF] using this
  rw [C08_findTwprgeRaw_order _ ns ew h1 h2, hfi]
  have := map_canon_dhdrF (v := v) twprge twMk twMk sp fin ns ew (dTextF v sp fin g gs) hsp hfin
    (fun h pre ctx hh hc hctx ht => twprge_hcanD ns ew _ h pre ctx hh hc hctx ht)
    (fun h pre ctx hh hc hctx ht => twprge_hcanD ns ew _ h pre ctx hh hc hctx ht) gs g [] hgc hgs (by simp [dTextF])
  simp only [List.length_nil] at this
  rw [this]

/-- **`plss_preprocess` on the canonical text of the layout desc–Sec–Twp/Rge** (whatever blanks / line breaks stand behind
    the Twp/Rges, also behind the last one): the separator behind every inner Twp/Rge becomes one blank, what stands behind
    the last Twp/Rge is removed, everything else is kept; no `fixed_twprge`, no divergence -/
theorem plssPreprocess_dText (mc : MC) (defNS defEW : Option Str)
    (hm1 : isLegal Gen.LEGAL_NS mc.ns = true) (hm2 : isLegal Gen.LEGAL_EW mc.ew = true)
    (h1 : isLegal Gen.LEGAL_NS (resolve defNS mc.ns) = true) (h2 : isLegal Gen.LEGAL_EW (resolve defEW mc.ew) = true)
    (sp fin : Str) (hsp : SepOk sp) (hfin : FinB fin) (g : Gp) (gs : List Gp) (hgc : g.Ok ∧ g.h.Canon)
    (hgs : ∀ x ∈ gs, x.Ok ∧ x.h.Canon) :
    plssPreprocess mc (dTextF v sp fin g gs) defNS defEW false =
      .ok { text := dText v [' '] g gs, fixed := [], diverged := false } := by
  have hgs' : ∀ x ∈ gs, x.Ok := fun x hx => (hgs x hx).1
  have hsp1 := sepOk_cons_blank hsp
  have hsp2 := sepOk_cons_blank hsp1
  have hsp3 := sepOk_cons_blank hsp2
  have hsp4 := sepOk_cons_blank hsp3
  have hf1 := hfin.cons_blank
  have hf2 := hf1.cons_blank
  have hf3 := hf2.cons_blank
  have hf4 := hf3.cons_blank
  have ho := findTwprgeRaw_dText (v := v) sp fin hsp hfin mc.ns mc.ew hm1 hm2 g gs hgc hgs
  have hp := findTwprgeRaw_dText (v := v) [' '] [] sepOk_blank finB_nil mc.ns mc.ew hm1 hm2 g gs hgc hgs
  rw [dTextF_nil] at hp
  have s1 := scrub1_dText (v := v) sp fin hsp hfin _ _ h1 h2 g gs hgc hgs
  have s2 := scrubPP_dText (v := v) "pp_twprge_no_nswe" ppNswePat rfl (by decide) nswe_gapSkips nswe_rGap nswe_dGap nswe_mustDigit (by decide) nsweCaps canonAt_nswe
    (fun t r nc ec ctx h prev pos hprev => no_nswe_at t r nc ec ctx h prev pos hprev) _ _ hsp1 hf1 _ _ h1 h2 g gs hgc hgs
  have s3 := scrubPP_dText (v := v) "pp_twprge_no_nsr" ppNsrPat rfl (by decide) nsr_gapSkips nsr_rGap nsr_dGap nsr_mustDigit (by decide) nsrCaps canonAt_nsr
    (fun t r nc ec ctx h prev pos hprev => no_nsr_at t r nc ec ctx h prev pos hprev) _ _ hsp2 hf2 _ _ h1 h2 g gs hgc hgs
  have s4 := scrubPP_dText (v := v) "pp_twprge_no_ewt" ppEwtPat rfl (by decide) ewt_gapSkips ewt_rGap ewt_dGap ewt_mustDigit (by decide) ewtCaps canonAt_ewt
    (fun t r nc ec ctx h prev pos hprev => no_ewt_at t r nc ec ctx h prev pos hprev) _ _ hsp3 hf3 _ _ h1 h2 g gs hgc hgs
  have s5 := scrub5_dText (v := v) _ _ hsp4 hf4 _ _ h1 h2 g gs hgc.1 hgs'
  have s6 := scrub6_dText (v := v) _ _ hsp4 hf4 _ _ h1 h2 g gs hgc hgs
  have hrw := reduceWhitespace_dText (v := v) [' '] finB_blank g gs hgc.1 hgs'
  have hnames : scrubberNames false = ["twprge_regex", "pp_twprge_no_nswe", "pp_twprge_no_nsr", "pp_twprge_no_ewt",
    "pp_twprge_pm", "pp_twprge_comma_remove"] := rfl
  unfold plssPreprocess
  simp only [ho, hnames, List.foldlM_cons, List.foldlM_nil, s1, s2, s3, s4, s5, s6, bind, Except.bind, pure, Except.pure, hrw, hp,
    C08_fixed_nil_of_same]

/-! ## Part 11 — the whole parser on the canonical text of the layout desc–Sec–Twp/Rge -/

/-- **C01 — the layout desc–Sec–Twp/Rge on TEXT, through the whole parser, with no lexical premise.**
    For every abstract description — a non-empty list of standard Twp/Rges (numbers below 1000), each with a non-empty list
    of (two-digit section, inert block) — the canonical text `dTextF v sp fin g gs` (per group the lines `<block>, Sec nn:`, a
    blank or line break `v`, the Twp/Rge; any blanks / line breaks `sp` between the groups and `fin`, possibly none, at the end) is parsed
    by `PLSSParser` (layout deduced or given as desc_STR; any `require_colon` mode, any `clean_up`, any legal default
    directions; no OCR scrubbing, no segmenting, no `sec_within`) into exactly one tract per line, in reading order, with the
    Twp/Rge that closes its group, its section and its block verbatim; the layout is desc_STR; the preprocessed text has one
    blank between the groups; there is no error flag; no tract has an error Twp/Rge/Sec. -/
theorem C01_canonical_forward_desc_STR (mc : MC) (uid0 : Nat) (a : ParserArgs) (sp fin : Str) (hsp : SepOk sp) (hfin : FinB fin)
    (g : Gp) (gs : List Gp) (hstd : ∀ x ∈ g :: gs, StdGp x)
    (hm1 : isLegal Gen.LEGAL_NS mc.ns = true) (hm2 : isLegal Gen.LEGAL_EW mc.ew = true)
    (h1 : isLegal Gen.LEGAL_NS (resolve a.defaultNS mc.ns) = true) (h2 : isLegal Gen.LEGAL_EW (resolve a.defaultEW mc.ew) = true)
    (ha1 : a.ocrScrub = false) (ha2 : a.segment = false) (ha3 : a.secWithin = false)
    (hlay : a.layout = none ∨ a.layout = some DESC_STR) (hd : Str) (c : Config.Cfg)
    (hhd : handedDownText a = .ok hd) (hcfg : Config.ofText hd = .ok c) :
    ∃ out, plssParser mc uid0 (dTextF v sp fin g gs) a = .ok out ∧ out.layout = DESC_STR ∧
      out.text = dText v [' '] g gs ∧ out.fl.e = [] ∧
      out.tracts.map (fun t => (t.trs, t.desc)) = (docTracts (g :: gs)).map (fun p => (TRS.trsToDict (some p.1), p.2)) ∧
      (∀ t ∈ out.tracts, TRS.isError t.trs = false) := by
  have hok : g.Ok := (hstd g (by simp)).ok
  have hgs : ∀ x ∈ gs, x.Ok := fun x hx => (hstd x (by simp [hx])).ok
  have hgsc : ∀ x ∈ gs, x.Ok ∧ x.h.Canon := fun x hx => ⟨(hstd x (by simp [hx])).ok, (hstd x (by simp [hx])).canon⟩
  have hall : ∀ x ∈ g :: gs, x.Ok := fun x hx => (hstd x hx).ok
  -- preprocessing
  have hpp := plssPreprocess_dText (v := v) mc a.defaultNS a.defaultEW hm1 hm2 h1 h2 sp fin hsp hfin g gs ⟨hok, (hstd g (by simp)).canon⟩ hgsc
  -- the layout
  have hdl := deduceLayout_dText (v := v) [' '] sepOk_blank g gs hok hgs
  -- the chunk
  let pc : ParserCfg := { mandateLayout := !a.segment && a.layout.isSome, requireColon := a.requireColon, secWithin := a.secWithin }
  obtain ⟨ck, k1, k2, _, k4⟩ := C01_chunk_canonical_desc_STR_unused (v := v) mc pc hm1 hm2 [' '] sepOk_blank g gs hok hgs DESC_STR (fun _ => rfl)
  obtain ⟨k5, k6⟩ := k4 ha3
  have hne : ck.comps.isEmpty = false := by
    rw [k5]; simp [docComps, Gp.lines]
  -- the tracts
  obtain ⟨ts, hts, hlen⟩ := C03_buildTracts_total uid0 hd a.parseQQ a.source (dTextF v sp fin g gs) TRS.trsToDict c hcfg
    ((docPairs (g :: gs)).map (fun p => (p.2.d, p.1 ++ [p.2.n1, p.2.n2], false))) 0
  have hpairs := TractsOf.buildTracts_pairs _ _ _ _ _ _ _ _ _ hts
  have hidx : secWithinIndexes ((docPairs (g :: gs)).map (fun p => (p.2.d, p.1 ++ [p.2.n1, p.2.n2], false))) = [] :=
    secWithinIndexes_false _ (by intro s hs; simp only [List.mem_map] at hs; obtain ⟨p, _, rfl⟩ := hs; rfl)
  have hunused : ∀ u ∈ ck.unused, u.2.length < Gen.MIN_REPORTABLE_UNUSED_LEN := by
    intro u hu
    have : u.2 ∈ ck.unused.map (·.2) := List.mem_map_of_mem hu
    rw [k6] at this
    simp only [List.mem_append, List.mem_map, List.mem_singleton] at this
    rcases this with ⟨_, _, e⟩ | e
    · rw [← e]; show 1 < Gen.MIN_REPORTABLE_UNUSED_LEN; decide
    · rw [e]; decide
  have hnoerr : ∀ t ∈ ts, TRS.isError t.trs = false := by
    intro t ht
    have : (t.trs, t.desc) ∈ ts.map (fun t => (t.trs, t.desc)) := List.mem_map_of_mem ht
    rw [hpairs] at this
    simp only [List.map_map, List.mem_map, Function.comp_apply, Prod.mk.injEq] at this
    obtain ⟨p, hp, e1, _⟩ := this
    obtain ⟨a', b', ns, ew, ha', hb', hns, hew, hk, hl⟩ := docPairs_std _ hstd p hp
    rw [← e1, hk]
    exact (std_trs_ok a' b' ns ew ha' hb' hns hew p.2.n1 p.2.n2 hl.n1 hl.n2).1
  have hany : ts.any (fun t => TRS.isError t.trs) = false := by
    rw [List.any_eq_false]
    intro t ht
    simp [hnoerr t ht]
  have herr : ∀ fl, errorTractFlag fl ts = fl := by
    intro fl; unfold errorTractFlag; simp [hany]
  have hspecs' := fun cu => tractSpecs_pairs cu (docPairs (g :: gs)) (docPairs_ok _ hall)
  have hk1 : ∀ ml, parseChunkCore mc { mandateLayout := ml, requireColon := a.requireColon, secWithin := false }
      (dText v [' '] g gs) false DESC_STR = .ok ck := by
    intro ml
    have : parseChunkCore mc pc (dText v [' '] g gs) false DESC_STR =
        parseChunkCore mc { mandateLayout := ml, requireColon := a.requireColon, secWithin := false }
          (dText v [' '] g gs) false DESC_STR := by
      unfold parseChunkCore chunkLayoutOf
      simp only [Bool.false_eq_true, if_false, pc, ha3, hdl]
      cases ml <;> cases (!a.segment && a.layout.isSome) <;> simp [hdl, finishChunk, ha3]
    rw [← this]; exact k1
  let pfl := genFlagsChunk (dText v [' '] g gs) (fixedFlags [])
  let P : ParentSt := { fl := { w := pfl.w ++ ck.fl.w, wl := pfl.wl ++ ck.fl.wl, e := pfl.e ++ ck.fl.e, el := pfl.el ++ ck.fl.el },
                        comps := [] ++ ck.comps, unused := [] ++ ck.unused }
  have hchunk : ∀ ml, chunkParser mc { mandateLayout := ml, requireColon := a.requireColon, secWithin := false } (dText v [' '] g gs) false DESC_STR
      { fl := fixedFlags [] } = .ok P := by
    intro ml
    unfold chunkParser
    rw [hk1 ml]
    simp only [hne, Bool.false_eq_true, if_false]
    rfl
  have hblocks : parseAllBlocks mc (dText v [' '] g gs) DESC_STR a (fixedFlags []) = .ok P := by
    have hcopy : (DESC_STR == COPY_ALL) = false := by decide
    unfold parseAllBlocks
    simp only [ha2, ha3, Bool.false_eq_true, if_false, parseBlocks, hcopy, hchunk]
  have hPc : P.comps = (docPairs (g :: gs)).map (fun p => lnComp p.1 p.2) := by
    show [] ++ ck.comps = _
    rw [List.nil_append, k5, docComps_pairs]
  have hrest : ∀ cu, ∃ out, (match tractSpecs cu P.comps with
        | .error e => (.error e : Except PyErr ParserOut)
        | .ok specs =>
          match buildTracts uid0 hd a.parseQQ a.source (dTextF v sp fin g gs) TRS.trsToDict 0 specs with
          | .error e => .error e
          | .ok tracts =>
            match secWithinFlags tracts (examineUnused P.fl P.unused) (secWithinIndexes specs) with
            | .error e => .error e
            | .ok fl1 =>
              let fl := errorTractFlag fl1 tracts
              let tracts := handDownFlags fl tracts
              .ok { tracts := tracts, fl := fl, layout := DESC_STR, text := (dText v [' '] g gs), nextUid := uid0 + specs.length,
                    diverged := false || tracts.any (·.diverged), handedDown := hd }) = .ok out ∧
      out.layout = DESC_STR ∧ out.text = (dText v [' '] g gs) ∧ out.fl.e = [] ∧
      out.tracts.map (fun t => (t.trs, t.desc)) = (docTracts (g :: gs)).map (fun p => (TRS.trsToDict (some p.1), p.2)) ∧
      (∀ t ∈ out.tracts, TRS.isError t.trs = false) := by
    intro cu
    rw [hPc, hspecs' cu]
    simp only [hts, hidx, secWithinFlags, herr]
    refine ⟨_, rfl, rfl, rfl, ?_, ?_, ?_⟩
    · simp only []
      have hu : ∀ u ∈ P.unused, u.2.length < Gen.MIN_REPORTABLE_UNUSED_LEN := by
        intro u hu; exact hunused u (by simpa [P] using hu)
      rw [examineUnused_short _ _ hu]
      show pfl.e ++ ck.fl.e = []
      rw [k2, (genFlagsChunk_e _ _).1]
      rfl
    · simp only [handDownFlags, List.map_map, Function.comp_def]
      rw [hpairs]
      simp [docTracts, List.map_map, Function.comp_def]
    · intro t ht
      simp only [handDownFlags, List.mem_map] at ht
      obtain ⟨t', ht', rfl⟩ := ht
      exact hnoerr t' ht'
  unfold plssParser
  simp only [hhd, ha1, hpp]
  rcases hlay with e | e
  · simp only [e, hdl]
    rw [hblocks]
    exact hrest _
  · simp only [e]
    rw [hblocks]
    exact hrest _

end DescStr

/-- **C01 — the layout Twp/Rge–desc–Sec through the whole parser when the layout is GIVEN** (`layout='TR_desc_S'`): as
    `C01_canonical_forward_TR_desc_S`, without the premise on the length of the first block (it is needed only for
    `deduce_layout`, see `C01_TR_desc_S_short_block_not_deduced`) -/
theorem C01_canonical_forward_TR_desc_S_given (mc : MC) (uid0 : Nat) (a : ParserArgs) (sp : Str) (hsp : SepOk sp) (g : Gp) (gs : List Gp)
    (hstd : ∀ x ∈ g :: gs, StdGp x)
    (hm1 : isLegal Gen.LEGAL_NS mc.ns = true) (hm2 : isLegal Gen.LEGAL_EW mc.ew = true)
    (h1 : isLegal Gen.LEGAL_NS (resolve a.defaultNS mc.ns) = true) (h2 : isLegal Gen.LEGAL_EW (resolve a.defaultEW mc.ew) = true)
    (ha1 : a.ocrScrub = false) (ha2 : a.segment = false) (ha3 : a.secWithin = false)
    (hlay : a.layout = some TR_DESC_S) (hd : Str) (c : Config.Cfg)
    (hhd : handedDownText a = .ok hd) (hcfg : Config.ofText hd = .ok c) :
    ∃ out, plssParser mc uid0 (rText sp g gs) a = .ok out ∧ out.layout = TR_DESC_S ∧
      out.text = rText [' '] g gs ∧ out.fl.e = [] ∧
      out.tracts.map (fun t => (t.trs, t.desc)) = (docTracts (g :: gs)).map (fun p => (TRS.trsToDict (some p.1), p.2)) ∧
      (∀ t ∈ out.tracts, TRS.isError t.trs = false) := by
  have hok : g.Ok := (hstd g (by simp)).ok
  have hgs : ∀ x ∈ gs, x.Ok := fun x hx => (hstd x (by simp [hx])).ok
  have hgsc : ∀ x ∈ gs, x.Ok ∧ x.h.Canon := fun x hx => ⟨(hstd x (by simp [hx])).ok, (hstd x (by simp [hx])).canon⟩
  have hall : ∀ x ∈ g :: gs, x.Ok := fun x hx => (hstd x hx).ok
  have hpp := plssPreprocess_rText mc a.defaultNS a.defaultEW hm1 hm2 h1 h2 sp hsp g gs hok (hstd g (by simp)).canon hgsc
  obtain ⟨ck, k1, k2, _, k4⟩ := C01_chunk_canonical_TR_desc_S_unused mc
    { mandateLayout := true, requireColon := a.requireColon, secWithin := false } hm1 hm2 [' '] sepOk_blank g gs hok hgs
    (fun h => by cases h) TR_DESC_S (fun _ => rfl)
  obtain ⟨k5, k6⟩ := k4 rfl
  have hne : ck.comps.isEmpty = false := by
    rw [k5]; simp [docComps, Gp.lines]
  obtain ⟨ts, hts, hlen⟩ := C03_buildTracts_total uid0 hd a.parseQQ a.source (rText sp g gs) TRS.trsToDict c hcfg
    ((docPairs (g :: gs)).map (fun p => (p.2.d, p.1 ++ [p.2.n1, p.2.n2], false))) 0
  have hpairs := TractsOf.buildTracts_pairs _ _ _ _ _ _ _ _ _ hts
  have hidx : secWithinIndexes ((docPairs (g :: gs)).map (fun p => (p.2.d, p.1 ++ [p.2.n1, p.2.n2], false))) = [] :=
    secWithinIndexes_false _ (by intro s hs; simp only [List.mem_map] at hs; obtain ⟨p, _, rfl⟩ := hs; rfl)
  have hunused : ∀ u ∈ ck.unused, u.2.length < Gen.MIN_REPORTABLE_UNUSED_LEN := by
    intro u hu
    have : u.2 ∈ ck.unused.map (·.2) := List.mem_map_of_mem hu
    rw [k6] at this
    simp only [List.mem_append, List.mem_map, List.mem_singleton] at this
    rcases this with ⟨_, _, e⟩ | e
    · rw [← e]; decide
    · rw [e]; decide
  have hnoerr : ∀ t ∈ ts, TRS.isError t.trs = false := by
    intro t ht
    have : (t.trs, t.desc) ∈ ts.map (fun t => (t.trs, t.desc)) := List.mem_map_of_mem ht
    rw [hpairs] at this
    simp only [List.map_map, List.mem_map, Function.comp_apply, Prod.mk.injEq] at this
    obtain ⟨p, hp, e1, _⟩ := this
    obtain ⟨a', b', ns, ew, ha', hb', hns, hew, hk, hl⟩ := docPairs_std _ hstd p hp
    rw [← e1, hk]
    exact (std_trs_ok a' b' ns ew ha' hb' hns hew p.2.n1 p.2.n2 hl.n1 hl.n2).1
  have hany : ts.any (fun t => TRS.isError t.trs) = false := by
    rw [List.any_eq_false]
    intro t ht
    simp [hnoerr t ht]
  have herr : ∀ fl, errorTractFlag fl ts = fl := by
    intro fl; unfold errorTractFlag; simp [hany]
  have hspecs' := fun cu => tractSpecs_pairs cu (docPairs (g :: gs)) (docPairs_ok _ hall)
  let pfl := genFlagsChunk (rText [' '] g gs) (fixedFlags [])
  let P : ParentSt := { fl := { w := pfl.w ++ ck.fl.w, wl := pfl.wl ++ ck.fl.wl, e := pfl.e ++ ck.fl.e, el := pfl.el ++ ck.fl.el },
                        comps := [] ++ ck.comps, unused := [] ++ ck.unused }
  have hchunk : chunkParser mc { mandateLayout := true, requireColon := a.requireColon, secWithin := false } (rText [' '] g gs) false TR_DESC_S
      { fl := fixedFlags [] } = .ok P := by
    unfold chunkParser
    rw [k1]
    simp only [hne, Bool.false_eq_true, if_false]
    rfl
  have hblocks : parseAllBlocks mc (rText [' '] g gs) TR_DESC_S a (fixedFlags []) = .ok P := by
    have hcopy : (TR_DESC_S == COPY_ALL) = false := by decide
    unfold parseAllBlocks
    simp only [ha2, ha3, hlay, Option.isSome_some, Bool.not_false, Bool.and_self, Bool.false_eq_true, if_false, parseBlocks, hcopy,
      hchunk]
  have hPc : P.comps = (docPairs (g :: gs)).map (fun p => lnComp p.1 p.2) := by
    show [] ++ ck.comps = _
    rw [List.nil_append, k5, docComps_pairs]
  have hrest : ∀ cu, ∃ out, (match tractSpecs cu P.comps with
        | .error e => (.error e : Except PyErr ParserOut)
        | .ok specs =>
          match buildTracts uid0 hd a.parseQQ a.source (rText sp g gs) TRS.trsToDict 0 specs with
          | .error e => .error e
          | .ok tracts =>
            match secWithinFlags tracts (examineUnused P.fl P.unused) (secWithinIndexes specs) with
            | .error e => .error e
            | .ok fl1 =>
              let fl := errorTractFlag fl1 tracts
              let tracts := handDownFlags fl tracts
              .ok { tracts := tracts, fl := fl, layout := TR_DESC_S, text := (rText [' '] g gs), nextUid := uid0 + specs.length,
                    diverged := false || tracts.any (·.diverged), handedDown := hd }) = .ok out ∧
      out.layout = TR_DESC_S ∧ out.text = (rText [' '] g gs) ∧ out.fl.e = [] ∧
      out.tracts.map (fun t => (t.trs, t.desc)) = (docTracts (g :: gs)).map (fun p => (TRS.trsToDict (some p.1), p.2)) ∧
      (∀ t ∈ out.tracts, TRS.isError t.trs = false) := by
    intro cu
    rw [hPc, hspecs' cu]
    simp only [hts, hidx, secWithinFlags, herr]
    refine ⟨_, rfl, rfl, rfl, ?_, ?_, ?_⟩
    · simp only []
      have hu : ∀ u ∈ P.unused, u.2.length < Gen.MIN_REPORTABLE_UNUSED_LEN := by
        intro u hu; exact hunused u (by simpa [P] using hu)
      rw [examineUnused_short _ _ hu]
      show pfl.e ++ ck.fl.e = []
      rw [k2, (genFlagsChunk_e _ _).1]
      rfl
    · simp only [handDownFlags, List.map_map, Function.comp_def]
      rw [hpairs]
      simp [docTracts, List.map_map, Function.comp_def]
    · intro t ht
      simp only [handDownFlags, List.mem_map] at ht
      obtain ⟨t', ht', rfl⟩ := ht
      exact hnoerr t' ht'
  unfold plssParser
  simp only [hhd, ha1, hpp, hlay]
  rw [hblocks]
  exact hrest _

/-! ## Part 12 — all four documented layouts, uniformly -/

/-- a group as a group of the layout Sec–desc–Twp/Rge (`Lemmas/LayoutText2.lean`): its lines, then its Twp/Rge -/
def Gp.toS (g : Gp) : SGp := ⟨g.l, g.ls, g.h⟩

/-- the canonical rendering of an abstract description (groups `g :: gs`: a Twp/Rge with its lines = two-digit section and
    inert block) in each of the four documented layouts; `sp` = the free white space of the rendering -/
def layText : Lay → Str → Gp → List Gp → Str
  | .trsDesc, sp, g, gs => docText sp (g :: gs)
  | .trDescS, sp, g, gs => rText sp g gs
  | .sDescTr, sp, g, gs => sDoc sp g.toS (gs.map Gp.toS)
  | .descStr, sp, g, gs => dText '\n' sp g gs

theorem sDocTracts_toS (gs : List Gp) : sDocTracts (gs.map Gp.toS) = docTracts gs := by
  induction gs with
  | nil => rfl
  | cons g gs ih =>
    simp only [sDocTracts, docTracts, docPairs, List.map_cons, List.flatMap_cons, List.map_append] at ih ⊢
    rw [ih]
    simp [Gp.toS, SGp.lines, Gp.lines, List.map_map, Function.comp_def]

theorem stdSGp_toS {g : Gp} (h : StdGp g) : StdSGp g.toS :=
  ⟨fun l hl => h.ok.ls l hl, h.std⟩

/-- **C01 — all four documented layouts on TEXT, through the whole parser, with no lexical premise.**
    For every abstract description — a non-empty list of standard Twp/Rges (numbers below 1000), each with a non-empty list
    of (two-digit section, inert block) — and EACH of the four documented layouts `L`, the canonical rendering of the
    description in `L` (with any blanks / line breaks `sp` at the free position of the rendering) is parsed by `PLSSParser`
    (layout deduced, or given as `L`; any `require_colon` mode, any `clean_up`, any legal default directions; no OCR scrubbing,
    no segmenting, no `sec_within`) into the SAME tracts — one per line, in reading order, with the Twp/Rge of its group, its
    section and its block verbatim; the layout reported is `L`; the preprocessed text is the rendering with one blank at the
    free position; there is no error flag; no tract has an error Twp/Rge/Sec.
    (Only for TR_desc_S with the layout to be deduced the first block must have at least 3 characters.) -/
theorem C01_canonical_forward_all_layouts (L : Lay) (mc : MC) (uid0 : Nat) (a : ParserArgs) (sp : Str) (hsp : SepOk sp)
    (g : Gp) (gs : List Gp) (hstd : ∀ x ∈ g :: gs, StdGp x)
    (h3 : L = .trDescS → a.layout = none → 3 ≤ g.l.d.length)
    (hm1 : isLegal Gen.LEGAL_NS mc.ns = true) (hm2 : isLegal Gen.LEGAL_EW mc.ew = true)
    (h1 : isLegal Gen.LEGAL_NS (resolve a.defaultNS mc.ns) = true) (h2 : isLegal Gen.LEGAL_EW (resolve a.defaultEW mc.ew) = true)
    (ha1 : a.ocrScrub = false) (ha2 : a.segment = false) (ha3 : a.secWithin = false)
    (hlay : a.layout = none ∨ a.layout = some L.str) (hd : Str) (c : Config.Cfg)
    (hhd : handedDownText a = .ok hd) (hcfg : Config.ofText hd = .ok c) :
    ∃ out, plssParser mc uid0 (layText L sp g gs) a = .ok out ∧ out.layout = L.str ∧
      out.text = layText L [' '] g gs ∧ out.fl.e = [] ∧
      out.tracts.map (fun t => (t.trs, t.desc)) = (docTracts (g :: gs)).map (fun p => (TRS.trsToDict (some p.1), p.2)) ∧
      (∀ t ∈ out.tracts, TRS.isError t.trs = false) := by
  cases L with
  | trsDesc => exact C01_canonical_forward mc uid0 a sp hsp g gs hstd hm1 hm2 h1 h2 ha1 ha2 ha3 hlay hd c hhd hcfg
  | trDescS =>
    rcases hlay with e | e
    · exact C01_canonical_forward_TR_desc_S mc uid0 a sp hsp g gs hstd (h3 rfl e) hm1 hm2 h1 h2 ha1 ha2 ha3 (Or.inl e) hd c hhd hcfg
    · exact C01_canonical_forward_TR_desc_S_given mc uid0 a sp hsp g gs hstd hm1 hm2 h1 h2 ha1 ha2 ha3 e hd c hhd hcfg
  | sDescTr =>
    have hS : ∀ x ∈ g.toS :: gs.map Gp.toS, StdSGp x := by
      intro x hx
      rw [← List.map_cons, List.mem_map] at hx
      obtain ⟨y, hy, rfl⟩ := hx
      exact stdSGp_toS (hstd y hy)
    have := C01_canonical_forward_S_desc_TR_groups mc uid0 a sp [] hsp finB_nil g.toS (gs.map Gp.toS) hS hm1 hm2 h1 h2 ha1 ha2 ha3 hlay
      hd c hhd hcfg
    rw [List.append_nil, ← List.map_cons, sDocTracts_toS] at this
    exact this
  | descStr =>
    have := C01_canonical_forward_desc_STR (v := '\n') mc uid0 a sp [] hsp finB_nil g gs hstd hm1 hm2 h1 h2 ha1 ha2 ha3 hlay hd c hhd hcfg
    rw [dTextF_nil] at this
    exact this

/-! ## Part 5 — concrete instances (non-vacuity) -/

namespace LayoutEx3
open LayoutEx

theorem rtext_eq : rText [' '] g1 [g2] =
    S "T154N-R97W hog valley by bluff, Sec 14:\nNE corner (brown well) & rhubarb field #, Sec 15:\nT7S-R102E wy Wyoming; f/k/a marker, Sec 36:" := by
  decide +kernel

theorem g2s_ok : ∀ x ∈ [g2], x.Ok := fun x hx => by simp only [List.mem_singleton] at hx; subst hx; exact g2_std.ok

theorem markers_ok : MarkersOK [' '] g1 [g2] := by
  unfold MarkersOK
  decide +kernel

theorem layout_ok : chunkLayoutOf pc (rText [' '] g1 [g2]) false TRS_DESC = TR_DESC_S := by decide +kernel

/-- `C01_chunk_canonical_TR_desc_S_partial` on the concrete text (layout deduced, colon required cautiously) -/
example : ∃ c, parseChunkCore {} pc (rText [' '] g1 [g2]) false TRS_DESC = .ok c ∧ c.fl.e = [] ∧ c.fl.w = [] ∧
    (pc.secWithin = false → c.comps = docComps [g1, g2]) :=
  C01_chunk_canonical_TR_desc_S_partial {} pc (by decide) (by decide) [' '] sepOk_blank g1 [g2] g1_std.ok g2s_ok TRS_DESC
    layout_ok markers_ok

example : Reports {} .cautious (rText [' '] g1 [g2]) .trDescS (rGroups [' '] 0 [g1, g2]) :=
  C01_reports_TR_desc_S {} (by decide) (by decide) [' '] sepOk_blank g1 [g2] g1_std.ok g2s_ok .cautious markers_ok

example : twprgeFinder {} (rText ['\n'] g1 [g2]) TR_DESC_S = .ok (trsOf (rGroups ['\n'] 0 [g1, g2]), {}) :=
  (C01_finders_TR_desc_S {} (by decide) (by decide) ['\n'] sepOk_nl g1 [g2] g1_std.ok g2s_ok .no).1

/-- the premise "the first block has at least 3 characters" of the full statement is necessary: with a 2-character first
    block (inert) `deduce_layout` answers TRS_desc (replayed on the library: `PLSSDesc('T154N-R97W xy, Sec 14:').current_layout`) -/
theorem _root_.PyTRS.C01_TR_desc_S_short_block_not_deduced :
    Inert (S "xy") ∧ deduceLayout (rText [' '] ⟨stdHd 154 97 'n' 'w', ⟨'1', '4', S "xy"⟩, []⟩ []) = TRS_DESC := by
  decide +kernel

/-- `C01_chunk_canonical_TR_desc_S_unused` on the concrete text (layout deduced, no hypothesis left) -/
example : ∃ c, parseChunkCore {} pc (rText [' '] g1 [g2]) false TRS_DESC = .ok c ∧ c.fl.e = [] ∧ c.fl.w = [] ∧
    (pc.secWithin = false → c.comps = docComps [g1, g2] ∧ c.unused.map (·.2) = [['\n'], []]) :=
  C01_chunk_canonical_TR_desc_S_unused {} pc (by decide) (by decide) [' '] sepOk_blank g1 [g2] g1_std.ok g2s_ok (fun _ => by decide) TRS_DESC
    (fun h => by cases h)

example : MarkersOK ['\n', ' '] g1 [g2] := markersOK_rText _ ⟨by simp, fun c hc => by simp at hc; rcases hc with rfl | rfl <;> simp⟩ g1 [g2]

example : deduceLayout (rText ['\n'] g1 [g2]) = TR_DESC_S :=
  deduceLayout_rText ['\n'] sepOk_nl g1 [g2] g1_std.ok g2s_ok (by decide)

/-- `plssPreprocess_rText` on the concrete text (line break behind the Twp/Rges) -/
example : plssPreprocess {} (rText ['\n'] g1 [g2]) none none false =
    .ok { text := rText [' '] g1 [g2], fixed := [], diverged := false } :=
  plssPreprocess_rText {} none none (by decide) (by decide) (by decide) (by decide) ['\n'] sepOk_nl g1 [g2] g1_std.ok g1_std.canon
    (fun x hx => ⟨g2s_ok x hx, by simp only [List.mem_singleton] at hx; subst hx; exact g2_std.canon⟩)

/-- `C01_canonical_forward_TR_desc_S` on the concrete text, default arguments (layout deduced) -/
example : ∃ out, plssParser {} 0 (rText ['\n'] g1 [g2]) {} = .ok out ∧ out.layout = TR_DESC_S ∧
    out.text = rText [' '] g1 [g2] ∧ out.fl.e = [] ∧
    out.tracts.map (fun t => (t.trs, t.desc)) = (docTracts [g1, g2]).map (fun p => (TRS.trsToDict (some p.1), p.2)) ∧
    (∀ t ∈ out.tracts, TRS.isError t.trs = false) :=
  C01_canonical_forward_TR_desc_S {} 0 {} ['\n'] sepOk_nl g1 [g2] all_std (by decide)
    (by decide) (by decide) (by decide) (by decide) rfl rfl rfl (Or.inl rfl) hd0 cfg0 hd0_ok cfg0_ok

example : rText ['\n'] g1 [g2] =
    S "T154N-R97W\nhog valley by bluff, Sec 14:\nNE corner (brown well) & rhubarb field #, Sec 15:\nT7S-R102E\nwy Wyoming; f/k/a marker, Sec 36:" := by
  decide +kernel

example : docTracts [g1, g2] = [(S "154n97w14", S "hog valley by bluff"), (S "154n97w15", S "NE corner (brown well) & rhubarb field #"),
    (S "7s102e36", S "wy Wyoming; f/k/a marker")] := by decide +kernel

/-- `C01_canonical_forward_TR_desc_S_given` on a text whose first block has only 2 characters (layout given; replayed on the
    library: `PLSSDesc('T154N-R97W xy, Sec 14:', layout='TR_desc_S')` gives the tract `154n97w14` with description `xy`, while
    with the layout deduced — `C01_TR_desc_S_short_block_not_deduced` — the library answers TRS_desc and loses the block) -/
example : ∃ out, plssParser {} 0 (rText [' '] ⟨stdHd 154 97 'n' 'w', ⟨'1', '4', S "xy"⟩, []⟩ []) { layout := some TR_DESC_S } = .ok out ∧
    out.layout = TR_DESC_S ∧ out.text = rText [' '] ⟨stdHd 154 97 'n' 'w', ⟨'1', '4', S "xy"⟩, []⟩ [] ∧ out.fl.e = [] ∧
    out.tracts.map (fun t => (t.trs, t.desc)) =
      (docTracts [⟨stdHd 154 97 'n' 'w', ⟨'1', '4', S "xy"⟩, []⟩]).map (fun p => (TRS.trsToDict (some p.1), p.2)) ∧
    (∀ t ∈ out.tracts, TRS.isError t.trs = false) :=
  C01_canonical_forward_TR_desc_S_given {} 0 { layout := some TR_DESC_S } [' '] sepOk_blank _ []
    (fun x hx => by
      simp only [List.mem_singleton] at hx; subst hx
      refine ⟨⟨stdHd_ok 154 97 'n' 'w' (by decide) (by decide) (Or.inl rfl) (Or.inr rfl), ?_⟩,
        ⟨154, 97, 'n', 'w', by decide, by decide, Or.inl rfl, Or.inr rfl, rfl⟩⟩
      intro l hl
      simp only [Gp.lines, List.mem_cons, List.not_mem_nil, or_false] at hl
      subst hl
      exact ⟨by decide, by decide, by decide +kernel⟩)
    (by decide) (by decide) (by decide) (by decide) rfl rfl rfl rfl
    (Pretty.okOr (handedDownText { layout := some TR_DESC_S }) [])
    (Pretty.okOr (Config.ofText (Pretty.okOr (handedDownText { layout := some TR_DESC_S }) [])) [])
    (Pretty.except_ok_of _ _ (by decide +kernel)) (Pretty.except_ok_of _ _ (by decide +kernel))

/-! ### the layout desc–Sec–Twp/Rge -/

theorem dtext_eq : dText '\n' ['\n'] g1 [g2] =
    S "hog valley by bluff, Sec 14:\nNE corner (brown well) & rhubarb field #, Sec 15:\nT154N-R97W\nwy Wyoming; f/k/a marker, Sec 36:\nT7S-R102E" := by
  decide +kernel

/-- `C01_chunk_canonical_desc_STR` on the concrete text (layout deduced) -/
example : ∃ c, parseChunkCore {} pc (dText '\n' ['\n'] g1 [g2]) false TRS_DESC = .ok c ∧ c.fl.e = [] ∧ c.fl.w = [] ∧
    (pc.secWithin = false → c.comps = docComps [g1, g2]) :=
  C01_chunk_canonical_desc_STR {} pc (by decide) (by decide) ['\n'] sepOk_nl g1 [g2] g1_std.ok g2s_ok TRS_DESC (fun h => by cases h)

example : Reports {} .cautious (dText '\n' [' '] g1 [g2]) .descStr (dGroups '\n' [' '] 0 [g1, g2]) :=
  C01_reports_desc_STR {} (by decide) (by decide) [' '] sepOk_blank g1 [g2] g1_std.ok g2s_ok .cautious

example : twprgeFinder {} (dText '\n' ['\n'] g1 [g2]) DESC_STR = .ok (trsOf (dGroups '\n' ['\n'] 0 [g1, g2]), {}) :=
  (C01_finders_desc_STR {} (by decide) (by decide) ['\n'] sepOk_nl g1 [g2] g1_std.ok g2s_ok .no).1

/-- `C01_chunk_canonical_desc_STR_unused` on the concrete text -/
example : ∃ c, parseChunkCore {} pc (dText '\n' [' '] g1 [g2]) false TRS_DESC = .ok c ∧ c.fl.e = [] ∧ c.fl.w = [] ∧
    (pc.secWithin = false → c.comps = docComps [g1, g2] ∧ c.unused.map (·.2) = [['\n'], ['\n'], []]) :=
  C01_chunk_canonical_desc_STR_unused {} pc (by decide) (by decide) [' '] sepOk_blank g1 [g2] g1_std.ok g2s_ok TRS_DESC (fun h => by cases h)

/-- `plssPreprocess_dText` on the concrete text (blank line between the groups, a line break at the end) -/
example : plssPreprocess {} (dTextF '\n' ['\n', '\n'] ['\n'] g1 [g2]) none none false =
    .ok { text := dText '\n' [' '] g1 [g2], fixed := [], diverged := false } :=
  plssPreprocess_dText {} none none (by decide) (by decide) (by decide) (by decide) ['\n', '\n'] ['\n']
    ⟨by simp, fun c hc => by simp at hc; exact Or.inr hc⟩ (fun c hc => by simp at hc; exact Or.inr hc) g1 [g2] ⟨g1_std.ok, g1_std.canon⟩
    (fun x hx => ⟨g2s_ok x hx, by simp only [List.mem_singleton] at hx; subst hx; exact g2_std.canon⟩)

/-- `C01_canonical_forward_desc_STR` on the concrete text, default arguments (layout deduced) -/
example : ∃ out, plssParser {} 0 (dTextF '\n' ['\n'] [] g1 [g2]) {} = .ok out ∧ out.layout = DESC_STR ∧
    out.text = dText '\n' [' '] g1 [g2] ∧ out.fl.e = [] ∧
    out.tracts.map (fun t => (t.trs, t.desc)) = (docTracts [g1, g2]).map (fun p => (TRS.trsToDict (some p.1), p.2)) ∧
    (∀ t ∈ out.tracts, TRS.isError t.trs = false) :=
  C01_canonical_forward_desc_STR {} 0 {} ['\n'] [] sepOk_nl finB_nil g1 [g2] all_std
    (by decide) (by decide) (by decide) (by decide) rfl rfl rfl (Or.inl rfl) hd0 cfg0 hd0_ok cfg0_ok

example : dTextF '\n' ['\n'] [] g1 [g2] = dText '\n' ['\n'] g1 [g2] := dTextF_nil _ _ _

/-- the variant with a BLANK between the last section reference of a group and the Twp/Rge -/
example : dText ' ' ['\n'] g1 [g2] =
    S "hog valley by bluff, Sec 14:\nNE corner (brown well) & rhubarb field #, Sec 15: T154N-R97W\nwy Wyoming; f/k/a marker, Sec 36: T7S-R102E" := by
  decide +kernel

/-- `C01_canonical_forward_desc_STR` on it (replayed on the library: same three tracts, layout desc_STR) -/
example : ∃ out, plssParser {} 0 (dTextF ' ' ['\n'] [] g1 [g2]) {} = .ok out ∧ out.layout = DESC_STR ∧
    out.text = dText ' ' [' '] g1 [g2] ∧ out.fl.e = [] ∧
    out.tracts.map (fun t => (t.trs, t.desc)) = (docTracts [g1, g2]).map (fun p => (TRS.trsToDict (some p.1), p.2)) ∧
    (∀ t ∈ out.tracts, TRS.isError t.trs = false) :=
  C01_canonical_forward_desc_STR {} 0 {} ['\n'] [] sepOk_nl finB_nil g1 [g2] all_std
    (by decide) (by decide) (by decide) (by decide) rfl rfl rfl (Or.inl rfl) hd0 cfg0 hd0_ok cfg0_ok

/-! ### all four layouts -/

/-- `C01_canonical_forward_all_layouts` on the concrete description, for EVERY layout, default arguments (layout deduced) -/
example (L : Lay) : ∃ out, plssParser {} 0 (layText L ['\n'] g1 [g2]) {} = .ok out ∧ out.layout = L.str ∧
    out.text = layText L [' '] g1 [g2] ∧ out.fl.e = [] ∧
    out.tracts.map (fun t => (t.trs, t.desc)) = (docTracts [g1, g2]).map (fun p => (TRS.trsToDict (some p.1), p.2)) ∧
    (∀ t ∈ out.tracts, TRS.isError t.trs = false) :=
  C01_canonical_forward_all_layouts L {} 0 {} ['\n'] sepOk_nl g1 [g2] all_std (fun _ _ => by decide)
    (by decide) (by decide) (by decide) (by decide) rfl rfl rfl (Or.inl rfl) hd0 cfg0 hd0_ok cfg0_ok

/-- the four renderings of the concrete description -/
example : [Lay.trsDesc, .trDescS, .sDescTr, .descStr].map (fun L => layText L ['\n'] g1 [g2]) =
    [S "T154N-R97W\nSec 14: hog valley by bluff\nSec 15: NE corner (brown well) & rhubarb field #\nT7S-R102E\nSec 36: wy Wyoming; f/k/a marker",
     S "T154N-R97W\nhog valley by bluff, Sec 14:\nNE corner (brown well) & rhubarb field #, Sec 15:\nT7S-R102E\nwy Wyoming; f/k/a marker, Sec 36:",
     S "Sec 14: hog valley by bluff\nSec 15: NE corner (brown well) & rhubarb field #\nT154N-R97W\nSec 36: wy Wyoming; f/k/a marker\nT7S-R102E",
     S "hog valley by bluff, Sec 14:\nNE corner (brown well) & rhubarb field #, Sec 15:\nT154N-R97W\nwy Wyoming; f/k/a marker, Sec 36:\nT7S-R102E"] := by
  decide +kernel

end LayoutEx3

#print axioms C01_chunk_canonical_TR_desc_S_partial
#print axioms C01_reports_TR_desc_S
#print axioms C01_finders_TR_desc_S
#print axioms markersOK_rText
#print axioms deduceLayout_rText
#print axioms C01_chunk_canonical_TR_desc_S
#print axioms C01_chunk_canonical_TR_desc_S_full
#print axioms C01_chunk_canonical_TR_desc_S_unused
#print axioms C01_reports_canonical_TR_desc_S
#print axioms plssPreprocess_rText
#print axioms C01_canonical_forward_TR_desc_S
#print axioms C01_canonical_forward_TR_desc_S_given
#print axioms C01_finders_desc_STR
#print axioms C01_reports_desc_STR
#print axioms deduceLayout_dText
#print axioms C01_chunk_canonical_desc_STR
#print axioms C01_chunk_canonical_desc_STR_unused
#print axioms plssPreprocess_dText
#print axioms C01_canonical_forward_desc_STR
#print axioms C01_canonical_forward_all_layouts

end PyTRS
