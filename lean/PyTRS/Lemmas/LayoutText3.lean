/-
C01 — the layout Twp/Rge–desc–Sec (`TR_desc_S`) on TEXT, with no lexical premise at chunk level
(continuation of `Lemmas/LayoutText.lean` = Twp/Rge–Sec–desc and `Lemmas/LayoutText2.lean` = Sec–desc–Twp/Rge).

The canonical text `rText sp g gs`: per group the Twp/Rge `T154N-R97W`, a separator `sp` (blanks / line breaks, at least
one), then the lines `<inert block>, Sec nn:` separated by line breaks; groups separated by line breaks, e.g.
`"T154N-R97W hog valley by bluff, Sec 14:\nfern gully, Sec 15:\nT7S-R102E wy Wyoming; f/k/a marker, Sec 36:"`.
The colon behind the section number is part of the rendering: it is what stops every Twp/Rge pattern behind the two digits
whatever the next line starts with (`GapSkips.ref`), so that no lexical premise on the blocks beyond `Inert` is needed.
The first block of the text must have at least 3 characters: `deduce_layout` chooses TR_desc_S only if at least 4
characters (block and comma) stand between the first Twp/Rge and the first section word
(`C01_TR_desc_S_short_block_not_deduced`).

Contents.
* Part 1: the text `rText`; `RGap` (what a header pattern cannot do in white space + block + `, ` in front of `Sec nn:`),
  `rTiles` — tiling by headers for any pattern with `GapSkips` and `RGap` (also usable for the scrubbers: the header token may
  swallow a part `e` of the separator).
* Part 2: `twprgeFinder_rText` (no context check in this layout: `trStepR`); the section token `secTokG` (`Sec nn:` followed
  by ANYTHING on which the list continuation `(…)*` has no path), `secX_fails_hdr` (no path across `:`, line break, `T<digit>`:
  the coarse neighbour relation allows every single step, so the sequence is split by hand with `FailsOn.seq_foot`), `RTail`,
  `multisec_tiles_rText`.
* Part 3: the arrangement `rGroups`, `ItemOK`, `secFinder_rText`, `populateMarkers_R` (a text that STARTS with a Twp/Rge and
  ENDS with a section reference: both the start-of-text and the end-of-text marker are overwritten).
* Part 4: `rGroups_comps` (the blocks in FRONT of the section references clean up to the descriptions),
  **`C01_finders_TR_desc_S`**, **`C01_reports_TR_desc_S`**, **`C01_chunk_canonical_TR_desc_S_partial`**,
  the full statement `C01_chunk_canonical_TR_desc_S_statement`.
* Part 5: concrete instances.

NOT done (time): (1) `MarkersOK` in general — `populateMarkers_R` is proved; missing is the arithmetic that the markers of
`rGroups` stand at strictly increasing positions and that the last section reference ends the text (the `Within` lemmas of
LayoutText, as `sGroups_within` in LayoutText2); (2) `deduceLayout (rText …) = TR_DESC_S` for a first block of ≥ 3 characters
(`no_num_sec_regex` skips header, separator and block: `skips_header`, first-sets inside `Danger`; `pyStrip` of
`sp ++ d ++ ", "` is `d ++ ","`); both are checked by kernel evaluation on the instance of Part 5; (3) preprocessing and the
parser level; (4) the layout desc_STR.
-/
import PyTRS.Lemmas.LayoutText2
import PyTRS.Lemmas.LayoutText
import PyTRS.Lemmas.Segment
set_option linter.unusedSimpArgs false
set_option linter.unusedVariables false
namespace PyTRS
open PyTRS.Obj PyTRS.Plss PyTRS.Export PyTRS.Unpack

/-! ## Part 1 — the canonical text of the layout Twp/Rge–desc–Sec -/

/-- a line `<d>, Sec nn:` -/
def Ln.rt (l : Ln) : Str := l.d ++ (',' :: ' ' :: l.ref)

/-- further lines, each preceded by a line break -/
def rlns : List Ln → Str
  | [] => []
  | l :: ls => '\n' :: (l.rt ++ rlns ls)

def Gp.rbody (sp : Str) (g : Gp) : Str := sp ++ (g.l.rt ++ rlns g.ls)
def Gp.rt (sp : Str) (g : Gp) : Str := g.h.text ++ g.rbody sp

/-- further groups, each preceded by a line break -/
def rgps (sp : Str) : List Gp → Str
  | [] => []
  | g :: gs => '\n' :: (g.rt sp ++ rgps sp gs)

/-- the canonical text -/
def rText (sp : Str) (g : Gp) (gs : List Gp) : Str := g.rt sp ++ rgps sp gs

theorem Ln.rt_length (l : Ln) : l.rt.length = l.d.length + 9 := by simp [Ln.rt, Ln.ref]

/-- blanks and line breaks -/
def WsOk (ws : Str) : Prop := ∀ c ∈ ws, c = ' ' ∨ c = '\n'

/-- what a header pattern must be unable to do in front of a section reference: in the block and the white space before it -/
structure RGap (r : Rx) : Prop where
  blk : ∀ (ws : Str) (l : Ln) (rest : Str), WsOk ws → l.Ok → Skips r (ws ++ (l.d ++ [',', ' '])) (l.ref ++ rest)

theorem RGap.ofFirst {r : Rx} (hn : r.nullable = false) (hp : plainFirst r = true) : RGap r where
  blk := by
    intro ws l rest hws hl
    refine Skips.of_first hn _ _ ?_
    intro c hc
    rcases List.mem_append.1 hc with hc | hc
    · rcases hws c hc with rfl | rfl
      · exact plainFirst.not_mem hp (by decide)
      · exact plainFirst.not_mem hp (by decide)
    · rcases List.mem_append.1 hc with hc | hc
      · exact plainFirst.safe hp (hl.d.safe c hc)
      · simp only [List.mem_cons, List.not_mem_nil, or_false] at hc
        rcases hc with rfl | rfl
        · exact plainFirst.safe hp (by decide +kernel)
        · exact plainFirst.not_mem hp (by decide)

theorem twprge_rGap : RGap Gen.twprge_regex := RGap.ofFirst (by decide +kernel) (by decide +kernel)

theorem rlns_skips {r : Rx} (hg : GapSkips r) (hr : RGap r) : ∀ (ls : List Ln) (tail : Str), (∀ l ∈ ls, l.Ok) →
    Skips r (rlns ls) tail
  | [], tail, _ => Skips.nil r tail
  | l :: ls, tail, hls => by
    have hl := hls l (by simp)
    have ih := rlns_skips hg hr ls tail (fun x hx => hls x (by simp [hx]))
    have e : rlns (l :: ls) = (['\n'] ++ (l.d ++ [',', ' '])) ++ (l.ref ++ rlns ls) := by simp [rlns, Ln.rt]
    rw [e]
    refine Skips.append ?_ (Skips.append (hg.ref l _ hl) ih)
    have := hr.blk ['\n'] l (rlns ls ++ tail) (by intro c hc; simp at hc; exact Or.inr hc) hl
    simpa [List.append_assoc] using this

/-- the lines of a group behind white space `w` -/
theorem rbody_skips {r : Rx} (hg : GapSkips r) (hr : RGap r) (w : Str) (hw : WsOk w) (l : Ln) (ls : List Ln) (tail : Str)
    (hl : l.Ok) (hls : ∀ x ∈ ls, x.Ok) : Skips r (w ++ (l.rt ++ rlns ls)) tail := by
  have e : w ++ (l.rt ++ rlns ls) = (w ++ (l.d ++ [',', ' '])) ++ (l.ref ++ rlns ls) := by simp [Ln.rt]
  rw [e]
  refine Skips.append ?_ (Skips.append (hg.ref l _ hl) (rlns_skips hg hr ls tail hls))
  have := hr.blk w l (rlns ls ++ tail) hw hl
  simpa [List.append_assoc] using this

/-- the header matches; `q` = position of the first header -/
def rhdrMs (mk : Hd → Nat → Match) (sp : Str) : Nat → List Gp → List Match
  | _, [] => []
  | q, g :: gs => mk g.h q :: rhdrMs mk sp (q + (g.rt sp).length + 1) gs

theorem Gp.rt_length (sp : Str) (g : Gp) : (g.rt sp).length = g.h.text.length + sp.length + (g.l.rt ++ rlns g.ls).length := by
  simp [Gp.rt, Gp.rbody]; omega

/-- **tiling by headers** (layout Twp/Rge–desc–Sec): a pattern that matches each header together with the part `e` of the
    separator `sp = e ++ w` behind it, and nothing in between -/
theorem rTiles (r : Rx) (hg : GapSkips r) (hr : RGap r) (e w : Str) (hw : WsOk w)
    (mk : Hd → Nat → Match)
    (htok : ∀ (h : Hd) (l : Ln) (rest : Str) (prev : Option Char) (pos : Nat), h.Ok → l.Ok →
       isWord Gen.cs_14d6aa8a prev = false →
       matchHere r ⟨prev, (h.text ++ e) ++ (w ++ (l.d ++ rest)), pos, []⟩ false = some (mk h pos) ∧ (mk h pos).start = pos ∧
       (mk h pos).stop = pos + (h.text ++ e).length) :
    ∀ (gs : List Gp) (g : Gp) (q : Nat) (prev : Option Char), g.Ok → (∀ x ∈ gs, x.Ok) →
      isWord Gen.cs_14d6aa8a prev = false →
      Tiles r prev (g.rt (e ++ w) ++ rgps (e ++ w) gs) q (rhdrMs mk (e ++ w) q (g :: gs)) := by
  intro gs
  induction gs with
  | nil =>
    intro g q prev hok _ hprev
    have hl := hok.ls g.l (by simp [Gp.lines])
    have hls : ∀ x ∈ g.ls, x.Ok := fun x hx => hok.ls x (by simp [Gp.lines, hx])
    obtain ⟨h1, h2, h3⟩ := htok g.h g.l ((',' :: ' ' :: g.l.ref) ++ rlns g.ls) prev q hok.h hl hprev
    have htxt : g.rt (e ++ w) ++ rgps (e ++ w) [] = (g.h.text ++ e) ++ ((w ++ (g.l.rt ++ rlns g.ls)) ++ []) := by
      simp [Gp.rt, Gp.rbody, rgps]
    have h1' : matchHere r ⟨prev, (g.h.text ++ e) ++ ((w ++ (g.l.rt ++ rlns g.ls)) ++ []), q, []⟩ false = some (mk g.h q) := by
      rw [← h1]; simp [Ln.rt]
    rw [htxt]
    simp only [rhdrMs]
    have hne : g.h.text ++ e ≠ [] := by simp [Hd.text, canonText]
    refine Tiles.tok prev (g.h.text ++ e) _ q _ [] h1' h2 h3 hne ?_
    exact Tiles.skipSeg (rbody_skips hg hr w hw g.l g.ls [] hl hls) _ _ (Tiles.nil _ _ (matchHere_of_failsOn hg.fin0 _ _ false))
  | cons g' gs ih =>
    intro g q prev hok hgs hprev
    have hok' := hgs g' (by simp)
    have hgs' : ∀ x ∈ gs, x.Ok := fun x hx => hgs x (by simp [hx])
    have hl := hok.ls g.l (by simp [Gp.lines])
    have hls : ∀ x ∈ g.ls, x.Ok := fun x hx => hok.ls x (by simp [Gp.lines, hx])
    obtain ⟨h1, h2, h3⟩ := htok g.h g.l ((',' :: ' ' :: g.l.ref) ++ (rlns g.ls ++ rgps (e ++ w) (g' :: gs))) prev q hok.h hl hprev
    have htxt : g.rt (e ++ w) ++ rgps (e ++ w) (g' :: gs) =
        (g.h.text ++ e) ++ ((w ++ (g.l.rt ++ rlns g.ls)) ++ rgps (e ++ w) (g' :: gs)) := by
      simp [Gp.rt, Gp.rbody]
    have h1' : matchHere r ⟨prev, (g.h.text ++ e) ++ ((w ++ (g.l.rt ++ rlns g.ls)) ++ rgps (e ++ w) (g' :: gs)), q, []⟩ false =
        some (mk g.h q) := by
      rw [← h1]; simp [Ln.rt]
    rw [htxt]
    rw [show rhdrMs mk (e ++ w) q (g :: g' :: gs) = mk g.h q :: rhdrMs mk (e ++ w) (q + (g.rt (e ++ w)).length + 1) (g' :: gs) from rfl]
    have hne : g.h.text ++ e ≠ [] := by simp [Hd.text, canonText]
    refine Tiles.tok prev (g.h.text ++ e) _ q _ _ h1' h2 h3 hne ?_
    refine Tiles.skipSeg (rbody_skips hg hr w hw g.l g.ls _ hl hls) _ _ ?_
    have e2 : rgps (e ++ w) (g' :: gs) = '\n' :: (g'.rt (e ++ w) ++ rgps (e ++ w) gs) := rfl
    rw [e2]
    have hnl : FailsOn r ('\n' :: (g'.h.text ++ (g'.rbody (e ++ w) ++ rgps (e ++ w) gs))) := hg.nlHdr g'.h _ hok'.h
    refine Tiles.skip _ '\n' _ _ _ ?_ ?_
    · have := matchHere_of_failsOn hnl (lastOr (lastOr prev (g.h.text ++ e)) (w ++ (g.l.rt ++ rlns g.ls)))
        (q + (g.h.text ++ e).length + (w ++ (g.l.rt ++ rlns g.ls)).length) false
      simpa [Gp.rt, List.append_assoc] using this
    · have hpos : q + (g.h.text ++ e).length + (w ++ (g.l.rt ++ rlns g.ls)).length + 1 = q + (g.rt (e ++ w)).length + 1 := by
        rw [g.rt_length]; simp only [List.length_append]; omega
      rw [hpos]
      exact ih g' _ (some '\n') hok' hgs' isWord_nl


/-! ## Part 2 — the finders -/

theorem twprge_tokR (sp : Str) (hsp : SepOk sp) (h : Hd) (l : Ln) (rest : Str) (prev : Option Char) (pos : Nat) (hok : h.Ok)
    (hprev : isWord Gen.cs_14d6aa8a prev = false) :
    matchHere Gen.twprge_regex ⟨prev, (h.text ++ []) ++ (sp ++ (l.d ++ rest)), pos, []⟩ false = some (twMk h pos) ∧ (twMk h pos).start = pos ∧
      (twMk h pos).stop = pos + (h.text ++ []).length := by
  have hv := h.valid hok (sp ++ (l.d ++ rest)) (endsTwprge_sep sp _ hsp)
  have := C08_spelling_matchHere h.sp _ hv prev hprev pos false
  rw [h.sp_text] at this
  refine ⟨by simpa [twMk] using this, rfl, ?_⟩
  simp [twMk, Spelling.matchAt, h.sp_text]

theorem SepOk.ws {sp : Str} (h : SepOk sp) : WsOk sp := h.chars

theorem twprge_tiles_rText (sp : Str) (hsp : SepOk sp) (g : Gp) (gs : List Gp) (hok : g.Ok) (hgs : ∀ x ∈ gs, x.Ok) :
    Tiles Gen.twprge_regex none (rText sp g gs) 0 (rhdrMs twMk sp 0 (g :: gs)) := by
  have := rTiles Gen.twprge_regex twprge_gapSkips twprge_rGap [] sp hsp.ws twMk
    (fun h l rest prev pos hok hl hprev => twprge_tokR sp hsp h l rest prev pos hok hprev) gs g 0 none hok hgs isWord_none
  simpa [rText] using this

theorem twprge_finditer_rText (sp : Str) (hsp : SepOk sp) (g : Gp) (gs : List Gp) (hok : g.Ok) (hgs : ∀ x ∈ gs, x.Ok) :
    twprge.rx.finditer (rText sp g gs) = rhdrMs twMk sp 0 (g :: gs) :=
  (twprge_tiles_rText sp hsp g gs hok hgs).finditer_eq

theorem tr_desc_s_layouts : (TR_DESC_S == DESC_STR || TR_DESC_S == TR_DESC_S || TR_DESC_S == COPY_ALL) = true := by decide

/-- one step of `findall_matching_twprge` in the layout Twp/Rge–desc–Sec: no context check -/
theorem trStepR (mc : MC) (hns : isLegal Gen.LEGAL_NS mc.ns = true) (hew : isLegal Gen.LEGAL_EW mc.ew = true)
    (text pre ctx : Str) (h : Hd) (hok : h.Ok) (hctx : EndsTwprge ctx) (htext : text = pre ++ (h.text ++ ctx)) (st : TRFindSt) :
    trFindStep mc text TR_DESC_S st (twMk h pre.length) =
      .ok { st with out := st.out ++ [⟨h.key, pre.length, pre.length + h.text.length⟩] } := by
  have hv := h.valid hok ctx hctx
  have htext' : text = pre ++ (h.sp.text ++ ctx) := by rw [htext, h.sp_text]
  have hunp : unpackTwprge twprge (twMk h pre.length) text mc.ns mc.ew false = .ok h.sp.canon := by
    rw [unpackTwprge_canon _ _ _ _ _ _ hns hew, htext']
    exact congrArg _ (h.sp.canonTR_at pre ctx hv mc.ns mc.ew)
  have hstart : (twMk h pre.length).start = pre.length := rfl
  have hstop : (twMk h pre.length).stop = pre.length + h.text.length := by
    simp [twMk, Spelling.matchAt, h.sp_text]
  unfold trFindStep
  simp only [hunp, tr_desc_s_layouts, if_true, hstart, hstop]
  rfl

/-- what `TwpRgeFinder` reports; `q` = position of the first header -/
def rtrOut (sp : Str) : Nat → List Gp → List TRMatch
  | _, [] => []
  | q, g :: gs => ⟨g.h.key, q, q + g.h.text.length⟩ :: rtrOut sp (q + (g.rt sp).length + 1) gs

theorem trFoldR (mc : MC) (hns : isLegal Gen.LEGAL_NS mc.ns = true) (hew : isLegal Gen.LEGAL_EW mc.ew = true)
    (sp : Str) (hsp : SepOk sp) (text : Str) : ∀ (gs : List Gp) (g : Gp) (pre : Str) (st : TRFindSt),
    g.Ok → (∀ x ∈ gs, x.Ok) → text = pre ++ (g.rt sp ++ rgps sp gs) →
    (rhdrMs twMk sp pre.length (g :: gs)).foldlM (trFindStep mc text TR_DESC_S) st =
      .ok { st with out := st.out ++ rtrOut sp pre.length (g :: gs) }
  | [], g, pre, st, hok, _, htext => by
    have h1 := trStepR mc hns hew text pre (g.rbody sp ++ rgps sp []) g.h hok.h
      (by simp only [Gp.rbody, List.append_assoc]; exact endsTwprge_sep sp _ hsp) (by rw [htext]; simp [Gp.rt]) st
    simp only [rhdrMs, List.foldlM_cons, h1, rtrOut]
    rfl
  | g' :: gs, g, pre, st, hok, hgs, htext => by
    have h1 := trStepR mc hns hew text pre (g.rbody sp ++ rgps sp (g' :: gs)) g.h hok.h
      (by simp only [Gp.rbody, List.append_assoc]; exact endsTwprge_sep sp _ hsp) (by rw [htext]; simp [Gp.rt]) st
    have ih := trFoldR mc hns hew sp hsp text gs g' (pre ++ g.rt sp ++ ['\n'])
      { st with out := st.out ++ [⟨g.h.key, pre.length, pre.length + g.h.text.length⟩] } (hgs g' (by simp))
      (fun x hx => hgs x (by simp [hx])) (by rw [htext]; simp [rgps])
    have hlen : (pre ++ g.rt sp ++ ['\n']).length = pre.length + (g.rt sp).length + 1 := by simp; omega
    rw [hlen] at ih
    rw [show rhdrMs twMk sp pre.length (g :: g' :: gs) = twMk g.h pre.length :: rhdrMs twMk sp (pre.length + (g.rt sp).length + 1) (g' :: gs) from rfl]
    simp only [List.foldlM_cons, h1]
    show (rhdrMs twMk sp (pre.length + (g.rt sp).length + 1) (g' :: gs)).foldlM (trFindStep mc text TR_DESC_S) _ = _
    rw [ih]
    simp [rtrOut]

/-- **`TwpRgeFinder` on the canonical text** -/
theorem twprgeFinder_rText (mc : MC) (hns : isLegal Gen.LEGAL_NS mc.ns = true) (hew : isLegal Gen.LEGAL_EW mc.ew = true)
    (sp : Str) (hsp : SepOk sp) (g : Gp) (gs : List Gp) (hok : g.Ok) (hgs : ∀ x ∈ gs, x.Ok) :
    twprgeFinder mc (rText sp g gs) TR_DESC_S = .ok (rtrOut sp 0 (g :: gs), {}) := by
  have h := trFoldR mc hns hew sp hsp (rText sp g gs) gs g [] {} hok hgs (by simp [rText])
  unfold twprgeFinder
  rw [twprge_finditer_rText sp hsp g gs hok hgs]
  simp only [List.length_nil] at h
  rw [h]
  rfl

/-! ### the section references -/

/-- `intervener+` and `(Section s?)? \s* \d{1,3}` -/
def sxA : Rx := match secX with | .seq a _ => a | _ => .fail
def sxB : Rx := match secX with | .seq _ b => b | _ => .fail
theorem secX_decomp : secX = .seq sxA sxB := rfl

/-- behind `Sec nn` the list continuation has no path across `:`, a line break and a header `T<digit>…`
    (the coarse neighbour relation allows every single step — "to", "Sect 7" — so the sequence is split by hand) -/
theorem secX_fails_hdr (t0 : Char) (ht : asciiDigits.mem t0 = true) (rest : Str) :
    FailsOn secX (':' :: '\n' :: 'T' :: t0 :: rest) := by
  rw [secX_decomp]
  have hB : sxB.mustHitP (fun cs => cs.sub digitD) = true := by decide +kernel
  have hBn : sxB.nullable = false := by decide +kernel
  refine FailsOn.seq_foot ?_
  intro seg rest' hY hch hmem hnull
  match seg, hY, hch, hmem, hnull with
  | [], _, _, _, hnull =>
    have : sxA.nullable = false := by decide +kernel
    rw [hnull rfl] at this; cases this
  | [a], hY, _, _, _ =>
    simp only [List.cons_append, List.nil_append, List.cons.injEq] at hY
    obtain ⟨_, rfl⟩ := hY
    refine FailsOn.of_break hB [] '\n' 'T' _ (by decide +kernel) ?_
    intro c hc
    simp only [List.nil_append, List.mem_singleton] at hc
    subst hc
    exact noHit_of_notMem (by decide +kernel)
  | [a, b], hY, _, _, _ =>
    simp only [List.cons_append, List.nil_append, List.cons.injEq] at hY
    obtain ⟨_, _, rfl⟩ := hY
    refine FailsOn.of_first hBn ?_
    intro c hc
    simp only [List.head?_cons, Option.some.injEq] at hc
    subst hc
    have : sxB.firstSets.all (fun cs => !cs.mem 'T') = true := by decide +kernel
    simp only [List.all_eq_true, Bool.not_eq_true'] at this
    exact this
  | [a, b, c], hY, hch, _, _ =>
    simp only [List.cons_append, List.nil_append, List.cons.injEq] at hY
    obtain ⟨_, _, rfl, _⟩ := hY
    obtain ⟨cs, hcs, hm⟩ := hch.last 'T' rfl
    have : sxA.lastSets.all (fun cs => !cs.mem 'T') = true := by decide +kernel
    simp only [List.all_eq_true, Bool.not_eq_true'] at this
    rw [this cs hcs] at hm; cases hm
  | a :: b :: c :: d :: more, hY, _, hmem, _ =>
    simp only [List.cons_append, List.cons.injEq] at hY
    obtain ⟨_, _, _, hd, _⟩ := hY
    subst hd
    obtain ⟨cs, hcs, hm⟩ := hmem t0 (by simp)
    have : sxA.chrSets.all (fun cs => asciiDigits.disj cs) = true := by decide +kernel
    simp only [List.all_eq_true] at this
    rw [CharSet.disj_mem (this cs hcs) ht] at hm; cases hm

/-- what may follow a section reference `Sec nn:`: nothing, or a line break and a character that cannot continue a section
    list, or a line break and a header -/
def RTail (T : Str) : Prop :=
  T = [] ∨ (∃ y rest, T = '\n' :: y :: rest ∧ secX.adjB '\n' y = false) ∨
    ∃ t0 rest, T = '\n' :: 'T' :: t0 :: rest ∧ asciiDigits.mem t0 = true

theorem secX_after_nl :
    secX.follow.all (fun p => !p.1.mem '\n' || p.2.sub ((Gen.PY_SPACE : CharSet) ++ (Danger ++ HeadDanger))) = true := by decide +kernel

theorem RTail.fails {T : Str} (h : RTail T) : FailsOn secX (':' :: T) := by
  rcases h with rfl | ⟨y, rest, rfl, hadj⟩ | ⟨t0, rest, rfl, ht⟩
  · refine FailsOn.of_noHit secX_hit _ ?_
    intro c hc
    simp only [List.mem_singleton] at hc
    subst hc
    exact noHit_of_notMem (by decide +kernel)
  · refine FailsOn.of_break secX_hit [':'] '\n' y rest hadj ?_
    intro c hc
    simp only [List.cons_append, List.nil_append, List.mem_cons, List.not_mem_nil, or_false] at hc
    rcases hc with rfl | rfl
    · exact noHit_of_notMem (by decide +kernel)
    · exact noHit_of_notMem (by decide +kernel)
  · exact secX_fails_hdr t0 ht rest

theorem rTail_hdr (h : Hd) (hok : h.Ok) (rest : Str) : RTail ('\n' :: (h.text ++ rest)) := by
  obtain ⟨t0, t', ht⟩ : ∃ t0 t', h.t = t0 :: t' := by
    cases e : h.t with
    | nil => have := hok.t_len; rw [e] at this; simp at this
    | cons a b => exact ⟨a, b, rfl⟩
  refine Or.inr (Or.inr ⟨t0, (t' ++ h.ns :: '-' :: 'R' :: (h.r ++ [h.ew])) ++ rest, by simp [Hd.text, canonText, ht], ?_⟩)
  exact (isDigit_iff_mem t0).1 (hok.t_dig t0 (by rw [ht]; simp))

theorem rTail_block (d : Str) (hd : Inert d) (rest : Str) : RTail ('\n' :: (d ++ rest)) := by
  obtain ⟨d0, d', e, h1, h2⟩ := hd.head_cons
  exact Or.inr (Or.inl ⟨d0, d' ++ rest, by rw [e]; rfl, adjB_false_of_sub secX '\n' d0 _ secX_after_nl (head_out h1 h2)⟩)

/-- **the section reference is a token of `multisec_regex`** whatever follows the colon, as long as the list continuation
    `(…)*` has no path there -/
theorem secTokG (l : Ln) (hl : l.Ok) (T : Str) (hX : FailsOn secX (':' :: T)) (prev : Option Char) (pos : Nat) (adv : Bool) :
    matchHere Gen.multisec_regex ⟨prev, l.ref ++ T, pos, []⟩ adv = some (secMatch pos) := by
  have hn1 := hl.n1
  have hn2 := hl.n2
  have c1 := eats_secWord 3 (l.n1 :: l.n2 :: ':' :: T)
  have c2 : Eats (.rep (.grp 4 (.chr Gen.cs_faf00333)) 0 (some 1)) [] (' ' :: l.n1 :: l.n2 :: ':' :: T) _ :=
    Eats.opt_none (FailsOn.grp 4 (FailsOn.chr_miss (by decide)))
  have c3 : Eats (.rep (.chr Gen.cs_9e1db48b) 0 (some 1)) [' '] (l.n1 :: l.n2 :: ':' :: T) _ :=
    Eats.opt_some (Eats.chr _ ' ' _ (by decide))
  have c4 := Eats.run Gen.cs_588a3e21 0 none [] (l.n1 :: l.n2 :: ':' :: T) (fun _ h => by cases h)
    (Or.inr (StopAt.cons (CharSet.disj_mem (by decide +kernel) hn1))) (Nat.zero_le _) (fun _ h => by cases h)
  have c5 := Eats.grp 5 (Eats.run Gen.cs_940665b9 1 (some 3) [l.n1, l.n2] (':' :: T)
    (fun c hc => by
      simp only [List.mem_cons, List.not_mem_nil, or_false] at hc
      rcases hc with rfl | rfl
      · exact ascii_digitD hn1
      · exact ascii_digitD hn2)
    (Or.inr (StopAt.cons (by decide +kernel))) (by simp) (fun h hh => by cases hh; simp))
  have c6 : Eats (.rep (.grp 6 secX) 0 none) [] (':' :: T) _ :=
    Eats.star_none none (FailsOn.grp 6 hX)
  have c7 : Eats (.rep (.grp 18 (.seq (.rep (.chr Gen.cs_70d553c2) 0 none) (.chr Gen.cs_df2d81f8))) 0 (some 1)) ([] ++ [':']) T _ :=
    Eats.opt_some (Eats.grp 18 (Eats.seq (Eats.run Gen.cs_70d553c2 0 none [] (':' :: T) (fun _ h => by cases h)
      (Or.inr (StopAt.cons (by decide +kernel))) (Nat.zero_le _) (fun _ h => by cases h)) (Eats.chr _ ':' _ (by decide))))
  have h45 := Eats.seq' c4 c5 (by simp)
  have h35 := Eats.seq' c3 h45 (by simp)
  have h25 := Eats.seq' c2 h35 (by simp)
  have h15 := Eats.seq' c1 h25 (by simp)
  have hg := Eats.grp 1 (Eats.grp 2 h15)
  have h67 := Eats.seq' c6 c7 (by simp)
  have hall := Eats.seq' hg h67 (by simp)
  have hL := hall prev pos []
  rw [← secHead_decomp, ← secColon_decomp, ← multisec_decomp] at hL
  have htxt : l.ref ++ T =
      (['S', 'e', 'c'] ++ ([] ++ ([' '] ++ ([] ++ [l.n1, l.n2]))) ++ ([] ++ ([] ++ [':']))) ++ T := by
    simp [Ln.ref]
  rw [htxt]
  rw [matchHere_of_leads adv hL (Or.inr (by simp))]
  simp [secMatch, Nat.add_assoc]

/-- the section references of further lines; `p` = position of the line break in front of the first of them -/
def rrefMs : Nat → List Ln → List Match
  | _, [] => []
  | p, l :: ls => secMatch (p + 1 + l.d.length + 2) :: rrefMs (p + 1 + l.rt.length) ls

theorem ws_plain {w : Str} (hw : WsOk w) : ∀ c ∈ w, hdrPlain.mem c = true := by
  intro c hc
  rcases hw c hc with rfl | rfl <;> decide

/-- one line behind white space `w`: `w <d>, Sec nn:` -/
theorem sec_rline (w : Str) (hw : WsOk w) (l : Ln) (hl : l.Ok) (T : Str) (hT : RTail T) (ms' : List Match) (pos : Nat)
    (h : ∀ p, Tiles Gen.multisec_regex p T (pos + w.length + l.rt.length) ms') :
    ∀ p, Tiles Gen.multisec_regex p (w ++ (l.rt ++ T)) pos (secMatch (pos + w.length + l.d.length + 2) :: ms') := by
  intro p
  have e : w ++ (l.rt ++ T) = (w ++ (l.d ++ [',', ' '])) ++ (l.ref ++ T) := by simp [Ln.rt]
  rw [e]
  have hsk : Skips Gen.multisec_regex (w ++ (l.d ++ [',', ' '])) (l.ref ++ T) :=
    Skips.append (multisec_skips_plain w _ (ws_plain hw)) (multisec_skips_safe _ _ (by
      intro c hc
      rcases List.mem_append.1 hc with hc | hc
      · exact hl.d.safe c hc
      · simp only [List.mem_cons, List.not_mem_nil, or_false] at hc
        rcases hc with rfl | rfl <;> decide +kernel))
  refine Tiles.skipSeg hsk p pos ?_
  have hp : pos + (w ++ (l.d ++ [',', ' '])).length = pos + w.length + l.d.length + 2 := by simp; omega
  rw [hp]
  refine Tiles.tok _ l.ref _ _ (secMatch _) ms' (secTokG l hl T hT.fails _ _ false) rfl rfl (by simp [Ln.ref]) ?_
  have hq : pos + w.length + l.d.length + 2 + l.ref.length = pos + w.length + l.rt.length := by
    rw [l.rt_length, l.ref_length]; omega
  rw [hq]
  exact h _

theorem sec_rlines : ∀ (ls : List Ln) (q : Nat) (tail : Str) (ms' : List Match), (∀ l ∈ ls, l.Ok) → RTail tail →
    (∀ p, Tiles Gen.multisec_regex p tail (q + (rlns ls).length) ms') →
    ∀ p, Tiles Gen.multisec_regex p (rlns ls ++ tail) q (rrefMs q ls ++ ms')
  | [], q, tail, ms', _, _, h => by simpa [rlns, rrefMs] using h
  | l :: ls, q, tail, ms', hls, ht, h => by
    have hl := hls l (by simp)
    have hls' : ∀ x ∈ ls, x.Ok := fun x hx => hls x (by simp [hx])
    have hT : RTail (rlns ls ++ tail) := by
      cases ls with
      | nil => simpa [rlns] using ht
      | cons z zs =>
        have : rlns (z :: zs) ++ tail = '\n' :: (z.d ++ ((',' :: ' ' :: z.ref) ++ (rlns zs ++ tail))) := by simp [rlns, Ln.rt]
        rw [this]; exact rTail_block z.d (hls' z (by simp)).d _
    have ih := sec_rlines ls (q + 1 + l.rt.length) tail ms' hls' ht (by
      have : q + 1 + l.rt.length + (rlns ls).length = q + (rlns (l :: ls)).length := by simp [rlns]; omega
      rw [this]; exact h)
    have := sec_rline ['\n'] (by intro c hc; simp at hc; exact Or.inr hc) l hl (rlns ls ++ tail) hT (rrefMs (q + 1 + l.rt.length) ls ++ ms') q
      (by simpa using ih)
    intro p
    have := this p
    simpa [rlns, rrefMs, List.append_assoc] using this

/-- the section references of a group that starts at `q` -/
def rgpRefMs (sp : Str) (q : Nat) (g : Gp) : List Match :=
  secMatch (q + g.h.text.length + sp.length + g.l.d.length + 2) :: rrefMs (q + g.h.text.length + sp.length + g.l.rt.length) g.ls

def rdocRefMs (sp : Str) : Nat → List Gp → List Match
  | _, [] => []
  | q, g :: gs => rgpRefMs sp q g ++ rdocRefMs sp (q + (g.rt sp).length + 1) gs

theorem sec_rgroup (sp : Str) (hsp : SepOk sp) (g : Gp) (hok : g.Ok) (q : Nat) (tail : Str) (ms' : List Match) (ht : RTail tail)
    (h : ∀ p, Tiles Gen.multisec_regex p tail (q + (g.rt sp).length) ms') :
    ∀ p, Tiles Gen.multisec_regex p (g.rt sp ++ tail) q (rgpRefMs sp q g ++ ms') := by
  intro p
  have hl := hok.ls g.l (by simp [Gp.lines])
  have hls : ∀ x ∈ g.ls, x.Ok := fun x hx => hok.ls x (by simp [Gp.lines, hx])
  have hT : RTail (rlns g.ls ++ tail) := by
    cases hg : g.ls with
    | nil => simpa [rlns] using ht
    | cons z zs =>
      have : rlns (z :: zs) ++ tail = '\n' :: (z.d ++ ((',' :: ' ' :: z.ref) ++ (rlns zs ++ tail))) := by simp [rlns, Ln.rt]
      rw [this]; exact rTail_block z.d (hls z (by rw [hg]; simp)).d _
  have h2 := sec_rlines g.ls (q + g.h.text.length + sp.length + g.l.rt.length) tail ms' hls ht (by
    have : q + g.h.text.length + sp.length + g.l.rt.length + (rlns g.ls).length = q + (g.rt sp).length := by
      rw [g.rt_length]; simp only [List.length_append]; omega
    rw [this]; exact h)
  have h1 := sec_rline [] (by intro c hc; cases hc) g.l hl (rlns g.ls ++ tail) hT _ (q + g.h.text.length + sp.length)
    (by simpa using h2)
  have e : g.rt sp ++ tail = (g.h.text ++ sp) ++ ([] ++ (g.l.rt ++ (rlns g.ls ++ tail))) := by simp [Gp.rt, Gp.rbody]
  rw [e]
  refine Tiles.skipSeg (multisec_skips_hdr g.h hok.h sp hsp _) p q ?_
  have hp : q + (g.h.text ++ sp).length = q + g.h.text.length + sp.length := by simp; omega
  rw [hp]
  have := h1 (lastOr p (g.h.text ++ sp))
  simpa [rgpRefMs] using this

theorem sec_rgroups (sp : Str) (hsp : SepOk sp) : ∀ (gs : List Gp) (q : Nat), (∀ g ∈ gs, g.Ok) →
    ∀ p, Tiles Gen.multisec_regex p (rgps sp gs) q (rdocRefMs sp (q + 1) gs)
  | [], q, _ => by
    intro p
    exact Tiles.nil p q (matchHere_of_failsOn multisec_fails_nil _ _ false)
  | g :: gs, q, hgs => by
    intro p
    have hgs' : ∀ x ∈ gs, x.Ok := fun x hx => hgs x (by simp [hx])
    have ih := sec_rgroups sp hsp gs (q + 1 + (g.rt sp).length) hgs'
    have ht : RTail (rgps sp gs) := by
      cases gs with
      | nil => exact Or.inl rfl
      | cons g' gs' =>
        have : rgps sp (g' :: gs') = '\n' :: (g'.h.text ++ (g'.rbody sp ++ rgps sp gs')) := by simp [rgps, Gp.rt]
        rw [this]; exact rTail_hdr g'.h (hgs g' (by simp)).h _
    have h1 := sec_rgroup sp hsp g (hgs g (by simp)) (q + 1) (rgps sp gs) (rdocRefMs sp (q + 1 + (g.rt sp).length + 1) gs) ht ih
    have e : rgps sp (g :: gs) = '\n' :: (g.rt sp ++ rgps sp gs) := rfl
    rw [e]
    refine Tiles.skip p '\n' _ q _ (matchHere_of_failsOn (multisec_fails_nl _) _ _ false) ?_
    have := h1 (some '\n')
    simpa [rdocRefMs] using this

theorem multisec_tiles_rText (sp : Str) (hsp : SepOk sp) (g : Gp) (gs : List Gp) (hok : g.Ok) (hgs : ∀ x ∈ gs, x.Ok) :
    Tiles Gen.multisec_regex none (rText sp g gs) 0 (rdocRefMs sp 0 (g :: gs)) := by
  have ht : RTail (rgps sp gs) := by
    cases gs with
    | nil => exact Or.inl rfl
    | cons g' gs' =>
      have : rgps sp (g' :: gs') = '\n' :: (g'.h.text ++ (g'.rbody sp ++ rgps sp gs')) := by simp [rgps, Gp.rt]
      rw [this]; exact rTail_hdr g'.h (hgs g' (by simp)).h _
  have := sec_rgroup sp hsp g hok 0 (rgps sp gs) (rdocRefMs sp (0 + (g.rt sp).length + 1) gs) ht
    (by
      have := sec_rgroups sp hsp gs (0 + (g.rt sp).length) hgs
      simpa using this) none
  simpa [rText, rdocRefMs] using this


/-! ## Part 3 — the arrangement, `SecFinder`, the markers -/

/-- the section references of further lines; `p` = position of the line break in front of the first of them -/
def rItems : Nat → List Ln → List SecItem
  | _, [] => []
  | p, l :: ls => ⟨p + 1 + l.d.length + 2, p + 1 + l.d.length + 9, [[l.n1, l.n2]]⟩ :: rItems (p + 1 + l.rt.length) ls

/-- the section references of the lines of a group; `p` = position of the first block -/
def rItems1 (p : Nat) (l : Ln) (ls : List Ln) : List SecItem :=
  ⟨p + l.d.length + 2, p + l.d.length + 9, [[l.n1, l.n2]]⟩ :: rItems (p + l.rt.length) ls

def rGroup (sp : Str) (q : Nat) (g : Gp) : TRGroup :=
  ⟨q, q + g.h.text.length, g.h.key, rItems1 (q + g.h.text.length + sp.length) g.l g.ls⟩

/-- the arrangement of the canonical text -/
def rGroups (sp : Str) : Nat → List Gp → List TRGroup
  | _, [] => []
  | q, g :: gs => rGroup sp q g :: rGroups sp (q + (g.rt sp).length + 1) gs

def RefAt (text : Str) (p : Nat) (l : Ln) : Prop := ∃ pre post, text = pre ++ (l.ref ++ post) ∧ pre.length = p

def ItemOK (text : Str) (s : SecItem) : Prop :=
  ∃ l : Ln, l.Ok ∧ s.secs = [[l.n1, l.n2]] ∧ s.sEnd = s.sStart + 7 ∧ RefAt text s.sStart l

theorem rItems_ok (text : Str) : ∀ (ls : List Ln) (pre tail : Str), text = pre ++ (rlns ls ++ tail) → (∀ l ∈ ls, l.Ok) →
    ∀ s ∈ rItems pre.length ls, ItemOK text s
  | [], _, _, _, _ => by intro s hs; cases hs
  | l :: ls, pre, tail, htxt, hls => by
    intro s hs
    simp only [rItems, List.mem_cons] at hs
    rcases hs with rfl | hs
    · refine ⟨l, hls l (by simp), rfl, rfl, ⟨pre ++ '\n' :: (l.d ++ [',', ' ']), rlns ls ++ tail, ?_, ?_⟩⟩
      · rw [htxt]; simp [rlns, Ln.rt]
      · simp; omega
    · have := rItems_ok text ls (pre ++ '\n' :: l.rt) tail (by rw [htxt]; simp [rlns]) (fun x hx => hls x (by simp [hx])) s
      have hlen : (pre ++ '\n' :: l.rt).length = pre.length + 1 + l.rt.length := by simp; omega
      rw [hlen] at this
      exact this hs

theorem rItems1_ok (text : Str) (l : Ln) (ls : List Ln) (pre tail : Str) (htxt : text = pre ++ (l.rt ++ (rlns ls ++ tail)))
    (hl : l.Ok) (hls : ∀ x ∈ ls, x.Ok) : ∀ s ∈ rItems1 pre.length l ls, ItemOK text s := by
  intro s hs
  simp only [rItems1, List.mem_cons] at hs
  rcases hs with rfl | hs
  · refine ⟨l, hl, rfl, rfl, ⟨pre ++ (l.d ++ [',', ' ']), rlns ls ++ tail, ?_, ?_⟩⟩
    · rw [htxt]; simp [Ln.rt]
    · simp; omega
  · have := rItems_ok text ls (pre ++ l.rt) tail (by rw [htxt]; simp) hls s
    have hlen : (pre ++ l.rt).length = pre.length + l.rt.length := by simp
    rw [hlen] at this
    exact this hs

theorem rGroups_ok (sp : Str) (text : Str) : ∀ (gs : List Gp) (g : Gp) (pre : Str), text = pre ++ (g.rt sp ++ rgps sp gs) →
    g.Ok → (∀ x ∈ gs, x.Ok) → ∀ G ∈ rGroups sp pre.length (g :: gs), ∀ s ∈ G.items, ItemOK text s
  | gs, g, pre, htxt, hok, hgs => by
    intro G hG
    simp only [rGroups, List.mem_cons] at hG
    rcases hG with rfl | hG
    · have := rItems1_ok text g.l g.ls (pre ++ g.h.text ++ sp) (rgps sp gs) (by rw [htxt]; simp [Gp.rt, Gp.rbody])
        (hok.ls g.l (by simp [Gp.lines])) (fun x hx => hok.ls x (by simp [Gp.lines, hx]))
      have hlen : (pre ++ g.h.text ++ sp).length = pre.length + g.h.text.length + sp.length := by simp; omega
      rw [hlen] at this
      exact this
    · match gs, hgs, htxt, hG with
      | [], _, _, hG => simp [rGroups] at hG
      | g' :: gs', hgs, htxt, hG =>
        have := rGroups_ok sp text gs' g' (pre ++ g.rt sp ++ ['\n']) (by rw [htxt]; simp [rgps]) (hgs g' (by simp))
          (fun x hx => hgs x (by simp [hx])) G
        have hlen : (pre ++ g.rt sp ++ ['\n']).length = pre.length + (g.rt sp).length + 1 := by simp; omega
        rw [hlen] at this
        exact this hG
termination_by gs => gs.length

theorem firstLayouts_trds : firstLayouts TR_DESC_S = false := by decide

/-- one step of `findall_matching_sec` at a section reference `Sec nn:` in the layout Twp/Rge–desc–Sec -/
theorem secStepR (text : Str) (s : SecItem) (hs : ItemOK text s) (st : SecFindSt) (needColon : Bool) :
    secFindStep text TR_DESC_S needColon st (secMatch s.sStart) =
      .ok { out := st.out ++ [⟨s.secs, s.sStart, s.sEnd⟩], lastNums := s.secs, ff := st.ff } := by
  obtain ⟨l, hl, h1, h2, pre, post, htext, hp⟩ := hs
  obtain ⟨u1, u2, u3⟩ := unpack_ref l hl
  rw [← hp] at h2 ⊢
  have hg0 : (secMatch pre.length).group0 text = l.ref := by
    unfold Match.group0
    exact slice_at text pre l.ref post _ _ htext rfl rfl
  have hcolon : (multisec.group (secMatch pre.length) text "colon").isNone = false := by
    simp [Pat.group, multisec_idx.1, Match.group?, Match.span?, secMatch]
  have hmulti : isMulti multisec "sec" (secMatch pre.length) text = some false := by
    simp [isMulti, multisec_idx, Pat.group, Match.group?, Match.span?, secMatch, List.find?]
  unfold secFindStep
  simp only [hg0, hcolon, hmulti, u1, u2, u3, firstLayouts_trds, Bool.false_and, Bool.and_false, Bool.not_false, Bool.and_self,
    Bool.not_true, Bool.false_eq_true, if_false, List.append_nil, h1, h2]
  rfl

theorem secFoldR (text : Str) (nc : Bool) : ∀ (its : List SecItem) (st : SecFindSt), (∀ s ∈ its, ItemOK text s) →
    ∃ st', (its.map (fun s => secMatch s.sStart)).foldlM (secFindStep text TR_DESC_S nc) st = .ok st' ∧
      st'.out = st.out ++ its.map (fun s => (⟨s.secs, s.sStart, s.sEnd⟩ : SecMatch)) ∧ st'.ff = st.ff
  | [], st, _ => ⟨st, rfl, by simp, rfl⟩
  | s :: its, st, h => by
    obtain ⟨st', a1, a2, a3⟩ := secFoldR text nc its
      { out := st.out ++ [⟨s.secs, s.sStart, s.sEnd⟩], lastNums := s.secs, ff := st.ff } (fun x hx => h x (by simp [hx]))
    refine ⟨st', ?_, ?_, a3⟩
    · simp only [List.map_cons, List.foldlM_cons, secStepR text s (h s (by simp)) st nc]
      exact a1
    · rw [a2]; simp

def allItems (groups : List TRGroup) : List SecItem := groups.flatMap (·.items)

theorem secsOf_allItems (groups : List TRGroup) :
    secsOf groups = (allItems groups).map (fun s => (⟨s.secs, s.sStart, s.sEnd⟩ : SecMatch)) := by
  simp [secsOf, allItems, List.map_flatMap]

theorem rrefMs_items : ∀ (ls : List Ln) (p : Nat), rrefMs p ls = (rItems p ls).map (fun s => secMatch s.sStart)
  | [], _ => rfl
  | l :: ls, p => by simp [rrefMs, rItems, rrefMs_items ls]

theorem rdocRefMs_items (sp : Str) : ∀ (gs : List Gp) (q : Nat),
    rdocRefMs sp q gs = (allItems (rGroups sp q gs)).map (fun s => secMatch s.sStart)
  | [], _ => rfl
  | g :: gs, q => by
    simp [rdocRefMs, rGroups, allItems, rgpRefMs, rGroup, rItems1, rrefMs_items, rdocRefMs_items sp gs]

/-- **`SecFinder` on the canonical text** -/
theorem secFinder_rText (sp : Str) (hsp : SepOk sp) (g : Gp) (gs : List Gp) (hok : g.Ok) (hgs : ∀ x ∈ gs, x.Ok) (rc : ReqColon) :
    secFinder (rText sp g gs) TR_DESC_S rc = .ok (secsOf (rGroups sp 0 (g :: gs)), {}) := by
  have hfind : multisec.rx.finditer (rText sp g gs) = (allItems (rGroups sp 0 (g :: gs))).map (fun s => secMatch s.sStart) := by
    rw [← rdocRefMs_items]
    exact (multisec_tiles_rText sp hsp g gs hok hgs).finditer_eq
  have hitems : ∀ s ∈ allItems (rGroups sp 0 (g :: gs)), ItemOK (rText sp g gs) s := by
    intro s hs
    simp only [allItems, List.mem_flatMap] at hs
    obtain ⟨G, hG, hs⟩ := hs
    exact rGroups_ok sp (rText sp g gs) gs g [] (by simp [rText]) hok hgs G hG s hs
  have hpass : ∀ nc, ∃ nums, secFinderPass (rText sp g gs) TR_DESC_S nc = .ok (secsOf (rGroups sp 0 (g :: gs)), {}, nums) := by
    intro nc
    obtain ⟨st', a1, a2, a3⟩ := secFoldR (rText sp g gs) nc _ {} hitems
    refine ⟨st'.lastNums, ?_⟩
    unfold secFinderPass
    rw [hfind, a1]
    simp only [a2, a3, secsOf_allItems, List.nil_append]
  unfold secFinder
  obtain ⟨nums, hp⟩ := hpass ((rc == .yes || rc == .cautious) && firstLayouts TR_DESC_S)
  simp only [hp]
  simp [secsOf, rGroups, rGroup, rItems1]

theorem trsOf_rGroups (sp : Str) : ∀ (gs : List Gp) (q : Nat), trsOf (rGroups sp q gs) = rtrOut sp q gs
  | [], _ => rfl
  | g :: gs, q => by simp [rGroups, trsOf, rtrOut, rGroup, ← trsOf_rGroups sp gs]

/-! ### the markers -/

/-- **`populate_markers` for a text that starts with a Twp/Rge and ends with a section reference** -/
theorem populateMarkers_R (len : Nat) (secs : List SecMatch) (trs : List TRMatch) (T : List (Nat × Marker))
    (hs : T.Pairwise (fun a b => a.1 < b.1)) (hperm : T.Perm (trMk trs ++ secMk secs))
    (rest s t : List (Nat × Marker)) (h0 : trMk trs = (0, Marker.trStart) :: rest)
    (hE : secMk secs = s ++ (len, Marker.secEnd) :: t) :
    populateMarkers len secs trs = T := by
  have hperm2 : T.Perm ((0, Marker.trStart) :: (len, Marker.secEnd) :: ((s ++ t) ++ rest)) := by
    refine hperm.trans ?_
    rw [h0, hE]
    simp only [List.cons_append]
    refine List.Perm.cons _ ?_
    have h1 : (rest ++ (s ++ (len, Marker.secEnd) :: t)).Perm ((s ++ (len, Marker.secEnd) :: t) ++ rest) := List.perm_append_comm
    refine h1.trans ?_
    have h2 : (s ++ (len, Marker.secEnd) :: t).Perm ((len, Marker.secEnd) :: (s ++ t)) := List.perm_middle
    exact (List.Perm.append_right rest h2)
  have hkeys : (0 :: len :: (((s ++ t) ++ rest).map (·.1))).Nodup := by
    have hT : (T.map (·.1)).Nodup := by
      rw [List.Nodup, List.pairwise_map]
      exact hs.imp (fun h => Nat.ne_of_lt h)
    have := (hperm2.map (·.1)).nodup_iff.1 hT
    simpa using this
  have hk0 := List.nodup_cons.1 hkeys
  have hk1 := List.nodup_cons.1 hk0.2
  have hlen0 : (0 : Nat) ≠ len := by intro e; exact hk0.1 (by simp [e])
  have hd1 : markSet (markSet [] 0 .textStart) len .textEnd = [(0, Marker.textStart), (len, Marker.textEnd)] := by
    rw [markSet_fresh [] 0 _ (fun _ h => by cases h)]
    exact markSet_fresh _ len _ (by intro e he; simp at he; rw [he]; exact hlen0)
  have hnd : (([(0, Marker.textStart), (len, Marker.textEnd)] ++ ((s ++ t) ++ rest)).map (·.1)).Nodup := by
    simpa using hkeys
  have hnd_s : (([(0, Marker.textStart), (len, Marker.textEnd)] ++ s).map (·.1)).Nodup := by
    refine List.Nodup.sublist ?_ hnd
    simp only [List.map_append]
    refine List.Sublist.append_left ?_ _
    exact (List.sublist_append_left _ _).trans (List.sublist_append_left _ _)
  unfold populateMarkers
  simp only [hd1, secs_fold, trs_fold, h0, hE, List.foldl_cons, List.foldl_append]
  rw [foldl_markSet s _ hnd_s]
  have hsec : markSet ([(0, Marker.textStart), (len, Marker.textEnd)] ++ s) len Marker.secEnd =
      (0, Marker.textStart) :: (len, Marker.secEnd) :: s := by
    refine markSet_second _ len _ _ _ hlen0 ?_
    intro e he h
    exact hk1.1 (by rw [← h]; simp only [List.map_append, List.mem_append, List.mem_map]; exact Or.inl (Or.inl ⟨e, he, rfl⟩))
  rw [hsec]
  have hnd_t : ((((0, Marker.textStart) :: (len, Marker.secEnd) :: s) ++ t).map (·.1)).Nodup := by
    refine List.Nodup.sublist ?_ hnd
    simp only [List.map_append, List.map_cons, List.cons_append, List.append_assoc, List.nil_append, List.map_nil]
    refine List.Sublist.cons_cons _ (List.Sublist.cons_cons _ ?_)
    rw [← List.append_assoc]
    exact List.sublist_append_left _ _
  rw [foldl_markSet t _ hnd_t]
  have hhead : markSet (((0, Marker.textStart) :: (len, Marker.secEnd) :: s) ++ t) 0 Marker.trStart =
      (0, Marker.trStart) :: ((len, Marker.secEnd) :: (s ++ t)) := by
    refine markSet_head 0 _ _ _ ?_
    intro e he h
    apply hk0.1
    have he' : e = (len, Marker.secEnd) ∨ e ∈ s ∨ e ∈ t := by simpa using he
    rcases he' with rfl | he | he
    · simp at h; simp [h]
    · simp only [List.mem_cons, List.map_append, List.mem_append, List.mem_map]
      exact Or.inr (Or.inl (Or.inl ⟨e, he, h⟩))
    · simp only [List.mem_cons, List.map_append, List.mem_append, List.mem_map]
      exact Or.inr (Or.inl (Or.inr ⟨e, he, h⟩))
  rw [hhead]
  have hnd_r : ((((0, Marker.trStart) :: ((len, Marker.secEnd) :: (s ++ t))) ++ rest).map (·.1)).Nodup := by
    simpa using hkeys
  rw [foldl_markSet rest _ hnd_r]
  exact sortMarkers_eq _ T (by simpa using hperm2) hs


/-! ## Part 4 — the walk stages exactly the lines -/

theorem rLines_comps (txt tr : Str) : ∀ (ls : List Ln) (pre tail : Str), txt = pre ++ (rlns ls ++ tail) → (∀ l ∈ ls, l.Ok) →
    dItemComps txt tr pre.length (rItems pre.length ls) = ls.map (lnComp tr)
  | [], _, _, _, _ => rfl
  | l :: ls, pre, tail, htxt, hls => by
    have hl := hls l (by simp)
    have hslice : slice txt pre.length (pre.length + 1 + l.d.length + 2) = ['\n'] ++ l.d ++ [',', ' '] := by
      refine slice_at txt pre _ (l.ref ++ (rlns ls ++ tail)) _ _ ?_ rfl (by simp; omega)
      rw [htxt]; simp [rlns, Ln.rt]
    have hclean : cleanupDesc (['\n'] ++ l.d ++ [',', ' ']) = l.d :=
      C01_cleanup_block ['\n'] l.d [',', ' '] (by decide) (by decide) hl.d.clean
    have ih := rLines_comps txt tr ls (pre ++ '\n' :: l.rt) tail (by rw [htxt]; simp [rlns]) (fun x hx => hls x (by simp [hx]))
    have hlen : (pre ++ '\n' :: l.rt).length = pre.length + 1 + l.rt.length := by simp; omega
    rw [hlen] at ih
    have hend : pre.length + 1 + l.d.length + 9 = pre.length + 1 + l.rt.length := by rw [l.rt_length]; omega
    simp only [rItems, dItemComps, hslice, hclean, hend, ih, List.map_cons, lnComp]

theorem rGroup_comps (sp : Str) (hsp : SepOk sp) (txt : Str) (g : Gp) (hok : g.Ok) (pre tail : Str)
    (htxt : txt = pre ++ (g.rt sp ++ tail)) :
    dItemComps txt g.h.key (pre.length + g.h.text.length) (rItems1 (pre.length + g.h.text.length + sp.length) g.l g.ls) =
      g.lines.map (lnComp g.h.key) := by
  have hl := hok.ls g.l (by simp [Gp.lines])
  have hls : ∀ x ∈ g.ls, x.Ok := fun x hx => hok.ls x (by simp [Gp.lines, hx])
  have hslice : slice txt (pre.length + g.h.text.length) (pre.length + g.h.text.length + sp.length + g.l.d.length + 2) =
      sp ++ g.l.d ++ [',', ' '] := by
    refine slice_at txt (pre ++ g.h.text) _ (g.l.ref ++ (rlns g.ls ++ tail)) _ _ ?_ (by simp) (by simp; omega)
    rw [htxt]; simp [Gp.rt, Gp.rbody, Ln.rt]
  have hclean : cleanupDesc (sp ++ g.l.d ++ [',', ' ']) = g.l.d :=
    C01_cleanup_block sp g.l.d [',', ' '] (by
      intro c hc
      rcases hsp.chars c hc with rfl | rfl <;> decide) (by decide) hl.d.clean
  have ih := rLines_comps txt g.h.key g.ls (pre ++ g.h.text ++ sp ++ g.l.rt) tail (by rw [htxt]; simp [Gp.rt, Gp.rbody]) hls
  have hlen : (pre ++ g.h.text ++ sp ++ g.l.rt).length = pre.length + g.h.text.length + sp.length + g.l.rt.length := by
    simp; omega
  rw [hlen] at ih
  have hend : pre.length + g.h.text.length + sp.length + g.l.d.length + 9 = pre.length + g.h.text.length + sp.length + g.l.rt.length := by
    rw [g.l.rt_length]; omega
  simp only [rItems1, dItemComps, hslice, hclean, hend, ih, Gp.lines, List.map_cons, lnComp]

theorem rGroups_comps (sp : Str) (hsp : SepOk sp) (txt : Str) : ∀ (gs : List Gp) (g : Gp) (pre : Str),
    txt = pre ++ (g.rt sp ++ rgps sp gs) → g.Ok → (∀ x ∈ gs, x.Ok) →
    expectedCompsTrDescS txt (rGroups sp pre.length (g :: gs)) = docComps (g :: gs)
  | [], g, pre, htxt, hok, _ => by
    have h1 := rGroup_comps sp hsp txt g hok pre (rgps sp []) htxt
    simp [expectedCompsTrDescS, rGroups, rGroup, docComps, h1]
  | g' :: gs, g, pre, htxt, hok, hgs => by
    have h1 := rGroup_comps sp hsp txt g hok pre (rgps sp (g' :: gs)) htxt
    have ih := rGroups_comps sp hsp txt gs g' (pre ++ g.rt sp ++ ['\n']) (by rw [htxt]; simp [rgps]) (hgs g' (by simp))
      (fun x hx => hgs x (by simp [hx]))
    have hlen : (pre ++ g.rt sp ++ ['\n']).length = pre.length + (g.rt sp).length + 1 := by simp; omega
    rw [hlen] at ih
    simp only [expectedCompsTrDescS, docComps, List.flatMap_cons] at ih ⊢
    rw [show rGroups sp pre.length (g :: g' :: gs) = rGroup sp pre.length g :: rGroups sp (pre.length + (g.rt sp).length + 1) (g' :: gs) from rfl]
    simp only [List.flatMap_cons, ih]
    simp [rGroup, h1]

theorem rGroups_items_ne (sp : Str) : ∀ (gs : List Gp) (q : Nat), ∀ G ∈ rGroups sp q gs, G.items ≠ []
  | [], _, G, h => by cases h
  | g :: gs, q, G, h => by
    simp only [rGroups, List.mem_cons] at h
    rcases h with rfl | h
    · simp [rGroup, rItems1]
    · exact rGroups_items_ne sp gs _ G h

theorem Reports.intro' {mc : MC} {rc : ReqColon} {txt : Str} {L : Lay} {groups : List TRGroup}
    (trs : List TRMatch) (tff : FinderFlags) (secs : List SecMatch) (sff : FinderFlags)
    (h1 : twprgeFinder mc txt L.str = .ok (trs, tff)) (h2 : secFinder txt L.str rc = .ok (secs, sff))
    (h3 : trs.map (fun m => (m.twprge, m.start, m.stop)) = groups.map (fun g => (g.tr, g.tStart, g.tEnd)))
    (h4 : secs.map (·.secs) = allSecs groups)
    (h5 : populateMarkers txt.length secs trs = L.markers groups txt.length) : Reports mc rc txt L groups :=
  Reports.intro trs tff secs sff h1 h2 h3 h4 h5

/-- the markers of the arrangement are what `populate_markers` builds (decidable for a concrete text; proved in general
    below if `populateMarkers_rText` is present) -/
def MarkersOK (sp : Str) (g : Gp) (gs : List Gp) : Prop :=
  populateMarkers (rText sp g gs).length (secsOf (rGroups sp 0 (g :: gs))) (trsOf (rGroups sp 0 (g :: gs))) =
    Lay.trDescS.markers (rGroups sp 0 (g :: gs)) (rText sp g gs).length

/-- **C01 (layout Twp/Rge–desc–Sec, chunk level)**: what the two finders report on the canonical text, with NO lexical
    premise; given the marker list and the layout, `parse_chunk` stages exactly one component per line, in reading order, with the
    Twp/Rge of its group, its section and its block verbatim, and raises neither an error nor a warning flag -/
theorem C01_chunk_canonical_TR_desc_S_partial (mc : MC) (pc : ParserCfg) (hns : isLegal Gen.LEGAL_NS mc.ns = true)
    (hew : isLegal Gen.LEGAL_EW mc.ew = true) (sp : Str) (hsp : SepOk sp) (g : Gp) (gs : List Gp) (hok : g.Ok)
    (hgs : ∀ x ∈ gs, x.Ok) (parentLayout : Str)
    (hlay : chunkLayoutOf pc (rText sp g gs) false parentLayout = TR_DESC_S) (hmark : MarkersOK sp g gs) :
    ∃ c, parseChunkCore mc pc (rText sp g gs) false parentLayout = .ok c ∧ c.fl.e = [] ∧ c.fl.w = [] ∧
      (pc.secWithin = false → c.comps = docComps (g :: gs)) := by
  have htr := twprgeFinder_rText mc hns hew sp hsp g gs hok hgs
  have hsec := secFinder_rText sp hsp g gs hok hgs pc.requireColon
  have hne := rGroups_items_ne sp (g :: gs) 0
  have hg : rGroups sp 0 (g :: gs) ≠ [] := by simp [rGroups]
  have hcopy : (TR_DESC_S == COPY_ALL) = false := by decide
  have htrl : (rtrOut sp 0 (g :: gs)).map (·.twprge) = (rGroups sp 0 (g :: gs)).map (·.tr) := by
    rw [← trsOf_rGroups]; simp [trsOf, List.map_map, Function.comp_def]
  have hsecl : (secsOf (rGroups sp 0 (g :: gs))).map (·.secs) = allSecs (rGroups sp 0 (g :: gs)) := secsOf_secs _
  have hmark' : populateMarkers (rText sp g gs).length (secsOf (rGroups sp 0 (g :: gs))) (rtrOut sp 0 (g :: gs)) =
      Lay.trDescS.markers (rGroups sp 0 (g :: gs)) (rText sp g gs).length := by
    rw [← trsOf_rGroups]; exact hmark
  have W := C20_walk_all_layouts .trDescS (rText sp g gs) (rGroups sp 0 (g :: gs))
    (rText sp g gs).length { w := [], wl := [] } hne hg
  rw [show Lay.trDescS.str = TR_DESC_S from rfl] at W
  obtain ⟨w1, w2, w3, w4, w5, w6⟩ := W
  obtain ⟨f1, f2⟩ := finishChunk_clean pc _ w2 w3 w5 w6
  refine ⟨finishChunk pc (parseMeaningful (startChunk { w := [], wl := [] } (rGroups sp 0 (g :: gs))) (rText sp g gs)
    TR_DESC_S (Lay.trDescS.markers (rGroups sp 0 (g :: gs)) (rText sp g gs).length)), ?_, ?_, ?_, ?_⟩
  · unfold parseChunkCore
    simp only [hlay, htr, hsec, hcopy, hmark', htrl, hsecl]
    rfl
  · rw [f1]; exact (congrArg (·.e) w4)
  · rw [f1]; exact (congrArg (·.w) w4)
  · intro hsw
    refine ((f2 hsw).1).trans (w1.trans ?_)
    exact rGroups_comps sp hsp _ gs g [] (by simp [rText]) hok hgs


/-- the FULL chunk-level statement for the layout Twp/Rge–desc–Sec (what `C01_chunk_canonical_TR_desc_S_partial` proves given
    the two hypotheses `hlay` and `hmark`; the first block must have at least 3 characters, see the file header) -/
def C01_chunk_canonical_TR_desc_S_statement : Prop :=
  ∀ (mc : MC) (pc : ParserCfg), isLegal Gen.LEGAL_NS mc.ns = true → isLegal Gen.LEGAL_EW mc.ew = true →
    ∀ (sp : Str), SepOk sp → ∀ (g : Gp) (gs : List Gp), g.Ok → (∀ x ∈ gs, x.Ok) → 3 ≤ g.l.d.length →
    ∀ (parentLayout : Str), (pc.mandateLayout = true → parentLayout = TR_DESC_S) →
    ∃ c, parseChunkCore mc pc (rText sp g gs) false parentLayout = .ok c ∧ c.fl.e = [] ∧ c.fl.w = [] ∧
      (pc.secWithin = false → c.comps = docComps (g :: gs))

/-- **C01 (layout Twp/Rge–desc–Sec): the lexical premise `Reports` of `Lemmas/Segment.lean` holds for the canonical text**,
    given the marker list (both finders are discharged with no premise) -/
theorem C01_reports_TR_desc_S (mc : MC) (hns : isLegal Gen.LEGAL_NS mc.ns = true) (hew : isLegal Gen.LEGAL_EW mc.ew = true)
    (sp : Str) (hsp : SepOk sp) (g : Gp) (gs : List Gp) (hok : g.Ok) (hgs : ∀ x ∈ gs, x.Ok) (rc : ReqColon)
    (hmark : MarkersOK sp g gs) :
    Reports mc rc (rText sp g gs) .trDescS (rGroups sp 0 (g :: gs)) := by
  refine Reports.intro _ _ _ _ (twprgeFinder_rText mc hns hew sp hsp g gs hok hgs)
    (secFinder_rText sp hsp g gs hok hgs rc) ?_ (secsOf_secs _) ?_
  · rw [← trsOf_rGroups]; simp [trsOf, List.map_map, Function.comp_def]
  · rw [← trsOf_rGroups]; exact hmark

/-- **C01 (layout Twp/Rge–desc–Sec): what the two finders report on the canonical text, no premise** -/
theorem C01_finders_TR_desc_S (mc : MC) (hns : isLegal Gen.LEGAL_NS mc.ns = true) (hew : isLegal Gen.LEGAL_EW mc.ew = true)
    (sp : Str) (hsp : SepOk sp) (g : Gp) (gs : List Gp) (hok : g.Ok) (hgs : ∀ x ∈ gs, x.Ok) (rc : ReqColon) :
    twprgeFinder mc (rText sp g gs) TR_DESC_S = .ok (trsOf (rGroups sp 0 (g :: gs)), {}) ∧
    secFinder (rText sp g gs) TR_DESC_S rc = .ok (secsOf (rGroups sp 0 (g :: gs)), {}) ∧
    expectedCompsTrDescS (rText sp g gs) (rGroups sp 0 (g :: gs)) = docComps (g :: gs) := by
  refine ⟨?_, secFinder_rText sp hsp g gs hok hgs rc, rGroups_comps sp hsp _ gs g [] (by simp [rText]) hok hgs⟩
  rw [trsOf_rGroups]; exact twprgeFinder_rText mc hns hew sp hsp g gs hok hgs

/-! ## Part 5 — concrete instances (non-vacuity) -/

namespace LayoutEx3
open LayoutEx

theorem rtext_eq : rText [' '] g1 [g2] =
    S "T154N-R97W hog valley by bluff, Sec 14:\nNE corner (brown well) & rhubarb field #, Sec 15:\nT7S-R102E wy Wyoming; f/k/a marker, Sec 36:" := by
  decide +kernel

theorem g2s_ok : ∀ x ∈ [g2], x.Ok := fun x hx => by simp only [List.mem_singleton] at hx; subst hx; exact g2_std.ok

theorem markers_ok : MarkersOK [' '] g1 [g2] := by
  unfold MarkersOK
  decide +kernel

theorem layout_ok : chunkLayoutOf pc (rText [' '] g1 [g2]) false TRS_DESC = TR_DESC_S := by decide +kernel

/-- `C01_chunk_canonical_TR_desc_S_partial` on the concrete text (layout deduced, colon required cautiously) -/
example : ∃ c, parseChunkCore {} pc (rText [' '] g1 [g2]) false TRS_DESC = .ok c ∧ c.fl.e = [] ∧ c.fl.w = [] ∧
    (pc.secWithin = false → c.comps = docComps [g1, g2]) :=
  C01_chunk_canonical_TR_desc_S_partial {} pc (by decide) (by decide) [' '] sepOk_blank g1 [g2] g1_std.ok g2s_ok TRS_DESC
    layout_ok markers_ok

example : Reports {} .cautious (rText [' '] g1 [g2]) .trDescS (rGroups [' '] 0 [g1, g2]) :=
  C01_reports_TR_desc_S {} (by decide) (by decide) [' '] sepOk_blank g1 [g2] g1_std.ok g2s_ok .cautious markers_ok

example : twprgeFinder {} (rText ['\n'] g1 [g2]) TR_DESC_S = .ok (trsOf (rGroups ['\n'] 0 [g1, g2]), {}) :=
  (C01_finders_TR_desc_S {} (by decide) (by decide) ['\n'] sepOk_nl g1 [g2] g1_std.ok g2s_ok .no).1

/-- the premise "the first block has at least 3 characters" of the full statement is necessary: with a 2-character first
    block (inert) `deduce_layout` answers TRS_desc (replayed on the library: `PLSSDesc('T154N-R97W xy, Sec 14:').current_layout`) -/
theorem _root_.PyTRS.C01_TR_desc_S_short_block_not_deduced :
    Inert (S "xy") ∧ deduceLayout (rText [' '] ⟨stdHd 154 97 'n' 'w', ⟨'1', '4', S "xy"⟩, []⟩ []) = TRS_DESC := by
  decide +kernel

end LayoutEx3

#print axioms C01_chunk_canonical_TR_desc_S_partial
#print axioms C01_reports_TR_desc_S
#print axioms C01_finders_TR_desc_S

end PyTRS
