/-
W3 — parsing depends on the text only through its normal form (C07); every stage of the normalisation ends in a
fixed point of that stage (C07); export is total over the documented attributes (C19).
-/
import PyTRS.Props.C07
import PyTRS.Props.C19
import PyTRS.Lemmas.Stable
namespace PyTRS
open PyTRS.Tract PyTRS.Obj

/-! ### C07: the parser sees the text only through its normalisation -/

/-- the parser looks at the text only through its normalisation: two texts with the same normalised form give the same lots, aliquots,
    acreages, whole aliquots, flags and divergence marker -/
theorem C07_parse_depends_on_normal_form (t1 t2 : Str) (a : ParseArgs) (inh : Flags) (p : Str)
    (h1 : scrubAliquots t1 a.cleanQQ = some p) (h2 : scrubAliquots t2 a.cleanQQ = some p) :
    tractParseRaw t1 a inh = tractParseRaw t2 a inh := by
  unfold tractParseRaw
  rw [h1, h2]

/-- hence: if the normalised text `p` of `t` is itself a fixed point of normalisation, parsing `p` gives exactly what parsing `t` gave -/
theorem C07_reparse_normalised (t p : Str) (a : ParseArgs) (inh : Flags)
    (h : scrubAliquots t a.cleanQQ = some p) (hfix : scrubAliquots p a.cleanQQ = some p) :
    tractParseRaw p a inh = tractParseRaw t a inh :=
  C07_parse_depends_on_normal_form p t a inh p hfix h

/-- the same for the parser's own flags and for the parser with inherited flags -/
theorem C07_parse_depends_on_normal_form_own (t1 t2 : Str) (a : ParseArgs) (p : Str)
    (h1 : scrubAliquots t1 a.cleanQQ = some p) (h2 : scrubAliquots t2 a.cleanQQ = some p) :
    tractParseOwn t1 a = tractParseOwn t2 a :=
  C07_parse_depends_on_normal_form t1 t2 a {} p h1 h2

theorem C07_parse_depends_on_normal_form_full (t1 t2 : Str) (a : ParseArgs) (inh : Flags) (p : Str)
    (h1 : scrubAliquots t1 a.cleanQQ = some p) (h2 : scrubAliquots t2 a.cleanQQ = some p) :
    tractParse t1 a inh = tractParse t2 a inh := by
  unfold tractParse
  rw [C07_parse_depends_on_normal_form_own t1 t2 a p h1 h2]

/-! ### C07: the step functions of the stages, stated explicitly -/

/-- the substitution step of `sub_scrubber(txt, rgx)` -/
def scrubStep (rgxName : String) (t : Str) : Str :=
  (findRx rgxName).rx.sub
    (((Gen.QQ_SCRUBBER_DEFINITIONS.find? (fun d => d.1 == rgxName)).map (·.2)).getD "").toList t

/-- the substitution step of `_half_plus_q_scrubber` -/
def halfPlusQStep (t : Str) : Str := halfPlusQ.rx.subWith t (processHalfPlusQMatch t)

/-- the substitution step of `remove_aliquot_interveners` -/
def intervenerStep (t : Str) : Str :=
  intervenerRemover.rx.subWith t (fun m =>
    (intervenerRemover.group m t "aliquot1").getD [] ++ (intervenerRemover.group m t "aliquot2").getD [])

theorem subScrubber_eq (name : String) (t : Str) :
    subScrubber name t = untilStable (scrubStep name) (stableBudget t) t := rfl

theorem halfPlusQScrubber_eq (t : Str) :
    halfPlusQScrubber t = untilStable halfPlusQStep (stableBudget t) t := rfl

theorem removeAliquotInterveners_eq (t : Str) :
    removeAliquotInterveners t = untilStable intervenerStep (stableBudget t) t := rfl

theorem stableBudget_succ (t : Str) : stableBudget t = (2 * t.length + 7) + 1 := rfl

theorem subScrubber_fixed (name : String) (t r : Str) (h : subScrubber name t = some r) :
    scrubStep name r = r :=
  untilStable_fixed _ _ _ _ (subScrubber_eq name t ▸ h)

theorem halfPlusQScrubber_fixed (t r : Str) (h : halfPlusQScrubber t = some r) : halfPlusQStep r = r :=
  untilStable_fixed _ _ _ _ (halfPlusQScrubber_eq t ▸ h)

theorem removeAliquotInterveners_fixed (t r : Str) (h : removeAliquotInterveners t = some r) :
    intervenerStep r = r :=
  untilStable_fixed _ _ _ _ (removeAliquotInterveners_eq t ▸ h)

/-- a text is returned unchanged by the intervener remover exactly when it is a fixed point of its step -/
theorem removeAliquotInterveners_self_iff (q : Str) :
    removeAliquotInterveners q = some q ↔ intervenerStep q = q := by
  constructor
  · exact removeAliquotInterveners_fixed q q
  · intro h
    rw [removeAliquotInterveners_eq, stableBudget_succ]
    exact untilStable_of_fixed _ _ _ h

theorem halfPlusQScrubber_self_iff (q : Str) :
    halfPlusQScrubber q = some q ↔ halfPlusQStep q = q := by
  constructor
  · exact halfPlusQScrubber_fixed q q
  · intro h
    rw [halfPlusQScrubber_eq, stableBudget_succ]
    exact untilStable_of_fixed _ _ _ h

theorem subScrubber_self_iff (name : String) (q : Str) :
    subScrubber name q = some q ↔ scrubStep name q = q := by
  constructor
  · exact subScrubber_fixed name q q
  · intro h
    rw [subScrubber_eq, stableBudget_succ]
    exact untilStable_of_fixed _ _ _ h

/-- a list of scrubbers run one after the other: if the list is not empty, the result is a fixed point of the last one -/
theorem scrubAll_last_fixed (names : List String) (last : String) (t r : Str)
    (h : scrubAll (names ++ [last]) t = some r) : scrubStep last r = r := by
  unfold scrubAll at h
  rw [List.foldlM_append] at h
  cases hm : List.foldlM (fun t r => subScrubber r t) t names with
  | none => rw [hm] at h; simp at h
  | some u =>
    rw [hm] at h
    cases hs : subScrubber last u with
    | none => simp [hs] at h
    | some v =>
      simp [hs] at h
      subst h
      exact subScrubber_fixed last u v hs

theorem scrubAll_getLast_fixed (names : List String) (last : String) (t r : Str)
    (hl : names.getLast? = some last) (h : scrubAll names t = some r) : scrubStep last r = r := by
  obtain ⟨ys, rfl⟩ := List.getLast?_eq_some_iff.mp hl
  exact scrubAll_last_fixed ys last t r h

/-- the text after the spelling scrubbers is a fixed point of the last of them (re-checked against the regenerated list) -/
theorem scrubbers_end_fixed (t u : Str) (h : scrubAll Gen.QQ_SCRUBBER_REGEXES t = some u) :
    scrubStep "w2_regex" u = u :=
  scrubAll_getLast_fixed _ _ t u (by decide) h

/-- the text after the clean-up scrubbers is a fixed point of the last of them -/
theorem cleaners_end_fixed (u v : Str) (h : scrubAll Gen.QQ_CLEAN_REGEXES u = some v) :
    scrubStep "sw_clean" v = v :=
  scrubAll_getLast_fixed _ _ u v (by decide) h

/-- the decomposition of a successful normalisation into its stages -/
theorem scrubAliquots_stages (t p : Str) (b : Bool) (h : scrubAliquots t b = some p) :
    ∃ u v w, scrubAll Gen.QQ_SCRUBBER_REGEXES t = some u ∧
      (if b then scrubAll Gen.QQ_CLEAN_REGEXES u else some u) = some v ∧
      halfPlusQScrubber v = some w ∧ removeAliquotInterveners w = some p := by
  unfold scrubAliquots at h
  split at h
  · exact absurd h (by simp)
  · rename_i u hu
    split at h
    · exact absurd h (by simp)
    · rename_i v hv
      split at h
      · exact absurd h (by simp)
      · rename_i w hw
        exact ⟨u, v, w, hu, hv, hw, h⟩

/-- the honest explicit form: the normalised text is a fixed point of the intervener remover's step, and the intervener
    remover returns it unchanged -/
theorem C07_last_stage_fixed_step (t p : Str) (b : Bool) (h : scrubAliquots t b = some p) :
    intervenerStep p = p ∧ removeAliquotInterveners p = some p := by
  obtain ⟨u, v, w, _, _, _, hp⟩ := scrubAliquots_stages t p b h
  have hf := removeAliquotInterveners_fixed w p hp
  exact ⟨hf, (removeAliquotInterveners_self_iff p).mpr hf⟩

/-- … and each earlier intermediate text is a fixed point of the stage that produced it: the text `w` handed to the intervener
    remover is a fixed point of the half-plus-quarter step (and is returned unchanged by that scrubber) -/
theorem C07_earlier_stages_fixed (t p : Str) (b : Bool) (h : scrubAliquots t b = some p) :
    ∃ u v w, scrubAll Gen.QQ_SCRUBBER_REGEXES t = some u ∧
      (if b then scrubAll Gen.QQ_CLEAN_REGEXES u else some u) = some v ∧
      halfPlusQScrubber v = some w ∧ removeAliquotInterveners w = some p ∧
      scrubStep "w2_regex" u = u ∧ (b = true → scrubStep "sw_clean" v = v) ∧
      halfPlusQStep w = w ∧ halfPlusQScrubber w = some w ∧
      intervenerStep p = p ∧ removeAliquotInterveners p = some p := by
  obtain ⟨u, v, w, hu, hv, hw, hp⟩ := scrubAliquots_stages t p b h
  have hwf := halfPlusQScrubber_fixed v w hw
  have hpf := C07_last_stage_fixed_step t p b h
  refine ⟨u, v, w, hu, hv, hw, hp, scrubbers_end_fixed t u hu, ?_, hwf,
    (halfPlusQScrubber_self_iff w).mpr hwf, hpf.1, hpf.2⟩
  intro hb
  subst hb
  exact cleaners_end_fixed u v (by simpa using hv)

/-- every stage of the normalisation ends in a fixed point of that stage: the result of `scrubAliquots` is a fixed point of its last
    stage (the intervener remover), and each earlier intermediate text is a fixed point of the stage that produced it.
    (The witness is `intervenerStep`, the step function of `removeAliquotInterveners`; see `C07_last_stage_fixed_step` for the
    form without the existential.) -/
theorem C07_last_stage_fixed (t p : Str) (b : Bool) (h : scrubAliquots t b = some p) :
    ∃ f : Str → Str, f p = p ∧ ∀ q, removeAliquotInterveners q = some q → f q = q :=
  ⟨intervenerStep, (C07_last_stage_fixed_step t p b h).1,
    fun q hq => (removeAliquotInterveners_self_iff q).mp hq⟩

/-- `clean_qq` off: the clean-up patterns are never consulted (a bare 'NE' stays as it is unless a half precedes it) -/
theorem C07_clean_off_skips_clean_patterns (t : Str) :
    scrubAliquots t false = (scrubAll Gen.QQ_SCRUBBER_REGEXES t).bind (fun u => (halfPlusQScrubber u).bind removeAliquotInterveners) := by
  unfold scrubAliquots
  cases scrubAll Gen.QQ_SCRUBBER_REGEXES t with
  | none => rfl
  | some u =>
    simp only [Bool.false_eq_true, if_false, Option.bind_some]
    cases halfPlusQScrubber u <;> rfl

/-- the counterpart with `clean_qq` on -/
theorem C07_clean_on_runs_clean_patterns (t : Str) :
    scrubAliquots t true = (scrubAll Gen.QQ_SCRUBBER_REGEXES t).bind (fun u =>
      (scrubAll Gen.QQ_CLEAN_REGEXES u).bind (fun v => (halfPlusQScrubber v).bind removeAliquotInterveners)) := by
  unfold scrubAliquots
  cases scrubAll Gen.QQ_SCRUBBER_REGEXES t with
  | none => rfl
  | some u =>
    simp only [if_true, Option.bind_some]
    cases scrubAll Gen.QQ_CLEAN_REGEXES u with
    | none => rfl
    | some v =>
      simp only [Option.bind_some]
      cases halfPlusQScrubber v <;> rfl

/-! ### C19: export is total over the documented attributes -/

/-- C19: every attribute name documented in `Tract.ATTRIBUTES` is defined on every tract, except that `ilots` needs lot names that
    end in digits (it never fails on lots produced by the parser, see C06_ilots_of_names) -/
theorem C19_documented_attributes_defined (t : TractObj) (name : String)
    (hn : name ∈ Gen.TRACT_ATTRIBUTE_NAMES) (hi : name ≠ "ilots") : (Export.tractAttr t name).isSome = true := by
  simp only [Gen.TRACT_ATTRIBUTE_NAMES, List.mem_cons, List.not_mem_nil, or_false] at hn
  rcases hn with h | h | h | h | h | h | h | h | h | h | h | h | h | h | h | h | h | h | h | h | h | h | h | h | h | h | h <;>
    subst h <;> first | rfl | exact absurd rfl hi

/-- `ilots` itself is defined exactly when every lot name ends (after its last 'L') in an integer literal -/
theorem C19_ilots_defined_iff (t : TractObj) :
    (Export.tractAttr t "ilots").isSome = true ↔ ∃ l, Tract.ilots t.lots = .ok l := by
  show (match Tract.ilots t.lots with | .ok l => some (PyVal.list (l.map .int)) | .error _ => none).isSome = true ↔ _
  cases Tract.ilots t.lots <;> simp

/-- so `to_dict` / `to_list` never produce the 'n/a' placeholder for a documented attribute other than `ilots` -/
theorem C19_documented_not_na (t : TractObj) (name : String)
    (hn : name ∈ Gen.TRACT_ATTRIBUTE_NAMES) (hi : name ≠ "ilots") :
    ∃ v, Export.tractAttr t name = some v ∧ Export.getAttrNA t name = v := by
  have h := C19_documented_attributes_defined t name hn hi
  obtain ⟨v, hv⟩ := Option.isSome_iff_exists.mp h
  exact ⟨v, hv, by simp [Export.getAttrNA, hv]⟩

#print axioms C07_parse_depends_on_normal_form
#print axioms C07_reparse_normalised
#print axioms C07_last_stage_fixed
#print axioms C07_last_stage_fixed_step
#print axioms C07_earlier_stages_fixed
#print axioms C07_clean_off_skips_clean_patterns
#print axioms C19_documented_attributes_defined

end PyTRS
