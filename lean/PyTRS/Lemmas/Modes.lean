/-
Colon modes (C20), copy_all (C11) and re-parsing (C14).

The first part is a small piece of matcher metatheory needed for `C20_no_colons_cautious` as stated: a pattern without
look-around / anchors other than negative look-aheads of ONE character class (`Rx.truncOK`; `multisec_regex` has
`\s*(?!\s)` and `(?:\.|(?!\.))` since the backtracking fix) that matched a span of a text also matches that span
followed by any prefix of what originally followed it — in particular the span taken alone (`Rx.all_trunc`): cutting the
text after the match can only make such a look-ahead easier to satisfy.  Priorities may change, existence does not, so that `SecUnpacker` always finds at least one section number in the text of a `multisec_regex`
match (`multisec_match_unpacks`) and the `sec_nums[0]` IndexError of the colon-requiring pass cannot happen.
-/
import PyTRS.Props.C11
import PyTRS.Props.C20
import PyTRS.Props.C14
import PyTRS.Props.C09
import PyTRS.Lemmas.TrsRecog
import PyTRS.Lemmas.RxBounds
import PyTRS.Lemmas.RxSplit
namespace PyTRS
open PyTRS.Obj PyTRS.Plss

namespace Modes
open PyTRS.Unpack

/-! ## matcher metatheory: truncation of the tail for patterns whose only look-around is `(?!cls)` -/

/-- every state in the list of successes is reached by consuming a prefix of the remaining text -/
theorem Rx.all_ext (r : Rx) (s s' : St) (h : s' ∈ r.all s) : St.Ext s s' := by
  classical
  have hm := Rx.m_eq_findSome r s (fun x => if x = s' then some () else none)
  have hs : ((r.all s).findSome? (fun x => if x = s' then some () else none)).isSome := by
    rw [List.findSome?_isSome_iff]
    exact ⟨s', h, by simp⟩
  rw [← hm] at hs
  obtain ⟨u, hu⟩ := Option.isSome_iff_exists.mp hs
  obtain ⟨s'', e, hk⟩ := Rx.m_progressive r s _ u hu
  by_cases he : s'' = s'
  · exact he ▸ e
  · simp [he] at hk

theorem repAll_ext (body : St → List St) (hb : ∀ s s', s' ∈ body s → St.Ext s s') (lo : Nat) (hi : Option Nat) :
    ∀ (fuel count : Nat) (last : Option Nat) (s s' : St), s' ∈ repAll body lo hi fuel count last s → St.Ext s s' := by
  intro fuel
  induction fuel with
  | zero => intro count last s s' h; simp [repAll] at h
  | succ f ih =>
    intro count last s s' h
    rw [repAll] at h
    split at h
    · obtain ⟨s1, h1, h2⟩ := List.mem_flatMap.mp h
      exact (hb _ _ h1).trans (ih _ _ _ _ h2)
    · split at h
      · rcases List.mem_append.mp h with h | h
        · obtain ⟨s1, h1, h2⟩ := List.mem_flatMap.mp h
          exact (hb _ _ h1).trans (ih _ _ _ _ h2)
        · simp at h; subst h; exact St.Ext.refl _
      · simp at h; subst h; exact St.Ext.refl _

/-- no construct that looks outside the matched span, except negative look-aheads of a single character class
    (which can only become easier to satisfy when the text after the match is cut) -/
def _root_.PyTRS.Rx.truncOK : Rx → Bool
  | .eps | .fail | .chr _ => true
  | .seq a b | .alt a b => a.truncOK && b.truncOK
  | .rep r _ _ | .grp _ r => r.truncOK
  | .nahead (.chr _) => true
  | .ahead _ | .nahead _ | .behind _ | .wordb _ | .eos | .bos => false

/-- the consumed string can be matched again when it is followed by any PREFIX `d` of the original continuation -/
def Trunc (f : St → List St) : Prop :=
  ∀ s s', s' ∈ f s → ∀ c, s.rest = c ++ s'.rest → ∀ d e, s'.rest = d ++ e → ∀ p n cs,
    ∃ s'' ∈ f ⟨p, c ++ d, n, cs⟩, s''.rest = d ∧ s''.pos = n + c.length

/-- the `last` markers of two runs are at the same distance from the cursor -/
def LastRel (l1 l2 : Option Nat) (x y : Nat) : Prop :=
  match l1, l2 with
  | none, none => True
  | some a, some b => a + y = b + x
  | _, _ => False

theorem LastRel.beq {l1 l2 x y} (h : LastRel l1 l2 x y) : (l1 == some x) = (l2 == some y) := by
  cases l1 <;> cases l2 <;> simp [LastRel] at h ⊢
  rw [Bool.eq_iff_iff, beq_iff_eq, beq_iff_eq]; omega

theorem LastRel.shift {l1 l2 x y} (h : LastRel l1 l2 x y) (k : Nat) : LastRel l1 l2 (x + k) (y + k) := by
  cases l1 <;> cases l2 <;> simp [LastRel] at h ⊢
  omega

theorem repAll_trunc (body : St → List St) (hb : ∀ s s', s' ∈ body s → St.Ext s s') (ht : Trunc body)
    (lo : Nat) (hi : Option Nat) :
    ∀ (fuel₁ count : Nat) (last : Option Nat) (s s' : St), s' ∈ repAll body lo hi fuel₁ count last s →
      ∀ c, s.rest = c ++ s'.rest → ∀ (fuel₂ : Nat) (last₂ : Option Nat) (d e : List Char), s'.rest = d ++ e →
        ∀ (p : Option Char) (n : Nat) (cs : List (Nat × Nat × Nat)), LastRel last last₂ s.pos n →
        (lo - count) + c.length + (if last = some s.pos then 1 else 2) ≤ fuel₂ →
        ∃ s'' ∈ repAll body lo hi fuel₂ count last₂ ⟨p, c ++ d, n, cs⟩, s''.rest = d ∧ s''.pos = n + c.length := by
  intro fuel₁
  induction fuel₁ with
  | zero => intro count last s s' h; simp [repAll] at h
  | succ f ih =>
    intro count last s s' h c hc fuel₂ last₂ d e hde p n cs hrel hfuel
    have hbeq := hrel.beq
    obtain ⟨g, rfl⟩ : ∃ g, fuel₂ = g + 1 := ⟨fuel₂ - 1, by split at hfuel <;> omega⟩
    rw [repAll] at h ⊢
    -- one iteration of the body, replayed on the truncated text
    have step : ∀ s1 ∈ body s, ∀ (lastA lastB : Option Nat) (cnt : Nat), s' ∈ repAll body lo hi f cnt lastA s1 →
        (∀ k, LastRel lastA lastB (s.pos + k) (n + k)) →
        (∀ c1 c2 : List Char, c = c1 ++ c2 → s1.pos = s.pos + c1.length →
          (lo - cnt) + c2.length + (if lastA = some s1.pos then 1 else 2) ≤ g) →
        ∃ s'' ∈ (body ⟨p, c ++ d, n, cs⟩).flatMap (fun x => repAll body lo hi g cnt lastB x),
          s''.rest = d ∧ s''.pos = n + c.length := by
      intro s1 h1 lastA lastB cnt h2 hr hf
      obtain ⟨c1, hc1, hp1⟩ := hb _ _ h1
      obtain ⟨c2, hc2, hp2⟩ := repAll_ext body hb lo hi _ _ _ _ _ h2
      have hcc : c = c1 ++ c2 := by
        apply List.append_cancel_right (bs := s'.rest)
        rw [← hc, hc1, hc2, List.append_assoc]
      obtain ⟨t1, ht1, hr1, hq1⟩ := ht s s1 h1 c1 hc1 (c2 ++ d) e
        (by rw [hc2, hde, List.append_assoc]) p n cs
      have hrel' : LastRel lastA lastB s1.pos t1.pos := by rw [hp1, hq1]; exact hr _
      obtain ⟨t2, ht2, hr2, hq2⟩ := ih cnt lastA s1 s' h2 c2 hc2 g lastB d e hde t1.prev t1.pos t1.caps hrel'
        (hf c1 c2 hcc hp1)
      refine ⟨t2, List.mem_flatMap.mpr ⟨t1, ?_, ?_⟩, hr2, ?_⟩
      · rw [hcc, List.append_assoc]; exact ht1
      · have : t1 = ⟨t1.prev, c2 ++ d, t1.pos, t1.caps⟩ := by rw [← hr1]
        rw [this]; exact ht2
      · rw [hq2, hq1, hcc, List.length_append]; omega
    have stay : s' = s → (⟨p, c ++ d, n, cs⟩ : St).rest = d ∧ (⟨p, c ++ d, n, cs⟩ : St).pos = n + c.length := by
      intro he
      subst he
      have : c = [] := by
        have := congrArg List.length hc
        simpa using this
      subst this
      simp
    by_cases hlo : count < lo
    · simp only [hlo, if_true] at h ⊢
      obtain ⟨s1, h1, h2⟩ := List.mem_flatMap.mp h
      refine step s1 h1 last last₂ (count + 1) h2 (fun k => hrel.shift k) ?_
      intro c1 c2 hcc hp1
      rw [hcc, List.length_append] at hfuel
      by_cases hl : last = some s.pos
      · by_cases hl1 : last = some s1.pos
        · rw [if_pos hl] at hfuel; rw [if_pos hl1]; omega
        · rw [if_pos hl] at hfuel; rw [if_neg hl1]
          have : c1.length ≠ 0 := by
            intro h0; apply hl1; rw [hl, hp1, h0]; rfl
          omega
      · rw [if_neg hl] at hfuel
        split <;> omega
    · simp only [hlo, if_false] at h ⊢
      by_cases hopt : (canMore hi count && last != some s.pos) = true
      · have hopt2 : (canMore hi count && last₂ != some n) = true := by
          simp only [bne, Bool.and_eq_true, Bool.not_eq_eq_eq_not, Bool.not_true] at hopt ⊢
          exact ⟨hopt.1, by rw [← hrel.beq]; exact hopt.2⟩
        simp only [hopt, hopt2, if_true] at h ⊢
        rcases List.mem_append.mp h with h | h
        · obtain ⟨s1, h1, h2⟩ := List.mem_flatMap.mp h
          have hl : last ≠ some s.pos := by
            intro hl; simp [hl] at hopt
          obtain ⟨t, htm, htr⟩ := step s1 h1 (some s.pos) (some n) (count + 1) h2
            (fun k => by simp [LastRel]; omega) (by
              intro c1 c2 hcc hp1
              rw [hcc, List.length_append] at hfuel
              rw [if_neg hl] at hfuel
              simp only [Option.some.injEq]
              split <;> omega)
          exact ⟨t, List.mem_append_left _ htm, htr⟩
        · simp at h
          exact ⟨_, List.mem_append_right _ (List.mem_singleton.mpr rfl), stay h⟩
      · have hopt2 : ¬ (canMore hi count && last₂ != some n) = true := by
          intro h2; apply hopt
          simp only [bne, Bool.and_eq_true, Bool.not_eq_eq_eq_not, Bool.not_true] at h2 ⊢
          exact ⟨h2.1, by rw [hrel.beq]; exact h2.2⟩
        simp only [hopt, hopt2] at h ⊢
        simp at h
        exact ⟨_, List.mem_singleton.mpr rfl, stay h⟩

theorem Rx.all_trunc (r : Rx) (haf : r.truncOK = true) : Trunc r.all := by
  induction r with
  | eps =>
    intro s s' h c hc d e hde p n cs
    simp only [Rx.all, List.mem_singleton] at h
    subst h
    have : c = [] := by
      have := congrArg List.length hc
      simpa using this
    subst this
    exact ⟨_, List.mem_singleton.mpr rfl, by simp, by simp⟩
  | fail => intro s s' h; simp [Rx.all] at h
  | chr cs_1771a1b5 =>
    intro s s' h c hc d e hde p n cs
    simp only [Rx.all] at h
    split at h
    · rename_i x t hx
      split at h
      · rename_i hmem
        simp only [List.mem_singleton] at h
        subst h
        simp only [] at hc
        rw [hx] at hc
        have : c = [x] := by
          apply List.append_cancel_right (bs := t)
          simpa using hc.symm
        subst this
        refine ⟨⟨some x, d, n + 1, cs⟩, ?_, rfl, rfl⟩
        simp [Rx.all, hmem]
      · simp at h
    · simp at h
  | seq a b iha ihb =>
    simp only [Rx.truncOK, Bool.and_eq_true] at haf
    intro s s' h c hc d e hde p n cs
    simp only [Rx.all] at h
    obtain ⟨s1, h1, h2⟩ := List.mem_flatMap.mp h
    obtain ⟨c1, hc1, hp1⟩ := Rx.all_ext a _ _ h1
    obtain ⟨c2, hc2, hp2⟩ := Rx.all_ext b _ _ h2
    have hcc : c = c1 ++ c2 := by
      apply List.append_cancel_right (bs := s'.rest)
      rw [← hc, hc1, hc2, List.append_assoc]
    obtain ⟨t1, ht1, hr1, hq1⟩ := iha haf.1 s s1 h1 c1 hc1 (c2 ++ d) e
      (by rw [hc2, hde, List.append_assoc]) p n cs
    obtain ⟨t2, ht2, hr2, hq2⟩ := ihb haf.2 s1 s' h2 c2 hc2 d e hde t1.prev t1.pos t1.caps
    refine ⟨t2, ?_, hr2, ?_⟩
    · simp only [Rx.all]
      refine List.mem_flatMap.mpr ⟨t1, ?_, ?_⟩
      · rw [hcc, List.append_assoc]; exact ht1
      · have : t1 = ⟨t1.prev, c2 ++ d, t1.pos, t1.caps⟩ := by rw [← hr1]
        rw [this]; exact ht2
    · rw [hq2, hq1, hcc, List.length_append]; omega
  | alt a b iha ihb =>
    simp only [Rx.truncOK, Bool.and_eq_true] at haf
    intro s s' h c hc d e hde p n cs
    simp only [Rx.all] at h ⊢
    rcases List.mem_append.mp h with h | h
    · obtain ⟨t, ht, hr⟩ := iha haf.1 s s' h c hc d e hde p n cs
      exact ⟨t, List.mem_append_left _ ht, hr⟩
    · obtain ⟨t, ht, hr⟩ := ihb haf.2 s s' h c hc d e hde p n cs
      exact ⟨t, List.mem_append_right _ ht, hr⟩
  | rep r lo hi ih =>
    simp only [Rx.truncOK] at haf
    intro s s' h c hc d e hde p n cs
    simp only [Rx.all] at h ⊢
    refine repAll_trunc r.all (Rx.all_ext r) (ih haf) lo hi _ 0 none s s' h c hc _ none d e hde p n cs trivial ?_
    simp only [List.length_append]
    have : (if (none : Option Nat) = some s.pos then 1 else 2) = 2 := by simp
    rw [this]; omega
  | grp i r ih =>
    simp only [Rx.truncOK] at haf
    intro s s' h c hc d e hde p n cs
    simp only [Rx.all] at h ⊢
    obtain ⟨s1, h1, rfl⟩ := List.mem_map.mp h
    obtain ⟨t, ht, hr⟩ := ih haf s s1 h1 c hc d e hde p n cs
    exact ⟨_, List.mem_map.mpr ⟨t, ht, rfl⟩, hr⟩
  | ahead r _ => simp [Rx.truncOK] at haf
  | nahead r _ =>
    cases r with
    | chr cs_1771a1b5 =>
      -- the look-ahead saw either nothing or a character that is still there in the truncated text
      intro s s' h c hc d e hde p n cs
      simp only [Rx.all] at h
      have hs : s' = s := by
        revert h
        cases s.rest with
        | nil => simp
        | cons x t => by_cases hx : cs_1771a1b5.mem x = true <;> simp [hx]
      subst hs
      have hc0 : c = [] := by
        have := congrArg List.length hc
        simpa using this
      subst hc0
      refine ⟨⟨p, d, n, cs⟩, ?_, rfl, rfl⟩
      simp only [Rx.all, List.nil_append]
      cases d with
      | nil => simp
      | cons x t =>
        have hx : cs_1771a1b5.mem x = false := by
          revert h
          rw [hde]
          by_cases hx : cs_1771a1b5.mem x = true <;> simp [hx]
        simp [hx]
    | _ => simp [Rx.truncOK] at haf
  | behind cs_1771a1b5 => simp [Rx.truncOK] at haf
  | wordb w => simp [Rx.truncOK] at haf
  | eos => simp [Rx.truncOK] at haf
  | bos => simp [Rx.truncOK] at haf


/-- a match reported by `scan` was found by `matchHere` at some cursor inside the remaining text -/
theorem scan_matchHere (r : Rx) : ∀ (rest : List Char) (prev : Option Char) (pos : Nat) (adv : Bool) (m : Match),
    scan r prev rest pos adv = some m →
    ∃ k prev' adv', matchHere r ⟨prev', rest.drop k, pos + k, []⟩ adv' = some m := by
  intro rest
  induction rest with
  | nil =>
    intro prev pos adv m h
    rw [scan] at h
    split at h
    · rename_i m' hm
      cases h
      exact ⟨0, prev, adv, hm⟩
    · cases h
  | cons c t ih =>
    intro prev pos adv m h
    rw [scan] at h
    split at h
    · rename_i m' hm
      cases h
      exact ⟨0, prev, adv, hm⟩
    · obtain ⟨k, p', a', hk⟩ := ih (some c) (pos + 1) false m h
      refine ⟨k + 1, p', a', ?_⟩
      rw [List.drop_succ_cons, show pos + (k + 1) = pos + 1 + k by omega]
      exact hk

theorem finditerAux_matchHere (r : Rx) (text : List Char) :
    ∀ (fuel : Nat) (prev : Option Char) (pos : Nat) (adv : Bool),
      ∀ m ∈ finditerAux r fuel prev (text.drop pos) pos adv,
        ∃ q prev' adv', matchHere r ⟨prev', text.drop q, q, []⟩ adv' = some m := by
  intro fuel
  induction fuel with
  | zero => intro prev pos adv m h; simp [finditerAux] at h
  | succ f ih =>
    intro prev pos adv m h
    cases hs : scan r prev (text.drop pos) pos adv with
    | none => rw [finditerAux_none r f _ _ _ _ hs] at h; simp at h
    | some m0 =>
      obtain ⟨p', hf⟩ := finditerAux_some r f prev _ pos adv m0 hs
      rw [hf] at h
      rcases List.mem_cons.mp h with h | h
      · subst h
        obtain ⟨k, q', a', hk⟩ := scan_matchHere r _ _ _ _ _ hs
        rw [List.drop_drop] at hk
        exact ⟨_, q', a', hk⟩
      · have hb := scan_bounds r _ _ _ _ _ hs
        rw [List.drop_drop, show pos + (m0.stop - pos) = m0.stop by omega] at h
        exact ih _ _ _ m h

theorem matchHere_group0 (r : Rx) (text : List Char) (q : Nat) (prev : Option Char) (adv : Bool) (m : Match)
    (h : matchHere r ⟨prev, text.drop q, q, []⟩ adv = some m) :
    ∃ s' ∈ r.all ⟨prev, text.drop q, q, []⟩, text.drop q = m.group0 text ++ s'.rest := by
  rw [matchHere_eq] at h
  obtain ⟨s', hs', hk⟩ := List.exists_of_findSome?_eq_some h
  refine ⟨s', hs', ?_⟩
  split at hk
  · cases hk
  · cases hk
    obtain ⟨c, hc, hp⟩ := Rx.all_ext r _ _ hs'
    simp only [] at hc hp
    rw [hc]
    congr 1
    unfold Match.group0 slice
    simp only [hp]
    rw [List.drop_take, hc]
    simp



theorem multisec_truncOK : Unpack.multisec.rx.truncOK = true := by decide

/-- (the generalisation is needed: the regenerated pattern does contain negative look-aheads) -/
theorem multisec_not_anchorFree : Unpack.multisec.rx.anchorFree = false := by decide

/-- `truncOK` extends `anchorFree` -/
theorem Rx.truncOK_of_anchorFree (r : Rx) (h : r.anchorFree = true) : r.truncOK = true := by
  induction r with
  | seq a b iha ihb | alt a b iha ihb =>
    simp only [Rx.anchorFree, Bool.and_eq_true] at h
    simp only [Rx.truncOK, Bool.and_eq_true]
    exact ⟨iha h.1, ihb h.2⟩
  | rep r lo hi ih | grp i r ih => exact ih h
  | eps | fail | chr _ => rfl
  | _ => simp [Rx.anchorFree] at h

/-- a text that a `truncOK` pattern has matched as a whole is found again by `search` on that text alone -/
theorem search_group0_isSome (r : Rx) (haf : r.truncOK = true) (text : List Char) (mo : Match)
    (h : mo ∈ r.finditer text) : (r.search (mo.group0 text) 0 (mo.group0 text).length).isSome = true := by
  rw [finditer_default] at h
  obtain ⟨q, prev, adv, hm⟩ := finditerAux_matchHere r text _ none 0 false mo (by simpa using h)
  obtain ⟨s', hs', hc⟩ := matchHere_group0 r text q prev adv mo hm
  obtain ⟨t, ht, _, _⟩ := Rx.all_trunc r haf _ s' hs' (mo.group0 text) hc [] s'.rest rfl none 0 []
  simp only [List.append_nil] at ht
  have hmh : (matchHere r ⟨none, mo.group0 text, 0, []⟩ false).isSome = true := by
    rw [matchHere_eq, List.findSome?_isSome_iff]
    exact ⟨t, ht, by simp⟩
  obtain ⟨m', hm'⟩ := Option.isSome_iff_exists.mp hmh
  have : r.search (mo.group0 text) 0 (mo.group0 text).length = some m' := by
    simp only [Rx.search, cursorAt]
    simp only [Nat.min_self, Nat.not_lt_zero, if_false, BEq.rfl, if_true, List.take_length, List.drop_zero]
    rw [scan.eq_def]
    simp only [hm']
  rw [this]; rfl

theorem secRangeStep_working_append (st : Unpack.SecLoopSt) (n : Int) : ∃ l, (Unpack.secRangeStep st n).working = st.working ++ l := by
  unfold secRangeStep
  split
  · simp only []
    split <;> exact ⟨_, rfl⟩
  · exact ⟨_, rfl⟩

theorem secRangeStep_working_ne (st : Unpack.SecLoopSt) (n : Int) (h : st.working ≠ []) : (Unpack.secRangeStep st n).working ≠ [] := by
  obtain ⟨l, hl⟩ := secRangeStep_working_append st n
  rw [hl]
  simp [h]

theorem secRangeStep_init_ne (n : Int) : (Unpack.secRangeStep {} n).working ≠ [] := by
  simp [secRangeStep]

theorem secLoop_working_ne (txt : Str) : ∀ (fuel e : Nat) (st : Unpack.SecLoopSt), st.working ≠ [] →
    (Unpack.secLoop txt fuel e st).1.working ≠ [] := by
  intro fuel
  induction fuel with
  | zero => intro e st h; exact h
  | succ f ih =>
    intro e st h
    rw [secLoop]
    split
    · exact h
    · apply ih
      exact secRangeStep_working_ne st _ h

/-- every section match unpacks to at least one section number -/
theorem multisec_match_unpacks (text : Str) (mo : Match) (h : mo ∈ Unpack.multisec.rx.finditer text) :
    (Unpack.unpackSections (mo.group0 text)).secList ≠ [] := by
  obtain ⟨m', hm'⟩ := Option.isSome_iff_exists.mp (search_group0_isSome _ multisec_truncOK text mo h)
  unfold unpackSections
  simp only []
  intro hnil
  rw [List.reverse_eq_nil_iff] at hnil
  revert hnil
  rw [show (mo.group0 text).length + 2 = ((mo.group0 text).length + 1) + 1 from rfl, secLoop, hm']
  simp only []
  apply secLoop_working_ne
  exact secRangeStep_init_ne _

/-! ## generic `foldlM` lemmas over `Except` -/

theorem foldlM_congr_mem {α β ε : Type} (f g : β → α → Except ε β) (l : List α)
    (h : ∀ b, ∀ a ∈ l, f b a = g b a) (b : β) : l.foldlM f b = l.foldlM g b := by
  induction l generalizing b with
  | nil => rfl
  | cons a t ih =>
    simp only [List.foldlM_cons]
    rw [h b a List.mem_cons_self]
    congr 1
    funext b'
    exact ih (fun b a ha => h b a (List.mem_cons_of_mem _ ha)) b'

theorem foldlM_inv {α β ε : Type} (P : β → Prop) (f : β → α → Except ε β) (l : List α)
    (h : ∀ b, P b → ∀ a ∈ l, ∀ b', f b a = .ok b' → P b') (b : β) (hb : P b) (r : β)
    (hr : l.foldlM f b = .ok r) : P r := by
  induction l generalizing b with
  | nil => cases hr; exact hb
  | cons a t ih =>
    simp only [List.foldlM_cons] at hr
    cases hf : f b a with
    | error e => rw [hf] at hr; cases hr
    | ok b' =>
      rw [hf] at hr
      exact ih (fun b hb a ha => h b hb a (List.mem_cons_of_mem _ ha)) b'
        (h b hb a List.mem_cons_self b' hf) hr

theorem foldlM_ok_inv {α β ε : Type} (P : β → Prop) (f : β → α → Except ε β) (l : List α)
    (h : ∀ b, P b → ∀ a ∈ l, ∃ b', f b a = .ok b' ∧ P b') (b : β) (hb : P b) :
    ∃ r, l.foldlM f b = .ok r ∧ P r := by
  induction l generalizing b with
  | nil => exact ⟨b, rfl, hb⟩
  | cons a t ih =>
    obtain ⟨b', hf, hb'⟩ := h b hb a List.mem_cons_self
    simp only [List.foldlM_cons, hf]
    exact ih (fun b hb a ha => h b hb a (List.mem_cons_of_mem _ ha)) b' hb'

end Modes
open Modes

/-! ## C20 — colon modes -/

def AllColons (text : Str) : Prop :=
  ∀ mo ∈ Unpack.multisec.rx.finditer text, (Unpack.multisec.group mo text "colon").isSome = true
def NoColons (text : Str) : Prop :=
  ∀ mo ∈ Unpack.multisec.rx.finditer text, (Unpack.multisec.group mo text "colon").isNone = true

theorem secFindStep_colon_irrelevant (text layout : Str) (nc : Bool) (st : SecFindSt) (mo : Match)
    (h : (Unpack.multisec.group mo text "colon").isSome = true) :
    secFindStep text layout nc st mo = secFindStep text layout false st mo := by
  have h' : (Unpack.multisec.group mo text "colon").isNone = false := by
    cases hg : Unpack.multisec.group mo text "colon" <;> simp_all
  unfold secFindStep
  simp only [h', Bool.and_false, Bool.not_false, Bool.and_true]

theorem secFinderPass_all_colons (text layout : Str) (nc : Bool) (h : AllColons text) :
    secFinderPass text layout nc = secFinderPass text layout false := by
  unfold secFinderPass
  rw [foldlM_congr_mem (secFindStep text layout nc) (secFindStep text layout false) _
    (fun b a ha => secFindStep_colon_irrelevant text layout nc b a (h a ha))]

/-- when every section is followed by a colon, neither colon mode changes anything -/
theorem C20_all_colons_modes_agree (text layout : Str) (rc : ReqColon) (h : AllColons text) (hrc : rc ≠ .secondPass) :
    secFinder text layout rc = secFinder text layout .no := by
  unfold secFinder
  simp only [secFinderPass_all_colons text layout _ h]
  cases hp : secFinderPass text layout false with
  | error e => rfl
  | ok r =>
    obtain ⟨ms, ff, ln⟩ := r
    cases rc <;> first | rfl | (exfalso; exact hrc rfl) | skip
    all_goals (cases hm : ms.isEmpty <;> simp [hm])

/-- a match without colon is never legitimate when colons are required: the step leaves `out` alone -/
theorem secFindStep_nocolon_out (text layout : Str) (st st' : SecFindSt) (mo : Match)
    (h : (Unpack.multisec.group mo text "colon").isNone = true)
    (hs : secFindStep text layout true st mo = .ok st') : st'.out = st.out := by
  unfold secFindStep at hs
  simp only [h, Bool.and_true, Bool.not_true, Bool.and_false, Bool.not_false, if_true] at hs
  split at hs
  · cases hs; rfl
  · split at hs
    · cases hs; rfl
    · cases hs

theorem secFindStep_nocolon_ok (text layout : Str) (st : SecFindSt) (mo : Match)
    (h : (Unpack.multisec.group mo text "colon").isNone = true)
    (hS : (Unpack.unpackSections (mo.group0 text)).secList ≠ []) :
    ∃ st', secFindStep text layout true st mo = .ok st' ∧ st'.out = st.out := by
  unfold secFindStep
  simp only [h, Bool.and_true, Bool.not_true, Bool.and_false, Bool.not_false, if_true]
  split
  · exact ⟨_, rfl, rfl⟩
  · split
    · exact ⟨_, rfl, rfl⟩
    · rename_i hnil; exact absurd hnil hS

/-- when no section has a colon (and the layout is one where colons matter): `sec_colon_required` finds no section at all … -/
theorem C20_no_colons_required (text layout : Str) (h : NoColons text) (hl : firstLayouts layout = true)
    (r : List SecMatch × FinderFlags) (hr : secFinder text layout .yes = .ok r) : r.1 = [] := by
  unfold secFinder at hr
  have hnc : ((ReqColon.yes == ReqColon.yes || ReqColon.yes == ReqColon.cautious) && firstLayouts layout) = true := by
    rw [hl]; rfl
  simp only [hnc] at hr
  cases hp : secFinderPass text layout true with
  | error e => rw [hp] at hr; cases hr
  | ok p =>
    obtain ⟨ms, ff, ln⟩ := p
    have hms : ms = [] := by
      unfold secFinderPass at hp
      split at hp
      · cases hp
      · rename_i st hst
        cases hp
        exact foldlM_inv (fun s : SecFindSt => s.out = []) _ _
          (fun b hb a ha b' hb' => by
            show b'.out = []
            rw [secFindStep_nocolon_out text layout b b' a (h a ha) hb']; exact hb) {} rfl st hst
    subst hms
    rw [hp] at hr
    have hc : (ReqColon.yes == ReqColon.cautious) = false := rfl
    simp [hc] at hr
    rw [← hr]

/-- the cautious-mode statement under the explicit hypothesis `hS` that every match unpacks to at least one section
    number (this excludes the IndexError that the colon-requiring first pass would raise on `sec_nums[0]`);
    `hS` always holds: `Modes.multisec_match_unpacks` -/
theorem no_colons_cautious_of_unpacks (text layout : Str) (h : NoColons text) (hl : firstLayouts layout = true)
    (hS : ∀ mo ∈ Unpack.multisec.rx.finditer text, (Unpack.unpackSections (mo.group0 text)).secList ≠ [])
    (r0 : List SecMatch × FinderFlags) (h0 : secFinder text layout .no = .ok r0) (hne : r0.1 ≠ []) :
    ∃ flag : Str, secFinder text layout .cautious =
      .ok (r0.1, { flags := r0.2.flags ++ [.str flag], lines := r0.2.lines ++ [.tup [.str flag, .str flag]] }) := by
  -- the default pass
  unfold secFinder at h0
  have hnc0 : ((ReqColon.no == ReqColon.yes || ReqColon.no == ReqColon.cautious) && firstLayouts layout) = false := rfl
  simp only [hnc0] at h0
  cases hp : secFinderPass text layout false with
  | error e => rw [hp] at h0; cases h0
  | ok p =>
    obtain ⟨ms, ff, ln⟩ := p
    rw [hp] at h0
    have hc0 : (ReqColon.no == ReqColon.cautious) = false := rfl
    simp only [hc0, Bool.false_and, Bool.false_eq_true, if_false, ite_self] at h0
    cases h0
    -- the colon-requiring first pass finds nothing
    obtain ⟨st, hst, hout⟩ := foldlM_ok_inv (fun s : SecFindSt => s.out = [])
      (secFindStep text layout true) (Unpack.multisec.rx.finditer text)
      (fun b hb a ha => by
        obtain ⟨b', h1, h2⟩ := secFindStep_nocolon_ok text layout b a (h a ha) (hS a ha)
        exact ⟨b', h1, h2.trans hb⟩) {} rfl
    have hp1 : secFinderPass text layout true = .ok ([], st.ff, st.lastNums) := by
      unfold secFinderPass
      rw [hst, ← hout]
    unfold secFinder
    have hnc : ((ReqColon.cautious == ReqColon.yes || ReqColon.cautious == ReqColon.cautious) && firstLayouts layout) = true := by
      rw [hl]; rfl
    have hc : (ReqColon.cautious == ReqColon.cautious) = true := rfl
    have hme : ms.isEmpty = false := by
      cases ms with
      | nil => exact absurd rfl hne
      | cons a b => rfl
    simp only [hnc]
    simp only [hp1]
    simp only [hc, hl, hp, hme]
    exact ⟨_, rfl⟩

/-- … and `sec_colon_cautious` finds the same sections as the default, plus a `pulled_sec_without_colon` warning -/
theorem C20_no_colons_cautious (text layout : Str) (h : NoColons text) (hl : firstLayouts layout = true)
    (r0 : List SecMatch × FinderFlags) (h0 : secFinder text layout .no = .ok r0) (hne : r0.1 ≠ []) :
    ∃ flag : Str, secFinder text layout .cautious =
      .ok (r0.1, { flags := r0.2.flags ++ [.str flag], lines := r0.2.lines ++ [.tup [.str flag, .str flag]] }) :=
  no_colons_cautious_of_unpacks text layout h hl (fun mo hmo => multisec_match_unpacks text mo hmo) r0 h0 hne

/-- the `sec_nums[0]` IndexError of `findall_matching_sec` is unreachable: every `multisec_regex` match unpacks to at
    least one section number (the pattern's only look-arounds are negative look-aheads of one character class, so the
    matched text alone is matched again) -/
theorem C20_sec_match_unpacks_nonempty (text : Str) (mo : Match) (h : mo ∈ Unpack.multisec.rx.finditer text) :
    (Unpack.unpackSections (mo.group0 text)).secList ≠ [] := multisec_match_unpacks text mo h

theorem secFindStep_total (text layout : Str) (nc : Bool) (st : SecFindSt) (mo : Match)
    (hS : (Unpack.unpackSections (mo.group0 text)).secList ≠ []) :
    ∃ st', secFindStep text layout nc st mo = .ok st' := by
  unfold secFindStep
  simp only []
  split
  · split
    · exact ⟨_, rfl⟩
    · split
      · exact ⟨_, rfl⟩
      · rename_i hnil; exact absurd hnil hS
  · exact ⟨_, rfl⟩

/-- `SecFinder` never raises, in any colon mode -/
theorem C20_secFinder_total (text layout : Str) (rc : ReqColon) : ∃ r, secFinder text layout rc = .ok r := by
  have hpass : ∀ nc, ∃ r, secFinderPass text layout nc = .ok r := by
    intro nc
    obtain ⟨st, hst, _⟩ := foldlM_ok_inv (fun _ : SecFindSt => True) (secFindStep text layout nc)
      (Unpack.multisec.rx.finditer text)
      (fun b _ a ha => by
        obtain ⟨b', hb'⟩ := secFindStep_total text layout nc b a (multisec_match_unpacks text a ha)
        exact ⟨b', hb', trivial⟩) {} trivial
    unfold secFinderPass
    rw [hst]
    exact ⟨_, rfl⟩
  unfold secFinder
  simp only []
  obtain ⟨⟨ms, ff, ln⟩, h1⟩ := hpass ((rc == .yes || rc == .cautious) && firstLayouts layout)
  obtain ⟨⟨ms2, ff2, ln2⟩, h2⟩ := hpass false
  rw [h1]
  simp only [h2]
  split
  · exact ⟨_, rfl⟩
  · split
    · split <;> exact ⟨_, rfl⟩
    · exact ⟨_, rfl⟩

/-! ## C11 — copy_all -/

/-- `_parse_copyall` stages exactly one component with the whole text and exactly one section -/
theorem parseCopyAll_shape (c c' : Chunk) (txt : Str) (h : parseCopyAll c txt = .ok c') :
    ∃ sec tr, c'.comps = c.comps ++ [{ desc := txt, sec := some [sec], twprge := tr }] := by
  unfold parseCopyAll at h
  simp only [] at h
  split at h
  · cases h
    exact ⟨_, _, by rw [stage_comps, getNextTwprge_comps, getNextSec_comps]⟩
  · cases h

/-- in copy_all, when the finders found no section, the staged section is the error placeholder -/
theorem C11_copyall_no_section_placeholder (c c' : Chunk) (txt : Str) (hs : c.secList = [])
    (h : parseCopyAll c txt = .ok c') : ∃ tr, c'.comps = c.comps ++ [{ desc := txt, sec := some [ERR_SEC], twprge := tr }] := by
  unfold parseCopyAll at h
  simp only [getNextSec_workingSec, hs] at h
  cases h
  exact ⟨_, by rw [stage_comps, getNextTwprge_comps, getNextSec_comps]⟩

theorem COPY_ALL_beq : (COPY_ALL == COPY_ALL) = true := by decide

/-- a chunk parser created for copy_all stages exactly one component -/
theorem parseChunkCore_copyall (mc : MC) (pc : ParserCfg) (text : Str) (layout : Str) (c : Chunk)
    (h : parseChunkCore mc pc text true layout = .ok c) :
    ∃ sec tr, c.comps = [{ desc := text, sec := some [sec], twprge := tr }] := by
  unfold parseChunkCore at h
  simp only [chunkLayoutOf, if_true] at h
  split at h
  · cases h
  · split at h
    · cases h
    · simp only [COPY_ALL_beq, if_true] at h
      obtain ⟨sec, tr, hc⟩ := parseCopyAll_shape _ _ _ h
      exact ⟨sec, tr, by simpa using hc⟩

/-- fallback: when the layout-specific parse of a chunk stages nothing, the chunk is re-parsed as copy_all and contributes
    exactly one component whose description is the entire chunk text -/
theorem C11_chunk_fallback (mc : MC) (pc : ParserCfg) (text : Str) (copyAll : Bool) (layout : Str) (parent p : ParentSt)
    (c0 : Chunk) (h0 : parseChunkCore mc pc text copyAll layout = .ok c0) (he : c0.comps = [])
    (h : chunkParser mc pc text copyAll layout parent = .ok p) :
    ∃ sec tr, p.comps = parent.comps ++ [{ desc := text, sec := some [sec], twprge := tr }] := by
  unfold chunkParser at h
  simp only [h0, he, List.isEmpty_nil, if_true] at h
  split at h
  · cases h
  · rename_i c hc
    cases h
    obtain ⟨sec, tr, hcc⟩ := parseChunkCore_copyall mc pc text layout c hc
    exact ⟨sec, tr, by simp [hcc]⟩

/-- a chunk parsed as copy_all contributes exactly one component with the entire text and exactly one section -/
theorem C11_chunk_copyall (mc : MC) (pc : ParserCfg) (text : Str) (layout : Str) (parent p : ParentSt)
    (h : chunkParser mc pc text true layout parent = .ok p) :
    ∃ sec tr, p.comps = parent.comps ++ [{ desc := text, sec := some [sec], twprge := tr }] := by
  unfold chunkParser at h
  split at h
  · cases h
  · rename_i c0 hc0
    obtain ⟨sec, tr, hcc⟩ := parseChunkCore_copyall mc pc text layout c0 hc0
    simp only [hcc, List.isEmpty_cons, Bool.false_eq_true, if_false] at h
    cases h
    exact ⟨sec, tr, by simp⟩

theorem COPY_ALL_bne : (COPY_ALL != COPY_ALL) = false := by decide

/-- forced copy_all layout (no segmenting, no sec_within): exactly one tract, and its description is the whole
    preprocessed text -/
theorem C11_copyall_one_tract (mc : MC) (uid0 : Nat) (text : Str) (a : ParserArgs) (look : Option Str → TRS.TrsDict)
    (out : ParserOut) (hl : a.layout = some COPY_ALL) (hs : a.segment = false) (hw : a.secWithin = false)
    (hc : a.cleanUp = none) (h : plssParser mc uid0 text a look = .ok out) :
    ∃ t, out.tracts = [t] ∧ t.desc = out.text := by
  unfold plssParser at h
  split at h
  · cases h
  · rename_i handedDown _
    split at h
    · cases h
    · rename_i pp _
      simp only [hl, hc, COPY_ALL_bne] at h
      split at h
      · cases h
      · rename_i parent hparent
        -- the single chunk is the whole preprocessed text and is parsed as copy_all
        unfold parseAllBlocks at hparent
        simp only [hs, hw, Bool.false_eq_true, if_false, COPY_ALL_beq, parseBlocks] at hparent
        split at hparent
        · cases hparent
        · rename_i p0 hp0
          cases hparent
          split at hp0
          · cases hp0
          rename_i p hp
          have hpe : p = parent := by cases hp0; rfl
          rw [hpe] at hp
          obtain ⟨sec, tr, hcomps⟩ := C11_chunk_copyall mc _ pp.text COPY_ALL _ parent hp
          simp only [List.nil_append] at hcomps
          simp only [hcomps, tractSpecs, Bool.false_eq_true, if_false, List.map_cons, List.map_nil,
            List.append_nil, buildTracts] at h
          cases ht : tractInit (uid0 + 0) pp.text (some (optStrPy tr ++ sec)) (CfgArg.text handedDown) (some a.parseQQ)
              a.source (some text) (↑(0 : Nat)) look with
          | error e => rw [ht] at h; cases h
          | ok t =>
            rw [ht] at h
            simp only [] at h
            split at h
            · cases h
            · cases h
              refine ⟨_, rfl, ?_⟩
              have hp := tractInit_prov _ _ _ _ _ _ _ _ _ _ ht
              simp only [prov, Prod.mk.injEq] at hp
              exact hp.2.2.1

theorem pyLower_append (s t : Str) : pyLower (s ++ t) = pyLower s ++ pyLower t := by
  unfold pyLower; exact List.flatMap_append

theorem pyLower_ERR_SEC : pyLower Plss.ERR_SEC = ['x', 'x'] := by decide

theorem isError_errDict : TRS.isError TRS.errDict = true := by decide

theorem append_two_inj {α : Type} {u v : List α} {a b x y : α} (h : u ++ [a, b] = v ++ [x, y]) : a = x ∧ b = y := by
  have := List.append_inj_right' h rfl
  simpa using this

/-- the error section placeholder always reads back as an error: a copy_all tract for which no section was found carries
    an undecipherable Twp/Rge/Sec (and therefore a `twprge_error` flag, see C10_error_tract_flagged) -/
theorem C11_err_sec_is_error (s : Str) : TRS.isError (TRS.trsToDict (some (s ++ Plss.ERR_SEC))) = true := by
  have hne : TRS.normIn (some (s ++ Plss.ERR_SEC)) = s ++ Plss.ERR_SEC := by
    have : Plss.ERR_SEC = ['X', 'X'] := by decide
    rw [this]
    cases s <;> rfl
  cases hr : recognise (pyLower (TRS.normIn (some (s ++ Plss.ERR_SEC)))) with
  | none => rw [trsToDict_reject _ hr]; exact isError_errDict
  | some c =>
    rw [trsToDict_eq_dictOf _ c hr]
    obtain ⟨ht, hg⟩ := recognise_sound hr
    rw [hne, pyLower_append, pyLower_ERR_SEC] at ht
    have hsec : (c.sec.bind pyInt?) = none ∧ (c.sec == some ['_', '_']) = false := by
      cases hcs : c.sec with
      | none => exact ⟨rfl, rfl⟩
      | some sc =>
        obtain ⟨a, b, rfl, _⟩ := hg.sec sc hcs
        simp only [TrsParts.text, hcs, Option.getD_some] at ht
        obtain ⟨rfl, rfl⟩ := append_two_inj ht.symm
        exact ⟨TrsRecog.pyInt_xx, by decide⟩
    unfold TRS.isError dictOf
    simp [hsec.1, hsec.2]

/-! ## C14 — re-parsing a description -/

/-- the parser does not depend on the UID counter except for numbering the tracts it creates -/
def shiftUid (k : Nat) (t : TractObj) : TractObj := { t with uid := t.uid + k }

@[simp] theorem shiftUid_desc (k : Nat) (t : TractObj) : (shiftUid k t).desc = t.desc := rfl
@[simp] theorem shiftUid_attrs (k : Nat) (t : TractObj) : (shiftUid k t).attrs = t.attrs := rfl
@[simp] theorem shiftUid_diverged (k : Nat) (t : TractObj) : (shiftUid k t).diverged = t.diverged := rfl
@[simp] theorem shiftUid_trs (k : Nat) (t : TractObj) : (shiftUid k t).trs = t.trs := rfl
@[simp] theorem shiftUid_inherited (k : Nat) (t : TractObj) : inheritedFlags (shiftUid k t) = inheritedFlags t := rfl

theorem tractParseMethod_shift (k : Nat) (t : TractObj) (commit : Bool) (kw : TractKw) :
    tractParseMethod (shiftUid k t) commit kw =
      (tractParseMethod t commit kw).map (fun r => (shiftUid k r.1, r.2)) := by
  unfold tractParseMethod
  simp only [shiftUid_desc, shiftUid_attrs, shiftUid_inherited]
  cases Tract.tractParse t.desc (effectiveTract t.attrs kw) (inheritedFlags t) with
  | error e => rfl
  | ok r => cases commit <;> rfl

theorem tractInitCore_shift (k : Nat) (t : TractObj) :
    tractInitCore (shiftUid k t) = (tractInitCore t).map (shiftUid k) := by
  unfold tractInitCore
  simp only [shiftUid_attrs]
  by_cases hq : getB t.attrs "parse_qq" = true
  · simp only [hq, if_true]
    rw [tractParseMethod_shift]
    cases tractParseMethod t true {} <;> rfl
  · simp only [hq]
    unfold tractPreprocess
    simp only [shiftUid_desc, shiftUid_attrs]
    cases Tract.scrubAliquots t.desc ((none : Option Bool).getD (getB t.attrs "clean_qq")) <;> rfl

theorem tractInit_shift (u k : Nat) (desc : Str) (trs : Option Str) (config : CfgArg) (parseQQ : Option Bool)
    (source origDesc : OptStr) (origIndex : Int) (look : Option Str → TRS.TrsDict) :
    tractInit (u + k) desc trs config parseQQ source origDesc origIndex look =
      (tractInit u desc trs config parseQQ source origDesc origIndex look).map (shiftUid k) := by
  unfold tractInit
  cases resolveCfgArg config with
  | error e => rfl
  | ok c =>
    exact tractInitCore_shift k
      { uid := u, trsKey := TRS.normIn trs, trs := look trs, desc := desc, origDesc := origDesc,
        origIndex := origIndex, source := source, attrs := tractInitAttrs c parseQQ, config := c, ppDesc := desc }

theorem buildTracts_shift (u k : Nat) (hd : Str) (pq : Bool) (src : OptStr) (text : Str)
    (look : Option Str → TRS.TrsDict) (specs : List (Str × Str × Bool)) (idx : Nat) :
    buildTracts (u + k) hd pq src text look idx specs =
      (buildTracts u hd pq src text look idx specs).map (List.map (shiftUid k)) := by
  induction specs generalizing idx with
  | nil => rfl
  | cons sp rest ih =>
    obtain ⟨desc, trs, sw⟩ := sp
    simp only [buildTracts]
    rw [Nat.add_right_comm, tractInit_shift, ih]
    cases tractInit (u + idx) desc (some trs) (.text hd) (some pq) src (some text) idx look with
    | error e => rfl
    | ok t =>
      cases buildTracts u hd pq src text look (idx + 1) rest <;> rfl

theorem secWithinFlags_shift (k : Nat) (ts : List TractObj) (idxs : List Nat) (fl : Tract.Flags) :
    secWithinFlags (ts.map (shiftUid k)) fl idxs = secWithinFlags ts fl idxs := by
  induction idxs generalizing fl with
  | nil => rfl
  | cons i rest ih =>
    simp only [secWithinFlags, List.getElem?_map]
    cases ts[i]? with
    | none => rfl
    | some t => exact ih _

theorem errorTractFlag_shift (k : Nat) (ts : List TractObj) (fl : Tract.Flags) :
    errorTractFlag fl (ts.map (shiftUid k)) = errorTractFlag fl ts := by
  unfold errorTractFlag
  rw [List.any_map]
  rfl

theorem handDownFlags_shift (k : Nat) (ts : List TractObj) (fl : Tract.Flags) :
    handDownFlags fl (ts.map (shiftUid k)) = (handDownFlags fl ts).map (shiftUid k) := by
  unfold handDownFlags
  rw [List.map_map, List.map_map]
  rfl

theorem any_diverged_shift (k : Nat) (ts : List TractObj) :
    ((ts.map (shiftUid k)).any (·.diverged)) = ts.any (·.diverged) := by
  rw [List.any_map]
  rfl

theorem C14_plssParser_uid_shift (mc : MC) (u k : Nat) (text : Str) (a : ParserArgs) (look : Option Str → TRS.TrsDict) :
    plssParser mc (u + k) text a look =
      (plssParser mc u text a look).map (fun o => { o with tracts := o.tracts.map (shiftUid k), nextUid := o.nextUid + k }) := by
  unfold plssParser
  cases handedDownText a with
  | error e => rfl
  | ok handedDown =>
    simp only []
    cases plssPreprocess mc text a.defaultNS a.defaultEW a.ocrScrub with
    | error e => rfl
    | ok pp =>
      simp only []
      cases parseAllBlocks mc pp.text (match a.layout with | some l => l | none => deduceLayout pp.text) a
          (fixedFlags pp.fixed) with
      | error e => rfl
      | ok parent =>
        simp only []
        cases tractSpecs (match a.cleanUp with
            | some b => b
            | none => (match a.layout with | some l => l | none => deduceLayout pp.text) != COPY_ALL) parent.comps with
        | error e => rfl
        | ok specs =>
          simp only [buildTracts_shift]
          cases buildTracts u handedDown a.parseQQ a.source text look 0 specs with
          | error e => rfl
          | ok tracts =>
            simp only [Except.map, secWithinFlags_shift]
            cases secWithinFlags tracts (examineUnused parent.fl parent.unused) (secWithinIndexes specs) with
            | error e => rfl
            | ok fl1 =>
              simp only [errorTractFlag_shift, handDownFlags_shift, any_diverged_shift, Nat.add_right_comm u k]

/-- a committed parse does not change what the next parse is computed from -/
theorem C14_desc_parse_args_stable (mc : MC) (u : Nat) (d d' : DescObj) (kw kw' : DescKw) (commit : Bool)
    (look : Option Str → TRS.TrsDict) (o : ParserOut) (h : descParse mc u d kw commit look = .ok (d', o)) :
    effectiveDesc d' kw' = effectiveDesc d kw' ∧ d'.origDesc = d.origDesc := by
  unfold descParse at h
  split at h
  · cases h
  · cases commit
    · simp only [Bool.false_eq_true, if_false] at h
      cases h
      exact ⟨rfl, rfl⟩
    · simp only [if_true] at h
      cases h
      exact ⟨rfl, rfl⟩

/-- re-parsing with unchanged settings reproduces the same tracts (up to their creation numbers), flags, layout and text:
    nothing accumulates -/
theorem C14_desc_reparse_idempotent (mc : MC) (u1 u2 : Nat) (d d1 : DescObj) (kw : DescKw) (look : Option Str → TRS.TrsDict)
    (o1 : ParserOut) (h1 : descParse mc u1 d kw true look = .ok (d1, o1)) (hu : u1 ≤ u2) :
    ∃ d2 o2, descParse mc u2 d1 kw true look = .ok (d2, o2) ∧
      o2.tracts = o1.tracts.map (shiftUid (u2 - u1)) ∧ o2.fl = o1.fl ∧ o2.layout = o1.layout ∧ o2.text = o1.text ∧
      d2.tracts = o2.tracts ∧ d2.fl = o2.fl := by
  obtain ⟨hargs, horig⟩ := C14_desc_parse_args_stable mc u1 d d1 kw kw true look o1 h1
  have hp1 : plssParser mc u1 d.origDesc (effectiveDesc d kw) look = .ok o1 := by
    unfold descParse at h1
    split at h1
    · cases h1
    · simp only [if_true] at h1
      cases h1
      assumption
  have hu2 : u2 = u1 + (u2 - u1) := by omega
  have hp2 := C14_plssParser_uid_shift mc u1 (u2 - u1) d.origDesc (effectiveDesc d kw) look
  rw [← hu2, hp1] at hp2
  unfold descParse
  rw [hargs, horig, hp2]
  exact ⟨_, _, rfl, rfl, rfl, rfl, rfl, rfl, rfl⟩

#print axioms C20_all_colons_modes_agree
#print axioms C20_no_colons_required
#print axioms C20_no_colons_cautious
#print axioms C20_sec_match_unpacks_nonempty
#print axioms C20_secFinder_total
#print axioms C11_chunk_fallback
#print axioms C11_chunk_copyall
#print axioms C11_copyall_one_tract
#print axioms C11_err_sec_is_error
#print axioms C11_copyall_no_section_placeholder
#print axioms C14_plssParser_uid_shift
#print axioms C14_desc_parse_args_stable
#print axioms C14_desc_reparse_idempotent

end PyTRS
