/-
C01 — end to end on TEXT: the lexical premise `FindersReport` of `Lemmas/Pretty.lean` is discharged for the canonical
rendering that `pretty_desc` itself produces, for description blocks drawn from an inert alphabet; hence the layout theorems
hold with NO lexical premise, at chunk level and through the whole parser.

Contents.
* Part 0 (pattern-agnostic): `Tiles` — `finditer` over a text cut into skipped characters and tokens (`Tiles.finditer_eq`,
  `Tiles.search_eq`, `Tiles.subWith_id`); the CHAIN FOOTPRINT `Rx.all_foot2` (which characters may stand next to each other
  inside a match: `Rx.follow`, `Rx.adjB`, first/last sets) and the failure lemmas built on it (`Fails.of_break`,
  `FailsOn.seq_foot`, `Skips.*`); `populateMarkers_groups` (the sorted marker dictionary of an arranged chunk).
* Part 1: the dangerous characters `Danger`, `HeadDanger` (every class fact is DECIDED on the regenerated patterns), `Inert`,
  the canonical text `docText sp groups` (`sp` = what separates a header from its first line).
* Parts 2–5: the matches of `twprge_regex`, `pp_twprge_no_*`, `pp_twprge_comma_remove`, `multisec_regex`, `no_num_sec_regex`,
  `sec_twprge_in_between` in the canonical text (`hdrTiles`, `secTok`, `sec_groups`, `between_search_none`), the two finders
  (`twprgeFinder_doc`, `secFinder_doc`), the markers, the deduced layout.
* Part 6: `C01_chunk_canonical` — `parse_chunk` on the canonical text.
* Part 7: `pretty_is_doc`, `C01_finders_report_canonical`, `C01_pretty_roundtrip_text` — the rendering of `pretty_desc`.
* Part 8: `plssPreprocess_doc` — the six scrubbers and the white-space reduction on the canonical text.
* Part 9: `C01_canonical_forward` — the whole `PLSSParser`.
* Part 10: `C01_preprocess_changes_rendering` (the rendering is NOT a fixed point of preprocessing),
  `C01_pretty_roundtrip_parser`, concrete instances of every main theorem.
-/
import PyTRS.Lemmas.Pretty
import PyTRS.Lemmas.CanonTwprge
import PyTRS.Lemmas.TrsRound
import PyTRS.Lemmas.TractsOf
set_option linter.unusedSimpArgs false
set_option linter.unusedVariables false
namespace PyTRS
open PyTRS.Obj PyTRS.Plss PyTRS.Export PyTRS.Unpack

/-! ## Part 0 — generic tools -/

/-! ### `finditer` over a text cut into gaps and tokens -/

theorem LT.scan_cons (r : Rx) (prev : Option Char) (c : Char) (t : Str) (pos : Nat) (adv : Bool) :
    scan r prev (c :: t) pos adv =
      match matchHere r ⟨prev, c :: t, pos, []⟩ adv with
      | some m => some m
      | none => scan r (some c) t (pos + 1) false := by
  rw [scan]
  cases matchHere r ⟨prev, c :: t, pos, []⟩ adv <;> rfl

theorem LT.scan_nil (r : Rx) (prev : Option Char) (pos : Nat) (adv : Bool) :
    scan r prev [] pos adv = matchHere r ⟨prev, [], pos, []⟩ adv := by
  rw [scan]; cases matchHere r ⟨prev, [], pos, []⟩ adv <;> rfl

theorem LT.advance_append (a : Str) : ∀ (p : Option Char) (rest : Str) (n : Nat),
    advance p (a ++ rest) (a.length + n) = advance (lastOr p a) rest n := by
  induction a with
  | nil => intro p rest n; simp [lastOr]
  | cons c t ih =>
    intro p rest n
    have e : (c :: t).length + n = (t.length + n) + 1 := by simp only [List.length_cons]; omega
    rw [e]
    show advance (some c) (t ++ rest) (t.length + n) = _
    rw [ih]; rfl

/-- the text from the cursor on is cut into characters at which the pattern does not match and (non-empty) tokens which
    it matches exactly; `ms` are the matches of the tokens -/
inductive Tiles (r : Rx) : Option Char → Str → Nat → List Match → Prop
  | nil (prev : Option Char) (pos : Nat) : matchHere r ⟨prev, [], pos, []⟩ false = none → Tiles r prev [] pos []
  | skip (prev : Option Char) (c : Char) (rest : Str) (pos : Nat) (ms : List Match) :
      matchHere r ⟨prev, c :: rest, pos, []⟩ false = none → Tiles r (some c) rest (pos + 1) ms →
      Tiles r prev (c :: rest) pos ms
  | tok (prev : Option Char) (seg rest : Str) (pos : Nat) (m : Match) (ms : List Match) :
      matchHere r ⟨prev, seg ++ rest, pos, []⟩ false = some m → m.start = pos → m.stop = pos + seg.length → seg ≠ [] →
      Tiles r (lastOr prev seg) rest (pos + seg.length) ms → Tiles r prev (seg ++ rest) pos (m :: ms)

theorem Tiles.length_le {r : Rx} {prev : Option Char} {rest : Str} {pos : Nat} {ms : List Match}
    (h : Tiles r prev rest pos ms) : ms.length ≤ rest.length := by
  induction h with
  | nil => simp
  | skip prev c rest pos ms _ _ ih => simp only [List.length_cons]; omega
  | tok prev seg rest pos m ms _ _ _ hne _ ih =>
    have : 0 < seg.length := List.length_pos_iff.mpr hne
    simp only [List.length_cons, List.length_append]; omega

theorem Tiles.scan_eq {r : Rx} {prev : Option Char} {rest : Str} {pos : Nat} {ms : List Match}
    (h : Tiles r prev rest pos ms) : scan r prev rest pos false = ms.head? := by
  induction h with
  | nil prev pos h0 => rw [LT.scan_nil, h0]; rfl
  | skip prev c rest pos ms h0 _ ih => rw [LT.scan_cons, h0]; exact ih
  | tok prev seg rest pos m ms h0 _ _ hne _ _ =>
    cases hs : seg ++ rest with
    | nil => simp at hs; exact absurd hs.1 hne
    | cons c t => rw [hs] at h0; rw [LT.scan_cons, h0]; rfl

theorem Tiles.finditerAux_eq {r : Rx} {prev : Option Char} {rest : Str} {pos : Nat} {ms : List Match}
    (h : Tiles r prev rest pos ms) : ∀ fuel, ms.length < fuel → finditerAux r fuel prev rest pos false = ms := by
  induction h with
  | nil prev pos h0 =>
    intro fuel hf
    obtain ⟨n, rfl⟩ : ∃ n, fuel = n + 1 := ⟨fuel - 1, by simp at hf; omega⟩
    rw [finditerAux, LT.scan_nil, h0]
  | skip prev c rest pos ms h0 _ ih =>
    intro fuel hf
    obtain ⟨n, rfl⟩ : ∃ n, fuel = n + 1 := ⟨fuel - 1, by omega⟩
    have := ih (n + 1) hf
    rw [finditerAux] at this ⊢
    rw [LT.scan_cons, h0]
    simp only []
    cases hs : scan r (some c) rest (pos + 1) false with
    | none => rw [hs] at this; exact this
    | some m =>
      rw [hs] at this
      have hb := scan_bounds r _ _ _ _ m hs
      have e : m.stop - pos = (m.stop - (pos + 1)) + 1 := by omega
      simp only [] at this ⊢
      rw [e]
      exact this
  | tok prev seg rest pos m ms h0 hst hsp hne ht ih =>
    intro fuel hf
    obtain ⟨n, rfl⟩ : ∃ n, fuel = n + 1 := ⟨fuel - 1, by omega⟩
    have hsc : scan r prev (seg ++ rest) pos false = some m := by
      have := (Tiles.tok prev seg rest pos m ms h0 hst hsp hne ht).scan_eq
      simpa using this
    rw [finditerAux, hsc]
    simp only []
    have e : m.stop - pos = seg.length + 0 := by omega
    rw [e, LT.advance_append]
    simp only [advance]
    have hne' : (m.stop == m.start) = false := by
      have : 0 < seg.length := List.length_pos_iff.mpr hne
      simp only [beq_eq_false_iff_ne, ne_eq]; omega
    rw [hne', hsp]
    rw [ih n (by simp only [List.length_cons] at hf; omega)]

/-- `finditer` on a tiled text returns the token matches -/
theorem Tiles.finditer_eq {r : Rx} {text : Str} {ms : List Match} (h : Tiles r none text 0 ms) : r.finditer text = ms := by
  rw [finditer_default]
  exact h.finditerAux_eq _ (by have := h.length_le; omega)

theorem Tiles.search_eq {r : Rx} {text : Str} {ms : List Match} (h : Tiles r none text 0 ms) : r.search text = ms.head? := by
  rw [search_default]; exact h.scan_eq

/-- skipping a whole segment at no character of which the pattern matches -/
theorem Tiles.skips {r : Rx} (rest : Str) (ms : List Match) : ∀ (seg : Str) (prev : Option Char) (pos : Nat),
    (∀ (a b : Str) (c : Char), seg = a ++ c :: b → matchHere r ⟨lastOr prev a, c :: (b ++ rest), pos + a.length, []⟩ false = none) →
    Tiles r (lastOr prev seg) rest (pos + seg.length) ms → Tiles r prev (seg ++ rest) pos ms := by
  intro seg
  induction seg with
  | nil => intro prev pos _ h; simpa [lastOr] using h
  | cons c t ih =>
    intro prev pos hall h
    have h0 := hall [] t c rfl
    simp only [lastOr, List.length_nil, Nat.add_zero] at h0
    refine Tiles.skip prev c (t ++ rest) pos ms h0 (ih (some c) (pos + 1) ?_ ?_)
    · intro a b d hs
      have := hall (c :: a) b d (by rw [hs]; rfl)
      simp only [lastOr, List.length_cons] at this
      rw [show pos + 1 + a.length = pos + (a.length + 1) by omega]
      exact this
    · have e : pos + 1 + t.length = pos + (c :: t).length := by simp only [List.length_cons]; omega
      rw [e]; exact h

/-! ### the chain footprint: which characters may stand next to each other inside a match -/

/-- the classes that can consume the LAST character of a match (over-approximation) -/
def Rx.lastSets : Rx → List CharSet
  | .chr cs => [cs]
  | .seq a b => b.lastSets ++ (if b.nullable then a.lastSets else [])
  | .alt a b => a.lastSets ++ b.lastSets
  | .rep r _ _ | .grp _ r => r.lastSets
  | .eps | .fail | .ahead _ | .nahead _ | .behind _ | .wordb _ | .eos | .bos => []

def pairsOf (l1 l2 : List CharSet) : List (CharSet × CharSet) := l1.flatMap (fun a => l2.map (fun b => (a, b)))

theorem mem_pairsOf {l1 l2 : List CharSet} {a b : CharSet} (ha : a ∈ l1) (hb : b ∈ l2) : (a, b) ∈ pairsOf l1 l2 := by
  simp only [pairsOf, List.mem_flatMap, List.mem_map]
  exact ⟨a, ha, b, hb, rfl⟩

/-- pairs of classes (A, B) such that a character consumed by A may be followed immediately by one consumed by B -/
def Rx.follow : Rx → List (CharSet × CharSet)
  | .seq a b => a.follow ++ b.follow ++ pairsOf a.lastSets b.firstSets
  | .alt a b => a.follow ++ b.follow
  | .rep r _ _ => r.follow ++ pairsOf r.lastSets r.firstSets
  | .grp _ r => r.follow
  | .chr _ | .eps | .fail | .ahead _ | .nahead _ | .behind _ | .wordb _ | .eos | .bos => []

/-- may `y` follow `x` immediately inside a match of `r`? -/
def Rx.adjB (r : Rx) (x y : Char) : Bool := r.follow.any (fun p => p.1.mem x && p.2.mem y)

def memAny (l : List CharSet) (c : Char) : Prop := ∃ cs ∈ l, cs.mem c = true

/-- every two neighbours of the list are related -/
def AdjAll (R : Char → Char → Prop) : List Char → Prop
  | x :: y :: t => R x y ∧ AdjAll R (y :: t)
  | _ => True

theorem AdjAll.mono {R R' : Char → Char → Prop} (h : ∀ x y, R x y → R' x y) : ∀ {l : List Char}, AdjAll R l → AdjAll R' l
  | [], _ => trivial
  | [_], _ => trivial
  | x :: y :: t, hl => ⟨h x y hl.1, AdjAll.mono h (l := y :: t) hl.2⟩

theorem AdjAll.append {R : Char → Char → Prop} : ∀ {a b : List Char}, AdjAll R a → AdjAll R b →
    (∀ x y, a.getLast? = some x → b.head? = some y → R x y) → AdjAll R (a ++ b)
  | [], b, _, hb, _ => hb
  | [x], [], _, _, _ => trivial
  | [x], y :: t, _, hb, hj => ⟨hj x y rfl rfl, hb⟩
  | x :: y :: t, b, ha, hb, hj => by
    refine ⟨ha.1, AdjAll.append (a := y :: t) ha.2 hb ?_⟩
    intro u v hu hv
    exact hj u v (by rw [List.getLast?_cons_cons]; exact hu) hv

theorem AdjAll.mid {R : Char → Char → Prop} : ∀ (pre : List Char) (x y : Char) (t : List Char),
    AdjAll R (pre ++ x :: y :: t) → R x y
  | [], x, y, t, h => h.1
  | [a], x, y, t, h => h.2.1
  | a :: b :: pre, x, y, t, h => AdjAll.mid (b :: pre) x y t h.2

theorem AdjAll.take {R : Char → Char → Prop} : ∀ (a b : List Char), AdjAll R (a ++ b) → AdjAll R a
  | [], _, _ => trivial
  | [x], _, _ => trivial
  | x :: y :: t, b, h => ⟨h.1, AdjAll.take (y :: t) b h.2⟩

/-- the consumed segment: neighbours allowed by `adj`, first character from `fs`, last character from `ls` -/
structure Chained (fs ls : List CharSet) (adj : Char → Char → Prop) (seg : List Char) : Prop where
  adj : AdjAll adj seg
  first : ∀ c, seg.head? = some c → memAny fs c
  last : ∀ c, seg.getLast? = some c → memAny ls c

def Rx.adjP (r : Rx) (x y : Char) : Prop := ∃ p ∈ r.follow, p.1.mem x = true ∧ p.2.mem y = true

theorem Rx.adjB_of_adjP {r : Rx} {x y : Char} (h : r.adjP x y) : r.adjB x y = true := by
  obtain ⟨p, hp, h1, h2⟩ := h
  simp only [Rx.adjB, List.any_eq_true, Bool.and_eq_true]
  exact ⟨p, hp, h1, h2⟩

/-- `s'` is reached from `s` by consuming a chained segment -/
def Foot2 (r : Rx) (s s' : St) : Prop :=
  ∃ seg : List Char, s.rest = seg ++ s'.rest ∧ Chained r.firstSets r.lastSets r.adjP seg ∧ (seg = [] → r.nullable = true)

theorem Chained.nil (fs ls : List CharSet) (adj : Char → Char → Prop) : Chained fs ls adj [] :=
  ⟨trivial, fun _ h => (by cases h), fun _ h => (by cases h)⟩

theorem Foot2.same {r : Rx} {s s' : St} (h : s.rest = s'.rest) (hn : r.nullable = true) : Foot2 r s s' :=
  ⟨[], by simpa using h, Chained.nil _ _ _, fun _ => hn⟩

theorem memAny_mono {l l' : List CharSet} (h : ∀ cs ∈ l, cs ∈ l') {c : Char} (hc : memAny l c) : memAny l' c := by
  obtain ⟨cs, hcs, hm⟩ := hc
  exact ⟨cs, h cs hcs, hm⟩

/-- composition of two consumed segments -/
theorem Chained.append {f1 l1 f2 l2 f l : List CharSet} {adj1 adj2 adj : Char → Char → Prop} {g1 g2 : List Char}
    (h1 : Chained f1 l1 adj1 g1) (h2 : Chained f2 l2 adj2 g2)
    (ha1 : ∀ x y, adj1 x y → adj x y) (ha2 : ∀ x y, adj2 x y → adj x y)
    (hj : ∀ x y, memAny l1 x → memAny f2 y → adj x y)
    (hf1 : g1 ≠ [] → ∀ c, memAny f1 c → memAny f c) (hf2 : g1 = [] → ∀ c, memAny f2 c → memAny f c)
    (hl2 : g2 ≠ [] → ∀ c, memAny l2 c → memAny l c) (hl1 : g2 = [] → ∀ c, memAny l1 c → memAny l c) :
    Chained f l adj (g1 ++ g2) := by
  refine ⟨AdjAll.append (h1.adj.mono ha1) (h2.adj.mono ha2) ?_, ?_, ?_⟩
  · intro x y hx hy
    exact hj x y (h1.last x hx) (h2.first y hy)
  · intro c hc
    cases g1 with
    | nil => exact hf2 rfl c (h2.first c (by simpa using hc))
    | cons d u => exact hf1 (by simp) c (h1.first c (by simpa using hc))
  · intro c hc
    by_cases hg : g2 = []
    · subst hg
      exact hl1 rfl c (h1.last c (by simpa using hc))
    · refine hl2 hg c (h2.last c ?_)
      rw [List.getLast?_append] at hc
      cases hl : g2.getLast? with
      | none => exact absurd (List.getLast?_eq_none_iff.1 hl) hg
      | some d => rw [hl] at hc; simpa using hc

/-- the loop invariant for `repAll`: the segment consumed by the remaining iterations -/
def Foot2Loop (r : Rx) (lo count : Nat) (s s' : St) : Prop :=
  ∃ seg : List Char, s.rest = seg ++ s'.rest ∧ Chained r.firstSets r.lastSets (Rx.rep r 0 none).adjP seg ∧
    (seg = [] → count < lo → r.nullable = true)

theorem rep_adjP_body {r : Rx} {x y : Char} (h : r.adjP x y) : (Rx.rep r 0 none).adjP x y := by
  obtain ⟨p, hp, h1, h2⟩ := h
  exact ⟨p, by simp [Rx.follow, hp], h1, h2⟩

theorem rep_adjP_junction {r : Rx} {x y : Char} (hx : memAny r.lastSets x) (hy : memAny r.firstSets y) :
    (Rx.rep r 0 none).adjP x y := by
  obtain ⟨a, ha, hax⟩ := hx
  obtain ⟨b, hb, hby⟩ := hy
  exact ⟨(a, b), by simp only [Rx.follow, List.mem_append]; exact Or.inr (mem_pairsOf ha hb), hax, hby⟩

theorem Foot2Loop.step {r : Rx} {lo count : Nat} {s s1 s' : St}
    (h1 : Foot2 r s s1) (h2 : Foot2Loop r lo (count + 1) s1 s') : Foot2Loop r lo count s s' := by
  obtain ⟨g1, e1, c1, n1⟩ := h1
  obtain ⟨g2, e2, c2, n2⟩ := h2
  refine ⟨g1 ++ g2, by rw [e1, e2, List.append_assoc], ?_, ?_⟩
  · exact Chained.append c1 c2 (fun x y h => rep_adjP_body h) (fun x y h => h) (fun x y hx hy => rep_adjP_junction hx hy)
      (fun _ c h => h) (fun _ c h => h) (fun _ c h => h) (fun _ c h => h)
  · intro hnil _
    exact n1 (List.append_eq_nil_iff.1 hnil).1

theorem repAll_foot2 (r : Rx) (hb : ∀ s s', s' ∈ r.all s → Foot2 r s s') (lo : Nat) (hi : Option Nat) :
    ∀ (fuel count : Nat) (last : Option Nat) (s s' : St),
      s' ∈ repAll r.all lo hi fuel count last s → Foot2Loop r lo count s s' := by
  intro fuel
  induction fuel with
  | zero => intro count last s s' h; simp [repAll] at h
  | succ n ih =>
    intro count last s s' h
    rw [repAll] at h
    have hrefl : ∀ s', ¬ count < lo → Foot2Loop r lo count s' s' := fun s' hc =>
      ⟨[], rfl, Chained.nil _ _ _, fun _ h' => absurd h' hc⟩
    by_cases h1 : count < lo
    · simp only [h1, if_true, List.mem_flatMap] at h
      obtain ⟨s1, hs1, hs'⟩ := h
      exact Foot2Loop.step (hb s s1 hs1) (ih _ _ s1 s' hs')
    · simp only [h1, if_false] at h
      split at h
      · rcases List.mem_append.1 h with h | h
        · simp only [List.mem_flatMap] at h
          obtain ⟨s1, hs1, hs'⟩ := h
          exact Foot2Loop.step (count := count) (hb s s1 hs1) (ih _ _ s1 s' hs')
        · simp only [List.mem_singleton] at h
          subst h
          exact hrefl s' h1
      · simp only [List.mem_singleton] at h
        subst h
        exact hrefl s' h1

/-- the chain footprint theorem -/
theorem Rx.all_foot2 (r : Rx) : ∀ (s s' : St), s' ∈ r.all s → Foot2 r s s' := by
  induction r with
  | eps =>
    intro s s' h
    simp only [Rx.all, List.mem_singleton] at h
    subst h
    exact Foot2.same rfl rfl
  | fail => intro s s' h; simp [Rx.all] at h
  | chr cs =>
    intro s s' h
    simp only [Rx.all] at h
    cases hr : s.rest with
    | nil => rw [hr] at h; simp at h
    | cons c t =>
      rw [hr] at h
      simp only [] at h
      by_cases hc : cs.mem c = true
      · simp only [hc, if_true, List.mem_singleton] at h
        subst h
        refine ⟨[c], hr, ⟨trivial, ?_, ?_⟩, fun hnil => by cases hnil⟩
        · intro x hx
          simp only [List.head?_cons, Option.some.injEq] at hx
          subst hx
          exact ⟨cs, by simp [Rx.firstSets], hc⟩
        · intro x hx
          simp only [List.getLast?_singleton, Option.some.injEq] at hx
          subst hx
          exact ⟨cs, by simp [Rx.lastSets], hc⟩
      · simp [hc] at h
  | seq a b iha ihb =>
    intro s s' h
    simp only [Rx.all, List.mem_flatMap] at h
    obtain ⟨s1, hs1, hs'⟩ := h
    obtain ⟨g1, e1, c1, n1⟩ := iha s s1 hs1
    obtain ⟨g2, e2, c2, n2⟩ := ihb s1 s' hs'
    refine ⟨g1 ++ g2, by rw [e1, e2, List.append_assoc], ?_, ?_⟩
    · refine Chained.append c1 c2 ?_ ?_ ?_ ?_ ?_ ?_ ?_
      · intro x y ⟨p, hp, h1, h2⟩
        exact ⟨p, by simp [Rx.follow, hp], h1, h2⟩
      · intro x y ⟨p, hp, h1, h2⟩
        exact ⟨p, by simp [Rx.follow, hp], h1, h2⟩
      · intro x y ⟨p, hp, hpx⟩ ⟨q, hq, hqy⟩
        exact ⟨(p, q), by simp only [Rx.follow, List.mem_append]; exact Or.inr (mem_pairsOf hp hq), hpx, hqy⟩
      · intro _ c hc
        exact memAny_mono (fun cs h => by simp [Rx.firstSets, h]) hc
      · intro hg c hc
        exact memAny_mono (fun cs h => by simp [Rx.firstSets, n1 hg, h]) hc
      · intro _ c hc
        exact memAny_mono (fun cs h => by simp [Rx.lastSets, h]) hc
      · intro hg c hc
        exact memAny_mono (fun cs h => by simp [Rx.lastSets, n2 hg, h]) hc
    · intro hnil
      have := List.append_eq_nil_iff.1 hnil
      simp only [Rx.nullable, n1 this.1, n2 this.2, Bool.and_self]
  | alt a b iha ihb =>
    intro s s' h
    simp only [Rx.all, List.mem_append] at h
    rcases h with h | h
    · obtain ⟨g, e, c1, n1⟩ := iha s s' h
      refine ⟨g, e, ⟨c1.adj.mono ?_, ?_, ?_⟩, ?_⟩
      · intro x y ⟨p, hp, h1, h2⟩
        exact ⟨p, by simp [Rx.follow, hp], h1, h2⟩
      · intro c hc
        exact memAny_mono (fun cs h => by simp [Rx.firstSets, h]) (c1.first c hc)
      · intro c hc
        exact memAny_mono (fun cs h => by simp [Rx.lastSets, h]) (c1.last c hc)
      · intro hnil
        simp only [Rx.nullable, n1 hnil, Bool.true_or]
    · obtain ⟨g, e, c1, n1⟩ := ihb s s' h
      refine ⟨g, e, ⟨c1.adj.mono ?_, ?_, ?_⟩, ?_⟩
      · intro x y ⟨p, hp, h1, h2⟩
        exact ⟨p, by simp [Rx.follow, hp], h1, h2⟩
      · intro c hc
        exact memAny_mono (fun cs h => by simp [Rx.firstSets, h]) (c1.first c hc)
      · intro c hc
        exact memAny_mono (fun cs h => by simp [Rx.lastSets, h]) (c1.last c hc)
      · intro hnil
        simp only [Rx.nullable, n1 hnil, Bool.or_true]
  | rep r lo hi ih =>
    intro s s' h
    simp only [Rx.all] at h
    obtain ⟨g, e, c1, n1⟩ := repAll_foot2 r ih lo hi _ 0 none s s' h
    refine ⟨g, e, ⟨c1.adj.mono ?_, c1.first, c1.last⟩, ?_⟩
    · intro x y ⟨p, hp, h1, h2⟩
      exact ⟨p, by simpa [Rx.follow] using hp, h1, h2⟩
    · intro hnil
      simp only [Rx.nullable, Bool.or_eq_true, beq_iff_eq]
      by_cases hlo : lo = 0
      · exact Or.inl hlo
      · exact Or.inr (n1 hnil (by omega))
  | grp i r ih =>
    intro s s' h
    simp only [Rx.all, List.mem_map] at h
    obtain ⟨s1, hs1, rfl⟩ := h
    exact ih s s1 hs1
  | ahead r ih =>
    intro s s' h
    simp only [Rx.all] at h
    split at h
    · simp only [List.mem_singleton] at h
      subst h
      exact Foot2.same rfl rfl
    · simp at h
  | nahead r ih =>
    intro s s' h
    simp only [Rx.all] at h
    split at h
    · simp at h
    · simp only [List.mem_singleton] at h
      subst h
      exact Foot2.same rfl rfl
  | behind cs =>
    intro s s' h
    simp only [Rx.all] at h
    split at h
    · split at h
      · simp only [List.mem_singleton] at h
        subst h
        exact Foot2.same rfl rfl
      · simp at h
    · simp at h
  | wordb w =>
    intro s s' h
    simp only [Rx.all] at h
    split at h
    · simp only [List.mem_singleton] at h
      subst h
      exact Foot2.same rfl rfl
    · simp at h
  | eos =>
    intro s s' h
    simp only [Rx.all] at h
    split at h
    · simp only [List.mem_singleton] at h
      subst h
      exact Foot2.same rfl rfl
    · split at h
      · simp only [List.mem_singleton] at h
        subst h
        exact Foot2.same rfl rfl
      · simp at h
    · simp at h
  | bos =>
    intro s s' h
    simp only [Rx.all] at h
    split at h
    · simp only [List.mem_singleton] at h
      subst h
      exact Foot2.same rfl rfl
    · simp at h


/-! ### failure from the footprints -/

theorem LT.prefix_cases : ∀ (pre seg rest' : List Char) (x y : Char) (t : List Char), seg ++ rest' = pre ++ x :: y :: t →
    (∀ c ∈ seg, c ∈ pre ++ [x]) ∨ ∃ t', seg = pre ++ x :: y :: t'
  | [], [], _, _, _, _, _ => Or.inl (fun _ h => by cases h)
  | [], [a], _, x, y, t, h => by
    simp only [List.cons_append, List.nil_append, List.cons.injEq] at h
    left; intro c hc; simp only [List.mem_singleton] at hc; subst hc; simp [h.1]
  | [], a :: b :: u, _, x, y, t, h => by
    simp only [List.cons_append, List.nil_append, List.cons.injEq] at h
    right; exact ⟨u, by rw [h.1, h.2.1]; rfl⟩
  | p :: pre, [], _, _, _, _, _ => Or.inl (fun _ h => by cases h)
  | p :: pre, a :: u, rest', x, y, t, h => by
    simp only [List.cons_append, List.cons.injEq] at h
    obtain ⟨rfl, h⟩ := h
    rcases LT.prefix_cases pre u rest' x y t h with h1 | ⟨t', h1⟩
    · left
      intro c hc
      rcases List.mem_cons.1 hc with rfl | hc
      · simp
      · have := h1 c hc
        simp only [List.cons_append, List.mem_cons]
        exact Or.inr this
    · right; exact ⟨t', by rw [h1]; rfl⟩

/-- both footprints speak about the same consumed segment -/
theorem Rx.all_seg (P : CharSet → Bool) (r : Rx) (s s' : St) (h : s' ∈ r.all s) :
    ∃ seg : List Char, s.rest = seg ++ s'.rest ∧
      (r.mustHitP P = true → ∃ c ∈ seg, ∃ cs, P cs = true ∧ cs.mem c = true) ∧
      Chained r.firstSets r.lastSets r.adjP seg ∧ (seg = [] → r.nullable = true) := by
  obtain ⟨g1, e1, _, m1, _, _⟩ := Rx.all_foot P r s s' h
  obtain ⟨g2, e2, c2, n2⟩ := Rx.all_foot2 r s s' h
  have : g1 = g2 := List.append_cancel_right (e1.symm.trans e2)
  subst this
  exact ⟨g1, e1, m1, c2, n2⟩

/-- **no path across a forbidden neighbourhood**: the text after the cursor is `pre ++ x :: y :: t`, `y` may not follow `x`
    inside a match, and `pre ++ [x]` contains no character of a class every match needs -/
theorem Fails.of_break {r : Rx} {P : CharSet → Bool} {s : St} (hm : r.mustHitP P = true) (pre : List Char) (x y : Char) (t : List Char)
    (hs : s.rest = pre ++ x :: y :: t) (hadj : r.adjB x y = false)
    (hno : ∀ c ∈ pre ++ [x], ∀ cs, P cs = true → cs.mem c = false) : Fails r s := by
  unfold Fails
  rw [List.eq_nil_iff_forall_not_mem]
  intro s' hs'
  obtain ⟨seg, e, m1, c2, _⟩ := Rx.all_seg P r s s' hs'
  rw [hs] at e
  rcases LT.prefix_cases pre seg s'.rest x y t e.symm with h1 | ⟨t', h1⟩
  · obtain ⟨c, hc, cs, hP, hmem⟩ := m1 hm
    rw [hno c (h1 c hc) cs hP] at hmem
    cases hmem
  · have := c2.adj
    rw [h1] at this
    have := Rx.adjB_of_adjP (AdjAll.mid pre x y t' this)
    rw [hadj] at this
    cases this

/-- the same when the forbidden neighbour is the first character after the cursor's … there is none: the match must lie
    inside `pre`, which lacks a needed character (`Fails.of_noHit` with an explicit end of text) -/
theorem FailsOn.of_break {r : Rx} {P : CharSet → Bool} (hm : r.mustHitP P = true) (pre : List Char) (x y : Char) (t : List Char)
    (hadj : r.adjB x y = false) (hno : ∀ c ∈ pre ++ [x], ∀ cs, P cs = true → cs.mem c = false) :
    FailsOn r (pre ++ x :: y :: t) :=
  fun prev pos caps => Fails.of_break (s := ⟨prev, pre ++ x :: y :: t, pos, caps⟩) hm pre x y t rfl hadj hno

theorem FailsOn.of_noHit {r : Rx} {P : CharSet → Bool} (hm : r.mustHitP P = true) (tail : List Char)
    (hno : ∀ c ∈ tail, ∀ cs, P cs = true → cs.mem c = false) : FailsOn r tail :=
  fun prev pos caps => Fails.of_noHit (s := ⟨prev, tail, pos, caps⟩) hm hno

theorem matchHere_of_failsOn {r : Rx} {tail : List Char} (h : FailsOn r tail) (prev : Option Char) (pos : Nat) (adv : Bool) :
    matchHere r ⟨prev, tail, pos, []⟩ adv = none := matchHere_of_fails adv (h prev pos [])

/-- `(…)*` whose body has no path is skipped -/
theorem Leads.star_none {r : Rx} {s : St} (hi : Option Nat) (h : Fails r s) : Leads (.rep r 0 hi) s s := by
  unfold Fails at h
  unfold Leads
  have hf : s.rest.length + 0 + 2 = (s.rest.length + 1) + 1 := by omega
  simp only [Rx.all, hf, repAll, Nat.not_lt_zero, if_false, h, List.flatMap_nil, List.nil_append]
  split <;> rfl

theorem Eats.star_none {r : Rx} {tail : List Char} (hi : Option Nat) (h : FailsOn r tail) :
    Eats (.rep r 0 hi) [] tail (fun _ caps => caps) := by
  intro prev pos caps
  exact Leads.star_none hi (h prev pos caps)


/-! ### skipping segments -/

/-- the pattern matches at no position of `seg` when `tail` follows -/
def Skips (r : Rx) (seg tail : Str) : Prop := ∀ (a b : Str) (c : Char), seg = a ++ c :: b → FailsOn r (c :: (b ++ tail))

theorem Skips.nil (r : Rx) (tail : Str) : Skips r [] tail := by
  intro a b c h
  cases a <;> cases h

theorem Skips.append {r : Rx} {s1 s2 tail : Str} (h1 : Skips r s1 (s2 ++ tail)) (h2 : Skips r s2 tail) : Skips r (s1 ++ s2) tail := by
  intro a b c h
  rcases List.append_eq_append_iff.1 h with ⟨a', rfl, h'⟩ | ⟨c', rfl, h'⟩
  · -- the position lies in s2
    cases a' with
    | nil =>
      simp only [List.nil_append] at h'
      have := h2 [] b c h'
      simpa using this
    | cons d a'' =>
      have := h2 (d :: a'') b c h'
      exact this
  · cases c' with
    | nil =>
      simp only [List.nil_append] at h'
      simp only [List.append_nil] at *
      have := h2 [] b c h'.symm
      simpa using this
    | cons d c'' =>
      simp only [List.cons_append, List.cons.injEq] at h'
      obtain ⟨rfl, rfl⟩ := h'
      have := h1 a c'' c rfl
      simpa [List.append_assoc] using this

theorem Skips.cons {r : Rx} {c : Char} {seg tail : Str} (h0 : FailsOn r (c :: (seg ++ tail))) (h : Skips r seg tail) :
    Skips r (c :: seg) tail := by
  intro a b d hs
  cases a with
  | nil =>
    simp only [List.nil_append, List.cons.injEq] at hs
    obtain ⟨rfl, rfl⟩ := hs
    exact h0
  | cons e a' =>
    simp only [List.cons_append, List.cons.injEq] at hs
    obtain ⟨rfl, hs⟩ := hs
    exact h a' b d hs

/-- no character of the segment can start a match -/
theorem Skips.of_first {r : Rx} (hn : r.nullable = false) (seg tail : Str)
    (h : ∀ c ∈ seg, ∀ cs ∈ r.firstSets, cs.mem c = false) : Skips r seg tail := by
  intro a b c hs
  refine FailsOn.of_first hn ?_
  intro x hx cs hcs
  simp only [List.head?_cons, Option.some.injEq] at hx
  subst hx
  exact h c (by rw [hs]; simp) cs hcs

/-- the segment and the beginning of the tail up to a forbidden neighbourhood contain no character every match needs -/
theorem Skips.of_break {r : Rx} {P : CharSet → Bool} (hm : r.mustHitP P = true) (seg pre : Str) (x y : Char) (t : Str)
    (hseg : ∀ c ∈ seg, ∀ cs, P cs = true → cs.mem c = false)
    (hpre : ∀ c ∈ pre ++ [x], ∀ cs, P cs = true → cs.mem c = false) (hadj : r.adjB x y = false) :
    Skips r seg (pre ++ x :: y :: t) := by
  intro a b c hs
  have e : c :: (b ++ (pre ++ x :: y :: t)) = (c :: (b ++ pre)) ++ x :: y :: t := by simp
  rw [e]
  refine FailsOn.of_break hm _ x y t hadj ?_
  intro d hd cs hP
  simp only [List.cons_append, List.append_assoc, List.mem_cons, List.mem_append] at hd
  rcases hd with hd | hd | hd | hd
  · exact hseg d (by rw [hs, hd]; simp) cs hP
  · exact hseg d (by rw [hs]; simp [hd]) cs hP
  · exact hpre d (by simp [hd]) cs hP
  · exact hpre d (by simp at hd; simp [hd]) cs hP

/-- neither the segment nor the tail contains a character every match needs -/
theorem Skips.of_noHit {r : Rx} {P : CharSet → Bool} (hm : r.mustHitP P = true) (seg tail : Str)
    (hseg : ∀ c ∈ seg, ∀ cs, P cs = true → cs.mem c = false)
    (htail : ∀ c ∈ tail, ∀ cs, P cs = true → cs.mem c = false) : Skips r seg tail := by
  intro a b c hs
  refine FailsOn.of_noHit hm _ ?_
  intro d hd cs hP
  simp only [List.mem_cons, List.mem_append] at hd
  rcases hd with hd | hd | hd
  · exact hseg d (by rw [hs, hd]; simp) cs hP
  · exact hseg d (by rw [hs]; simp [hd]) cs hP
  · exact htail d hd cs hP

theorem Tiles.skipSeg {r : Rx} {seg tail : Str} {ms : List Match} (hsk : Skips r seg tail) (prev : Option Char) (pos : Nat)
    (h : Tiles r (lastOr prev seg) tail (pos + seg.length) ms) : Tiles r prev (seg ++ tail) pos ms :=
  Tiles.skips tail ms seg prev pos (fun a b c hs => matchHere_of_failsOn (hsk a b c hs) _ _ false) h

/-- a class-level criterion for `adjB … = false`: every class that may follow a class containing `x` lies inside `D` -/
theorem adjB_false_of_sub (r : Rx) (x y : Char) (D : CharSet)
    (h : r.follow.all (fun p => !p.1.mem x || p.2.sub D) = true) (hy : D.mem y = false) : r.adjB x y = false := by
  cases hb : r.adjB x y with
  | false => rfl
  | true =>
    simp only [Rx.adjB, List.any_eq_true, Bool.and_eq_true] at hb
    obtain ⟨p, hp, h1, h2⟩ := hb
    simp only [List.all_eq_true, Bool.or_eq_true, Bool.not_eq_true'] at h
    rcases h p hp with h' | h'
    · rw [h1] at h'; cases h'
    · rw [CharSet.sub_mem h' h2] at hy; cases hy

/-- a must-hit predicate "the class lies inside `D`" is harmless for characters outside `D` -/
theorem noHit_of_notMem {D : CharSet} {c : Char} (h : D.mem c = false) : ∀ cs : CharSet, cs.sub D = true → cs.mem c = false := by
  intro cs hs
  cases hc : cs.mem c with
  | false => rfl
  | true => rw [CharSet.sub_mem hs hc] at h; cases h


/-! ## Part 1 — the inert alphabet and the canonical text -/

/-- the dangerous characters: the decimal digits (`\d`), all white space except the blank, `:`, the letters `P S T p s t ſ`
    and `§` — every character that can START a match of a Twp/Rge or section pattern, that the Principal-Meridian scrubber
    needs, or that the white-space reduction rewrites -/
def Danger : CharSet := Gen.cs_940665b9 ++ [(9, 13), (28, 31), (133, 133), (160, 160), (5760, 5760), (8192, 8202), (8232, 8233),
  (8239, 8239), (8287, 8287), (12288, 12288), (58, 58), (80, 80), (83, 84), (112, 112), (115, 116), (167, 167), (383, 383)]

/-- characters a block must not START with (besides the dangerous ones): what can continue a multi-section list after
    "Sec nn: " (blank, `& , - . / ; – —`, `a`nd) and what can start the words "in", "of", "all …", "lying …" between a section
    and a Twp/Rge (`a i l o`, either case, `İ ı`) -/
def HeadDanger : CharSet := [(32, 32), (38, 38), (44, 47), (58, 59), (65, 65), (73, 73), (76, 76), (79, 79), (97, 97), (105, 105),
  (108, 108), (111, 111), (304, 305), (8211, 8212)]

def noDblBlank : Str → Bool
  | a :: b :: t => !(a == ' ' && b == ' ') && noDblBlank (b :: t)
  | _ => true

/-- decidable form of `Inert` -/
def inertB (d : Str) : Bool :=
  !d.isEmpty && d.all (fun c => !Danger.mem c) && d.head?.all (fun c => !HeadDanger.mem c) && noDblBlank d &&
    d.getLast?.all (fun c => c != ' ') && !(illegalWords.any (fun w => pyEndsWith (' ' :: d) w)) && (cleanupStep d == d)

/-- a description block that can neither contain nor complete a Twp/Rge or section reference nor a preprocessing rewrite:
    non-empty, no dangerous character, no dangerous first character, no two blanks in a row, no blank at the end, not ending in
    one of the words " of", " said", " in", " within" (after which the library ignores a section), a fixed point of
    `cleanup_desc` (the last three conditions are largely implied by the others; they are listed to keep `Inert` a plain
    conjunction of checks) -/
def Inert (d : Str) : Prop := inertB d = true

instance (d : Str) : Decidable (Inert d) := inferInstanceAs (Decidable (_ = true))

theorem Inert.ne {d : Str} (h : Inert d) : d ≠ [] := by
  intro e; subst e; cases h

theorem Inert.safe {d : Str} (h : Inert d) : ∀ c ∈ d, Danger.mem c = false := by
  simp only [Inert, inertB, Bool.and_eq_true, List.all_eq_true, Bool.not_eq_true'] at h
  exact h.1.1.1.1.1.2

theorem Inert.head {d : Str} (h : Inert d) : ∀ c t, d = c :: t → HeadDanger.mem c = false := by
  intro c t e
  subst e
  simp only [Inert, inertB, Bool.and_eq_true, List.head?_cons, Option.all_some, Bool.not_eq_true'] at h
  exact h.1.1.1.1.2

theorem Inert.noDbl {d : Str} (h : Inert d) : noDblBlank d = true := by
  simp only [Inert, inertB, Bool.and_eq_true] at h
  exact h.1.1.1.2

theorem Inert.last {d : Str} (h : Inert d) : ∀ c, d.getLast? = some c → c ≠ ' ' := by
  intro c hc
  simp only [Inert, inertB, Bool.and_eq_true, hc, Option.all_some, bne_iff_ne, ne_eq] at h
  exact h.1.1.2

theorem Inert.legal {d : Str} (h : Inert d) : illegalWords.any (fun w => pyEndsWith (' ' :: d) w) = false := by
  simp only [Inert, inertB, Bool.and_eq_true, Bool.not_eq_true'] at h
  exact h.1.2

theorem Inert.clean {d : Str} (h : Inert d) : cleanupStep d = d := by
  simp only [Inert, inertB, Bool.and_eq_true, beq_iff_eq] at h
  exact h.2

example : Inert (S "hog valley by bluff") := by decide +kernel
example : Inert (S "NE corner (brown well) & rhubarb field #") := by decide +kernel
example : Inert (S "wy Wyoming; f/k/a marker") := by decide +kernel
example : ¬ Inert (S "north 40") := by decide +kernel
example : ¬ Inert (S "the well") := by decide +kernel
example : ¬ Inert (S "in") := by decide +kernel
example : ¬ Inert (S "and more") := by decide +kernel

/-- a Twp/Rge header `T<t><ns>-R<r><ew>` -/
structure Hd where
  t : Str
  ns : Char
  r : Str
  ew : Char

structure Hd.Ok (h : Hd) : Prop where
  t_dig : ∀ c ∈ h.t, c.isDigit = true
  t_len : 1 ≤ h.t.length ∧ h.t.length ≤ 3
  ns : h.ns = 'N' ∨ h.ns = 'S'
  r_dig : ∀ c ∈ h.r, c.isDigit = true
  r_len : 1 ≤ h.r.length ∧ h.r.length ≤ 3
  ew : h.ew = 'E' ∨ h.ew = 'W'

def Hd.text (h : Hd) : Str := canonText h.t h.ns h.r h.ew
def Hd.sp (h : Hd) : Spelling := canonSp h.t h.ns h.r h.ew

/-- a line `Sec <n1><n2>: <d>` -/
structure Ln where
  n1 : Char
  n2 : Char
  d : Str

structure Ln.Ok (l : Ln) : Prop where
  n1 : asciiDigits.mem l.n1 = true
  n2 : asciiDigits.mem l.n2 = true
  d : Inert l.d

/-- the section reference `Sec nn:` -/
def Ln.ref (l : Ln) : Str := ['S', 'e', 'c', ' ', l.n1, l.n2, ':']
def Ln.text (l : Ln) : Str := l.ref ++ ' ' :: l.d

/-- further lines, each preceded by a line break -/
def lnsSeg : List Ln → Str
  | [] => []
  | l :: ls => '\n' :: (l.text ++ lnsSeg ls)

/-- a Twp/Rge with its (at least one) lines -/
structure Gp where
  h : Hd
  l : Ln
  ls : List Ln

def Gp.lines (g : Gp) : List Ln := g.l :: g.ls

structure Gp.Ok (g : Gp) : Prop where
  h : g.h.Ok
  ls : ∀ l ∈ g.lines, l.Ok

/-- what follows the header: the separator `sp`, the first line, the further lines -/
def Gp.body (sp : Str) (g : Gp) : Str := sp ++ (g.l.text ++ lnsSeg g.ls)
def Gp.text (sp : Str) (g : Gp) : Str := g.h.text ++ g.body sp

/-- further groups, each preceded by a line break -/
def gpsSeg (sp : Str) : List Gp → Str
  | [] => []
  | g :: gs => '\n' :: (g.text sp ++ gpsSeg sp gs)

/-- the canonical text of a description: `sp` = what stands between a header and its first line (a line break in the
    rendering of `pretty_desc`, a blank after preprocessing) -/
def docText (sp : Str) (gs : List Gp) : Str := (gpsSeg sp gs).drop 1

/-- the separator between a header and its first line: blanks and line breaks, at least one -/
structure SepOk (sp : Str) : Prop where
  ne : sp ≠ []
  chars : ∀ c ∈ sp, c = ' ' ∨ c = '\n'

/-- what may stand at the very end (the whole text, or the text cut in front of a header) -/
def FinOk (fin : Str) : Prop := fin = [] ∨ fin = ['\n']

/-- what may follow a description block -/
inductive DescTail : Str → Prop
  | fin (f : Str) : FinOk f → DescTail f
  | line (l : Ln) (rest : Str) : l.Ok → DescTail ('\n' :: (l.ref ++ rest))
  | hdr (h : Hd) (rest : Str) : h.Ok → DescTail ('\n' :: (h.text ++ rest))


/-! ## Part 2 — patterns whose tokens are the headers -/

/-- what a pattern whose tokens are the headers must be unable to do between them -/
structure GapSkips (r : Rx) : Prop where
  sep : ∀ (sp : Str) (l : Ln) (rest : Str), SepOk sp → l.Ok → Skips r sp (l.ref ++ rest)
  ref : ∀ (l : Ln) (rest : Str), l.Ok → Skips r l.ref rest
  desc : ∀ (d tail : Str), Inert d → DescTail tail → Skips r (' ' :: d) tail
  nlHdr : ∀ (h : Hd) (rest : Str), h.Ok → FailsOn r ('\n' :: (h.text ++ rest))
  fin0 : FailsOn r []
  fin1 : FailsOn r ['\n']

/-- what may follow the last line of a group -/
def GroupTail (tail : Str) : Prop := FinOk tail ∨ ∃ (h : Hd) (rest : Str), h.Ok ∧ tail = '\n' :: (h.text ++ rest)

theorem GroupTail.descTail {tail : Str} (h : GroupTail tail) : DescTail tail := by
  rcases h with h | ⟨hd, rest, hok, rfl⟩
  · exact DescTail.fin tail h
  · exact DescTail.hdr hd rest hok

theorem sepOk_nl : SepOk ['\n'] := ⟨by simp, fun c hc => by simp at hc; exact Or.inr hc⟩

theorem descTail_lns (ls : List Ln) (tail : Str) (hls : ∀ l ∈ ls, l.Ok) (ht : GroupTail tail) : DescTail (lnsSeg ls ++ tail) := by
  cases ls with
  | nil => exact ht.descTail
  | cons l ls =>
    have : lnsSeg (l :: ls) ++ tail = '\n' :: (l.ref ++ (' ' :: l.d ++ (lnsSeg ls ++ tail))) := by
      simp [lnsSeg, Ln.text]
    rw [this]
    exact DescTail.line l _ (hls l (by simp))

theorem GapSkips.line {r : Rx} (hg : GapSkips r) (l : Ln) (tail : Str) (hl : l.Ok) (ht : DescTail tail) :
    Skips r l.text tail :=
  Skips.append (hg.ref l _ hl) (hg.desc l.d tail hl.d ht)

theorem GapSkips.lines {r : Rx} (hg : GapSkips r) : ∀ (ls : List Ln) (tail : Str), (∀ l ∈ ls, l.Ok) → GroupTail tail →
    Skips r (lnsSeg ls) tail
  | [], tail, _, _ => Skips.nil r tail
  | l :: ls, tail, hls, ht => by
    have hl := hls l (by simp)
    have hls' : ∀ x ∈ ls, x.Ok := fun x hx => hls x (by simp [hx])
    have ih := GapSkips.lines hg ls tail hls' ht
    have h1 := hg.line l (lnsSeg ls ++ tail) hl (descTail_lns ls tail hls' ht)
    have h12 : Skips r (l.text ++ lnsSeg ls) tail := Skips.append h1 ih
    refine Skips.cons ?_ h12
    have := hg.sep ['\n'] l (' ' :: l.d ++ (lnsSeg ls ++ tail)) sepOk_nl hl [] [] '\n' rfl
    simpa [Ln.text, List.append_assoc] using this

theorem GapSkips.body {r : Rx} (hg : GapSkips r) (sp : Str) (hsp : SepOk sp) (g : Gp) (hok : g.Ok) (tail : Str) (ht : GroupTail tail) :
    Skips r (g.body sp) tail := by
  have hl := hok.ls g.l (by simp [Gp.lines])
  have hls : ∀ x ∈ g.ls, x.Ok := fun x hx => hok.ls x (by simp [Gp.lines, hx])
  have h1 := hg.line g.l (lnsSeg g.ls ++ tail) hl (descTail_lns g.ls tail hls ht)
  have h2 := hg.lines g.ls tail hls ht
  have h12 : Skips r (g.l.text ++ lnsSeg g.ls) tail := Skips.append h1 h2
  refine Skips.append ?_ h12
  have := hg.sep sp g.l (' ' :: g.l.d ++ (lnsSeg g.ls ++ tail)) hsp hl
  simpa [Ln.text, List.append_assoc] using this

theorem GapSkips.linesOf {r : Rx} (hg : GapSkips r) (g : Gp) (hok : g.Ok) (tail : Str) (ht : GroupTail tail) :
    Skips r (g.l.text ++ lnsSeg g.ls) tail := by
  have hl := hok.ls g.l (by simp [Gp.lines])
  have hls : ∀ x ∈ g.ls, x.Ok := fun x hx => hok.ls x (by simp [Gp.lines, hx])
  exact Skips.append (hg.line g.l (lnsSeg g.ls ++ tail) hl (descTail_lns g.ls tail hls ht)) (hg.lines g.ls tail hls ht)

/-- the header matches of a pattern, `q` = position of the first header; `w` = how many characters of the separator the
    match swallows (0 or all) -/
def hdrMs (mk : Hd → Nat → Match) (sp : Str) : Nat → List Gp → List Match
  | _, [] => []
  | q, g :: gs => mk g.h q :: hdrMs mk sp (q + (g.text sp).length + 1) gs

theorem isWord_nl : isWord Gen.cs_14d6aa8a (some '\n') = false := by decide +kernel

theorem groupTail_gps (sp : Str) (gs : List Gp) (fin : Str) (hgs : ∀ g ∈ gs, g.Ok) (hfin : FinOk fin) :
    GroupTail (gpsSeg sp gs ++ fin) := by
  cases gs with
  | nil => exact Or.inl hfin
  | cons g gs =>
    right
    exact ⟨g.h, g.body sp ++ (gpsSeg sp gs ++ fin), (hgs g (by simp)).h, by simp [gpsSeg, Gp.text]⟩

/-- **tiling by headers**: a pattern that matches each header (`eat = false`) or each header together with its separator
    (`eat = true`) and nothing in between has exactly these matches -/
theorem hdrTiles (r : Rx) (hg : GapSkips r) (sp fin : Str) (hsp : SepOk sp) (hfin : FinOk fin) (eat : Bool)
    (mk : Hd → Nat → Match)
    (htok : ∀ (h : Hd) (l : Ln) (rest : Str) (prev : Option Char) (pos : Nat), h.Ok → l.Ok →
       isWord Gen.cs_14d6aa8a prev = false →
       matchHere r ⟨prev, h.text ++ (sp ++ (l.ref ++ rest)), pos, []⟩ false = some (mk h pos) ∧ (mk h pos).start = pos ∧
       (mk h pos).stop = pos + h.text.length + (if eat then sp.length else 0)) :
    ∀ (gs : List Gp) (g : Gp) (q : Nat) (prev : Option Char), g.Ok → (∀ x ∈ gs, x.Ok) →
      isWord Gen.cs_14d6aa8a prev = false →
      Tiles r prev (g.text sp ++ (gpsSeg sp gs ++ fin)) q (hdrMs mk sp q (g :: gs)) := by
  intro gs
  induction gs with
  | nil =>
    intro g q prev hok _ hprev
    have hl := hok.ls g.l (by simp [Gp.lines])
    obtain ⟨h1, h2, h3⟩ := htok g.h g.l (' ' :: g.l.d ++ (lnsSeg g.ls ++ fin)) prev q hok.h hl hprev
    have hfinT : ∀ p pos, Tiles r p fin pos [] := by
      intro p pos
      rcases hfin with rfl | rfl
      · exact Tiles.nil p pos (matchHere_of_failsOn hg.fin0 _ _ false)
      · exact Tiles.skip p '\n' [] pos [] (matchHere_of_failsOn hg.fin1 _ _ false)
          (Tiles.nil _ _ (matchHere_of_failsOn hg.fin0 _ _ false))
    have htxt : g.text sp ++ (gpsSeg sp [] ++ fin) = g.h.text ++ (sp ++ (g.l.ref ++ (' ' :: g.l.d ++ (lnsSeg g.ls ++ fin)))) := by
      simp [Gp.text, Gp.body, Ln.text, gpsSeg]
    rw [htxt]
    simp only [hdrMs]
    cases eat with
    | false =>
      simp only [Bool.false_eq_true, if_false, Nat.add_zero] at h3
      have hne : g.h.text ≠ [] := by simp [Hd.text, canonText]
      refine Tiles.tok prev g.h.text _ q _ [] h1 h2 h3 hne ?_
      have hb := hg.body sp hsp g hok fin (Or.inl hfin)
      have := Tiles.skipSeg hb (lastOr prev g.h.text) (q + g.h.text.length) (hfinT _ _)
      simpa [Gp.body, Ln.text, List.append_assoc] using this
    | true =>
      simp only [if_true] at h3
      have hne : g.h.text ++ sp ≠ [] := by simp [Hd.text, canonText]
      have e : g.h.text ++ (sp ++ (g.l.ref ++ (' ' :: g.l.d ++ (lnsSeg g.ls ++ fin)))) =
          (g.h.text ++ sp) ++ (g.l.ref ++ (' ' :: g.l.d ++ (lnsSeg g.ls ++ fin))) := by simp
      rw [e] at h1 ⊢
      refine Tiles.tok prev (g.h.text ++ sp) _ q _ [] h1 h2 (by rw [h3, List.length_append]; omega) hne ?_
      have hb := hg.linesOf g hok fin (Or.inl hfin)
      have := Tiles.skipSeg hb (lastOr prev (g.h.text ++ sp)) (q + (g.h.text ++ sp).length) (hfinT _ _)
      simpa [Ln.text, List.append_assoc] using this
  | cons g' gs ih =>
    intro g q prev hok hgs hprev
    have hok' := hgs g' (by simp)
    have hgs' : ∀ x ∈ gs, x.Ok := fun x hx => hgs x (by simp [hx])
    have hl := hok.ls g.l (by simp [Gp.lines])
    have htail : GroupTail (gpsSeg sp (g' :: gs) ++ fin) := groupTail_gps sp (g' :: gs) fin hgs hfin
    obtain ⟨h1, h2, h3⟩ := htok g.h g.l (' ' :: g.l.d ++ (lnsSeg g.ls ++ (gpsSeg sp (g' :: gs) ++ fin))) prev q hok.h hl hprev
    -- the rest: line break, next group
    have hrest : ∀ p pos, Tiles r p (gpsSeg sp (g' :: gs) ++ fin) pos (hdrMs mk sp (pos + 1) (g' :: gs)) := by
      intro p pos
      have hnl : FailsOn r ('\n' :: (g'.h.text ++ (g'.body sp ++ (gpsSeg sp gs ++ fin)))) := hg.nlHdr g'.h _ hok'.h
      have e : gpsSeg sp (g' :: gs) ++ fin = '\n' :: (g'.text sp ++ (gpsSeg sp gs ++ fin)) := by simp [gpsSeg]
      rw [e]
      refine Tiles.skip p '\n' _ pos _ ?_ (ih g' (pos + 1) (some '\n') hok' hgs' isWord_nl)
      have := matchHere_of_failsOn hnl p pos false
      simpa [Gp.text, List.append_assoc] using this
    have htxt : g.text sp ++ (gpsSeg sp (g' :: gs) ++ fin) =
        g.h.text ++ (sp ++ (g.l.ref ++ (' ' :: g.l.d ++ (lnsSeg g.ls ++ (gpsSeg sp (g' :: gs) ++ fin))))) := by
      simp [Gp.text, Gp.body, Ln.text]
    rw [htxt]
    have hlen : (g.text sp).length = g.h.text.length + sp.length + (g.l.text ++ lnsSeg g.ls).length := by
      simp [Gp.text, Gp.body]; omega
    rw [show hdrMs mk sp q (g :: g' :: gs) = mk g.h q :: hdrMs mk sp (q + (g.text sp).length + 1) (g' :: gs) from rfl]
    cases eat with
    | false =>
      simp only [Bool.false_eq_true, if_false, Nat.add_zero] at h3
      have hne : g.h.text ≠ [] := by simp [Hd.text, canonText]
      refine Tiles.tok prev g.h.text _ q _ _ h1 h2 h3 hne ?_
      have hb := hg.body sp hsp g hok _ htail
      have := Tiles.skipSeg hb (lastOr prev g.h.text) (q + g.h.text.length) (hrest _ _)
      have e2 : q + g.h.text.length + (g.body sp).length + 1 = q + (g.text sp).length + 1 := by
        simp [Gp.text]; omega
      rw [e2] at this
      simpa [Gp.body, Ln.text, List.append_assoc] using this
    | true =>
      simp only [if_true] at h3
      have hne : g.h.text ++ sp ≠ [] := by simp [Hd.text, canonText]
      have e : g.h.text ++ (sp ++ (g.l.ref ++ (' ' :: g.l.d ++ (lnsSeg g.ls ++ (gpsSeg sp (g' :: gs) ++ fin))))) =
          (g.h.text ++ sp) ++ (g.l.ref ++ (' ' :: g.l.d ++ (lnsSeg g.ls ++ (gpsSeg sp (g' :: gs) ++ fin)))) := by simp
      rw [e] at h1 ⊢
      refine Tiles.tok prev (g.h.text ++ sp) _ q _ _ h1 h2 (by rw [h3, List.length_append]; omega) hne ?_
      have hb := hg.linesOf g hok _ htail
      have := Tiles.skipSeg hb (lastOr prev (g.h.text ++ sp)) (q + (g.h.text ++ sp).length) (hrest _ _)
      have e2 : q + (g.h.text ++ sp).length + (g.l.text ++ lnsSeg g.ls).length + 1 = q + (g.text sp).length + 1 := by
        rw [hlen, List.length_append]; omega
      rw [e2] at this
      simpa [Ln.text, List.append_assoc] using this


/-! ### the gap conditions, decided on the regenerated patterns -/

/-- `N S n s ſ` -/
def nsD : CharSet := [(78, 78), (83, 83), (110, 110), (115, 115), (383, 383)]
/-- the decimal digits `\d` -/
def digitD : CharSet := Gen.cs_940665b9

theorem adjB_false_of_notSecond {r : Rx} {y : Char} (h : r.follow.all (fun p => !p.2.mem y) = true) (x : Char) :
    r.adjB x y = false := by
  cases hb : r.adjB x y with
  | false => rfl
  | true =>
    simp only [Rx.adjB, List.any_eq_true, Bool.and_eq_true] at hb
    obtain ⟨p, hp, _, h2⟩ := hb
    simp only [List.all_eq_true, Bool.not_eq_true'] at h
    rw [h p hp] at h2; cases h2

theorem danger_blank : Danger.mem ' ' = false := by decide +kernel
theorem digit_not_ns {c : Char} (h : asciiDigits.mem c = true) : nsD.mem c = false :=
  CharSet.disj_mem (by decide) h
theorem ascii_digitD {c : Char} (h : asciiDigits.mem c = true) : digitD.mem c = true :=
  CharSet.sub_mem (by decide +kernel) h
theorem digitD_sub_danger : digitD.sub Danger = true := by decide +kernel
theorem danger_not_digit {c : Char} (h : Danger.mem c = false) : digitD.mem c = false := by
  cases hc : digitD.mem c with
  | false => rfl
  | true => rw [CharSet.sub_mem digitD_sub_danger hc] at h; cases h

/-- the digits of a section reference cannot start a match: no first-set contains a digit, or every match needs an `N`/`S`
    and a colon can follow nothing -/
def DigitsDead (r : Rx) : Prop :=
  r.firstSets.all (fun cs => asciiDigits.disj cs) = true ∨
    (r.mustHitP (fun cs => cs.sub nsD) = true ∧ r.follow.all (fun p => !p.2.mem ':') = true)

theorem DigitsDead.skips {r : Rx} (hn : r.nullable = false) (h : DigitsDead r) (n1 n2 : Char) (h1 : asciiDigits.mem n1 = true)
    (h2 : asciiDigits.mem n2 = true) (rest : Str) : Skips r [n1, n2] (':' :: rest) := by
  rcases h with h | ⟨hm, hf⟩
  · refine Skips.of_first hn _ _ ?_
    intro c hc cs hcs
    simp only [List.all_eq_true] at h
    simp only [List.mem_cons, List.not_mem_nil, or_false] at hc
    rcases hc with rfl | rfl
    · exact CharSet.disj_mem (h cs hcs) h1
    · exact CharSet.disj_mem (h cs hcs) h2
  · refine Skips.cons ?_ (Skips.cons ?_ (Skips.nil r _))
    · refine FailsOn.of_break hm [n1] n2 ':' rest (adjB_false_of_notSecond hf n2) ?_
      intro c hc
      simp only [List.cons_append, List.nil_append, List.mem_cons, List.not_mem_nil, or_false] at hc
      rcases hc with rfl | rfl
      · exact noHit_of_notMem (digit_not_ns h1)
      · exact noHit_of_notMem (digit_not_ns h2)
    · refine FailsOn.of_break hm [] n2 ':' rest (adjB_false_of_notSecond hf n2) ?_
      intro c hc
      simp only [List.nil_append, List.mem_cons, List.not_mem_nil, or_false] at hc
      subst hc
      exact noHit_of_notMem (digit_not_ns h2)

/-- a pattern whose first-sets lie inside the dangerous set and contain none of `S e c : blank line-break` -/
def plainFirst (r : Rx) : Bool :=
  r.firstSets.all (fun cs => cs.sub Danger && "Sec :\n".toList.all (fun c => !cs.mem c))

theorem plainFirst.not_mem {r : Rx} (h : plainFirst r = true) {c : Char} (hc : c ∈ "Sec :\n".toList) :
    ∀ cs ∈ r.firstSets, cs.mem c = false := by
  intro cs hcs
  simp only [plainFirst, List.all_eq_true, Bool.and_eq_true, Bool.not_eq_true'] at h
  exact (h cs hcs).2 c hc

theorem plainFirst.safe {r : Rx} (h : plainFirst r = true) {c : Char} (hc : Danger.mem c = false) :
    ∀ cs ∈ r.firstSets, cs.mem c = false := by
  intro cs hcs
  simp only [plainFirst, List.all_eq_true, Bool.and_eq_true] at h
  exact noHit_of_notMem hc cs (h cs hcs).1

theorem GapSkips.ofFirst {r : Rx} (hn : r.nullable = false) (hp : plainFirst r = true) (hd : DigitsDead r) : GapSkips r where
  sep := by
    intro sp l rest hsp _
    refine Skips.of_first hn _ _ ?_
    intro c hc
    rcases hsp.chars c hc with rfl | rfl
    · exact plainFirst.not_mem hp (by decide)
    · exact plainFirst.not_mem hp (by decide)
  ref := by
    intro l rest hl
    have e : l.ref = ['S', 'e', 'c', ' '] ++ ([l.n1, l.n2] ++ [':']) := rfl
    rw [e]
    refine Skips.append (Skips.of_first hn _ _ ?_) (Skips.append (hd.skips hn l.n1 l.n2 hl.n1 hl.n2 rest) (Skips.of_first hn _ _ ?_))
    · intro c hc
      exact plainFirst.not_mem hp (by simp only [List.mem_cons, List.not_mem_nil, or_false] at hc; rcases hc with rfl | rfl | rfl | rfl <;> decide)
    · intro c hc
      simp only [List.mem_cons, List.not_mem_nil, or_false] at hc
      subst hc
      exact plainFirst.not_mem hp (by decide)
  desc := by
    intro d tail hd' _
    refine Skips.of_first hn _ _ ?_
    intro c hc
    rcases List.mem_cons.1 hc with rfl | hc
    · exact plainFirst.not_mem hp (by decide)
    · exact plainFirst.safe hp (hd'.safe c hc)
  nlHdr := by
    intro h rest _
    refine FailsOn.of_first hn ?_
    intro c hc
    simp only [List.head?_cons, Option.some.injEq] at hc
    subst hc
    exact plainFirst.not_mem hp (by decide)
  fin0 := FailsOn.of_first hn (fun c hc => by cases hc)
  fin1 := by
    refine FailsOn.of_first hn ?_
    intro c hc
    simp only [List.head?_cons, Option.some.injEq] at hc
    subst hc
    exact plainFirst.not_mem hp (by decide)

theorem twprge_gapSkips : GapSkips Gen.twprge_regex :=
  GapSkips.ofFirst (by decide +kernel) (by decide +kernel) (Or.inr ⟨by decide +kernel, by decide +kernel⟩)

theorem nswe_gapSkips : GapSkips Gen.pp_twprge_no_nswe :=
  GapSkips.ofFirst (by decide +kernel) (by decide +kernel) (Or.inl (by decide +kernel))

theorem nsr_gapSkips : GapSkips Gen.pp_twprge_no_nsr :=
  GapSkips.ofFirst (by decide +kernel) (by decide +kernel) (Or.inl (by decide +kernel))


/-! ## Part 3 — the section pattern `multisec_regex` -/

/-- the alternatives of `no_num_sec_regex` ("Section", "Sect.", "Sec.", …, "§") -/
def secA : Rx := match Gen.no_num_sec_regex with | .grp _ a => a | _ => .fail
/-- `(Section…)(s)?[:\s*]?[\.\-–—\s]*(\d{1,3})` -/
def secHead : Rx := match Gen.multisec_regex with | .seq a _ => a | _ => .fail
/-- the body of the list continuation `( intervener+ (Section…)? \s* \d{1,3} )*` -/
def secX : Rx := match Gen.multisec_regex with | .seq _ (.seq (.rep (.grp _ x) _ _) _) => x | _ => .fail
/-- `(\s*:)?` -/
def secColon : Rx := match Gen.multisec_regex with | .seq _ (.seq _ c) => c | _ => .fail

theorem multisec_decomp : Gen.multisec_regex = .seq secHead (.seq (.rep (.grp 6 secX) 0 none) secColon) := rfl

theorem secHead_decomp : secHead =
    .grp 1 (.grp 2 (.seq (.grp 3 secA) (.seq (.rep (.grp 4 (.chr Gen.cs_faf00333)) 0 (some 1)) (.seq (.rep (.chr Gen.cs_9e1db48b) 0 (some 1))
      (.seq (.rep (.chr Gen.cs_588a3e21) 0 none) (.grp 5 (.rep (.chr Gen.cs_940665b9) 1 (some 3)))))))) := rfl

theorem secColon_decomp : secColon = .rep (.grp 18 (.seq (.rep (.chr Gen.cs_70d553c2) 0 none) (.chr Gen.cs_df2d81f8))) 0 (some 1) := rfl

theorem secA_decomp : ∃ rest, secA =
    .alt (.seq (.chr Gen.cs_faf00333) (.seq (.chr Gen.cs_5f20f5ed) (.seq (.chr Gen.cs_00ee403a) (.seq (.chr Gen.cs_93b62202) (.seq (.chr Gen.cs_ea422351) (.seq (.chr Gen.cs_ff6fca51) (.chr Gen.cs_38ea6e46)))))))
    (.alt (.seq (.chr Gen.cs_faf00333) (.seq (.chr Gen.cs_5f20f5ed) (.seq (.chr Gen.cs_00ee403a) (.seq (.chr Gen.cs_93b62202) (.rep (.chr Gen.cs_0f512a0d) 0 (some 1))))))
    (.alt (.seq (.chr Gen.cs_faf00333) (.seq (.chr Gen.cs_5f20f5ed) (.seq (.chr Gen.cs_00ee403a) (.rep (.chr Gen.cs_0f512a0d) 0 (some 1))))) rest)) := ⟨_, rfl⟩

theorem FailsOn.seq_chr_hit {cs : CharSet} {b : Rx} {c : Char} {t : Str} (h : FailsOn b t) : FailsOn (.seq (.chr cs) b) (c :: t) := by
  intro prev pos caps
  unfold Fails
  by_cases hc : cs.mem c = true
  · simp only [Rx.all, hc, if_true, List.flatMap_cons, List.flatMap_nil, List.append_nil]
    exact h _ _ _
  · simp [Rx.all, hc]

theorem FailsOn.chr_miss {cs : CharSet} {c : Char} {t : Str} (hc : cs.mem c = false) : FailsOn (.chr cs) (c :: t) :=
  FailsOn.chr cs _ (StopAt.cons hc)

/-- the word "Sec" before a blank -/
theorem eats_secWord (i : Nat) (tail : Str) : Eats (.grp i secA) ['S', 'e', 'c'] (' ' :: tail) (fun pos caps => (i, pos, pos + 3) :: caps) := by
  obtain ⟨rest, hA⟩ := secA_decomp
  rw [hA]
  have f1 : FailsOn (.seq (.chr Gen.cs_faf00333) (.seq (.chr Gen.cs_5f20f5ed) (.seq (.chr Gen.cs_00ee403a) (.seq (.chr Gen.cs_93b62202) (.seq (.chr Gen.cs_ea422351) (.seq (.chr Gen.cs_ff6fca51) (.chr Gen.cs_38ea6e46)))))))
      (['S', 'e', 'c'] ++ ' ' :: tail) :=
    FailsOn.seq_chr_hit (FailsOn.seq_chr_hit (FailsOn.seq_chr_hit (FailsOn.seq_l (FailsOn.chr_miss (by decide)))))
  have f2 : FailsOn (.seq (.chr Gen.cs_faf00333) (.seq (.chr Gen.cs_5f20f5ed) (.seq (.chr Gen.cs_00ee403a) (.seq (.chr Gen.cs_93b62202) (.rep (.chr Gen.cs_0f512a0d) 0 (some 1))))))
      (['S', 'e', 'c'] ++ ' ' :: tail) :=
    FailsOn.seq_chr_hit (FailsOn.seq_chr_hit (FailsOn.seq_chr_hit (FailsOn.seq_l (FailsOn.chr_miss (by decide)))))
  have e3 : Eats (.seq (.chr Gen.cs_faf00333) (.seq (.chr Gen.cs_5f20f5ed) (.seq (.chr Gen.cs_00ee403a) (.rep (.chr Gen.cs_0f512a0d) 0 (some 1)))))
      (['S'] ++ (['e'] ++ (['c'] ++ []))) (' ' :: tail) _ :=
    Eats.seq (Eats.chr _ 'S' _ (by decide)) (Eats.seq (Eats.chr _ 'e' _ (by decide)) (Eats.seq (Eats.chr _ 'c' _ (by decide))
      (Eats.opt_none (FailsOn.chr_miss (by decide)))))
  exact (Eats.grp i (Eats.alt_r f1 (Eats.alt_r f2 (Eats.alt_l e3)))).cast rfl (fun _ _ => rfl)

/-- the match object of a section reference `Sec nn:` that starts at `pos` -/
def secMatch (pos : Nat) : Match :=
  ⟨pos, pos + 7, [(18, pos + 6, pos + 7), (1, pos, pos + 6), (2, pos, pos + 6), (5, pos + 4, pos + 6), (3, pos, pos + 3)]⟩

theorem secX_hit : secX.mustHitP (fun cs => cs.sub digitD) = true := by decide +kernel
theorem secX_after_blank :
    secX.follow.all (fun p => !p.1.mem ' ' || p.2.sub ((Gen.PY_SPACE : CharSet) ++ (Danger ++ HeadDanger))) = true := by decide +kernel

theorem mem_append_false {a b : CharSet} {c : Char} (ha : a.mem c = false) (hb : b.mem c = false) : (a ++ b).mem c = false := by
  simp only [CharSet.mem, List.any_append, Bool.or_eq_false_iff] at *
  exact ⟨ha, hb⟩

/-- every white-space character except the blank is dangerous -/
theorem space_cases (c : Char) (h : pyIsSpace c = true) : Danger.mem c = true ∨ c = ' ' := by
  by_cases hc : c.toNat = 32
  · right
    have : c = Char.ofNat c.toNat := (Char.ofNat_toNat c).symm
    rw [this, hc]
  · left
    have e : Danger = Gen.cs_940665b9 ++ [(9, 13), (28, 31), (133, 133), (160, 160), (5760, 5760), (8192, 8202), (8232, 8233),
      (8239, 8239), (8287, 8287), (12288, 12288), (58, 58), (80, 80), (83, 84), (112, 112), (115, 116), (167, 167), (383, 383)] := rfl
    rw [e]
    simp only [CharSet.mem, List.any_append, Bool.or_eq_true]
    right
    simp only [pyIsSpace, Gen.PY_SPACE, List.any_cons, List.any_nil, Bool.or_false, Bool.or_eq_true, Bool.and_eq_true,
      decide_eq_true_eq] at h ⊢
    omega

theorem notSpace_of_safe {c : Char} (h1 : Danger.mem c = false) (h2 : c ≠ ' ') : CharSet.mem Gen.PY_SPACE c = false := by
  cases h : CharSet.mem Gen.PY_SPACE c with
  | false => rfl
  | true =>
    rcases space_cases c h with h' | h'
    · rw [h1] at h'; cases h'
    · exact absurd h' h2

theorem headDanger_blank : HeadDanger.mem ' ' = true := by decide

/-- the first character of an inert block is outside white space, the dangerous and the head-dangerous characters -/
theorem head_out {d0 : Char} (h1 : Danger.mem d0 = false) (h2 : HeadDanger.mem d0 = false) :
    CharSet.mem ((Gen.PY_SPACE : CharSet) ++ (Danger ++ HeadDanger)) d0 = false := by
  have hne : d0 ≠ ' ' := by rintro rfl; rw [headDanger_blank] at h2; cases h2
  exact mem_append_false (notSpace_of_safe h1 hne) (mem_append_false h1 h2)

/-- the list continuation `(…)*` of `multisec_regex` has no path after `Sec nn` when an inert block follows the colon -/
theorem secX_fails (d0 : Char) (rest : Str) (h1 : Danger.mem d0 = false) (h2 : HeadDanger.mem d0 = false) :
    FailsOn secX (':' :: ' ' :: d0 :: rest) := by
  have hadj : secX.adjB ' ' d0 = false := adjB_false_of_sub secX ' ' d0 _ secX_after_blank (head_out h1 h2)
  refine FailsOn.of_break secX_hit [':'] ' ' d0 rest hadj ?_
  intro c hc
  simp only [List.cons_append, List.nil_append, List.mem_cons, List.not_mem_nil, or_false] at hc
  rcases hc with rfl | rfl
  · exact noHit_of_notMem (by decide +kernel)
  · exact noHit_of_notMem (by decide +kernel)

theorem Inert.head_cons {d : Str} (h : Inert d) : ∃ d0 d', d = d0 :: d' ∧ Danger.mem d0 = false ∧ HeadDanger.mem d0 = false := by
  cases hd : d with
  | nil => exact absurd hd h.ne
  | cons a b => exact ⟨a, b, rfl, h.safe a (by rw [hd]; simp), h.head a b hd⟩

/-- **the section reference is a token of `multisec_regex`**: at `Sec nn:` followed by a blank and an inert block the
    first path takes exactly `Sec nn:` (colon included), whatever stands before and after -/
theorem secTok (l : Ln) (hl : l.Ok) (tail : Str) (prev : Option Char) (pos : Nat) (adv : Bool) :
    matchHere Gen.multisec_regex ⟨prev, l.ref ++ (' ' :: l.d ++ tail), pos, []⟩ adv = some (secMatch pos) := by
  obtain ⟨d0, d', hd, hd0, hh0⟩ := hl.d.head_cons
  have hn1 := hl.n1
  have hn2 := hl.n2
  let T : Str := ' ' :: (d0 :: d' ++ tail)
  have c1 := eats_secWord 3 (l.n1 :: l.n2 :: ':' :: T)
  have c2 : Eats (.rep (.grp 4 (.chr Gen.cs_faf00333)) 0 (some 1)) [] (' ' :: l.n1 :: l.n2 :: ':' :: T) _ :=
    Eats.opt_none (FailsOn.grp 4 (FailsOn.chr_miss (by decide)))
  have c3 : Eats (.rep (.chr Gen.cs_9e1db48b) 0 (some 1)) [' '] (l.n1 :: l.n2 :: ':' :: T) _ :=
    Eats.opt_some (Eats.chr _ ' ' _ (by decide))
  have c4 := Eats.run Gen.cs_588a3e21 0 none [] (l.n1 :: l.n2 :: ':' :: T) (fun _ h => by cases h)
    (Or.inr (StopAt.cons (CharSet.disj_mem (by decide +kernel) hn1))) (Nat.zero_le _) (fun _ h => by cases h)
  have c5 := Eats.grp 5 (Eats.run Gen.cs_940665b9 1 (some 3) [l.n1, l.n2] (':' :: T)
    (fun c hc => by
      simp only [List.mem_cons, List.not_mem_nil, or_false] at hc
      rcases hc with rfl | rfl
      · exact ascii_digitD hn1
      · exact ascii_digitD hn2)
    (Or.inr (StopAt.cons (by decide +kernel))) (by simp) (fun h hh => by cases hh; simp))
  have c6 : Eats (.rep (.grp 6 secX) 0 none) [] (':' :: T) _ :=
    Eats.star_none none (FailsOn.grp 6 (secX_fails d0 (d' ++ tail) hd0 hh0))
  have c7 : Eats (.rep (.grp 18 (.seq (.rep (.chr Gen.cs_70d553c2) 0 none) (.chr Gen.cs_df2d81f8))) 0 (some 1)) ([] ++ [':']) T _ :=
    Eats.opt_some (Eats.grp 18 (Eats.seq (Eats.run Gen.cs_70d553c2 0 none [] (':' :: T) (fun _ h => by cases h)
      (Or.inr (StopAt.cons (by decide +kernel))) (Nat.zero_le _) (fun _ h => by cases h)) (Eats.chr _ ':' _ (by decide))))
  have h45 := Eats.seq' c4 c5 (by simp)
  have h35 := Eats.seq' c3 h45 (by simp)
  have h25 := Eats.seq' c2 h35 (by simp)
  have h15 := Eats.seq' c1 h25 (by simp)
  have hg := Eats.grp 1 (Eats.grp 2 h15)
  have h67 := Eats.seq' c6 c7 (by simp)
  have hall := Eats.seq' hg h67 (by simp)
  have hL := hall prev pos []
  rw [← secHead_decomp, ← secColon_decomp, ← multisec_decomp] at hL
  have htxt : l.ref ++ (' ' :: l.d ++ tail) =
      (['S', 'e', 'c'] ++ ([] ++ ([' '] ++ ([] ++ [l.n1, l.n2]))) ++ ([] ++ ([] ++ [':']))) ++ T := by
    simp [Ln.ref, hd, T]
  rw [htxt]
  rw [matchHere_of_leads adv hL (Or.inr (by simp))]
  simp [secMatch, Nat.add_assoc]


/-! ### where `multisec_regex` cannot match -/

/-- line break, blank, `-`, the ASCII digits, `E N R T W`: the characters of a header and its separator other than `S` -/
def hdrPlain : CharSet := [(10, 10), (32, 32), (45, 45), (48, 57), (69, 69), (78, 78), (82, 82), (84, 84), (87, 87)]
/-- `E e §` -/
def eD : CharSet := [(69, 69), (101, 101), (167, 167)]

theorem FailsOn.congr {r r' : Rx} {t : Str} (e : r = r') (h : FailsOn r' t) : FailsOn r t := e ▸ h

theorem multisec_nn : Gen.multisec_regex.nullable = false := by decide +kernel
theorem multisec_first_plain : Gen.multisec_regex.firstSets.all (fun cs => hdrPlain.disj cs) = true := by decide +kernel
theorem multisec_first_danger : Gen.multisec_regex.firstSets.all (fun cs => cs.sub Danger) = true := by decide +kernel

theorem failsOn_secA_S (rest : Str) : FailsOn secA ('S' :: '-' :: rest) := by
  have hm : secA.mustHitP (fun cs => cs.sub eD) = true := by decide +kernel
  have hadj : secA.adjB 'S' '-' = false := by decide +kernel
  refine FailsOn.of_break hm [] 'S' '-' rest hadj ?_
  intro c hc
  simp only [List.nil_append, List.mem_cons, List.not_mem_nil, or_false] at hc
  subst hc
  exact noHit_of_notMem (by decide)

theorem failsOn_secHead_S (rest : Str) : FailsOn secHead ('S' :: '-' :: rest) :=
  FailsOn.congr secHead_decomp (FailsOn.grp 1 (FailsOn.grp 2 (FailsOn.seq_l (FailsOn.grp 3 (failsOn_secA_S rest)))))

theorem failsOn_multisec_S (rest : Str) : FailsOn Gen.multisec_regex ('S' :: '-' :: rest) :=
  FailsOn.congr multisec_decomp (FailsOn.seq_l (failsOn_secHead_S rest))

theorem multisec_skips_plain (seg tail : Str) (h : ∀ c ∈ seg, hdrPlain.mem c = true) : Skips Gen.multisec_regex seg tail := by
  refine Skips.of_first multisec_nn _ _ ?_
  intro c hc cs hcs
  have := multisec_first_plain
  simp only [List.all_eq_true] at this
  exact CharSet.disj_mem (this cs hcs) (h c hc)

theorem multisec_skips_safe (seg tail : Str) (h : ∀ c ∈ seg, Danger.mem c = false) : Skips Gen.multisec_regex seg tail := by
  refine Skips.of_first multisec_nn _ _ ?_
  intro c hc cs hcs
  have := multisec_first_danger
  simp only [List.all_eq_true] at this
  exact noHit_of_notMem (h c hc) cs (this cs hcs)

theorem hdrPlain_digit {c : Char} (h : c.isDigit = true) : hdrPlain.mem c = true :=
  CharSet.sub_mem (by decide) ((isDigit_iff_mem c).1 h)

/-- generic: a pattern that cannot start at the plain header characters, nor at `S-`, matches nowhere in a header and its
    separator -/
theorem skips_header {r : Rx} (hplain : ∀ seg tail, (∀ c ∈ seg, hdrPlain.mem c = true) → Skips r seg tail)
    (hS : ∀ rest, FailsOn r ('S' :: '-' :: rest)) (h : Hd) (hok : h.Ok) (sp : Str) (hsp : ∀ c ∈ sp, c = ' ' ∨ c = '\n') (tail : Str) :
    Skips r (h.text ++ sp) tail := by
  have e : h.text ++ sp = ('T' :: h.t) ++ (h.ns :: ('-' :: 'R' :: (h.r ++ [h.ew]) ++ sp)) := by
    simp [Hd.text, canonText]
  rw [e]
  refine Skips.append (hplain _ _ ?_) (Skips.cons ?_ (hplain _ _ ?_))
  · intro c hc
    rcases List.mem_cons.1 hc with rfl | hc
    · decide
    · exact hdrPlain_digit (hok.t_dig c hc)
  · rcases hok.ns with hn | hn
    · rw [hn]
      have := hplain ['N'] (('-' :: 'R' :: (h.r ++ [h.ew]) ++ sp) ++ tail) (by decide) [] [] 'N' rfl
      simpa using this
    · rw [hn]
      have := hS (('R' :: (h.r ++ [h.ew]) ++ sp) ++ tail)
      simpa using this
  · intro c hc
    simp only [List.cons_append, List.mem_cons, List.mem_append, List.not_mem_nil, or_false] at hc
    rcases hc with rfl | rfl | (hc | rfl) | hc
    · decide
    · decide
    · exact hdrPlain_digit (hok.r_dig c hc)
    · rcases hok.ew with hw | hw <;> rw [hw] <;> decide
    · rcases hsp c hc with rfl | rfl <;> decide

theorem multisec_skips_hdr (h : Hd) (hok : h.Ok) (sp : Str) (hsp : SepOk sp) (tail : Str) :
    Skips Gen.multisec_regex (h.text ++ sp) tail :=
  skips_header multisec_skips_plain failsOn_multisec_S h hok sp hsp.chars tail

theorem multisec_skips_desc (d : Str) (hd : Inert d) (tail : Str) : Skips Gen.multisec_regex (' ' :: d) tail :=
  Skips.cons
    (by
      have := multisec_skips_plain [' '] (d ++ tail) (by decide) [] [] ' ' rfl
      simpa using this)
    (multisec_skips_safe d tail hd.safe)

theorem multisec_fails_nl (tail : Str) : FailsOn Gen.multisec_regex ('\n' :: tail) := by
  have := multisec_skips_plain ['\n'] tail (by decide) [] [] '\n' rfl
  simpa using this

theorem multisec_fails_nil : FailsOn Gen.multisec_regex [] := FailsOn.of_first multisec_nn (fun c hc => by cases hc)

/-! ### the matches of `multisec_regex` in the canonical text -/

/-- the section references of further lines; `q` = position of the line break in front of the first of them -/
def refMs : Nat → List Ln → List Match
  | _, [] => []
  | q, l :: ls => secMatch (q + 1) :: refMs (q + 1 + l.text.length) ls

/-- the section references of a group whose header stands at `q` -/
def gpRefMs (sp : Str) (q : Nat) (g : Gp) : List Match :=
  secMatch (q + g.h.text.length + sp.length) :: refMs (q + g.h.text.length + sp.length + g.l.text.length) g.ls

/-- the section references of further groups; `q` = position of the line break in front of the first of them -/
def docRefMs (sp : Str) : Nat → List Gp → List Match
  | _, [] => []
  | q, g :: gs => gpRefMs sp (q + 1) g ++ docRefMs sp (q + 1 + (g.text sp).length) gs

theorem Ln.ref_length (l : Ln) : l.ref.length = 7 := rfl
theorem Ln.text_length (l : Ln) : l.text.length = 8 + l.d.length := by simp [Ln.text, Ln.ref]; omega

theorem sec_line (l : Ln) (hl : l.Ok) (tail : Str) (ms' : List Match) (pos : Nat)
    (h : ∀ p, Tiles Gen.multisec_regex p tail (pos + l.text.length) ms') :
    ∀ p, Tiles Gen.multisec_regex p (l.text ++ tail) pos (secMatch pos :: ms') := by
  intro p
  have e : l.text ++ tail = l.ref ++ (' ' :: l.d ++ tail) := by simp [Ln.text]
  rw [e]
  refine Tiles.tok p l.ref _ pos (secMatch pos) ms' (secTok l hl tail p pos false) rfl rfl (by simp [Ln.ref]) ?_
  have := Tiles.skipSeg (multisec_skips_desc l.d hl.d tail) (lastOr p l.ref) (pos + l.ref.length) (ms := ms')
    (by
      have e2 : pos + l.ref.length + (' ' :: l.d).length = pos + l.text.length := by
        simp [Ln.text]; omega
      rw [e2]; exact h _)
  simpa using this

theorem sec_lines : ∀ (ls : List Ln) (q : Nat) (tail : Str) (ms' : List Match), (∀ l ∈ ls, l.Ok) →
    (∀ p, Tiles Gen.multisec_regex p tail (q + (lnsSeg ls).length) ms') →
    ∀ p, Tiles Gen.multisec_regex p (lnsSeg ls ++ tail) q (refMs q ls ++ ms')
  | [], q, tail, ms', _, h => by simpa [lnsSeg, refMs] using h
  | l :: ls, q, tail, ms', hls, h => by
    intro p
    have hl := hls l (by simp)
    have ih := sec_lines ls (q + 1 + l.text.length) tail ms' (fun x hx => hls x (by simp [hx]))
      (by
        have e : q + 1 + l.text.length + (lnsSeg ls).length = q + (lnsSeg (l :: ls)).length := by
          simp [lnsSeg]; omega
        rw [e]; exact h)
    have h1 := sec_line l hl (lnsSeg ls ++ tail) (refMs (q + 1 + l.text.length) ls ++ ms') (q + 1) ih
    have e : lnsSeg (l :: ls) ++ tail = '\n' :: (l.text ++ (lnsSeg ls ++ tail)) := by simp [lnsSeg]
    rw [e]
    exact Tiles.skip p '\n' _ q _ (matchHere_of_failsOn (multisec_fails_nl _) _ _ false) (h1 _)

theorem sec_group (sp : Str) (hsp : SepOk sp) (g : Gp) (hok : g.Ok) (q : Nat) (tail : Str) (ms' : List Match)
    (h : ∀ p, Tiles Gen.multisec_regex p tail (q + (g.text sp).length) ms') :
    ∀ p, Tiles Gen.multisec_regex p (g.text sp ++ tail) q (gpRefMs sp q g ++ ms') := by
  intro p
  have hl := hok.ls g.l (by simp [Gp.lines])
  have hls : ∀ x ∈ g.ls, x.Ok := fun x hx => hok.ls x (by simp [Gp.lines, hx])
  have hlen : (g.text sp).length = g.h.text.length + sp.length + g.l.text.length + (lnsSeg g.ls).length := by
    simp [Gp.text, Gp.body]; omega
  have h2 := sec_lines g.ls (q + g.h.text.length + sp.length + g.l.text.length) tail ms' hls
    (by rw [hlen] at h; simpa [Nat.add_assoc] using h)
  have h1 := sec_line g.l hl (lnsSeg g.ls ++ tail) _ (q + g.h.text.length + sp.length) h2
  have e : g.text sp ++ tail = (g.h.text ++ sp) ++ (g.l.text ++ (lnsSeg g.ls ++ tail)) := by
    simp [Gp.text, Gp.body]
  rw [e]
  have := Tiles.skipSeg (multisec_skips_hdr g.h hok.h sp hsp (g.l.text ++ (lnsSeg g.ls ++ tail))) p q
    (ms := gpRefMs sp q g ++ ms')
    (by
      have e2 : q + (g.h.text ++ sp).length = q + g.h.text.length + sp.length := by simp; omega
      rw [e2]
      exact h1 _)
  exact this

theorem sec_groups (sp : Str) (hsp : SepOk sp) (fin : Str) (hfin : FinOk fin) : ∀ (gs : List Gp) (q : Nat), (∀ g ∈ gs, g.Ok) →
    ∀ p, Tiles Gen.multisec_regex p (gpsSeg sp gs ++ fin) q (docRefMs sp q gs)
  | [], q, _ => by
    intro p
    rcases hfin with rfl | rfl
    · exact Tiles.nil p q (matchHere_of_failsOn multisec_fails_nil _ _ false)
    · exact Tiles.skip p '\n' [] q [] (matchHere_of_failsOn (multisec_fails_nl _) _ _ false)
        (Tiles.nil _ _ (matchHere_of_failsOn multisec_fails_nil _ _ false))
  | g :: gs, q, hgs => by
    intro p
    have ih := sec_groups sp hsp fin hfin gs (q + 1 + (g.text sp).length) (fun x hx => hgs x (by simp [hx]))
    have h1 := sec_group sp hsp g (hgs g (by simp)) (q + 1) (gpsSeg sp gs ++ fin) _ ih
    have e : gpsSeg sp (g :: gs) ++ fin = '\n' :: (g.text sp ++ (gpsSeg sp gs ++ fin)) := by simp [gpsSeg]
    rw [e]
    exact Tiles.skip p '\n' _ q _ (matchHere_of_failsOn (multisec_fails_nl _) _ _ false) (h1 _)


/-! ### `sec_twprge_in_between` finds nothing between a section reference with an inert block and the next header -/

/-- a sequence fails if, however its first component consumes a prefix with its footprint, the rest fails on the remainder -/
theorem FailsOn.seq_foot {a b : Rx} {Y : Str}
    (h : ∀ seg rest', Y = seg ++ rest' → Chained a.firstSets a.lastSets a.adjP seg → (∀ c ∈ seg, memAny a.chrSets c) →
      (seg = [] → a.nullable = true) → FailsOn b rest') : FailsOn (.seq a b) Y := by
  intro prev pos caps
  refine Fails.seq_all ?_
  intro s1 hs1
  obtain ⟨g1, e1, c1, _, _, _⟩ := Rx.all_foot (fun _ => false) a _ s1 hs1
  obtain ⟨g2, e2, c2, n2⟩ := Rx.all_foot2 a _ s1 hs1
  have : g1 = g2 := List.append_cancel_right (e1.symm.trans e2)
  subst this
  have := h g1 s1.rest e1 c2 (fun c hc => c1 c hc) n2 s1.prev s1.pos s1.caps
  exact this

theorem rep_all_of_fails {r : Rx} {s : St} (hi : Option Nat) (h : Fails r s) : (Rx.rep r 0 hi).all s = [s] := by
  unfold Fails at h
  have hf : s.rest.length + 0 + 2 = (s.rest.length + 1) + 1 := by omega
  simp only [Rx.all, hf, repAll, Nat.not_lt_zero, if_false, h, List.flatMap_nil, List.nil_append]
  split <;> rfl

/-- `(x)* b` when neither `x` nor `b` has a path -/
theorem FailsOn.seq_star_none {x b : Rx} {Y : Str} (hi : Option Nat) (hx : FailsOn x Y) (hb : FailsOn b Y) :
    FailsOn (.seq (.rep x 0 hi) b) Y := by
  intro prev pos caps
  refine Fails.seq_all ?_
  intro s1 hs1
  rw [rep_all_of_fails hi (hx prev pos caps)] at hs1
  simp only [List.mem_singleton] at hs1
  subst hs1
  exact hb prev pos caps

def btwTail : Rx := match Gen.sec_twprge_in_between with | .seq _ (.seq _ (.seq _ t)) => t | _ => .fail
def btwWs : Rx := match btwTail with | .seq a _ => a | _ => .fail
def btwWord : Rx := match btwTail with | .seq _ (.seq b _) => b | _ => .fail
def btwRest : Rx := match btwTail with | .seq _ (.seq _ c) => c | _ => .fail

theorem between_decomp :
    Gen.sec_twprge_in_between = .seq secHead (.seq (.rep (.grp 6 secX) 0 none) (.seq secColon btwTail)) := rfl
theorem btwTail_decomp : btwTail = .seq btwWs (.seq btwWord btwRest) := rfl

/-- `0`–`9` and `:` -/
def colonDigit : CharSet := [(48, 58)]

theorem btwTail_first (c : Char) (rest : Str) (hc : colonDigit.mem c = true) : FailsOn btwTail (c :: rest) := by
  refine FailsOn.of_first (by decide +kernel) ?_
  intro x hx cs hcs
  simp only [List.head?_cons, Option.some.injEq] at hx
  subst hx
  have : btwTail.firstSets.all (fun cs => colonDigit.disj cs) = true := by decide +kernel
  simp only [List.all_eq_true] at this
  exact CharSet.disj_mem (this cs hcs) hc

theorem btwWord_first (c : Char) (rest : Str) (hc : c = ' ' ∨ CharSet.mem ((Gen.PY_SPACE : CharSet) ++ (Danger ++ HeadDanger)) c = false) :
    FailsOn btwWord (c :: rest) := by
  refine FailsOn.of_first (by decide +kernel) ?_
  intro x hx cs hcs
  simp only [List.head?_cons, Option.some.injEq] at hx
  subst hx
  have : btwWord.firstSets.all (fun cs => cs.sub ((Gen.PY_SPACE : CharSet) ++ (Danger ++ HeadDanger)) && !cs.mem ' ') = true := by
    decide +kernel
  simp only [List.all_eq_true, Bool.and_eq_true, Bool.not_eq_true'] at this
  rcases hc with rfl | hc
  · exact (this cs hcs).2
  · exact noHit_of_notMem hc cs (this cs hcs).1

/-- after `Sec nn:` — a blank and an inert block: none of the words "in", "of", … can follow -/
theorem btwTail_blank (d0 : Char) (rest : Str) (h1 : Danger.mem d0 = false) (h2 : HeadDanger.mem d0 = false) :
    FailsOn btwTail (' ' :: d0 :: rest) := by
  rw [btwTail_decomp]
  refine FailsOn.seq_foot ?_
  intro seg rest' e _ hchr _
  have hws : ∀ c ∈ seg, CharSet.mem Gen.PY_SPACE c = true := by
    intro c hc
    obtain ⟨cs, hcs, hm⟩ := hchr c hc
    have : btwWs.chrSets = [Gen.PY_SPACE] := by decide +kernel
    rw [this] at hcs
    simp only [List.mem_singleton] at hcs
    rw [← hcs]; exact hm
  have hout := head_out h1 h2
  have hd0 : CharSet.mem Gen.PY_SPACE d0 = false := by
    simp only [CharSet.mem, List.any_append, Bool.or_eq_false_iff] at hout ⊢
    exact hout.1
  rcases seg with _ | ⟨a0, _ | ⟨a1, seg'⟩⟩
  · simp only [List.nil_append] at e
    rw [← e]
    exact FailsOn.seq_l (btwWord_first ' ' _ (Or.inl rfl))
  · simp only [List.cons_append, List.nil_append, List.cons.injEq] at e
    rw [← e.2]
    exact FailsOn.seq_l (btwWord_first d0 _ (Or.inr hout))
  · simp only [List.cons_append, List.cons.injEq] at e
    have := hws a1 (by simp)
    rw [← e.2.1, hd0] at this
    cases this

/-- `(\s*:)?` followed by the rest, after `Sec n` / `Sec nn` -/
theorem btw_colon_tail (Y : Str) (d0 : Char) (rest : Str) (h1 : Danger.mem d0 = false) (h2 : HeadDanger.mem d0 = false)
    (hY : (∃ n2, asciiDigits.mem n2 = true ∧ Y = n2 :: ':' :: ' ' :: d0 :: rest) ∨ Y = ':' :: ' ' :: d0 :: rest) :
    FailsOn (.seq secColon btwTail) Y := by
  refine FailsOn.seq_foot ?_
  intro seg rest' e hch hchr _
  have hcs : ∀ c ∈ seg, CharSet.mem Gen.PY_SPACE c = true ∨ c = ':' := by
    intro c hc
    obtain ⟨cs, hcs, hm⟩ := hchr c hc
    have : secColon.chrSets = [Gen.PY_SPACE, [(58, 58)]] := by decide +kernel
    rw [this] at hcs
    simp only [List.mem_cons, List.not_mem_nil, or_false] at hcs
    rcases hcs with rfl | rfl
    · exact Or.inl hm
    · right
      simp only [CharSet.mem, List.any_cons, List.any_nil, Bool.or_false, Bool.and_eq_true, decide_eq_true_eq] at hm
      have : c = Char.ofNat c.toNat := (Char.ofNat_toNat c).symm
      rw [this, show c.toNat = 58 by omega]
  have hlast : ∀ c, seg.getLast? = some c → c = ':' := by
    intro c hc
    obtain ⟨cs, hcs, hm⟩ := hch.last c hc
    have : secColon.lastSets = [[(58, 58)]] := by decide +kernel
    rw [this] at hcs
    simp only [List.mem_singleton] at hcs
    subst hcs
    simp only [CharSet.mem, List.any_cons, List.any_nil, Bool.or_false, Bool.and_eq_true, decide_eq_true_eq] at hm
    have : c = Char.ofNat c.toNat := (Char.ofNat_toNat c).symm
    rw [this, show c.toNat = 58 by omega]
  rcases hY with ⟨n2, hn2, rfl⟩ | rfl
  · -- nothing can be consumed: a digit is neither white space nor a colon
    cases seg with
    | nil =>
      simp only [List.nil_append] at e
      rw [← e]
      exact btwTail_first n2 _ (CharSet.sub_mem (by decide) hn2)
    | cons a0 seg' =>
      simp only [List.cons_append, List.cons.injEq] at e
      have := hcs a0 (by simp)
      rw [← e.1] at this
      rcases this with h | h
      · have h' : pyIsSpace n2 = true := h
        rw [digit_not_space hn2] at h'
        cases h'
      · rw [h] at hn2
        exact absurd hn2 (by decide)
  · rcases seg with _ | ⟨a0, _ | ⟨a1, seg'⟩⟩
    · simp only [List.nil_append] at e
      rw [← e]
      exact btwTail_first ':' _ (by decide)
    · simp only [List.cons_append, List.nil_append, List.cons.injEq] at e
      rw [← e.2]
      exact btwTail_blank d0 rest h1 h2
    · -- two or more characters: the last consumed one would have to be a colon again
      simp only [List.cons_append, List.cons.injEq] at e
      obtain ⟨rfl, rfl, e3⟩ := e
      cases seg' with
      | nil =>
        have := hlast ' ' (by simp)
        exact absurd this (by decide)
      | cons a2 seg'' =>
        simp only [List.cons_append, List.cons.injEq] at e3
        have := hcs a2 (by simp)
        rw [← e3.1] at this
        have hout := head_out h1 h2
        have hd0 : CharSet.mem Gen.PY_SPACE d0 = false := by
          simp only [CharSet.mem, List.any_append, Bool.or_eq_false_iff] at hout ⊢
          exact hout.1
        rcases this with h | h
        · rw [hd0] at h; cases h
        · subst h
          have : Danger.mem ':' = true := by decide +kernel
          rw [this] at h1; cases h1


theorem adjB_false_of_disj {r : Rx} {A : CharSet} {x y : Char} (h : r.follow.all (fun p => A.disj p.1 || !p.2.mem y) = true)
    (hx : A.mem x = true) : r.adjB x y = false := by
  cases hb : r.adjB x y with
  | false => rfl
  | true =>
    simp only [Rx.adjB, List.any_eq_true, Bool.and_eq_true] at hb
    obtain ⟨p, hp, h1, h2⟩ := hb
    simp only [List.all_eq_true, Bool.or_eq_true, Bool.not_eq_true'] at h
    rcases h p hp with h' | h'
    · rw [CharSet.disj_mem h' hx] at h1; cases h1
    · rw [h2] at h'; cases h'

theorem secX_fails_digit (n2 : Char) (rest : Str) (h : asciiDigits.mem n2 = true) : FailsOn secX (n2 :: rest) := by
  refine FailsOn.of_first (by decide +kernel) ?_
  intro x hx cs hcs
  simp only [List.head?_cons, Option.some.injEq] at hx
  subst hx
  have : secX.firstSets.all (fun cs => asciiDigits.disj cs) = true := by decide +kernel
  simp only [List.all_eq_true] at this
  exact CharSet.disj_mem (this cs hcs) h

theorem char_eq_of_mem_single {c : Char} {n : Nat} (h : CharSet.mem [(n, n)] c = true) : c = Char.ofNat n := by
  simp only [CharSet.mem, List.any_cons, List.any_nil, Bool.or_false, Bool.and_eq_true, decide_eq_true_eq] at h
  have : c = Char.ofNat c.toNat := (Char.ofNat_toNat c).symm
  rw [this, show c.toNat = n by omega]

/-- at a section reference with an inert block the pattern "section … in/of … Twp/Rge" has no path at all -/
theorem between_fails_ref (l : Ln) (hl : l.Ok) (rest : Str) :
    FailsOn Gen.sec_twprge_in_between (l.ref ++ (' ' :: l.d ++ rest)) := by
  obtain ⟨d0, d', hd, hd0, hh0⟩ := hl.d.head_cons
  rw [between_decomp]
  refine FailsOn.seq_foot ?_
  intro seg rest' e hch _ hnull
  have hlast : ∀ c, seg.getLast? = some c → digitD.mem c = true := by
    intro c hc
    obtain ⟨cs, hcs, hm⟩ := hch.last c hc
    have : secHead.lastSets.all (fun cs => cs.sub digitD) = true := by decide +kernel
    simp only [List.all_eq_true] at this
    exact CharSet.sub_mem (this cs hcs) hm
  have hZ : l.ref ++ (' ' :: l.d ++ rest) = 'S' :: 'e' :: 'c' :: ' ' :: l.n1 :: l.n2 :: ':' :: ' ' :: d0 :: (d' ++ rest) := by
    simp [Ln.ref, hd]
  rw [hZ] at e
  have hnn : secHead.nullable = false := by decide +kernel
  rcases seg with _ | ⟨a0, _ | ⟨a1, _ | ⟨a2, _ | ⟨a3, _ | ⟨a4, _ | ⟨a5, _ | ⟨a6, seg'⟩⟩⟩⟩⟩⟩⟩
  · rw [hnull rfl] at hnn; cases hnn
  · simp only [List.cons_append, List.nil_append, List.cons.injEq] at e
    have := hlast a0 rfl
    rw [← e.1] at this
    exact absurd this (by decide +kernel)
  · simp only [List.cons_append, List.nil_append, List.cons.injEq] at e
    have := hlast a1 rfl
    rw [← e.2.1] at this
    exact absurd this (by decide +kernel)
  · simp only [List.cons_append, List.nil_append, List.cons.injEq] at e
    have := hlast a2 rfl
    rw [← e.2.2.1] at this
    exact absurd this (by decide +kernel)
  · simp only [List.cons_append, List.nil_append, List.cons.injEq] at e
    have := hlast a3 rfl
    rw [← e.2.2.2.1] at this
    exact absurd this (by decide +kernel)
  · simp only [List.cons_append, List.nil_append, List.cons.injEq] at e
    rw [← e.2.2.2.2.2]
    exact FailsOn.seq_star_none none (FailsOn.grp 6 (secX_fails_digit l.n2 _ hl.n2))
      (btw_colon_tail _ d0 (d' ++ rest) hd0 hh0 (Or.inl ⟨l.n2, hl.n2, rfl⟩))
  · simp only [List.cons_append, List.nil_append, List.cons.injEq] at e
    rw [← e.2.2.2.2.2.2]
    exact FailsOn.seq_star_none none (FailsOn.grp 6 (secX_fails d0 (d' ++ rest) hd0 hh0))
      (btw_colon_tail _ d0 (d' ++ rest) hd0 hh0 (Or.inr rfl))
  · simp only [List.cons_append, List.cons.injEq] at e
    obtain ⟨rfl, rfl, rfl, rfl, rfl, rfl, rfl, _⟩ := e
    have hadj : secHead.adjB l.n2 ':' = false :=
      adjB_false_of_disj (A := asciiDigits) (by decide +kernel) hl.n2
    have := Rx.adjB_of_adjP (AdjAll.mid ['S', 'e', 'c', ' ', l.n1] l.n2 ':' seg' hch.adj)
    rw [hadj] at this
    cases this

/-- the characters of `Sec nn:` other than `S`, and the blank: `e c`, blank, the ASCII digits, `:` -/
def refPlain : CharSet := [(32, 32), (48, 58), (99, 99), (101, 101)]

theorem between_nn : Gen.sec_twprge_in_between.nullable = false := by decide +kernel
theorem between_first_plain : Gen.sec_twprge_in_between.firstSets.all (fun cs => hdrPlain.disj cs && refPlain.disj cs && cs.sub Danger) = true := by
  decide +kernel

theorem between_skips (seg tail : Str) (h : ∀ c ∈ seg, hdrPlain.mem c = true ∨ refPlain.mem c = true ∨ Danger.mem c = false) :
    Skips Gen.sec_twprge_in_between seg tail := by
  refine Skips.of_first between_nn _ _ ?_
  intro c hc cs hcs
  have := between_first_plain
  simp only [List.all_eq_true, Bool.and_eq_true] at this
  rcases h c hc with h' | h' | h'
  · exact CharSet.disj_mem (this cs hcs).1.1 h'
  · exact CharSet.disj_mem (this cs hcs).1.2 h'
  · exact noHit_of_notMem h' cs (this cs hcs).2

theorem failsOn_between_S (rest : Str) : FailsOn Gen.sec_twprge_in_between ('S' :: '-' :: rest) :=
  FailsOn.congr between_decomp (FailsOn.seq_l (failsOn_secHead_S rest))

/-- **no "section … of … Twp/Rge"**: between the last section reference of a group (with its inert block) and the end of the
    next header the library's context check finds nothing, so the next Twp/Rge is not ignored -/
theorem between_search_none (l : Ln) (hl : l.Ok) (h : Hd) (hok : h.Ok) :
    Gen.sec_twprge_in_between.search (l.text ++ '\n' :: h.text) = none := by
  have hT : Tiles Gen.sec_twprge_in_between none (l.text ++ '\n' :: h.text) 0 [] := by
    have e : l.text ++ '\n' :: h.text = l.ref ++ (' ' :: l.d ++ '\n' :: h.text) := by simp [Ln.text]
    rw [e]
    have hrefT : l.ref = 'S' :: ['e', 'c', ' ', l.n1, l.n2, ':'] := rfl
    have h0 : matchHere Gen.sec_twprge_in_between ⟨none, l.ref ++ (' ' :: l.d ++ '\n' :: h.text), 0, []⟩ false = none :=
      matchHere_of_failsOn (between_fails_ref l hl ('\n' :: h.text)) none 0 false
    rw [hrefT] at h0 ⊢
    refine Tiles.skip none 'S' _ 0 [] h0 ?_
    -- the rest of the reference, the block, the line break, the header
    have s1 : Skips Gen.sec_twprge_in_between ['e', 'c', ' ', l.n1, l.n2, ':'] (((' ' :: l.d ++ ['\n']) ++ h.text) ++ []) := by
      refine between_skips _ _ ?_
      intro c hc
      simp only [List.mem_cons, List.not_mem_nil, or_false] at hc
      right; left
      rcases hc with rfl | rfl | rfl | rfl | rfl | rfl
      · decide
      · decide
      · decide
      · exact CharSet.sub_mem (by decide) hl.n1
      · exact CharSet.sub_mem (by decide) hl.n2
      · decide
    have s2 : Skips Gen.sec_twprge_in_between (' ' :: l.d ++ ['\n']) (h.text ++ []) := by
      refine between_skips _ _ ?_
      intro c hc
      simp only [List.cons_append, List.mem_cons, List.mem_append, List.not_mem_nil, or_false] at hc
      rcases hc with rfl | hc | rfl
      · left; decide
      · right; right; exact hl.d.safe c hc
      · left; decide
    have s3 : Skips Gen.sec_twprge_in_between h.text [] := by
      have := skips_header (fun seg tail hh => between_skips seg tail (fun c hc => Or.inl (hh c hc))) failsOn_between_S h hok []
        (fun _ hc => by cases hc) []
      simpa using this
    have hnil : Tiles Gen.sec_twprge_in_between (lastOr (some 'S') (['e', 'c', ' ', l.n1, l.n2, ':'] ++ ((' ' :: l.d ++ ['\n']) ++ h.text)))
        [] (0 + 1 + (['e', 'c', ' ', l.n1, l.n2, ':'] ++ ((' ' :: l.d ++ ['\n']) ++ h.text)).length) [] :=
      Tiles.nil _ _ (matchHere_of_failsOn (FailsOn.of_first between_nn (fun c hc => by cases hc)) _ _ false)
    have := Tiles.skipSeg (Skips.append (tail := []) s1 (Skips.append s2 s3)) (some 'S') (0 + 1) hnil
    simpa [List.append_assoc] using this
  rw [hT.search_eq]; rfl


/-! ## Part 4 — the finders -/

/-! ### what `unpack_twprge` reads from the match of a spelling standing anywhere in a text -/

theorem Spelling.group_twpnum_at (sp : Spelling) (pre ctx : Str) :
    twprge.group (sp.matchAt pre.length) (pre ++ (sp.text ++ ctx)) "twpnum" = some sp.t := by
  simp only [Pat.group, twprge_idx.1, Match.group?, sp.span_twpnum pre.length]
  congr 1
  exact slice_at _ (pre ++ (sp.tw ++ (sp.d1))) sp.t (sp.d2 ++ (sp.nsw ++ (sp.d3 ++ (sp.rw ++ (sp.d4 ++ (sp.r ++ (sp.d5 ++ (sp.eww ++ (ctx))))))))) _ _
    (by simp only [Spelling.text, List.append_assoc]) (by simp only [List.length_append, Nat.add_assoc])
    (by simp only [List.length_append, Nat.add_assoc])

theorem Spelling.group_ns_at (sp : Spelling) (pre ctx : Str) :
    twprge.group (sp.matchAt pre.length) (pre ++ (sp.text ++ ctx)) "ns" = some sp.nsw := by
  simp only [Pat.group, twprge_idx.2.1, Match.group?, sp.span_ns pre.length]
  congr 1
  exact slice_at _ (pre ++ (sp.tw ++ (sp.d1 ++ (sp.t ++ (sp.d2))))) sp.nsw (sp.d3 ++ (sp.rw ++ (sp.d4 ++ (sp.r ++ (sp.d5 ++ (sp.eww ++ (ctx))))))) _ _
    (by simp only [Spelling.text, List.append_assoc]) (by simp only [List.length_append, Nat.add_assoc])
    (by simp only [List.length_append, Nat.add_assoc])

theorem Spelling.group_ew_at (sp : Spelling) (pre ctx : Str) :
    twprge.group (sp.matchAt pre.length) (pre ++ (sp.text ++ ctx)) "ew" = some sp.eww := by
  simp only [Pat.group, twprge_idx.2.2.2.2, Match.group?, sp.span_ew pre.length]
  congr 1
  exact slice_at _ (pre ++ (sp.tw ++ (sp.d1 ++ (sp.t ++ (sp.d2 ++ (sp.nsw ++ (sp.d3 ++ (sp.rw ++ (sp.d4 ++ (sp.r ++ (sp.d5))))))))))) sp.eww (ctx) _ _
    (by simp only [Spelling.text, List.append_assoc]) (by simp only [List.length_append, Nat.add_assoc])
    (by simp only [List.length_append, Nat.add_assoc])

theorem Spelling.group_rgenum_at (sp : Spelling) (pre ctx : Str) :
    twprge.group (sp.matchAt pre.length) (pre ++ (sp.text ++ ctx)) "rgenum" = if sp.edge then none else some sp.r := by
  simp only [Pat.group, twprge_idx.2.2.1, Match.group?, sp.span_rgenum pre.length]
  by_cases he : sp.edge
  · simp only [he, if_true]
  · simp only [he, if_false]
    congr 1
    exact slice_at _ (pre ++ (sp.tw ++ (sp.d1 ++ (sp.t ++ (sp.d2 ++ (sp.nsw ++ (sp.d3 ++ (sp.rw ++ (sp.d4))))))))) sp.r (sp.d5 ++ (sp.eww ++ (ctx))) _ _
      (by simp only [Spelling.text, List.append_assoc]) (by simp only [List.length_append, Nat.add_assoc])
      (by simp only [List.length_append, Nat.add_assoc])

theorem Spelling.group_rge2_at (sp : Spelling) (pre ctx : Str) (he : sp.edge) :
    twprge.group (sp.matchAt pre.length) (pre ++ (sp.text ++ ctx)) "rgenum_edgecase_rge2" = some sp.r := by
  simp only [Pat.group, twprge_idx.2.2.2.1, Match.group?, sp.span_rge2 pre.length he]
  congr 1
  exact slice_at _ (pre ++ (sp.tw ++ (sp.d1 ++ (sp.t ++ (sp.d2 ++ (sp.nsw ++ (sp.d3 ++ (sp.rw ++ (sp.d4))))))))) sp.r (sp.d5 ++ (sp.eww ++ (ctx))) _ _
    (by simp only [Spelling.text, List.append_assoc]) (by simp only [List.length_append, Nat.add_assoc])
    (by simp only [List.length_append, Nat.add_assoc])

/-- `unpack_twprge` on the match of a valid spelling standing after `pre` -/
theorem Spelling.canonTR_at (sp : Spelling) (pre ctx : Str) (hv : sp.Valid ctx) (ns ew : Str) :
    canonTR twprge (sp.matchAt pre.length) (pre ++ (sp.text ++ ctx)) ns ew false = sp.canon := by
  have h1 : twpPart twprge (sp.matchAt pre.length) (pre ++ (sp.text ++ ctx)) false = stripLeadingZerosViaInt sp.t := by
    simp only [twpPart, sp.group_twpnum_at pre ctx, Option.getD_some, Bool.false_eq_true, if_false]
  have h2 : rgePart twprge (sp.matchAt pre.length) (pre ++ (sp.text ++ ctx)) false = stripLeadingZerosViaInt sp.r := by
    by_cases he : sp.edge
    · simp only [rgePart, sp.group_rgenum_at pre ctx, he, if_true, sp.group_rge2_at pre ctx he, Option.getD_some,
        Bool.false_eq_true, if_false]
    · simp only [rgePart, sp.group_rgenum_at pre ctx, he, if_false, Bool.false_eq_true]
  have h3 : dirPart twprge (sp.matchAt pre.length) (pre ++ (sp.text ++ ctx)) "ns" ns = pyUpper (sp.nsw.take 1) := by
    have := hv.nsw_ne
    cases hn : sp.nsw with
    | nil => exact absurd hn this
    | cons c t => simp only [dirPart, sp.group_ns_at pre ctx, hn, List.take_succ_cons, List.take_zero]
  have h4 : dirPart twprge (sp.matchAt pre.length) (pre ++ (sp.text ++ ctx)) "ew" ew = pyUpper (sp.eww.take 1) := by
    have := hv.eww_ne
    cases hn : sp.eww with
    | nil => exact absurd hn this
    | cons c t => simp only [dirPart, sp.group_ew_at pre ctx, hn, List.take_succ_cons, List.take_zero]
  unfold canonTR Spelling.canon
  rw [h1, h2, h3, h4]


/-! ### `SecFinder` on the canonical text -/

def asciiDs : List Char := "0123456789".toList

theorem mem_asciiDs {c : Char} (h : asciiDigits.mem c = true) : c ∈ asciiDs := by
  have hb := asciiDigit_bounds h
  have : c = Char.ofNat c.toNat := (Char.ofNat_toNat c).symm
  have h10 : (List.range 10).all (fun i => asciiDs.contains (Char.ofNat (48 + i))) = true := by decide
  simp only [List.all_eq_true, List.mem_range, List.contains_iff_mem] at h10
  have := h10 (c.toNat - 48) (by omega)
  rw [show 48 + (c.toNat - 48) = c.toNat by omega, Char.ofNat_toNat] at this
  exact this

theorem unpack_ref_all : asciiDs.all (fun n1 => asciiDs.all (fun n2 =>
    let u := unpackSections ['S', 'e', 'c', ' ', n1, n2, ':']
    (u.secList == [[n1, n2]]) && u.flags.isEmpty && u.flagLines.isEmpty)) = true := by decide +kernel

/-- `unpack_sections("Sec nn:")` is the one section `nn`, without a flag — for all hundred two-digit numbers -/
theorem unpack_ref (l : Ln) (hl : l.Ok) :
    (unpackSections l.ref).secList = [[l.n1, l.n2]] ∧ (unpackSections l.ref).flags = [] ∧ (unpackSections l.ref).flagLines = [] := by
  have h := unpack_ref_all
  simp only [List.all_eq_true, Bool.and_eq_true, beq_iff_eq, List.isEmpty_iff] at h
  have := h l.n1 (mem_asciiDs hl.n1) l.n2 (mem_asciiDs hl.n2)
  exact ⟨this.1.1, this.1.2, this.2⟩

/-- a prefix of the text after which a section reference is not "illegal": whatever white space follows it, the stripped
    prefix does not end in " of", " said", " in", " within" -/
def PriorOK (pre : Str) : Prop :=
  ∀ ws : Str, (∀ c ∈ ws, pyIsSpace c = true) → illegalWords.any (fun w => pyEndsWith (pyRStrip (pre ++ ws)) w) = false

theorem rstrip_append_ws (pre ws : Str) (c : Char) (hlast : pre.getLast? = some c) (hc : pyIsSpace c = false)
    (hws : ∀ c ∈ ws, pyIsSpace c = true) : pyRStrip (pre ++ ws) = pre := by
  unfold pyRStrip
  rw [Pretty.rstripBy_append_all _ _ _ hws]
  exact Pretty.rstripBy_getLast_false _ _ c hlast hc

theorem isPrefix_blank_tail : ∀ (a b Y : Str), ' ' ∉ a → isPrefix (a ++ [' ']) (b ++ ' ' :: Y) = isPrefix (a ++ [' ']) (b ++ [' '])
  | [], [], Y, _ => by simp [isPrefix]
  | [], c :: b, Y, _ => by simp [isPrefix]
  | x :: a, [], Y, h => by
    have hx : (x == ' ') = false := by
      simp only [beq_eq_false_iff_ne, ne_eq]; intro e; exact h (by simp [e])
    simp [isPrefix, hx]
  | x :: a, c :: b, Y, h => by
    have ih := isPrefix_blank_tail a b Y (fun e => h (by simp [e]))
    simp only [List.cons_append, isPrefix, ih]

/-- an illegal word `' ' :: w'` at the end of `X ++ ' ' :: d` lies inside `' ' :: d` -/
theorem pyEndsWith_blank (X d w' : Str) (hw : ' ' ∉ w') :
    pyEndsWith (X ++ ' ' :: d) (' ' :: w') = pyEndsWith (' ' :: d) (' ' :: w') := by
  unfold pyEndsWith
  have e1 : (' ' :: w').reverse = w'.reverse ++ [' '] := by simp
  have e2 : (X ++ ' ' :: d).reverse = d.reverse ++ ' ' :: X.reverse := by simp
  have e3 : (' ' :: d).reverse = d.reverse ++ [' '] := by simp
  rw [e1, e2, e3]
  exact isPrefix_blank_tail _ _ _ (by simpa using hw)

theorem illegal_shape : ∀ w ∈ illegalWords, ∃ w', w = ' ' :: w' ∧ ' ' ∉ w' ∧
    ∃ c, w.getLast? = some c ∧ c ≠ 'E' ∧ c ≠ 'W' := by
  intro w hw
  have e : illegalWords = [[' ', 'o', 'f'], [' ', 's', 'a', 'i', 'd'], [' ', 'i', 'n'], [' ', 'w', 'i', 't', 'h', 'i', 'n']] := by decide
  rw [e] at hw
  simp only [List.mem_cons, List.not_mem_nil, or_false] at hw
  rcases hw with rfl | rfl | rfl | rfl
  · exact ⟨_, rfl, by decide, _, rfl, by decide, by decide⟩
  · exact ⟨_, rfl, by decide, _, rfl, by decide, by decide⟩
  · exact ⟨_, rfl, by decide, _, rfl, by decide, by decide⟩
  · exact ⟨_, rfl, by decide, _, rfl, by decide, by decide⟩

theorem pyEndsWith_last_ne (Y w : Str) (c c' : Char) (hw : w.getLast? = some c') (hne : c' ≠ c) :
    pyEndsWith (Y ++ [c]) w = false := by
  unfold pyEndsWith
  obtain ⟨w0, rfl⟩ := List.getLast?_eq_some_iff.mp hw
  have hc : (c' == c) = false := by simpa using hne
  simp [isPrefix, hc]

/-- after a header (and its separator) a section reference is legal -/
theorem priorOK_hdr (P : Str) (h : Hd) (hok : h.Ok) : PriorOK (P ++ h.text) := by
  intro ws hws
  have e : P ++ h.text = (P ++ 'T' :: (h.t ++ h.ns :: '-' :: 'R' :: h.r)) ++ [h.ew] := by simp [Hd.text, canonText]
  have hlast : (P ++ h.text).getLast? = some h.ew := by rw [e]; exact List.getLast?_concat
  have hns : pyIsSpace h.ew = false := by rcases hok.ew with e | e <;> rw [e] <;> decide
  rw [rstrip_append_ws _ ws h.ew hlast hns hws]
  rw [List.any_eq_false]
  intro w hw
  obtain ⟨w', _, _, c, hc, h1, h2⟩ := illegal_shape w hw
  rw [e]
  simp only [Bool.not_eq_true]
  rcases hok.ew with e' | e' <;> rw [e']
  · exact pyEndsWith_last_ne _ w 'E' c hc h1
  · exact pyEndsWith_last_ne _ w 'W' c hc h2

theorem Inert.last_solid {d : Str} (h : Inert d) : ∃ c, d.getLast? = some c ∧ pyIsSpace c = false := by
  cases hl : d.getLast? with
  | none => exact absurd (List.getLast?_eq_none_iff.1 hl) h.ne
  | some c =>
    refine ⟨c, rfl, ?_⟩
    cases hs : pyIsSpace c with
    | false => rfl
    | true =>
      rcases space_cases c hs with h' | h'
      · have := h.safe c (List.mem_of_getLast? hl)
        rw [this] at h'; cases h'
      · exact absurd h' (h.last c hl)

/-- after a line with an inert block a section reference is legal -/
theorem priorOK_desc (P d : Str) (hd : Inert d) : PriorOK (P ++ ' ' :: d) := by
  intro ws hws
  obtain ⟨c, hc, hns⟩ := hd.last_solid
  have hlast : (P ++ ' ' :: d).getLast? = some c := by
    have e : P ++ ' ' :: d = (P ++ [' ']) ++ d := by simp
    rw [e, List.getLast?_append, hc]; rfl
  rw [rstrip_append_ws _ ws c hlast hns hws]
  rw [List.any_eq_false]
  intro w hw
  obtain ⟨w', rfl, hw', _⟩ := illegal_shape w hw
  rw [pyEndsWith_blank P d w' hw']
  have := hd.legal
  rw [List.any_eq_false] at this
  exact this _ hw


theorem multisec_idx : multisec.idx? "colon" = some 18 ∧ multisec.idx? "secnum_rightmost" = some 17 ∧ multisec.idx? "secnum" = some 5 ∧
    multisec.has "intervener" = true := by decide

theorem firstLayouts_trs : firstLayouts TRS_DESC = true := by decide

/-- one step of `findall_matching_sec` at a section reference of the canonical text -/
theorem secStep_ok (text pre post : Str) (l : Ln) (hl : l.Ok) (htext : text = pre ++ (l.ref ++ (' ' :: l.d ++ post)))
    (hprior : illegalWords.any (fun w => pyEndsWith (pyRStrip pre) w) = false) (st : SecFindSt) (needColon : Bool) :
    secFindStep text TRS_DESC needColon st (secMatch pre.length) =
      .ok { out := st.out ++ [⟨[[l.n1, l.n2]], pre.length, pre.length + 7⟩], lastNums := [[l.n1, l.n2]], ff := st.ff } := by
  obtain ⟨u1, u2, u3⟩ := unpack_ref l hl
  have hg0 : (secMatch pre.length).group0 text = l.ref := by
    unfold Match.group0
    exact slice_at text pre l.ref (' ' :: l.d ++ post) _ _ htext rfl rfl
  have htake : text.take (secMatch pre.length).start = pre := by
    rw [htext]; simp [secMatch]
  have hcolon : (multisec.group (secMatch pre.length) text "colon").isNone = false := by
    simp [Pat.group, multisec_idx.1, Match.group?, Match.span?, secMatch]
  have hmulti : isMulti multisec "sec" (secMatch pre.length) text = some false := by
    simp [isMulti, multisec_idx, Pat.group, Match.group?, Match.span?, secMatch, List.find?]
  unfold secFindStep
  simp only [hg0, htake, hprior, hcolon, hmulti, u1, u2, u3, firstLayouts_trs, Bool.and_false, Bool.not_false, Bool.and_self,
    Bool.not_true, Bool.false_eq_true, if_false, List.append_nil]
  rfl

/-- what `SecFinder` reports for further lines; `q` = position of the line break in front of the first of them -/
def lnOut : Nat → List Ln → List SecMatch
  | _, [] => []
  | q, l :: ls => ⟨[[l.n1, l.n2]], q + 1, q + 1 + 7⟩ :: lnOut (q + 1 + l.text.length) ls

def gpSecOut (sp : Str) (q : Nat) (g : Gp) : List SecMatch :=
  ⟨[[g.l.n1, g.l.n2]], q + g.h.text.length + sp.length, q + g.h.text.length + sp.length + 7⟩ ::
    lnOut (q + g.h.text.length + sp.length + g.l.text.length) g.ls

def docSecOut (sp : Str) : Nat → List Gp → List SecMatch
  | _, [] => []
  | q, g :: gs => gpSecOut sp (q + 1) g ++ docSecOut sp (q + 1 + (g.text sp).length) gs

theorem pyIsSpace_nl' : pyIsSpace '\n' = true := by decide
theorem pyIsSpace_blank : pyIsSpace ' ' = true := by decide

theorem secFold_line (text pre post : Str) (l : Ln) (hl : l.Ok) (nc : Bool) (st : SecFindSt)
    (htext : text = pre ++ (l.text ++ post))
    (hprior : illegalWords.any (fun w => pyEndsWith (pyRStrip pre) w) = false) :
    secFindStep text TRS_DESC nc st (secMatch pre.length) =
      .ok { out := st.out ++ [⟨[[l.n1, l.n2]], pre.length, pre.length + 7⟩], lastNums := [[l.n1, l.n2]], ff := st.ff } :=
  secStep_ok text pre post l hl (by rw [htext]; simp [Ln.text]) hprior st nc

theorem secFold_lines (text : Str) (nc : Bool) : ∀ (ls : List Ln) (pre tail : Str) (st : SecFindSt),
    text = pre ++ (lnsSeg ls ++ tail) → (∀ l ∈ ls, l.Ok) → PriorOK pre →
    ∃ st', (refMs pre.length ls).foldlM (secFindStep text TRS_DESC nc) st = .ok st' ∧
      st'.out = st.out ++ lnOut pre.length ls ∧ st'.ff = st.ff
  | [], pre, tail, st, _, _, _ => ⟨st, rfl, by simp [lnOut], rfl⟩
  | l :: ls, pre, tail, st, htext, hls, hpr => by
    have hl := hls l (by simp)
    have h1 := secFold_line text (pre ++ ['\n']) (lnsSeg ls ++ tail) l hl nc st (by rw [htext]; simp [lnsSeg])
      (hpr ['\n'] (by intro c hc; simp at hc; rw [hc]; exact pyIsSpace_nl'))
    have hlen : (pre ++ ['\n']).length = pre.length + 1 := by simp
    rw [hlen] at h1
    obtain ⟨st', h2, h3, h4⟩ := secFold_lines text nc ls (pre ++ ['\n'] ++ l.ref ++ ' ' :: l.d) tail
      { out := st.out ++ [⟨[[l.n1, l.n2]], pre.length + 1, pre.length + 1 + 7⟩], lastNums := [[l.n1, l.n2]], ff := st.ff }
      (by rw [htext]; simp [lnsSeg, Ln.text]) (fun x hx => hls x (by simp [hx])) (priorOK_desc _ _ hl.d)
    have hlen2 : (pre ++ ['\n'] ++ l.ref ++ ' ' :: l.d).length = pre.length + 1 + l.text.length := by
      simp [Ln.text]; omega
    rw [hlen2] at h2 h3
    refine ⟨st', ?_, ?_, h4⟩
    · simp only [refMs, List.foldlM_cons, h1]
      exact h2
    · rw [h3]; simp [lnOut]

theorem secFold_group (text : Str) (nc : Bool) (sp : Str) (hsp : SepOk sp) (g : Gp) (hok : g.Ok) (pre tail : Str) (st : SecFindSt)
    (htext : text = pre ++ (g.text sp ++ tail)) :
    ∃ st', (gpRefMs sp pre.length g).foldlM (secFindStep text TRS_DESC nc) st = .ok st' ∧
      st'.out = st.out ++ gpSecOut sp pre.length g ∧ st'.ff = st.ff := by
  have hl := hok.ls g.l (by simp [Gp.lines])
  have hls : ∀ x ∈ g.ls, x.Ok := fun x hx => hok.ls x (by simp [Gp.lines, hx])
  have hspace : ∀ c ∈ sp, pyIsSpace c = true := by
    intro c hc
    rcases hsp.chars c hc with rfl | rfl
    · exact pyIsSpace_blank
    · exact pyIsSpace_nl'
  have h1 := secFold_line text (pre ++ g.h.text ++ sp) (lnsSeg g.ls ++ tail) g.l hl nc st
    (by rw [htext]; simp [Gp.text, Gp.body])
    (by rw [List.append_assoc]; rw [← List.append_assoc]; exact priorOK_hdr pre g.h hok.h sp hspace)
  have hlen : (pre ++ g.h.text ++ sp).length = pre.length + g.h.text.length + sp.length := by simp; omega
  rw [hlen] at h1
  obtain ⟨st', h2, h3, h4⟩ := secFold_lines text nc g.ls (pre ++ g.h.text ++ sp ++ g.l.ref ++ ' ' :: g.l.d) tail
    { out := st.out ++ [⟨[[g.l.n1, g.l.n2]], pre.length + g.h.text.length + sp.length, pre.length + g.h.text.length + sp.length + 7⟩],
      lastNums := [[g.l.n1, g.l.n2]], ff := st.ff }
    (by rw [htext]; simp [Gp.text, Gp.body, Ln.text]) hls (priorOK_desc _ _ hl.d)
  have hlen2 : (pre ++ g.h.text ++ sp ++ g.l.ref ++ ' ' :: g.l.d).length = pre.length + g.h.text.length + sp.length + g.l.text.length := by
    simp [Ln.text]; omega
  rw [hlen2] at h2 h3
  refine ⟨st', ?_, ?_, h4⟩
  · simp only [gpRefMs, List.foldlM_cons, h1]
    exact h2
  · rw [h3]; simp [gpSecOut]

theorem secFold_groups (text : Str) (nc : Bool) (sp : Str) (hsp : SepOk sp) : ∀ (gs : List Gp) (pre tail : Str) (st : SecFindSt),
    text = pre ++ (gpsSeg sp gs ++ tail) → (∀ g ∈ gs, g.Ok) →
    ∃ st', (docRefMs sp pre.length gs).foldlM (secFindStep text TRS_DESC nc) st = .ok st' ∧
      st'.out = st.out ++ docSecOut sp pre.length gs ∧ st'.ff = st.ff
  | [], pre, tail, st, _, _ => ⟨st, rfl, by simp [docSecOut], rfl⟩
  | g :: gs, pre, tail, st, htext, hgs => by
    obtain ⟨st1, a1, a2, a3⟩ := secFold_group text nc sp hsp g (hgs g (by simp)) (pre ++ ['\n']) (gpsSeg sp gs ++ tail) st
      (by rw [htext]; simp [gpsSeg])
    have hlen : (pre ++ ['\n']).length = pre.length + 1 := by simp
    rw [hlen] at a1 a2
    obtain ⟨st2, b1, b2, b3⟩ := secFold_groups text nc sp hsp gs (pre ++ ['\n'] ++ g.text sp) tail st1
      (by rw [htext]; simp [gpsSeg]) (fun x hx => hgs x (by simp [hx]))
    have hlen2 : (pre ++ ['\n'] ++ g.text sp).length = pre.length + 1 + (g.text sp).length := by simp; omega
    rw [hlen2] at b1 b2
    refine ⟨st2, ?_, ?_, b3.trans a3⟩
    · simp only [docRefMs, List.foldlM_append, a1]
      exact b1
    · rw [b2, a2]; simp [docSecOut]

/-- **`SecFinder` on the canonical text**: one match per line, `Sec nn:` with its colon, the section `nn`, no flag — for
    every `require_colon` mode -/
theorem secFinder_doc (sp : Str) (hsp : SepOk sp) (g : Gp) (gs : List Gp) (hok : g.Ok) (hgs : ∀ x ∈ gs, x.Ok) (rc : ReqColon) :
    secFinder (docText sp (g :: gs)) TRS_DESC rc =
      .ok (gpSecOut sp 0 g ++ docSecOut sp (g.text sp).length gs, {}) := by
  have htxt : docText sp (g :: gs) = g.text sp ++ (gpsSeg sp gs ++ []) := by simp [docText, gpsSeg]
  have hfind : multisec.rx.finditer (docText sp (g :: gs)) = gpRefMs sp 0 g ++ docRefMs sp (g.text sp).length gs := by
    rw [htxt]
    have := sec_group sp hsp g hok 0 (gpsSeg sp gs ++ []) (docRefMs sp (g.text sp).length gs)
      (by simpa using sec_groups sp hsp [] (Or.inl rfl) gs (g.text sp).length hgs) none
    exact this.finditer_eq
  have hpass : ∀ nc, ∃ nums, secFinderPass (docText sp (g :: gs)) TRS_DESC nc =
      .ok (gpSecOut sp 0 g ++ docSecOut sp (g.text sp).length gs, {}, nums) := by
    intro nc
    obtain ⟨st1, a1, a2, a3⟩ := secFold_group (docText sp (g :: gs)) nc sp hsp g hok [] (gpsSeg sp gs ++ []) {}
      (by rw [htxt]; rfl)
    obtain ⟨st2, b1, b2, b3⟩ := secFold_groups (docText sp (g :: gs)) nc sp hsp gs (g.text sp) [] st1
      (by rw [htxt]) hgs
    refine ⟨st2.lastNums, ?_⟩
    unfold secFinderPass
    rw [hfind, List.foldlM_append]
    simp only [List.length_nil] at a1 a2
    rw [a1]
    simp only [bind, Except.bind]
    rw [b1]
    simp only [b2, a2, b3, a3, List.nil_append]
  unfold secFinder
  obtain ⟨nums, hp⟩ := hpass ((rc == .yes || rc == .cautious) && firstLayouts TRS_DESC)
  simp only [hp]
  simp [gpSecOut]


/-! ### `TwpRgeFinder` on the canonical text -/

/-- the match of `twprge_regex` on a header at `pos` -/
def twMk (h : Hd) (pos : Nat) : Match := h.sp.matchAt pos

/-- the Twp/Rge in the library's short form (`154n97w`) -/
def Hd.key (h : Hd) : Str := twprgeNaturalToShort h.sp.canon

theorem Hd.sp_text (h : Hd) : h.sp.text = h.text := canonSp_text _ _ _ _

theorem endsTwprge_sep (sp rest : Str) (hsp : SepOk sp) : EndsTwprge (sp ++ rest) := by
  cases hs : sp with
  | nil => exact absurd hs hsp.ne
  | cons c t =>
    rcases hsp.chars c (by rw [hs]; simp) with rfl | rfl
    · exact EndsTwprge.cons _ (by decide +kernel)
    · exact EndsTwprge.cons _ (by decide +kernel)

theorem Hd.valid (h : Hd) (hok : h.Ok) (ctx : Str) (hctx : EndsTwprge ctx) : h.sp.Valid ctx :=
  canonSp_valid h.t h.ns h.r h.ew ctx hok.t_dig hok.t_len hok.ns hok.r_dig hok.r_len hok.ew hctx

/-- a header is a token of `twprge_regex` -/
theorem twprge_tok (sp : Str) (hsp : SepOk sp) (h : Hd) (l : Ln) (rest : Str) (prev : Option Char) (pos : Nat) (hok : h.Ok) (_hl : l.Ok)
    (hprev : isWord Gen.cs_14d6aa8a prev = false) :
    matchHere Gen.twprge_regex ⟨prev, h.text ++ (sp ++ (l.ref ++ rest)), pos, []⟩ false = some (twMk h pos) ∧ (twMk h pos).start = pos ∧
      (twMk h pos).stop = pos + h.text.length + (if false then sp.length else 0) := by
  have hv := h.valid hok (sp ++ (l.ref ++ rest)) (endsTwprge_sep sp _ hsp)
  have := C08_spelling_matchHere h.sp _ hv prev hprev pos false
  rw [h.sp_text] at this
  refine ⟨this, rfl, ?_⟩
  simp [twMk, Spelling.matchAt, h.sp_text]

theorem isWord_none : isWord Gen.cs_14d6aa8a none = false := rfl

/-- the matches of `twprge_regex` in the canonical text: the headers -/
theorem twprge_finditer_doc (sp : Str) (hsp : SepOk sp) (g : Gp) (gs : List Gp) (hok : g.Ok) (hgs : ∀ x ∈ gs, x.Ok) :
    twprge.rx.finditer (docText sp (g :: gs)) = hdrMs twMk sp 0 (g :: gs) := by
  have htxt : docText sp (g :: gs) = g.text sp ++ (gpsSeg sp gs ++ []) := by simp [docText, gpsSeg]
  rw [htxt]
  exact (hdrTiles Gen.twprge_regex twprge_gapSkips sp [] hsp (Or.inl rfl) false twMk
    (fun h l rest prev pos hok hl hprev => twprge_tok sp hsp h l rest prev pos hok hl hprev) gs g 0 none hok hgs isWord_none).finditer_eq

/-- `finditer(text, pos, endpos)` on a window `B` of the text that is tiled whatever stands in front of it -/
theorem finditer_window (r : Rx) (A B C : Str) (ms : List Match) (h : ∀ pv, Tiles r pv B A.length ms) :
    r.finditer (A ++ B ++ C) A.length (A ++ B).length = ms := by
  unfold Rx.finditer
  have h1 : ¬ A.length > min (A ++ B).length (A ++ B ++ C).length := by simp
  rw [if_neg h1]
  have h2 : ((A ++ B ++ C).take (A ++ B).length).drop A.length = B := by
    rw [List.take_left' rfl, List.drop_left' rfl]
  simp only [cursorAt, h2]
  exact (h _).finditerAux_eq _ (by have := (h none).length_le; omega)

theorem foldl_lastSec (ms0 : List Match) (m : Match) (init : Option Match × Nat) :
    (ms0 ++ [m]).foldl (fun _ sm => (some sm, sm.start)) init = (some m, m.start) := by
  simp [List.foldl_append]

/-- the last line of a group -/
def lastOf : Ln → List Ln → Ln
  | l, [] => l
  | _, z :: ls => lastOf z ls

theorem lastOf_ok : ∀ (l : Ln) (ls : List Ln), l.Ok → (∀ x ∈ ls, x.Ok) → (lastOf l ls).Ok
  | l, [], h, _ => h
  | l, z :: ls, _, hls => lastOf_ok z ls (hls z (by simp)) (fun x hx => hls x (by simp [hx]))

theorem lines_split : ∀ (ls : List Ln) (l : Ln) (q : Nat), ∃ (I : Str) (ms0 : List Match),
    l.text ++ lnsSeg ls = I ++ (lastOf l ls).text ∧
    secMatch q :: refMs (q + l.text.length) ls = ms0 ++ [secMatch (q + I.length)]
  | [], l, q => ⟨[], [], by simp [lnsSeg, lastOf], by simp [refMs]⟩
  | z :: ls, l, q => by
    obtain ⟨I, ms0, h1, h2⟩ := lines_split ls z (q + l.text.length + 1)
    refine ⟨l.text ++ '\n' :: I, secMatch q :: ms0, ?_, ?_⟩
    · simp only [lnsSeg, lastOf]
      rw [h1]; simp
    · have e : refMs (q + l.text.length) (z :: ls) =
          secMatch (q + l.text.length + 1) :: refMs (q + l.text.length + 1 + z.text.length) ls := rfl
      rw [e, h2]
      simp [Nat.add_assoc, Nat.add_comm 1]

def Gp.last (g : Gp) : Ln := lastOf g.l g.ls

theorem Gp.last_ok (g : Gp) (hok : g.Ok) : g.last.Ok :=
  lastOf_ok g.l g.ls (hok.ls g.l (by simp [Gp.lines])) (fun x hx => hok.ls x (by simp [Gp.lines, hx]))

theorem group_split (sp : Str) (g : Gp) (q : Nat) : ∃ (I : Str) (ms0 : List Match),
    g.text sp = I ++ g.last.text ∧ gpRefMs sp q g = ms0 ++ [secMatch (q + I.length)] := by
  obtain ⟨I, ms0, h1, h2⟩ := lines_split g.ls g.l (q + g.h.text.length + sp.length)
  refine ⟨g.h.text ++ sp ++ I, ms0, ?_, ?_⟩
  · simp only [Gp.text, Gp.body, Gp.last]
    rw [h1]; simp
  · simp only [gpRefMs]
    rw [h2]
    simp [Nat.add_assoc]

theorem multisec_tiles_nl : ∀ (p : Option Char) (pos : Nat), Tiles Gen.multisec_regex p ['\n'] pos [] := fun p pos =>
  Tiles.skip p '\n' [] pos [] (matchHere_of_failsOn (multisec_fails_nl _) _ _ false)
    (Tiles.nil _ _ (matchHere_of_failsOn multisec_fails_nil _ _ false))

/-- the window in which the library looks for the last section before a Twp/Rge: `A` = text before position `j`, `B` = text
    from `j` to the Twp/Rge -/
def WinOK (A B : Str) : Prop :=
  (A = [] ∧ B = []) ∨
  ∃ (B0 : Str) (l : Ln), l.Ok ∧ B = B0 ++ l.text ++ ['\n'] ∧
    ∃ ms0, ∀ pv, Tiles Gen.multisec_regex pv B A.length (ms0 ++ [secMatch (A ++ B0).length])

/-- after the first group -/
theorem winOK_first (sp : Str) (hsp : SepOk sp) (g : Gp) (hok : g.Ok) : WinOK [] (g.text sp ++ ['\n']) := by
  right
  obtain ⟨I, ms0, h1, h2⟩ := group_split sp g 0
  refine ⟨I, g.last, g.last_ok hok, by rw [h1], ms0, ?_⟩
  intro pv
  have := sec_group sp hsp g hok 0 ['\n'] [] (fun p => multisec_tiles_nl p _) pv
  rw [h2] at this
  simpa using this

/-- after a further group: the window starts at the last section reference of the group before -/
theorem winOK_next (sp : Str) (hsp : SepOk sp) (A' : Str) (l : Ln) (hl : l.Ok) (g : Gp) (hok : g.Ok) :
    WinOK A' (l.text ++ '\n' :: (g.text sp ++ ['\n'])) := by
  right
  obtain ⟨I, ms0, h1, h2⟩ := group_split sp g (A'.length + l.text.length + 1)
  refine ⟨l.text ++ '\n' :: I, g.last, g.last_ok hok, by rw [h1]; simp, secMatch A'.length :: ms0, ?_⟩
  intro pv
  have hg := sec_group sp hsp g hok (A'.length + l.text.length + 1) ['\n'] [] (fun p => multisec_tiles_nl p _)
  have hnl : ∀ p, Tiles Gen.multisec_regex p ('\n' :: (g.text sp ++ ['\n'])) (A'.length + l.text.length)
      (gpRefMs sp (A'.length + l.text.length + 1) g ++ []) := fun p =>
    Tiles.skip p '\n' _ _ _ (matchHere_of_failsOn (multisec_fails_nl _) _ _ false) (hg _)
  have := sec_line l hl ('\n' :: (g.text sp ++ ['\n'])) _ A'.length hnl pv
  rw [h2] at this
  have e : (A' ++ (l.text ++ '\n' :: I)).length = A'.length + l.text.length + 1 + I.length := by simp; omega
  rw [e]
  simpa using this


theorem trs_desc_layouts : (TRS_DESC == DESC_STR || TRS_DESC == TR_DESC_S || TRS_DESC == COPY_ALL) = false := by decide

/-- one step of `findall_matching_twprge` at a header of the canonical text: the Twp/Rge is accepted -/
theorem trStep_ok (mc : MC) (hns : isLegal Gen.LEGAL_NS mc.ns = true) (hew : isLegal Gen.LEGAL_EW mc.ew = true)
    (sp : Str) (hsp : SepOk sp) (text A B R : Str) (g : Gp) (hok : g.Ok)
    (htext : text = A ++ B ++ (g.text sp ++ R)) (hw : WinOK A B) (st : TRFindSt) (hj : st.j = A.length) :
    ∃ j', trFindStep mc text TRS_DESC st (twMk g.h (A ++ B).length) =
        .ok { st with out := st.out ++ [⟨g.h.key, (A ++ B).length, (A ++ B).length + g.h.text.length⟩], j := j' } ∧
      ((A = [] ∧ B = [] ∧ j' = 0) ∨ (∃ (B0 : Str) (l : Ln), l.Ok ∧ B = B0 ++ l.text ++ ['\n'] ∧ j' = (A ++ B0).length)) := by
  have hv := g.h.valid hok.h (g.body sp ++ R) (by
    have : g.body sp ++ R = sp ++ (g.l.text ++ lnsSeg g.ls ++ R) := by simp [Gp.body]
    rw [this]; exact endsTwprge_sep sp _ hsp)
  have htext' : text = (A ++ B) ++ (g.h.sp.text ++ (g.body sp ++ R)) := by
    rw [htext, g.h.sp_text]; simp [Gp.text]
  have hunp : unpackTwprge twprge (twMk g.h (A ++ B).length) text mc.ns mc.ew false = .ok g.h.sp.canon := by
    rw [unpackTwprge_canon _ _ _ _ _ _ hns hew, htext']
    exact congrArg _ (g.h.sp.canonTR_at (A ++ B) (g.body sp ++ R) hv mc.ns mc.ew)
  have hstart : (twMk g.h (A ++ B).length).start = (A ++ B).length := rfl
  have hstop : (twMk g.h (A ++ B).length).stop = (A ++ B).length + g.h.text.length := by
    simp [twMk, Spelling.matchAt, g.h.sp_text]
  rcases hw with ⟨rfl, rfl⟩ | ⟨B0, l, hl, hB, ms0, hT⟩
  · refine ⟨0, ?_, Or.inl ⟨rfl, rfl, rfl⟩⟩
    have hfi : multisec.rx.finditer text st.j ([] ++ ([] : Str)).length = [] := by
      rw [hj, htext]
      exact finditer_window Gen.multisec_regex [] [] _ [] (fun pv => Tiles.nil pv _ (matchHere_of_failsOn multisec_fails_nil _ _ false))
    unfold trFindStep
    simp only [hunp, trs_desc_layouts, Bool.false_eq_true, if_false, lastSecBefore, hstart, hstop, hfi, List.foldl_nil, if_true, hj]
    rfl
  · refine ⟨(A ++ B0).length, ?_, Or.inr ⟨B0, l, hl, hB, rfl⟩⟩
    have hfi : multisec.rx.finditer text st.j (A ++ B).length = ms0 ++ [secMatch (A ++ B0).length] := by
      rw [hj, htext]
      exact finditer_window Gen.multisec_regex A B _ _ hT
    have hss : ∀ p, (secMatch p).start = p := fun _ => rfl
    have hslice : slice text (A ++ B0).length ((A ++ B).length + g.h.text.length) = l.text ++ '\n' :: g.h.text := by
      refine slice_at text (A ++ B0) (l.text ++ '\n' :: g.h.text) (g.body sp ++ R) _ _ ?_ rfl ?_
      · rw [htext, hB]; simp [Gp.text]
      · rw [hB]; simp; omega
    unfold trFindStep
    simp only [hunp, trs_desc_layouts, Bool.false_eq_true, if_false, lastSecBefore, hstart, hstop, hfi, foldl_lastSec, hss, hslice,
      between_search_none l hl g.h hok.h, Option.isNone_none, if_true]
    rw [hss, hstop, hslice, between_search_none l hl g.h hok.h]
    rfl


/-- what `TwpRgeFinder` reports; `q` = position of the first header -/
def trOut (sp : Str) : Nat → List Gp → List TRMatch
  | _, [] => []
  | q, g :: gs => ⟨g.h.key, q, q + g.h.text.length⟩ :: trOut sp (q + (g.text sp).length + 1) gs

theorem trFold (mc : MC) (hns : isLegal Gen.LEGAL_NS mc.ns = true) (hew : isLegal Gen.LEGAL_EW mc.ew = true)
    (sp : Str) (hsp : SepOk sp) (text : Str) : ∀ (gs : List Gp) (g : Gp) (A B : Str) (st : TRFindSt),
    g.Ok → (∀ x ∈ gs, x.Ok) → text = A ++ B ++ (g.text sp ++ gpsSeg sp gs) → WinOK A B → st.j = A.length →
    ∃ st', (hdrMs twMk sp (A ++ B).length (g :: gs)).foldlM (trFindStep mc text TRS_DESC) st = .ok st' ∧
      st'.out = st.out ++ trOut sp (A ++ B).length (g :: gs) ∧ st'.ff = st.ff
  | [], g, A, B, st, hok, _, htext, hw, hj => by
    obtain ⟨j', h1, _⟩ := trStep_ok mc hns hew sp hsp text A B (gpsSeg sp []) g hok htext hw st hj
    refine ⟨{ st with out := st.out ++ [⟨g.h.key, (A ++ B).length, (A ++ B).length + g.h.text.length⟩], j := j' }, ?_, ?_, ?_⟩
    · simp only [hdrMs, List.foldlM_cons, h1]
      rfl
    · simp [trOut]
    · rfl
  | g' :: gs, g, A, B, st, hok, hgs, htext, hw, hj => by
    obtain ⟨j', h1, hshape⟩ := trStep_ok mc hns hew sp hsp text A B (gpsSeg sp (g' :: gs)) g hok htext hw st hj
    have hok' := hgs g' (by simp)
    have hgs' : ∀ x ∈ gs, x.Ok := fun x hx => hgs x (by simp [hx])
    -- the window for the next header
    obtain ⟨A', B', htext', hw', hj', hlen⟩ : ∃ A' B' : Str, text = A' ++ B' ++ (g'.text sp ++ gpsSeg sp gs) ∧ WinOK A' B' ∧
        j' = A'.length ∧ (A' ++ B').length = (A ++ B).length + (g.text sp).length + 1 := by
      rcases hshape with ⟨rfl, rfl, rfl⟩ | ⟨B0, l, hl, rfl, rfl⟩
      · exact ⟨[], g.text sp ++ ['\n'], by rw [htext]; simp [gpsSeg], winOK_first sp hsp g hok, rfl, by simp⟩
      · refine ⟨A ++ B0, l.text ++ '\n' :: (g.text sp ++ ['\n']), ?_, winOK_next sp hsp (A ++ B0) l hl g hok, rfl, ?_⟩
        · rw [htext]; simp [gpsSeg]
        · simp; omega
    obtain ⟨st2, b1, b2, b3⟩ := trFold mc hns hew sp hsp text gs g' A' B'
      { st with out := st.out ++ [⟨g.h.key, (A ++ B).length, (A ++ B).length + g.h.text.length⟩], j := j' }
      hok' hgs' htext' hw' hj'
    rw [hlen] at b1 b2
    refine ⟨st2, ?_, ?_, b3⟩
    · rw [show hdrMs twMk sp (A ++ B).length (g :: g' :: gs) =
        twMk g.h (A ++ B).length :: hdrMs twMk sp ((A ++ B).length + (g.text sp).length + 1) (g' :: gs) from rfl]
      simp only [List.foldlM_cons, h1]
      exact b1
    · rw [b2]
      simp [trOut]

/-- **`TwpRgeFinder` on the canonical text**: every header is found and accepted (the context check between the last section
    of the group before and the header finds nothing), in the library's short form; no flag -/
theorem twprgeFinder_doc (mc : MC) (hns : isLegal Gen.LEGAL_NS mc.ns = true) (hew : isLegal Gen.LEGAL_EW mc.ew = true)
    (sp : Str) (hsp : SepOk sp) (g : Gp) (gs : List Gp) (hok : g.Ok) (hgs : ∀ x ∈ gs, x.Ok) :
    twprgeFinder mc (docText sp (g :: gs)) TRS_DESC = .ok (trOut sp 0 (g :: gs), {}) := by
  have htxt : docText sp (g :: gs) = [] ++ [] ++ (g.text sp ++ gpsSeg sp gs) := by simp [docText, gpsSeg]
  obtain ⟨st', h1, h2, h3⟩ := trFold mc hns hew sp hsp (docText sp (g :: gs)) gs g [] [] {} hok hgs htxt (Or.inl ⟨rfl, rfl⟩) rfl
  unfold twprgeFinder
  rw [twprge_finditer_doc sp hsp g gs hok hgs]
  simp only [List.append_nil, List.length_nil] at h1 h2
  rw [h1]
  simp only [h2, h3, List.nil_append]



/-! ### `populateMarkers` for an arranged chunk -/

theorem insertSorted_perm (x : Nat × Marker) : ∀ l, (insertSorted x l).Perm (x :: l)
  | [] => List.Perm.refl _
  | y :: t => by
    unfold insertSorted
    split
    · exact List.Perm.refl _
    · exact ((insertSorted_perm x t).cons y).trans (List.Perm.swap x y t)

theorem sortMarkers_perm : ∀ d, (sortMarkers d).Perm d
  | [] => List.Perm.refl _
  | x :: d => by
    show (insertSorted x (sortMarkers d)).Perm (x :: d)
    exact (insertSorted_perm x _).trans ((sortMarkers_perm d).cons x)

theorem insertSorted_sorted (x : Nat × Marker) : ∀ l, l.Pairwise (fun a b => a.1 ≤ b.1) →
    (insertSorted x l).Pairwise (fun a b => a.1 ≤ b.1)
  | [], _ => by simp [insertSorted]
  | y :: t, h => by
    unfold insertSorted
    have ht := List.pairwise_cons.1 h
    split
    · rename_i hxy
      refine List.pairwise_cons.2 ⟨?_, h⟩
      intro b hb
      rcases List.mem_cons.1 hb with rfl | hb
      · exact hxy
      · exact Nat.le_trans hxy (ht.1 b hb)
    · rename_i hxy
      refine List.pairwise_cons.2 ⟨?_, insertSorted_sorted x t ht.2⟩
      intro b hb
      have := (insertSorted_perm x t).subset hb
      rcases List.mem_cons.1 this with rfl | hb'
      · omega
      · exact ht.1 b hb'

theorem sortMarkers_sorted : ∀ d, (sortMarkers d).Pairwise (fun a b => a.1 ≤ b.1)
  | [] => List.Pairwise.nil
  | x :: d => insertSorted_sorted x _ (sortMarkers_sorted d)

theorem strict_key_inj {T : List (Nat × Marker)} (hs : T.Pairwise (fun a b => a.1 < b.1)) :
    ∀ a ∈ T, ∀ b ∈ T, a.1 = b.1 → a = b := by
  induction T with
  | nil => intro a ha; cases ha
  | cons x t ih =>
    have hx := List.pairwise_cons.1 hs
    intro a ha b hb hab
    rcases List.mem_cons.1 ha with ha1 | ha1
    · rcases List.mem_cons.1 hb with hb1 | hb1
      · rw [ha1, hb1]
      · have := hx.1 b hb1; rw [ha1] at hab; omega
    · rcases List.mem_cons.1 hb with hb1 | hb1
      · have := hx.1 a ha1; rw [hb1] at hab; omega
      · exact ih hx.2 a ha1 b hb1 hab

/-- sorting a permutation of a strictly increasing list gives that list -/
theorem sortMarkers_eq (d T : List (Nat × Marker)) (hperm : T.Perm d) (hs : T.Pairwise (fun a b => a.1 < b.1)) :
    sortMarkers d = T := by
  refine List.Perm.eq_of_pairwise (le := fun a b => a.1 ≤ b.1) ?_ (sortMarkers_sorted d)
    (hs.imp (fun h => Nat.le_of_lt h)) ((sortMarkers_perm d).trans hperm.symm)
  intro a b ha hb h1 h2
  have ha' : a ∈ T := hperm.symm.subset ((sortMarkers_perm d).subset ha)
  exact strict_key_inj hs a ha' b hb (by omega)

theorem markSet_fresh (d : List (Nat × Marker)) (k : Nat) (v : Marker) (h : ∀ e ∈ d, e.1 ≠ k) : markSet d k v = d ++ [(k, v)] := by
  unfold markSet
  have : d.any (fun e => e.1 == k) = false := by
    rw [List.any_eq_false]
    intro e he
    simpa using h e he
  simp [this]

theorem foldl_markSet (ins : List (Nat × Marker)) : ∀ (d : List (Nat × Marker)), ((d ++ ins).map (·.1)).Nodup →
    ins.foldl (fun d e => markSet d e.1 e.2) d = d ++ ins := by
  induction ins with
  | nil => intro d _; simp
  | cons e ins ih =>
    intro d h
    have hfresh : ∀ x ∈ d, x.1 ≠ e.1 := by
      intro x hx hxe
      rw [List.map_append, List.map_cons] at h
      have := (List.nodup_append.1 h).2.2 x.1 (List.mem_map_of_mem hx) e.1 (by simp)
      exact this hxe
    rw [List.foldl_cons, markSet_fresh d e.1 e.2 hfresh]
    have := ih (d ++ [(e.1, e.2)]) (by simpa [List.append_assoc] using h)
    simpa [List.append_assoc] using this


theorem markSet_head (k : Nat) (v v' : Marker) (rest : List (Nat × Marker)) (h : ∀ e ∈ rest, e.1 ≠ k) :
    markSet ((k, v') :: rest) k v = (k, v) :: rest := by
  unfold markSet
  simp only [List.any_cons, beq_self_eq_true, Bool.true_or, if_true, List.map_cons]
  congr 1
  rw [List.map_congr_left (g := id)]
  · simp
  · intro e he
    have : (e.1 == k) = false := by simpa using h e he
    simp [this]

def secsOf (groups : List TRGroup) : List SecMatch :=
  groups.flatMap (fun g => g.items.map (fun s => (⟨s.secs, s.sStart, s.sEnd⟩ : SecMatch)))
def trsOf (groups : List TRGroup) : List TRMatch := groups.map (fun g => (⟨g.tr, g.tStart, g.tEnd⟩ : TRMatch))
def secMk (secs : List SecMatch) : List (Nat × Marker) := secs.flatMap (fun m => [(m.start, Marker.secStart), (m.stop, Marker.secEnd)])
def trMk (trs : List TRMatch) : List (Nat × Marker) := trs.flatMap (fun m => [(m.start, Marker.trStart), (m.stop, Marker.trEnd)])

theorem secs_fold (secs : List SecMatch) : ∀ d, secs.foldl (fun d m => markSet (markSet d m.start .secStart) m.stop .secEnd) d =
    (secMk secs).foldl (fun d e => markSet d e.1 e.2) d := by
  induction secs with
  | nil => intro d; rfl
  | cons m t ih => intro d; simp only [List.foldl_cons, secMk, List.flatMap_cons, List.cons_append, List.nil_append]; exact ih _

theorem trs_fold (trs : List TRMatch) : ∀ d, trs.foldl (fun d m => markSet (markSet d m.start .trStart) m.stop .trEnd) d =
    (trMk trs).foldl (fun d e => markSet d e.1 e.2) d := by
  induction trs with
  | nil => intro d; rfl
  | cons m t ih => intro d; simp only [List.foldl_cons, trMk, List.flatMap_cons, List.cons_append, List.nil_append]; exact ih _

theorem markers_perm : ∀ (groups : List TRGroup),
    (groups.flatMap groupMarkers).Perm (trMk (trsOf groups) ++ secMk (secsOf groups))
  | [] => List.Perm.refl _
  | g :: gs => by
    have ih := markers_perm gs
    have e1 : (g :: gs).flatMap groupMarkers = [(g.tStart, Marker.trStart), (g.tEnd, Marker.trEnd)] ++ (imk g.items ++ gs.flatMap groupMarkers) := by
      simp [groupMarkers_eq]
    have e2 : trMk (trsOf (g :: gs)) = [(g.tStart, Marker.trStart), (g.tEnd, Marker.trEnd)] ++ trMk (trsOf gs) := by
      simp [trMk, trsOf]
    have e3 : secMk (secsOf (g :: gs)) = imk g.items ++ secMk (secsOf gs) := by
      simp [secMk, secsOf, imk, List.flatMap_append, List.flatMap_map]
    rw [e1, e2, e3, List.append_assoc]
    refine List.Perm.append_left _ ?_
    have : (imk g.items ++ gs.flatMap groupMarkers).Perm (imk g.items ++ (trMk (trsOf gs) ++ secMk (secsOf gs))) :=
      List.Perm.append_left _ ih
    refine this.trans ?_
    rw [← List.append_assoc, ← List.append_assoc]
    exact List.Perm.append_right _ List.perm_append_comm

/-- **`populate_markers` for an arranged chunk**: if the markers of the groups, in reading order and followed by the end of
    the text, stand at strictly increasing positions and the first Twp/Rge starts the text, the sorted marker dictionary is
    exactly that list -/
theorem populateMarkers_groups (g1 : TRGroup) (rest : List TRGroup) (len : Nat) (h0 : g1.tStart = 0)
    (hs : ((g1 :: rest).flatMap groupMarkers ++ [(len, Marker.textEnd)]).Pairwise (fun a b => a.1 < b.1)) :
    populateMarkers len (secsOf (g1 :: rest)) (trsOf (g1 :: rest)) = trsDescMarkers (g1 :: rest) len := by
  let T := (g1 :: rest).flatMap groupMarkers ++ [(len, Marker.textEnd)]
  let SM := secMk (secsOf (g1 :: rest))
  let L : List (Nat × Marker) := (0, Marker.trStart) :: (len, Marker.textEnd) :: (SM ++ ((g1.tEnd, Marker.trEnd) :: trMk (trsOf rest)))
  have hTL : T.Perm L := by
    have h1 : T.Perm ((trMk (trsOf (g1 :: rest)) ++ SM) ++ [(len, Marker.textEnd)]) := List.Perm.append_right _ (markers_perm _)
    refine h1.trans ?_
    have e : trMk (trsOf (g1 :: rest)) = (0, Marker.trStart) :: (g1.tEnd, Marker.trEnd) :: trMk (trsOf rest) := by
      simp [trMk, trsOf, h0]
    rw [e]
    show (((0, Marker.trStart) :: (g1.tEnd, Marker.trEnd) :: trMk (trsOf rest)) ++ SM ++ [(len, Marker.textEnd)]).Perm L
    simp only [List.cons_append, L]
    refine List.Perm.cons _ ?_
    -- (tEnd) :: trRest ++ SM ++ [end]  ~  end :: SM ++ tEnd :: trRest
    have : ((g1.tEnd, Marker.trEnd) :: (trMk (trsOf rest) ++ SM ++ [(len, Marker.textEnd)])).Perm
        ([(len, Marker.textEnd)] ++ (SM ++ (g1.tEnd, Marker.trEnd) :: trMk (trsOf rest))) := by
      have a : ((g1.tEnd, Marker.trEnd) :: (trMk (trsOf rest) ++ SM ++ [(len, Marker.textEnd)])) =
          (((g1.tEnd, Marker.trEnd) :: trMk (trsOf rest)) ++ SM) ++ [(len, Marker.textEnd)] := by simp
      rw [a]
      exact List.perm_append_comm.trans (List.Perm.append_left _ List.perm_append_comm)
    simpa using this
  have hkeys : (L.map (·.1)).Nodup := by
    have hT : (T.map (·.1)).Nodup := by
      rw [List.Nodup, List.pairwise_map]
      exact hs.imp (fun h => Nat.ne_of_lt h)
    exact (hTL.map _).nodup_iff.1 hT
  -- the dictionary
  have hL : L.map (·.1) = 0 :: len :: (SM.map (·.1) ++ g1.tEnd :: (trMk (trsOf rest)).map (·.1)) := by simp [L]
  rw [hL] at hkeys
  have hk0 := List.nodup_cons.1 hkeys
  have hk1 := List.nodup_cons.1 hk0.2
  have hlen0 : (0 : Nat) ≠ len := by intro e; exact hk0.1 (by simp [e])
  have hd1 : markSet (markSet [] 0 .textStart) len .textEnd = [(0, Marker.textStart), (len, Marker.textEnd)] := by
    rw [markSet_fresh [] 0 _ (fun _ h => by cases h)]
    exact markSet_fresh _ len _ (by intro e he; simp at he; rw [he]; exact hlen0)
  have hdS : (secMk (secsOf (g1 :: rest))).foldl (fun d e => markSet d e.1 e.2) [(0, Marker.textStart), (len, Marker.textEnd)] =
      [(0, Marker.textStart), (len, Marker.textEnd)] ++ SM := by
    refine foldl_markSet _ _ ?_
    have : (([(0, Marker.textStart), (len, Marker.textEnd)] ++ SM).map (·.1)) = 0 :: len :: SM.map (·.1) := by simp
    rw [this]
    refine List.nodup_cons.2 ⟨fun h => hk0.1 (by simp at h ⊢; rcases h with h | h; exact Or.inl h; exact Or.inr (Or.inl h)), ?_⟩
    refine List.nodup_cons.2 ⟨fun h => hk1.1 (by simp at h ⊢; exact Or.inl h), ?_⟩
    exact (List.nodup_append.1 hk1.2).1
  have hSM0 : ∀ e ∈ (len, Marker.textEnd) :: SM, e.1 ≠ 0 := by
    intro e he h
    apply hk0.1
    rcases List.mem_cons.1 he with rfl | he
    · simp at h; simp [h]
    · simp only [List.mem_cons, List.mem_append, List.mem_map]
      exact Or.inr (Or.inl ⟨e, he, h⟩)
  unfold populateMarkers
  simp only [hd1, secs_fold, hdS, trs_fold]
  have e : trMk (trsOf (g1 :: rest)) = (0, Marker.trStart) :: ((g1.tEnd, Marker.trEnd) :: trMk (trsOf rest)) := by
    simp [trMk, trsOf, h0]
  rw [e, List.foldl_cons]
  have hrep : markSet ([(0, Marker.textStart), (len, Marker.textEnd)] ++ SM) (0, Marker.trStart).1 (0, Marker.trStart).2 =
      (0, Marker.trStart) :: ((len, Marker.textEnd) :: SM) := markSet_head 0 _ _ _ hSM0
  rw [hrep, foldl_markSet _ _ (by simpa [L] using hkeys)]
  exact sortMarkers_eq _ T (by simpa [L] using hTL) hs



/-! ### the arrangement of the canonical text -/

/-- the section references of further lines; `q` = position of the line break in front of the first of them -/
def lnItems : Nat → List Ln → List SecItem
  | _, [] => []
  | q, l :: ls => ⟨q + 1, q + 1 + 7, [[l.n1, l.n2]]⟩ :: lnItems (q + 1 + l.text.length) ls

/-- a group whose header stands at `q` -/
def gpGroup (sp : Str) (q : Nat) (g : Gp) : TRGroup :=
  ⟨q, q + g.h.text.length, g.h.key,
    ⟨q + g.h.text.length + sp.length, q + g.h.text.length + sp.length + 7, [[g.l.n1, g.l.n2]]⟩ ::
      lnItems (q + g.h.text.length + sp.length + g.l.text.length) g.ls⟩

/-- the arrangement of the canonical text whose first header stands at `q` -/
def docGroups (sp : Str) : Nat → List Gp → List TRGroup
  | _, [] => []
  | q, g :: gs => gpGroup sp q g :: docGroups sp (q + (g.text sp).length + 1) gs

theorem lnItems_secs : ∀ (q : Nat) (ls : List Ln),
    (lnItems q ls).map (fun s => (⟨s.secs, s.sStart, s.sEnd⟩ : SecMatch)) = lnOut q ls
  | _, [] => rfl
  | q, l :: ls => by simp [lnItems, lnOut, lnItems_secs _ ls]

theorem secsOf_docGroups (sp : Str) : ∀ (gs : List Gp) (q : Nat), secsOf (docGroups sp (q + 1) gs) = docSecOut sp q gs
  | [], _ => rfl
  | g :: gs, q => by
    have ih := secsOf_docGroups sp gs (q + 1 + (g.text sp).length)
    simp only [docGroups, docSecOut, secsOf, List.flatMap_cons] at ih ⊢
    rw [ih]
    simp [gpGroup, gpSecOut, lnItems_secs]

theorem secsOf_doc (sp : Str) (g : Gp) (gs : List Gp) :
    secsOf (docGroups sp 0 (g :: gs)) = gpSecOut sp 0 g ++ docSecOut sp (g.text sp).length gs := by
  have := secsOf_docGroups sp gs (g.text sp).length
  simp only [docGroups, secsOf, List.flatMap_cons, Nat.zero_add] at this ⊢
  rw [this]
  simp [gpGroup, gpSecOut, lnItems_secs]

theorem trsOf_docGroups (sp : Str) : ∀ (gs : List Gp) (q : Nat), trsOf (docGroups sp q gs) = trOut sp q gs
  | [], _ => rfl
  | g :: gs, q => by
    have ih := trsOf_docGroups sp gs (q + (g.text sp).length + 1)
    simp only [docGroups, trOut, trsOf, List.map_cons] at ih ⊢
    rw [ih]
    simp [gpGroup]

/-- strictly increasing positions inside `[lo, hi)` -/
def Within (lo hi : Nat) (ms : List (Nat × Marker)) : Prop :=
  ms.Pairwise (fun a b => a.1 < b.1) ∧ ∀ e ∈ ms, lo ≤ e.1 ∧ e.1 < hi

theorem Within.nil (lo hi : Nat) : Within lo hi [] := ⟨List.Pairwise.nil, fun _ h => by cases h⟩

theorem Within.append {lo mid mid' hi : Nat} {a b : List (Nat × Marker)} (ha : Within lo mid a) (hb : Within mid' hi b)
    (hm : mid ≤ mid') (hlo : lo ≤ mid') (hhi : mid ≤ hi) : Within lo hi (a ++ b) := by
  refine ⟨List.pairwise_append.2 ⟨ha.1, hb.1, ?_⟩, ?_⟩
  · intro x hx y hy
    have := ha.2 x hx
    have := hb.2 y hy
    omega
  · intro e he
    rcases List.mem_append.1 he with h | h
    · have := ha.2 e h; omega
    · have := hb.2 e h; omega

theorem Within.cons {lo hi : Nat} {x : Nat × Marker} {b : List (Nat × Marker)} (hx1 : lo ≤ x.1) (hb : Within (x.1 + 1) hi b)
    (hx2 : x.1 < hi) : Within lo hi (x :: b) := by
  have : Within lo (x.1 + 1) [x] := ⟨List.pairwise_singleton _ _, fun e he => by simp at he; subst he; omega⟩
  exact Within.append this hb (Nat.le_refl _) (by omega) (by omega)

theorem lnItems_within : ∀ (ls : List Ln) (q : Nat), Within (q + 1) (q + (lnsSeg ls).length) (imk (lnItems q ls))
  | [], q => Within.nil _ _
  | l :: ls, q => by
    have ih := lnItems_within ls (q + 1 + l.text.length)
    have e : imk (lnItems q (l :: ls)) = (q + 1, Marker.secStart) :: (q + 1 + 7, Marker.secEnd) :: imk (lnItems (q + 1 + l.text.length) ls) := by
      simp [lnItems, imk]
    have hlen : (lnsSeg (l :: ls)).length = 1 + l.text.length + (lnsSeg ls).length := by simp [lnsSeg]; omega
    have ht := l.text_length
    rw [e, hlen]
    refine Within.cons (Nat.le_refl _) (Within.cons (by simp) ?_ (by simp; omega)) (by simp; omega)
    simp only []
    have hh : q + 1 + l.text.length + (lnsSeg ls).length = q + (1 + l.text.length + (lnsSeg ls).length) := by omega
    rw [← hh]
    exact Within.append (Within.nil (q + 1 + 7 + 1) (q + 1 + 7 + 1)) ih (by omega) (by omega) (by omega)

theorem Hd.text_length (h : Hd) : h.text.length = 5 + h.t.length + h.r.length := canonText_length _ _ _ _

theorem gpGroup_within (sp : Str) (hsp : SepOk sp) (g : Gp) (q : Nat) :
    Within q (q + (g.text sp).length) (groupMarkers (gpGroup sp q g)) := by
  have hh := g.h.text_length
  have hl := g.l.text_length
  have hspl : 0 < sp.length := List.length_pos_iff.mpr hsp.ne
  have hlen : (g.text sp).length = g.h.text.length + sp.length + g.l.text.length + (lnsSeg g.ls).length := by
    simp [Gp.text, Gp.body]; omega
  have ih := lnItems_within g.ls (q + g.h.text.length + sp.length + g.l.text.length)
  have e : groupMarkers (gpGroup sp q g) = (q, Marker.trStart) :: (q + g.h.text.length, Marker.trEnd) ::
      (q + g.h.text.length + sp.length, Marker.secStart) :: (q + g.h.text.length + sp.length + 7, Marker.secEnd) ::
        imk (lnItems (q + g.h.text.length + sp.length + g.l.text.length) g.ls) := by
    simp [groupMarkers_eq, gpGroup, imk]
  rw [e, hlen]
  refine Within.cons (Nat.le_refl _) (Within.cons (by simp; omega) (Within.cons (by simp; omega) (Within.cons (by simp) ?_
    (by simp; omega)) (by simp; omega)) (by simp; omega)) (by simp; omega)
  simp only []
  have hh2 : q + g.h.text.length + sp.length + g.l.text.length + (lnsSeg g.ls).length =
      q + (g.h.text.length + sp.length + g.l.text.length + (lnsSeg g.ls).length) := by omega
  rw [← hh2]
  exact Within.append (Within.nil (q + g.h.text.length + sp.length + 7 + 1) (q + g.h.text.length + sp.length + 7 + 1)) ih
    (by omega) (by omega) (by omega)

theorem docGroups_within (sp : Str) (hsp : SepOk sp) : ∀ (gs : List Gp) (g : Gp) (q : Nat),
    Within q (q + (g.text sp ++ gpsSeg sp gs).length) ((docGroups sp q (g :: gs)).flatMap groupMarkers)
  | [], g, q => by
    have := gpGroup_within sp hsp g q
    simpa [docGroups, gpsSeg] using this
  | g' :: gs, g, q => by
    have h1 := gpGroup_within sp hsp g q
    have ih := docGroups_within sp hsp gs g' (q + (g.text sp).length + 1)
    have e : (docGroups sp q (g :: g' :: gs)).flatMap groupMarkers =
        groupMarkers (gpGroup sp q g) ++ (docGroups sp (q + (g.text sp).length + 1) (g' :: gs)).flatMap groupMarkers := by
      simp [docGroups]
    have hlen : (g.text sp ++ gpsSeg sp (g' :: gs)).length = (g.text sp).length + 1 + (g'.text sp ++ gpsSeg sp gs).length := by
      simp [gpsSeg]; omega
    rw [e, hlen]
    have hh : q + (g.text sp).length + 1 + (g'.text sp ++ gpsSeg sp gs).length =
        q + ((g.text sp).length + 1 + (g'.text sp ++ gpsSeg sp gs).length) := by omega
    rw [← hh]
    exact Within.append h1 ih (by omega) (by omega) (by omega)

theorem docText_cons (sp : Str) (g : Gp) (gs : List Gp) : docText sp (g :: gs) = g.text sp ++ gpsSeg sp gs := by
  simp [docText, gpsSeg]

/-- the markers of the canonical text -/
theorem populateMarkers_doc (sp : Str) (hsp : SepOk sp) (g : Gp) (gs : List Gp) :
    populateMarkers (docText sp (g :: gs)).length (gpSecOut sp 0 g ++ docSecOut sp (g.text sp).length gs) (trOut sp 0 (g :: gs)) =
      trsDescMarkers (docGroups sp 0 (g :: gs)) (docText sp (g :: gs)).length := by
  rw [← secsOf_doc, ← trsOf_docGroups]
  have hw := docGroups_within sp hsp gs g 0
  rw [docText_cons]
  simp only [Nat.zero_add] at hw
  refine populateMarkers_groups (gpGroup sp 0 g) (docGroups sp (0 + (g.text sp).length + 1) gs) _ rfl ?_
  refine List.pairwise_append.2 ⟨hw.1, List.pairwise_singleton _ _, ?_⟩
  intro a ha b hb
  simp only [List.mem_singleton] at hb
  subst hb
  exact (hw.2 a ha).2


/-! ## Part 5 — the layout is deduced -/

theorem scan_skipSeg {r : Rx} {seg tail : Str} (hsk : Skips r seg tail) : ∀ (prev : Option Char) (pos : Nat),
    scan r prev (seg ++ tail) pos false = scan r (lastOr prev seg) tail (pos + seg.length) false := by
  induction seg with
  | nil => intro prev pos; rfl
  | cons c t ih =>
    intro prev pos
    have h0 : matchHere r ⟨prev, c :: (t ++ tail), pos, []⟩ false = none :=
      matchHere_of_failsOn (hsk [] t c rfl) prev pos false
    have hsk' : Skips r t tail := fun a b d hs => by
      have := hsk (c :: a) b d (by rw [hs]; rfl)
      exact this
    rw [List.cons_append, LT.scan_cons, h0]
    simp only []
    rw [ih hsk' (some c) (pos + 1)]
    have e : pos + 1 + t.length = pos + (c :: t).length := by simp only [List.length_cons]; omega
    rw [e]; rfl

theorem nonum_decomp : Gen.no_num_sec_regex = .grp 1 secA := rfl

theorem nonum_skips_plain (seg tail : Str) (h : ∀ c ∈ seg, hdrPlain.mem c = true) : Skips Gen.no_num_sec_regex seg tail := by
  refine Skips.of_first (by decide +kernel) _ _ ?_
  intro c hc cs hcs
  have : Gen.no_num_sec_regex.firstSets.all (fun cs => hdrPlain.disj cs) = true := by decide +kernel
  simp only [List.all_eq_true] at this
  exact CharSet.disj_mem (this cs hcs) (h c hc)

/-- the first section word of the canonical text stands right after the first header and its separator -/
theorem nonum_search_doc (sp : Str) (hsp : SepOk sp) (g : Gp) (hok : g.Ok) (rest : Str) :
    ∃ sm, Gen.no_num_sec_regex.search (g.text sp ++ rest) = some sm ∧ sm.start = g.h.text.length + sp.length := by
  have hsk : Skips Gen.no_num_sec_regex (g.h.text ++ sp) (g.l.text ++ (lnsSeg g.ls ++ rest)) :=
    skips_header nonum_skips_plain (fun r => FailsOn.congr nonum_decomp (FailsOn.grp 1 (failsOn_secA_S r))) g.h hok.h sp hsp.chars _
  have htxt : g.text sp ++ rest = (g.h.text ++ sp) ++ (g.l.text ++ (lnsSeg g.ls ++ rest)) := by simp [Gp.text, Gp.body]
  rw [search_default, htxt, scan_skipSeg hsk none 0]
  have hL := (eats_secWord 1 (g.l.n1 :: g.l.n2 :: ':' :: ' ' :: g.l.d ++ (lnsSeg g.ls ++ rest))) (lastOr none (g.h.text ++ sp))
    (0 + (g.h.text ++ sp).length) []
  rw [← nonum_decomp] at hL
  have hm := matchHere_of_leads false hL (Or.inl rfl)
  have e : g.l.text ++ (lnsSeg g.ls ++ rest) = 'S' :: (['e', 'c'] ++ ' ' :: (g.l.n1 :: g.l.n2 :: ':' :: ' ' :: g.l.d ++ (lnsSeg g.ls ++ rest))) := by
    simp [Ln.text, Ln.ref]
  rw [e, LT.scan_cons]
  have e2 : (['S', 'e', 'c'] ++ ' ' :: (g.l.n1 :: g.l.n2 :: ':' :: ' ' :: g.l.d ++ (lnsSeg g.ls ++ rest))) =
      'S' :: (['e', 'c'] ++ ' ' :: (g.l.n1 :: g.l.n2 :: ':' :: ' ' :: g.l.d ++ (lnsSeg g.ls ++ rest))) := rfl
  rw [e2] at hm
  rw [hm]
  exact ⟨_, rfl, by simp⟩

/-- the canonical text ends in an inert block -/
theorem doc_ends_inert (sp : Str) : ∀ (gs : List Gp) (g : Gp), g.Ok → (∀ x ∈ gs, x.Ok) →
    ∃ (X d : Str), Inert d ∧ g.text sp ++ gpsSeg sp gs = X ++ d
  | [], g, hok, _ => by
    obtain ⟨I, _, h1, _⟩ := group_split sp g 0
    refine ⟨I ++ g.last.ref ++ [' '], g.last.d, (g.last_ok hok).d, ?_⟩
    simp [gpsSeg, h1, Ln.text]
  | g' :: gs, g, _, hgs => by
    obtain ⟨X, d, hd, h⟩ := doc_ends_inert sp gs g' (hgs g' (by simp)) (fun x hx => hgs x (by simp [hx]))
    refine ⟨g.text sp ++ '\n' :: X, d, hd, ?_⟩
    simp only [gpsSeg]
    rw [h]; simp

theorem pyStrip_doc (sp : Str) (g : Gp) (gs : List Gp) (hok : g.Ok) (hgs : ∀ x ∈ gs, x.Ok) :
    pyStrip (docText sp (g :: gs)) = docText sp (g :: gs) := by
  rw [docText_cons]
  obtain ⟨X, d, hd, h⟩ := doc_ends_inert sp gs g hok hgs
  obtain ⟨c, hc, hns⟩ := hd.last_solid
  have hhead : g.text sp ++ gpsSeg sp gs = 'T' :: ((g.h.t ++ g.h.ns :: '-' :: 'R' :: (g.h.r ++ [g.h.ew])) ++ (g.body sp ++ gpsSeg sp gs)) := by
    simp [Gp.text, Hd.text, canonText]
  have hlast : (g.text sp ++ gpsSeg sp gs).getLast? = some c := by
    rw [h, List.getLast?_append, hc]; rfl
  unfold pyStrip stripBy
  have h1 : lstripBy pyIsSpace (g.text sp ++ gpsSeg sp gs) = g.text sp ++ gpsSeg sp gs := by
    rw [hhead]; exact Pretty.lstripBy_head_false _ _ _ Pretty.pyIsSpace_T
  rw [h1]
  exact Pretty.rstripBy_getLast_false _ _ c hlast hns

theorem pyStrip_sep (sp : Str) (hsp : SepOk sp) : pyStrip sp = [] := by
  have hall : ∀ c ∈ sp, pyIsSpace c = true := by
    intro c hc
    rcases hsp.chars c hc with rfl | rfl
    · exact pyIsSpace_blank
    · exact pyIsSpace_nl'
  unfold pyStrip stripBy
  have : lstripBy pyIsSpace sp = [] := by
    have := Pretty.lstripBy_append_all pyIsSpace sp [] hall
    simpa [lstripBy] using this
  rw [this]; rfl

/-- **the layout of the canonical text is deduced**: Twp/Rge first, then the sections with their blocks -/
theorem deduceLayout_doc (sp : Str) (hsp : SepOk sp) (g : Gp) (gs : List Gp) (hok : g.Ok) (hgs : ∀ x ∈ gs, x.Ok) :
    deduceLayout (docText sp (g :: gs)) = TRS_DESC := by
  obtain ⟨sm, hsm, hstart⟩ := nonum_search_doc sp hsp g hok (gpsSeg sp gs)
  have htr : twprge.rx.search (docText sp (g :: gs)) = some (twMk g.h 0) := by
    have htxt : docText sp (g :: gs) = g.text sp ++ (gpsSeg sp gs ++ []) := by simp [docText, gpsSeg]
    rw [htxt]
    have := (hdrTiles Gen.twprge_regex twprge_gapSkips sp [] hsp (Or.inl rfl) false twMk
      (fun h l rest prev pos hok hl hprev => twprge_tok sp hsp h l rest prev pos hok hl hprev) gs g 0 none hok hgs isWord_none).search_eq
    exact this.trans rfl
  have hstop : (twMk g.h 0).stop = g.h.text.length := by simp [twMk, Spelling.matchAt, g.h.sp_text]
  have hslice : slice (docText sp (g :: gs)) g.h.text.length (g.h.text.length + sp.length) = sp := by
    rw [docText_cons]
    exact slice_at _ g.h.text sp (g.l.text ++ lnsSeg g.ls ++ gpsSeg sp gs) _ _ (by simp [Gp.text, Gp.body]) rfl rfl
  rw [← docText_cons] at hsm
  have h0 : (twMk g.h 0).start = 0 := rfl
  unfold deduceLayout
  rw [pyStrip_doc sp g gs hok hgs]
  simp only []
  rw [hsm, htr]
  simp only [hstart, hstop, hslice, pyStrip_sep sp hsp, h0]
  simp


/-! ## Part 6 — the walk over the canonical text stages exactly its lines -/

/-- the component a line stands for -/
def lnComp (tr : Str) (l : Ln) : Component := { desc := l.d, sec := some [[l.n1, l.n2]], twprge := some tr }

/-- the components of the canonical text: one per line, in reading order -/
def docComps (gs : List Gp) : List Component := gs.flatMap (fun g => g.lines.map (lnComp g.h.key))

/-- the section references of a line at `r` and the further lines -/
def itemsAt (r : Nat) (l : Ln) (ls : List Ln) : List SecItem := ⟨r, r + 7, [[l.n1, l.n2]]⟩ :: lnItems (r + l.text.length) ls

theorem lnItems_cons (q : Nat) (l : Ln) (ls : List Ln) : lnItems q (l :: ls) = itemsAt (q + 1) l ls := rfl

theorem cleanup_line (d sepK : Str) (hd : Inert d) (hsep : ∀ c ∈ sepK, c ∈ cleanupStripSet) :
    cleanupDesc (' ' :: d ++ sepK) = d := by
  have := C01_cleanup_block (S " ") d sepK (by decide) hsep hd.clean
  simpa [S] using this

/-- the blocks after the section references of consecutive lines clean up to the descriptions; `nextM` = the marker after
    the last line, which stands `sepK` (strippable characters) after the last block -/
theorem lines_comps (txt tr : Str) (tl : List (Nat × Marker)) (nextM : Nat × Marker) (sepK : Str)
    (htl : tl.head? = some nextM) (hsep : ∀ c ∈ sepK, c ∈ cleanupStripSet) :
    ∀ (ls : List Ln) (l : Ln) (pre rest' : Str), txt = pre ++ (l.text ++ (lnsSeg ls ++ (sepK ++ rest'))) →
      nextM.1 = pre.length + l.text.length + (lnsSeg ls).length + sepK.length → l.Ok → (∀ x ∈ ls, x.Ok) →
      ((itemBlocks (itemsAt pre.length l ls) tl).zip ((itemsAt pre.length l ls).map fun s => (tr, s.secs))).map (mkComp txt)
        = (l :: ls).map (lnComp tr)
  | [], l, pre, rest', htxt, hm, hl, _ => by
    have hslice : slice txt (pre.length + 7) nextM.1 = ' ' :: l.d ++ sepK := by
      refine slice_at txt (pre ++ l.ref) (' ' :: l.d ++ sepK) rest' _ _ ?_ (by simp [Ln.ref]) ?_
      · rw [htxt]; simp [Ln.text, lnsSeg]
      · rw [hm]; simp [Ln.text, Ln.ref, lnsSeg]; omega
    simp only [itemsAt, lnItems, itemBlocks, imk, List.flatMap_nil, List.nil_append, htl, Option.getD_some, List.map_cons,
      List.map_nil, List.zip_cons_cons, List.zip_nil_right, mkComp, hslice, cleanup_line l.d sepK hl.d hsep, lnComp]
  | z :: ls, l, pre, rest', htxt, hm, hl, hls => by
    have hz := hls z (by simp)
    have ih := lines_comps txt tr tl nextM sepK htl hsep ls z (pre ++ l.text ++ ['\n']) rest'
      (by rw [htxt]; simp [lnsSeg]) (by rw [hm]; simp [lnsSeg]; omega) hz (fun x hx => hls x (by simp [hx]))
    have hlen : (pre ++ l.text ++ ['\n']).length = pre.length + l.text.length + 1 := by simp; omega
    rw [hlen] at ih
    have hslice : slice txt (pre.length + 7) (pre.length + l.text.length + 1) = ' ' :: l.d ++ ['\n'] := by
      refine slice_at txt (pre ++ l.ref) (' ' :: l.d ++ ['\n']) (z.text ++ (lnsSeg ls ++ (sepK ++ rest'))) _ _ ?_ (by simp [Ln.ref]) ?_
      · rw [htxt]; simp [Ln.text, lnsSeg]
      · simp [Ln.text, Ln.ref]; omega
    have e : itemsAt pre.length l (z :: ls) = ⟨pre.length, pre.length + 7, [[l.n1, l.n2]]⟩ :: itemsAt (pre.length + l.text.length + 1) z ls := rfl
    rw [e]
    have hnext : ((imk (itemsAt (pre.length + l.text.length + 1) z ls) ++ tl).head?.getD (pre.length + 7, Marker.secEnd)).1 =
        pre.length + l.text.length + 1 := rfl
    have hhead : mkComp txt ((pre.length + 7, pre.length + l.text.length + 1), (tr, [[l.n1, l.n2]])) = lnComp tr l := by
      simp only [mkComp, hslice, cleanup_line l.d ['\n'] hl.d (by decide), lnComp]
    rw [show itemBlocks (⟨pre.length, pre.length + 7, [[l.n1, l.n2]]⟩ :: itemsAt (pre.length + l.text.length + 1) z ls) tl =
      (pre.length + 7, ((imk (itemsAt (pre.length + l.text.length + 1) z ls) ++ tl).head?.getD (pre.length + 7, Marker.secEnd)).1) ::
        itemBlocks (itemsAt (pre.length + l.text.length + 1) z ls) tl from rfl, hnext]
    rw [List.map_cons, List.zip_cons_cons, List.map_cons, ih, hhead]
    rfl

theorem itemsAt_length (r : Nat) (l : Ln) (ls : List Ln) : (itemsAt r l ls).length = ls.length + 1 := by
  have : ∀ (ls : List Ln) q, (lnItems q ls).length = ls.length := by
    intro ls
    induction ls with
    | nil => intro q; rfl
    | cons a t ih => intro q; simp [lnItems, ih]
  simp [itemsAt, this]

theorem gpGroup_items (sp : Str) (q : Nat) (g : Gp) :
    (gpGroup sp q g).items = itemsAt (q + g.h.text.length + sp.length) g.l g.ls := rfl
theorem gpGroup_tr (sp : Str) (q : Nat) (g : Gp) : (gpGroup sp q g).tr = g.h.key := rfl

/-- the blocks of all groups -/
theorem groups_comps (sp : Str) (hsp : SepOk sp) (txt : Str) (len : Nat) : ∀ (gs : List Gp) (g : Gp) (pre : Str),
    txt = pre ++ (g.text sp ++ gpsSeg sp gs) → len = txt.length → g.Ok → (∀ x ∈ gs, x.Ok) →
    ((groupBlocks (docGroups sp pre.length (g :: gs)) [(len, Marker.textEnd)]).zip
      ((docGroups sp pre.length (g :: gs)).flatMap fun G => G.items.map fun s => (G.tr, s.secs))).map (mkComp txt)
      = docComps (g :: gs)
  | [], g, pre, htxt, hlen, hok, _ => by
    have hl := hok.ls g.l (by simp [Gp.lines])
    have hls : ∀ x ∈ g.ls, x.Ok := fun x hx => hok.ls x (by simp [Gp.lines, hx])
    have h1 := lines_comps txt g.h.key [(len, Marker.textEnd)] (len, Marker.textEnd) [] rfl (fun _ h => by cases h) g.ls g.l
      (pre ++ g.h.text ++ sp) [] (by rw [htxt]; simp [Gp.text, Gp.body, gpsSeg])
      (by rw [hlen, htxt]; simp [Gp.text, Gp.body, gpsSeg]; omega) hl hls
    have hlen2 : (pre ++ g.h.text ++ sp).length = pre.length + g.h.text.length + sp.length := by simp; omega
    rw [hlen2] at h1
    simp only [docGroups, groupBlocks, List.flatMap_cons, List.flatMap_nil, List.nil_append, List.append_nil, gpGroup_items,
      gpGroup_tr, docComps, Gp.lines]
    exact h1
  | g' :: gs, g, pre, htxt, hlen, hok, hgs => by
    have hl := hok.ls g.l (by simp [Gp.lines])
    have hls : ∀ x ∈ g.ls, x.Ok := fun x hx => hok.ls x (by simp [Gp.lines, hx])
    have ih := groups_comps sp hsp txt len gs g' (pre ++ g.text sp ++ ['\n'])
      (by rw [htxt]; simp [gpsSeg]) hlen (hgs g' (by simp)) (fun x hx => hgs x (by simp [hx]))
    have hlen3 : (pre ++ g.text sp ++ ['\n']).length = pre.length + (g.text sp).length + 1 := by simp; omega
    rw [hlen3] at ih
    have h1 := lines_comps txt g.h.key
      ((docGroups sp (pre.length + (g.text sp).length + 1) (g' :: gs)).flatMap groupMarkers ++ [(len, Marker.textEnd)])
      (pre.length + (g.text sp).length + 1, Marker.trStart) ['\n'] (by simp [docGroups, groupMarkers_eq, gpGroup])
      (by decide) g.ls g.l (pre ++ g.h.text ++ sp) (g'.text sp ++ gpsSeg sp gs)
      (by rw [htxt]; simp [Gp.text, Gp.body, gpsSeg])
      (by simp [Gp.text, Gp.body]; omega) hl hls
    have hlen2 : (pre ++ g.h.text ++ sp).length = pre.length + g.h.text.length + sp.length := by simp; omega
    rw [hlen2] at h1
    have e : docGroups sp pre.length (g :: g' :: gs) = gpGroup sp pre.length g :: docGroups sp (pre.length + (g.text sp).length + 1) (g' :: gs) := rfl
    rw [e]
    simp only [groupBlocks, List.flatMap_cons, gpGroup_items, gpGroup_tr]
    rw [List.zip_append (by simp [itemBlocks_length]), List.map_append, h1]
    have : docComps (g :: g' :: gs) = (g.l :: g.ls).map (lnComp g.h.key) ++ docComps (g' :: gs) := by
      simp [docComps, Gp.lines]
    rw [this]
    congr 1

/-- what `_parse_meaningful` is expected to stage for the arrangement of the canonical text: its lines -/
theorem expectedComps_doc (sp : Str) (hsp : SepOk sp) (g : Gp) (gs : List Gp) (hok : g.Ok) (hgs : ∀ x ∈ gs, x.Ok) :
    expectedComps (docText sp (g :: gs)) (docGroups sp 0 (g :: gs)) (docText sp (g :: gs)).length = docComps (g :: gs) := by
  rw [expectedComps_eq]
  exact groups_comps sp hsp _ _ gs g [] (by rw [docText_cons]; rfl) rfl hok hgs


/-! ### the unused blocks of the walk: the separators between a header and its first line -/

/-- the unused block a (marker, next marker) pair contributes in the TRS_desc layout -/
def unusedBlockOf (txt : Str) (p : (Nat × Marker) × (Nat × Marker)) : Option Str :=
  match p.1.2 with
  | .trEnd | .textStart => some (slice txt p.1.1 p.2.1)
  | _ => none

theorem flagUnusedTR_unused (c : Chunk) : (flagUnusedTR c).unused = c.unused := by
  unfold flagUnusedTR
  split
  · split <;> rfl
  · rfl

theorem flagUnusedSec_unused (c : Chunk) : (flagUnusedSec c).unused = c.unused := by
  unfold flagUnusedSec
  split
  · split <;> rfl
  · rfl

theorem getNextTwprge_unused (c : Chunk) : (getNextTwprge c).unused = c.unused := by
  unfold getNextTwprge
  simp only []
  split <;> simp [flagUnusedTR_unused]

theorem getNextSec_unused (c : Chunk) : (getNextSec c).unused = c.unused := by
  unfold getNextSec
  simp only []
  split <;> simp [flagUnusedSec_unused]

theorem stepP_unused (txt : Str) (c : Chunk) (p : (Nat × Marker) × (Nat × Marker)) :
    (stepP txt TRS_DESC c p).unused.map (·.2) = c.unused.map (·.2) ++ (unusedBlockOf txt p).toList := by
  obtain ⟨⟨pos, ty⟩, n⟩ := p
  cases ty
  · simp [stepP, sDescLays_TRS_DESC, unusedBlockOf]
  · simp [stepP_textEnd, unusedBlockOf]
  · simp [stepP_secStart, getNextSec_unused, unusedBlockOf]
  · simp [stepP_secEnd, unusedBlockOf]
  · simp [stepP_trStart, getNextTwprge_unused, unusedBlockOf]
  · simp [stepP_trEnd, unusedBlockOf]

theorem fold_unused (txt : Str) : ∀ (ps : List ((Nat × Marker) × (Nat × Marker))) (c : Chunk),
    (ps.foldl (stepP txt TRS_DESC) c).unused.map (·.2) = c.unused.map (·.2) ++ ps.filterMap (unusedBlockOf txt)
  | [], c => by simp
  | p :: ps, c => by
    rw [List.foldl_cons, fold_unused txt ps, stepP_unused, List.filterMap_cons]
    cases unusedBlockOf txt p <;> simp

theorem pairs_sec_prefix (txt : Str) : ∀ (L R : List (Nat × Marker)), (∀ x ∈ L, x.2 = Marker.secStart ∨ x.2 = Marker.secEnd) →
    (pairs (L ++ R)).filterMap (unusedBlockOf txt) = (pairs R).filterMap (unusedBlockOf txt)
  | [], R, _ => rfl
  | x :: L, R, h => by
    have ih := pairs_sec_prefix txt L R (fun y hy => h y (by simp [hy]))
    simp only [List.cons_append, pairs, List.filterMap_cons, ih]
    have : unusedBlockOf txt (x, (L ++ R).head?.getD x) = none := by
      rcases h x (by simp) with h' | h' <;> simp [unusedBlockOf, h']
    rw [this]

theorem imk_types (its : List SecItem) : ∀ x ∈ imk its, x.2 = Marker.secStart ∨ x.2 = Marker.secEnd := by
  intro x hx
  simp only [imk, List.mem_flatMap, List.mem_cons, List.not_mem_nil, or_false] at hx
  obtain ⟨s, _, rfl | rfl⟩ := hx
  · exact Or.inl rfl
  · exact Or.inr rfl

/-- the unused blocks of the walk over the canonical text are the separators -/
theorem doc_unused_blocks (sp : Str) (hsp : SepOk sp) (txt : Str) (len : Nat) : ∀ (gs : List Gp) (g : Gp) (pre : Str),
    txt = pre ++ (g.text sp ++ gpsSeg sp gs) →
    (pairs ((docGroups sp pre.length (g :: gs)).flatMap groupMarkers ++ [(len, Marker.textEnd)])).filterMap (unusedBlockOf txt)
      = (g :: gs).map (fun _ => sp)
  | gs, g, pre, htxt => by
    have e : (docGroups sp pre.length (g :: gs)).flatMap groupMarkers ++ [(len, Marker.textEnd)] =
        (pre.length, Marker.trStart) :: (pre.length + g.h.text.length, Marker.trEnd) ::
          (imk (gpGroup sp pre.length g).items ++
            ((docGroups sp (pre.length + (g.text sp).length + 1) gs).flatMap groupMarkers ++ [(len, Marker.textEnd)])) := by
      simp [docGroups, groupMarkers_eq, gpGroup]
    have hslice : slice txt (pre.length + g.h.text.length) (pre.length + g.h.text.length + sp.length) = sp := by
      refine slice_at txt (pre ++ g.h.text) sp (g.l.text ++ lnsSeg g.ls ++ gpsSeg sp gs) _ _ ?_ (by simp) (by simp)
      rw [htxt]; simp [Gp.text, Gp.body]
    have hhead : (imk (gpGroup sp pre.length g).items ++
        ((docGroups sp (pre.length + (g.text sp).length + 1) gs).flatMap groupMarkers ++ [(len, Marker.textEnd)])).head?.getD
          (pre.length + g.h.text.length, Marker.trEnd) = (pre.length + g.h.text.length + sp.length, Marker.secStart) := by
      simp [gpGroup, imk]
    rw [e]
    simp only [pairs, List.filterMap_cons, List.head?_cons, Option.getD_some, hhead]
    have h1 : unusedBlockOf txt ((pre.length, Marker.trStart), (pre.length + g.h.text.length, Marker.trEnd)) = none := rfl
    have h2 : unusedBlockOf txt ((pre.length + g.h.text.length, Marker.trEnd), (pre.length + g.h.text.length + sp.length, Marker.secStart)) = some sp := by
      simp [unusedBlockOf, hslice]
    rw [h1, h2, pairs_sec_prefix txt _ _ (imk_types _)]
    simp only [List.map_cons]
    congr 1
    cases gs with
    | nil => simp [docGroups, pairs, unusedBlockOf]
    | cons g' gs' =>
      have := doc_unused_blocks sp hsp txt len gs' g' (pre ++ g.text sp ++ ['\n']) (by rw [htxt]; simp [gpsSeg])
      have hl : (pre ++ g.text sp ++ ['\n']).length = pre.length + (g.text sp).length + 1 := by simp; omega
      rw [hl] at this
      exact this
  termination_by gs => gs.length


/-! ### `parse_chunk` on the canonical text -/

theorem docGroups_items_ne (sp : Str) : ∀ (gs : List Gp) (q : Nat), ∀ G ∈ docGroups sp q gs, G.items ≠ []
  | [], _, G, h => by cases h
  | g :: gs, q, G, h => by
    simp only [docGroups, List.mem_cons] at h
    rcases h with rfl | h
    · simp [gpGroup]
    · exact docGroups_items_ne sp gs _ G h

theorem trOut_tr (sp : Str) (q : Nat) (gs : List Gp) : (trOut sp q gs).map (·.twprge) = (docGroups sp q gs).map (·.tr) := by
  rw [← trsOf_docGroups]
  simp [trsOf, List.map_map, Function.comp_def]

theorem secsOf_secs (groups : List TRGroup) : (secsOf groups).map (·.secs) = groups.flatMap (fun G => G.items.map (·.secs)) := by
  simp [secsOf, List.map_flatMap, List.map_map, Function.comp_def]

theorem parseMeaningful_pairs (c0 : Chunk) (txt : Str) (ms : List (Nat × Marker)) :
    parseMeaningful c0 txt TRS_DESC ms = (pairs ms).foldl (stepP txt TRS_DESC) c0 := by
  unfold parseMeaningful
  simp only [sDescLays_TRS_DESC, trFirstLays_TRS_DESC, Bool.not_true, Bool.false_eq_true, if_false]
  exact walk_eq_pairs _ _ _ _

/-- **C01 (canonical text, chunk level, no lexical premise)**: `parse_chunk` on the canonical text of any groups of lines
    with inert blocks — whatever separator of blanks / line breaks stands between a header and its first line — deduces (or
    accepts) the Twp/Rge – section – description layout, raises neither an error nor a warning flag, and (without
    `sec_within`) stages exactly one component per line, in reading order, with the Twp/Rge of its group, its section and its
    block verbatim; the only unused text are the separators -/
theorem C01_chunk_canonical (mc : MC) (pc : ParserCfg) (hns : isLegal Gen.LEGAL_NS mc.ns = true) (hew : isLegal Gen.LEGAL_EW mc.ew = true)
    (sp : Str) (hsp : SepOk sp) (g : Gp) (gs : List Gp) (hok : g.Ok) (hgs : ∀ x ∈ gs, x.Ok) (parentLayout : Str)
    (hml : pc.mandateLayout = true → parentLayout = TRS_DESC) :
    ∃ c, parseChunkCore mc pc (docText sp (g :: gs)) false parentLayout = .ok c ∧ c.fl.e = [] ∧ c.fl.w = [] ∧
      (pc.secWithin = false → c.comps = docComps (g :: gs) ∧ c.unused.map (·.2) = (g :: gs).map (fun _ => sp)) := by
  have hlay : chunkLayoutOf pc (docText sp (g :: gs)) false parentLayout = TRS_DESC := by
    unfold chunkLayoutOf
    simp only [Bool.false_eq_true, if_false]
    split
    · rename_i h; exact hml h
    · exact deduceLayout_doc sp hsp g gs hok hgs
  have htr := twprgeFinder_doc mc hns hew sp hsp g gs hok hgs
  have hsec := secFinder_doc sp hsp g gs hok hgs pc.requireColon
  have hmark := populateMarkers_doc sp hsp g gs
  have hne := docGroups_items_ne sp (g :: gs) 0
  have hg : docGroups sp 0 (g :: gs) ≠ [] := by simp [docGroups]
  have hcopy : (TRS_DESC == COPY_ALL) = false := by decide
  have htrl := trOut_tr sp 0 (g :: gs)
  have hsecl : (gpSecOut sp 0 g ++ docSecOut sp (g.text sp).length gs).map (·.secs) =
      (docGroups sp 0 (g :: gs)).flatMap (fun G => G.items.map (·.secs)) := by
    rw [← secsOf_doc]; exact secsOf_secs _
  obtain ⟨h1, h2, h3, h4, h5, h6⟩ := Pretty.walk_trs_desc_flags (docText sp (g :: gs)) (docGroups sp 0 (g :: gs))
    (docText sp (g :: gs)).length { w := [], wl := [] } hne hg
  obtain ⟨f1, f2⟩ := finishChunk_clean pc _ h2 h3 (Or.inl h5) (Or.inl h6)
  refine ⟨finishChunk pc (parseMeaningful
      { fl := { w := [], wl := [] },
        secList := (docGroups sp 0 (g :: gs)).flatMap (fun G => G.items.map (·.secs)),
        trList := (docGroups sp 0 (g :: gs)).map (·.tr) } (docText sp (g :: gs)) TRS_DESC
      (trsDescMarkers (docGroups sp 0 (g :: gs)) (docText sp (g :: gs)).length)), ?_, ?_, ?_, ?_⟩
  · unfold parseChunkCore
    simp only [hlay, htr, hsec, hcopy, hmark, htrl, hsecl]
    rfl
  · rw [f1, h4]
  · rw [f1, h4]
  · intro hsw
    refine ⟨((f2 hsw).1).trans (h1.trans (expectedComps_doc sp hsp g gs hok hgs)), ?_⟩
    rw [(f2 hsw).2, parseMeaningful_pairs, fold_unused]
    have := doc_unused_blocks sp hsp (docText sp (g :: gs)) (docText sp (g :: gs)).length gs g [] (by rw [docText_cons]; rfl)
    simp only [List.length_nil] at this
    rw [trsDescMarkers, this]
    rfl


/-! ## Part 7 — the rendering of `pretty_desc` is the canonical text -/

section Bridge
open TrsRound TrsRecog

def upChar (c : Char) : Char := if c = 'n' then 'N' else if c = 's' then 'S' else if c = 'e' then 'E' else 'W'

theorem hdr_std (a b : Nat) (ns ew : Char) (ha : a < 1000) (hb : b < 1000) (hns : ns = 'n' ∨ ns = 's') (hew : ew = 'e' ∨ ew = 'w') :
    hdrOf ((natToStr a ++ [ns]) ++ (natToStr b ++ [ew])) = canonText (natToStr a) (upChar ns) (natToStr b) (upChar ew) := by
  let c : TrsParts := ⟨natToStr a ++ [ns], some (natToStr a, ns), natToStr b ++ [ew], some (natToStr b, ew), none⟩
  have hfn : pyLowerChar ns = [ns] := by rcases hns with rfl | rfl <;> decide
  have hfe : pyLowerChar ew = [ew] := by rcases hew with rfl | rfl <;> decide
  have hmn : ns ∈ nsDirs := by rcases hns with rfl | rfl <;> decide
  have hme : ew ∈ ewDirs := by rcases hew with rfl | rfl <;> decide
  have hgood : c.Good := by
    refine ⟨?_, ?_, ?_, ?_, ?_⟩
    · intro d ch h
      simp only [c, Option.some.injEq, Prod.mk.injEq] at h
      obtain ⟨rfl, rfl⟩ := h
      exact ⟨rfl, natToStr_ne_nil a, natToStr_length_le a 3 (by omega) (by omega),
        fun x hx => isDigit_of_ascii (natToStr_ascii a x hx), hmn⟩
    · intro h; simp [c] at h
    · intro d ch h
      simp only [c, Option.some.injEq, Prod.mk.injEq] at h
      obtain ⟨rfl, rfl⟩ := h
      exact ⟨rfl, natToStr_ne_nil b, natToStr_length_le b 3 (by omega) (by omega),
        fun x hx => isDigit_of_ascii (natToStr_ascii b x hx), hme⟩
    · intro h; simp [c] at h
    · intro s' h; simp [c] at h
  have hne : (natToStr a ++ [ns]) ++ (natToStr b ++ [ew]) ≠ [] := by simp
  have hlow : pyLower ((natToStr a ++ [ns]) ++ (natToStr b ++ [ew])) = (natToStr a ++ [ns]) ++ (natToStr b ++ [ew]) := by
    apply pyLower_fixed
    intro u hu
    simp only [List.mem_append, List.mem_cons, List.not_mem_nil, or_false] at hu
    rcases hu with (hu | rfl) | (hu | rfl)
    · exact ascii_fixed (natToStr_ascii a u hu)
    · exact hfn
    · exact ascii_fixed (natToStr_ascii b u hu)
    · exact hfe
  have hd : TRS.trsToDict (some ((natToStr a ++ [ns]) ++ (natToStr b ++ [ew]))) = dictOf c := by
    apply trsToDict_eq_dictOf
    rw [normIn_some hne, hlow]
    have : (natToStr a ++ [ns]) ++ (natToStr b ++ [ew]) = c.text := by simp [c, TrsParts.text]
    rw [this]
    exact recognise_complete c hgood
  unfold hdrOf
  rw [hd]
  simp only [TRS.prettyTwprge, dictOf, c, Option.bind_some, Option.map_some, pyInt_natToStr, Option.getD_some]
  have hi : ∀ n : Nat, intToStr (n : Int) = natToStr n := fun n => intToStr_ofNat n
  rw [hi, hi]
  rcases hns with rfl | rfl <;> rcases hew with rfl | rfl <;> simp [canonText, upChar, pyUpper, pyUpperChar, S]


end Bridge

theorem lowerChar_upChar (c : Char) (h : c = 'n' ∨ c = 's' ∨ c = 'e' ∨ c = 'w') : lowerChar (upChar c) = c := by
  rcases h with rfl | rfl | rfl | rfl <;> decide

/-- the header of a standard Twp/Rge -/
def stdHd (a b : Nat) (ns ew : Char) : Hd := ⟨natToStr a, upChar ns, natToStr b, upChar ew⟩

theorem stdHd_ok (a b : Nat) (ns ew : Char) (ha : a < 1000) (hb : b < 1000) (hns : ns = 'n' ∨ ns = 's') (hew : ew = 'e' ∨ ew = 'w') :
    (stdHd a b ns ew).Ok where
  t_dig := fun c hc => (isDigit_iff_mem c).2 (natToStr_isDigits a c hc)
  t_len := natToStr_len_lt_1000 a ha
  ns := by rcases hns with rfl | rfl <;> simp [stdHd, upChar]
  r_dig := fun c hc => (isDigit_iff_mem c).2 (natToStr_isDigits b c hc)
  r_len := natToStr_len_lt_1000 b hb
  ew := by rcases hew with rfl | rfl <;> simp [stdHd, upChar]

theorem stdHd_key (a b : Nat) (ns ew : Char) (ha : a < 1000) (hb : b < 1000) (hns : ns = 'n' ∨ ns = 's') (hew : ew = 'e' ∨ ew = 'w') :
    (stdHd a b ns ew).key = (natToStr a ++ [ns]) ++ (natToStr b ++ [ew]) := by
  have hok := stdHd_ok a b ns ew ha hb hns hew
  unfold Hd.key Hd.sp
  rw [canonSp_canon _ _ _ _ hok.ns hok.ew]
  have hs := C08_canonical_short (natToStr a) (natToStr b) (upChar ns) (upChar ew) hok.t_dig hok.ns hok.r_dig hok.ew
  simp only [stdHd, strip_natToStr]
  rw [hs]
  rw [lowerChar_upChar ns (by rcases hns with h | h <;> simp [h]), lowerChar_upChar ew (by rcases hew with h | h <;> simp [h])]
  simp

/-- a tract of the kind `pretty_desc` renders canonically: Twp/Rge numbers below 1000 with their direction letters, a
    two-digit section, an inert description -/
structure StdTract (t : TractObj) : Prop where
  trs : ∃ (a b : Nat) (ns ew : Char), a < 1000 ∧ b < 1000 ∧ (ns = 'n' ∨ ns = 's') ∧ (ew = 'e' ∨ ew = 'w') ∧
    t.trs.twp = natToStr a ++ [ns] ∧ t.trs.rge = natToStr b ++ [ew]
  sec : ∃ n1 n2 : Char, asciiDigits.mem n1 = true ∧ asciiDigits.mem n2 = true ∧ t.trs.sec = some [n1, n2]
  desc : Inert t.desc

theorem inert_no_nl {d : Str} (h : Inert d) : '\n' ∉ d := by
  intro hc
  have := h.safe '\n' hc
  exact absurd this (by decide +kernel)

/-- the lines of consecutive standard tracts -/
theorem tracts_lines (jst : Str) : ∀ (tl : List TractObj), (∀ t ∈ tl, StdTract t) →
    ∃ ls : List Ln, (∀ l ∈ ls, l.Ok) ∧ tl.flatMap (prettyTract (S "Sec ") jst) = lnsSeg ls ∧
      (∀ q, prettyItemsAt (S "Sec ") jst (q + 1) tl = lnItems q ls) ∧
      (∀ tr, tl.map (fun t => ({ desc := t.desc, sec := some [secStr t], twprge := some tr } : Component)) = ls.map (lnComp tr)) ∧
      tl.length = ls.length
  | [], _ => ⟨[], fun _ h => (by cases h), rfl, fun _ => rfl, fun _ => rfl, rfl⟩
  | t :: tl, h => by
    obtain ⟨ls, h1, h2, h3, h4, h5⟩ := tracts_lines jst tl (fun x hx => h x (by simp [hx]))
    obtain ⟨n1, n2, hn1, hn2, hsec⟩ := (h t (by simp)).sec
    have hd := (h t (by simp)).desc
    have hss : secStr t = [n1, n2] := by simp [secStr, hsec]
    have hdj : descJ jst t = t.desc := Pretty.pyReplace_nl_of_not_mem _ _ (inert_no_nl hd)
    have hpt : prettyTract (S "Sec ") jst t = '\n' :: (⟨n1, n2, t.desc⟩ : Ln).text := by
      rw [Pretty.prettyTract_eq, hss, hdj]; simp [S, Ln.text, Ln.ref]
    refine ⟨⟨n1, n2, t.desc⟩ :: ls, ?_, ?_, ?_, ?_, by simp [h5]⟩
    · intro l hl
      rcases List.mem_cons.1 hl with rfl | hl
      · exact ⟨hn1, hn2, hd⟩
      · exact h1 l hl
    · simp only [List.flatMap_cons, hpt, h2, lnsSeg]; simp
    · intro q
      have := h3 (q + 1 + (⟨n1, n2, t.desc⟩ : Ln).text.length)
      simp only [prettyItemsAt, lnItems, hpt, hss]
      rw [show q + 1 + ('\n' :: (⟨n1, n2, t.desc⟩ : Ln).text).length = q + 1 + (⟨n1, n2, t.desc⟩ : Ln).text.length + 1 by simp; omega, this]
      simp [S]
    · intro tr
      simp only [List.map_cons, h4 tr, hss, lnComp]

/-- what we need to know about the groups `pretty_desc` forms -/
def StdGroups (kgs : List (Str × List TractObj)) : Prop :=
  ∀ kg ∈ kgs, kg.2 ≠ [] ∧ ∀ t ∈ kg.2, StdTract t ∧ t.trs.twp ++ t.trs.rge = kg.1

theorem groups_gps (jst : Str) : ∀ (kgs : List (Str × List TractObj)), StdGroups kgs →
    ∃ gs : List Gp, (∀ g ∈ gs, g.Ok) ∧ kgs.flatMap (groupRaw (S "Sec ") jst) = gpsSeg ['\n'] gs ∧
      (∀ q, prettyGroupsAt (S "Sec ") jst q kgs = docGroups ['\n'] q gs) ∧
      kgs.flatMap (fun kg => kg.2.map (fun t => ({ desc := t.desc, sec := some [secStr t], twprge := some kg.1 } : Component)))
        = docComps gs ∧ kgs.length = gs.length ∧
      (∀ g ∈ gs, ∃ (a b : Nat) (ns ew : Char), a < 1000 ∧ b < 1000 ∧ (ns = 'n' ∨ ns = 's') ∧ (ew = 'e' ∨ ew = 'w') ∧ g.h = stdHd a b ns ew)
  | [], _ => ⟨[], fun _ h => (by cases h), rfl, fun _ => rfl, rfl, rfl, fun _ h => (by cases h)⟩
  | kg :: kgs, h => by
    obtain ⟨gs, g1, g2, g3, g4, g5, g6⟩ := groups_gps jst kgs (fun x hx => h x (by simp [hx]))
    obtain ⟨hne, hall⟩ := h kg (by simp)
    obtain ⟨t, tl, hkg⟩ : ∃ t tl, kg.2 = t :: tl := by
      cases hk : kg.2 with
      | nil => exact absurd hk hne
      | cons a b => exact ⟨a, b, rfl⟩
    obtain ⟨ls, l1, l2, l3, l4, l5⟩ := tracts_lines jst kg.2 (fun x hx => (hall x hx).1)
    obtain ⟨l, ls', rfl⟩ : ∃ l ls', ls = l :: ls' := by
      cases ls with
      | nil => rw [hkg] at l5; simp at l5
      | cons a b => exact ⟨a, b, rfl⟩
    obtain ⟨a, b, ns, ew, ha, hb, hns, hew, htw, hrg⟩ := (hall t (by rw [hkg]; simp)).1.trs
    have hkey : kg.1 = (natToStr a ++ [ns]) ++ (natToStr b ++ [ew]) := by
      rw [← (hall t (by rw [hkg]; simp)).2, htw, hrg]
    let g : Gp := ⟨stdHd a b ns ew, l, ls'⟩
    have hgok : g.Ok := ⟨stdHd_ok a b ns ew ha hb hns hew, fun x hx => l1 x (by simpa [Gp.lines, g] using hx)⟩
    have hhdr : hdrOf kg.1 = g.h.text := by rw [hkey]; exact hdr_std a b ns ew ha hb hns hew
    have hk2 : g.h.key = kg.1 := by rw [hkey]; exact stdHd_key a b ns ew ha hb hns hew
    have hraw : groupRaw (S "Sec ") jst kg = '\n' :: g.text ['\n'] := by
      simp only [groupRaw, l2, hhdr, Gp.text, Gp.body, lnsSeg, g]
      simp [S]
    refine ⟨g :: gs, ?_, ?_, ?_, ?_, by simp [g5], ?_⟩
    rotate_left 4
    · intro x hx
      rcases List.mem_cons.1 hx with rfl | hx
      · exact ⟨a, b, ns, ew, ha, hb, hns, hew, rfl⟩
      · exact g6 x hx
    · intro x hx
      rcases List.mem_cons.1 hx with rfl | hx
      · exact hgok
      · exact g1 x hx
    · simp only [List.flatMap_cons, hraw, g2, gpsSeg]; simp
    · intro q
      have hlen : (groupRaw (S "Sec ") jst kg).length = (g.text ['\n']).length + 1 := by rw [hraw]; simp
      have e1 : prettyGroupsAt (S "Sec ") jst q (kg :: kgs) =
          ⟨q, q + (hdrOf kg.1).length, kg.1, prettyItemsAt (S "Sec ") jst (q + 1 + (hdrOf kg.1).length) kg.2⟩ ::
            prettyGroupsAt (S "Sec ") jst (q + (groupRaw (S "Sec ") jst kg).length) kgs := rfl
      have e2 : docGroups ['\n'] q (g :: gs) = gpGroup ['\n'] q g :: docGroups ['\n'] (q + (g.text ['\n']).length + 1) gs := rfl
      have e3 : gpGroup ['\n'] q g = ⟨q, q + g.h.text.length, g.h.key, lnItems (q + g.h.text.length) (l :: ls')⟩ := rfl
      have := l3 (q + (hdrOf kg.1).length)
      rw [e1, e2, e3, hlen, g3, show q + 1 + (hdrOf kg.1).length = q + (hdrOf kg.1).length + 1 by omega, this, hhdr, hk2,
        Nat.add_assoc q]
    · simp only [List.flatMap_cons, g4, l4 kg.1]
      simp [docComps, Gp.lines, hk2, g]


theorem pyStrip_nl_cons (X : Str) : pyStrip ('\n' :: X) = pyStrip X := by
  unfold pyStrip stripBy
  simp [lstripBy, pyIsSpace_nl']

/-- **the rendering of `pretty_desc` is the canonical text**: for standard tracts (numbers below 1000, two-digit sections,
    inert descriptions) `pretty_desc()` with the default section word is `docText "\n"` of the groups it forms, the positions
    `prettyGroups` are the arrangement `docGroups`, and the tracts' components are the lines -/
theorem pretty_is_doc (ts : List TractObj) (justify : Option Str) (hts : ts ≠ []) (hstd : ∀ t ∈ ts, StdTract t) :
    ∃ (g : Gp) (gs : List Gp), g.Ok ∧ (∀ x ∈ gs, x.Ok) ∧
      prettyDesc ts (S "Sec ") justify = some (docText ['\n'] (g :: gs)) ∧
      prettyGroups ts (S "Sec ") justify = docGroups ['\n'] 0 (g :: gs) ∧ tractComps ts = docComps (g :: gs) ∧
      (∀ x ∈ g :: gs, ∃ (a b : Nat) (ns ew : Char), a < 1000 ∧ b < 1000 ∧ (ns = 'n' ∨ ns = 's') ∧ (ew = 'e' ∨ ew = 'w') ∧
        x.h = stdHd a b ns ew) := by
  have hfl := C01_groupConsecutive_flatten ts
  have hkeys := (C01_groupConsecutive_keys ts).1
  have hsg : StdGroups (groupConsecutive ts) := by
    intro kg hkg
    refine ⟨C01_groupConsecutive_nonempty ts kg hkg, fun t ht => ⟨hstd t ?_, hkeys kg hkg t ht⟩⟩
    rw [← hfl]
    exact List.mem_flatMap.2 ⟨kg, hkg, ht⟩
  obtain ⟨gs0, g1, g2, g3, g4, g5, g6⟩ := groups_gps (defaultJst (S "Sec ") justify) (groupConsecutive ts) hsg
  obtain ⟨g, gs, rfl⟩ : ∃ g gs, gs0 = g :: gs := by
    cases gs0 with
    | nil =>
      have := Pretty.groupConsecutive_ne_nil ts hts
      simp at g5
      exact absurd g5 this
    | cons a b => exact ⟨a, b, rfl⟩
  have hok := g1 g (by simp)
  have hgs : ∀ x ∈ gs, x.Ok := fun x hx => g1 x (by simp [hx])
  refine ⟨g, gs, hok, hgs, ?_, ?_, ?_, g6⟩
  · rw [C01_pretty_structure' ts (S "Sec ") justify hts]
    unfold prettyRaw
    rw [g2]
    have : gpsSeg ['\n'] (g :: gs) = '\n' :: docText ['\n'] (g :: gs) := by simp [gpsSeg, docText]
    rw [this, pyStrip_nl_cons, pyStrip_doc ['\n'] g gs hok hgs]
  · unfold prettyGroups
    exact g3 0
  · rw [← g4]
    unfold tractComps
    have : (groupConsecutive ts).flatMap (fun kg => kg.2.map (fun t =>
          ({ desc := t.desc, sec := some [secStr t], twprge := some kg.1 } : Component)))
        = (groupConsecutive ts).flatMap (fun kg => kg.2.map (fun t =>
          ({ desc := t.desc, sec := some [secStr t], twprge := some (t.trs.twp ++ t.trs.rge) } : Component))) := by
      apply Pretty.flatMap_congr_mem'
      intro kg hkg
      apply List.map_congr_left
      intro t ht
      rw [hkeys kg hkg t ht]
    rw [this, ← List.map_flatMap, hfl]

/-- **C01 — the lexical premise `FindersReport` holds for the canonical rendering** (what `Lemmas/Pretty.lean` left open):
    for every list of standard tracts with inert descriptions, on the text `pretty_desc()` returns (default section word, any
    `justify_linebreaks`), the two finders of `parse_chunk` report exactly the arrangement `prettyGroups ts` — for every
    `MasterConfig` with legal default directions and every `require_colon` mode — with no flag, and the layout deduced from the
    text is TRS_desc.

    NB the task statement also asked for "`plssPreprocess` leaves `txt` unchanged": that is FALSE (see
    `C01_preprocess_changes_rendering`): preprocessing replaces the line break after every header by a blank. -/
theorem C01_finders_report_canonical (mc : MC) (pc : ParserCfg) (hns : isLegal Gen.LEGAL_NS mc.ns = true)
    (hew : isLegal Gen.LEGAL_EW mc.ew = true) (ts : List TractObj) (justify : Option Str) (txt : Str)
    (hstd : ∀ t ∈ ts, StdTract t) (htxt : prettyDesc ts (S "Sec ") justify = some txt) :
    ∃ (trs : List TRMatch) (secs : List SecMatch),
      FindersReport mc pc txt (prettyGroups ts (S "Sec ") justify) trs {} secs {} ∧
      deduceLayout txt = TRS_DESC ∧ (∀ parent, pc.mandateLayout = false → chunkLayoutOf pc txt false parent = TRS_DESC) := by
  have hts : ts ≠ [] := by
    intro e; subst e; simp [prettyDesc] at htxt
  obtain ⟨g, gs, hok, hgs, h1, h2, _, _⟩ := pretty_is_doc ts justify hts hstd
  rw [h1] at htxt
  have htxt := Option.some.inj htxt
  subst htxt
  have hsp := sepOk_nl
  refine ⟨trOut ['\n'] 0 (g :: gs), gpSecOut ['\n'] 0 g ++ docSecOut ['\n'] (g.text ['\n']).length gs, ?_,
    deduceLayout_doc _ hsp g gs hok hgs, ?_⟩
  · rw [h2]
    exact
      { tr := twprgeFinder_doc mc hns hew _ hsp g gs hok hgs
        sec := secFinder_doc _ hsp g gs hok hgs pc.requireColon
        markers := populateMarkers_doc _ hsp g gs
        trList := trOut_tr _ 0 (g :: gs)
        secList := by rw [← secsOf_doc]; exact secsOf_secs _ }
  · intro parent hm
    unfold chunkLayoutOf
    simp [hm, deduceLayout_doc _ hsp g gs hok hgs]

/-- **C01 — round trip of `pretty_desc` through `parse_chunk`, on TEXT, with no lexical premise**: for standard tracts with
    inert descriptions, `parse_chunk` on the rendered text (layout deduced, or TRS_desc mandated) stages exactly the tracts'
    (Twp/Rge, [section], description), in order, and raises neither an error nor a warning flag -/
theorem C01_pretty_roundtrip_text (mc : MC) (pc : ParserCfg) (hns : isLegal Gen.LEGAL_NS mc.ns = true)
    (hew : isLegal Gen.LEGAL_EW mc.ew = true) (ts : List TractObj) (justify : Option Str) (txt parentLayout : Str)
    (hstd : ∀ t ∈ ts, StdTract t) (htxt : prettyDesc ts (S "Sec ") justify = some txt)
    (hml : pc.mandateLayout = true → parentLayout = TRS_DESC) (hsw : pc.secWithin = false) :
    ∃ c, parseChunkCore mc pc txt false parentLayout = .ok c ∧ c.fl.e = [] ∧ c.fl.w = [] ∧ c.comps = tractComps ts := by
  have hts : ts ≠ [] := by
    intro e; subst e; simp [prettyDesc] at htxt
  obtain ⟨g, gs, hok, hgs, h1, _, h3, _⟩ := pretty_is_doc ts justify hts hstd
  rw [h1] at htxt
  have htxt := Option.some.inj htxt
  subst htxt
  obtain ⟨c, c1, c2, c3, c4⟩ := C01_chunk_canonical mc pc hns hew ['\n'] sepOk_nl g gs hok hgs parentLayout hml
  exact ⟨c, c1, c2, c3, by rw [(c4 hsw).1, h3]⟩


/-! ## Part 8 — preprocessing -/

/-- the captures of `pp_twprge_no_nswe` on a canonical header at `pos` -/
def nsweCaps (t r : Str) (pos : Nat) : Caps :=
  [(7, pos + 4 + t.length + r.length, pos + 5 + t.length + r.length), (6, pos + 4 + t.length, pos + 4 + t.length + r.length),
   (5, pos + 4 + t.length, pos + 4 + t.length), (4, pos + 1 + t.length, pos + 2 + t.length), (3, pos + 1, pos + 1 + t.length), (1, pos, pos)]

theorem no_nswe_at (t r : Str) (nc ec : Char) (ctx : Str) (h : CanonHyp t r nc ec ctx) (prev : Option Char) (pos : Nat)
    (hprev : isWord Gen.cs_14d6aa8a prev = false) :
    matchHere Gen.pp_twprge_no_nswe ⟨prev, canonText t nc r ec ++ ctx, pos, []⟩ false =
      some ⟨pos, pos + (5 + t.length + r.length), nsweCaps t r pos⟩ := by
  obtain ⟨A, hdec, hAn, hAf⟩ := no_nswe_decomp
  have c1 := Eats.chr Gen.cs_93b62202 'T' (t ++ (nc :: '-' :: 'R' :: (r ++ (ec :: ctx)))) (by decide)
  have c2 : Eats (.rep (.grp 2 A) 0 (some 1)) [] (t ++ (nc :: '-' :: 'R' :: (r ++ (ec :: ctx)))) _ :=
    Eats.opt_none (FailsOn.grp 2 (failsOn_digit_first A hAn hAf _ (h.t_dig.head_digit h.tne _)))
  have c3 := eats_dead Gen.cs_6862e64c [] (t ++ (nc :: '-' :: 'R' :: (r ++ (ec :: ctx)))) (fun _ hc => by cases hc)
    (h.t_dig.head_stop h.tne _ (by decide +kernel))
  have c4 := eats_digits 3 t (nc :: '-' :: 'R' :: (r ++ (ec :: ctx))) h.t_dig h.t_len.1 h.t_len.2 (StopAt.cons h.nc_facts.1)
  have c5 := eats_dead Gen.cs_6862e64c [] (nc :: '-' :: 'R' :: (r ++ (ec :: ctx))) (fun _ hc => by cases hc) (StopAt.cons h.nc_facts.2.1)
  have c6 := Eats.opt_some (eats_dir 4 Gen.cs_38ea6e46 Gen.cs_69521832 Gen.cs_faf00333 Gen.cs_0c0f8a50 5 [nc] ('-' :: 'R' :: (r ++ (ec :: ctx))) (by decide +kernel)
    (h.ns_dir _))
  have c7 := Eats.run Gen.cs_f3df237d 1 none ['-'] ('R' :: (r ++ (ec :: ctx))) (by decide) (Or.inr (StopAt.cons (by decide))) (by simp)
    (fun _ hh => by cases hh)
  have c8 := Eats.chr Gen.cs_ecd0074f 'R' (r ++ (ec :: ctx)) (by decide)
  have c9 := Eats.opt_some (Eats.grp 5 (Eats.run Gen.cs_25709165 0 (some 6) [] (r ++ (ec :: ctx)) (fun _ hc => by cases hc)
    (Or.inr (h.r_dig.head_stop h.rne _ (by decide +kernel))) (Nat.zero_le _) (fun _ hh => by cases hh; simp)))
  have c10 := eats_dead Gen.cs_6862e64c [] (r ++ (ec :: ctx)) (fun _ hc => by cases hc) (h.r_dig.head_stop h.rne _ (by decide +kernel))
  have c11 := eats_digits 6 r (ec :: ctx) h.r_dig h.r_len.1 h.r_len.2 (StopAt.cons h.ec_facts.1)
  have c12 := eats_dead Gen.cs_6862e64c [] (ec :: ctx) (fun _ hc => by cases hc) (StopAt.cons h.ec_facts.2.1)
  have c13 := Eats.opt_some (eats_dir 7 Gen.cs_ae876102 Gen.cs_ae3e3c7d Gen.cs_5f20f5ed Gen.cs_68819f8e 3 [ec] ctx (by decide +kernel) h.ew_dir)
  have h12 := Eats.seq' c12 c13 (by simp)
  have h11 := Eats.seq' c11 h12 (by simp)
  have h10 := Eats.seq' c10 h11 (by simp)
  have h9 := Eats.seq' c9 h10 (by simp)
  have h8 := Eats.seq' c8 h9 (by simp)
  have h7 := Eats.seq' c7 h8 (by simp)
  have h6 := Eats.seq' c6 h7 (by simp)
  have h5 := Eats.seq' c5 h6 (by simp)
  have h4 := Eats.seq' c4 h5 (by simp)
  have h3 := Eats.seq' c3 h4 (by simp)
  have h2 := Eats.seq' c2 h3 (by simp)
  have h1 := Eats.seq' c1 h2 (by simp)
  have e : canonText t nc r ec ++ ctx = ['T'] ++ ([] ++ ([] ++ (t ++ ([] ++ ([nc] ++ (['-'] ++ (['R'] ++ ([] ++ ([] ++ (r ++ ([] ++ [ec]))))))))))) ++ ctx := by
    simp [canonText]
  have hG : Leads twG1 ⟨prev, canonText t nc r ec ++ ctx, pos, []⟩ ⟨prev, canonText t nc r ec ++ ctx, pos, [(1, pos, pos)]⟩ :=
    leads_twG1 prev 'T' (t ++ nc :: '-' :: 'R' :: (r ++ [ec]) ++ ctx) pos [] hprev (by decide +kernel)
  have hB := h1 prev pos [(1, pos, pos)]
  rw [← e] at hB
  have hL := Leads.seq hG hB
  have hL' := Leads.congr_rx hdec hL
  rw [matchHere_of_leads false hL' (Or.inl rfl)]
  simp only [nsweCaps, List.length_append, List.length_cons, List.length_nil, Option.some.injEq, Match.mk.injEq, true_and,
    List.cons.injEq, Prod.mk.injEq, and_true]
  omega

/-- the captures of `pp_twprge_no_nsr` on a canonical header at `pos` -/
def nsrCaps (t r : Str) (pos : Nat) : Caps :=
  [(7, pos + 4 + t.length + r.length, pos + 5 + t.length + r.length), (6, pos + 4 + t.length, pos + 4 + t.length + r.length),
   (5, pos + 3 + t.length, pos + 4 + t.length), (4, pos + 1 + t.length, pos + 2 + t.length), (3, pos + 1, pos + 1 + t.length), (1, pos, pos)]

theorem no_nsr_at (t r : Str) (nc ec : Char) (ctx : Str) (h : CanonHyp t r nc ec ctx) (prev : Option Char) (pos : Nat)
    (hprev : isWord Gen.cs_14d6aa8a prev = false) :
    matchHere Gen.pp_twprge_no_nsr ⟨prev, canonText t nc r ec ++ ctx, pos, []⟩ false =
      some ⟨pos, pos + (5 + t.length + r.length), nsrCaps t r pos⟩ := by
  obtain ⟨A, hdec, hAn, hAf⟩ := no_nsr_decomp
  have c1 := Eats.chr Gen.cs_93b62202 'T' (t ++ (nc :: '-' :: 'R' :: (r ++ (ec :: ctx)))) (by decide)
  have c2 := (Eats.opt_none (FailsOn.grp 2 (failsOn_digit_first A hAn hAf _ (h.t_dig.head_digit h.tne _))) : Eats (.rep (.grp 2 A) 0 (some 1)) [] (t ++ (nc :: '-' :: 'R' :: (r ++ (ec :: ctx)))) _)
  have c3 := eats_dead Gen.cs_6862e64c [] (t ++ (nc :: '-' :: 'R' :: (r ++ (ec :: ctx)))) (fun _ hc => by cases hc) (h.t_dig.head_stop h.tne _ (by decide +kernel))
  have c4 := eats_digits 3 t (nc :: '-' :: 'R' :: (r ++ (ec :: ctx))) h.t_dig h.t_len.1 h.t_len.2 (StopAt.cons h.nc_facts.1)
  have c5 := eats_dead Gen.cs_6862e64c [] (nc :: '-' :: 'R' :: (r ++ (ec :: ctx))) (fun _ hc => by cases hc) (StopAt.cons h.nc_facts.2.1)
  have c6 := Eats.opt_some (eats_dir 4 Gen.cs_38ea6e46 Gen.cs_69521832 Gen.cs_faf00333 Gen.cs_0c0f8a50 5 [nc] ('-' :: 'R' :: (r ++ (ec :: ctx))) (by decide +kernel) (h.ns_dir _))
  have c7 := Eats.run Gen.cs_f3df237d 1 none ['-'] ('R' :: (r ++ (ec :: ctx))) (by decide) (Or.inr (StopAt.cons (by decide))) (by simp) (fun _ hh => by cases hh)
  have c8 := Eats.opt_some (Eats.grp 5 (eats_word (c0 := Gen.cs_ecd0074f) (cs := Gen.cs_25709165) (hi := 6) (w := ['R']) (tail := (r ++ (ec :: ctx))) (IsWordOf.single 'R' (by decide)) (Or.inr (h.r_dig.head_stop h.rne _ (by decide +kernel)))))
  have c9 := eats_dead Gen.cs_6862e64c [] (r ++ (ec :: ctx)) (fun _ hc => by cases hc) (h.r_dig.head_stop h.rne _ (by decide +kernel))
  have c10 := eats_digits 6 r (ec :: ctx) h.r_dig h.r_len.1 h.r_len.2 (StopAt.cons h.ec_facts.1)
  have c11 := eats_dead Gen.cs_6862e64c [] (ec :: ctx) (fun _ hc => by cases hc) (StopAt.cons h.ec_facts.2.1)
  have c12 := eats_dir 7 Gen.cs_ae876102 Gen.cs_ae3e3c7d Gen.cs_5f20f5ed Gen.cs_68819f8e 3 [ec] ctx (by decide +kernel) h.ew_dir
  have h11 := Eats.seq' c11 c12 (by simp)
  have h10 := Eats.seq' c10 h11 (by simp)
  have h9 := Eats.seq' c9 h10 (by simp)
  have h8 := Eats.seq' c8 h9 (by simp)
  have h7 := Eats.seq' c7 h8 (by simp)
  have h6 := Eats.seq' c6 h7 (by simp)
  have h5 := Eats.seq' c5 h6 (by simp)
  have h4 := Eats.seq' c4 h5 (by simp)
  have h3 := Eats.seq' c3 h4 (by simp)
  have h2 := Eats.seq' c2 h3 (by simp)
  have h1 := Eats.seq' c1 h2 (by simp)
  have e : canonText t nc r ec ++ ctx = (['T'] ++ ([] ++ ([] ++ (t ++ ([] ++ ([nc] ++ (['-'] ++ (['R'] ++ ([] ++ (r ++ ([] ++ ([ec])))))))))))) ++ ctx := by
    simp [canonText]
  have hG : Leads twG1 ⟨prev, canonText t nc r ec ++ ctx, pos, []⟩ ⟨prev, canonText t nc r ec ++ ctx, pos, [(1, pos, pos)]⟩ :=
    leads_twG1 prev 'T' (t ++ nc :: '-' :: 'R' :: (r ++ [ec]) ++ ctx) pos [] hprev (by decide +kernel)
  have hB := h1 prev pos [(1, pos, pos)]
  rw [← e] at hB
  have hL := Leads.seq hG hB
  have hL' := Leads.congr_rx hdec hL
  rw [matchHere_of_leads false hL' (Or.inl rfl)]
  simp only [nsrCaps, List.length_append, List.length_cons, List.length_nil, Option.some.injEq, Match.mk.injEq, true_and,
    List.cons.injEq, Prod.mk.injEq, and_true]
  omega

/-- the captures of `pp_twprge_no_ewt` on a canonical header at `pos` -/
def ewtCaps (t r : Str) (pos : Nat) : Caps :=
  [(7, pos + 4 + t.length + r.length, pos + 5 + t.length + r.length), (6, pos + 4 + t.length, pos + 4 + t.length + r.length),
   (5, pos + 4 + t.length, pos + 4 + t.length), (4, pos + 1 + t.length, pos + 2 + t.length), (3, pos + 1, pos + 1 + t.length),
   (2, pos, pos + 1), (1, pos, pos)]

theorem no_ewt_at (t r : Str) (nc ec : Char) (ctx : Str) (h : CanonHyp t r nc ec ctx) (prev : Option Char) (pos : Nat)
    (hprev : isWord Gen.cs_14d6aa8a prev = false) :
    matchHere Gen.pp_twprge_no_ewt ⟨prev, canonText t nc r ec ++ ctx, pos, []⟩ false =
      some ⟨pos, pos + (5 + t.length + r.length), ewtCaps t r pos⟩ := by
  obtain ⟨B, hdec⟩ := no_ewt_decomp
  have c1 := Eats.opt_some (Eats.grp 2 (Eats.seq (Eats.chr Gen.cs_93b62202 'T' ([] ++ (t ++ (nc :: '-' :: 'R' :: (r ++ (ec :: ctx))))) (by decide)) (Eats.alt_l (b := B) (Eats.eps (t ++ (nc :: '-' :: 'R' :: (r ++ (ec :: ctx))))))))
  have c2 := eats_dead Gen.cs_6862e64c [] (t ++ (nc :: '-' :: 'R' :: (r ++ (ec :: ctx)))) (fun _ hc => by cases hc) (h.t_dig.head_stop h.tne _ (by decide +kernel))
  have c3 := eats_digits 3 t (nc :: '-' :: 'R' :: (r ++ (ec :: ctx))) h.t_dig h.t_len.1 h.t_len.2 (StopAt.cons h.nc_facts.1)
  have c4 := eats_dead Gen.cs_6862e64c [] (nc :: '-' :: 'R' :: (r ++ (ec :: ctx))) (fun _ hc => by cases hc) (StopAt.cons h.nc_facts.2.1)
  have c5 := eats_dir 4 Gen.cs_38ea6e46 Gen.cs_69521832 Gen.cs_faf00333 Gen.cs_0c0f8a50 5 [nc] ('-' :: 'R' :: (r ++ (ec :: ctx))) (by decide +kernel) (h.ns_dir _)
  have c6 := Eats.run Gen.cs_f3df237d 1 none ['-'] ('R' :: (r ++ (ec :: ctx))) (by decide) (Or.inr (StopAt.cons (by decide))) (by simp) (fun _ hh => by cases hh)
  have c7 := Eats.chr Gen.cs_ecd0074f 'R' (r ++ (ec :: ctx)) (by decide)
  have c8 := Eats.opt_some (Eats.grp 5 (Eats.run Gen.cs_25709165 0 (some 6) [] (r ++ (ec :: ctx)) (fun _ hc => by cases hc) (Or.inr (h.r_dig.head_stop h.rne _ (by decide +kernel))) (Nat.zero_le _) (fun _ hh => by cases hh; simp)))
  have c9 := eats_dead Gen.cs_6862e64c [] (r ++ (ec :: ctx)) (fun _ hc => by cases hc) (h.r_dig.head_stop h.rne _ (by decide +kernel))
  have c10 := eats_digits 6 r (ec :: ctx) h.r_dig h.r_len.1 h.r_len.2 (StopAt.cons h.ec_facts.1)
  have c11 := eats_dead Gen.cs_6862e64c [] (ec :: ctx) (fun _ hc => by cases hc) (StopAt.cons h.ec_facts.2.1)
  have c12 := Eats.opt_some (eats_dir 7 Gen.cs_ae876102 Gen.cs_ae3e3c7d Gen.cs_5f20f5ed Gen.cs_68819f8e 3 [ec] ctx (by decide +kernel) h.ew_dir)
  have h11 := Eats.seq' c11 c12 (by simp)
  have h10 := Eats.seq' c10 h11 (by simp)
  have h9 := Eats.seq' c9 h10 (by simp)
  have h8 := Eats.seq' c8 h9 (by simp)
  have h7 := Eats.seq' c7 h8 (by simp)
  have h6 := Eats.seq' c6 h7 (by simp)
  have h5 := Eats.seq' c5 h6 (by simp)
  have h4 := Eats.seq' c4 h5 (by simp)
  have h3 := Eats.seq' c3 h4 (by simp)
  have h2 := Eats.seq' c2 h3 (by simp)
  have h1 := Eats.seq' c1 h2 (by simp)
  have e : canonText t nc r ec ++ ctx = ((['T'] ++ []) ++ ([] ++ (t ++ ([] ++ ([nc] ++ (['-'] ++ (['R'] ++ ([] ++ ([] ++ (r ++ ([] ++ ([ec])))))))))))) ++ ctx := by
    simp [canonText]
  have hG : Leads twG1 ⟨prev, canonText t nc r ec ++ ctx, pos, []⟩ ⟨prev, canonText t nc r ec ++ ctx, pos, [(1, pos, pos)]⟩ :=
    leads_twG1 prev 'T' (t ++ nc :: '-' :: 'R' :: (r ++ [ec]) ++ ctx) pos [] hprev (by decide +kernel)
  have hB := h1 prev pos [(1, pos, pos)]
  rw [← e] at hB
  have hL := Leads.seq hG hB
  have hL' := Leads.congr_rx hdec hL
  rw [matchHere_of_leads false hL' (Or.inl rfl)]
  simp only [ewtCaps, List.length_append, List.length_cons, List.length_nil, Option.some.injEq, Match.mk.injEq, true_and,
    List.cons.injEq, Prod.mk.injEq, and_true]
  omega


theorem ewt_gapSkips : GapSkips Gen.pp_twprge_no_ewt := by
  have hn : Gen.pp_twprge_no_ewt.nullable = false := by decide +kernel
  have hmD : Gen.pp_twprge_no_ewt.mustHitP (fun cs => cs.sub digitD) = true := by decide +kernel
  have hmN : Gen.pp_twprge_no_ewt.mustHitP (fun cs => cs.sub nsD) = true := by decide +kernel
  have hec : Gen.pp_twprge_no_ewt.adjB 'e' 'c' = false := by decide +kernel
  have hnT : Gen.pp_twprge_no_ewt.adjB '\n' 'T' = false := by decide +kernel
  have hcolon : Gen.pp_twprge_no_ewt.follow.all (fun p => !p.2.mem ':') = true := by decide +kernel
  have hfirst : Gen.pp_twprge_no_ewt.firstSets.all (fun cs => "Sec:".toList.all (fun c => !cs.mem c)) = true := by decide +kernel
  have hnd : ∀ c, c = ' ' ∨ c = '\n' ∨ c = 'S' ∨ c = 'e' → ∀ cs : CharSet, cs.sub digitD = true → cs.mem c = false := by
    intro c hc
    rcases hc with rfl | rfl | rfl | rfl <;> exact noHit_of_notMem (by decide +kernel)
  have hfirst' : ∀ c ∈ "Sec:".toList, ∀ cs ∈ Gen.pp_twprge_no_ewt.firstSets, cs.mem c = false := by
    intro c hc cs hcs
    simp only [List.all_eq_true, Bool.not_eq_true'] at hfirst
    exact hfirst cs hcs c hc
  refine ⟨?_, ?_, ?_, ?_, ?_, ?_⟩
  · intro sp l rest hsp _
    have e : l.ref ++ rest = ['S'] ++ 'e' :: 'c' :: (' ' :: l.n1 :: l.n2 :: ':' :: rest) := by simp [Ln.ref]
    rw [e]
    refine Skips.of_break hmD sp ['S'] 'e' 'c' _ ?_ ?_ hec
    · intro c hc
      rcases hsp.chars c hc with rfl | rfl
      · exact hnd _ (Or.inl rfl)
      · exact hnd _ (Or.inr (Or.inl rfl))
    · intro c hc
      simp only [List.cons_append, List.nil_append, List.mem_cons, List.not_mem_nil, or_false] at hc
      rcases hc with rfl | rfl
      · exact hnd _ (Or.inr (Or.inr (Or.inl rfl)))
      · exact hnd _ (Or.inr (Or.inr (Or.inr rfl)))
  · intro l rest hl
    have e : l.ref = ['S', 'e', 'c'] ++ ([' ', l.n1, l.n2] ++ [':']) := rfl
    rw [e]
    refine Skips.append (Skips.of_first hn _ _ ?_) (Skips.append ?_ (Skips.of_first hn _ _ ?_))
    · intro c hc
      exact hfirst' c (by simp only [List.mem_cons, List.not_mem_nil, or_false] at hc; rcases hc with rfl | rfl | rfl <;> decide)
    · have hdig : ∀ c, c = ' ' ∨ c = l.n1 ∨ c = l.n2 → ∀ cs : CharSet, cs.sub nsD = true → cs.mem c = false := by
        intro c hc
        rcases hc with rfl | rfl | rfl
        · exact noHit_of_notMem (by decide)
        · exact noHit_of_notMem (digit_not_ns hl.n1)
        · exact noHit_of_notMem (digit_not_ns hl.n2)
      refine Skips.cons ?_ (Skips.cons ?_ (Skips.cons ?_ (Skips.nil _ _)))
      · refine FailsOn.of_break hmN [' ', l.n1] l.n2 ':' rest (adjB_false_of_notSecond hcolon _) ?_
        intro c hc
        simp only [List.cons_append, List.nil_append, List.mem_cons, List.not_mem_nil, or_false] at hc
        exact hdig c hc
      · refine FailsOn.of_break hmN [l.n1] l.n2 ':' rest (adjB_false_of_notSecond hcolon _) ?_
        intro c hc
        simp only [List.cons_append, List.nil_append, List.mem_cons, List.not_mem_nil, or_false] at hc
        exact hdig c (Or.inr hc)
      · refine FailsOn.of_break hmN [] l.n2 ':' rest (adjB_false_of_notSecond hcolon _) ?_
        intro c hc
        simp only [List.nil_append, List.mem_cons, List.not_mem_nil, or_false] at hc
        exact hdig c (Or.inr (Or.inr hc))
    · intro c hc
      simp only [List.mem_cons, List.not_mem_nil, or_false] at hc
      subst hc
      exact hfirst' ':' (by decide)
  · intro d tail hd ht
    have hseg : ∀ c ∈ ' ' :: d, ∀ cs : CharSet, cs.sub digitD = true → cs.mem c = false := by
      intro c hc
      rcases List.mem_cons.1 hc with rfl | hc
      · exact hnd _ (Or.inl rfl)
      · exact noHit_of_notMem (danger_not_digit (hd.safe c hc))
    cases ht with
    | fin f hf =>
      refine Skips.of_noHit hmD _ _ hseg ?_
      rcases hf with rfl | rfl
      · intro c hc; cases hc
      · intro c hc; simp only [List.mem_singleton] at hc; subst hc; exact hnd _ (Or.inr (Or.inl rfl))
    | line l rest hl =>
      have e : '\n' :: (l.ref ++ rest) = ['\n', 'S'] ++ 'e' :: 'c' :: (' ' :: l.n1 :: l.n2 :: ':' :: rest) := by simp [Ln.ref]
      rw [e]
      refine Skips.of_break hmD _ ['\n', 'S'] 'e' 'c' _ hseg ?_ hec
      intro c hc
      simp only [List.cons_append, List.nil_append, List.mem_cons, List.not_mem_nil, or_false] at hc
      rcases hc with rfl | rfl | rfl
      · exact hnd _ (Or.inr (Or.inl rfl))
      · exact hnd _ (Or.inr (Or.inr (Or.inl rfl)))
      · exact hnd _ (Or.inr (Or.inr (Or.inr rfl)))
    | hdr h rest hok =>
      have e : '\n' :: (h.text ++ rest) = [] ++ '\n' :: 'T' :: ((h.t ++ h.ns :: '-' :: 'R' :: (h.r ++ [h.ew])) ++ rest) := by
        simp [Hd.text, canonText]
      rw [e]
      refine Skips.of_break hmD _ [] '\n' 'T' _ hseg ?_ hnT
      intro c hc
      simp only [List.nil_append, List.mem_cons, List.not_mem_nil, or_false] at hc
      subst hc
      exact hnd _ (Or.inr (Or.inl rfl))
  · intro h rest _
    have e : '\n' :: (h.text ++ rest) = [] ++ '\n' :: 'T' :: ((h.t ++ h.ns :: '-' :: 'R' :: (h.r ++ [h.ew])) ++ rest) := by
      simp [Hd.text, canonText]
    rw [e]
    refine FailsOn.of_break hmD [] '\n' 'T' _ hnT ?_
    intro c hc
    simp only [List.nil_append, List.mem_cons, List.not_mem_nil, or_false] at hc
    subst hc
    exact hnd _ (Or.inr (Or.inl rfl))
  · exact FailsOn.of_first hn (fun c hc => by cases hc)
  · refine FailsOn.of_noHit hmD _ ?_
    intro c hc
    simp only [List.mem_singleton] at hc
    subst hc
    exact hnd _ (Or.inr (Or.inl rfl))


/-- where the three `pp_twprge_no_*` scrubbers capture the numbers and letters of a canonical header at `pos` -/
structure CanonAt (m : Match) (pos : Nat) (t r : Str) : Prop where
  twp : m.span? 3 = some (pos + 1, pos + 1 + t.length)
  ns : m.span? 4 = some (pos + 1 + t.length, pos + 2 + t.length)
  rge : m.span? 6 = some (pos + 4 + t.length, pos + 4 + t.length + r.length)
  ew : m.span? 7 = some (pos + 4 + t.length + r.length, pos + 5 + t.length + r.length)

theorem canonAt_nswe (t r : Str) (pos stop : Nat) : CanonAt ⟨pos, stop, nsweCaps t r pos⟩ pos t r := by
  constructor <;> simp [Match.span?, List.find?, nsweCaps]
theorem canonAt_nsr (t r : Str) (pos stop : Nat) : CanonAt ⟨pos, stop, nsrCaps t r pos⟩ pos t r := by
  constructor <;> simp [Match.span?, List.find?, nsrCaps]
theorem canonAt_ewt (t r : Str) (pos stop : Nat) : CanonAt ⟨pos, stop, ewtCaps t r pos⟩ pos t r := by
  constructor <;> simp [Match.span?, List.find?, ewtCaps]

theorem canonTR_of_canonAt (p : Pat) (hidx : p.idx? "twpnum" = some 3 ∧ p.idx? "ns" = some 4 ∧ p.idx? "rgenum" = some 6 ∧ p.idx? "ew" = some 7)
    (m : Match) (t r : Str) (nc ec : Char) (pre ctx : Str) (hm : CanonAt m pre.length t r) (hnc : nc = 'N' ∨ nc = 'S') (hec : ec = 'E' ∨ ec = 'W')
    (ns ew : Str) :
    canonTR p m (pre ++ (canonText t nc r ec ++ ctx)) ns ew false = canonText (stripLeadingZerosViaInt t) nc (stripLeadingZerosViaInt r) ec := by
  have g1 : p.group m (pre ++ (canonText t nc r ec ++ ctx)) "twpnum" = some t := by
    simp only [Pat.group, hidx.1, Match.group?, hm.twp]
    congr 1
    exact slice_at _ (pre ++ ['T']) t (nc :: '-' :: 'R' :: (r ++ [ec]) ++ ctx) _ _ (by simp [canonText]) (by simp) (by simp)
  have g2 : p.group m (pre ++ (canonText t nc r ec ++ ctx)) "ns" = some [nc] := by
    simp only [Pat.group, hidx.2.1, Match.group?, hm.ns]
    congr 1
    exact slice_at _ (pre ++ 'T' :: t) [nc] ('-' :: 'R' :: (r ++ [ec]) ++ ctx) _ _ (by simp [canonText]) (by simp; omega) (by simp; omega)
  have g3 : p.group m (pre ++ (canonText t nc r ec ++ ctx)) "rgenum" = some r := by
    simp only [Pat.group, hidx.2.2.1, Match.group?, hm.rge]
    congr 1
    exact slice_at _ (pre ++ 'T' :: (t ++ [nc, '-', 'R'])) r ([ec] ++ ctx) _ _ (by simp [canonText]) (by simp; omega) (by simp; omega)
  have g4 : p.group m (pre ++ (canonText t nc r ec ++ ctx)) "ew" = some [ec] := by
    simp only [Pat.group, hidx.2.2.2, Match.group?, hm.ew]
    congr 1
    exact slice_at _ (pre ++ 'T' :: (t ++ [nc, '-', 'R'] ++ r)) [ec] ctx _ _ (by simp [canonText]) (by simp; omega) (by simp; omega)
  unfold canonTR twpPart rgePart dirPart
  rw [g1, g2, g3, g4]
  rcases hnc with rfl | rfl <;> rcases hec with rfl | rfl <;> simp [canonText, pyUpper, pyUpperChar]


/-- the numbers of the header are written without leading zeros -/
def Hd.Canon (h : Hd) : Prop := stripLeadingZerosViaInt h.t = h.t ∧ stripLeadingZerosViaInt h.r = h.r

theorem Hd.canon_text (h : Hd) (hok : h.Ok) (hc : h.Canon) : h.sp.canon = h.text := by
  unfold Hd.sp
  rw [canonSp_canon _ _ _ _ hok.ns hok.ew, hc.1, hc.2]
  rfl

/-- the separator after a scrubbing pass: one more blank in front of it, or (if the pattern swallowed it) one blank -/
def newSep (eat : Bool) (sp : Str) : Str := if eat then [' '] else ' ' :: sp

/-- **one scrubbing pass along the headers**: every header (with its separator, if the pattern swallows it) is replaced by
    its canonical text and a blank, everything else is kept -/
theorem rewrite_hdr (p : Pat) (ns ew sp : Str) (eat : Bool) (mk : Hd → Nat → Match) (text : Str)
    (hstart : ∀ h pos, (mk h pos).start = pos)
    (hstop : ∀ h pos, (mk h pos).stop = pos + h.text.length + (if eat then sp.length else 0))
    (hcan : ∀ (g : Gp) (pre post : Str), g.Ok → g.h.Canon → text = pre ++ (g.text sp ++ post) →
      canonTR p (mk g.h pre.length) text ns ew false = g.h.text) :
    ∀ (gs : List Gp) (g : Gp) (pre mid : Str), g.Ok → g.h.Canon → (∀ x ∈ gs, x.Ok ∧ x.h.Canon) →
      text = pre ++ mid ++ (g.text sp ++ gpsSeg sp gs) →
      rewrite p text ns ew false (hdrMs mk sp (pre ++ mid).length (g :: gs)) pre.length =
        mid ++ (g.text (newSep eat sp) ++ gpsSeg (newSep eat sp) gs)
  | [], g, pre, mid, hok, hc, _, htext => by
    have hm := hcan g (pre ++ mid) [] hok hc (by rw [htext]; simp [gpsSeg])
    have hsl : slice text pre.length (pre ++ mid).length = mid :=
      slice_at text pre mid (g.text sp ++ gpsSeg sp []) _ _ (by rw [htext]; simp) rfl (by simp)
    simp only [hdrMs, rewrite, hstart, hstop, hm, hsl]
    cases eat with
    | false =>
      have hd : text.drop ((pre ++ mid).length + g.h.text.length + 0) = g.body sp := by
        have : text = (pre ++ mid ++ g.h.text) ++ g.body sp := by rw [htext]; simp [Gp.text, gpsSeg]
        rw [this]
        have hl : (pre ++ mid).length + g.h.text.length + 0 = (pre ++ mid ++ g.h.text).length := by simp; omega
        rw [hl, List.drop_left]
      simp only [Bool.false_eq_true, if_false, hd, newSep, gpsSeg]
      simp [Gp.text, Gp.body]
    | true =>
      have hd : text.drop ((pre ++ mid).length + g.h.text.length + sp.length) = g.l.text ++ lnsSeg g.ls := by
        have : text = (pre ++ mid ++ g.h.text ++ sp) ++ (g.l.text ++ lnsSeg g.ls) := by rw [htext]; simp [Gp.text, Gp.body, gpsSeg]
        rw [this]
        have hl : (pre ++ mid).length + g.h.text.length + sp.length = (pre ++ mid ++ g.h.text ++ sp).length := by simp; omega
        rw [hl, List.drop_left]
      simp only [if_true, hd, newSep, gpsSeg]
      simp [Gp.text, Gp.body]
  | g' :: gs, g, pre, mid, hok, hc, hgs, htext => by
    have hm := hcan g (pre ++ mid) (gpsSeg sp (g' :: gs)) hok hc (by rw [htext])
    have hsl : slice text pre.length (pre ++ mid).length = mid :=
      slice_at text pre mid (g.text sp ++ gpsSeg sp (g' :: gs)) _ _ (by rw [htext]; simp) rfl (by simp)
    have hg' := hgs g' (by simp)
    have hgs' : ∀ x ∈ gs, x.Ok ∧ x.h.Canon := fun x hx => hgs x (by simp [hx])
    rw [show hdrMs mk sp (pre ++ mid).length (g :: g' :: gs) =
      mk g.h (pre ++ mid).length :: hdrMs mk sp ((pre ++ mid).length + (g.text sp).length + 1) (g' :: gs) from rfl]
    simp only [rewrite, hstart, hstop, hm, hsl]
    cases eat with
    | false =>
      have ih := rewrite_hdr p ns ew sp false mk text hstart hstop hcan gs g' (pre ++ mid ++ g.h.text) (g.body sp ++ ['\n'])
        hg'.1 hg'.2 hgs' (by rw [htext]; simp [Gp.text, gpsSeg])
      have hl1 : (pre ++ mid ++ g.h.text ++ (g.body sp ++ ['\n'])).length = (pre ++ mid).length + (g.text sp).length + 1 := by
        simp [Gp.text]; omega
      have hl2 : (pre ++ mid ++ g.h.text).length = (pre ++ mid).length + g.h.text.length + 0 := by simp; omega
      rw [hl1, hl2] at ih
      simp only [Bool.false_eq_true, if_false, ih, newSep]
      simp [Gp.text, Gp.body, gpsSeg]
    | true =>
      have ih := rewrite_hdr p ns ew sp true mk text hstart hstop hcan gs g' (pre ++ mid ++ g.h.text ++ sp) (g.l.text ++ lnsSeg g.ls ++ ['\n'])
        hg'.1 hg'.2 hgs' (by rw [htext]; simp [Gp.text, Gp.body, gpsSeg])
      have hl1 : (pre ++ mid ++ g.h.text ++ sp ++ (g.l.text ++ lnsSeg g.ls ++ ['\n'])).length = (pre ++ mid).length + (g.text sp).length + 1 := by
        simp [Gp.text, Gp.body]; omega
      have hl2 : (pre ++ mid ++ g.h.text ++ sp).length = (pre ++ mid).length + g.h.text.length + sp.length := by simp; omega
      rw [hl1, hl2] at ih
      simp only [if_true, ih, newSep]
      simp [Gp.text, Gp.body, gpsSeg]


/-- one pass of a scrubber whose matches are the headers of the canonical text -/
theorem scrub_doc (name : String) (p : Pat) (hp : findPat name = p) (hocr : (name == Gen.PLSS_OCR_SCRUBBER) = false)
    (hg : GapSkips p.rx) (sp : Str) (hsp : SepOk sp) (eat : Bool) (mk : Hd → Nat → Match)
    (hstart : ∀ h pos, (mk h pos).start = pos)
    (hstop : ∀ h pos, (mk h pos).stop = pos + h.text.length + (if eat then sp.length else 0))
    (htok : ∀ (h : Hd) (l : Ln) (rest : Str) (prev : Option Char) (pos : Nat), h.Ok → l.Ok →
       isWord Gen.cs_14d6aa8a prev = false →
       matchHere p.rx ⟨prev, h.text ++ (sp ++ (l.ref ++ rest)), pos, []⟩ false = some (mk h pos))
    (ns ew : Str) (h1 : isLegal Gen.LEGAL_NS ns = true) (h2 : isLegal Gen.LEGAL_EW ew = true)
    (hcan : ∀ (text : Str) (g : Gp) (pre post : Str), g.Ok → g.h.Canon → text = pre ++ (g.text sp ++ post) →
      canonTR p (mk g.h pre.length) text ns ew false = g.h.text)
    (g : Gp) (gs : List Gp) (hok : g.Ok) (hc : g.h.Canon) (hgs : ∀ x ∈ gs, x.Ok ∧ x.h.Canon) :
    subScrubber name (docText sp (g :: gs)) ns ew = .ok (docText (newSep eat sp) (g :: gs)) := by
  have hgs' : ∀ x ∈ gs, x.Ok := fun x hx => (hgs x hx).1
  have htxt : docText sp (g :: gs) = g.text sp ++ (gpsSeg sp gs ++ []) := by simp [docText, gpsSeg]
  have hfi : p.rx.finditer (docText sp (g :: gs)) = hdrMs mk sp 0 (g :: gs) := by
    rw [htxt]
    exact (hdrTiles p.rx hg sp [] hsp (Or.inl rfl) eat mk
      (fun h l rest prev pos hh hl hprev => ⟨htok h l rest prev pos hh hl hprev, hstart h pos, hstop h pos⟩)
      gs g 0 none hok hgs' isWord_none).finditer_eq
  rw [C08_subScrubber_rewrites name _ ns ew h1 h2, hp, hocr, hfi]
  have := rewrite_hdr p ns ew sp eat mk (docText sp (g :: gs)) hstart hstop (hcan _) gs g [] [] hok hc hgs (by rw [docText_cons]; rfl)
  simp only [List.append_nil, List.length_nil, List.nil_append] at this
  rw [this, docText_cons]


theorem Hd.canonHyp (h : Hd) (hok : h.Ok) (ctx : Str) (hctx : EndsTwprge ctx) : CanonHyp h.t h.r h.ns h.ew ctx :=
  ⟨isDigits_of_isDigit hok.t_dig, hok.t_len, hok.ns, isDigits_of_isDigit hok.r_dig, hok.r_len, hok.ew, hctx⟩

theorem Hd.canon_canonText (h : Hd) (hc : h.Canon) :
    canonText (stripLeadingZerosViaInt h.t) h.ns (stripLeadingZerosViaInt h.r) h.ew = h.text := by
  rw [hc.1, hc.2]; rfl

/-- scrubber 1 (`twprge_regex`): a blank is inserted after every header -/
theorem scrub1_doc (sp : Str) (hsp : SepOk sp) (ns ew : Str) (h1 : isLegal Gen.LEGAL_NS ns = true) (h2 : isLegal Gen.LEGAL_EW ew = true)
    (g : Gp) (gs : List Gp) (hok : g.Ok) (hc : g.h.Canon) (hgs : ∀ x ∈ gs, x.Ok ∧ x.h.Canon) :
    subScrubber "twprge_regex" (docText sp (g :: gs)) ns ew = .ok (docText (' ' :: sp) (g :: gs)) := by
  refine scrub_doc "twprge_regex" twprge rfl (by decide) twprge_gapSkips sp hsp false twMk (fun _ _ => rfl)
    (fun h pos => by simp [twMk, Spelling.matchAt, h.sp_text])
    (fun h l rest prev pos hh hl hprev => (twprge_tok sp hsp h l rest prev pos hh hl hprev).1) ns ew h1 h2 ?_ g gs hok hc hgs
  intro text g' pre post hok' hc' htext
  have hv := g'.h.valid hok'.h (g'.body sp ++ post) (by
    have : g'.body sp ++ post = sp ++ (g'.l.text ++ lnsSeg g'.ls ++ post) := by simp [Gp.body]
    rw [this]; exact endsTwprge_sep sp _ hsp)
  have htext' : text = pre ++ (g'.h.sp.text ++ (g'.body sp ++ post)) := by rw [htext, g'.h.sp_text]; simp [Gp.text]
  rw [htext']
  exact (g'.h.sp.canonTR_at pre _ hv ns ew).trans (g'.h.canon_text hok'.h hc')

theorem endsTwprge_body (sp : Str) (hsp : SepOk sp) (l : Ln) (rest : Str) : EndsTwprge (sp ++ (l.ref ++ rest)) :=
  endsTwprge_sep sp _ hsp

/-- the common part of scrubbers 2–4 -/
theorem scrubPP_doc (name : String) (p : Pat) (hp : findPat name = p) (hocr : (name == Gen.PLSS_OCR_SCRUBBER) = false)
    (hg : GapSkips p.rx) (hidx : p.idx? "twpnum" = some 3 ∧ p.idx? "ns" = some 4 ∧ p.idx? "rgenum" = some 6 ∧ p.idx? "ew" = some 7)
    (caps : Str → Str → Nat → Caps) (hcaps : ∀ t r pos stop, CanonAt ⟨pos, stop, caps t r pos⟩ pos t r)
    (hat : ∀ (t r : Str) (nc ec : Char) (ctx : Str), CanonHyp t r nc ec ctx → ∀ (prev : Option Char) (pos : Nat),
      isWord Gen.cs_14d6aa8a prev = false →
      matchHere p.rx ⟨prev, canonText t nc r ec ++ ctx, pos, []⟩ false = some ⟨pos, pos + (5 + t.length + r.length), caps t r pos⟩)
    (sp : Str) (hsp : SepOk sp) (ns ew : Str) (h1 : isLegal Gen.LEGAL_NS ns = true) (h2 : isLegal Gen.LEGAL_EW ew = true)
    (g : Gp) (gs : List Gp) (hok : g.Ok) (hc : g.h.Canon) (hgs : ∀ x ∈ gs, x.Ok ∧ x.h.Canon) :
    subScrubber name (docText sp (g :: gs)) ns ew = .ok (docText (' ' :: sp) (g :: gs)) := by
  refine scrub_doc name p hp hocr hg sp hsp false
    (fun h pos => ⟨pos, pos + (5 + h.t.length + h.r.length), caps h.t h.r pos⟩) (fun _ _ => rfl)
    (fun h pos => by simp [h.text_length])
    (fun h l rest prev pos hh hl hprev => hat h.t h.r h.ns h.ew _ (h.canonHyp hh _ (endsTwprge_body sp hsp l rest)) prev pos hprev)
    ns ew h1 h2 ?_ g gs hok hc hgs
  intro text g' pre post hok' hc' htext
  have htext' : text = pre ++ (canonText g'.h.t g'.h.ns g'.h.r g'.h.ew ++ (g'.body sp ++ post)) := by
    rw [htext]; simp [Gp.text, Hd.text]
  rw [htext']
  exact (canonTR_of_canonAt p hidx _ g'.h.t g'.h.r g'.h.ns g'.h.ew pre _ (hcaps _ _ _ _) hok'.h.ns hok'.h.ew ns ew).trans
    (g'.h.canon_canonText hc')

theorem scrub2_doc (sp : Str) (hsp : SepOk sp) (ns ew : Str) (h1 : isLegal Gen.LEGAL_NS ns = true) (h2 : isLegal Gen.LEGAL_EW ew = true)
    (g : Gp) (gs : List Gp) (hok : g.Ok) (hc : g.h.Canon) (hgs : ∀ x ∈ gs, x.Ok ∧ x.h.Canon) :
    subScrubber "pp_twprge_no_nswe" (docText sp (g :: gs)) ns ew = .ok (docText (' ' :: sp) (g :: gs)) :=
  scrubPP_doc "pp_twprge_no_nswe" ppNswePat rfl (by decide) nswe_gapSkips (by decide) nsweCaps canonAt_nswe
    (fun t r nc ec ctx h prev pos hprev => no_nswe_at t r nc ec ctx h prev pos hprev) sp hsp ns ew h1 h2 g gs hok hc hgs

theorem scrub3_doc (sp : Str) (hsp : SepOk sp) (ns ew : Str) (h1 : isLegal Gen.LEGAL_NS ns = true) (h2 : isLegal Gen.LEGAL_EW ew = true)
    (g : Gp) (gs : List Gp) (hok : g.Ok) (hc : g.h.Canon) (hgs : ∀ x ∈ gs, x.Ok ∧ x.h.Canon) :
    subScrubber "pp_twprge_no_nsr" (docText sp (g :: gs)) ns ew = .ok (docText (' ' :: sp) (g :: gs)) :=
  scrubPP_doc "pp_twprge_no_nsr" ppNsrPat rfl (by decide) nsr_gapSkips (by decide) nsrCaps canonAt_nsr
    (fun t r nc ec ctx h prev pos hprev => no_nsr_at t r nc ec ctx h prev pos hprev) sp hsp ns ew h1 h2 g gs hok hc hgs

theorem scrub4_doc (sp : Str) (hsp : SepOk sp) (ns ew : Str) (h1 : isLegal Gen.LEGAL_NS ns = true) (h2 : isLegal Gen.LEGAL_EW ew = true)
    (g : Gp) (gs : List Gp) (hok : g.Ok) (hc : g.h.Canon) (hgs : ∀ x ∈ gs, x.Ok ∧ x.h.Canon) :
    subScrubber "pp_twprge_no_ewt" (docText sp (g :: gs)) ns ew = .ok (docText (' ' :: sp) (g :: gs)) :=
  scrubPP_doc "pp_twprge_no_ewt" ppEwtPat rfl (by decide) ewt_gapSkips (by decide) ewtCaps canonAt_ewt
    (fun t r nc ec ctx h prev pos hprev => no_ewt_at t r nc ec ctx h prev pos hprev) sp hsp ns ew h1 h2 g gs hok hc hgs


/-! ### the characters of the canonical text -/

/-- a character of the canonical text: a plain header / separator character, one of `S e c :`, or a safe character -/
def DocCh (c : Char) : Prop := hdrPlain.mem c = true ∨ c = 'S' ∨ c = 'e' ∨ c = 'c' ∨ c = ':' ∨ Danger.mem c = false

theorem docCh_hdr (h : Hd) (hok : h.Ok) : ∀ c ∈ h.text, DocCh c := by
  intro c hc
  simp only [Hd.text, canonText, List.mem_cons, List.mem_append, List.not_mem_nil, or_false] at hc
  rcases hc with rfl | hc | rfl | rfl | rfl | hc | rfl
  · exact Or.inl (by decide)
  · exact Or.inl (hdrPlain_digit (hok.t_dig c hc))
  · rcases hok.ns with e | e <;> rw [e]
    · exact Or.inl (by decide)
    · exact Or.inr (Or.inl rfl)
  · exact Or.inl (by decide)
  · exact Or.inl (by decide)
  · exact Or.inl (hdrPlain_digit (hok.r_dig c hc))
  · rcases hok.ew with e | e <;> rw [e] <;> exact Or.inl (by decide)

theorem docCh_line (l : Ln) (hl : l.Ok) : ∀ c ∈ l.text, DocCh c := by
  intro c hc
  simp only [Ln.text, Ln.ref, List.cons_append, List.nil_append, List.mem_cons] at hc
  rcases hc with rfl | rfl | rfl | rfl | rfl | rfl | rfl | rfl | hc
  · exact Or.inr (Or.inl rfl)
  · exact Or.inr (Or.inr (Or.inl rfl))
  · exact Or.inr (Or.inr (Or.inr (Or.inl rfl)))
  · exact Or.inl (by decide)
  · exact Or.inl (CharSet.sub_mem (by decide) hl.n1)
  · exact Or.inl (CharSet.sub_mem (by decide) hl.n2)
  · exact Or.inr (Or.inr (Or.inr (Or.inr (Or.inl rfl))))
  · exact Or.inl (by decide)
  · exact Or.inr (Or.inr (Or.inr (Or.inr (Or.inr (hl.d.safe c hc)))))

theorem docCh_lines : ∀ (ls : List Ln), (∀ l ∈ ls, l.Ok) → ∀ c ∈ lnsSeg ls, DocCh c
  | [], _, c, hc => by cases hc
  | l :: ls, hls, c, hc => by
    simp only [lnsSeg, List.mem_cons, List.mem_append] at hc
    rcases hc with rfl | hc | hc
    · exact Or.inl (by decide)
    · exact docCh_line l (hls l (by simp)) c hc
    · exact docCh_lines ls (fun x hx => hls x (by simp [hx])) c hc

theorem docCh_group (sp : Str) (hsp : SepOk sp) (g : Gp) (hok : g.Ok) : ∀ c ∈ g.text sp, DocCh c := by
  intro c hc
  simp only [Gp.text, Gp.body, List.mem_append] at hc
  rcases hc with hc | hc | hc | hc
  · exact docCh_hdr g.h hok.h c hc
  · rcases hsp.chars c hc with rfl | rfl <;> exact Or.inl (by decide)
  · exact docCh_line g.l (hok.ls g.l (by simp [Gp.lines])) c hc
  · exact docCh_lines g.ls (fun x hx => hok.ls x (by simp [Gp.lines, hx])) c hc

theorem docCh_groups (sp : Str) (hsp : SepOk sp) : ∀ (gs : List Gp), (∀ g ∈ gs, g.Ok) → ∀ c ∈ gpsSeg sp gs, DocCh c
  | [], _, c, hc => by cases hc
  | g :: gs, hgs, c, hc => by
    simp only [gpsSeg, List.mem_cons, List.mem_append] at hc
    rcases hc with rfl | hc | hc
    · exact Or.inl (by decide)
    · exact docCh_group sp hsp g (hgs g (by simp)) c hc
    · exact docCh_groups sp hsp gs (fun x hx => hgs x (by simp [hx])) c hc

theorem docCh_doc (sp : Str) (hsp : SepOk sp) (g : Gp) (gs : List Gp) (hok : g.Ok) (hgs : ∀ x ∈ gs, x.Ok) :
    ∀ c ∈ docText sp (g :: gs), DocCh c := by
  intro c hc
  rw [docText_cons, List.mem_append] at hc
  rcases hc with hc | hc
  · exact docCh_group sp hsp g hok c hc
  · exact docCh_groups sp hsp gs hgs c hc

/-- a class inside a set of dangerous characters that are neither plain header characters nor `S e c :` contains no
    character of the canonical text -/
theorem docCh_avoid (D : CharSet) (h1 : hdrPlain.disj D = true) (h2 : D.sub Danger = true)
    (h3 : D.mem 'S' = false ∧ D.mem 'e' = false ∧ D.mem 'c' = false ∧ D.mem ':' = false) {c : Char} (hc : DocCh c) :
    ∀ cs : CharSet, cs.sub D = true → cs.mem c = false := by
  have : D.mem c = false := by
    rcases hc with h | rfl | rfl | rfl | rfl | h
    · exact CharSet.disj_mem h1 h
    · exact h3.1
    · exact h3.2.1
    · exact h3.2.2.1
    · exact h3.2.2.2
    · cases hd : D.mem c with
      | false => rfl
      | true => rw [CharSet.sub_mem h2 hd] at h; cases h
  exact noHit_of_notMem this

/-- `P p` -/
def pD : CharSet := [(80, 80), (112, 112)]

/-- scrubber 5 (`pp_twprge_pm`, the Principal-Meridian scrubber) finds nothing: the canonical text has no `P` -/
theorem scrub5_doc (sp : Str) (hsp : SepOk sp) (ns ew : Str) (h1 : isLegal Gen.LEGAL_NS ns = true) (h2 : isLegal Gen.LEGAL_EW ew = true)
    (g : Gp) (gs : List Gp) (hok : g.Ok) (hgs : ∀ x ∈ gs, x.Ok) :
    subScrubber "pp_twprge_pm" (docText sp (g :: gs)) ns ew = .ok (docText sp (g :: gs)) := by
  have hm : Gen.pp_twprge_pm.mustHitP (fun cs => cs.sub pD) = true := by decide +kernel
  refine scrub_none "pp_twprge_pm" ppPmPat rfl _ ns ew h1 h2 (finditer_nil_of_noHit hm _ ?_)
  intro c hc
  exact docCh_avoid pD (by decide) (by decide +kernel) (by decide) (docCh_doc sp hsp g gs hok hgs c hc)


/-! ### scrubber 6: `pp_twprge_comma_remove` swallows the separator -/

theorem failsOn_comma {Y : Str} (h : FailsOn Gen.twprge_regex Y) : FailsOn Gen.pp_twprge_comma_remove Y := by
  intro prev pos caps
  unfold Fails
  rw [comma_decomp, Rx.snoc_all]
  exact Fails.seq_l (h prev pos caps)

theorem skips_comma {seg tail : Str} (h : Skips Gen.twprge_regex seg tail) : Skips Gen.pp_twprge_comma_remove seg tail :=
  fun a b c hs => failsOn_comma (h a b c hs)

theorem comma_gapSkips : GapSkips Gen.pp_twprge_comma_remove where
  sep := fun sp l rest hsp hl => skips_comma (twprge_gapSkips.sep sp l rest hsp hl)
  ref := fun l rest hl => skips_comma (twprge_gapSkips.ref l rest hl)
  desc := fun d tail hd ht => skips_comma (twprge_gapSkips.desc d tail hd ht)
  nlHdr := fun h rest hok => failsOn_comma (twprge_gapSkips.nlHdr h rest hok)
  fin0 := failsOn_comma twprge_gapSkips.fin0
  fin1 := failsOn_comma twprge_gapSkips.fin1

/-- the match of `pp_twprge_comma_remove` on a header at `pos` followed by the separator `sp` -/
def commaMk (sp : Str) (h : Hd) (pos : Nat) : Match :=
  ⟨pos, pos + h.text.length + sp.length, (15, pos + h.text.length, pos + h.text.length + sp.length) :: h.sp.caps pos⟩

theorem comma_tok (sp : Str) (hsp : SepOk sp) (h : Hd) (l : Ln) (rest : Str) (prev : Option Char) (pos : Nat) (hok : h.Ok)
    (hprev : isWord Gen.cs_14d6aa8a prev = false) :
    matchHere Gen.pp_twprge_comma_remove ⟨prev, h.text ++ (sp ++ (l.ref ++ rest)), pos, []⟩ false = some (commaMk sp h pos) := by
  have hv := h.valid hok (sp ++ (l.ref ++ rest)) (endsTwprge_sep sp _ hsp)
  obtain ⟨c, t, htext, hc⟩ := hv.text_head
  obtain ⟨f, hf, hcaps⟩ := eats_twBody h.sp (sp ++ (l.ref ++ rest)) hv
  have h1 := leads_twG1 prev c t pos [] hprev hc
  rw [← htext] at h1
  have h2 := hf prev pos [(1, pos, pos)]
  have h12 : Leads Gen.twprge_regex _ _ := Leads.congr_rx twprge_decomp (Leads.seq h1 h2)
  have hws : ∀ c ∈ sp, Gen.cs_0c338893.mem c = true := by
    intro c hc
    rcases hsp.chars c hc with rfl | rfl <;> decide
  have hstop : StopAt Gen.cs_0c338893 (l.ref ++ rest) := StopAt.cons (by decide)
  have h15 := Eats.grp 15 (eats_dead Gen.cs_0c338893 sp (l.ref ++ rest) hws hstop) (lastOr prev h.sp.text) (pos + h.sp.text.length)
    (f pos [(1, pos, pos)])
  have hL := Leads.congr_rx comma_decomp (Leads.snoc (Leads.seq h12 h15))
  rw [h.sp_text] at hL
  rw [matchHere_of_leads false hL (Or.inl rfl), hcaps]
  simp [commaMk, h.sp_text]

theorem comma_span (sp : Spelling) (pos stop a b : Nat) (g : Nat) (h0 : g ≠ 0) (h15 : g ≠ 15) :
    (⟨pos, stop, (15, a, b) :: sp.caps pos⟩ : Match).span? g = (sp.matchAt pos).span? g := by
  have h0' : (g == 0) = false := by simpa using h0
  have h15' : ((15 : Nat) == g) = false := by simp only [beq_eq_false_iff_ne, ne_eq]; omega
  simp only [Match.span?, h0', Bool.false_eq_true, if_false, Spelling.matchAt, List.find?, h15']

theorem comma_group (sp : Spelling) (pos stop a b : Nat) (text : Str) (name : String) :
    commaPat.group ⟨pos, stop, (15, a, b) :: sp.caps pos⟩ text name = twprge.group (sp.matchAt pos) text name := by
  have hg : commaPat.groups = twprge.groups := rfl
  unfold Pat.group Pat.idx?
  rw [hg]
  cases hfind : (twprge.groups.find? (fun g => g.1 == name)) with
  | none => rfl
  | some g =>
    simp only [Option.map_some, Match.group?]
    have hmem := List.mem_of_find?_eq_some hfind
    have hg2 : g.2 ≠ 0 ∧ g.2 ≠ 15 := by
      have : ∀ g ∈ twprge.groups, g.2 ≠ 0 ∧ g.2 ≠ 15 := by decide
      exact this g hmem
    rw [comma_span sp pos stop a b g.2 hg2.1 hg2.2]

/-- scrubber 6 (`pp_twprge_comma_remove`): every header with ALL the white space after it is replaced by the header and one
    blank — the line break between a header and its first line is lost -/
theorem scrub6_doc (sp : Str) (hsp : SepOk sp) (ns ew : Str) (h1 : isLegal Gen.LEGAL_NS ns = true) (h2 : isLegal Gen.LEGAL_EW ew = true)
    (g : Gp) (gs : List Gp) (hok : g.Ok) (hc : g.h.Canon) (hgs : ∀ x ∈ gs, x.Ok ∧ x.h.Canon) :
    subScrubber "pp_twprge_comma_remove" (docText sp (g :: gs)) ns ew = .ok (docText [' '] (g :: gs)) := by
  refine scrub_doc "pp_twprge_comma_remove" commaPat rfl (by decide) comma_gapSkips sp hsp true (commaMk sp) (fun _ _ => rfl)
    (fun h pos => by simp [commaMk])
    (fun h l rest prev pos hh _ hprev => comma_tok sp hsp h l rest prev pos hh hprev) ns ew h1 h2 ?_ g gs hok hc hgs
  intro text g' pre post hok' hc' htext
  have hv := g'.h.valid hok'.h (g'.body sp ++ post) (by
    have : g'.body sp ++ post = sp ++ (g'.l.text ++ lnsSeg g'.ls ++ post) := by simp [Gp.body]
    rw [this]; exact endsTwprge_sep sp _ hsp)
  have htext' : text = pre ++ (g'.h.sp.text ++ (g'.body sp ++ post)) := by rw [htext, g'.h.sp_text]; simp [Gp.text]
  have := (g'.h.sp.canonTR_at pre _ hv ns ew).trans (g'.h.canon_text hok'.h hc')
  rw [← htext'] at this
  rw [← this]
  simp only [canonTR, twpPart, rgePart, dirPart, commaMk, comma_group]


/-! ### white-space reduction leaves the canonical text (with one blank after every header) unchanged -/

/-- two blanks or two line breaks in a row -/
def wsPair (a b : Char) : Bool := (a == ' ' && b == ' ') || (a == '\n' && b == '\n')

def noWsPair : Str → Bool
  | a :: b :: t => !wsPair a b && noWsPair (b :: t)
  | _ => true

def neutral (c : Char) : Prop := c ≠ ' ' ∧ c ≠ '\n'

theorem wsPair_left {a b : Char} (h : neutral a) : wsPair a b = false := by
  simp [wsPair, h.1, h.2]
theorem wsPair_right {a b : Char} (h : neutral b) : wsPair a b = false := by
  simp [wsPair, h.1, h.2]

/-- a segment without a doubled blank / line break that neither starts nor ends with one -/
structure Good (s : Str) : Prop where
  np : noWsPair s = true
  ne : s ≠ []
  first : ∀ c, s.head? = some c → neutral c
  last : ∀ c, s.getLast? = some c → neutral c

theorem noWsPair_join : ∀ (x : Str) (w : Char) (y : Str), noWsPair x = true → noWsPair y = true → x ≠ [] →
    (∀ c, x.getLast? = some c → neutral c) → (∀ c, y.head? = some c → neutral c) → noWsPair (x ++ w :: y) = true
  | [], _, _, _, _, h, _, _ => absurd rfl h
  | [a], w, y, _, hy, _, hl, hf => by
    have ha := hl a rfl
    cases y with
    | nil => simp [noWsPair, wsPair_left ha]
    | cons b y' => simp [noWsPair, wsPair_left ha, wsPair_right (hf b rfl), hy]
  | a :: a' :: x', w, y, hx, hy, _, hl, hf => by
    simp only [noWsPair, Bool.and_eq_true, Bool.not_eq_true'] at hx
    have ih := noWsPair_join (a' :: x') w y hx.2 hy (by simp) (fun c hc => hl c (by rw [List.getLast?_cons_cons]; exact hc)) hf
    simp only [List.cons_append, noWsPair, Bool.and_eq_true, Bool.not_eq_true']
    exact ⟨hx.1, ih⟩

theorem Good.join {x y : Str} (hx : Good x) (hy : Good y) (w : Char) : Good (x ++ w :: y) where
  np := noWsPair_join x w y hx.np hy.np hx.ne hx.last hy.first
  ne := by simp
  first := by
    intro c hc
    cases x with
    | nil => exact absurd rfl hx.ne
    | cons a x' => exact hx.first c (by simpa using hc)
  last := by
    intro c hc
    have e : x ++ w :: y = (x ++ [w]) ++ y := by simp
    rw [e, List.getLast?_append] at hc
    cases hl : y.getLast? with
    | none => exact absurd (List.getLast?_eq_none_iff.1 hl) hy.ne
    | some d => rw [hl] at hc; simp at hc; subst hc; exact hy.last d hl

theorem noWsPair_of_neutral : ∀ (s : Str), (∀ c ∈ s, neutral c) → noWsPair s = true
  | [], _ => rfl
  | [_], _ => rfl
  | a :: b :: t, h => by
    simp only [noWsPair, Bool.and_eq_true, Bool.not_eq_true']
    exact ⟨wsPair_left (h a (by simp)), noWsPair_of_neutral (b :: t) (fun c hc => h c (by simp [hc]))⟩

theorem good_of_neutral (s : Str) (hne : s ≠ []) (h : ∀ c ∈ s, neutral c) : Good s :=
  ⟨noWsPair_of_neutral s h, hne, fun c hc => h c (List.mem_of_mem_head? hc), fun c hc => h c (List.mem_of_getLast? hc)⟩

theorem hdrPlain_neutral_of {c : Char} (h : hdrPlain.mem c = true) (h1 : c ≠ ' ') (h2 : c ≠ '\n') : neutral c := ⟨h1, h2⟩

theorem digit_neutral {c : Char} (h : c.isDigit = true) : neutral c := by
  have := (isDigit_iff_mem c).1 h
  constructor <;> (rintro rfl; exact absurd this (by decide))

theorem good_hdr (h : Hd) (hok : h.Ok) : Good h.text := by
  refine good_of_neutral _ (by simp [Hd.text, canonText]) ?_
  intro c hc
  simp only [Hd.text, canonText, List.mem_cons, List.mem_append, List.not_mem_nil, or_false] at hc
  rcases hc with rfl | hc | rfl | rfl | rfl | hc | rfl
  · exact ⟨by decide, by decide⟩
  · exact digit_neutral (hok.t_dig c hc)
  · rcases hok.ns with e | e <;> rw [e] <;> exact ⟨by decide, by decide⟩
  · exact ⟨by decide, by decide⟩
  · exact ⟨by decide, by decide⟩
  · exact digit_neutral (hok.r_dig c hc)
  · rcases hok.ew with e | e <;> rw [e] <;> exact ⟨by decide, by decide⟩

theorem ascii_neutral {c : Char} (h : asciiDigits.mem c = true) : neutral c := by
  constructor <;> (rintro rfl; exact absurd h (by decide))

theorem good_ref (l : Ln) (hl : l.Ok) : Good l.ref := by
  have h1 := ascii_neutral hl.n1
  have h2 := ascii_neutral hl.n2
  refine ⟨?_, by simp [Ln.ref], ?_, ?_⟩
  · simp [Ln.ref, noWsPair, wsPair, h1.1, h1.2, h2.1, h2.2]
  · intro c hc; simp [Ln.ref] at hc; subst hc; exact ⟨by decide, by decide⟩
  · intro c hc; simp [Ln.ref] at hc; subst hc; exact ⟨by decide, by decide⟩

theorem noWsPair_of_noDbl : ∀ (s : Str), noDblBlank s = true → '\n' ∉ s → noWsPair s = true
  | [], _, _ => rfl
  | [_], _, _ => rfl
  | a :: b :: t, h, hn => by
    simp only [noDblBlank, Bool.and_eq_true, Bool.not_eq_true'] at h
    have ih := noWsPair_of_noDbl (b :: t) h.2 (fun hc => hn (by simp [hc]))
    have ha : a ≠ '\n' := fun e => hn (by simp [e])
    simp only [noWsPair, Bool.and_eq_true, Bool.not_eq_true', ih, and_true]
    simp only [wsPair, Bool.or_eq_false_iff]
    refine ⟨h.1, ?_⟩
    simp [ha]

theorem good_desc (d : Str) (hd : Inert d) : Good d := by
  refine ⟨noWsPair_of_noDbl d hd.noDbl (inert_no_nl hd), hd.ne, ?_, ?_⟩
  · intro c hc
    obtain ⟨d0, d', e, _, hh⟩ := hd.head_cons
    rw [e] at hc; simp at hc; subst hc
    constructor
    · rintro rfl; rw [headDanger_blank] at hh; cases hh
    · rintro rfl; exact inert_no_nl hd (by rw [e]; simp)
  · intro c hc
    exact ⟨hd.last c hc, fun e => inert_no_nl hd (e ▸ List.mem_of_getLast? hc)⟩

theorem good_lines : ∀ (ls : List Ln) (x : Str), Good x → (∀ l ∈ ls, l.Ok) → Good (x ++ lnsSeg ls)
  | [], x, hx, _ => by simpa [lnsSeg] using hx
  | l :: ls, x, hx, hls => by
    have hl := hls l (by simp)
    have h1 := (hx.join (good_ref l hl) '\n').join (good_desc l.d hl.d) ' '
    have := good_lines ls _ h1 (fun y hy => hls y (by simp [hy]))
    simpa [lnsSeg, Ln.text, List.append_assoc] using this

theorem good_group_after (x : Str) (hx : Good x) (w : Char) (g : Gp) (hok : g.Ok) : Good (x ++ w :: g.text [' ']) := by
  have hl := hok.ls g.l (by simp [Gp.lines])
  have h1 := (((hx.join (good_hdr g.h hok.h) w).join (good_ref g.l hl) ' ').join (good_desc g.l.d hl.d) ' ')
  have := good_lines g.ls _ h1 (fun y hy => hok.ls y (by simp [Gp.lines, hy]))
  simpa [Gp.text, Gp.body, Ln.text, List.append_assoc] using this

theorem good_groups : ∀ (gs : List Gp) (x : Str), Good x → (∀ g ∈ gs, g.Ok) → Good (x ++ gpsSeg [' '] gs)
  | [], x, hx, _ => by simpa [gpsSeg] using hx
  | g :: gs, x, hx, hgs => by
    have h1 := good_group_after x hx '\n' g (hgs g (by simp))
    have := good_groups gs _ h1 (fun y hy => hgs y (by simp [hy]))
    simpa [gpsSeg, List.append_assoc] using this

theorem good_doc (g : Gp) (gs : List Gp) (hok : g.Ok) (hgs : ∀ x ∈ gs, x.Ok) : Good (docText [' '] (g :: gs)) := by
  have hl := hok.ls g.l (by simp [Gp.lines])
  have h1 := (((good_hdr g.h hok.h).join (good_ref g.l hl) ' ').join (good_desc g.l.d hl.d) ' ')
  have h2 := good_lines g.ls _ h1 (fun y hy => hok.ls y (by simp [Gp.lines, hy]))
  have := good_groups gs _ h2 hgs
  rw [docText_cons]
  simpa [Gp.text, Gp.body, Ln.text, List.append_assoc] using this


theorem slice_drop_split' (text : Str) (i j : Nat) (h : i ≤ j) (hj : j ≤ text.length) : slice text i j ++ text.drop j = text.drop i := by
  unfold slice
  have h1 : i ≤ (text.take j).length := by simp; omega
  rw [← List.drop_append_of_le_length h1, List.take_append_drop]

/-- `re.sub` along a tiling whose replacements reproduce the matched text changes nothing -/
theorem Tiles.go_id {r : Rx} {f : Match → Str} {text : Str} : ∀ {prev : Option Char} {rest : Str} {pos : Nat} {ms : List Match},
    Tiles r prev rest pos ms → ∀ pre : Str, text = pre ++ rest → pre.length = pos →
    (∀ m ∈ ms, f m = slice text m.start m.stop) → ∀ (i : Nat) (acc : Str), i ≤ pos →
    Rx.subWith.go text f ms i acc = acc ++ text.drop i := by
  intro prev rest pos ms h
  induction h with
  | nil prev pos _ => intro pre _ _ _ i acc _; rfl
  | skip prev c rest pos ms _ _ ih =>
    intro pre htext hlen hf i acc hi
    exact ih (pre ++ [c]) (by rw [htext]; simp) (by simp [hlen]) hf i acc (by omega)
  | tok prev seg rest pos m ms _ hst hsp _ _ ih =>
    intro pre htext hlen hf i acc hi
    have hfm := hf m (by simp)
    have := ih (pre ++ seg) (by rw [htext]; simp) (by simp [hlen]) (fun x hx => hf x (by simp [hx])) m.stop
      (acc ++ slice text i m.start ++ f m) (by omega)
    rw [Rx.subWith.go, this, hfm]
    have hlen2 : m.stop ≤ text.length := by rw [htext, hsp]; simp [hlen]
    rw [List.append_assoc, List.append_assoc, slice_drop_split' text m.start m.stop (by omega) hlen2,
      slice_drop_split' text i m.start (by omega) (by omega)]

theorem Tiles.subWith_id {r : Rx} {f : Match → Str} {text : Str} {ms : List Match} (h : Tiles r none text 0 ms)
    (hf : ∀ m ∈ ms, f m = slice text m.start m.stop) : r.subWith text f = text := by
  unfold Rx.subWith
  rw [h.finditer_eq]
  have := Tiles.go_id h [] rfl rfl hf 0 [] (Nat.le_refl _)
  simpa using this

/-- a pattern that fails at every position has no match -/
theorem finditer_nil_of_fails (r : Rx) (text : Str) (h : ∀ a b, text = a ++ b → Fails r ⟨lastOr none a, b, a.length, []⟩) :
    r.finditer text = [] := by
  have key : ∀ (b a : Str), text = a ++ b → Tiles r (lastOr none a) b a.length [] := by
    intro b
    induction b with
    | nil => intro a ha; exact Tiles.nil _ _ (matchHere_of_fails false (h a [] ha))
    | cons c b ih =>
      intro a ha
      refine Tiles.skip _ c b _ [] (matchHere_of_fails false (h a (c :: b) ha)) ?_
      have := ih (a ++ [c]) (by rw [ha]; simp)
      rw [lastOr_append] at this
      simpa [lastOr] using this
  exact (key text [] rfl).finditer_eq

theorem sub_of_finditer_nil (r : Rx) (repl text : Str) (h : r.finditer text = []) : r.sub repl text = text := by
  unfold Rx.sub Rx.subWith
  simp only [h, Rx.subWith.go, List.nil_append, List.drop_zero]

/-- `' +'` → `' '` on a text without two blanks in a row -/
theorem sub_blank_runs (text : Str) (hno : noWsPair text = true) :
    Gen.inl_plss_preprocess_reduce_whitespace_0.sub [' '] text = text := by
  have hdec : Gen.inl_plss_preprocess_reduce_whitespace_0 = .rep (.chr [(32, 32)]) 1 none := rfl
  have hcs : ∀ c : Char, CharSet.mem [(32, 32)] c = true → c = ' ' := fun c hc => char_eq_of_mem_single hc
  have key : ∀ (b a : Str), text = a ++ b → noWsPair b = true →
      ∃ ms, Tiles (.rep (.chr [(32, 32)]) 1 none) (lastOr none a) b a.length ms ∧ ∀ m ∈ ms, slice text m.start m.stop = [' '] := by
    intro b
    induction b with
    | nil =>
      intro a _ _
      refine ⟨[], Tiles.nil _ _ (matchHere_of_failsOn (FailsOn.of_first rfl (fun c hc => by cases hc)) _ _ false), fun _ h => by cases h⟩
    | cons c b ih =>
      intro a ha hb
      have hb' : noWsPair b = true := by
        cases b with
        | nil => rfl
        | cons d b' => simp only [noWsPair, Bool.and_eq_true] at hb; exact hb.2
      obtain ⟨ms, hT, hms⟩ := ih (a ++ [c]) (by rw [ha]; simp) hb'
      rw [lastOr_append] at hT
      have hT' : Tiles (.rep (.chr [(32, 32)]) 1 none) (some c) b (a.length + 1) ms := by simpa [lastOr] using hT
      by_cases hc : CharSet.mem [(32, 32)] c = true
      · have hcb := hcs c hc
        have hstop : StopAt [(32, 32)] b := by
          cases b with
          | nil => exact StopAt.nil _
          | cons d b' =>
            refine StopAt.cons ?_
            simp only [noWsPair, Bool.and_eq_true, Bool.not_eq_true'] at hb
            cases hd : CharSet.mem [(32, 32)] d with
            | false => rfl
            | true =>
              have := hcs d hd
              rw [hcb, this] at hb
              exact absurd hb.1 (by decide)
        have hL := Leads.run [(32, 32)] 1 none [c] b (lastOr none a) a.length [] (by intro x hx; simp at hx; rw [hx]; exact hc)
          (Or.inr hstop) (by simp) (fun _ hh => by cases hh)
        have hm := matchHere_of_leads false hL (Or.inr (by simp))
        refine ⟨⟨a.length, a.length + 1, []⟩ :: ms, ?_, ?_⟩
        · exact Tiles.tok _ [c] b _ _ ms hm rfl rfl (by simp) hT'
        · intro m hmem
          rcases List.mem_cons.1 hmem with rfl | hmem
          · show slice text a.length (a.length + 1) = [' ']
            rw [ha, ← hcb]
            exact slice_at _ a [c] b _ _ (by simp) rfl rfl
          · exact hms m hmem
      · have hc' : CharSet.mem [(32, 32)] c = false := by simpa using hc
        refine ⟨ms, Tiles.skip _ c b _ ms ?_ hT', hms⟩
        exact matchHere_of_failsOn (FailsOn.of_first rfl (fun x hx => by
          simp only [List.head?_cons, Option.some.injEq] at hx
          subst hx
          intro cs hcs'
          simp only [Rx.firstSets, List.mem_singleton] at hcs'
          subst hcs'
          exact hc')) _ _ false
  obtain ⟨ms, hT, hms⟩ := key text [] rfl hno
  rw [hdec]
  unfold Rx.sub
  exact hT.subWith_id (fun m hm => (hms m hm).symm)


theorem noWsPair_mid : ∀ (a : Str) (x y : Char) (t : Str), noWsPair (a ++ x :: y :: t) = true → wsPair x y = false
  | [], x, y, t, h => by
    simp only [List.nil_append, noWsPair, Bool.and_eq_true, Bool.not_eq_true'] at h; exact h.1
  | [c], x, y, t, h => by
    simp only [List.cons_append, List.nil_append, noWsPair, Bool.and_eq_true, Bool.not_eq_true'] at h; exact h.2.1
  | c :: d :: a, x, y, t, h => by
    simp only [List.cons_append, noWsPair, Bool.and_eq_true] at h
    exact noWsPair_mid (d :: a) x y t h.2

/-- `\n{2,}` finds nothing in a text without two line breaks in a row -/
theorem sub_nl_runs (text : Str) (hno : noWsPair text = true) :
    Gen.inl_plss_preprocess_reduce_whitespace_3.sub ['\n', '\n'] text = text := by
  have hdec : Gen.inl_plss_preprocess_reduce_whitespace_3 = .rep (.chr [(10, 10)]) 2 none := rfl
  rw [hdec]
  refine sub_of_finditer_nil _ _ _ (finditer_nil_of_fails _ _ ?_)
  intro a b hab
  have hfirst : ∀ (c : Char) (t : Str), CharSet.mem [(10, 10)] c = false → FailsOn (.rep (.chr [(10, 10)]) 2 none) (c :: t) := by
    intro c t hc
    refine FailsOn.of_first rfl ?_
    intro x hx cs hcs
    simp only [List.head?_cons, Option.some.injEq] at hx
    subst hx
    simp only [Rx.firstSets, List.mem_singleton] at hcs
    subst hcs
    exact hc
  cases b with
  | nil => exact FailsOn.of_first rfl (fun c hc => by cases hc) _ _ _
  | cons c b' =>
    by_cases hc : CharSet.mem [(10, 10)] c = true
    · have hcn : c = '\n' := char_eq_of_mem_single hc
      have hstop : StopAt [(10, 10)] b' := by
        cases b' with
        | nil => exact StopAt.nil _
        | cons d b'' =>
          refine StopAt.cons ?_
          cases hd : CharSet.mem [(10, 10)] d with
          | false => rfl
          | true =>
            have hdn : d = '\n' := char_eq_of_mem_single hd
            have := noWsPair_mid a c d b'' (by rw [← hab]; exact hno)
            rw [hcn, hdn] at this
            exact absurd this (by decide)
      exact failsOn_rep2 [(10, 10)] none c b' hc hstop _ _ _
    · exact hfirst c b' (by simpa using hc) _ _ _

/-- `^[ \t]` finds nothing in a text that starts with a letter -/
theorem sub_bos_blank (c : Char) (t : Str) (hc : CharSet.mem [(9, 9), (32, 32)] c = false) :
    Gen.inl_plss_preprocess_reduce_whitespace_4.sub [] (c :: t) = c :: t := by
  have hdec : Gen.inl_plss_preprocess_reduce_whitespace_4 = .seq .bos (.chr [(9, 9), (32, 32)]) := rfl
  rw [hdec]
  refine sub_of_finditer_nil _ _ _ (finditer_nil_of_fails _ _ ?_)
  intro a b hab
  unfold Fails
  cases a with
  | nil =>
    simp only [List.nil_append] at hab
    subst hab
    simp [Rx.all, hc]
  | cons x a' => simp [Rx.all]

/-- `\t+` and `\r` find nothing: the canonical text has no tab and no carriage return -/
theorem sub_tab_cr (sp : Str) (hsp : SepOk sp) (g : Gp) (gs : List Gp) (hok : g.Ok) (hgs : ∀ x ∈ gs, x.Ok) (r1 r2 : Str) :
    Gen.inl_plss_preprocess_reduce_whitespace_1.sub r1 (docText sp (g :: gs)) = docText sp (g :: gs) ∧
    Gen.inl_plss_preprocess_reduce_whitespace_2.sub r2 (docText sp (g :: gs)) = docText sp (g :: gs) := by
  have h1 : Gen.inl_plss_preprocess_reduce_whitespace_1.mustHitP (fun cs => cs.sub [(9, 9)]) = true := by decide
  have h2 : Gen.inl_plss_preprocess_reduce_whitespace_2.mustHitP (fun cs => cs.sub [(13, 13)]) = true := by decide
  constructor
  · exact sub_id_of_noHit h1 _ _ (fun c hc => docCh_avoid [(9, 9)] (by decide) (by decide +kernel) (by decide)
      (docCh_doc sp hsp g gs hok hgs c hc))
  · exact sub_id_of_noHit h2 _ _ (fun c hc => docCh_avoid [(13, 13)] (by decide) (by decide +kernel) (by decide)
      (docCh_doc sp hsp g gs hok hgs c hc))

theorem sepOk_blank : SepOk [' '] := ⟨by simp, fun c hc => by simp at hc; exact Or.inl hc⟩

/-- white-space reduction leaves the canonical text with a blank after every header unchanged -/
theorem reduceWhitespace_doc (g : Gp) (gs : List Gp) (hok : g.Ok) (hgs : ∀ x ∈ gs, x.Ok) :
    reduceWhitespace (docText [' '] (g :: gs)) = some (docText [' '] (g :: gs)) := by
  have hgood := good_doc g gs hok hgs
  have htc := sub_tab_cr [' '] sepOk_blank g gs hok hgs
  have hhead : docText [' '] (g :: gs) = 'T' :: ((g.h.t ++ g.h.ns :: '-' :: 'R' :: (g.h.r ++ [g.h.ew])) ++ (g.body [' '] ++ gpsSeg [' '] gs)) := by
    rw [docText_cons]; simp [Gp.text, Hd.text, canonText]
  have hstep : reduceWhitespaceStep (docText [' '] (g :: gs)) = docText [' '] (g :: gs) := by
    generalize hT : docText [' '] (g :: gs) = T at hgood htc hhead
    have e0 : Gen.inl_plss_preprocess_reduce_whitespace_0.sub (S " ") T = T := sub_blank_runs T hgood.np
    have e1 : Gen.inl_plss_preprocess_reduce_whitespace_1.sub (S " ") T = T := (htc (S " ") []).1
    have e2 : Gen.inl_plss_preprocess_reduce_whitespace_2.sub (S "\n") T = T := (htc [] (S "\n")).2
    have e3 : Gen.inl_plss_preprocess_reduce_whitespace_3.sub (S "\n\n") T = T := sub_nl_runs T hgood.np
    have e4 : Gen.inl_plss_preprocess_reduce_whitespace_4.sub [] T = T := by
      rw [hhead]; exact sub_bos_blank 'T' _ (by decide)
    unfold reduceWhitespaceStep
    simp only [e0, e1, e2, e3, e4]
  unfold reduceWhitespace
  simp only [pyStrip_doc [' '] g gs hok hgs]
  rw [show 2 * (docText [' '] (g :: gs)).length + 8 = (2 * (docText [' '] (g :: gs)).length + 7) + 1 from rfl]
  exact Tract.untilStable_of_fixed _ _ _ hstep


/-! ### `plss_preprocess` on the canonical text -/

theorem twprge_hcan (sp : Str) (hsp : SepOk sp) (ns ew : Str) (text : Str) (g : Gp) (pre post : Str) (hok : g.Ok) (hc : g.h.Canon)
    (htext : text = pre ++ (g.text sp ++ post)) : canonTR twprge (twMk g.h pre.length) text ns ew false = g.h.text := by
  have hv := g.h.valid hok.h (g.body sp ++ post) (by
    have : g.body sp ++ post = sp ++ (g.l.text ++ lnsSeg g.ls ++ post) := by simp [Gp.body]
    rw [this]; exact endsTwprge_sep sp _ hsp)
  have htext' : text = pre ++ (g.h.sp.text ++ (g.body sp ++ post)) := by rw [htext, g.h.sp_text]; simp [Gp.text]
  rw [htext']
  exact (g.h.sp.canonTR_at pre _ hv ns ew).trans (g.h.canon_text hok.h hc)

theorem map_canon_hdr (p : Pat) (mk : Hd → Nat → Match) (sp ns ew text : Str)
    (hcan : ∀ (g : Gp) (pre post : Str), g.Ok → g.h.Canon → text = pre ++ (g.text sp ++ post) →
      canonTR p (mk g.h pre.length) text ns ew false = g.h.text) :
    ∀ (gs : List Gp) (g : Gp) (pre : Str), g.Ok → g.h.Canon → (∀ x ∈ gs, x.Ok ∧ x.h.Canon) →
      text = pre ++ (g.text sp ++ gpsSeg sp gs) →
      (hdrMs mk sp pre.length (g :: gs)).map (fun m => canonTR p m text ns ew false) = (g :: gs).map (fun x => x.h.text)
  | [], g, pre, hok, hc, _, htext => by
    simp only [hdrMs, List.map_cons, List.map_nil, hcan g pre _ hok hc htext]
  | g' :: gs, g, pre, hok, hc, hgs, htext => by
    have ih := map_canon_hdr p mk sp ns ew text hcan gs g' (pre ++ g.text sp ++ ['\n']) (hgs g' (by simp)).1 (hgs g' (by simp)).2
      (fun x hx => hgs x (by simp [hx])) (by rw [htext]; simp [gpsSeg])
    have hl : (pre ++ g.text sp ++ ['\n']).length = pre.length + (g.text sp).length + 1 := by simp; omega
    rw [hl] at ih
    rw [show hdrMs mk sp pre.length (g :: g' :: gs) = mk g.h pre.length :: hdrMs mk sp (pre.length + (g.text sp).length + 1) (g' :: gs) from rfl]
    simp only [List.map_cons, hcan g pre _ hok hc htext]
    congr 1

/-- `find_twprge` on the canonical text: the headers, in order -/
theorem findTwprgeRaw_doc (sp : Str) (hsp : SepOk sp) (ns ew : Str) (h1 : isLegal Gen.LEGAL_NS ns = true) (h2 : isLegal Gen.LEGAL_EW ew = true)
    (g : Gp) (gs : List Gp) (hok : g.Ok) (hc : g.h.Canon) (hgs : ∀ x ∈ gs, x.Ok ∧ x.h.Canon) :
    findTwprgeRaw (docText sp (g :: gs)) ns ew = .ok ((g :: gs).map (fun x => x.h.text)) := by
  rw [C08_findTwprgeRaw_order _ ns ew h1 h2, twprge_finditer_doc sp hsp g gs hok (fun x hx => (hgs x hx).1)]
  have := map_canon_hdr twprge twMk sp ns ew (docText sp (g :: gs))
    (fun g' pre post hok' hc' ht => twprge_hcan sp hsp ns ew _ g' pre post hok' hc' ht) gs g [] hok hc hgs (by rw [docText_cons]; rfl)
  simp only [List.length_nil] at this
  rw [this]

theorem sepOk_cons_blank {sp : Str} (h : SepOk sp) : SepOk (' ' :: sp) :=
  ⟨by simp, fun c hc => by rcases List.mem_cons.1 hc with rfl | hc; exact Or.inl rfl; exact h.chars c hc⟩

/-- **`plss_preprocess` on the canonical text** (whatever blanks / line breaks stand between a header and its first line):
    the six scrubbers and the white-space reduction leave everything as it is EXCEPT the separator after every header,
    which becomes one blank; no `fixed_twprge`, no divergence -/
theorem plssPreprocess_doc (mc : MC) (defNS defEW : Option Str)
    (hm1 : isLegal Gen.LEGAL_NS mc.ns = true) (hm2 : isLegal Gen.LEGAL_EW mc.ew = true)
    (h1 : isLegal Gen.LEGAL_NS (resolve defNS mc.ns) = true) (h2 : isLegal Gen.LEGAL_EW (resolve defEW mc.ew) = true)
    (sp : Str) (hsp : SepOk sp) (g : Gp) (gs : List Gp) (hok : g.Ok) (hc : g.h.Canon) (hgs : ∀ x ∈ gs, x.Ok ∧ x.h.Canon) :
    plssPreprocess mc (docText sp (g :: gs)) defNS defEW false =
      .ok { text := docText [' '] (g :: gs), fixed := [], diverged := false } := by
  have hgs' : ∀ x ∈ gs, x.Ok := fun x hx => (hgs x hx).1
  have hsp1 := sepOk_cons_blank hsp
  have hsp2 := sepOk_cons_blank hsp1
  have hsp3 := sepOk_cons_blank hsp2
  have hsp4 := sepOk_cons_blank hsp3
  have ho := findTwprgeRaw_doc sp hsp mc.ns mc.ew hm1 hm2 g gs hok hc hgs
  have hp := findTwprgeRaw_doc [' '] sepOk_blank mc.ns mc.ew hm1 hm2 g gs hok hc hgs
  have s1 := scrub1_doc sp hsp _ _ h1 h2 g gs hok hc hgs
  have s2 := scrub2_doc _ hsp1 _ _ h1 h2 g gs hok hc hgs
  have s3 := scrub3_doc _ hsp2 _ _ h1 h2 g gs hok hc hgs
  have s4 := scrub4_doc _ hsp3 _ _ h1 h2 g gs hok hc hgs
  have s5 := scrub5_doc _ hsp4 _ _ h1 h2 g gs hok hgs'
  have s6 := scrub6_doc _ hsp4 _ _ h1 h2 g gs hok hc hgs
  have hrw := reduceWhitespace_doc g gs hok hgs'
  have hnames : scrubberNames false = ["twprge_regex", "pp_twprge_no_nswe", "pp_twprge_no_nsr", "pp_twprge_no_ewt",
    "pp_twprge_pm", "pp_twprge_comma_remove"] := rfl
  unfold plssPreprocess
  simp only [ho, hnames, List.foldlM_cons, List.foldlM_nil, s1, s2, s3, s4, s5, s6, bind, Except.bind, pure, Except.pure, hrw, hp,
    C08_fixed_nil_of_same]



/-! ## Part 9 — the whole parser on the canonical text -/

/-- a group whose header is a standard Twp/Rge (numbers below 1000, printed as Python prints them) -/
structure StdGp (g : Gp) : Prop where
  ok : g.Ok
  std : ∃ (a b : Nat) (ns ew : Char), a < 1000 ∧ b < 1000 ∧ (ns = 'n' ∨ ns = 's') ∧ (ew = 'e' ∨ ew = 'w') ∧ g.h = stdHd a b ns ew

theorem StdGp.canon {g : Gp} (h : StdGp g) : g.h.Canon := by
  obtain ⟨a, b, ns, ew, _, _, _, _, e⟩ := h.std
  rw [e]
  exact ⟨strip_natToStr a, strip_natToStr b⟩

/-- the (Twp/Rge key, line) pairs of the canonical text, in reading order -/
def docPairs (gs : List Gp) : List (Str × Ln) := gs.flatMap (fun g => g.lines.map (fun l => (g.h.key, l)))

/-- the tracts the canonical text stands for: (trs string, description) -/
def docTracts (gs : List Gp) : List (Str × Str) := (docPairs gs).map (fun p => (p.1 ++ [p.2.n1, p.2.n2], p.2.d))

theorem docComps_pairs (gs : List Gp) : docComps gs = (docPairs gs).map (fun p => lnComp p.1 p.2) := by
  simp [docComps, docPairs, List.map_flatMap, List.map_map, Function.comp_def]

theorem cleanupDesc_inert {d : Str} (h : Inert d) : cleanupDesc d = d := by
  have := C01_cleanup_block [] d [] (fun _ hc => by cases hc) (fun _ hc => by cases hc) h.clean
  simpa using this

theorem tractSpecs_pairs (cu : Bool) : ∀ (ps : List (Str × Ln)), (∀ p ∈ ps, p.2.Ok) →
    tractSpecs cu (ps.map (fun p => lnComp p.1 p.2)) = .ok (ps.map (fun p => (p.2.d, p.1 ++ [p.2.n1, p.2.n2], false)))
  | [], _ => rfl
  | p :: ps, h => by
    have ih := tractSpecs_pairs cu ps (fun q hq => h q (by simp [hq]))
    have hd := (h p (by simp)).d
    simp only [lnComp] at ih
    simp only [List.map_cons, tractSpecs, lnComp, ih, optStrPy, Option.getD_some, cleanupDesc_inert hd]
    cases cu <;> simp

theorem secWithinIndexes_false : ∀ (specs : List (Str × Str × Bool)), (∀ s ∈ specs, s.2.2 = false) → secWithinIndexes specs = [] := by
  intro specs h
  unfold secWithinIndexes
  rw [List.filter_eq_nil_iff]
  intro i hi
  simp only [List.mem_range] at hi
  simp [List.getElem?_eq_getElem hi, h _ (List.getElem_mem hi)]

theorem examineUnused_short (fl : Tract.Flags) : ∀ (unused : List (Nat × Str)), (∀ u ∈ unused, u.2.length < Gen.MIN_REPORTABLE_UNUSED_LEN) →
    examineUnused fl unused = fl := by
  intro unused h
  unfold examineUnused
  induction unused generalizing fl with
  | nil => rfl
  | cons u t ih =>
    have hu := h u (by simp)
    rw [List.foldl_cons]
    have : ¬ (u.2.length ≥ Gen.MIN_REPORTABLE_UNUSED_LEN) := by omega
    simp only [this, if_false]
    exact ih fl (fun x hx => h x (by simp [hx]))

theorem pad2_digits : asciiDs.all (fun n1 => asciiDs.all (fun n2 => (List.range 100).any (fun s => pyRJust (natToStr s) 2 '0' == [n1, n2]))) = true := by
  decide +kernel

/-- the trs string of a line of a standard group decomposes without error -/
theorem std_trs_ok (a b : Nat) (ns ew : Char) (ha : a < 1000) (hb : b < 1000) (hns : ns = 'n' ∨ ns = 's') (hew : ew = 'e' ∨ ew = 'w')
    (n1 n2 : Char) (h1 : asciiDigits.mem n1 = true) (h2 : asciiDigits.mem n2 = true) :
    let d := TRS.trsToDict (some ((stdHd a b ns ew).key ++ [n1, n2]))
    TRS.isError d = false ∧ d.trs = (stdHd a b ns ew).key ++ [n1, n2] ∧ d.twp = natToStr a ++ [ns] ∧ d.rge = natToStr b ++ [ew] ∧
      d.sec = some [n1, n2] := by
  have hp := pad2_digits
  simp only [List.all_eq_true, List.any_eq_true, List.mem_range, beq_iff_eq] at hp
  obtain ⟨s, hs, hse⟩ := hp n1 (mem_asciiDs h1) n2 (mem_asciiDs h2)
  have hk := stdHd_key a b ns ew ha hb hns hew
  obtain ⟨_, c1, c2, c3, c4, c5, c6, c7, c8, c9⟩ := C12_construct_canonical a b s ha hb hs ns ew hns hew
  have hcd := TrsRound.canon_dict a b s ha hb hs ns ew hns hew
  intro d
  have hd : d = TRS.trsToDict (some (natToStr a ++ [ns] ++ natToStr b ++ [ew] ++ pyRJust (natToStr s) 2 '0')) := by
    show TRS.trsToDict _ = _
    rw [hk, hse]; simp
  have hx : ([n1, n2] == ['x', 'x']) = false := by
    have : n1 ≠ 'x' := by rintro rfl; exact absurd h1 (by decide)
    simp [this]
  rw [hd]
  refine ⟨?_, ?_, ?_, ?_, ?_⟩
  · simp only [TRS.isError, c1, c3, c5]; rfl
  · rw [c9, hk, hse]; simp
  · rw [hcd]; simp [dictOf, TrsRound.canonParts, trText]
  · rw [hcd]; simp [dictOf, TrsRound.canonParts, trText]
  · rw [hcd]; simp [dictOf, TrsRound.canonParts, secText, hse, hx]


theorem genFlagsChunk_e (chunk : Str) (fl : Tract.Flags) : (genFlagsChunk chunk fl).e = fl.e ∧ (genFlagsChunk chunk fl).el = fl.el := by
  unfold genFlagsChunk
  exact ⟨rfl, rfl⟩

theorem docPairs_ok (gs : List Gp) (h : ∀ g ∈ gs, g.Ok) : ∀ p ∈ docPairs gs, p.2.Ok := by
  intro p hp
  simp only [docPairs, List.mem_flatMap, List.mem_map] at hp
  obtain ⟨g, hg, l, hl, rfl⟩ := hp
  exact (h g hg).ls l hl

theorem docPairs_std (gs : List Gp) (h : ∀ g ∈ gs, StdGp g) : ∀ p ∈ docPairs gs,
    ∃ (a b : Nat) (ns ew : Char), a < 1000 ∧ b < 1000 ∧ (ns = 'n' ∨ ns = 's') ∧ (ew = 'e' ∨ ew = 'w') ∧ p.1 = (stdHd a b ns ew).key ∧
      p.2.Ok := by
  intro p hp
  simp only [docPairs, List.mem_flatMap, List.mem_map] at hp
  obtain ⟨g, hg, l, hl, rfl⟩ := hp
  obtain ⟨a, b, ns, ew, ha, hb, hns, hew, e⟩ := (h g hg).std
  exact ⟨a, b, ns, ew, ha, hb, hns, hew, by rw [e], (h g hg).ok.ls l hl⟩

/-- **C01 — the forward direction on TEXT, through the whole parser, with no lexical premise.**
    For every abstract description — a non-empty list of standard Twp/Rges (numbers below 1000), each with a non-empty list
    of (two-digit section, inert block) — the canonical text (whatever blanks / line breaks separate a header from its first
    line: a line break in the rendering of `pretty_desc`) is parsed by `PLSSParser` (layout deduced or given as TRS_desc; any
    `require_colon` mode, any `clean_up`, any legal default directions; no OCR scrubbing, no segmenting, no `sec_within`)
    into exactly one tract per line, in reading order, with the Twp/Rge of its group, its section and its block verbatim;
    the layout is TRS_desc; there is no error flag; no tract has an error Twp/Rge/Sec. -/
theorem C01_canonical_forward (mc : MC) (uid0 : Nat) (a : ParserArgs) (sp : Str) (hsp : SepOk sp) (g : Gp) (gs : List Gp)
    (hstd : ∀ x ∈ g :: gs, StdGp x)
    (hm1 : isLegal Gen.LEGAL_NS mc.ns = true) (hm2 : isLegal Gen.LEGAL_EW mc.ew = true)
    (h1 : isLegal Gen.LEGAL_NS (resolve a.defaultNS mc.ns) = true) (h2 : isLegal Gen.LEGAL_EW (resolve a.defaultEW mc.ew) = true)
    (ha1 : a.ocrScrub = false) (ha2 : a.segment = false) (ha3 : a.secWithin = false)
    (hlay : a.layout = none ∨ a.layout = some TRS_DESC) (hd : Str) (c : Config.Cfg)
    (hhd : handedDownText a = .ok hd) (hcfg : Config.ofText hd = .ok c) :
    ∃ out, plssParser mc uid0 (docText sp (g :: gs)) a = .ok out ∧ out.layout = TRS_DESC ∧
      out.text = docText [' '] (g :: gs) ∧ out.fl.e = [] ∧
      out.tracts.map (fun t => (t.trs, t.desc)) = (docTracts (g :: gs)).map (fun p => (TRS.trsToDict (some p.1), p.2)) ∧
      (∀ t ∈ out.tracts, TRS.isError t.trs = false) := by
  have hok : g.Ok := (hstd g (by simp)).ok
  have hgs : ∀ x ∈ gs, x.Ok := fun x hx => (hstd x (by simp [hx])).ok
  have hgsc : ∀ x ∈ gs, x.Ok ∧ x.h.Canon := fun x hx => ⟨(hstd x (by simp [hx])).ok, (hstd x (by simp [hx])).canon⟩
  have hall : ∀ x ∈ g :: gs, x.Ok := fun x hx => (hstd x hx).ok
  -- preprocessing
  have hpp := plssPreprocess_doc mc a.defaultNS a.defaultEW hm1 hm2 h1 h2 sp hsp g gs hok (hstd g (by simp)).canon hgsc
  -- the layout
  have hdl := deduceLayout_doc [' '] sepOk_blank g gs hok hgs
  have hlayout : (match a.layout with | some l => l | none => deduceLayout (docText [' '] (g :: gs))) = TRS_DESC := by
    rcases hlay with e | e <;> simp [e, hdl]
  -- the chunk
  let pc : ParserCfg := { mandateLayout := !a.segment && a.layout.isSome, requireColon := a.requireColon, secWithin := a.secWithin }
  obtain ⟨ck, k1, k2, _, k4⟩ := C01_chunk_canonical mc pc hm1 hm2 [' '] sepOk_blank g gs hok hgs TRS_DESC (fun _ => rfl)
  obtain ⟨k5, k6⟩ := k4 ha3
  have hne : ck.comps.isEmpty = false := by
    rw [k5]; simp [docComps, Gp.lines]
  -- the tracts
  have hspecs := tractSpecs_pairs (match a.cleanUp with | some b => b | none => TRS_DESC != COPY_ALL) (docPairs (g :: gs))
    (docPairs_ok _ hall)
  obtain ⟨ts, hts, hlen⟩ := C03_buildTracts_total uid0 hd a.parseQQ a.source (docText sp (g :: gs)) TRS.trsToDict c hcfg
    ((docPairs (g :: gs)).map (fun p => (p.2.d, p.1 ++ [p.2.n1, p.2.n2], false))) 0
  have hpairs := TractsOf.buildTracts_pairs _ _ _ _ _ _ _ _ _ hts
  have hidx : secWithinIndexes ((docPairs (g :: gs)).map (fun p => (p.2.d, p.1 ++ [p.2.n1, p.2.n2], false))) = [] :=
    secWithinIndexes_false _ (by intro s hs; simp only [List.mem_map] at hs; obtain ⟨p, _, rfl⟩ := hs; rfl)
  have hunused : ∀ u ∈ ck.unused, u.2.length < Gen.MIN_REPORTABLE_UNUSED_LEN := by
    intro u hu
    have : u.2 ∈ ck.unused.map (·.2) := List.mem_map_of_mem hu
    rw [k6] at this
    simp only [List.mem_map] at this
    obtain ⟨_, _, e⟩ := this
    rw [← e]; decide
  have hnoerr : ∀ t ∈ ts, TRS.isError t.trs = false := by
    intro t ht
    have : (t.trs, t.desc) ∈ ts.map (fun t => (t.trs, t.desc)) := List.mem_map_of_mem ht
    rw [hpairs] at this
    simp only [List.map_map, List.mem_map, Function.comp_apply, Prod.mk.injEq] at this
    obtain ⟨p, hp, e1, _⟩ := this
    obtain ⟨a', b', ns, ew, ha', hb', hns, hew, hk, hl⟩ := docPairs_std _ hstd p hp
    rw [← e1, hk]
    exact (std_trs_ok a' b' ns ew ha' hb' hns hew p.2.n1 p.2.n2 hl.n1 hl.n2).1
  have hany : ts.any (fun t => TRS.isError t.trs) = false := by
    rw [List.any_eq_false]
    intro t ht
    simp [hnoerr t ht]
  have herr : ∀ fl, errorTractFlag fl ts = fl := by
    intro fl; unfold errorTractFlag; simp [hany]
  have hspecs' := fun cu => tractSpecs_pairs cu (docPairs (g :: gs)) (docPairs_ok _ hall)
  have hk1 : ∀ ml, parseChunkCore mc { mandateLayout := ml, requireColon := a.requireColon, secWithin := false }
      (docText [' '] (g :: gs)) false TRS_DESC = .ok ck := by
    intro ml
    have : parseChunkCore mc pc (docText [' '] (g :: gs)) false TRS_DESC =
        parseChunkCore mc { mandateLayout := ml, requireColon := a.requireColon, secWithin := false }
          (docText [' '] (g :: gs)) false TRS_DESC := by
      unfold parseChunkCore chunkLayoutOf
      simp only [Bool.false_eq_true, if_false, pc, ha3, hdl]
      cases ml <;> cases (!a.segment && a.layout.isSome) <;> simp [hdl, finishChunk, ha3]
    rw [← this]; exact k1
  let pfl := genFlagsChunk (docText [' '] (g :: gs)) (fixedFlags [])
  let P : ParentSt := { fl := { w := pfl.w ++ ck.fl.w, wl := pfl.wl ++ ck.fl.wl, e := pfl.e ++ ck.fl.e, el := pfl.el ++ ck.fl.el },
                        comps := [] ++ ck.comps, unused := [] ++ ck.unused }
  have hchunk : ∀ ml, chunkParser mc { mandateLayout := ml, requireColon := a.requireColon, secWithin := false } (docText [' '] (g :: gs)) false TRS_DESC
      { fl := fixedFlags [] } = .ok P := by
    intro ml
    unfold chunkParser
    rw [hk1 ml]
    simp only [hne, Bool.false_eq_true, if_false]
    rfl
  have hblocks : parseAllBlocks mc (docText [' '] (g :: gs)) TRS_DESC a (fixedFlags []) = .ok P := by
    have hcopy : (TRS_DESC == COPY_ALL) = false := by decide
    unfold parseAllBlocks
    simp only [ha2, ha3, Bool.false_eq_true, if_false, parseBlocks, hcopy, hchunk]
  have hPc : P.comps = (docPairs (g :: gs)).map (fun p => lnComp p.1 p.2) := by
    show [] ++ ck.comps = _
    rw [List.nil_append, k5, docComps_pairs]
  have hrest : ∀ cu, ∃ out, (match tractSpecs cu P.comps with
        | .error e => (.error e : Except PyErr ParserOut)
        | .ok specs =>
          match buildTracts uid0 hd a.parseQQ a.source (docText sp (g :: gs)) TRS.trsToDict 0 specs with
          | .error e => .error e
          | .ok tracts =>
            match secWithinFlags tracts (examineUnused P.fl P.unused) (secWithinIndexes specs) with
            | .error e => .error e
            | .ok fl1 =>
              let fl := errorTractFlag fl1 tracts
              let tracts := handDownFlags fl tracts
              .ok { tracts := tracts, fl := fl, layout := TRS_DESC, text := (docText [' '] (g :: gs)), nextUid := uid0 + specs.length,
                    diverged := false || tracts.any (·.diverged), handedDown := hd }) = .ok out ∧
      out.layout = TRS_DESC ∧ out.text = (docText [' '] (g :: gs)) ∧ out.fl.e = [] ∧
      out.tracts.map (fun t => (t.trs, t.desc)) = (docTracts (g :: gs)).map (fun p => (TRS.trsToDict (some p.1), p.2)) ∧
      (∀ t ∈ out.tracts, TRS.isError t.trs = false) := by
    intro cu
    rw [hPc, hspecs' cu]
    simp only [hts, hidx, secWithinFlags, herr]
    refine ⟨_, rfl, rfl, rfl, ?_, ?_, ?_⟩
    · simp only []
      have hu : ∀ u ∈ P.unused, u.2.length < Gen.MIN_REPORTABLE_UNUSED_LEN := by
        intro u hu; exact hunused u (by simpa [P] using hu)
      rw [examineUnused_short _ _ hu]
      show pfl.e ++ ck.fl.e = []
      rw [k2, (genFlagsChunk_e _ _).1]
      rfl
    · simp only [handDownFlags, List.map_map, Function.comp_def]
      rw [hpairs]
      simp [docTracts, List.map_map, Function.comp_def]
    · intro t ht
      simp only [handDownFlags, List.mem_map] at ht
      obtain ⟨t', ht', rfl⟩ := ht
      exact hnoerr t' ht'
  unfold plssParser
  simp only [hhd, ha1, hpp]
  rcases hlay with e | e
  · simp only [e, hdl]
    rw [hblocks]
    exact hrest _
  · simp only [e]
    rw [hblocks]
    exact hrest _



/-! ## Part 10 — round trip through the whole parser; what the task statement got wrong; non-vacuity -/

/-- **`plss_preprocess` does NOT leave the rendering of `pretty_desc` unchanged** (the task statement assumed it does): for
    EVERY canonical rendering (line break after the headers) the preprocessed text has a blank there instead — the scrubbers
    insert a blank after every Twp/Rge and `pp_twprge_comma_remove` then swallows all the white space behind it -/
theorem C01_preprocess_changes_rendering (mc : MC) (defNS defEW : Option Str)
    (hm1 : isLegal Gen.LEGAL_NS mc.ns = true) (hm2 : isLegal Gen.LEGAL_EW mc.ew = true)
    (h1 : isLegal Gen.LEGAL_NS (resolve defNS mc.ns) = true) (h2 : isLegal Gen.LEGAL_EW (resolve defEW mc.ew) = true)
    (g : Gp) (gs : List Gp) (hstd : ∀ x ∈ g :: gs, StdGp x) :
    plssPreprocess mc (docText ['\n'] (g :: gs)) defNS defEW false =
      .ok { text := docText [' '] (g :: gs), fixed := [], diverged := false } ∧
    docText [' '] (g :: gs) ≠ docText ['\n'] (g :: gs) := by
  refine ⟨plssPreprocess_doc mc defNS defEW hm1 hm2 h1 h2 ['\n'] sepOk_nl g gs (hstd g (by simp)).ok (hstd g (by simp)).canon
    (fun x hx => ⟨(hstd x (by simp [hx])).ok, (hstd x (by simp [hx])).canon⟩), ?_⟩
  intro e
  rw [docText_cons, docText_cons] at e
  simp only [Gp.text, Gp.body, List.append_assoc] at e
  have := List.append_cancel_left e
  simp at this

/-- **C01 — round trip of `pretty_desc` through the WHOLE parser, on text, with no lexical premise**: for standard tracts
    with inert descriptions, `PLSSParser` on the text `pretty_desc()` returns yields the layout TRS_desc, no error flag, and
    exactly one tract per original tract, in order, with the same Twp/Rge/Sec string and the same description; every such
    tract's `trs` is the decomposition of that string and is not an error Twp/Rge/Sec -/
theorem C01_pretty_roundtrip_parser (mc : MC) (uid0 : Nat) (a : ParserArgs) (ts : List TractObj) (justify : Option Str) (txt : Str)
    (hstd : ∀ t ∈ ts, StdTract t) (htxt : prettyDesc ts (S "Sec ") justify = some txt)
    (hm1 : isLegal Gen.LEGAL_NS mc.ns = true) (hm2 : isLegal Gen.LEGAL_EW mc.ew = true)
    (h1 : isLegal Gen.LEGAL_NS (resolve a.defaultNS mc.ns) = true) (h2 : isLegal Gen.LEGAL_EW (resolve a.defaultEW mc.ew) = true)
    (ha1 : a.ocrScrub = false) (ha2 : a.segment = false) (ha3 : a.secWithin = false)
    (hlay : a.layout = none ∨ a.layout = some TRS_DESC) (hd : Str) (c : Config.Cfg)
    (hhd : handedDownText a = .ok hd) (hcfg : Config.ofText hd = .ok c) :
    ∃ out, plssParser mc uid0 txt a = .ok out ∧ out.layout = TRS_DESC ∧ out.fl.e = [] ∧
      out.tracts.map (fun t => (t.trs.trs, t.desc)) = ts.map (fun t => (t.trs.twp ++ t.trs.rge ++ secStr t, t.desc)) ∧
      (∀ t ∈ out.tracts, t.trs = TRS.trsToDict (some t.trs.trs) ∧ TRS.isError t.trs = false) := by
  have hts : ts ≠ [] := by
    intro e; subst e; simp [prettyDesc] at htxt
  obtain ⟨g, gs, hok, hgs, p1, _, p3, p4⟩ := pretty_is_doc ts justify hts hstd
  rw [p1] at htxt
  have htxt := Option.some.inj htxt
  subst htxt
  have hsg : ∀ x ∈ g :: gs, StdGp x := by
    intro x hx
    refine ⟨?_, p4 x hx⟩
    rcases List.mem_cons.1 hx with rfl | hx
    · exact hok
    · exact hgs x hx
  obtain ⟨out, o1, o2, _, o4, o5, o6⟩ := C01_canonical_forward mc uid0 a ['\n'] sepOk_nl g gs hsg hm1 hm2 h1 h2 ha1 ha2 ha3 hlay hd c hhd hcfg
  -- the tracts' strings
  have hpairs : ts.map (fun t => (t.trs.twp ++ t.trs.rge, secStr t, t.desc)) =
      (docPairs (g :: gs)).map (fun p => (p.1, [p.2.n1, p.2.n2], p.2.d)) := by
    have := congrArg (List.map (fun (c : Component) => (c.twprge.getD [], (c.sec.getD []).headD [], c.desc))) p3
    rw [docComps_pairs] at this
    simpa [tractComps, List.map_map, Function.comp_def, lnComp] using this
  have hdict : ∀ p ∈ docPairs (g :: gs), (TRS.trsToDict (some (p.1 ++ [p.2.n1, p.2.n2]))).trs = p.1 ++ [p.2.n1, p.2.n2] ∧
      TRS.isError (TRS.trsToDict (some (p.1 ++ [p.2.n1, p.2.n2]))) = false := by
    intro p hp
    obtain ⟨a', b', ns, ew, ha', hb', hns, hew, hk, hl⟩ := docPairs_std _ hsg p hp
    have := std_trs_ok a' b' ns ew ha' hb' hns hew p.2.n1 p.2.n2 hl.n1 hl.n2
    rw [hk]
    exact ⟨this.2.1, this.1⟩
  have ho4 : out.tracts.map (fun t => (t.trs, t.desc)) =
      (docPairs (g :: gs)).map (fun p => (TRS.trsToDict (some (p.1 ++ [p.2.n1, p.2.n2])), p.2.d)) := by
    rw [o5]; simp [docTracts, List.map_map, Function.comp_def]
  refine ⟨out, o1, o2, o4, ?_, ?_⟩
  · have e1 := congrArg (List.map (fun (x : TRS.TrsDict × Str) => (x.1.trs, x.2))) ho4
    have e2 := congrArg (List.map (fun (x : Str × Str × Str) => (x.1 ++ x.2.1, x.2.2))) hpairs
    simp only [List.map_map, Function.comp_def] at e1 e2
    rw [e1]
    have e3 : (docPairs (g :: gs)).map (fun p => ((TRS.trsToDict (some (p.1 ++ [p.2.n1, p.2.n2]))).trs, p.2.d)) =
        (docPairs (g :: gs)).map (fun p => (p.1 ++ [p.2.n1, p.2.n2], p.2.d)) := by
      apply List.map_congr_left
      intro p hp
      rw [(hdict p hp).1]
    rw [e3, ← e2]
  · intro t ht
    have : (t.trs, t.desc) ∈ out.tracts.map (fun t => (t.trs, t.desc)) := List.mem_map_of_mem ht
    rw [ho4] at this
    simp only [List.mem_map, Prod.mk.injEq] at this
    obtain ⟨p, hp, e, _⟩ := this
    have hd' := hdict p hp
    rw [← e]
    rw [hd'.1]
    exact ⟨rfl, hd'.2⟩


/-! ### non-vacuity: concrete instances of every main theorem -/

namespace LayoutEx

def g1 : Gp := ⟨stdHd 154 97 'n' 'w', ⟨'1', '4', S "hog valley by bluff"⟩, [⟨'1', '5', S "NE corner (brown well) & rhubarb field #"⟩]⟩
def g2 : Gp := ⟨stdHd 7 102 's' 'e', ⟨'3', '6', S "wy Wyoming; f/k/a marker"⟩, []⟩

theorem g1_std : StdGp g1 :=
  ⟨⟨stdHd_ok 154 97 'n' 'w' (by decide) (by decide) (Or.inl rfl) (Or.inr rfl), by
      intro l hl
      simp only [Gp.lines, g1, List.mem_cons, List.not_mem_nil, or_false] at hl
      rcases hl with rfl | rfl
      · exact ⟨by decide, by decide, by decide +kernel⟩
      · exact ⟨by decide, by decide, by decide +kernel⟩⟩,
    ⟨154, 97, 'n', 'w', by decide, by decide, Or.inl rfl, Or.inr rfl, rfl⟩⟩

theorem g2_std : StdGp g2 :=
  ⟨⟨stdHd_ok 7 102 's' 'e' (by decide) (by decide) (Or.inr rfl) (Or.inl rfl), by
      intro l hl
      simp only [Gp.lines, g2, List.mem_cons, List.not_mem_nil, or_false] at hl
      subst hl
      exact ⟨by decide, by decide, by decide +kernel⟩⟩,
    ⟨7, 102, 's', 'e', by decide, by decide, Or.inr rfl, Or.inl rfl, rfl⟩⟩

theorem all_std : ∀ x ∈ [g1, g2], StdGp x := by
  intro x hx
  simp only [List.mem_cons, List.not_mem_nil, or_false] at hx
  rcases hx with rfl | rfl
  · exact g1_std
  · exact g2_std

/-- the canonical text of the two groups, as `pretty_desc` renders it -/
theorem text_eq : docText ['\n'] [g1, g2] =
    S "T154N-R97W\nSec 14: hog valley by bluff\nSec 15: NE corner (brown well) & rhubarb field #\nT7S-R102E\nSec 36: wy Wyoming; f/k/a marker" := by
  decide +kernel

theorem text_pp : docText [' '] [g1, g2] =
    S "T154N-R97W Sec 14: hog valley by bluff\nSec 15: NE corner (brown well) & rhubarb field #\nT7S-R102E Sec 36: wy Wyoming; f/k/a marker" := by
  decide +kernel

def pc : ParserCfg := { mandateLayout := false, requireColon := .cautious, secWithin := false }

/-- `C01_chunk_canonical` on the concrete text -/
example : ∃ c, parseChunkCore {} pc (docText ['\n'] [g1, g2]) false TRS_DESC = .ok c ∧ c.fl.e = [] ∧ c.fl.w = [] ∧
    (pc.secWithin = false → c.comps = docComps [g1, g2] ∧ c.unused.map (·.2) = [g1, g2].map (fun _ => ['\n'])) :=
  C01_chunk_canonical {} pc (by decide) (by decide) ['\n'] sepOk_nl g1 [g2] g1_std.ok
    (fun x hx => by simp only [List.mem_singleton] at hx; subst hx; exact g2_std.ok) TRS_DESC (fun h => by cases h)

example : (docComps [g1, g2]).map (fun c => (c.twprge, c.sec, c.desc)) =
    [(some (S "154n97w"), some [S "14"], S "hog valley by bluff"),
     (some (S "154n97w"), some [S "15"], S "NE corner (brown well) & rhubarb field #"),
     (some (S "7s102e"), some [S "36"], S "wy Wyoming; f/k/a marker")] := by decide +kernel

def hd0 : Str := Pretty.okOr (handedDownText {}) []
theorem hd0_ok : handedDownText {} = .ok hd0 := Pretty.except_ok_of _ _ (by decide +kernel)
def cfg0 : Config.Cfg := Pretty.okOr (Config.ofText hd0) []
theorem cfg0_ok : Config.ofText hd0 = .ok cfg0 := Pretty.except_ok_of _ _ (by decide +kernel)

/-- `C01_canonical_forward` on the concrete text, default arguments -/
example : ∃ out, plssParser {} 0 (docText ['\n'] [g1, g2]) {} = .ok out ∧ out.layout = TRS_DESC ∧
    out.text = docText [' '] [g1, g2] ∧ out.fl.e = [] ∧
    out.tracts.map (fun t => (t.trs, t.desc)) = (docTracts [g1, g2]).map (fun p => (TRS.trsToDict (some p.1), p.2)) ∧
    (∀ t ∈ out.tracts, TRS.isError t.trs = false) :=
  C01_canonical_forward {} 0 {} ['\n'] sepOk_nl g1 [g2] all_std (by decide) (by decide) (by decide) (by decide) rfl rfl rfl (Or.inl rfl)
    hd0 cfg0 hd0_ok cfg0_ok

example : docTracts [g1, g2] = [(S "154n97w14", S "hog valley by bluff"), (S "154n97w15", S "NE corner (brown well) & rhubarb field #"),
    (S "7s102e36", S "wy Wyoming; f/k/a marker")] := by decide +kernel

/-- `C01_preprocess_changes_rendering` on the concrete text -/
example : plssPreprocess {} (docText ['\n'] [g1, g2]) none none false =
      .ok { text := docText [' '] [g1, g2], fixed := [], diverged := false } ∧ docText [' '] [g1, g2] ≠ docText ['\n'] [g1, g2] :=
  C01_preprocess_changes_rendering {} none none (by decide) (by decide) (by decide) (by decide) g1 [g2] all_std

/-- standard tracts: 154n97w14 "hog valley by bluff", 154n97w15 "ridge road" -/
def tracts : List TractObj :=
  [PrettyEx.mkTract (S "14") 14 (S "hog valley by bluff"), PrettyEx.mkTract (S "15") 15 (S "ridge road")]

theorem tracts_std : ∀ t ∈ tracts, StdTract t := by
  intro t ht
  simp only [tracts, List.mem_cons, List.not_mem_nil, or_false] at ht
  rcases ht with rfl | rfl
  · exact ⟨⟨154, 97, 'n', 'w', by decide, by decide, Or.inl rfl, Or.inr rfl, by decide +kernel, by decide +kernel⟩,
      ⟨'1', '4', by decide, by decide, rfl⟩, by decide +kernel⟩
  · exact ⟨⟨154, 97, 'n', 'w', by decide, by decide, Or.inl rfl, Or.inr rfl, by decide +kernel, by decide +kernel⟩,
      ⟨'1', '5', by decide, by decide, rfl⟩, by decide +kernel⟩

def rendered : Str := S "T154N-R97W\nSec 14: hog valley by bluff\nSec 15: ridge road"
theorem rendered_eq : prettyDesc tracts (S "Sec ") none = some rendered := by decide +kernel

/-- `C01_finders_report_canonical` on the concrete rendering -/
example : ∃ (trs : List TRMatch) (secs : List SecMatch),
    FindersReport {} pc rendered (prettyGroups tracts (S "Sec ") none) trs {} secs {} ∧ deduceLayout rendered = TRS_DESC ∧
    (∀ parent, pc.mandateLayout = false → chunkLayoutOf pc rendered false parent = TRS_DESC) :=
  C01_finders_report_canonical {} pc (by decide) (by decide) tracts none rendered tracts_std rendered_eq

/-- `C01_pretty_roundtrip_text` on the concrete rendering -/
example : ∃ c, parseChunkCore {} pc rendered false TRS_DESC = .ok c ∧ c.fl.e = [] ∧ c.fl.w = [] ∧ c.comps = tractComps tracts :=
  C01_pretty_roundtrip_text {} pc (by decide) (by decide) tracts none rendered TRS_DESC tracts_std rendered_eq (fun h => by cases h) rfl

/-- `C01_pretty_roundtrip_parser` on the concrete rendering -/
example : ∃ out, plssParser {} 0 rendered {} = .ok out ∧ out.layout = TRS_DESC ∧ out.fl.e = [] ∧
    out.tracts.map (fun t => (t.trs.trs, t.desc)) = tracts.map (fun t => (t.trs.twp ++ t.trs.rge ++ secStr t, t.desc)) ∧
    (∀ t ∈ out.tracts, t.trs = TRS.trsToDict (some t.trs.trs) ∧ TRS.isError t.trs = false) :=
  C01_pretty_roundtrip_parser {} 0 {} tracts none rendered tracts_std rendered_eq (by decide) (by decide) (by decide) (by decide)
    rfl rfl rfl (Or.inl rfl) hd0 cfg0 hd0_ok cfg0_ok

example : tracts.map (fun t => (t.trs.twp ++ t.trs.rge ++ secStr t, t.desc)) =
    [(S "154n97w14", S "hog valley by bluff"), (S "154n97w15", S "ridge road")] := by decide +kernel

end LayoutEx

#print axioms Rx.all_foot2
#print axioms Fails.of_break
#print axioms hdrTiles
#print axioms secTok
#print axioms between_search_none
#print axioms secFinder_doc
#print axioms twprgeFinder_doc
#print axioms populateMarkers_groups
#print axioms deduceLayout_doc
#print axioms plssPreprocess_doc
#print axioms pretty_is_doc
#print axioms C01_chunk_canonical
#print axioms C01_finders_report_canonical
#print axioms C01_pretty_roundtrip_text
#print axioms C01_canonical_forward
#print axioms C01_preprocess_changes_rendering
#print axioms C01_pretty_roundtrip_parser


end PyTRS
