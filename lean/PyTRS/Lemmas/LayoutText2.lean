/-
C01 — the layout Sec–desc–Twp/Rge (`S_desc_TR`) on TEXT, with no lexical premise at chunk level
(continuation of `Lemmas/LayoutText.lean`, which does Twp/Rge–Sec–desc end to end).

The canonical text `sText sp l ls gs hL`: lines `Sec nn: <inert block>` (separated by line breaks), a line break, the
Twp/Rge `T154N-R97W` that CLOSES the group; then a separator `sp` (blanks / line breaks, at least one), the lines of the next
group, …; the text ends with the last Twp/Rge `hL`.  (`l :: ls` = the lines of the first group; a `Gp` of `gs` = a Twp/Rge
and the lines that follow it, i.e. the lines of the NEXT group.)  `Inert` needed no strengthening for this layout.

Contents.
* Part 0: `secFinder` / `twprgeFinder` do not distinguish S_desc_TR from TRS_desc (`secFinder_S`, `twprgeFinder_S`).
* Part 1: the text; `hdrsTiles` / `sTextTiles` — tiling by headers for any pattern with `GapSkips` (also for the scrubbers).
* Part 2: `secFinder_sText`, `twprgeFinder_sText` (the context check `sec_twprge_in_between` between the last section
  reference of a group and its Twp/Rge finds nothing: `trStepH`, `trFoldS`).
* Part 3: the arrangement `sGroups`, `populateMarkers_S` (start-of-text AND end-of-text marker overwritten),
  `populateMarkers_sText`.
* Part 4: `sGroups_comps`, `sText_unused`, `C01_reports_S_desc_TR` (the premise `Reports` of Lemmas/Segment.lean),
  `deduceLayout_sText`, **`C01_chunk_canonical_S_desc_TR`** (`parse_chunk`, any separator).
* Part 5: **`C01_canonical_forward_S_desc_TR_partial`** — the whole `PLSSParser`, GIVEN the result of `plss_preprocess`
  (hypothesis `hpp`); the full statement is `C01_canonical_forward_S_desc_TR_statement` (what is missing: the six scrubbers
  and the white-space reduction on `sText` — every scrubber appends a blank behind the LAST Twp/Rge too, so the intermediate
  texts end in blanks, which `pp_twprge_comma_remove` and the final strip remove again).
* Part 6: concrete instances (the premise `hpp` is checked by kernel evaluation there).
-/
import PyTRS.Lemmas.LayoutText
import PyTRS.Lemmas.Segment
set_option linter.unusedSimpArgs false
set_option linter.unusedVariables false
namespace PyTRS
open PyTRS.Obj PyTRS.Plss PyTRS.Export PyTRS.Unpack

/-! ## Part 0 — the two finders do not distinguish TRS_desc from S_desc_TR -/

theorem secFindStep_S (text : Str) : secFindStep text S_DESC_TR = secFindStep text TRS_DESC := by
  funext nc st mo
  unfold secFindStep
  have e : firstLayouts S_DESC_TR = firstLayouts TRS_DESC := by decide
  simp only [e]

theorem secFinder_S (text : Str) (rc : ReqColon) : secFinder text S_DESC_TR rc = secFinder text TRS_DESC rc := by
  have e : firstLayouts S_DESC_TR = firstLayouts TRS_DESC := by decide
  unfold secFinder secFinderPass
  simp only [e, secFindStep_S]

theorem trFindStep_S (mc : MC) (text : Str) : trFindStep mc text S_DESC_TR = trFindStep mc text TRS_DESC := by
  funext st mo
  unfold trFindStep
  have e1 : (S_DESC_TR == DESC_STR || S_DESC_TR == TR_DESC_S || S_DESC_TR == COPY_ALL) = false := by decide
  have e2 : (TRS_DESC == DESC_STR || TRS_DESC == TR_DESC_S || TRS_DESC == COPY_ALL) = false := by decide
  simp only [e1, e2]

theorem twprgeFinder_S (mc : MC) (text : Str) : twprgeFinder mc text S_DESC_TR = twprgeFinder mc text TRS_DESC := by
  unfold twprgeFinder
  rw [trFindStep_S]

/-! ## Part 1 — the canonical text of the layout Sec–desc–Twp/Rge -/

/-- the lines of a group -/
def lnsText (l : Ln) (ls : List Ln) : Str := l.text ++ lnsSeg ls

/-- what follows the line break behind the lines of the first group: the Twp/Rges, each (but the last) followed by the
    separator and the lines of the next group; the last Twp/Rge ends the text.  (`Gp` = a Twp/Rge and the lines that FOLLOW
    it, i.e. the lines of the NEXT group.) -/
def hdrsFrom (sp : Str) : List Gp → Hd → Str
  | [], hL => hL.text
  | g :: gs, hL => g.text sp ++ '\n' :: hdrsFrom sp gs hL

/-- the canonical text: the lines `l :: ls` of the first group, its Twp/Rge (the header of the first `Gp`, or `hL`), … -/
def sText (sp : Str) (l : Ln) (ls : List Ln) (gs : List Gp) (hL : Hd) : Str := lnsText l ls ++ '\n' :: hdrsFrom sp gs hL

theorem nl_hdrsFrom (sp : Str) (hL : Hd) : ∀ gs : List Gp, '\n' :: hdrsFrom sp gs hL = gpsSeg sp gs ++ '\n' :: hL.text
  | [] => rfl
  | g :: gs => by
    have ih := nl_hdrsFrom sp hL gs
    simp only [hdrsFrom, gpsSeg, List.cons_append, List.append_assoc, ih]

theorem hdrsFrom_head (sp : Str) (hL : Hd) (hLok : hL.Ok) : ∀ gs : List Gp, (∀ x ∈ gs, x.Ok) →
    ∃ (h : Hd) (rest : Str), h.Ok ∧ hdrsFrom sp gs hL = h.text ++ rest
  | [], _ => ⟨hL, [], hLok, by simp [hdrsFrom]⟩
  | g :: gs, hgs => ⟨g.h, g.body sp ++ '\n' :: hdrsFrom sp gs hL, (hgs g (by simp)).h, by simp [hdrsFrom, Gp.text]⟩

theorem groupTail_hdrsFrom (sp : Str) (hL : Hd) (hLok : hL.Ok) (gs : List Gp) (hgs : ∀ x ∈ gs, x.Ok) :
    GroupTail ('\n' :: hdrsFrom sp gs hL) := by
  obtain ⟨h, rest, hok, e⟩ := hdrsFrom_head sp hL hLok gs hgs
  exact Or.inr ⟨h, rest, hok, by rw [e]⟩

theorem Hd.text_ne (h : Hd) : h.text ≠ [] := by simp [Hd.text, canonText]

/-- **tiling by headers** (layout Sec–desc–Twp/Rge): a pattern that matches each header (`eat = false`) or each header
    together with the separator behind it (`eat = true`; the last header has none) and nothing in between -/
theorem hdrsTiles (r : Rx) (hg : GapSkips r) (sp : Str) (hsp : SepOk sp) (eat : Bool)
    (mk : Hd → Nat → Match)
    (htok : ∀ (h : Hd) (l : Ln) (rest : Str) (prev : Option Char) (pos : Nat), h.Ok → l.Ok →
       isWord Gen.cs_14d6aa8a prev = false →
       matchHere r ⟨prev, h.text ++ (sp ++ (l.ref ++ rest)), pos, []⟩ false = some (mk h pos) ∧ (mk h pos).start = pos ∧
       (mk h pos).stop = pos + h.text.length + (if eat then sp.length else 0))
    (mkL : Hd → Nat → Match)
    (htokL : ∀ (h : Hd) (prev : Option Char) (pos : Nat), h.Ok → isWord Gen.cs_14d6aa8a prev = false →
       matchHere r ⟨prev, h.text, pos, []⟩ false = some (mkL h pos) ∧ (mkL h pos).start = pos ∧
       (mkL h pos).stop = pos + h.text.length)
    (hL : Hd) (hLok : hL.Ok) :
    ∀ (gs : List Gp) (q : Nat) (prev : Option Char), (∀ x ∈ gs, x.Ok) → isWord Gen.cs_14d6aa8a prev = false →
      Tiles r prev (hdrsFrom sp gs hL) q (hdrMs mk sp q gs ++ [mkL hL (q + (gpsSeg sp gs).length)]) := by
  intro gs
  induction gs with
  | nil =>
    intro q prev _ hprev
    obtain ⟨h1, h2, h3⟩ := htokL hL prev q hLok hprev
    have := Tiles.tok prev hL.text [] q (mkL hL q) [] (by simpa using h1) h2 h3 hL.text_ne
      (Tiles.nil _ _ (matchHere_of_failsOn hg.fin0 _ _ false))
    simpa [hdrsFrom, hdrMs, gpsSeg] using this
  | cons g gs ih =>
    intro q prev hgs hprev
    have hok := hgs g (by simp)
    have hgs' : ∀ x ∈ gs, x.Ok := fun x hx => hgs x (by simp [hx])
    have hl := hok.ls g.l (by simp [Gp.lines])
    have htail : GroupTail ('\n' :: hdrsFrom sp gs hL) := groupTail_hdrsFrom sp hL hLok gs hgs'
    obtain ⟨h1, h2, h3⟩ := htok g.h g.l (' ' :: g.l.d ++ (lnsSeg g.ls ++ '\n' :: hdrsFrom sp gs hL)) prev q hok.h hl hprev
    have hrest : ∀ p pos, Tiles r p ('\n' :: hdrsFrom sp gs hL) pos
        (hdrMs mk sp (pos + 1) gs ++ [mkL hL (pos + 1 + (gpsSeg sp gs).length)]) := by
      intro p pos
      obtain ⟨h', rest', hok', e'⟩ := hdrsFrom_head sp hL hLok gs hgs'
      refine Tiles.skip p '\n' _ pos _ ?_ (ih (pos + 1) (some '\n') hgs' isWord_nl)
      rw [e']
      exact matchHere_of_failsOn (hg.nlHdr h' rest' hok') p pos false
    have htxt : hdrsFrom sp (g :: gs) hL =
        g.h.text ++ (sp ++ (g.l.ref ++ (' ' :: g.l.d ++ (lnsSeg g.ls ++ '\n' :: hdrsFrom sp gs hL)))) := by
      simp [hdrsFrom, Gp.text, Gp.body, Ln.text]
    rw [htxt]
    have hlen : (g.text sp).length = g.h.text.length + sp.length + (g.l.text ++ lnsSeg g.ls).length := by
      simp [Gp.text, Gp.body]; omega
    have hms : hdrMs mk sp q (g :: gs) ++ [mkL hL (q + (gpsSeg sp (g :: gs)).length)] =
        mk g.h q :: (hdrMs mk sp (q + (g.text sp).length + 1) gs ++ [mkL hL (q + (g.text sp).length + 1 + (gpsSeg sp gs).length)]) := by
      have : q + (gpsSeg sp (g :: gs)).length = q + (g.text sp).length + 1 + (gpsSeg sp gs).length := by
        simp [gpsSeg]; omega
      rw [this]; rfl
    rw [hms]
    cases eat with
    | false =>
      simp only [Bool.false_eq_true, if_false, Nat.add_zero] at h3
      refine Tiles.tok prev g.h.text _ q _ _ h1 h2 h3 g.h.text_ne ?_
      have hb := hg.body sp hsp g hok _ htail
      have := Tiles.skipSeg hb (lastOr prev g.h.text) (q + g.h.text.length) (hrest _ _)
      have e2 : q + g.h.text.length + (g.body sp).length + 1 = q + (g.text sp).length + 1 := by
        simp [Gp.text]; omega
      rw [e2] at this
      simpa [Gp.body, Ln.text, List.append_assoc] using this
    | true =>
      simp only [if_true] at h3
      have hne : g.h.text ++ sp ≠ [] := by simp [Hd.text, canonText]
      have e : g.h.text ++ (sp ++ (g.l.ref ++ (' ' :: g.l.d ++ (lnsSeg g.ls ++ '\n' :: hdrsFrom sp gs hL)))) =
          (g.h.text ++ sp) ++ (g.l.ref ++ (' ' :: g.l.d ++ (lnsSeg g.ls ++ '\n' :: hdrsFrom sp gs hL))) := by simp
      rw [e] at h1 ⊢
      refine Tiles.tok prev (g.h.text ++ sp) _ q _ _ h1 h2 (by rw [h3, List.length_append]; omega) hne ?_
      have hb := hg.linesOf g hok _ htail
      have := Tiles.skipSeg hb (lastOr prev (g.h.text ++ sp)) (q + (g.h.text ++ sp).length) (hrest _ _)
      have e2 : q + (g.h.text ++ sp).length + (g.l.text ++ lnsSeg g.ls).length + 1 = q + (g.text sp).length + 1 := by
        rw [hlen, List.length_append]; omega
      rw [e2] at this
      simpa [Ln.text, List.append_assoc] using this

/-- … and over the whole text: the lines of the first group are skipped -/
theorem sTextTiles (r : Rx) (hg : GapSkips r) (sp : Str) (hsp : SepOk sp) (eat : Bool)
    (mk : Hd → Nat → Match)
    (htok : ∀ (h : Hd) (l : Ln) (rest : Str) (prev : Option Char) (pos : Nat), h.Ok → l.Ok →
       isWord Gen.cs_14d6aa8a prev = false →
       matchHere r ⟨prev, h.text ++ (sp ++ (l.ref ++ rest)), pos, []⟩ false = some (mk h pos) ∧ (mk h pos).start = pos ∧
       (mk h pos).stop = pos + h.text.length + (if eat then sp.length else 0))
    (mkL : Hd → Nat → Match)
    (htokL : ∀ (h : Hd) (prev : Option Char) (pos : Nat), h.Ok → isWord Gen.cs_14d6aa8a prev = false →
       matchHere r ⟨prev, h.text, pos, []⟩ false = some (mkL h pos) ∧ (mkL h pos).start = pos ∧
       (mkL h pos).stop = pos + h.text.length)
    (l : Ln) (ls : List Ln) (gs : List Gp) (hL : Hd) (hl : l.Ok) (hls : ∀ x ∈ ls, x.Ok) (hgs : ∀ x ∈ gs, x.Ok) (hLok : hL.Ok) :
    Tiles r none (sText sp l ls gs hL) 0
      (hdrMs mk sp ((lnsText l ls).length + 1) gs ++ [mkL hL ((lnsText l ls).length + 1 + (gpsSeg sp gs).length)]) := by
  have htail : GroupTail ('\n' :: hdrsFrom sp gs hL) := groupTail_hdrsFrom sp hL hLok gs hgs
  have hsk : Skips r (lnsText l ls) ('\n' :: hdrsFrom sp gs hL) :=
    Skips.append (hg.line l (lnsSeg ls ++ '\n' :: hdrsFrom sp gs hL) hl (descTail_lns ls _ hls htail)) (hg.lines ls _ hls htail)
  obtain ⟨h', rest', hok', e'⟩ := hdrsFrom_head sp hL hLok gs hgs
  have hT := hdrsTiles r hg sp hsp eat mk htok mkL htokL hL hLok gs ((lnsText l ls).length + 1) (some '\n') hgs isWord_nl
  have hnl : Tiles r (lastOr none (lnsText l ls)) ('\n' :: hdrsFrom sp gs hL) (0 + (lnsText l ls).length) _ :=
    Tiles.skip _ '\n' _ _ _ (by rw [e']; exact matchHere_of_failsOn (hg.nlHdr h' rest' hok') _ _ false)
      (by rw [Nat.zero_add]; exact hT)
  exact Tiles.skipSeg hsk none 0 hnl

/-! ## Part 2 — the finders -/

theorem twprge_tokL (h : Hd) (prev : Option Char) (pos : Nat) (hok : h.Ok) (hprev : isWord Gen.cs_14d6aa8a prev = false) :
    matchHere Gen.twprge_regex ⟨prev, h.text, pos, []⟩ false = some (twMk h pos) ∧ (twMk h pos).start = pos ∧
      (twMk h pos).stop = pos + h.text.length := by
  have hv := h.valid hok [] EndsTwprge.nil
  have := C08_spelling_matchHere h.sp _ hv prev hprev pos false
  rw [h.sp_text, List.append_nil] at this
  refine ⟨this, rfl, ?_⟩
  simp [twMk, Spelling.matchAt, h.sp_text]

/-- the matches of `twprge_regex`: the headers -/
theorem twprge_finditer_sText (sp : Str) (hsp : SepOk sp) (l : Ln) (ls : List Ln) (gs : List Gp) (hL : Hd)
    (hl : l.Ok) (hls : ∀ x ∈ ls, x.Ok) (hgs : ∀ x ∈ gs, x.Ok) (hLok : hL.Ok) :
    twprge.rx.finditer (sText sp l ls gs hL) =
      hdrMs twMk sp ((lnsText l ls).length + 1) gs ++ [twMk hL ((lnsText l ls).length + 1 + (gpsSeg sp gs).length)] :=
  (sTextTiles Gen.twprge_regex twprge_gapSkips sp hsp false twMk
    (fun h l rest prev pos hok hl hprev => twprge_tok sp hsp h l rest prev pos hok hl hprev) twMk
    (fun h prev pos hok hprev => twprge_tokL h prev pos hok hprev) l ls gs hL hl hls hgs hLok).finditer_eq

theorem multisec_tiles_hdr (hL : Hd) (hLok : hL.Ok) : ∀ (p : Option Char) (pos : Nat),
    Tiles Gen.multisec_regex p ('\n' :: hL.text) pos [] := by
  intro p pos
  refine Tiles.skip p '\n' _ pos [] (matchHere_of_failsOn (multisec_fails_nl _) _ _ false) ?_
  have hsk := skips_header multisec_skips_plain failsOn_multisec_S hL hLok [] (by simp) []
  have := Tiles.skipSeg hsk (some '\n') (pos + 1) (ms := [])
    (Tiles.nil _ _ (matchHere_of_failsOn multisec_fails_nil _ _ false))
  simpa using this

theorem sec_groupsT (sp : Str) (hsp : SepOk sp) (tail : Str) (hT : ∀ p pos, Tiles Gen.multisec_regex p tail pos []) :
    ∀ (gs : List Gp) (q : Nat), (∀ g ∈ gs, g.Ok) →
    ∀ p, Tiles Gen.multisec_regex p (gpsSeg sp gs ++ tail) q (docRefMs sp q gs)
  | [], q, _ => by
    intro p
    exact hT p q
  | g :: gs, q, hgs => by
    intro p
    have ih := sec_groupsT sp hsp tail hT gs (q + 1 + (g.text sp).length) (fun x hx => hgs x (by simp [hx]))
    have h1 := sec_group sp hsp g (hgs g (by simp)) (q + 1) (gpsSeg sp gs ++ tail) _ ih
    have e : gpsSeg sp (g :: gs) ++ tail = '\n' :: (g.text sp ++ (gpsSeg sp gs ++ tail)) := by simp [gpsSeg]
    rw [e]
    exact Tiles.skip p '\n' _ q _ (matchHere_of_failsOn (multisec_fails_nl _) _ _ false) (h1 _)

theorem sText_eq (sp : Str) (l : Ln) (ls : List Ln) (gs : List Gp) (hL : Hd) :
    sText sp l ls gs hL = l.text ++ (lnsSeg ls ++ (gpsSeg sp gs ++ '\n' :: hL.text)) := by
  simp [sText, lnsText, nl_hdrsFrom]

theorem lnsText_length (l : Ln) (ls : List Ln) : (lnsText l ls).length = l.text.length + (lnsSeg ls).length := by
  simp [lnsText]

/-- the section references of the whole text -/
def sRefMs (sp : Str) (l : Ln) (ls : List Ln) (gs : List Gp) : List Match :=
  secMatch 0 :: (refMs l.text.length ls ++ docRefMs sp (lnsText l ls).length gs)

theorem multisec_tiles_sText (sp : Str) (hsp : SepOk sp) (l : Ln) (ls : List Ln) (gs : List Gp) (hL : Hd)
    (hl : l.Ok) (hls : ∀ x ∈ ls, x.Ok) (hgs : ∀ x ∈ gs, x.Ok) (hLok : hL.Ok) :
    ∀ p, Tiles Gen.multisec_regex p (sText sp l ls gs hL) 0 (sRefMs sp l ls gs) := by
  intro p
  rw [sText_eq]
  have h3 := sec_groupsT sp hsp ('\n' :: hL.text) (multisec_tiles_hdr hL hLok) gs (lnsText l ls).length hgs
  have h2 := sec_lines ls l.text.length (gpsSeg sp gs ++ '\n' :: hL.text) _ hls (by rw [← lnsText_length]; exact h3)
  exact sec_line l hl _ _ 0 (by simpa using h2) p

/-- what `SecFinder` reports -/
def sSecOut (sp : Str) (l : Ln) (ls : List Ln) (gs : List Gp) : List SecMatch :=
  ⟨[[l.n1, l.n2]], 0, 7⟩ :: (lnOut l.text.length ls ++ docSecOut sp (lnsText l ls).length gs)

theorem secFinder_sText (sp : Str) (hsp : SepOk sp) (l : Ln) (ls : List Ln) (gs : List Gp) (hL : Hd)
    (hl : l.Ok) (hls : ∀ x ∈ ls, x.Ok) (hgs : ∀ x ∈ gs, x.Ok) (hLok : hL.Ok) (rc : ReqColon) :
    secFinder (sText sp l ls gs hL) S_DESC_TR rc = .ok (sSecOut sp l ls gs, {}) := by
  rw [secFinder_S]
  have htxt := sText_eq sp l ls gs hL
  have hfind : multisec.rx.finditer (sText sp l ls gs hL) = sRefMs sp l ls gs :=
    (multisec_tiles_sText sp hsp l ls gs hL hl hls hgs hLok none).finditer_eq
  have hpass : ∀ nc, ∃ nums, secFinderPass (sText sp l ls gs hL) TRS_DESC nc = .ok (sSecOut sp l ls gs, {}, nums) := by
    intro nc
    have a1 := secFold_line (sText sp l ls gs hL) [] (lnsSeg ls ++ (gpsSeg sp gs ++ '\n' :: hL.text)) l hl nc {}
      (by rw [htxt]; rfl) (by decide)
    obtain ⟨st2, b1, b2, b3⟩ := secFold_lines (sText sp l ls gs hL) nc ls l.text (gpsSeg sp gs ++ '\n' :: hL.text)
      { out := ([] : List SecMatch) ++ [⟨[[l.n1, l.n2]], ([] : Str).length, ([] : Str).length + 7⟩], lastNums := [[l.n1, l.n2]], ff := {} }
      (by rw [htxt]) hls (by
        have := priorOK_desc l.ref l.d hl.d
        simpa [Ln.text] using this)
    obtain ⟨st3, c1, c2, c3⟩ := secFold_groups (sText sp l ls gs hL) nc sp hsp gs (lnsText l ls) ('\n' :: hL.text) st2
      (by rw [htxt]; simp [lnsText]) hgs
    refine ⟨st3.lastNums, ?_⟩
    unfold secFinderPass
    rw [hfind]
    simp only [sRefMs, List.foldlM_cons, List.foldlM_append]
    simp only [List.length_nil] at a1 b1 b2 b3
    rw [a1]
    simp only [bind, Except.bind]
    rw [b1]
    simp only []
    rw [c1]
    simp only [c2, b2, c3, b3, sSecOut, List.nil_append, List.length_nil, Nat.zero_add, List.cons_append, List.append_assoc]
  unfold secFinder
  obtain ⟨nums, hp⟩ := hpass ((rc == .yes || rc == .cautious) && firstLayouts TRS_DESC)
  simp only [hp]
  simp [sSecOut]

/-- one step of `findall_matching_twprge` at a header behind lines, whatever follows it (`trStep_ok` for any right context) -/
theorem trStepH (mc : MC) (hns : isLegal Gen.LEGAL_NS mc.ns = true) (hew : isLegal Gen.LEGAL_EW mc.ew = true)
    (text A B ctx : Str) (h : Hd) (hok : h.Ok) (hctx : EndsTwprge ctx)
    (htext : text = A ++ B ++ (h.text ++ ctx)) (hw : WinOK A B) (st : TRFindSt) (hj : st.j = A.length) :
    ∃ j', trFindStep mc text TRS_DESC st (twMk h (A ++ B).length) =
        .ok { st with out := st.out ++ [⟨h.key, (A ++ B).length, (A ++ B).length + h.text.length⟩], j := j' } ∧
      ((A = [] ∧ B = [] ∧ j' = 0) ∨ (∃ (B0 : Str) (l : Ln), l.Ok ∧ B = B0 ++ l.text ++ ['\n'] ∧ j' = (A ++ B0).length)) := by
  have hv := h.valid hok ctx hctx
  have htext' : text = (A ++ B) ++ (h.sp.text ++ ctx) := by
    rw [htext, h.sp_text]
  have hunp : unpackTwprge twprge (twMk h (A ++ B).length) text mc.ns mc.ew false = .ok h.sp.canon := by
    rw [unpackTwprge_canon _ _ _ _ _ _ hns hew, htext']
    exact congrArg _ (h.sp.canonTR_at (A ++ B) ctx hv mc.ns mc.ew)
  have hstart : (twMk h (A ++ B).length).start = (A ++ B).length := rfl
  have hstop : (twMk h (A ++ B).length).stop = (A ++ B).length + h.text.length := by
    simp [twMk, Spelling.matchAt, h.sp_text]
  rcases hw with ⟨rfl, rfl⟩ | ⟨B0, l, hl, hB, ms0, hT⟩
  · refine ⟨0, ?_, Or.inl ⟨rfl, rfl, rfl⟩⟩
    have hfi : multisec.rx.finditer text st.j ([] ++ ([] : Str)).length = [] := by
      rw [hj, htext]
      exact finditer_window Gen.multisec_regex [] [] _ [] (fun pv => Tiles.nil pv _ (matchHere_of_failsOn multisec_fails_nil _ _ false))
    unfold trFindStep
    simp only [hunp, trs_desc_layouts, Bool.false_eq_true, if_false, lastSecBefore, hstart, hstop, hfi, List.foldl_nil, if_true, hj]
    rfl
  · refine ⟨(A ++ B0).length, ?_, Or.inr ⟨B0, l, hl, hB, rfl⟩⟩
    have hfi : multisec.rx.finditer text st.j (A ++ B).length = ms0 ++ [secMatch (A ++ B0).length] := by
      rw [hj, htext]
      exact finditer_window Gen.multisec_regex A B _ _ hT
    have hss : ∀ p, (secMatch p).start = p := fun _ => rfl
    have hslice : slice text (A ++ B0).length ((A ++ B).length + h.text.length) = l.text ++ '\n' :: h.text := by
      refine slice_at text (A ++ B0) (l.text ++ '\n' :: h.text) ctx _ _ ?_ rfl ?_
      · rw [htext, hB]; simp
      · rw [hB]; simp; omega
    unfold trFindStep
    simp only [hunp, trs_desc_layouts, Bool.false_eq_true, if_false, lastSecBefore, hstart, hstop, hfi, foldl_lastSec, hss, hslice,
      between_search_none l hl h hok, Option.isNone_none, if_true]
    rw [hss, hstop, hslice, between_search_none l hl h hok]
    rfl

theorem winOK_lines (l : Ln) (ls : List Ln) (hl : l.Ok) (hls : ∀ x ∈ ls, x.Ok) : WinOK [] (lnsText l ls ++ ['\n']) := by
  right
  obtain ⟨I, ms0, h1, h2⟩ := lines_split ls l 0
  refine ⟨I, lastOf l ls, lastOf_ok l ls hl hls, by rw [lnsText, h1], ms0, ?_⟩
  intro pv
  have h3 := sec_lines ls l.text.length ['\n'] [] hls (fun p => multisec_tiles_nl p _)
  have h4 : ∀ p, Tiles Gen.multisec_regex p (lnsSeg ls ++ ['\n']) (0 + l.text.length) (refMs (0 + l.text.length) ls) := by
    intro p; have := h3 p; simpa using this
  have := sec_line l hl (lnsSeg ls ++ ['\n']) _ 0 h4 pv
  rw [h2] at this
  simpa [lnsText] using this

/-- what `TwpRgeFinder` reports; `q` = position of the first header -/
def trOutS (sp : Str) (q : Nat) (gs : List Gp) (hL : Hd) : List TRMatch :=
  trOut sp q gs ++ [⟨hL.key, q + (gpsSeg sp gs).length, q + (gpsSeg sp gs).length + hL.text.length⟩]

theorem trFoldS (mc : MC) (hns : isLegal Gen.LEGAL_NS mc.ns = true) (hew : isLegal Gen.LEGAL_EW mc.ew = true)
    (sp : Str) (hsp : SepOk sp) (text : Str) (hL : Hd) (hLok : hL.Ok) : ∀ (gs : List Gp) (A B : Str) (st : TRFindSt),
    (∀ x ∈ gs, x.Ok) → text = A ++ B ++ hdrsFrom sp gs hL → WinOK A B → st.j = A.length →
    ∃ st', (hdrMs twMk sp (A ++ B).length gs ++ [twMk hL ((A ++ B).length + (gpsSeg sp gs).length)]).foldlM
        (trFindStep mc text TRS_DESC) st = .ok st' ∧
      st'.out = st.out ++ trOutS sp (A ++ B).length gs hL ∧ st'.ff = st.ff
  | [], A, B, st, _, htext, hw, hj => by
    obtain ⟨j', h1, _⟩ := trStepH mc hns hew text A B [] hL hLok EndsTwprge.nil (by rw [htext]; simp [hdrsFrom]) hw st hj
    refine ⟨{ st with out := st.out ++ [⟨hL.key, (A ++ B).length, (A ++ B).length + hL.text.length⟩], j := j' }, ?_, ?_, ?_⟩
    · simp only [hdrMs, gpsSeg, List.nil_append, List.length_nil, Nat.add_zero, List.foldlM_cons, h1]
      rfl
    · simp [trOutS, trOut, gpsSeg]
    · rfl
  | g :: gs, A, B, st, hgs, htext, hw, hj => by
    have hok := hgs g (by simp)
    have hgs' : ∀ x ∈ gs, x.Ok := fun x hx => hgs x (by simp [hx])
    obtain ⟨j', h1, hshape⟩ := trStepH mc hns hew text A B (g.body sp ++ '\n' :: hdrsFrom sp gs hL) g.h hok.h
      (by
        have : g.body sp ++ '\n' :: hdrsFrom sp gs hL = sp ++ (g.l.text ++ lnsSeg g.ls ++ '\n' :: hdrsFrom sp gs hL) := by
          simp [Gp.body]
        rw [this]; exact endsTwprge_sep sp _ hsp)
      (by rw [htext]; simp [hdrsFrom, Gp.text]) hw st hj
    obtain ⟨A', B', htext', hw', hj', hlen⟩ : ∃ A' B' : Str, text = A' ++ B' ++ hdrsFrom sp gs hL ∧ WinOK A' B' ∧
        j' = A'.length ∧ (A' ++ B').length = (A ++ B).length + (g.text sp).length + 1 := by
      rcases hshape with ⟨rfl, rfl, rfl⟩ | ⟨B0, l, hl, rfl, rfl⟩
      · exact ⟨[], g.text sp ++ ['\n'], by rw [htext]; simp [hdrsFrom], winOK_first sp hsp g hok, rfl, by simp⟩
      · refine ⟨A ++ B0, l.text ++ '\n' :: (g.text sp ++ ['\n']), ?_, winOK_next sp hsp (A ++ B0) l hl g hok, rfl, ?_⟩
        · rw [htext]; simp [hdrsFrom]
        · simp; omega
    obtain ⟨st2, b1, b2, b3⟩ := trFoldS mc hns hew sp hsp text hL hLok gs A' B'
      { st with out := st.out ++ [⟨g.h.key, (A ++ B).length, (A ++ B).length + g.h.text.length⟩], j := j' }
      hgs' htext' hw' hj'
    rw [hlen] at b1 b2
    have hpos : (A ++ B).length + (gpsSeg sp (g :: gs)).length = (A ++ B).length + (g.text sp).length + 1 + (gpsSeg sp gs).length := by
      simp [gpsSeg]; omega
    refine ⟨st2, ?_, ?_, b3⟩
    · rw [show hdrMs twMk sp (A ++ B).length (g :: gs) =
        twMk g.h (A ++ B).length :: hdrMs twMk sp ((A ++ B).length + (g.text sp).length + 1) gs from rfl, hpos]
      simp only [List.cons_append, List.foldlM_cons, h1]
      exact b1
    · rw [b2]
      simp only [trOutS, trOut, hpos, List.append_assoc, List.cons_append, List.nil_append]

/-- **`TwpRgeFinder` on the canonical text** -/
theorem twprgeFinder_sText (mc : MC) (hns : isLegal Gen.LEGAL_NS mc.ns = true) (hew : isLegal Gen.LEGAL_EW mc.ew = true)
    (sp : Str) (hsp : SepOk sp) (l : Ln) (ls : List Ln) (gs : List Gp) (hL : Hd)
    (hl : l.Ok) (hls : ∀ x ∈ ls, x.Ok) (hgs : ∀ x ∈ gs, x.Ok) (hLok : hL.Ok) :
    twprgeFinder mc (sText sp l ls gs hL) S_DESC_TR = .ok (trOutS sp ((lnsText l ls).length + 1) gs hL, {}) := by
  rw [twprgeFinder_S]
  have htxt : sText sp l ls gs hL = [] ++ (lnsText l ls ++ ['\n']) ++ hdrsFrom sp gs hL := by simp [sText]
  obtain ⟨st', h1, h2, h3⟩ := trFoldS mc hns hew sp hsp (sText sp l ls gs hL) hL hLok gs [] (lnsText l ls ++ ['\n']) {} hgs htxt
    (winOK_lines l ls hl hls) rfl
  have hlen : ([] ++ (lnsText l ls ++ ['\n'])).length = (lnsText l ls).length + 1 := by simp
  rw [hlen] at h1 h2
  unfold twprgeFinder
  rw [twprge_finditer_sText sp hsp l ls gs hL hl hls hgs hLok, h1]
  simp only [h2, h3, List.nil_append]

/-! ## Part 3 — the arrangement and the markers -/

/-- the arrangement of the canonical text; `q` = position of the first line of `l :: ls` -/
def sGroups (sp : Str) : Nat → Ln → List Ln → List Gp → Hd → List TRGroup
  | q, l, ls, [], hL =>
    [⟨q + (lnsText l ls).length + 1, q + (lnsText l ls).length + 1 + hL.text.length, hL.key, itemsAt q l ls⟩]
  | q, l, ls, g :: gs, hL =>
    ⟨q + (lnsText l ls).length + 1, q + (lnsText l ls).length + 1 + g.h.text.length, g.h.key, itemsAt q l ls⟩ ::
      sGroups sp (q + (lnsText l ls).length + 1 + g.h.text.length + sp.length) g.l g.ls gs hL

theorem Gp.text_length (sp : Str) (g : Gp) : (g.text sp).length = g.h.text.length + sp.length + (lnsText g.l g.ls).length := by
  simp [Gp.text, Gp.body, lnsText]; omega

theorem trOutS_cons (sp : Str) (q : Nat) (g : Gp) (gs : List Gp) (hL : Hd) :
    trOutS sp q (g :: gs) hL = ⟨g.h.key, q, q + g.h.text.length⟩ :: trOutS sp (q + (g.text sp).length + 1) gs hL := by
  have : q + (gpsSeg sp (g :: gs)).length = q + (g.text sp).length + 1 + (gpsSeg sp gs).length := by simp [gpsSeg]; omega
  simp only [trOutS, trOut, this, List.cons_append]

theorem trsOf_sGroups (sp : Str) (hL : Hd) : ∀ (gs : List Gp) (q : Nat) (l : Ln) (ls : List Ln),
    trsOf (sGroups sp q l ls gs hL) = trOutS sp (q + (lnsText l ls).length + 1) gs hL
  | [], q, l, ls => by simp [sGroups, trsOf, trOutS, trOut, gpsSeg]
  | g :: gs, q, l, ls => by
    have ih := trsOf_sGroups sp hL gs (q + (lnsText l ls).length + 1 + g.h.text.length + sp.length) g.l g.ls
    have e : q + (lnsText l ls).length + 1 + g.h.text.length + sp.length + (lnsText g.l g.ls).length + 1 =
        q + (lnsText l ls).length + 1 + (g.text sp).length + 1 := by rw [g.text_length]; omega
    rw [e] at ih
    rw [trOutS_cons, ← ih]
    simp [sGroups, trsOf]

/-- the section matches, `q` = position of the first line -/
def sSecOutAt (sp : Str) (q : Nat) (l : Ln) (ls : List Ln) (gs : List Gp) : List SecMatch :=
  ⟨[[l.n1, l.n2]], q, q + 7⟩ :: (lnOut (q + l.text.length) ls ++ docSecOut sp (q + (lnsText l ls).length) gs)

theorem sSecOutAt_zero (sp : Str) (l : Ln) (ls : List Ln) (gs : List Gp) : sSecOutAt sp 0 l ls gs = sSecOut sp l ls gs := by
  simp [sSecOutAt, sSecOut]

theorem secsOf_sGroups (sp : Str) (hL : Hd) : ∀ (gs : List Gp) (q : Nat) (l : Ln) (ls : List Ln),
    secsOf (sGroups sp q l ls gs hL) = sSecOutAt sp q l ls gs
  | [], q, l, ls => by
    simp [sGroups, secsOf, sSecOutAt, docSecOut, itemsAt, lnItems_secs]
  | g :: gs, q, l, ls => by
    have ih := secsOf_sGroups sp hL gs (q + (lnsText l ls).length + 1 + g.h.text.length + sp.length) g.l g.ls
    have e : q + (lnsText l ls).length + 1 + g.h.text.length + sp.length + (lnsText g.l g.ls).length =
        q + (lnsText l ls).length + 1 + (g.text sp).length := by rw [g.text_length]; omega
    simp only [secsOf, sGroups, List.flatMap_cons] at ih ⊢
    rw [ih]
    simp only [sSecOutAt, docSecOut, gpSecOut, e, itemsAt, List.map_cons, lnItems_secs, List.cons_append, List.append_assoc]

theorem sGroups_ne (sp : Str) (hL : Hd) (gs : List Gp) (q : Nat) (l : Ln) (ls : List Ln) : sGroups sp q l ls gs hL ≠ [] := by
  cases gs <;> simp [sGroups]

theorem sGroups_items_ne (sp : Str) (hL : Hd) : ∀ (gs : List Gp) (q : Nat) (l : Ln) (ls : List Ln),
    ∀ G ∈ sGroups sp q l ls gs hL, G.items ≠ []
  | [], q, l, ls, G, h => by
    simp only [sGroups, List.mem_singleton] at h
    subst h; simp [itemsAt]
  | g :: gs, q, l, ls, G, h => by
    simp only [sGroups, List.mem_cons] at h
    rcases h with rfl | h
    · simp [itemsAt]
    · exact sGroups_items_ne sp hL gs _ _ _ G h

/-- end of the last Twp/Rge -/
def endOf (groups : List TRGroup) : Nat := (groups.getLast?.map (·.tEnd)).getD 0

theorem sMarkers_last (groups : List TRGroup) (hne : groups ≠ []) :
    ∃ init, groups.flatMap sGroupMarkers = init ++ [(endOf groups, Marker.trEnd)] := by
  obtain ⟨init, last, rfl⟩ : ∃ init last, groups = init ++ [last] := ⟨_, _, (List.dropLast_concat_getLast hne).symm⟩
  refine ⟨init.flatMap sGroupMarkers ++ (imk last.items ++ [(last.tStart, Marker.trStart)]), ?_⟩
  simp [endOf, sGroupMarkers, List.flatMap_append]

theorem trMk_last (groups : List TRGroup) (hne : groups ≠ []) :
    ∃ init, trMk (trsOf groups) = init ++ [(endOf groups, Marker.trEnd)] := by
  obtain ⟨init, last, rfl⟩ : ∃ init last, groups = init ++ [last] := ⟨_, _, (List.dropLast_concat_getLast hne).symm⟩
  refine ⟨trMk (trsOf init) ++ [(last.tStart, Marker.trStart)], ?_⟩
  simp [endOf, trMk, trsOf, List.flatMap_append]

/-- length of the text from the first line of `l :: ls` on -/
theorem endOf_sGroups (sp : Str) (hL : Hd) : ∀ (gs : List Gp) (q : Nat) (l : Ln) (ls : List Ln),
    endOf (sGroups sp q l ls gs hL) = q + (sText sp l ls gs hL).length
  | [], q, l, ls => by simp [sGroups, endOf, sText, hdrsFrom]; omega
  | g :: gs, q, l, ls => by
    have ih := endOf_sGroups sp hL gs (q + (lnsText l ls).length + 1 + g.h.text.length + sp.length) g.l g.ls
    have hne := sGroups_ne sp hL gs (q + (lnsText l ls).length + 1 + g.h.text.length + sp.length) g.l g.ls
    have e : endOf (sGroups sp q l ls (g :: gs) hL) =
        endOf (sGroups sp (q + (lnsText l ls).length + 1 + g.h.text.length + sp.length) g.l g.ls gs hL) := by
      simp only [endOf, sGroups]
      rw [List.getLast?_cons_of_ne_nil hne]
    rw [e, ih]
    simp only [sText, hdrsFrom, Gp.text, Gp.body, lnsText, List.length_append, List.length_cons]
    omega

theorem sMarkers_perm : ∀ (groups : List TRGroup),
    (groups.flatMap sGroupMarkers).Perm (secMk (secsOf groups) ++ trMk (trsOf groups))
  | [] => List.Perm.refl _
  | g :: gs => by
    have ih := sMarkers_perm gs
    have e1 : (g :: gs).flatMap sGroupMarkers = imk g.items ++ ([(g.tStart, Marker.trStart), (g.tEnd, Marker.trEnd)] ++ gs.flatMap sGroupMarkers) := by
      simp [sGroupMarkers]
    have e2 : trMk (trsOf (g :: gs)) = [(g.tStart, Marker.trStart), (g.tEnd, Marker.trEnd)] ++ trMk (trsOf gs) := by
      simp [trMk, trsOf]
    have e3 : secMk (secsOf (g :: gs)) = imk g.items ++ secMk (secsOf gs) := by
      simp [secMk, secsOf, imk, List.flatMap_append, List.flatMap_map]
    rw [e1, e2, e3, List.append_assoc]
    refine List.Perm.append_left _ ?_
    refine (List.Perm.append_left _ ih).trans ?_
    rw [← List.append_assoc, ← List.append_assoc]
    exact List.Perm.append_right _ List.perm_append_comm

theorem markSet_second (x : Nat × Marker) (k : Nat) (v v' : Marker) (rest : List (Nat × Marker)) (hx : x.1 ≠ k)
    (h : ∀ e ∈ rest, e.1 ≠ k) : markSet (x :: (k, v') :: rest) k v = x :: (k, v) :: rest := by
  unfold markSet
  have hx' : (x.1 == k) = false := by simpa using hx
  simp only [List.any_cons, hx', beq_self_eq_true, Bool.true_or, Bool.or_true, Bool.false_or, if_true, List.map_cons,
    Bool.false_eq_true, if_false]
  congr 2
  rw [List.map_congr_left (g := id)]
  · simp
  · intro e he
    have : (e.1 == k) = false := by simpa using h e he
    simp [this]

/-- **`populate_markers` for a text that starts with a section reference and ends with a Twp/Rge**: both the start-of-text
    and the end-of-text marker are overwritten -/
theorem populateMarkers_S (len : Nat) (secs : List SecMatch) (trs : List TRMatch) (T : List (Nat × Marker))
    (hs : T.Pairwise (fun a b => a.1 < b.1)) (hperm : T.Perm (secMk secs ++ trMk trs))
    (rest init : List (Nat × Marker)) (h0 : secMk secs = (0, Marker.secStart) :: rest)
    (hE : trMk trs = init ++ [(len, Marker.trEnd)]) :
    populateMarkers len secs trs = T := by
  have hperm2 : T.Perm ((0, Marker.secStart) :: (len, Marker.trEnd) :: (rest ++ init)) := by
    refine hperm.trans ?_
    rw [h0, hE]
    simp only [List.cons_append]
    refine List.Perm.cons _ ?_
    have : (rest ++ (init ++ [(len, Marker.trEnd)])).Perm ([(len, Marker.trEnd)] ++ (rest ++ init)) := by
      rw [← List.append_assoc]; exact List.perm_append_comm
    simpa using this
  have hkeys : (0 :: len :: ((rest ++ init).map (·.1))).Nodup := by
    have hT : (T.map (·.1)).Nodup := by
      rw [List.Nodup, List.pairwise_map]
      exact hs.imp (fun h => Nat.ne_of_lt h)
    have := (hperm2.map (·.1)).nodup_iff.1 hT
    simpa using this
  have hk0 := List.nodup_cons.1 hkeys
  have hk1 := List.nodup_cons.1 hk0.2
  have hlen0 : (0 : Nat) ≠ len := by intro e; exact hk0.1 (by simp [e])
  have hd1 : markSet (markSet [] 0 .textStart) len .textEnd = [(0, Marker.textStart), (len, Marker.textEnd)] := by
    rw [markSet_fresh [] 0 _ (fun _ h => by cases h)]
    exact markSet_fresh _ len _ (by intro e he; simp at he; rw [he]; exact hlen0)
  unfold populateMarkers
  simp only [hd1, secs_fold, trs_fold, h0, hE, List.foldl_cons, List.foldl_append, List.foldl_nil]
  have hrep : markSet [(0, Marker.textStart), (len, Marker.textEnd)] 0 Marker.secStart =
      [(0, Marker.secStart), (len, Marker.textEnd)] :=
    markSet_head 0 _ _ _ (by intro e he; simp at he; rw [he]; exact fun h => hlen0 h.symm)
  rw [hrep]
  have hnd : (([(0, Marker.secStart), (len, Marker.textEnd)] ++ (rest ++ init)).map (·.1)).Nodup := by
    simpa using hkeys
  have hf : init.foldl (fun d e => markSet d e.1 e.2) (rest.foldl (fun d e => markSet d e.1 e.2) [(0, Marker.secStart), (len, Marker.textEnd)]) =
      [(0, Marker.secStart), (len, Marker.textEnd)] ++ (rest ++ init) := by
    rw [← List.foldl_append]
    exact foldl_markSet _ _ hnd
  rw [hf]
  have hlast : markSet ([(0, Marker.secStart), (len, Marker.textEnd)] ++ (rest ++ init)) len Marker.trEnd =
      (0, Marker.secStart) :: (len, Marker.trEnd) :: (rest ++ init) := by
    refine markSet_second _ len _ _ _ hlen0 ?_
    intro e he h
    exact hk1.1 (by rw [← h]; exact List.mem_map_of_mem he)
  rw [hlast]
  exact sortMarkers_eq _ T hperm2 hs

/-- the markers of the arrangement stand at strictly increasing positions -/
theorem sGroups_within (sp : Str) (hsp : SepOk sp) (hL : Hd) : ∀ (gs : List Gp) (q : Nat) (l : Ln) (ls : List Ln),
    Within q (q + (sText sp l ls gs hL).length + 1) ((sGroups sp q l ls gs hL).flatMap sGroupMarkers) := by
  have hspl : 0 < sp.length := List.length_pos_iff.mpr hsp.ne
  have hitems : ∀ (q : Nat) (l : Ln) (ls : List Ln), Within q (q + (lnsText l ls).length) (imk (itemsAt q l ls)) := by
    intro q l ls
    have ih := lnItems_within ls (q + l.text.length)
    have ht := l.text_length
    have e : imk (itemsAt q l ls) = (q, Marker.secStart) :: (q + 7, Marker.secEnd) :: imk (lnItems (q + l.text.length) ls) := by
      simp [itemsAt, imk]
    rw [e, lnsText_length]
    refine Within.cons (Nat.le_refl _) (Within.cons (by simp) ?_ (by simp; omega)) (by simp; omega)
    simp only []
    have hh : q + l.text.length + (lnsSeg ls).length = q + (l.text.length + (lnsSeg ls).length) := by omega
    rw [← hh]
    exact Within.append (Within.nil (q + 7 + 1) (q + 7 + 1)) ih (by omega) (by omega) (by omega)
  intro gs
  induction gs with
  | nil =>
    intro q l ls
    have hh := hL.text_length
    have e : (sGroups sp q l ls [] hL).flatMap sGroupMarkers = imk (itemsAt q l ls) ++
        [((q + (lnsText l ls).length + 1, Marker.trStart) : Nat × Marker), (q + (lnsText l ls).length + 1 + hL.text.length, Marker.trEnd)] := by
      simp [sGroups, sGroupMarkers]
    have hlen : (sText sp l ls [] hL).length = (lnsText l ls).length + 1 + hL.text.length := by
      simp [sText, hdrsFrom]; omega
    rw [e, hlen]
    refine Within.append (hitems q l ls) (mid' := q + (lnsText l ls).length + 1) ?_ (by omega) (by omega) (by omega)
    refine Within.cons (by simp) (Within.cons (by simp; omega) (Within.nil _ _) (by simp; omega)) (by simp; omega)
  | cons g gs ih =>
    intro q l ls
    have hh := g.h.text_length
    have ih' := ih (q + (lnsText l ls).length + 1 + g.h.text.length + sp.length) g.l g.ls
    have e : (sGroups sp q l ls (g :: gs) hL).flatMap sGroupMarkers = imk (itemsAt q l ls) ++
        (((q + (lnsText l ls).length + 1, Marker.trStart) : Nat × Marker) :: (q + (lnsText l ls).length + 1 + g.h.text.length, Marker.trEnd) ::
          (sGroups sp (q + (lnsText l ls).length + 1 + g.h.text.length + sp.length) g.l g.ls gs hL).flatMap sGroupMarkers) := by
      simp [sGroups, sGroupMarkers]
    have hlen : (sText sp l ls (g :: gs) hL).length =
        (lnsText l ls).length + 1 + g.h.text.length + sp.length + (sText sp g.l g.ls gs hL).length := by
      simp [sText, hdrsFrom, Gp.text, Gp.body, lnsText]; omega
    rw [e, hlen]
    refine Within.append (hitems q l ls) (mid' := q + (lnsText l ls).length + 1) ?_ (by omega) (by omega) (by omega)
    refine Within.cons (by simp) (Within.cons (by simp; omega) ?_ (by simp; omega)) (by simp; omega)
    simp only []
    have hh2 : q + (lnsText l ls).length + 1 + g.h.text.length + sp.length + (sText sp g.l g.ls gs hL).length + 1 =
        q + ((lnsText l ls).length + 1 + g.h.text.length + sp.length + (sText sp g.l g.ls gs hL).length) + 1 := by omega
    rw [← hh2]
    exact Within.append (Within.nil (q + (lnsText l ls).length + 1 + g.h.text.length + 1) (q + (lnsText l ls).length + 1 + g.h.text.length + 1))
      ih' (by omega) (by omega) (by omega)

/-- the markers of the canonical text -/
theorem populateMarkers_sText (sp : Str) (hsp : SepOk sp) (l : Ln) (ls : List Ln) (gs : List Gp) (hL : Hd) :
    populateMarkers (sText sp l ls gs hL).length (sSecOut sp l ls gs) (trOutS sp ((lnsText l ls).length + 1) gs hL) =
      Lay.sDescTr.markers (sGroups sp 0 l ls gs hL) (sText sp l ls gs hL).length := by
  have hne := sGroups_ne sp hL gs 0 l ls
  have hend := endOf_sGroups sp hL gs 0 l ls
  rw [Nat.zero_add] at hend
  obtain ⟨initM, hM⟩ := sMarkers_last _ hne
  obtain ⟨initT, hT⟩ := trMk_last _ hne
  rw [hend] at hM hT
  have hw := sGroups_within sp hsp hL gs 0 l ls
  have hfirstS : firstS (sGroups sp 0 l ls gs hL) = 0 := by cases gs <;> simp [sGroups, firstS, itemsAt]
  have hmk : Lay.sDescTr.markers (sGroups sp 0 l ls gs hL) (sText sp l ls gs hL).length =
      (sGroups sp 0 l ls gs hL).flatMap sGroupMarkers := by
    simp only [Lay.markers, Lay.core, hfirstS, pre0, if_true, List.nil_append, withEnd]
    rw [if_pos]
    rw [hM]; simp [lastPos]
  rw [hmk]
  have hsecs := secsOf_sGroups sp hL gs 0 l ls
  rw [sSecOutAt_zero] at hsecs
  have htrs := trsOf_sGroups sp hL gs 0 l ls
  rw [Nat.zero_add] at htrs
  rw [← hsecs, ← htrs]
  refine populateMarkers_S _ _ _ _ hw.1 (sMarkers_perm _) (secMk (secsOf (sGroups sp 0 l ls gs hL))).tail initT ?_ hT
  rw [hsecs]
  simp [sSecOut, secMk]

/-! ## Part 4 — the walk stages exactly the lines; `parse_chunk` -/

/-- the components of the canonical text: one per line, in reading order, with the Twp/Rge that CLOSES its group -/
def sComps : Ln → List Ln → List Gp → Hd → List Component
  | l, ls, [], hL => (l :: ls).map (lnComp hL.key)
  | l, ls, g :: gs, hL => (l :: ls).map (lnComp g.h.key) ++ sComps g.l g.ls gs hL

theorem sLines_comps (txt tr : Str) (nxt : Nat) : ∀ (ls : List Ln) (l : Ln) (pre rest' : Str),
    txt = pre ++ (l.text ++ (lnsSeg ls ++ '\n' :: rest')) → nxt = pre.length + l.text.length + (lnsSeg ls).length + 1 →
    l.Ok → (∀ x ∈ ls, x.Ok) →
    sItemComps txt tr nxt (itemsAt pre.length l ls) = (l :: ls).map (lnComp tr)
  | [], l, pre, rest', htxt, hn, hl, _ => by
    have hslice : slice txt (pre.length + 7) nxt = ' ' :: l.d ++ ['\n'] := by
      refine slice_at txt (pre ++ l.ref) (' ' :: l.d ++ ['\n']) rest' _ _ ?_ (by simp [Ln.ref]) ?_
      · rw [htxt]; simp [Ln.text, lnsSeg]
      · rw [hn]; simp [Ln.text, Ln.ref, lnsSeg]; omega
    simp only [itemsAt, lnItems, sItemComps, List.head?_nil, Option.map_none, Option.getD_none, hslice,
      cleanup_line l.d ['\n'] hl.d (by decide), List.map_cons, List.map_nil, lnComp]
  | z :: ls, l, pre, rest', htxt, hn, hl, hls => by
    have hz := hls z (by simp)
    have ih := sLines_comps txt tr nxt ls z (pre ++ l.text ++ ['\n']) rest'
      (by rw [htxt]; simp [lnsSeg]) (by rw [hn]; simp [lnsSeg]; omega) hz (fun x hx => hls x (by simp [hx]))
    have hlen : (pre ++ l.text ++ ['\n']).length = pre.length + l.text.length + 1 := by simp; omega
    rw [hlen] at ih
    have hslice : slice txt (pre.length + 7) (pre.length + l.text.length + 1) = ' ' :: l.d ++ ['\n'] := by
      refine slice_at txt (pre ++ l.ref) (' ' :: l.d ++ ['\n']) (z.text ++ (lnsSeg ls ++ '\n' :: rest')) _ _ ?_ (by simp [Ln.ref]) ?_
      · rw [htxt]; simp [Ln.text, lnsSeg]
      · simp [Ln.text, Ln.ref]; omega
    have e : itemsAt pre.length l (z :: ls) = ⟨pre.length, pre.length + 7, [[l.n1, l.n2]]⟩ :: itemsAt (pre.length + l.text.length + 1) z ls := rfl
    rw [e]
    have e2 : ((itemsAt (pre.length + l.text.length + 1) z ls).head?.map (·.sStart)).getD nxt = pre.length + l.text.length + 1 := rfl
    simp only [sItemComps, e2, hslice, cleanup_line l.d ['\n'] hl.d (by decide), ih, List.map_cons, lnComp]

theorem sGroups_comps (sp : Str) (txt : Str) (hL : Hd) : ∀ (gs : List Gp) (l : Ln) (ls : List Ln) (pre : Str),
    txt = pre ++ sText sp l ls gs hL → l.Ok → (∀ x ∈ ls, x.Ok) → (∀ g ∈ gs, g.Ok) →
    expectedCompsSDescTr txt (sGroups sp pre.length l ls gs hL) = sComps l ls gs hL
  | [], l, ls, pre, htxt, hl, hls, _ => by
    have := sLines_comps txt hL.key (pre.length + (lnsText l ls).length + 1) ls l pre hL.text
      (by rw [htxt]; simp [sText, lnsText, hdrsFrom]) (by simp [lnsText]; omega) hl hls
    simp only [expectedCompsSDescTr, sGroups, List.flatMap_cons, List.flatMap_nil, List.append_nil, this, sComps]
  | g :: gs, l, ls, pre, htxt, hl, hls, hgs => by
    have hok := hgs g (by simp)
    have h1 := sLines_comps txt g.h.key (pre.length + (lnsText l ls).length + 1) ls l pre (g.text sp ++ '\n' :: hdrsFrom sp gs hL)
      (by rw [htxt]; simp [sText, lnsText, hdrsFrom]) (by simp [lnsText]; omega) hl hls
    have ih := sGroups_comps sp txt hL gs g.l g.ls (pre ++ lnsText l ls ++ ['\n'] ++ g.h.text ++ sp)
      (by rw [htxt]; simp [sText, hdrsFrom, Gp.text, Gp.body, lnsText]) (hok.ls g.l (by simp [Gp.lines]))
      (fun x hx => hok.ls x (by simp [Gp.lines, hx])) (fun x hx => hgs x (by simp [hx]))
    have hlen : (pre ++ lnsText l ls ++ ['\n'] ++ g.h.text ++ sp).length =
        pre.length + (lnsText l ls).length + 1 + g.h.text.length + sp.length := by simp; omega
    rw [hlen] at ih
    simp only [expectedCompsSDescTr, List.flatMap_cons] at ih ⊢
    simp only [sGroups, List.flatMap_cons, h1, ih, sComps]

/-- the unused blocks of the walk: the separators behind the Twp/Rges (nothing behind the last one) -/
theorem sText_unused (sp : Str) (txt : Str) (hL : Hd) : ∀ (gs : List Gp) (l : Ln) (ls : List Ln) (pre : Str),
    txt = pre ++ sText sp l ls gs hL →
    (pairs ((sGroups sp pre.length l ls gs hL).flatMap sGroupMarkers)).filterMap (unusedBlockOf txt) =
      gs.map (fun _ => sp) ++ [[]]
  | [], l, ls, pre, htxt => by
    have e : (sGroups sp pre.length l ls [] hL).flatMap sGroupMarkers = imk (itemsAt pre.length l ls) ++
        [((pre.length + (lnsText l ls).length + 1, Marker.trStart) : Nat × Marker),
          (pre.length + (lnsText l ls).length + 1 + hL.text.length, Marker.trEnd)] := by
      simp [sGroups, sGroupMarkers]
    rw [e, pairs_sec_prefix txt _ _ (imk_types _)]
    have hs : ∀ n, slice txt n n = [] := by
      intro n; simp [slice, List.drop_eq_nil_iff]
    simp only [pairs, List.head?_cons, List.head?_nil, Option.getD_some, Option.getD_none, List.filterMap_cons,
      List.filterMap_nil, unusedBlockOf, hs, List.map_nil, List.nil_append]
  | g :: gs, l, ls, pre, htxt => by
    have ih := sText_unused sp txt hL gs g.l g.ls (pre ++ lnsText l ls ++ ['\n'] ++ g.h.text ++ sp)
      (by rw [htxt]; simp [sText, hdrsFrom, Gp.text, Gp.body, lnsText])
    have hlen : (pre ++ lnsText l ls ++ ['\n'] ++ g.h.text ++ sp).length =
        pre.length + (lnsText l ls).length + 1 + g.h.text.length + sp.length := by simp; omega
    rw [hlen] at ih
    have e : (sGroups sp pre.length l ls (g :: gs) hL).flatMap sGroupMarkers = imk (itemsAt pre.length l ls) ++
        (((pre.length + (lnsText l ls).length + 1, Marker.trStart) : Nat × Marker) ::
          (pre.length + (lnsText l ls).length + 1 + g.h.text.length, Marker.trEnd) ::
          (sGroups sp (pre.length + (lnsText l ls).length + 1 + g.h.text.length + sp.length) g.l g.ls gs hL).flatMap sGroupMarkers) := by
      simp [sGroups, sGroupMarkers]
    have hhead : ((sGroups sp (pre.length + (lnsText l ls).length + 1 + g.h.text.length + sp.length) g.l g.ls gs hL).flatMap
        sGroupMarkers).head?.getD (pre.length + (lnsText l ls).length + 1 + g.h.text.length, Marker.trEnd) =
        (pre.length + (lnsText l ls).length + 1 + g.h.text.length + sp.length, Marker.secStart) := by
      cases gs <;> simp [sGroups, sGroupMarkers, itemsAt, imk]
    have hslice : slice txt (pre.length + (lnsText l ls).length + 1 + g.h.text.length)
        (pre.length + (lnsText l ls).length + 1 + g.h.text.length + sp.length) = sp := by
      refine slice_at txt (pre ++ lnsText l ls ++ ['\n'] ++ g.h.text) sp (lnsText g.l g.ls ++ '\n' :: hdrsFrom sp gs hL) _ _ ?_
        (by simp; omega) (by simp; omega)
      rw [htxt]; simp [sText, hdrsFrom, Gp.text, Gp.body, lnsText]
    rw [e, pairs_sec_prefix txt _ _ (imk_types _)]
    simp only [pairs, List.filterMap_cons, List.head?_cons, Option.getD_some, hhead]
    have h1 : unusedBlockOf txt ((pre.length + (lnsText l ls).length + 1, Marker.trStart),
        (pre.length + (lnsText l ls).length + 1 + g.h.text.length, Marker.trEnd)) = none := rfl
    have h2 : unusedBlockOf txt ((pre.length + (lnsText l ls).length + 1 + g.h.text.length, Marker.trEnd),
        (pre.length + (lnsText l ls).length + 1 + g.h.text.length + sp.length, Marker.secStart)) = some sp := by
      simp [unusedBlockOf, hslice]
    rw [h1, h2, ih]
    rfl

theorem Reports.intro {mc : MC} {rc : ReqColon} {txt : Str} {L : Lay} {groups : List TRGroup}
    (trs : List TRMatch) (tff : FinderFlags) (secs : List SecMatch) (sff : FinderFlags)
    (h1 : twprgeFinder mc txt L.str = .ok (trs, tff)) (h2 : secFinder txt L.str rc = .ok (secs, sff))
    (h3 : trs.map (fun m => (m.twprge, m.start, m.stop)) = groups.map (fun g => (g.tr, g.tStart, g.tEnd)))
    (h4 : secs.map (·.secs) = allSecs groups)
    (h5 : populateMarkers txt.length secs trs = L.markers groups txt.length) : Reports mc rc txt L groups := by
  unfold Reports
  simp only [h1, h2]
  exact ⟨h3, h4, h5⟩

/-- the lexical premise of `C20_chunk_run` / `C20_segment_*` holds for the canonical text -/
theorem C01_reports_S_desc_TR (mc : MC) (hns : isLegal Gen.LEGAL_NS mc.ns = true) (hew : isLegal Gen.LEGAL_EW mc.ew = true)
    (sp : Str) (hsp : SepOk sp) (l : Ln) (ls : List Ln) (gs : List Gp) (hL : Hd)
    (hl : l.Ok) (hls : ∀ x ∈ ls, x.Ok) (hgs : ∀ x ∈ gs, x.Ok) (hLok : hL.Ok) (rc : ReqColon) :
    Reports mc rc (sText sp l ls gs hL) .sDescTr (sGroups sp 0 l ls gs hL) := by
  refine Reports.intro _ _ _ _ (twprgeFinder_sText mc hns hew sp hsp l ls gs hL hl hls hgs hLok)
    (secFinder_sText sp hsp l ls gs hL hl hls hgs hLok rc) ?_ ?_ (populateMarkers_sText sp hsp l ls gs hL)
  · have := trsOf_sGroups sp hL gs 0 l ls
    rw [Nat.zero_add] at this
    rw [← this]
    simp [trsOf, List.map_map, Function.comp_def]
  · have := secsOf_sGroups sp hL gs 0 l ls
    rw [sSecOutAt_zero] at this
    rw [← this]
    exact secsOf_secs _

theorem parseMeaningful_pairs_S (c0 : Chunk) (txt : Str) (ms : List (Nat × Marker)) :
    parseMeaningful c0 txt S_DESC_TR ms = (pairs ms).foldl (stepP txt TRS_DESC) (getNextTwprge c0) := by
  unfold parseMeaningful
  simp only [sDescLays_S_DESC_TR, trFirstLays_S_DESC_TR, Bool.not_true, Bool.not_false, Bool.false_eq_true, if_false, if_true]
  rw [stepP_TRS_eq_S]
  exact walk_eq_pairs _ _ _ _

/-! ### the layout is deduced -/

theorem hdrsFrom_tail (sp : Str) (hL : Hd) : ∀ gs : List Gp, ∃ Y, hdrsFrom sp gs hL = Y ++ hL.text
  | [] => ⟨[], rfl⟩
  | g :: gs => by
    obtain ⟨Y, h⟩ := hdrsFrom_tail sp hL gs
    exact ⟨g.text sp ++ '\n' :: Y, by simp [hdrsFrom, h]⟩

theorem pyStrip_sText (sp : Str) (l : Ln) (ls : List Ln) (gs : List Gp) (hL : Hd) (hLok : hL.Ok) :
    pyStrip (sText sp l ls gs hL) = sText sp l ls gs hL := by
  obtain ⟨Y, hY⟩ := hdrsFrom_tail sp hL gs
  have hns : pyIsSpace hL.ew = false := by rcases hLok.ew with e | e <;> rw [e] <;> decide
  have hlast : (sText sp l ls gs hL).getLast? = some hL.ew := by
    have e : sText sp l ls gs hL = (lnsText l ls ++ '\n' :: Y ++ 'T' :: (hL.t ++ hL.ns :: '-' :: 'R' :: hL.r)) ++ [hL.ew] := by
      simp [sText, hY, Hd.text, canonText]
    rw [e]; exact List.getLast?_concat
  have hhead : sText sp l ls gs hL = 'S' :: (['e', 'c', ' ', l.n1, l.n2, ':'] ++ ' ' :: l.d ++ lnsSeg ls ++ '\n' :: hdrsFrom sp gs hL) := by
    simp [sText, lnsText, Ln.text, Ln.ref]
  unfold pyStrip stripBy
  have h1 : lstripBy pyIsSpace (sText sp l ls gs hL) = sText sp l ls gs hL := by
    rw [hhead]; exact Pretty.lstripBy_head_false _ _ _ (by decide)
  rw [h1]
  exact Pretty.rstripBy_getLast_false _ _ hL.ew hlast hns

/-- **the layout of the canonical text is deduced**: the text starts with a section, the Twp/Rge comes later -/
theorem deduceLayout_sText (sp : Str) (hsp : SepOk sp) (l : Ln) (ls : List Ln) (gs : List Gp) (hL : Hd)
    (hl : l.Ok) (hls : ∀ x ∈ ls, x.Ok) (hgs : ∀ x ∈ gs, x.Ok) (hLok : hL.Ok) :
    deduceLayout (sText sp l ls gs hL) = S_DESC_TR := by
  obtain ⟨sm, hsm, hstart⟩ : ∃ sm, Gen.no_num_sec_regex.search (sText sp l ls gs hL) = some sm ∧ sm.start = 0 := by
    have hLd := (eats_secWord 1 (l.n1 :: l.n2 :: ':' :: ' ' :: l.d ++ (lnsSeg ls ++ '\n' :: hdrsFrom sp gs hL))) none 0 []
    rw [← nonum_decomp] at hLd
    have hm := matchHere_of_leads false hLd (Or.inl rfl)
    have e : sText sp l ls gs hL = 'S' :: (['e', 'c'] ++ ' ' :: (l.n1 :: l.n2 :: ':' :: ' ' :: l.d ++ (lnsSeg ls ++ '\n' :: hdrsFrom sp gs hL))) := by
      simp [sText, lnsText, Ln.text, Ln.ref]
    rw [search_default, e, LT.scan_cons]
    have e2 : (['S', 'e', 'c'] ++ ' ' :: (l.n1 :: l.n2 :: ':' :: ' ' :: l.d ++ (lnsSeg ls ++ '\n' :: hdrsFrom sp gs hL))) =
        'S' :: (['e', 'c'] ++ ' ' :: (l.n1 :: l.n2 :: ':' :: ' ' :: l.d ++ (lnsSeg ls ++ '\n' :: hdrsFrom sp gs hL))) := rfl
    rw [e2] at hm
    rw [hm]
    exact ⟨_, rfl, rfl⟩
  obtain ⟨tm, htm, htstart⟩ : ∃ tm, twprge.rx.search (sText sp l ls gs hL) = some tm ∧ 0 < tm.start := by
    have := (sTextTiles Gen.twprge_regex twprge_gapSkips sp hsp false twMk
      (fun h l rest prev pos hok hl hprev => twprge_tok sp hsp h l rest prev pos hok hl hprev) twMk
      (fun h prev pos hok hprev => twprge_tokL h prev pos hok hprev) l ls gs hL hl hls hgs hLok).search_eq
    cases gs with
    | nil => exact ⟨_, this.trans rfl, by simp [twMk, Spelling.matchAt] <;> omega⟩
    | cons g gs => exact ⟨_, this.trans rfl, by simp [twMk, Spelling.matchAt] <;> omega⟩
  unfold deduceLayout
  rw [pyStrip_sText sp l ls gs hL hLok]
  simp only []
  rw [hsm, htm]
  have hlt : sm.start < tm.start := by omega
  have hle : sm.start ≤ 1 := by omega
  have hc : ([TRS_DESC, DESC_STR, S_DESC_TR, TR_DESC_S] : List Str).contains S_DESC_TR = true := by decide
  simp only [hlt, if_true, hc, hle, decide_true, Bool.and_self]

/-- **C01 (layout Sec–desc–Twp/Rge, chunk level, no lexical premise)**: `parse_chunk` on the canonical text — lines
    `Sec nn: <inert block>`, then the Twp/Rge closing the group; any separator of blanks / line breaks between a Twp/Rge and the
    first line of the next group — deduces (or accepts) the layout S_desc_TR, raises neither an error nor a warning flag, and
    (without `sec_within`) stages exactly one component per line, in reading order, with the Twp/Rge that closes its group, its
    section and its block verbatim; the only unused text are the separators -/
theorem C01_chunk_canonical_S_desc_TR (mc : MC) (pc : ParserCfg) (hns : isLegal Gen.LEGAL_NS mc.ns = true)
    (hew : isLegal Gen.LEGAL_EW mc.ew = true) (sp : Str) (hsp : SepOk sp) (l : Ln) (ls : List Ln) (gs : List Gp) (hL : Hd)
    (hl : l.Ok) (hls : ∀ x ∈ ls, x.Ok) (hgs : ∀ x ∈ gs, x.Ok) (hLok : hL.Ok) (parentLayout : Str)
    (hml : pc.mandateLayout = true → parentLayout = S_DESC_TR) :
    ∃ c, parseChunkCore mc pc (sText sp l ls gs hL) false parentLayout = .ok c ∧ c.fl.e = [] ∧ c.fl.w = [] ∧
      (pc.secWithin = false → c.comps = sComps l ls gs hL ∧ c.unused.map (·.2) = gs.map (fun _ => sp) ++ [[]]) := by
  have hlay : chunkLayoutOf pc (sText sp l ls gs hL) false parentLayout = S_DESC_TR := by
    unfold chunkLayoutOf
    simp only [Bool.false_eq_true, if_false]
    split
    · rename_i h; exact hml h
    · exact deduceLayout_sText sp hsp l ls gs hL hl hls hgs hLok
  have htr := twprgeFinder_sText mc hns hew sp hsp l ls gs hL hl hls hgs hLok
  have hsec := secFinder_sText sp hsp l ls gs hL hl hls hgs hLok pc.requireColon
  have hmark := populateMarkers_sText sp hsp l ls gs hL
  have hne := sGroups_items_ne sp hL gs 0 l ls
  have hg := sGroups_ne sp hL gs 0 l ls
  have hcopy : (S_DESC_TR == COPY_ALL) = false := by decide
  have htrl : (trOutS sp ((lnsText l ls).length + 1) gs hL).map (·.twprge) = (sGroups sp 0 l ls gs hL).map (·.tr) := by
    have := trsOf_sGroups sp hL gs 0 l ls
    rw [Nat.zero_add] at this
    rw [← this]; simp [trsOf, List.map_map, Function.comp_def]
  have hsecl : (sSecOut sp l ls gs).map (·.secs) = allSecs (sGroups sp 0 l ls gs hL) := by
    have := secsOf_sGroups sp hL gs 0 l ls
    rw [sSecOutAt_zero] at this
    rw [← this]; exact secsOf_secs _
  have W := C20_walk_all_layouts .sDescTr (sText sp l ls gs hL) (sGroups sp 0 l ls gs hL)
    (sText sp l ls gs hL).length { w := [], wl := [] } hne hg
  rw [show Lay.sDescTr.str = S_DESC_TR from rfl] at W
  obtain ⟨w1, w2, w3, w4, w5, w6⟩ := W
  obtain ⟨f1, f2⟩ := finishChunk_clean pc _ w2 w3 w5 w6
  refine ⟨finishChunk pc (parseMeaningful (startChunk { w := [], wl := [] } (sGroups sp 0 l ls gs hL)) (sText sp l ls gs hL)
    S_DESC_TR (Lay.sDescTr.markers (sGroups sp 0 l ls gs hL) (sText sp l ls gs hL).length)), ?_, ?_, ?_, ?_⟩
  · unfold parseChunkCore
    simp only [hlay, htr, hsec, hcopy, hmark, htrl, hsecl]
    rfl
  · rw [f1]; exact (congrArg (·.e) w4)
  · rw [f1]; exact (congrArg (·.w) w4)
  · intro hsw
    refine ⟨((f2 hsw).1).trans (w1.trans ?_), ?_⟩
    · exact sGroups_comps sp _ hL gs l ls [] rfl hl hls hgs
    · rw [(f2 hsw).2]
      show (parseMeaningful _ _ S_DESC_TR _).unused.map (·.2) = _
      rw [parseMeaningful_pairs_S, fold_unused, getNextTwprge_unused]
      have hmk : Lay.sDescTr.markers (sGroups sp 0 l ls gs hL) (sText sp l ls gs hL).length =
          (sGroups sp 0 l ls gs hL).flatMap sGroupMarkers := by
        have hend := endOf_sGroups sp hL gs 0 l ls
        rw [Nat.zero_add] at hend
        obtain ⟨initM, hM⟩ := sMarkers_last _ hg
        rw [hend] at hM
        have hfirstS : firstS (sGroups sp 0 l ls gs hL) = 0 := by cases gs <;> simp [sGroups, firstS, itemsAt]
        simp only [Lay.markers, Lay.core, hfirstS, pre0, if_true, List.nil_append, withEnd]
        rw [if_pos]
        rw [hM]; simp [lastPos]
      rw [hmk]
      have := sText_unused sp (sText sp l ls gs hL) hL gs l ls [] rfl
      simp only [List.length_nil] at this
      rw [this]
      rfl

/-! ## Part 5 — through the whole parser (given the preprocessed text) -/

/-- the (Twp/Rge key, line) pairs of the canonical text, in reading order: a line belongs to the Twp/Rge that CLOSES its group -/
def sPairs : Ln → List Ln → List Gp → Hd → List (Str × Ln)
  | l, ls, [], hL => (l :: ls).map (fun x => (hL.key, x))
  | l, ls, g :: gs, hL => (l :: ls).map (fun x => (g.h.key, x)) ++ sPairs g.l g.ls gs hL

/-- the tracts the canonical text stands for: (trs string, description) -/
def sTracts (l : Ln) (ls : List Ln) (gs : List Gp) (hL : Hd) : List (Str × Str) :=
  (sPairs l ls gs hL).map (fun p => (p.1 ++ [p.2.n1, p.2.n2], p.2.d))

theorem sComps_pairs : ∀ (gs : List Gp) (l : Ln) (ls : List Ln) (hL : Hd),
    sComps l ls gs hL = (sPairs l ls gs hL).map (fun p => lnComp p.1 p.2)
  | [], l, ls, hL => by simp [sComps, sPairs, List.map_map, Function.comp_def]
  | g :: gs, l, ls, hL => by
    simp [sComps, sPairs, List.map_map, Function.comp_def, sComps_pairs gs g.l g.ls hL]

def StdHd (h : Hd) : Prop :=
  ∃ (a b : Nat) (ns ew : Char), a < 1000 ∧ b < 1000 ∧ (ns = 'n' ∨ ns = 's') ∧ (ew = 'e' ∨ ew = 'w') ∧ h = stdHd a b ns ew

theorem StdHd.ok {h : Hd} (hs : StdHd h) : h.Ok := by
  obtain ⟨a, b, ns, ew, ha, hb, hns, hew, rfl⟩ := hs
  exact stdHd_ok a b ns ew ha hb hns hew

/-- an abstract description in the layout Sec–desc–Twp/Rge: lines with inert blocks, standard Twp/Rges -/
structure StdS (l : Ln) (ls : List Ln) (gs : List Gp) (hL : Hd) : Prop where
  l : l.Ok
  ls : ∀ x ∈ ls, x.Ok
  gs : ∀ g ∈ gs, StdGp g
  hL : StdHd hL

theorem sPairs_std : ∀ (gs : List Gp) (l : Ln) (ls : List Ln) (hL : Hd), StdS l ls gs hL → ∀ p ∈ sPairs l ls gs hL,
    ∃ (a b : Nat) (ns ew : Char), a < 1000 ∧ b < 1000 ∧ (ns = 'n' ∨ ns = 's') ∧ (ew = 'e' ∨ ew = 'w') ∧ p.1 = (stdHd a b ns ew).key ∧
      p.2.Ok
  | [], l, ls, hL, hs, p, hp => by
    simp only [sPairs, List.mem_map] at hp
    obtain ⟨x, hx, rfl⟩ := hp
    obtain ⟨a, b, ns, ew, ha, hb, hns, hew, e⟩ := hs.hL
    refine ⟨a, b, ns, ew, ha, hb, hns, hew, by rw [e], ?_⟩
    rcases List.mem_cons.1 hx with rfl | hx
    · exact hs.l
    · exact hs.ls x hx
  | g :: gs, l, ls, hL, hs, p, hp => by
    simp only [sPairs, List.mem_append, List.mem_map] at hp
    rcases hp with ⟨x, hx, rfl⟩ | hp
    · obtain ⟨a, b, ns, ew, ha, hb, hns, hew, e⟩ := (hs.gs g (by simp)).std
      refine ⟨a, b, ns, ew, ha, hb, hns, hew, by rw [e], ?_⟩
      rcases List.mem_cons.1 hx with rfl | hx
      · exact hs.l
      · exact hs.ls x hx
    · have hg := (hs.gs g (by simp)).ok
      exact sPairs_std gs g.l g.ls hL ⟨hg.ls g.l (by simp [Gp.lines]), fun x hx => hg.ls x (by simp [Gp.lines, hx]),
        fun x hx => hs.gs x (by simp [hx]), hs.hL⟩ p hp

/-- the FULL statement for the layout Sec–desc–Twp/Rge (not proved here: the preprocessing step is missing, see
    `C01_canonical_forward_S_desc_TR_partial`): the raw canonical text, whatever separator `sp` stands behind a Twp/Rge, is
    parsed into exactly one tract per line -/
def C01_canonical_forward_S_desc_TR_statement : Prop :=
  ∀ (mc : MC) (uid0 : Nat) (a : ParserArgs) (sp : Str) (l : Ln) (ls : List Ln) (gs : List Gp) (hL : Hd),
    SepOk sp → StdS l ls gs hL →
    isLegal Gen.LEGAL_NS mc.ns = true → isLegal Gen.LEGAL_EW mc.ew = true →
    isLegal Gen.LEGAL_NS (resolve a.defaultNS mc.ns) = true → isLegal Gen.LEGAL_EW (resolve a.defaultEW mc.ew) = true →
    a.ocrScrub = false → a.segment = false → a.secWithin = false → (a.layout = none ∨ a.layout = some S_DESC_TR) →
    ∀ (hd : Str) (c : Config.Cfg), handedDownText a = .ok hd → Config.ofText hd = .ok c →
    ∃ out, plssParser mc uid0 (sText sp l ls gs hL) a = .ok out ∧ out.layout = S_DESC_TR ∧
      out.text = sText [' '] l ls gs hL ∧ out.fl.e = [] ∧
      out.tracts.map (fun t => (t.trs, t.desc)) = (sTracts l ls gs hL).map (fun p => (TRS.trsToDict (some p.1), p.2)) ∧
      (∀ t ∈ out.tracts, TRS.isError t.trs = false)

/-- **C01 — the layout Sec–desc–Twp/Rge through the whole parser, given the preprocessed text.**
    For every abstract description — lines (two-digit section, inert block) grouped under standard Twp/Rges that close their
    groups — and EVERY raw text `text` that `plss_preprocess` turns into the canonical text with one blank behind each inner
    Twp/Rge (no Twp/Rge "fixed"), `PLSSParser` (layout deduced or given as S_desc_TR; any `require_colon` mode, any `clean_up`;
    no segmenting, no `sec_within`) returns exactly one tract per line, in reading order, with the Twp/Rge closing its group,
    its section and its block verbatim; the layout is S_desc_TR; no error flag; no tract with an error Twp/Rge/Sec.
    What is missing for the full statement: that preprocessing the raw canonical text gives this text (hypothesis `hpp`;
    it is checked by evaluation on the instance below). -/
theorem C01_canonical_forward_S_desc_TR_partial (mc : MC) (uid0 : Nat) (a : ParserArgs) (text : Str)
    (l : Ln) (ls : List Ln) (gs : List Gp) (hL : Hd) (hstd : StdS l ls gs hL)
    (hm1 : isLegal Gen.LEGAL_NS mc.ns = true) (hm2 : isLegal Gen.LEGAL_EW mc.ew = true)
    (hpp : plssPreprocess mc text a.defaultNS a.defaultEW a.ocrScrub =
      .ok { text := sText [' '] l ls gs hL, fixed := [], diverged := false })
    (ha2 : a.segment = false) (ha3 : a.secWithin = false)
    (hlay : a.layout = none ∨ a.layout = some S_DESC_TR) (hd : Str) (c : Config.Cfg)
    (hhd : handedDownText a = .ok hd) (hcfg : Config.ofText hd = .ok c) :
    ∃ out, plssParser mc uid0 text a = .ok out ∧ out.layout = S_DESC_TR ∧
      out.text = sText [' '] l ls gs hL ∧ out.fl.e = [] ∧
      out.tracts.map (fun t => (t.trs, t.desc)) = (sTracts l ls gs hL).map (fun p => (TRS.trsToDict (some p.1), p.2)) ∧
      (∀ t ∈ out.tracts, TRS.isError t.trs = false) := by
  have hl := hstd.l
  have hls := hstd.ls
  have hgs : ∀ x ∈ gs, x.Ok := fun x hx => (hstd.gs x hx).ok
  have hLok := hstd.hL.ok
  have hpairs_std := sPairs_std gs l ls hL hstd
  have hpairs_ok : ∀ p ∈ sPairs l ls gs hL, p.2.Ok := fun p hp => by
    obtain ⟨_, _, _, _, _, _, _, _, _, h⟩ := hpairs_std p hp; exact h
  -- the layout
  have hdl := deduceLayout_sText [' '] sepOk_blank l ls gs hL hl hls hgs hLok
  -- the chunk
  let pc : ParserCfg := { mandateLayout := !a.segment && a.layout.isSome, requireColon := a.requireColon, secWithin := a.secWithin }
  obtain ⟨ck, k1, k2, _, k4⟩ := C01_chunk_canonical_S_desc_TR mc pc hm1 hm2 [' '] sepOk_blank l ls gs hL hl hls hgs hLok
    S_DESC_TR (fun _ => rfl)
  obtain ⟨k5, k6⟩ := k4 ha3
  have hne : ck.comps.isEmpty = false := by
    rw [k5, sComps_pairs]; cases gs <;> simp [sPairs]
  obtain ⟨ts, hts, hlen⟩ := C03_buildTracts_total uid0 hd a.parseQQ a.source text TRS.trsToDict c hcfg
    ((sPairs l ls gs hL).map (fun p => (p.2.d, p.1 ++ [p.2.n1, p.2.n2], false))) 0
  have hpairs := TractsOf.buildTracts_pairs _ _ _ _ _ _ _ _ _ hts
  have hidx : secWithinIndexes ((sPairs l ls gs hL).map (fun p => (p.2.d, p.1 ++ [p.2.n1, p.2.n2], false))) = [] :=
    secWithinIndexes_false _ (by intro s hs; simp only [List.mem_map] at hs; obtain ⟨p, _, rfl⟩ := hs; rfl)
  have hunused : ∀ u ∈ ck.unused, u.2.length < Gen.MIN_REPORTABLE_UNUSED_LEN := by
    intro u hu
    have : u.2 ∈ ck.unused.map (·.2) := List.mem_map_of_mem hu
    rw [k6] at this
    simp only [List.mem_append, List.mem_map, List.mem_singleton] at this
    rcases this with ⟨_, _, e⟩ | e
    · rw [← e]; decide
    · rw [e]; decide
  have hnoerr : ∀ t ∈ ts, TRS.isError t.trs = false := by
    intro t ht
    have : (t.trs, t.desc) ∈ ts.map (fun t => (t.trs, t.desc)) := List.mem_map_of_mem ht
    rw [hpairs] at this
    simp only [List.map_map, List.mem_map, Function.comp_apply, Prod.mk.injEq] at this
    obtain ⟨p, hp, e1, _⟩ := this
    obtain ⟨a', b', ns, ew, ha', hb', hns, hew, hk, hl'⟩ := hpairs_std p hp
    rw [← e1, hk]
    exact (std_trs_ok a' b' ns ew ha' hb' hns hew p.2.n1 p.2.n2 hl'.n1 hl'.n2).1
  have hany : ts.any (fun t => TRS.isError t.trs) = false := by
    rw [List.any_eq_false]
    intro t ht
    simp [hnoerr t ht]
  have herr : ∀ fl, errorTractFlag fl ts = fl := by
    intro fl; unfold errorTractFlag; simp [hany]
  have hspecs' := fun cu => tractSpecs_pairs cu (sPairs l ls gs hL) hpairs_ok
  have hk1 : ∀ ml, parseChunkCore mc { mandateLayout := ml, requireColon := a.requireColon, secWithin := false }
      (sText [' '] l ls gs hL) false S_DESC_TR = .ok ck := by
    intro ml
    have : parseChunkCore mc pc (sText [' '] l ls gs hL) false S_DESC_TR =
        parseChunkCore mc { mandateLayout := ml, requireColon := a.requireColon, secWithin := false }
          (sText [' '] l ls gs hL) false S_DESC_TR := by
      unfold parseChunkCore chunkLayoutOf
      simp only [Bool.false_eq_true, if_false, pc, ha3, hdl]
      cases ml <;> cases (!a.segment && a.layout.isSome) <;> simp [hdl, finishChunk, ha3]
    rw [← this]; exact k1
  let pfl := genFlagsChunk (sText [' '] l ls gs hL) (fixedFlags [])
  let P : ParentSt := { fl := { w := pfl.w ++ ck.fl.w, wl := pfl.wl ++ ck.fl.wl, e := pfl.e ++ ck.fl.e, el := pfl.el ++ ck.fl.el },
                        comps := [] ++ ck.comps, unused := [] ++ ck.unused }
  have hchunk : ∀ ml, chunkParser mc { mandateLayout := ml, requireColon := a.requireColon, secWithin := false } (sText [' '] l ls gs hL) false S_DESC_TR
      { fl := fixedFlags [] } = .ok P := by
    intro ml
    unfold chunkParser
    rw [hk1 ml]
    simp only [hne, Bool.false_eq_true, if_false]
    rfl
  have hblocks : parseAllBlocks mc (sText [' '] l ls gs hL) S_DESC_TR a (fixedFlags []) = .ok P := by
    have hcopy : (S_DESC_TR == COPY_ALL) = false := by decide
    unfold parseAllBlocks
    simp only [ha2, ha3, Bool.false_eq_true, if_false, parseBlocks, hcopy, hchunk]
  have hPc : P.comps = (sPairs l ls gs hL).map (fun p => lnComp p.1 p.2) := by
    show [] ++ ck.comps = _
    rw [List.nil_append, k5, sComps_pairs]
  have hrest : ∀ cu, ∃ out, (match tractSpecs cu P.comps with
        | .error e => (.error e : Except PyErr ParserOut)
        | .ok specs =>
          match buildTracts uid0 hd a.parseQQ a.source text TRS.trsToDict 0 specs with
          | .error e => .error e
          | .ok tracts =>
            match secWithinFlags tracts (examineUnused P.fl P.unused) (secWithinIndexes specs) with
            | .error e => .error e
            | .ok fl1 =>
              let fl := errorTractFlag fl1 tracts
              let tracts := handDownFlags fl tracts
              .ok { tracts := tracts, fl := fl, layout := S_DESC_TR, text := (sText [' '] l ls gs hL), nextUid := uid0 + specs.length,
                    diverged := false || tracts.any (·.diverged), handedDown := hd }) = .ok out ∧
      out.layout = S_DESC_TR ∧ out.text = (sText [' '] l ls gs hL) ∧ out.fl.e = [] ∧
      out.tracts.map (fun t => (t.trs, t.desc)) = (sTracts l ls gs hL).map (fun p => (TRS.trsToDict (some p.1), p.2)) ∧
      (∀ t ∈ out.tracts, TRS.isError t.trs = false) := by
    intro cu
    rw [hPc, hspecs' cu]
    simp only [hts, hidx, secWithinFlags, herr]
    refine ⟨_, rfl, rfl, rfl, ?_, ?_, ?_⟩
    · simp only []
      have hu : ∀ u ∈ P.unused, u.2.length < Gen.MIN_REPORTABLE_UNUSED_LEN := by
        intro u hu; exact hunused u (by simpa [P] using hu)
      rw [examineUnused_short _ _ hu]
      show pfl.e ++ ck.fl.e = []
      rw [k2, (genFlagsChunk_e _ _).1]
      rfl
    · simp only [handDownFlags, List.map_map, Function.comp_def]
      rw [hpairs]
      simp [sTracts, List.map_map, Function.comp_def]
    · intro t ht
      simp only [handDownFlags, List.mem_map] at ht
      obtain ⟨t', ht', rfl⟩ := ht
      exact hnoerr t' ht'
  unfold plssParser
  simp only [hhd, hpp]
  rcases hlay with e | e
  · simp only [e, hdl]
    rw [hblocks]
    exact hrest _
  · simp only [e]
    rw [hblocks]
    exact hrest _

/-! ## Part 6 — non-vacuity: concrete instances -/

/-- a decidable check of a preprocessing result (the premise `hpp` of `C01_canonical_forward_S_desc_TR_partial`) -/
def ppCheck (x : Except PyErr PPResult) (t : Str) : Bool :=
  match x with
  | .ok r => r.text == t && r.fixed.isEmpty && !r.diverged
  | .error _ => false

theorem ppCheck_eq (x : Except PyErr PPResult) (t : Str) (h : ppCheck x t = true) :
    x = .ok { text := t, fixed := [], diverged := false } := by
  cases x with
  | error e => cases h
  | ok r =>
    obtain ⟨rt, rf, rd⟩ := r
    simp only [ppCheck, Bool.and_eq_true, beq_iff_eq, List.isEmpty_iff, Bool.not_eq_true'] at h
    obtain ⟨⟨h1, h2⟩, h3⟩ := h
    subst h1 h2 h3
    rfl

namespace Layout2Ex
open LayoutEx

def l0 : Ln := ⟨'1', '4', S "hog valley by bluff"⟩
def l1 : Ln := ⟨'1', '5', S "fern gully"⟩
/-- the Twp/Rge closing the first group, and the line of the second group -/
def gA : Gp := ⟨stdHd 154 97 'n' 'w', ⟨'3', '6', S "wy Wyoming; f/k/a marker"⟩, []⟩
/-- the Twp/Rge closing the second (last) group -/
def hZ : Hd := stdHd 7 102 's' 'e'

theorem l0_ok : l0.Ok := ⟨by decide, by decide, by decide +kernel⟩
theorem l1_ok : l1.Ok := ⟨by decide, by decide, by decide +kernel⟩
theorem ls_ok : ∀ x ∈ [l1], x.Ok := by
  intro x hx; simp only [List.mem_singleton] at hx; subst hx; exact l1_ok

theorem gA_std : StdGp gA :=
  ⟨⟨stdHd_ok 154 97 'n' 'w' (by decide) (by decide) (Or.inl rfl) (Or.inr rfl), by
      intro l hl
      simp only [Gp.lines, gA, List.mem_cons, List.not_mem_nil, or_false] at hl
      subst hl
      exact ⟨by decide, by decide, by decide +kernel⟩⟩,
    ⟨154, 97, 'n', 'w', by decide, by decide, Or.inl rfl, Or.inr rfl, rfl⟩⟩

theorem gs_std : ∀ x ∈ [gA], StdGp x := by
  intro x hx; simp only [List.mem_singleton] at hx; subst hx; exact gA_std

theorem hZ_std : StdHd hZ := ⟨7, 102, 's', 'e', by decide, by decide, Or.inr rfl, Or.inl rfl, rfl⟩

theorem ex_std : StdS l0 [l1] [gA] hZ := ⟨l0_ok, ls_ok, gs_std, hZ_std⟩

/-- the canonical text, with a line break / a blank behind the inner Twp/Rge -/
theorem text_nl : sText ['\n'] l0 [l1] [gA] hZ =
    S "Sec 14: hog valley by bluff\nSec 15: fern gully\nT154N-R97W\nSec 36: wy Wyoming; f/k/a marker\nT7S-R102E" := by decide +kernel
theorem text_blank : sText [' '] l0 [l1] [gA] hZ =
    S "Sec 14: hog valley by bluff\nSec 15: fern gully\nT154N-R97W Sec 36: wy Wyoming; f/k/a marker\nT7S-R102E" := by decide +kernel

/-- `C01_chunk_canonical_S_desc_TR` on the concrete text (layout deduced, colon required cautiously) -/
example : ∃ c, parseChunkCore {} pc (sText ['\n'] l0 [l1] [gA] hZ) false TRS_DESC = .ok c ∧ c.fl.e = [] ∧ c.fl.w = [] ∧
    (pc.secWithin = false → c.comps = sComps l0 [l1] [gA] hZ ∧ c.unused.map (·.2) = [gA].map (fun _ => ['\n']) ++ [[]]) :=
  C01_chunk_canonical_S_desc_TR {} pc (by decide) (by decide) ['\n'] sepOk_nl l0 [l1] [gA] hZ l0_ok ls_ok
    (fun x hx => (gs_std x hx).ok) hZ_std.ok TRS_DESC (fun h => by cases h)

example : (sComps l0 [l1] [gA] hZ).map (fun c => (c.twprge, c.sec, c.desc)) =
    [(some (S "154n97w"), some [S "14"], S "hog valley by bluff"), (some (S "154n97w"), some [S "15"], S "fern gully"),
     (some (S "7s102e"), some [S "36"], S "wy Wyoming; f/k/a marker")] := by decide +kernel

/-- the premise `hpp` on the concrete text: preprocessing turns the line break behind the inner Twp/Rge into a blank -/
theorem pp_ex : plssPreprocess {} (sText ['\n'] l0 [l1] [gA] hZ) none none false =
    .ok { text := sText [' '] l0 [l1] [gA] hZ, fixed := [], diverged := false } :=
  ppCheck_eq _ _ (by decide +kernel)

/-- `C01_canonical_forward_S_desc_TR_partial` on the concrete text, default arguments: the conclusion of the full statement -/
example : ∃ out, plssParser {} 0 (sText ['\n'] l0 [l1] [gA] hZ) {} = .ok out ∧ out.layout = S_DESC_TR ∧
    out.text = sText [' '] l0 [l1] [gA] hZ ∧ out.fl.e = [] ∧
    out.tracts.map (fun t => (t.trs, t.desc)) = (sTracts l0 [l1] [gA] hZ).map (fun p => (TRS.trsToDict (some p.1), p.2)) ∧
    (∀ t ∈ out.tracts, TRS.isError t.trs = false) :=
  C01_canonical_forward_S_desc_TR_partial {} 0 {} _ l0 [l1] [gA] hZ ex_std (by decide) (by decide) pp_ex rfl rfl (Or.inl rfl)
    hd0 cfg0 hd0_ok cfg0_ok

example : sTracts l0 [l1] [gA] hZ = [(S "154n97w14", S "hog valley by bluff"), (S "154n97w15", S "fern gully"),
    (S "7s102e36", S "wy Wyoming; f/k/a marker")] := by decide +kernel

/-- the lexical premise of `C20_chunk_run` / `C20_segment_*` (Lemmas/Segment.lean) for the concrete text -/
example : Reports {} .cautious (sText [' '] l0 [l1] [gA] hZ) .sDescTr (sGroups [' '] 0 l0 [l1] [gA] hZ) :=
  C01_reports_S_desc_TR {} (by decide) (by decide) [' '] sepOk_blank l0 [l1] [gA] hZ l0_ok ls_ok (fun x hx => (gs_std x hx).ok)
    hZ_std.ok .cautious

end Layout2Ex

#print axioms hdrsTiles
#print axioms secFinder_sText
#print axioms twprgeFinder_sText
#print axioms populateMarkers_sText
#print axioms deduceLayout_sText
#print axioms C01_reports_S_desc_TR
#print axioms C01_chunk_canonical_S_desc_TR
#print axioms C01_canonical_forward_S_desc_TR_partial
#print axioms Layout2Ex.pp_ex

end PyTRS
