/-
C01 — the layout Sec–desc–Twp/Rge (`S_desc_TR`) on TEXT, with no lexical premise at chunk level
(continuation of `Lemmas/LayoutText.lean`, which does Twp/Rge–Sec–desc end to end).

The canonical text `sText sp l ls gs hL`: lines `Sec nn: <inert block>` (separated by line breaks), a line break, the
Twp/Rge `T154N-R97W` that CLOSES the group; then a separator `sp` (blanks / line breaks, at least one), the lines of the next
group, …; the text ends with the last Twp/Rge `hL`.  (`l :: ls` = the lines of the first group; a `Gp` of `gs` = a Twp/Rge
and the lines that follow it, i.e. the lines of the NEXT group.)  `Inert` needed no strengthening for this layout.

Contents.
* Part 0: `secFinder` / `twprgeFinder` do not distinguish S_desc_TR from TRS_desc (`secFinder_S`, `twprgeFinder_S`).
* Part 1: the text; `hdrsTiles` / `sTextTiles` — tiling by headers for any pattern with `GapSkips` (also for the scrubbers).
* Part 2: `secFinder_sText`, `twprgeFinder_sText` (the context check `sec_twprge_in_between` between the last section
  reference of a group and its Twp/Rge finds nothing: `trStepH`, `trFoldS`).
* Part 3: the arrangement `sGroups`, `populateMarkers_S` (start-of-text AND end-of-text marker overwritten),
  `populateMarkers_sText`.
* Part 4: `sGroups_comps`, `sText_unused`, `C01_reports_S_desc_TR` (the premise `Reports` of Lemmas/Segment.lean),
  `deduceLayout_sText`, **`C01_chunk_canonical_S_desc_TR`** (`parse_chunk`, any separator).
* Part 5: `C01_canonical_forward_S_desc_TR_partial` — the whole `PLSSParser`, GIVEN the result of `plss_preprocess`
  (hypothesis `hpp`, for ANY raw text); the full statement `C01_canonical_forward_S_desc_TR_statement`.
* Part 5b: preprocessing.  Every scrubber appends a blank behind the LAST Twp/Rge too, so the intermediate texts end in
  blanks (`sTextF sp fin`), which `pp_twprge_comma_remove` reduces to one and the final strip removes: `hdrsTilesF`,
  `rewrite_hdrsF`, `scrub_sText`, `scrub1_sText` … `scrub6_sText`, `reduceWhitespace_sText`, `findTwprgeRaw_sText`,
  **`plssPreprocess_sText`**, and with it **`C01_canonical_forward_S_desc_TR`** (the whole parser on the raw text, no
  premise) and `C01_canonical_forward_S_desc_TR_full` (the recorded statement holds).
* Part 5c: `C01_canonical_forward_S_desc_TR_groups` — the same for a list of groups `SGp` = (lines, closing Twp/Rge), text `sDoc`.
* Part 6: concrete instances.
-/
import PyTRS.Lemmas.LayoutText
import PyTRS.Lemmas.Segment
set_option linter.unusedSimpArgs false
set_option linter.unusedVariables false
namespace PyTRS
open PyTRS.Obj PyTRS.Plss PyTRS.Export PyTRS.Unpack

/-! ## Part 0 — the two finders do not distinguish TRS_desc from S_desc_TR -/

theorem secFindStep_S (text : Str) : secFindStep text S_DESC_TR = secFindStep text TRS_DESC := by
  funext nc st mo
  unfold secFindStep
  have e : firstLayouts S_DESC_TR = firstLayouts TRS_DESC := by decide
  simp only [e]

theorem secFinder_S (text : Str) (rc : ReqColon) : secFinder text S_DESC_TR rc = secFinder text TRS_DESC rc := by
  have e : firstLayouts S_DESC_TR = firstLayouts TRS_DESC := by decide
  unfold secFinder secFinderPass
  simp only [e, secFindStep_S]

theorem trFindStep_S (mc : MC) (text : Str) : trFindStep mc text S_DESC_TR = trFindStep mc text TRS_DESC := by
  funext st mo
  unfold trFindStep
  have e1 : (S_DESC_TR == DESC_STR || S_DESC_TR == TR_DESC_S || S_DESC_TR == COPY_ALL) = false := by decide
  have e2 : (TRS_DESC == DESC_STR || TRS_DESC == TR_DESC_S || TRS_DESC == COPY_ALL) = false := by decide
  simp only [e1, e2]

theorem twprgeFinder_S (mc : MC) (text : Str) : twprgeFinder mc text S_DESC_TR = twprgeFinder mc text TRS_DESC := by
  unfold twprgeFinder
  rw [trFindStep_S]

/-! ## Part 1 — the canonical text of the layout Sec–desc–Twp/Rge -/

/-- the lines of a group -/
def lnsText (l : Ln) (ls : List Ln) : Str := l.text ++ lnsSeg ls

/-- what follows the line break behind the lines of the first group: the Twp/Rges, each (but the last) followed by the
    separator and the lines of the next group; the last Twp/Rge ends the text.  (`Gp` = a Twp/Rge and the lines that FOLLOW
    it, i.e. the lines of the NEXT group.) -/
def hdrsFrom (sp : Str) : List Gp → Hd → Str
  | [], hL => hL.text
  | g :: gs, hL => g.text sp ++ '\n' :: hdrsFrom sp gs hL

/-- the canonical text: the lines `l :: ls` of the first group, its Twp/Rge (the header of the first `Gp`, or `hL`), … -/
def sText (sp : Str) (l : Ln) (ls : List Ln) (gs : List Gp) (hL : Hd) : Str := lnsText l ls ++ '\n' :: hdrsFrom sp gs hL

theorem nl_hdrsFrom (sp : Str) (hL : Hd) : ∀ gs : List Gp, '\n' :: hdrsFrom sp gs hL = gpsSeg sp gs ++ '\n' :: hL.text
  | [] => rfl
  | g :: gs => by
    have ih := nl_hdrsFrom sp hL gs
    simp only [hdrsFrom, gpsSeg, List.cons_append, List.append_assoc, ih]

theorem hdrsFrom_head (sp : Str) (hL : Hd) (hLok : hL.Ok) : ∀ gs : List Gp, (∀ x ∈ gs, x.Ok) →
    ∃ (h : Hd) (rest : Str), h.Ok ∧ hdrsFrom sp gs hL = h.text ++ rest
  | [], _ => ⟨hL, [], hLok, by simp [hdrsFrom]⟩
  | g :: gs, hgs => ⟨g.h, g.body sp ++ '\n' :: hdrsFrom sp gs hL, (hgs g (by simp)).h, by simp [hdrsFrom, Gp.text]⟩

theorem groupTail_hdrsFrom (sp : Str) (hL : Hd) (hLok : hL.Ok) (gs : List Gp) (hgs : ∀ x ∈ gs, x.Ok) :
    GroupTail ('\n' :: hdrsFrom sp gs hL) := by
  obtain ⟨h, rest, hok, e⟩ := hdrsFrom_head sp hL hLok gs hgs
  exact Or.inr ⟨h, rest, hok, by rw [e]⟩

theorem Hd.text_ne (h : Hd) : h.text ≠ [] := by simp [Hd.text, canonText]

/-- **tiling by headers** (layout Sec–desc–Twp/Rge): a pattern that matches each header (`eat = false`) or each header
    together with the separator behind it (`eat = true`; the last header has none) and nothing in between -/
theorem hdrsTiles (r : Rx) (hg : GapSkips r) (sp : Str) (hsp : SepOk sp) (eat : Bool)
    (mk : Hd → Nat → Match)
    (htok : ∀ (h : Hd) (l : Ln) (rest : Str) (prev : Option Char) (pos : Nat), h.Ok → l.Ok →
       isWord Gen.cs_14d6aa8a prev = false →
       matchHere r ⟨prev, h.text ++ (sp ++ (l.ref ++ rest)), pos, []⟩ false = some (mk h pos) ∧ (mk h pos).start = pos ∧
       (mk h pos).stop = pos + h.text.length + (if eat then sp.length else 0))
    (mkL : Hd → Nat → Match)
    (htokL : ∀ (h : Hd) (prev : Option Char) (pos : Nat), h.Ok → isWord Gen.cs_14d6aa8a prev = false →
       matchHere r ⟨prev, h.text, pos, []⟩ false = some (mkL h pos) ∧ (mkL h pos).start = pos ∧
       (mkL h pos).stop = pos + h.text.length)
    (hL : Hd) (hLok : hL.Ok) :
    ∀ (gs : List Gp) (q : Nat) (prev : Option Char), (∀ x ∈ gs, x.Ok) → isWord Gen.cs_14d6aa8a prev = false →
      Tiles r prev (hdrsFrom sp gs hL) q (hdrMs mk sp q gs ++ [mkL hL (q + (gpsSeg sp gs).length)]) := by
  intro gs
  induction gs with
  | nil =>
    intro q prev _ hprev
    obtain ⟨h1, h2, h3⟩ := htokL hL prev q hLok hprev
    have := Tiles.tok prev hL.text [] q (mkL hL q) [] (by simpa using h1) h2 h3 hL.text_ne
      (Tiles.nil _ _ (matchHere_of_failsOn hg.fin0 _ _ false))
    simpa [hdrsFrom, hdrMs, gpsSeg] using this
  | cons g gs ih =>
    intro q prev hgs hprev
    have hok := hgs g (by simp)
    have hgs' : ∀ x ∈ gs, x.Ok := fun x hx => hgs x (by simp [hx])
    have hl := hok.ls g.l (by simp [Gp.lines])
    have htail : GroupTail ('\n' :: hdrsFrom sp gs hL) := groupTail_hdrsFrom sp hL hLok gs hgs'
    obtain ⟨h1, h2, h3⟩ := htok g.h g.l (' ' :: g.l.d ++ (lnsSeg g.ls ++ '\n' :: hdrsFrom sp gs hL)) prev q hok.h hl hprev
    have hrest : ∀ p pos, Tiles r p ('\n' :: hdrsFrom sp gs hL) pos
        (hdrMs mk sp (pos + 1) gs ++ [mkL hL (pos + 1 + (gpsSeg sp gs).length)]) := by
      intro p pos
      obtain ⟨h', rest', hok', e'⟩ := hdrsFrom_head sp hL hLok gs hgs'
      refine Tiles.skip p '\n' _ pos _ ?_ (ih (pos + 1) (some '\n') hgs' isWord_nl)
      rw [e']
      exact matchHere_of_failsOn (hg.nlHdr h' rest' hok') p pos false
    have htxt : hdrsFrom sp (g :: gs) hL =
        g.h.text ++ (sp ++ (g.l.ref ++ (' ' :: g.l.d ++ (lnsSeg g.ls ++ '\n' :: hdrsFrom sp gs hL)))) := by
      simp [hdrsFrom, Gp.text, Gp.body, Ln.text]
    rw [htxt]
    have hlen : (g.text sp).length = g.h.text.length + sp.length + (g.l.text ++ lnsSeg g.ls).length := by
      simp [Gp.text, Gp.body]; omega
    have hms : hdrMs mk sp q (g :: gs) ++ [mkL hL (q + (gpsSeg sp (g :: gs)).length)] =
        mk g.h q :: (hdrMs mk sp (q + (g.text sp).length + 1) gs ++ [mkL hL (q + (g.text sp).length + 1 + (gpsSeg sp gs).length)]) := by
      have : q + (gpsSeg sp (g :: gs)).length = q + (g.text sp).length + 1 + (gpsSeg sp gs).length := by
        simp [gpsSeg]; omega
      rw [this]; rfl
    rw [hms]
    cases eat with
    | false =>
      simp only [Bool.false_eq_true, if_false, Nat.add_zero] at h3
      refine Tiles.tok prev g.h.text _ q _ _ h1 h2 h3 g.h.text_ne ?_
      have hb := hg.body sp hsp g hok _ htail
      have := Tiles.skipSeg hb (lastOr prev g.h.text) (q + g.h.text.length) (hrest _ _)
      have e2 : q + g.h.text.length + (g.body sp).length + 1 = q + (g.text sp).length + 1 := by
        simp [Gp.text]; omega
      rw [e2] at this
      simpa [Gp.body, Ln.text, List.append_assoc] using this
    | true =>
      simp only [if_true] at h3
      have hne : g.h.text ++ sp ≠ [] := by simp [Hd.text, canonText]
      have e : g.h.text ++ (sp ++ (g.l.ref ++ (' ' :: g.l.d ++ (lnsSeg g.ls ++ '\n' :: hdrsFrom sp gs hL)))) =
          (g.h.text ++ sp) ++ (g.l.ref ++ (' ' :: g.l.d ++ (lnsSeg g.ls ++ '\n' :: hdrsFrom sp gs hL))) := by simp
      rw [e] at h1 ⊢
      refine Tiles.tok prev (g.h.text ++ sp) _ q _ _ h1 h2 (by rw [h3, List.length_append]; omega) hne ?_
      have hb := hg.linesOf g hok _ htail
      have := Tiles.skipSeg hb (lastOr prev (g.h.text ++ sp)) (q + (g.h.text ++ sp).length) (hrest _ _)
      have e2 : q + (g.h.text ++ sp).length + (g.l.text ++ lnsSeg g.ls).length + 1 = q + (g.text sp).length + 1 := by
        rw [hlen, List.length_append]; omega
      rw [e2] at this
      simpa [Ln.text, List.append_assoc] using this

/-- … and over the whole text: the lines of the first group are skipped -/
theorem sTextTiles (r : Rx) (hg : GapSkips r) (sp : Str) (hsp : SepOk sp) (eat : Bool)
    (mk : Hd → Nat → Match)
    (htok : ∀ (h : Hd) (l : Ln) (rest : Str) (prev : Option Char) (pos : Nat), h.Ok → l.Ok →
       isWord Gen.cs_14d6aa8a prev = false →
       matchHere r ⟨prev, h.text ++ (sp ++ (l.ref ++ rest)), pos, []⟩ false = some (mk h pos) ∧ (mk h pos).start = pos ∧
       (mk h pos).stop = pos + h.text.length + (if eat then sp.length else 0))
    (mkL : Hd → Nat → Match)
    (htokL : ∀ (h : Hd) (prev : Option Char) (pos : Nat), h.Ok → isWord Gen.cs_14d6aa8a prev = false →
       matchHere r ⟨prev, h.text, pos, []⟩ false = some (mkL h pos) ∧ (mkL h pos).start = pos ∧
       (mkL h pos).stop = pos + h.text.length)
    (l : Ln) (ls : List Ln) (gs : List Gp) (hL : Hd) (hl : l.Ok) (hls : ∀ x ∈ ls, x.Ok) (hgs : ∀ x ∈ gs, x.Ok) (hLok : hL.Ok) :
    Tiles r none (sText sp l ls gs hL) 0
      (hdrMs mk sp ((lnsText l ls).length + 1) gs ++ [mkL hL ((lnsText l ls).length + 1 + (gpsSeg sp gs).length)]) := by
  have htail : GroupTail ('\n' :: hdrsFrom sp gs hL) := groupTail_hdrsFrom sp hL hLok gs hgs
  have hsk : Skips r (lnsText l ls) ('\n' :: hdrsFrom sp gs hL) :=
    Skips.append (hg.line l (lnsSeg ls ++ '\n' :: hdrsFrom sp gs hL) hl (descTail_lns ls _ hls htail)) (hg.lines ls _ hls htail)
  obtain ⟨h', rest', hok', e'⟩ := hdrsFrom_head sp hL hLok gs hgs
  have hT := hdrsTiles r hg sp hsp eat mk htok mkL htokL hL hLok gs ((lnsText l ls).length + 1) (some '\n') hgs isWord_nl
  have hnl : Tiles r (lastOr none (lnsText l ls)) ('\n' :: hdrsFrom sp gs hL) (0 + (lnsText l ls).length) _ :=
    Tiles.skip _ '\n' _ _ _ (by rw [e']; exact matchHere_of_failsOn (hg.nlHdr h' rest' hok') _ _ false)
      (by rw [Nat.zero_add]; exact hT)
  exact Tiles.skipSeg hsk none 0 hnl

/-! ## Part 2 — the finders -/

theorem twprge_tokL (h : Hd) (prev : Option Char) (pos : Nat) (hok : h.Ok) (hprev : isWord Gen.cs_14d6aa8a prev = false) :
    matchHere Gen.twprge_regex ⟨prev, h.text, pos, []⟩ false = some (twMk h pos) ∧ (twMk h pos).start = pos ∧
      (twMk h pos).stop = pos + h.text.length := by
  have hv := h.valid hok [] EndsTwprge.nil
  have := C08_spelling_matchHere h.sp _ hv prev hprev pos false
  rw [h.sp_text, List.append_nil] at this
  refine ⟨this, rfl, ?_⟩
  simp [twMk, Spelling.matchAt, h.sp_text]

/-- the matches of `twprge_regex`: the headers -/
theorem twprge_finditer_sText (sp : Str) (hsp : SepOk sp) (l : Ln) (ls : List Ln) (gs : List Gp) (hL : Hd)
    (hl : l.Ok) (hls : ∀ x ∈ ls, x.Ok) (hgs : ∀ x ∈ gs, x.Ok) (hLok : hL.Ok) :
    twprge.rx.finditer (sText sp l ls gs hL) =
      hdrMs twMk sp ((lnsText l ls).length + 1) gs ++ [twMk hL ((lnsText l ls).length + 1 + (gpsSeg sp gs).length)] :=
  (sTextTiles Gen.twprge_regex twprge_gapSkips sp hsp false twMk
    (fun h l rest prev pos hok hl hprev => twprge_tok sp hsp h l rest prev pos hok hl hprev) twMk
    (fun h prev pos hok hprev => twprge_tokL h prev pos hok hprev) l ls gs hL hl hls hgs hLok).finditer_eq

theorem multisec_tiles_hdr (hL : Hd) (hLok : hL.Ok) : ∀ (p : Option Char) (pos : Nat),
    Tiles Gen.multisec_regex p ('\n' :: hL.text) pos [] := by
  intro p pos
  refine Tiles.skip p '\n' _ pos [] (matchHere_of_failsOn (multisec_fails_nl _) _ _ false) ?_
  have hsk := skips_header multisec_skips_plain failsOn_multisec_S hL hLok [] (by simp) []
  have := Tiles.skipSeg hsk (some '\n') (pos + 1) (ms := [])
    (Tiles.nil _ _ (matchHere_of_failsOn multisec_fails_nil _ _ false))
  simpa using this

theorem sec_groupsT (sp : Str) (hsp : SepOk sp) (tail : Str) (hT : ∀ p pos, Tiles Gen.multisec_regex p tail pos []) :
    ∀ (gs : List Gp) (q : Nat), (∀ g ∈ gs, g.Ok) →
    ∀ p, Tiles Gen.multisec_regex p (gpsSeg sp gs ++ tail) q (docRefMs sp q gs)
  | [], q, _ => by
    intro p
    exact hT p q
  | g :: gs, q, hgs => by
    intro p
    have ih := sec_groupsT sp hsp tail hT gs (q + 1 + (g.text sp).length) (fun x hx => hgs x (by simp [hx]))
    have h1 := sec_group sp hsp g (hgs g (by simp)) (q + 1) (gpsSeg sp gs ++ tail) _ ih
    have e : gpsSeg sp (g :: gs) ++ tail = '\n' :: (g.text sp ++ (gpsSeg sp gs ++ tail)) := by simp [gpsSeg]
    rw [e]
    exact Tiles.skip p '\n' _ q _ (matchHere_of_failsOn (multisec_fails_nl _) _ _ false) (h1 _)

theorem sText_eq (sp : Str) (l : Ln) (ls : List Ln) (gs : List Gp) (hL : Hd) :
    sText sp l ls gs hL = l.text ++ (lnsSeg ls ++ (gpsSeg sp gs ++ '\n' :: hL.text)) := by
  simp [sText, lnsText, nl_hdrsFrom]

theorem lnsText_length (l : Ln) (ls : List Ln) : (lnsText l ls).length = l.text.length + (lnsSeg ls).length := by
  simp [lnsText]

/-- the section references of the whole text -/
def sRefMs (sp : Str) (l : Ln) (ls : List Ln) (gs : List Gp) : List Match :=
  secMatch 0 :: (refMs l.text.length ls ++ docRefMs sp (lnsText l ls).length gs)

theorem multisec_tiles_sText (sp : Str) (hsp : SepOk sp) (l : Ln) (ls : List Ln) (gs : List Gp) (hL : Hd)
    (hl : l.Ok) (hls : ∀ x ∈ ls, x.Ok) (hgs : ∀ x ∈ gs, x.Ok) (hLok : hL.Ok) :
    ∀ p, Tiles Gen.multisec_regex p (sText sp l ls gs hL) 0 (sRefMs sp l ls gs) := by
  intro p
  rw [sText_eq]
  have h3 := sec_groupsT sp hsp ('\n' :: hL.text) (multisec_tiles_hdr hL hLok) gs (lnsText l ls).length hgs
  have h2 := sec_lines ls l.text.length (gpsSeg sp gs ++ '\n' :: hL.text) _ hls (by rw [← lnsText_length]; exact h3)
  exact sec_line l hl _ _ 0 (by simpa using h2) p

/-- what `SecFinder` reports -/
def sSecOut (sp : Str) (l : Ln) (ls : List Ln) (gs : List Gp) : List SecMatch :=
  ⟨[[l.n1, l.n2]], 0, 7⟩ :: (lnOut l.text.length ls ++ docSecOut sp (lnsText l ls).length gs)

theorem secFinder_sText (sp : Str) (hsp : SepOk sp) (l : Ln) (ls : List Ln) (gs : List Gp) (hL : Hd)
    (hl : l.Ok) (hls : ∀ x ∈ ls, x.Ok) (hgs : ∀ x ∈ gs, x.Ok) (hLok : hL.Ok) (rc : ReqColon) :
    secFinder (sText sp l ls gs hL) S_DESC_TR rc = .ok (sSecOut sp l ls gs, {}) := by
  rw [secFinder_S]
  have htxt := sText_eq sp l ls gs hL
  have hfind : multisec.rx.finditer (sText sp l ls gs hL) = sRefMs sp l ls gs :=
    (multisec_tiles_sText sp hsp l ls gs hL hl hls hgs hLok none).finditer_eq
  have hpass : ∀ nc, ∃ nums, secFinderPass (sText sp l ls gs hL) TRS_DESC nc = .ok (sSecOut sp l ls gs, {}, nums) := by
    intro nc
    have a1 := secFold_line (sText sp l ls gs hL) [] (lnsSeg ls ++ (gpsSeg sp gs ++ '\n' :: hL.text)) l hl nc {}
      (by rw [htxt]; rfl) (by decide)
    obtain ⟨st2, b1, b2, b3⟩ := secFold_lines (sText sp l ls gs hL) nc ls l.text (gpsSeg sp gs ++ '\n' :: hL.text)
      { out := ([] : List SecMatch) ++ [⟨[[l.n1, l.n2]], ([] : Str).length, ([] : Str).length + 7⟩], lastNums := [[l.n1, l.n2]], ff := {} }
      (by rw [htxt]) hls (by
        have := priorOK_desc l.ref l.d hl.d
        simpa [Ln.text] using this)
    obtain ⟨st3, c1, c2, c3⟩ := secFold_groups (sText sp l ls gs hL) nc sp hsp gs (lnsText l ls) ('\n' :: hL.text) st2
      (by rw [htxt]; simp [lnsText]) hgs
    refine ⟨st3.lastNums, ?_⟩
    unfold secFinderPass
    rw [hfind]
    simp only [sRefMs, List.foldlM_cons, List.foldlM_append]
    simp only [List.length_nil] at a1 b1 b2 b3
    rw [a1]
    simp only [bind, Except.bind]
    rw [b1]
    simp only []
    rw [c1]
    simp only [c2, b2, c3, b3, sSecOut, List.nil_append, List.length_nil, Nat.zero_add, List.cons_append, List.append_assoc]
  unfold secFinder
  obtain ⟨nums, hp⟩ := hpass ((rc == .yes || rc == .cautious) && firstLayouts TRS_DESC)
  simp only [hp]
  simp [sSecOut]

/-- one step of `findall_matching_twprge` at a header behind lines, whatever follows it (`trStep_ok` for any right context) -/
theorem trStepH (mc : MC) (hns : isLegal Gen.LEGAL_NS mc.ns = true) (hew : isLegal Gen.LEGAL_EW mc.ew = true)
    (text A B ctx : Str) (h : Hd) (hok : h.Ok) (hctx : EndsTwprge ctx)
    (htext : text = A ++ B ++ (h.text ++ ctx)) (hw : WinOK A B) (st : TRFindSt) (hj : st.j = A.length) :
    ∃ j', trFindStep mc text TRS_DESC st (twMk h (A ++ B).length) =
        .ok { st with out := st.out ++ [⟨h.key, (A ++ B).length, (A ++ B).length + h.text.length⟩], j := j' } ∧
      ((A = [] ∧ B = [] ∧ j' = 0) ∨ (∃ (B0 : Str) (l : Ln), l.Ok ∧ B = B0 ++ l.text ++ ['\n'] ∧ j' = (A ++ B0).length)) := by
  have hv := h.valid hok ctx hctx
  have htext' : text = (A ++ B) ++ (h.sp.text ++ ctx) := by
    rw [htext, h.sp_text]
  have hunp : unpackTwprge twprge (twMk h (A ++ B).length) text mc.ns mc.ew false = .ok h.sp.canon := by
    rw [unpackTwprge_canon _ _ _ _ _ _ hns hew, htext']
    exact congrArg _ (h.sp.canonTR_at (A ++ B) ctx hv mc.ns mc.ew)
  have hstart : (twMk h (A ++ B).length).start = (A ++ B).length := rfl
  have hstop : (twMk h (A ++ B).length).stop = (A ++ B).length + h.text.length := by
    simp [twMk, Spelling.matchAt, h.sp_text]
  rcases hw with ⟨rfl, rfl⟩ | ⟨B0, l, hl, hB, ms0, hT⟩
  · refine ⟨0, ?_, Or.inl ⟨rfl, rfl, rfl⟩⟩
    have hfi : multisec.rx.finditer text st.j ([] ++ ([] : Str)).length = [] := by
      rw [hj, htext]
      exact finditer_window Gen.multisec_regex [] [] _ [] (fun pv => Tiles.nil pv _ (matchHere_of_failsOn multisec_fails_nil _ _ false))
    unfold trFindStep
    simp only [hunp, trs_desc_layouts, Bool.false_eq_true, if_false, lastSecBefore, hstart, hstop, hfi, List.foldl_nil, if_true, hj]
    rfl
  · refine ⟨(A ++ B0).length, ?_, Or.inr ⟨B0, l, hl, hB, rfl⟩⟩
    have hfi : multisec.rx.finditer text st.j (A ++ B).length = ms0 ++ [secMatch (A ++ B0).length] := by
      rw [hj, htext]
      exact finditer_window Gen.multisec_regex A B _ _ hT
    have hss : ∀ p, (secMatch p).start = p := fun _ => rfl
    have hslice : slice text (A ++ B0).length ((A ++ B).length + h.text.length) = l.text ++ '\n' :: h.text := by
      refine slice_at text (A ++ B0) (l.text ++ '\n' :: h.text) ctx _ _ ?_ rfl ?_
      · rw [htext, hB]; simp
      · rw [hB]; simp; omega
    unfold trFindStep
    simp only [hunp, trs_desc_layouts, Bool.false_eq_true, if_false, lastSecBefore, hstart, hstop, hfi, foldl_lastSec, hss, hslice,
      between_search_none l hl h hok, Option.isNone_none, if_true]
    rw [hss, hstop, hslice, between_search_none l hl h hok]
    rfl

theorem winOK_lines (l : Ln) (ls : List Ln) (hl : l.Ok) (hls : ∀ x ∈ ls, x.Ok) : WinOK [] (lnsText l ls ++ ['\n']) := by
  right
  obtain ⟨I, ms0, h1, h2⟩ := lines_split ls l 0
  refine ⟨I, lastOf l ls, lastOf_ok l ls hl hls, by rw [lnsText, h1], ms0, ?_⟩
  intro pv
  have h3 := sec_lines ls l.text.length ['\n'] [] hls (fun p => multisec_tiles_nl p _)
  have h4 : ∀ p, Tiles Gen.multisec_regex p (lnsSeg ls ++ ['\n']) (0 + l.text.length) (refMs (0 + l.text.length) ls) := by
    intro p; have := h3 p; simpa using this
  have := sec_line l hl (lnsSeg ls ++ ['\n']) _ 0 h4 pv
  rw [h2] at this
  simpa [lnsText] using this

/-- what `TwpRgeFinder` reports; `q` = position of the first header -/
def trOutS (sp : Str) (q : Nat) (gs : List Gp) (hL : Hd) : List TRMatch :=
  trOut sp q gs ++ [⟨hL.key, q + (gpsSeg sp gs).length, q + (gpsSeg sp gs).length + hL.text.length⟩]

theorem trFoldS (mc : MC) (hns : isLegal Gen.LEGAL_NS mc.ns = true) (hew : isLegal Gen.LEGAL_EW mc.ew = true)
    (sp : Str) (hsp : SepOk sp) (text : Str) (hL : Hd) (hLok : hL.Ok) : ∀ (gs : List Gp) (A B : Str) (st : TRFindSt),
    (∀ x ∈ gs, x.Ok) → text = A ++ B ++ hdrsFrom sp gs hL → WinOK A B → st.j = A.length →
    ∃ st', (hdrMs twMk sp (A ++ B).length gs ++ [twMk hL ((A ++ B).length + (gpsSeg sp gs).length)]).foldlM
        (trFindStep mc text TRS_DESC) st = .ok st' ∧
      st'.out = st.out ++ trOutS sp (A ++ B).length gs hL ∧ st'.ff = st.ff
  | [], A, B, st, _, htext, hw, hj => by
    obtain ⟨j', h1, _⟩ := trStepH mc hns hew text A B [] hL hLok EndsTwprge.nil (by rw [htext]; simp [hdrsFrom]) hw st hj
    refine ⟨{ st with out := st.out ++ [⟨hL.key, (A ++ B).length, (A ++ B).length + hL.text.length⟩], j := j' }, ?_, ?_, ?_⟩
    · simp only [hdrMs, gpsSeg, List.nil_append, List.length_nil, Nat.add_zero, List.foldlM_cons, h1]
      rfl
    · simp [trOutS, trOut, gpsSeg]
    · rfl
  | g :: gs, A, B, st, hgs, htext, hw, hj => by
    have hok := hgs g (by simp)
    have hgs' : ∀ x ∈ gs, x.Ok := fun x hx => hgs x (by simp [hx])
    obtain ⟨j', h1, hshape⟩ := trStepH mc hns hew text A B (g.body sp ++ '\n' :: hdrsFrom sp gs hL) g.h hok.h
      (by
        have : g.body sp ++ '\n' :: hdrsFrom sp gs hL = sp ++ (g.l.text ++ lnsSeg g.ls ++ '\n' :: hdrsFrom sp gs hL) := by
          simp [Gp.body]
        rw [this]; exact endsTwprge_sep sp _ hsp)
      (by rw [htext]; simp [hdrsFrom, Gp.text]) hw st hj
    obtain ⟨A', B', htext', hw', hj', hlen⟩ : ∃ A' B' : Str, text = A' ++ B' ++ hdrsFrom sp gs hL ∧ WinOK A' B' ∧
        j' = A'.length ∧ (A' ++ B').length = (A ++ B).length + (g.text sp).length + 1 := by
      rcases hshape with ⟨rfl, rfl, rfl⟩ | ⟨B0, l, hl, rfl, rfl⟩
      · exact ⟨[], g.text sp ++ ['\n'], by rw [htext]; simp [hdrsFrom], winOK_first sp hsp g hok, rfl, by simp⟩
      · refine ⟨A ++ B0, l.text ++ '\n' :: (g.text sp ++ ['\n']), ?_, winOK_next sp hsp (A ++ B0) l hl g hok, rfl, ?_⟩
        · rw [htext]; simp [hdrsFrom]
        · simp; omega
    obtain ⟨st2, b1, b2, b3⟩ := trFoldS mc hns hew sp hsp text hL hLok gs A' B'
      { st with out := st.out ++ [⟨g.h.key, (A ++ B).length, (A ++ B).length + g.h.text.length⟩], j := j' }
      hgs' htext' hw' hj'
    rw [hlen] at b1 b2
    have hpos : (A ++ B).length + (gpsSeg sp (g :: gs)).length = (A ++ B).length + (g.text sp).length + 1 + (gpsSeg sp gs).length := by
      simp [gpsSeg]; omega
    refine ⟨st2, ?_, ?_, b3⟩
    · rw [show hdrMs twMk sp (A ++ B).length (g :: gs) =
        twMk g.h (A ++ B).length :: hdrMs twMk sp ((A ++ B).length + (g.text sp).length + 1) gs from rfl, hpos]
      simp only [List.cons_append, List.foldlM_cons, h1]
      exact b1
    · rw [b2]
      simp only [trOutS, trOut, hpos, List.append_assoc, List.cons_append, List.nil_append]

/-- **`TwpRgeFinder` on the canonical text** -/
theorem twprgeFinder_sText (mc : MC) (hns : isLegal Gen.LEGAL_NS mc.ns = true) (hew : isLegal Gen.LEGAL_EW mc.ew = true)
    (sp : Str) (hsp : SepOk sp) (l : Ln) (ls : List Ln) (gs : List Gp) (hL : Hd)
    (hl : l.Ok) (hls : ∀ x ∈ ls, x.Ok) (hgs : ∀ x ∈ gs, x.Ok) (hLok : hL.Ok) :
    twprgeFinder mc (sText sp l ls gs hL) S_DESC_TR = .ok (trOutS sp ((lnsText l ls).length + 1) gs hL, {}) := by
  rw [twprgeFinder_S]
  have htxt : sText sp l ls gs hL = [] ++ (lnsText l ls ++ ['\n']) ++ hdrsFrom sp gs hL := by simp [sText]
  obtain ⟨st', h1, h2, h3⟩ := trFoldS mc hns hew sp hsp (sText sp l ls gs hL) hL hLok gs [] (lnsText l ls ++ ['\n']) {} hgs htxt
    (winOK_lines l ls hl hls) rfl
  have hlen : ([] ++ (lnsText l ls ++ ['\n'])).length = (lnsText l ls).length + 1 := by simp
  rw [hlen] at h1 h2
  unfold twprgeFinder
  rw [twprge_finditer_sText sp hsp l ls gs hL hl hls hgs hLok, h1]
  simp only [h2, h3, List.nil_append]

/-! ## Part 3 — the arrangement and the markers -/

/-- the arrangement of the canonical text; `q` = position of the first line of `l :: ls` -/
def sGroups (sp : Str) : Nat → Ln → List Ln → List Gp → Hd → List TRGroup
  | q, l, ls, [], hL =>
    [⟨q + (lnsText l ls).length + 1, q + (lnsText l ls).length + 1 + hL.text.length, hL.key, itemsAt q l ls⟩]
  | q, l, ls, g :: gs, hL =>
    ⟨q + (lnsText l ls).length + 1, q + (lnsText l ls).length + 1 + g.h.text.length, g.h.key, itemsAt q l ls⟩ ::
      sGroups sp (q + (lnsText l ls).length + 1 + g.h.text.length + sp.length) g.l g.ls gs hL

theorem Gp.text_length (sp : Str) (g : Gp) : (g.text sp).length = g.h.text.length + sp.length + (lnsText g.l g.ls).length := by
  simp [Gp.text, Gp.body, lnsText]; omega

theorem trOutS_cons (sp : Str) (q : Nat) (g : Gp) (gs : List Gp) (hL : Hd) :
    trOutS sp q (g :: gs) hL = ⟨g.h.key, q, q + g.h.text.length⟩ :: trOutS sp (q + (g.text sp).length + 1) gs hL := by
  have : q + (gpsSeg sp (g :: gs)).length = q + (g.text sp).length + 1 + (gpsSeg sp gs).length := by simp [gpsSeg]; omega
  simp only [trOutS, trOut, this, List.cons_append]

theorem trsOf_sGroups (sp : Str) (hL : Hd) : ∀ (gs : List Gp) (q : Nat) (l : Ln) (ls : List Ln),
    trsOf (sGroups sp q l ls gs hL) = trOutS sp (q + (lnsText l ls).length + 1) gs hL
  | [], q, l, ls => by simp [sGroups, trsOf, trOutS, trOut, gpsSeg]
  | g :: gs, q, l, ls => by
    have ih := trsOf_sGroups sp hL gs (q + (lnsText l ls).length + 1 + g.h.text.length + sp.length) g.l g.ls
    have e : q + (lnsText l ls).length + 1 + g.h.text.length + sp.length + (lnsText g.l g.ls).length + 1 =
        q + (lnsText l ls).length + 1 + (g.text sp).length + 1 := by rw [g.text_length]; omega
    rw [e] at ih
    rw [trOutS_cons, ← ih]
    simp [sGroups, trsOf]

/-- the section matches, `q` = position of the first line -/
def sSecOutAt (sp : Str) (q : Nat) (l : Ln) (ls : List Ln) (gs : List Gp) : List SecMatch :=
  ⟨[[l.n1, l.n2]], q, q + 7⟩ :: (lnOut (q + l.text.length) ls ++ docSecOut sp (q + (lnsText l ls).length) gs)

theorem sSecOutAt_zero (sp : Str) (l : Ln) (ls : List Ln) (gs : List Gp) : sSecOutAt sp 0 l ls gs = sSecOut sp l ls gs := by
  simp [sSecOutAt, sSecOut]

theorem secsOf_sGroups (sp : Str) (hL : Hd) : ∀ (gs : List Gp) (q : Nat) (l : Ln) (ls : List Ln),
    secsOf (sGroups sp q l ls gs hL) = sSecOutAt sp q l ls gs
  | [], q, l, ls => by
    simp [sGroups, secsOf, sSecOutAt, docSecOut, itemsAt, lnItems_secs]
  | g :: gs, q, l, ls => by
    have ih := secsOf_sGroups sp hL gs (q + (lnsText l ls).length + 1 + g.h.text.length + sp.length) g.l g.ls
    have e : q + (lnsText l ls).length + 1 + g.h.text.length + sp.length + (lnsText g.l g.ls).length =
        q + (lnsText l ls).length + 1 + (g.text sp).length := by rw [g.text_length]; omega
    simp only [secsOf, sGroups, List.flatMap_cons] at ih ⊢
    rw [ih]
    simp only [sSecOutAt, docSecOut, gpSecOut, e, itemsAt, List.map_cons, lnItems_secs, List.cons_append, List.append_assoc]

theorem sGroups_ne (sp : Str) (hL : Hd) (gs : List Gp) (q : Nat) (l : Ln) (ls : List Ln) : sGroups sp q l ls gs hL ≠ [] := by
  cases gs <;> simp [sGroups]

theorem sGroups_items_ne (sp : Str) (hL : Hd) : ∀ (gs : List Gp) (q : Nat) (l : Ln) (ls : List Ln),
    ∀ G ∈ sGroups sp q l ls gs hL, G.items ≠ []
  | [], q, l, ls, G, h => by
    simp only [sGroups, List.mem_singleton] at h
    subst h; simp [itemsAt]
  | g :: gs, q, l, ls, G, h => by
    simp only [sGroups, List.mem_cons] at h
    rcases h with rfl | h
    · simp [itemsAt]
    · exact sGroups_items_ne sp hL gs _ _ _ G h

/-- end of the last Twp/Rge -/
def endOf (groups : List TRGroup) : Nat := (groups.getLast?.map (·.tEnd)).getD 0

theorem sMarkers_last (groups : List TRGroup) (hne : groups ≠ []) :
    ∃ init, groups.flatMap sGroupMarkers = init ++ [(endOf groups, Marker.trEnd)] := by
  obtain ⟨init, last, rfl⟩ : ∃ init last, groups = init ++ [last] := ⟨_, _, (List.dropLast_concat_getLast hne).symm⟩
  refine ⟨init.flatMap sGroupMarkers ++ (imk last.items ++ [(last.tStart, Marker.trStart)]), ?_⟩
  simp [endOf, sGroupMarkers, List.flatMap_append]

theorem trMk_last (groups : List TRGroup) (hne : groups ≠ []) :
    ∃ init, trMk (trsOf groups) = init ++ [(endOf groups, Marker.trEnd)] := by
  obtain ⟨init, last, rfl⟩ : ∃ init last, groups = init ++ [last] := ⟨_, _, (List.dropLast_concat_getLast hne).symm⟩
  refine ⟨trMk (trsOf init) ++ [(last.tStart, Marker.trStart)], ?_⟩
  simp [endOf, trMk, trsOf, List.flatMap_append]

/-- length of the text from the first line of `l :: ls` on -/
theorem endOf_sGroups (sp : Str) (hL : Hd) : ∀ (gs : List Gp) (q : Nat) (l : Ln) (ls : List Ln),
    endOf (sGroups sp q l ls gs hL) = q + (sText sp l ls gs hL).length
  | [], q, l, ls => by simp [sGroups, endOf, sText, hdrsFrom]; omega
  | g :: gs, q, l, ls => by
    have ih := endOf_sGroups sp hL gs (q + (lnsText l ls).length + 1 + g.h.text.length + sp.length) g.l g.ls
    have hne := sGroups_ne sp hL gs (q + (lnsText l ls).length + 1 + g.h.text.length + sp.length) g.l g.ls
    have e : endOf (sGroups sp q l ls (g :: gs) hL) =
        endOf (sGroups sp (q + (lnsText l ls).length + 1 + g.h.text.length + sp.length) g.l g.ls gs hL) := by
      simp only [endOf, sGroups]
      rw [List.getLast?_cons_of_ne_nil hne]
    rw [e, ih]
    simp only [sText, hdrsFrom, Gp.text, Gp.body, lnsText, List.length_append, List.length_cons]
    omega

theorem sMarkers_perm : ∀ (groups : List TRGroup),
    (groups.flatMap sGroupMarkers).Perm (secMk (secsOf groups) ++ trMk (trsOf groups))
  | [] => List.Perm.refl _
  | g :: gs => by
    have ih := sMarkers_perm gs
    have e1 : (g :: gs).flatMap sGroupMarkers = imk g.items ++ ([(g.tStart, Marker.trStart), (g.tEnd, Marker.trEnd)] ++ gs.flatMap sGroupMarkers) := by
      simp [sGroupMarkers]
    have e2 : trMk (trsOf (g :: gs)) = [(g.tStart, Marker.trStart), (g.tEnd, Marker.trEnd)] ++ trMk (trsOf gs) := by
      simp [trMk, trsOf]
    have e3 : secMk (secsOf (g :: gs)) = imk g.items ++ secMk (secsOf gs) := by
      simp [secMk, secsOf, imk, List.flatMap_append, List.flatMap_map]
    rw [e1, e2, e3, List.append_assoc]
    refine List.Perm.append_left _ ?_
    refine (List.Perm.append_left _ ih).trans ?_
    rw [← List.append_assoc, ← List.append_assoc]
    exact List.Perm.append_right _ List.perm_append_comm

theorem markSet_second (x : Nat × Marker) (k : Nat) (v v' : Marker) (rest : List (Nat × Marker)) (hx : x.1 ≠ k)
    (h : ∀ e ∈ rest, e.1 ≠ k) : markSet (x :: (k, v') :: rest) k v = x :: (k, v) :: rest := by
  unfold markSet
  have hx' : (x.1 == k) = false := by simpa using hx
  simp only [List.any_cons, hx', beq_self_eq_true, Bool.true_or, Bool.or_true, Bool.false_or, if_true, List.map_cons,
    Bool.false_eq_true, if_false]
  congr 2
  rw [List.map_congr_left (g := id)]
  · simp
  · intro e he
    have : (e.1 == k) = false := by simpa using h e he
    simp [this]

/-- **`populate_markers` for a text that starts with a section reference and ends with a Twp/Rge**: both the start-of-text
    and the end-of-text marker are overwritten -/
theorem populateMarkers_S (len : Nat) (secs : List SecMatch) (trs : List TRMatch) (T : List (Nat × Marker))
    (hs : T.Pairwise (fun a b => a.1 < b.1)) (hperm : T.Perm (secMk secs ++ trMk trs))
    (rest init : List (Nat × Marker)) (h0 : secMk secs = (0, Marker.secStart) :: rest)
    (hE : trMk trs = init ++ [(len, Marker.trEnd)]) :
    populateMarkers len secs trs = T := by
  have hperm2 : T.Perm ((0, Marker.secStart) :: (len, Marker.trEnd) :: (rest ++ init)) := by
    refine hperm.trans ?_
    rw [h0, hE]
    simp only [List.cons_append]
    refine List.Perm.cons _ ?_
    have : (rest ++ (init ++ [(len, Marker.trEnd)])).Perm ([(len, Marker.trEnd)] ++ (rest ++ init)) := by
      rw [← List.append_assoc]; exact List.perm_append_comm
    simpa using this
  have hkeys : (0 :: len :: ((rest ++ init).map (·.1))).Nodup := by
    have hT : (T.map (·.1)).Nodup := by
      rw [List.Nodup, List.pairwise_map]
      exact hs.imp (fun h => Nat.ne_of_lt h)
    have := (hperm2.map (·.1)).nodup_iff.1 hT
    simpa using this
  have hk0 := List.nodup_cons.1 hkeys
  have hk1 := List.nodup_cons.1 hk0.2
  have hlen0 : (0 : Nat) ≠ len := by intro e; exact hk0.1 (by simp [e])
  have hd1 : markSet (markSet [] 0 .textStart) len .textEnd = [(0, Marker.textStart), (len, Marker.textEnd)] := by
    rw [markSet_fresh [] 0 _ (fun _ h => by cases h)]
    exact markSet_fresh _ len _ (by intro e he; simp at he; rw [he]; exact hlen0)
  unfold populateMarkers
  simp only [hd1, secs_fold, trs_fold, h0, hE, List.foldl_cons, List.foldl_append, List.foldl_nil]
  have hrep : markSet [(0, Marker.textStart), (len, Marker.textEnd)] 0 Marker.secStart =
      [(0, Marker.secStart), (len, Marker.textEnd)] :=
    markSet_head 0 _ _ _ (by intro e he; simp at he; rw [he]; exact fun h => hlen0 h.symm)
  rw [hrep]
  have hnd : (([(0, Marker.secStart), (len, Marker.textEnd)] ++ (rest ++ init)).map (·.1)).Nodup := by
    simpa using hkeys
  have hf : init.foldl (fun d e => markSet d e.1 e.2) (rest.foldl (fun d e => markSet d e.1 e.2) [(0, Marker.secStart), (len, Marker.textEnd)]) =
      [(0, Marker.secStart), (len, Marker.textEnd)] ++ (rest ++ init) := by
    rw [← List.foldl_append]
    exact foldl_markSet _ _ hnd
  rw [hf]
  have hlast : markSet ([(0, Marker.secStart), (len, Marker.textEnd)] ++ (rest ++ init)) len Marker.trEnd =
      (0, Marker.secStart) :: (len, Marker.trEnd) :: (rest ++ init) := by
    refine markSet_second _ len _ _ _ hlen0 ?_
    intro e he h
    exact hk1.1 (by rw [← h]; exact List.mem_map_of_mem he)
  rw [hlast]
  exact sortMarkers_eq _ T hperm2 hs

/-- the markers of the arrangement stand at strictly increasing positions -/
theorem sGroups_within (sp : Str) (hsp : SepOk sp) (hL : Hd) : ∀ (gs : List Gp) (q : Nat) (l : Ln) (ls : List Ln),
    Within q (q + (sText sp l ls gs hL).length + 1) ((sGroups sp q l ls gs hL).flatMap sGroupMarkers) := by
  have hspl : 0 < sp.length := List.length_pos_iff.mpr hsp.ne
  have hitems : ∀ (q : Nat) (l : Ln) (ls : List Ln), Within q (q + (lnsText l ls).length) (imk (itemsAt q l ls)) := by
    intro q l ls
    have ih := lnItems_within ls (q + l.text.length)
    have ht := l.text_length
    have e : imk (itemsAt q l ls) = (q, Marker.secStart) :: (q + 7, Marker.secEnd) :: imk (lnItems (q + l.text.length) ls) := by
      simp [itemsAt, imk]
    rw [e, lnsText_length]
    refine Within.cons (Nat.le_refl _) (Within.cons (by simp) ?_ (by simp; omega)) (by simp; omega)
    simp only []
    have hh : q + l.text.length + (lnsSeg ls).length = q + (l.text.length + (lnsSeg ls).length) := by omega
    rw [← hh]
    exact Within.append (Within.nil (q + 7 + 1) (q + 7 + 1)) ih (by omega) (by omega) (by omega)
  intro gs
  induction gs with
  | nil =>
    intro q l ls
    have hh := hL.text_length
    have e : (sGroups sp q l ls [] hL).flatMap sGroupMarkers = imk (itemsAt q l ls) ++
        [((q + (lnsText l ls).length + 1, Marker.trStart) : Nat × Marker), (q + (lnsText l ls).length + 1 + hL.text.length, Marker.trEnd)] := by
      simp [sGroups, sGroupMarkers]
    have hlen : (sText sp l ls [] hL).length = (lnsText l ls).length + 1 + hL.text.length := by
      simp [sText, hdrsFrom]; omega
    rw [e, hlen]
    refine Within.append (hitems q l ls) (mid' := q + (lnsText l ls).length + 1) ?_ (by omega) (by omega) (by omega)
    refine Within.cons (by simp) (Within.cons (by simp; omega) (Within.nil _ _) (by simp; omega)) (by simp; omega)
  | cons g gs ih =>
    intro q l ls
    have hh := g.h.text_length
    have ih' := ih (q + (lnsText l ls).length + 1 + g.h.text.length + sp.length) g.l g.ls
    have e : (sGroups sp q l ls (g :: gs) hL).flatMap sGroupMarkers = imk (itemsAt q l ls) ++
        (((q + (lnsText l ls).length + 1, Marker.trStart) : Nat × Marker) :: (q + (lnsText l ls).length + 1 + g.h.text.length, Marker.trEnd) ::
          (sGroups sp (q + (lnsText l ls).length + 1 + g.h.text.length + sp.length) g.l g.ls gs hL).flatMap sGroupMarkers) := by
      simp [sGroups, sGroupMarkers]
    have hlen : (sText sp l ls (g :: gs) hL).length =
        (lnsText l ls).length + 1 + g.h.text.length + sp.length + (sText sp g.l g.ls gs hL).length := by
      simp [sText, hdrsFrom, Gp.text, Gp.body, lnsText]; omega
    rw [e, hlen]
    refine Within.append (hitems q l ls) (mid' := q + (lnsText l ls).length + 1) ?_ (by omega) (by omega) (by omega)
    refine Within.cons (by simp) (Within.cons (by simp; omega) ?_ (by simp; omega)) (by simp; omega)
    simp only []
    have hh2 : q + (lnsText l ls).length + 1 + g.h.text.length + sp.length + (sText sp g.l g.ls gs hL).length + 1 =
        q + ((lnsText l ls).length + 1 + g.h.text.length + sp.length + (sText sp g.l g.ls gs hL).length) + 1 := by omega
    rw [← hh2]
    exact Within.append (Within.nil (q + (lnsText l ls).length + 1 + g.h.text.length + 1) (q + (lnsText l ls).length + 1 + g.h.text.length + 1))
      ih' (by omega) (by omega) (by omega)

/-- the markers of the canonical text -/
theorem populateMarkers_sText (sp : Str) (hsp : SepOk sp) (l : Ln) (ls : List Ln) (gs : List Gp) (hL : Hd) :
    populateMarkers (sText sp l ls gs hL).length (sSecOut sp l ls gs) (trOutS sp ((lnsText l ls).length + 1) gs hL) =
      Lay.sDescTr.markers (sGroups sp 0 l ls gs hL) (sText sp l ls gs hL).length := by
  have hne := sGroups_ne sp hL gs 0 l ls
  have hend := endOf_sGroups sp hL gs 0 l ls
  rw [Nat.zero_add] at hend
  obtain ⟨initM, hM⟩ := sMarkers_last _ hne
  obtain ⟨initT, hT⟩ := trMk_last _ hne
  rw [hend] at hM hT
  have hw := sGroups_within sp hsp hL gs 0 l ls
  have hfirstS : firstS (sGroups sp 0 l ls gs hL) = 0 := by cases gs <;> simp [sGroups, firstS, itemsAt]
  have hmk : Lay.sDescTr.markers (sGroups sp 0 l ls gs hL) (sText sp l ls gs hL).length =
      (sGroups sp 0 l ls gs hL).flatMap sGroupMarkers := by
    simp only [Lay.markers, Lay.core, hfirstS, pre0, if_true, List.nil_append, withEnd]
    rw [if_pos]
    rw [hM]; simp [lastPos]
  rw [hmk]
  have hsecs := secsOf_sGroups sp hL gs 0 l ls
  rw [sSecOutAt_zero] at hsecs
  have htrs := trsOf_sGroups sp hL gs 0 l ls
  rw [Nat.zero_add] at htrs
  rw [← hsecs, ← htrs]
  refine populateMarkers_S _ _ _ _ hw.1 (sMarkers_perm _) (secMk (secsOf (sGroups sp 0 l ls gs hL))).tail initT ?_ hT
  rw [hsecs]
  simp [sSecOut, secMk]

/-! ## Part 4 — the walk stages exactly the lines; `parse_chunk` -/

/-- the components of the canonical text: one per line, in reading order, with the Twp/Rge that CLOSES its group -/
def sComps : Ln → List Ln → List Gp → Hd → List Component
  | l, ls, [], hL => (l :: ls).map (lnComp hL.key)
  | l, ls, g :: gs, hL => (l :: ls).map (lnComp g.h.key) ++ sComps g.l g.ls gs hL

theorem sLines_comps (txt tr : Str) (nxt : Nat) : ∀ (ls : List Ln) (l : Ln) (pre rest' : Str),
    txt = pre ++ (l.text ++ (lnsSeg ls ++ '\n' :: rest')) → nxt = pre.length + l.text.length + (lnsSeg ls).length + 1 →
    l.Ok → (∀ x ∈ ls, x.Ok) →
    sItemComps txt tr nxt (itemsAt pre.length l ls) = (l :: ls).map (lnComp tr)
  | [], l, pre, rest', htxt, hn, hl, _ => by
    have hslice : slice txt (pre.length + 7) nxt = ' ' :: l.d ++ ['\n'] := by
      refine slice_at txt (pre ++ l.ref) (' ' :: l.d ++ ['\n']) rest' _ _ ?_ (by simp [Ln.ref]) ?_
      · rw [htxt]; simp [Ln.text, lnsSeg]
      · rw [hn]; simp [Ln.text, Ln.ref, lnsSeg]; omega
    simp only [itemsAt, lnItems, sItemComps, List.head?_nil, Option.map_none, Option.getD_none, hslice,
      cleanup_line l.d ['\n'] hl.d (by decide), List.map_cons, List.map_nil, lnComp]
  | z :: ls, l, pre, rest', htxt, hn, hl, hls => by
    have hz := hls z (by simp)
    have ih := sLines_comps txt tr nxt ls z (pre ++ l.text ++ ['\n']) rest'
      (by rw [htxt]; simp [lnsSeg]) (by rw [hn]; simp [lnsSeg]; omega) hz (fun x hx => hls x (by simp [hx]))
    have hlen : (pre ++ l.text ++ ['\n']).length = pre.length + l.text.length + 1 := by simp; omega
    rw [hlen] at ih
    have hslice : slice txt (pre.length + 7) (pre.length + l.text.length + 1) = ' ' :: l.d ++ ['\n'] := by
      refine slice_at txt (pre ++ l.ref) (' ' :: l.d ++ ['\n']) (z.text ++ (lnsSeg ls ++ '\n' :: rest')) _ _ ?_ (by simp [Ln.ref]) ?_
      · rw [htxt]; simp [Ln.text, lnsSeg]
      · simp [Ln.text, Ln.ref]; omega
    have e : itemsAt pre.length l (z :: ls) = ⟨pre.length, pre.length + 7, [[l.n1, l.n2]]⟩ :: itemsAt (pre.length + l.text.length + 1) z ls := rfl
    rw [e]
    have e2 : ((itemsAt (pre.length + l.text.length + 1) z ls).head?.map (·.sStart)).getD nxt = pre.length + l.text.length + 1 := rfl
    simp only [sItemComps, e2, hslice, cleanup_line l.d ['\n'] hl.d (by decide), ih, List.map_cons, lnComp]

theorem sGroups_comps (sp : Str) (txt : Str) (hL : Hd) : ∀ (gs : List Gp) (l : Ln) (ls : List Ln) (pre : Str),
    txt = pre ++ sText sp l ls gs hL → l.Ok → (∀ x ∈ ls, x.Ok) → (∀ g ∈ gs, g.Ok) →
    expectedCompsSDescTr txt (sGroups sp pre.length l ls gs hL) = sComps l ls gs hL
  | [], l, ls, pre, htxt, hl, hls, _ => by
    have := sLines_comps txt hL.key (pre.length + (lnsText l ls).length + 1) ls l pre hL.text
      (by rw [htxt]; simp [sText, lnsText, hdrsFrom]) (by simp [lnsText]; omega) hl hls
    simp only [expectedCompsSDescTr, sGroups, List.flatMap_cons, List.flatMap_nil, List.append_nil, this, sComps]
  | g :: gs, l, ls, pre, htxt, hl, hls, hgs => by
    have hok := hgs g (by simp)
    have h1 := sLines_comps txt g.h.key (pre.length + (lnsText l ls).length + 1) ls l pre (g.text sp ++ '\n' :: hdrsFrom sp gs hL)
      (by rw [htxt]; simp [sText, lnsText, hdrsFrom]) (by simp [lnsText]; omega) hl hls
    have ih := sGroups_comps sp txt hL gs g.l g.ls (pre ++ lnsText l ls ++ ['\n'] ++ g.h.text ++ sp)
      (by rw [htxt]; simp [sText, hdrsFrom, Gp.text, Gp.body, lnsText]) (hok.ls g.l (by simp [Gp.lines]))
      (fun x hx => hok.ls x (by simp [Gp.lines, hx])) (fun x hx => hgs x (by simp [hx]))
    have hlen : (pre ++ lnsText l ls ++ ['\n'] ++ g.h.text ++ sp).length =
        pre.length + (lnsText l ls).length + 1 + g.h.text.length + sp.length := by simp; omega
    rw [hlen] at ih
    simp only [expectedCompsSDescTr, List.flatMap_cons] at ih ⊢
    simp only [sGroups, List.flatMap_cons, h1, ih, sComps]

/-- the unused blocks of the walk: the separators behind the Twp/Rges (nothing behind the last one) -/
theorem sText_unused (sp : Str) (txt : Str) (hL : Hd) : ∀ (gs : List Gp) (l : Ln) (ls : List Ln) (pre : Str),
    txt = pre ++ sText sp l ls gs hL →
    (pairs ((sGroups sp pre.length l ls gs hL).flatMap sGroupMarkers)).filterMap (unusedBlockOf txt) =
      gs.map (fun _ => sp) ++ [[]]
  | [], l, ls, pre, htxt => by
    have e : (sGroups sp pre.length l ls [] hL).flatMap sGroupMarkers = imk (itemsAt pre.length l ls) ++
        [((pre.length + (lnsText l ls).length + 1, Marker.trStart) : Nat × Marker),
          (pre.length + (lnsText l ls).length + 1 + hL.text.length, Marker.trEnd)] := by
      simp [sGroups, sGroupMarkers]
    rw [e, pairs_sec_prefix txt _ _ (imk_types _)]
    have hs : ∀ n, slice txt n n = [] := by
      intro n; simp [slice, List.drop_eq_nil_iff]
    simp only [pairs, List.head?_cons, List.head?_nil, Option.getD_some, Option.getD_none, List.filterMap_cons,
      List.filterMap_nil, unusedBlockOf, hs, List.map_nil, List.nil_append]
  | g :: gs, l, ls, pre, htxt => by
    have ih := sText_unused sp txt hL gs g.l g.ls (pre ++ lnsText l ls ++ ['\n'] ++ g.h.text ++ sp)
      (by rw [htxt]; simp [sText, hdrsFrom, Gp.text, Gp.body, lnsText])
    have hlen : (pre ++ lnsText l ls ++ ['\n'] ++ g.h.text ++ sp).length =
        pre.length + (lnsText l ls).length + 1 + g.h.text.length + sp.length := by simp; omega
    rw [hlen] at ih
    have e : (sGroups sp pre.length l ls (g :: gs) hL).flatMap sGroupMarkers = imk (itemsAt pre.length l ls) ++
        (((pre.length + (lnsText l ls).length + 1, Marker.trStart) : Nat × Marker) ::
          (pre.length + (lnsText l ls).length + 1 + g.h.text.length, Marker.trEnd) ::
          (sGroups sp (pre.length + (lnsText l ls).length + 1 + g.h.text.length + sp.length) g.l g.ls gs hL).flatMap sGroupMarkers) := by
      simp [sGroups, sGroupMarkers]
    have hhead : ((sGroups sp (pre.length + (lnsText l ls).length + 1 + g.h.text.length + sp.length) g.l g.ls gs hL).flatMap
        sGroupMarkers).head?.getD (pre.length + (lnsText l ls).length + 1 + g.h.text.length, Marker.trEnd) =
        (pre.length + (lnsText l ls).length + 1 + g.h.text.length + sp.length, Marker.secStart) := by
      cases gs <;> simp [sGroups, sGroupMarkers, itemsAt, imk]
    have hslice : slice txt (pre.length + (lnsText l ls).length + 1 + g.h.text.length)
        (pre.length + (lnsText l ls).length + 1 + g.h.text.length + sp.length) = sp := by
      refine slice_at txt (pre ++ lnsText l ls ++ ['\n'] ++ g.h.text) sp (lnsText g.l g.ls ++ '\n' :: hdrsFrom sp gs hL) _ _ ?_
        (by simp; omega) (by simp; omega)
      rw [htxt]; simp [sText, hdrsFrom, Gp.text, Gp.body, lnsText]
    rw [e, pairs_sec_prefix txt _ _ (imk_types _)]
    simp only [pairs, List.filterMap_cons, List.head?_cons, Option.getD_some, hhead]
    have h1 : unusedBlockOf txt ((pre.length + (lnsText l ls).length + 1, Marker.trStart),
        (pre.length + (lnsText l ls).length + 1 + g.h.text.length, Marker.trEnd)) = none := rfl
    have h2 : unusedBlockOf txt ((pre.length + (lnsText l ls).length + 1 + g.h.text.length, Marker.trEnd),
        (pre.length + (lnsText l ls).length + 1 + g.h.text.length + sp.length, Marker.secStart)) = some sp := by
      simp [unusedBlockOf, hslice]
    rw [h1, h2, ih]
    rfl

theorem Reports.intro {mc : MC} {rc : ReqColon} {txt : Str} {L : Lay} {groups : List TRGroup}
    (trs : List TRMatch) (tff : FinderFlags) (secs : List SecMatch) (sff : FinderFlags)
    (h1 : twprgeFinder mc txt L.str = .ok (trs, tff)) (h2 : secFinder txt L.str rc = .ok (secs, sff))
    (h3 : trs.map (fun m => (m.twprge, m.start, m.stop)) = groups.map (fun g => (g.tr, g.tStart, g.tEnd)))
    (h4 : secs.map (·.secs) = allSecs groups)
    (h5 : populateMarkers txt.length secs trs = L.markers groups txt.length) : Reports mc rc txt L groups := by
  unfold Reports
  simp only [h1, h2]
  exact ⟨h3, h4, h5⟩

/-- the lexical premise of `C20_chunk_run` / `C20_segment_*` holds for the canonical text -/
theorem C01_reports_S_desc_TR (mc : MC) (hns : isLegal Gen.LEGAL_NS mc.ns = true) (hew : isLegal Gen.LEGAL_EW mc.ew = true)
    (sp : Str) (hsp : SepOk sp) (l : Ln) (ls : List Ln) (gs : List Gp) (hL : Hd)
    (hl : l.Ok) (hls : ∀ x ∈ ls, x.Ok) (hgs : ∀ x ∈ gs, x.Ok) (hLok : hL.Ok) (rc : ReqColon) :
    Reports mc rc (sText sp l ls gs hL) .sDescTr (sGroups sp 0 l ls gs hL) := by
  refine Reports.intro _ _ _ _ (twprgeFinder_sText mc hns hew sp hsp l ls gs hL hl hls hgs hLok)
    (secFinder_sText sp hsp l ls gs hL hl hls hgs hLok rc) ?_ ?_ (populateMarkers_sText sp hsp l ls gs hL)
  · have := trsOf_sGroups sp hL gs 0 l ls
    rw [Nat.zero_add] at this
    rw [← this]
    simp [trsOf, List.map_map, Function.comp_def]
  · have := secsOf_sGroups sp hL gs 0 l ls
    rw [sSecOutAt_zero] at this
    rw [← this]
    exact secsOf_secs _

theorem parseMeaningful_pairs_S (c0 : Chunk) (txt : Str) (ms : List (Nat × Marker)) :
    parseMeaningful c0 txt S_DESC_TR ms = (pairs ms).foldl (stepP txt TRS_DESC) (getNextTwprge c0) := by
  unfold parseMeaningful
  simp only [sDescLays_S_DESC_TR, trFirstLays_S_DESC_TR, Bool.not_true, Bool.not_false, Bool.false_eq_true, if_false, if_true]
  rw [stepP_TRS_eq_S]
  exact walk_eq_pairs _ _ _ _

/-! ### the layout is deduced -/

theorem hdrsFrom_tail (sp : Str) (hL : Hd) : ∀ gs : List Gp, ∃ Y, hdrsFrom sp gs hL = Y ++ hL.text
  | [] => ⟨[], rfl⟩
  | g :: gs => by
    obtain ⟨Y, h⟩ := hdrsFrom_tail sp hL gs
    exact ⟨g.text sp ++ '\n' :: Y, by simp [hdrsFrom, h]⟩

theorem pyStrip_sText (sp : Str) (l : Ln) (ls : List Ln) (gs : List Gp) (hL : Hd) (hLok : hL.Ok) :
    pyStrip (sText sp l ls gs hL) = sText sp l ls gs hL := by
  obtain ⟨Y, hY⟩ := hdrsFrom_tail sp hL gs
  have hns : pyIsSpace hL.ew = false := by rcases hLok.ew with e | e <;> rw [e] <;> decide
  have hlast : (sText sp l ls gs hL).getLast? = some hL.ew := by
    have e : sText sp l ls gs hL = (lnsText l ls ++ '\n' :: Y ++ 'T' :: (hL.t ++ hL.ns :: '-' :: 'R' :: hL.r)) ++ [hL.ew] := by
      simp [sText, hY, Hd.text, canonText]
    rw [e]; exact List.getLast?_concat
  have hhead : sText sp l ls gs hL = 'S' :: (['e', 'c', ' ', l.n1, l.n2, ':'] ++ ' ' :: l.d ++ lnsSeg ls ++ '\n' :: hdrsFrom sp gs hL) := by
    simp [sText, lnsText, Ln.text, Ln.ref]
  unfold pyStrip stripBy
  have h1 : lstripBy pyIsSpace (sText sp l ls gs hL) = sText sp l ls gs hL := by
    rw [hhead]; exact Pretty.lstripBy_head_false _ _ _ (by decide)
  rw [h1]
  exact Pretty.rstripBy_getLast_false _ _ hL.ew hlast hns

/-- **the layout of the canonical text is deduced**: the text starts with a section, the Twp/Rge comes later -/
theorem deduceLayout_sText (sp : Str) (hsp : SepOk sp) (l : Ln) (ls : List Ln) (gs : List Gp) (hL : Hd)
    (hl : l.Ok) (hls : ∀ x ∈ ls, x.Ok) (hgs : ∀ x ∈ gs, x.Ok) (hLok : hL.Ok) :
    deduceLayout (sText sp l ls gs hL) = S_DESC_TR := by
  obtain ⟨sm, hsm, hstart⟩ : ∃ sm, Gen.no_num_sec_regex.search (sText sp l ls gs hL) = some sm ∧ sm.start = 0 := by
    have hLd := (eats_secWord 1 (l.n1 :: l.n2 :: ':' :: ' ' :: l.d ++ (lnsSeg ls ++ '\n' :: hdrsFrom sp gs hL))) none 0 []
    rw [← nonum_decomp] at hLd
    have hm := matchHere_of_leads false hLd (Or.inl rfl)
    have e : sText sp l ls gs hL = 'S' :: (['e', 'c'] ++ ' ' :: (l.n1 :: l.n2 :: ':' :: ' ' :: l.d ++ (lnsSeg ls ++ '\n' :: hdrsFrom sp gs hL))) := by
      simp [sText, lnsText, Ln.text, Ln.ref]
    rw [search_default, e, LT.scan_cons]
    have e2 : (['S', 'e', 'c'] ++ ' ' :: (l.n1 :: l.n2 :: ':' :: ' ' :: l.d ++ (lnsSeg ls ++ '\n' :: hdrsFrom sp gs hL))) =
        'S' :: (['e', 'c'] ++ ' ' :: (l.n1 :: l.n2 :: ':' :: ' ' :: l.d ++ (lnsSeg ls ++ '\n' :: hdrsFrom sp gs hL))) := rfl
    rw [e2] at hm
    rw [hm]
    exact ⟨_, rfl, rfl⟩
  obtain ⟨tm, htm, htstart⟩ : ∃ tm, twprge.rx.search (sText sp l ls gs hL) = some tm ∧ 0 < tm.start := by
    have := (sTextTiles Gen.twprge_regex twprge_gapSkips sp hsp false twMk
      (fun h l rest prev pos hok hl hprev => twprge_tok sp hsp h l rest prev pos hok hl hprev) twMk
      (fun h prev pos hok hprev => twprge_tokL h prev pos hok hprev) l ls gs hL hl hls hgs hLok).search_eq
    cases gs with
    | nil => exact ⟨_, this.trans rfl, by simp [twMk, Spelling.matchAt] <;> omega⟩
    | cons g gs => exact ⟨_, this.trans rfl, by simp [twMk, Spelling.matchAt] <;> omega⟩
  unfold deduceLayout
  rw [pyStrip_sText sp l ls gs hL hLok]
  simp only []
  rw [hsm, htm]
  have hlt : sm.start < tm.start := by omega
  have hle : sm.start ≤ 1 := by omega
  have hc : ([TRS_DESC, DESC_STR, S_DESC_TR, TR_DESC_S] : List Str).contains S_DESC_TR = true := by decide
  simp only [hlt, if_true, hc, hle, decide_true, Bool.and_self]

/-- **C01 (layout Sec–desc–Twp/Rge, chunk level, no lexical premise)**: `parse_chunk` on the canonical text — lines
    `Sec nn: <inert block>`, then the Twp/Rge closing the group; any separator of blanks / line breaks between a Twp/Rge and the
    first line of the next group — deduces (or accepts) the layout S_desc_TR, raises neither an error nor a warning flag, and
    (without `sec_within`) stages exactly one component per line, in reading order, with the Twp/Rge that closes its group, its
    section and its block verbatim; the only unused text are the separators -/
theorem C01_chunk_canonical_S_desc_TR (mc : MC) (pc : ParserCfg) (hns : isLegal Gen.LEGAL_NS mc.ns = true)
    (hew : isLegal Gen.LEGAL_EW mc.ew = true) (sp : Str) (hsp : SepOk sp) (l : Ln) (ls : List Ln) (gs : List Gp) (hL : Hd)
    (hl : l.Ok) (hls : ∀ x ∈ ls, x.Ok) (hgs : ∀ x ∈ gs, x.Ok) (hLok : hL.Ok) (parentLayout : Str)
    (hml : pc.mandateLayout = true → parentLayout = S_DESC_TR) :
    ∃ c, parseChunkCore mc pc (sText sp l ls gs hL) false parentLayout = .ok c ∧ c.fl.e = [] ∧ c.fl.w = [] ∧
      (pc.secWithin = false → c.comps = sComps l ls gs hL ∧ c.unused.map (·.2) = gs.map (fun _ => sp) ++ [[]]) := by
  have hlay : chunkLayoutOf pc (sText sp l ls gs hL) false parentLayout = S_DESC_TR := by
    unfold chunkLayoutOf
    simp only [Bool.false_eq_true, if_false]
    split
    · rename_i h; exact hml h
    · exact deduceLayout_sText sp hsp l ls gs hL hl hls hgs hLok
  have htr := twprgeFinder_sText mc hns hew sp hsp l ls gs hL hl hls hgs hLok
  have hsec := secFinder_sText sp hsp l ls gs hL hl hls hgs hLok pc.requireColon
  have hmark := populateMarkers_sText sp hsp l ls gs hL
  have hne := sGroups_items_ne sp hL gs 0 l ls
  have hg := sGroups_ne sp hL gs 0 l ls
  have hcopy : (S_DESC_TR == COPY_ALL) = false := by decide
  have htrl : (trOutS sp ((lnsText l ls).length + 1) gs hL).map (·.twprge) = (sGroups sp 0 l ls gs hL).map (·.tr) := by
    have := trsOf_sGroups sp hL gs 0 l ls
    rw [Nat.zero_add] at this
    rw [← this]; simp [trsOf, List.map_map, Function.comp_def]
  have hsecl : (sSecOut sp l ls gs).map (·.secs) = allSecs (sGroups sp 0 l ls gs hL) := by
    have := secsOf_sGroups sp hL gs 0 l ls
    rw [sSecOutAt_zero] at this
    rw [← this]; exact secsOf_secs _
  have W := C20_walk_all_layouts .sDescTr (sText sp l ls gs hL) (sGroups sp 0 l ls gs hL)
    (sText sp l ls gs hL).length { w := [], wl := [] } hne hg
  rw [show Lay.sDescTr.str = S_DESC_TR from rfl] at W
  obtain ⟨w1, w2, w3, w4, w5, w6⟩ := W
  obtain ⟨f1, f2⟩ := finishChunk_clean pc _ w2 w3 w5 w6
  refine ⟨finishChunk pc (parseMeaningful (startChunk { w := [], wl := [] } (sGroups sp 0 l ls gs hL)) (sText sp l ls gs hL)
    S_DESC_TR (Lay.sDescTr.markers (sGroups sp 0 l ls gs hL) (sText sp l ls gs hL).length)), ?_, ?_, ?_, ?_⟩
  · unfold parseChunkCore
    simp only [hlay, htr, hsec, hcopy, hmark, htrl, hsecl]
    rfl
  · rw [f1]; exact (congrArg (·.e) w4)
  · rw [f1]; exact (congrArg (·.w) w4)
  · intro hsw
    refine ⟨((f2 hsw).1).trans (w1.trans ?_), ?_⟩
    · exact sGroups_comps sp _ hL gs l ls [] rfl hl hls hgs
    · rw [(f2 hsw).2]
      show (parseMeaningful _ _ S_DESC_TR _).unused.map (·.2) = _
      rw [parseMeaningful_pairs_S, fold_unused, getNextTwprge_unused]
      have hmk : Lay.sDescTr.markers (sGroups sp 0 l ls gs hL) (sText sp l ls gs hL).length =
          (sGroups sp 0 l ls gs hL).flatMap sGroupMarkers := by
        have hend := endOf_sGroups sp hL gs 0 l ls
        rw [Nat.zero_add] at hend
        obtain ⟨initM, hM⟩ := sMarkers_last _ hg
        rw [hend] at hM
        have hfirstS : firstS (sGroups sp 0 l ls gs hL) = 0 := by cases gs <;> simp [sGroups, firstS, itemsAt]
        simp only [Lay.markers, Lay.core, hfirstS, pre0, if_true, List.nil_append, withEnd]
        rw [if_pos]
        rw [hM]; simp [lastPos]
      rw [hmk]
      have := sText_unused sp (sText sp l ls gs hL) hL gs l ls [] rfl
      simp only [List.length_nil] at this
      rw [this]
      rfl

/-! ## Part 5 — through the whole parser (given the preprocessed text) -/

/-- the (Twp/Rge key, line) pairs of the canonical text, in reading order: a line belongs to the Twp/Rge that CLOSES its group -/
def sPairs : Ln → List Ln → List Gp → Hd → List (Str × Ln)
  | l, ls, [], hL => (l :: ls).map (fun x => (hL.key, x))
  | l, ls, g :: gs, hL => (l :: ls).map (fun x => (g.h.key, x)) ++ sPairs g.l g.ls gs hL

/-- the tracts the canonical text stands for: (trs string, description) -/
def sTracts (l : Ln) (ls : List Ln) (gs : List Gp) (hL : Hd) : List (Str × Str) :=
  (sPairs l ls gs hL).map (fun p => (p.1 ++ [p.2.n1, p.2.n2], p.2.d))

theorem sComps_pairs : ∀ (gs : List Gp) (l : Ln) (ls : List Ln) (hL : Hd),
    sComps l ls gs hL = (sPairs l ls gs hL).map (fun p => lnComp p.1 p.2)
  | [], l, ls, hL => by simp [sComps, sPairs, List.map_map, Function.comp_def]
  | g :: gs, l, ls, hL => by
    simp [sComps, sPairs, List.map_map, Function.comp_def, sComps_pairs gs g.l g.ls hL]

def StdHd (h : Hd) : Prop :=
  ∃ (a b : Nat) (ns ew : Char), a < 1000 ∧ b < 1000 ∧ (ns = 'n' ∨ ns = 's') ∧ (ew = 'e' ∨ ew = 'w') ∧ h = stdHd a b ns ew

theorem StdHd.ok {h : Hd} (hs : StdHd h) : h.Ok := by
  obtain ⟨a, b, ns, ew, ha, hb, hns, hew, rfl⟩ := hs
  exact stdHd_ok a b ns ew ha hb hns hew

/-- an abstract description in the layout Sec–desc–Twp/Rge: lines with inert blocks, standard Twp/Rges -/
structure StdS (l : Ln) (ls : List Ln) (gs : List Gp) (hL : Hd) : Prop where
  l : l.Ok
  ls : ∀ x ∈ ls, x.Ok
  gs : ∀ g ∈ gs, StdGp g
  hL : StdHd hL

theorem sPairs_std : ∀ (gs : List Gp) (l : Ln) (ls : List Ln) (hL : Hd), StdS l ls gs hL → ∀ p ∈ sPairs l ls gs hL,
    ∃ (a b : Nat) (ns ew : Char), a < 1000 ∧ b < 1000 ∧ (ns = 'n' ∨ ns = 's') ∧ (ew = 'e' ∨ ew = 'w') ∧ p.1 = (stdHd a b ns ew).key ∧
      p.2.Ok
  | [], l, ls, hL, hs, p, hp => by
    simp only [sPairs, List.mem_map] at hp
    obtain ⟨x, hx, rfl⟩ := hp
    obtain ⟨a, b, ns, ew, ha, hb, hns, hew, e⟩ := hs.hL
    refine ⟨a, b, ns, ew, ha, hb, hns, hew, by rw [e], ?_⟩
    rcases List.mem_cons.1 hx with rfl | hx
    · exact hs.l
    · exact hs.ls x hx
  | g :: gs, l, ls, hL, hs, p, hp => by
    simp only [sPairs, List.mem_append, List.mem_map] at hp
    rcases hp with ⟨x, hx, rfl⟩ | hp
    · obtain ⟨a, b, ns, ew, ha, hb, hns, hew, e⟩ := (hs.gs g (by simp)).std
      refine ⟨a, b, ns, ew, ha, hb, hns, hew, by rw [e], ?_⟩
      rcases List.mem_cons.1 hx with rfl | hx
      · exact hs.l
      · exact hs.ls x hx
    · have hg := (hs.gs g (by simp)).ok
      exact sPairs_std gs g.l g.ls hL ⟨hg.ls g.l (by simp [Gp.lines]), fun x hx => hg.ls x (by simp [Gp.lines, hx]),
        fun x hx => hs.gs x (by simp [hx]), hs.hL⟩ p hp

/-- the FULL statement for the layout Sec–desc–Twp/Rge (proved in Part 5b: `C01_canonical_forward_S_desc_TR_full`): the raw
    canonical text, whatever separator `sp` stands behind a Twp/Rge, is
    parsed into exactly one tract per line -/
def C01_canonical_forward_S_desc_TR_statement : Prop :=
  ∀ (mc : MC) (uid0 : Nat) (a : ParserArgs) (sp : Str) (l : Ln) (ls : List Ln) (gs : List Gp) (hL : Hd),
    SepOk sp → StdS l ls gs hL →
    isLegal Gen.LEGAL_NS mc.ns = true → isLegal Gen.LEGAL_EW mc.ew = true →
    isLegal Gen.LEGAL_NS (resolve a.defaultNS mc.ns) = true → isLegal Gen.LEGAL_EW (resolve a.defaultEW mc.ew) = true →
    a.ocrScrub = false → a.segment = false → a.secWithin = false → (a.layout = none ∨ a.layout = some S_DESC_TR) →
    ∀ (hd : Str) (c : Config.Cfg), handedDownText a = .ok hd → Config.ofText hd = .ok c →
    ∃ out, plssParser mc uid0 (sText sp l ls gs hL) a = .ok out ∧ out.layout = S_DESC_TR ∧
      out.text = sText [' '] l ls gs hL ∧ out.fl.e = [] ∧
      out.tracts.map (fun t => (t.trs, t.desc)) = (sTracts l ls gs hL).map (fun p => (TRS.trsToDict (some p.1), p.2)) ∧
      (∀ t ∈ out.tracts, TRS.isError t.trs = false)

/-- **C01 — the layout Sec–desc–Twp/Rge through the whole parser, given the preprocessed text.**
    For every abstract description — lines (two-digit section, inert block) grouped under standard Twp/Rges that close their
    groups — and EVERY raw text `text` that `plss_preprocess` turns into the canonical text with one blank behind each inner
    Twp/Rge (no Twp/Rge "fixed"), `PLSSParser` (layout deduced or given as S_desc_TR; any `require_colon` mode, any `clean_up`;
    no segmenting, no `sec_within`) returns exactly one tract per line, in reading order, with the Twp/Rge closing its group,
    its section and its block verbatim; the layout is S_desc_TR; no error flag; no tract with an error Twp/Rge/Sec.
    What is missing for the full statement: that preprocessing the raw canonical text gives this text (hypothesis `hpp`;
    it is checked by evaluation on the instance below). -/
theorem C01_canonical_forward_S_desc_TR_partial (mc : MC) (uid0 : Nat) (a : ParserArgs) (text : Str)
    (l : Ln) (ls : List Ln) (gs : List Gp) (hL : Hd) (hstd : StdS l ls gs hL)
    (hm1 : isLegal Gen.LEGAL_NS mc.ns = true) (hm2 : isLegal Gen.LEGAL_EW mc.ew = true)
    (hpp : plssPreprocess mc text a.defaultNS a.defaultEW a.ocrScrub =
      .ok { text := sText [' '] l ls gs hL, fixed := [], diverged := false })
    (ha2 : a.segment = false) (ha3 : a.secWithin = false)
    (hlay : a.layout = none ∨ a.layout = some S_DESC_TR) (hd : Str) (c : Config.Cfg)
    (hhd : handedDownText a = .ok hd) (hcfg : Config.ofText hd = .ok c) :
    ∃ out, plssParser mc uid0 text a = .ok out ∧ out.layout = S_DESC_TR ∧
      out.text = sText [' '] l ls gs hL ∧ out.fl.e = [] ∧
      out.tracts.map (fun t => (t.trs, t.desc)) = (sTracts l ls gs hL).map (fun p => (TRS.trsToDict (some p.1), p.2)) ∧
      (∀ t ∈ out.tracts, TRS.isError t.trs = false) := by
  have hl := hstd.l
  have hls := hstd.ls
  have hgs : ∀ x ∈ gs, x.Ok := fun x hx => (hstd.gs x hx).ok
  have hLok := hstd.hL.ok
  have hpairs_std := sPairs_std gs l ls hL hstd
  have hpairs_ok : ∀ p ∈ sPairs l ls gs hL, p.2.Ok := fun p hp => by
    obtain ⟨_, _, _, _, _, _, _, _, _, h⟩ := hpairs_std p hp; exact h
  -- the layout
  have hdl := deduceLayout_sText [' '] sepOk_blank l ls gs hL hl hls hgs hLok
  -- the chunk
  let pc : ParserCfg := { mandateLayout := !a.segment && a.layout.isSome, requireColon := a.requireColon, secWithin := a.secWithin }
  obtain ⟨ck, k1, k2, _, k4⟩ := C01_chunk_canonical_S_desc_TR mc pc hm1 hm2 [' '] sepOk_blank l ls gs hL hl hls hgs hLok
    S_DESC_TR (fun _ => rfl)
  obtain ⟨k5, k6⟩ := k4 ha3
  have hne : ck.comps.isEmpty = false := by
    rw [k5, sComps_pairs]; cases gs <;> simp [sPairs]
  obtain ⟨ts, hts, hlen⟩ := C03_buildTracts_total uid0 hd a.parseQQ a.source text TRS.trsToDict c hcfg
    ((sPairs l ls gs hL).map (fun p => (p.2.d, p.1 ++ [p.2.n1, p.2.n2], false))) 0
  have hpairs := TractsOf.buildTracts_pairs _ _ _ _ _ _ _ _ _ hts
  have hidx : secWithinIndexes ((sPairs l ls gs hL).map (fun p => (p.2.d, p.1 ++ [p.2.n1, p.2.n2], false))) = [] :=
    secWithinIndexes_false _ (by intro s hs; simp only [List.mem_map] at hs; obtain ⟨p, _, rfl⟩ := hs; rfl)
  have hunused : ∀ u ∈ ck.unused, u.2.length < Gen.MIN_REPORTABLE_UNUSED_LEN := by
    intro u hu
    have : u.2 ∈ ck.unused.map (·.2) := List.mem_map_of_mem hu
    rw [k6] at this
    simp only [List.mem_append, List.mem_map, List.mem_singleton] at this
    rcases this with ⟨_, _, e⟩ | e
    · rw [← e]; decide
    · rw [e]; decide
  have hnoerr : ∀ t ∈ ts, TRS.isError t.trs = false := by
    intro t ht
    have : (t.trs, t.desc) ∈ ts.map (fun t => (t.trs, t.desc)) := List.mem_map_of_mem ht
    rw [hpairs] at this
    simp only [List.map_map, List.mem_map, Function.comp_apply, Prod.mk.injEq] at this
    obtain ⟨p, hp, e1, _⟩ := this
    obtain ⟨a', b', ns, ew, ha', hb', hns, hew, hk, hl'⟩ := hpairs_std p hp
    rw [← e1, hk]
    exact (std_trs_ok a' b' ns ew ha' hb' hns hew p.2.n1 p.2.n2 hl'.n1 hl'.n2).1
  have hany : ts.any (fun t => TRS.isError t.trs) = false := by
    rw [List.any_eq_false]
    intro t ht
    simp [hnoerr t ht]
  have herr : ∀ fl, errorTractFlag fl ts = fl := by
    intro fl; unfold errorTractFlag; simp [hany]
  have hspecs' := fun cu => tractSpecs_pairs cu (sPairs l ls gs hL) hpairs_ok
  have hk1 : ∀ ml, parseChunkCore mc { mandateLayout := ml, requireColon := a.requireColon, secWithin := false }
      (sText [' '] l ls gs hL) false S_DESC_TR = .ok ck := by
    intro ml
    have : parseChunkCore mc pc (sText [' '] l ls gs hL) false S_DESC_TR =
        parseChunkCore mc { mandateLayout := ml, requireColon := a.requireColon, secWithin := false }
          (sText [' '] l ls gs hL) false S_DESC_TR := by
      unfold parseChunkCore chunkLayoutOf
      simp only [Bool.false_eq_true, if_false, pc, ha3, hdl]
      cases ml <;> cases (!a.segment && a.layout.isSome) <;> simp [hdl, finishChunk, ha3]
    rw [← this]; exact k1
  let pfl := genFlagsChunk (sText [' '] l ls gs hL) (fixedFlags [])
  let P : ParentSt := { fl := { w := pfl.w ++ ck.fl.w, wl := pfl.wl ++ ck.fl.wl, e := pfl.e ++ ck.fl.e, el := pfl.el ++ ck.fl.el },
                        comps := [] ++ ck.comps, unused := [] ++ ck.unused }
  have hchunk : ∀ ml, chunkParser mc { mandateLayout := ml, requireColon := a.requireColon, secWithin := false } (sText [' '] l ls gs hL) false S_DESC_TR
      { fl := fixedFlags [] } = .ok P := by
    intro ml
    unfold chunkParser
    rw [hk1 ml]
    simp only [hne, Bool.false_eq_true, if_false]
    rfl
  have hblocks : parseAllBlocks mc (sText [' '] l ls gs hL) S_DESC_TR a (fixedFlags []) = .ok P := by
    have hcopy : (S_DESC_TR == COPY_ALL) = false := by decide
    unfold parseAllBlocks
    simp only [ha2, ha3, Bool.false_eq_true, if_false, parseBlocks, hcopy, hchunk]
  have hPc : P.comps = (sPairs l ls gs hL).map (fun p => lnComp p.1 p.2) := by
    show [] ++ ck.comps = _
    rw [List.nil_append, k5, sComps_pairs]
  have hrest : ∀ cu, ∃ out, (match tractSpecs cu P.comps with
        | .error e => (.error e : Except PyErr ParserOut)
        | .ok specs =>
          match buildTracts uid0 hd a.parseQQ a.source text TRS.trsToDict 0 specs with
          | .error e => .error e
          | .ok tracts =>
            match secWithinFlags tracts (examineUnused P.fl P.unused) (secWithinIndexes specs) with
            | .error e => .error e
            | .ok fl1 =>
              let fl := errorTractFlag fl1 tracts
              let tracts := handDownFlags fl tracts
              .ok { tracts := tracts, fl := fl, layout := S_DESC_TR, text := (sText [' '] l ls gs hL), nextUid := uid0 + specs.length,
                    diverged := false || tracts.any (·.diverged), handedDown := hd }) = .ok out ∧
      out.layout = S_DESC_TR ∧ out.text = (sText [' '] l ls gs hL) ∧ out.fl.e = [] ∧
      out.tracts.map (fun t => (t.trs, t.desc)) = (sTracts l ls gs hL).map (fun p => (TRS.trsToDict (some p.1), p.2)) ∧
      (∀ t ∈ out.tracts, TRS.isError t.trs = false) := by
    intro cu
    rw [hPc, hspecs' cu]
    simp only [hts, hidx, secWithinFlags, herr]
    refine ⟨_, rfl, rfl, rfl, ?_, ?_, ?_⟩
    · simp only []
      have hu : ∀ u ∈ P.unused, u.2.length < Gen.MIN_REPORTABLE_UNUSED_LEN := by
        intro u hu; exact hunused u (by simpa [P] using hu)
      rw [examineUnused_short _ _ hu]
      show pfl.e ++ ck.fl.e = []
      rw [k2, (genFlagsChunk_e _ _).1]
      rfl
    · simp only [handDownFlags, List.map_map, Function.comp_def]
      rw [hpairs]
      simp [sTracts, List.map_map, Function.comp_def]
    · intro t ht
      simp only [handDownFlags, List.mem_map] at ht
      obtain ⟨t', ht', rfl⟩ := ht
      exact hnoerr t' ht'
  unfold plssParser
  simp only [hhd, hpp]
  rcases hlay with e | e
  · simp only [e, hdl]
    rw [hblocks]
    exact hrest _
  · simp only [e]
    rw [hblocks]
    exact hrest _

/-! ## Part 5b — preprocessing of the canonical text

Every scrubber rewrites a Twp/Rge into its canonical text and a blank — also the LAST one, so the intermediate texts end in
blanks (`fin`), which `pp_twprge_comma_remove` reduces to one blank and the final strip removes. -/

/-- what may stand behind the last Twp/Rge: blanks and line breaks, possibly none -/
def FinB (fin : Str) : Prop := ∀ c ∈ fin, c = ' ' ∨ c = '\n'

theorem finB_nil : FinB [] := fun _ h => by cases h
theorem FinB.cons_blank {fin : Str} (h : FinB fin) : FinB (' ' :: fin) :=
  fun c hc => by rcases List.mem_cons.1 hc with rfl | hc; exact Or.inl rfl; exact h c hc
theorem finB_blank : FinB [' '] := finB_nil.cons_blank

def hdrsF (sp fin : Str) : List Gp → Hd → Str
  | [], hL => hL.text ++ fin
  | g :: gs, hL => g.text sp ++ '\n' :: hdrsF sp fin gs hL

def sTextF (sp fin : Str) (l : Ln) (ls : List Ln) (gs : List Gp) (hL : Hd) : Str := lnsText l ls ++ '\n' :: hdrsF sp fin gs hL

theorem hdrsF_eq (sp fin : Str) (hL : Hd) : ∀ gs : List Gp, hdrsF sp fin gs hL = hdrsFrom sp gs hL ++ fin
  | [] => rfl
  | g :: gs => by simp [hdrsF, hdrsFrom, hdrsF_eq sp fin hL gs]

theorem sTextF_eq (sp fin : Str) (l : Ln) (ls : List Ln) (gs : List Gp) (hL : Hd) :
    sTextF sp fin l ls gs hL = sText sp l ls gs hL ++ fin := by
  simp [sTextF, sText, hdrsF_eq]

theorem sTextF_nil (sp : Str) (l : Ln) (ls : List Ln) (gs : List Gp) (hL : Hd) : sTextF sp [] l ls gs hL = sText sp l ls gs hL := by
  simp [sTextF_eq]

theorem hdrsF_head (sp fin : Str) (hL : Hd) (hLok : hL.Ok) : ∀ gs : List Gp, (∀ x ∈ gs, x.Ok) →
    ∃ (h : Hd) (rest : Str), h.Ok ∧ hdrsF sp fin gs hL = h.text ++ rest
  | [], _ => ⟨hL, fin, hLok, rfl⟩
  | g :: gs, hgs => ⟨g.h, g.body sp ++ '\n' :: hdrsF sp fin gs hL, (hgs g (by simp)).h, by simp [hdrsF, Gp.text]⟩

theorem groupTail_hdrsF (sp fin : Str) (hL : Hd) (hLok : hL.Ok) (gs : List Gp) (hgs : ∀ x ∈ gs, x.Ok) :
    GroupTail ('\n' :: hdrsF sp fin gs hL) := by
  obtain ⟨h, rest, hok, e⟩ := hdrsF_head sp fin hL hLok gs hgs
  exact Or.inr ⟨h, rest, hok, by rw [e]⟩

theorem endsTwprge_fin (fin : Str) (hfin : FinB fin) : EndsTwprge fin := by
  cases fin with
  | nil => exact EndsTwprge.nil
  | cons c t =>
    rcases hfin c (by simp) with rfl | rfl
    · exact EndsTwprge.cons _ (by decide +kernel)
    · exact EndsTwprge.cons _ (by decide +kernel)

/-- tiling by headers, with `fin` behind the last one (swallowed with it if `eat`) -/
theorem hdrsTilesF (r : Rx) (hg : GapSkips r) (sp fin : Str) (hsp : SepOk sp) (eat : Bool)
    (mk : Hd → Nat → Match)
    (htok : ∀ (h : Hd) (l : Ln) (rest : Str) (prev : Option Char) (pos : Nat), h.Ok → l.Ok →
       isWord Gen.cs_14d6aa8a prev = false →
       matchHere r ⟨prev, h.text ++ (sp ++ (l.ref ++ rest)), pos, []⟩ false = some (mk h pos) ∧ (mk h pos).start = pos ∧
       (mk h pos).stop = pos + h.text.length + (if eat then sp.length else 0))
    (mkL : Hd → Nat → Match)
    (htokL : ∀ (h : Hd) (prev : Option Char) (pos : Nat), h.Ok → isWord Gen.cs_14d6aa8a prev = false →
       matchHere r ⟨prev, h.text ++ fin, pos, []⟩ false = some (mkL h pos) ∧ (mkL h pos).start = pos ∧
       (mkL h pos).stop = pos + h.text.length + (if eat then fin.length else 0))
    (hfinT : eat = false → ∀ p pos, Tiles r p fin pos [])
    (hL : Hd) (hLok : hL.Ok) :
    ∀ (gs : List Gp) (q : Nat) (prev : Option Char), (∀ x ∈ gs, x.Ok) → isWord Gen.cs_14d6aa8a prev = false →
      Tiles r prev (hdrsF sp fin gs hL) q (hdrMs mk sp q gs ++ [mkL hL (q + (gpsSeg sp gs).length)]) := by
  intro gs
  induction gs with
  | nil =>
    intro q prev _ hprev
    obtain ⟨h1, h2, h3⟩ := htokL hL prev q hLok hprev
    simp only [hdrsF, hdrMs, gpsSeg, List.nil_append, List.length_nil, Nat.add_zero]
    cases eat with
    | false =>
      simp only [Bool.false_eq_true, if_false, Nat.add_zero] at h3
      exact Tiles.tok prev hL.text fin q (mkL hL q) [] h1 h2 h3 hL.text_ne (hfinT rfl _ _)
    | true =>
      simp only [if_true] at h3
      have hne : hL.text ++ fin ≠ [] := by simp [Hd.text, canonText]
      have := Tiles.tok prev (hL.text ++ fin) [] q (mkL hL q) [] (by simpa using h1) h2
        (by rw [h3, List.length_append]; omega) hne (Tiles.nil _ _ (matchHere_of_failsOn hg.fin0 _ _ false))
      simpa using this
  | cons g gs ih =>
    intro q prev hgs hprev
    have hok := hgs g (by simp)
    have hgs' : ∀ x ∈ gs, x.Ok := fun x hx => hgs x (by simp [hx])
    have hl := hok.ls g.l (by simp [Gp.lines])
    have htail : GroupTail ('\n' :: hdrsF sp fin gs hL) := groupTail_hdrsF sp fin hL hLok gs hgs'
    obtain ⟨h1, h2, h3⟩ := htok g.h g.l (' ' :: g.l.d ++ (lnsSeg g.ls ++ '\n' :: hdrsF sp fin gs hL)) prev q hok.h hl hprev
    have hrest : ∀ p pos, Tiles r p ('\n' :: hdrsF sp fin gs hL) pos
        (hdrMs mk sp (pos + 1) gs ++ [mkL hL (pos + 1 + (gpsSeg sp gs).length)]) := by
      intro p pos
      obtain ⟨h', rest', hok', e'⟩ := hdrsF_head sp fin hL hLok gs hgs'
      refine Tiles.skip p '\n' _ pos _ ?_ (ih (pos + 1) (some '\n') hgs' isWord_nl)
      rw [e']
      exact matchHere_of_failsOn (hg.nlHdr h' rest' hok') p pos false
    have htxt : hdrsF sp fin (g :: gs) hL =
        g.h.text ++ (sp ++ (g.l.ref ++ (' ' :: g.l.d ++ (lnsSeg g.ls ++ '\n' :: hdrsF sp fin gs hL)))) := by
      simp [hdrsF, Gp.text, Gp.body, Ln.text]
    rw [htxt]
    have hlen : (g.text sp).length = g.h.text.length + sp.length + (g.l.text ++ lnsSeg g.ls).length := by
      simp [Gp.text, Gp.body]; omega
    have hms : hdrMs mk sp q (g :: gs) ++ [mkL hL (q + (gpsSeg sp (g :: gs)).length)] =
        mk g.h q :: (hdrMs mk sp (q + (g.text sp).length + 1) gs ++ [mkL hL (q + (g.text sp).length + 1 + (gpsSeg sp gs).length)]) := by
      have : q + (gpsSeg sp (g :: gs)).length = q + (g.text sp).length + 1 + (gpsSeg sp gs).length := by
        simp [gpsSeg]; omega
      rw [this]; rfl
    rw [hms]
    cases eat with
    | false =>
      simp only [Bool.false_eq_true, if_false, Nat.add_zero] at h3
      refine Tiles.tok prev g.h.text _ q _ _ h1 h2 h3 g.h.text_ne ?_
      have hb := hg.body sp hsp g hok _ htail
      have := Tiles.skipSeg hb (lastOr prev g.h.text) (q + g.h.text.length) (hrest _ _)
      have e2 : q + g.h.text.length + (g.body sp).length + 1 = q + (g.text sp).length + 1 := by
        simp [Gp.text]; omega
      rw [e2] at this
      simpa [Gp.body, Ln.text, List.append_assoc] using this
    | true =>
      simp only [if_true] at h3
      have hne : g.h.text ++ sp ≠ [] := by simp [Hd.text, canonText]
      have e : g.h.text ++ (sp ++ (g.l.ref ++ (' ' :: g.l.d ++ (lnsSeg g.ls ++ '\n' :: hdrsF sp fin gs hL)))) =
          (g.h.text ++ sp) ++ (g.l.ref ++ (' ' :: g.l.d ++ (lnsSeg g.ls ++ '\n' :: hdrsF sp fin gs hL))) := by simp
      rw [e] at h1 ⊢
      refine Tiles.tok prev (g.h.text ++ sp) _ q _ _ h1 h2 (by rw [h3, List.length_append]; omega) hne ?_
      have hb := hg.linesOf g hok _ htail
      have := Tiles.skipSeg hb (lastOr prev (g.h.text ++ sp)) (q + (g.h.text ++ sp).length) (hrest _ _)
      have e2 : q + (g.h.text ++ sp).length + (g.l.text ++ lnsSeg g.ls).length + 1 = q + (g.text sp).length + 1 := by
        rw [hlen, List.length_append]; omega
      rw [e2] at this
      simpa [Ln.text, List.append_assoc] using this

theorem sTextTilesF (r : Rx) (hg : GapSkips r) (sp fin : Str) (hsp : SepOk sp) (eat : Bool)
    (mk : Hd → Nat → Match)
    (htok : ∀ (h : Hd) (l : Ln) (rest : Str) (prev : Option Char) (pos : Nat), h.Ok → l.Ok →
       isWord Gen.cs_14d6aa8a prev = false →
       matchHere r ⟨prev, h.text ++ (sp ++ (l.ref ++ rest)), pos, []⟩ false = some (mk h pos) ∧ (mk h pos).start = pos ∧
       (mk h pos).stop = pos + h.text.length + (if eat then sp.length else 0))
    (mkL : Hd → Nat → Match)
    (htokL : ∀ (h : Hd) (prev : Option Char) (pos : Nat), h.Ok → isWord Gen.cs_14d6aa8a prev = false →
       matchHere r ⟨prev, h.text ++ fin, pos, []⟩ false = some (mkL h pos) ∧ (mkL h pos).start = pos ∧
       (mkL h pos).stop = pos + h.text.length + (if eat then fin.length else 0))
    (hfinT : eat = false → ∀ p pos, Tiles r p fin pos [])
    (l : Ln) (ls : List Ln) (gs : List Gp) (hL : Hd) (hl : l.Ok) (hls : ∀ x ∈ ls, x.Ok) (hgs : ∀ x ∈ gs, x.Ok) (hLok : hL.Ok) :
    Tiles r none (sTextF sp fin l ls gs hL) 0
      (hdrMs mk sp ((lnsText l ls).length + 1) gs ++ [mkL hL ((lnsText l ls).length + 1 + (gpsSeg sp gs).length)]) := by
  have htail : GroupTail ('\n' :: hdrsF sp fin gs hL) := groupTail_hdrsF sp fin hL hLok gs hgs
  have hsk : Skips r (lnsText l ls) ('\n' :: hdrsF sp fin gs hL) :=
    Skips.append (hg.line l (lnsSeg ls ++ '\n' :: hdrsF sp fin gs hL) hl (descTail_lns ls _ hls htail)) (hg.lines ls _ hls htail)
  obtain ⟨h', rest', hok', e'⟩ := hdrsF_head sp fin hL hLok gs hgs
  have hT := hdrsTilesF r hg sp fin hsp eat mk htok mkL htokL hfinT hL hLok gs ((lnsText l ls).length + 1) (some '\n') hgs isWord_nl
  have hnl : Tiles r (lastOr none (lnsText l ls)) ('\n' :: hdrsF sp fin gs hL) (0 + (lnsText l ls).length) _ :=
    Tiles.skip _ '\n' _ _ _ (by rw [e']; exact matchHere_of_failsOn (hg.nlHdr h' rest' hok') _ _ false)
      (by rw [Nat.zero_add]; exact hT)
  exact Tiles.skipSeg hsk none 0 hnl

/-- blanks and line breaks contain no digit: a pattern every match of which needs a digit finds nothing in them -/
theorem fin_tiles {r : Rx} (hm : r.mustHitP (fun cs => cs.sub digitD) = true) : ∀ (fin : Str), FinB fin → ∀ p pos, Tiles r p fin pos []
  | [], _, p, pos => Tiles.nil p pos (matchHere_of_failsOn (FailsOn.of_noHit hm [] (fun _ h => by cases h)) _ _ false)
  | c :: t, h, p, pos => by
    have hno : ∀ d ∈ c :: t, ∀ cs : CharSet, cs.sub digitD = true → cs.mem d = false := by
      intro d hd
      rcases h d hd with rfl | rfl <;> exact noHit_of_notMem (by decide +kernel)
    exact Tiles.skip p c t pos [] (matchHere_of_failsOn (FailsOn.of_noHit hm _ hno) _ _ false)
      (fin_tiles hm t (fun d hd => h d (by simp [hd])) _ _)

/-- **one scrubbing pass along the headers** of the Sec–desc–Twp/Rge text -/
theorem rewrite_hdrsF (p : Pat) (ns ew sp fin : Str) (eat : Bool) (mk mkL : Hd → Nat → Match) (text : Str) (hL : Hd)
    (hstart : ∀ h pos, (mk h pos).start = pos)
    (hstop : ∀ h pos, (mk h pos).stop = pos + h.text.length + (if eat then sp.length else 0))
    (hstartL : ∀ h pos, (mkL h pos).start = pos)
    (hstopL : ∀ h pos, (mkL h pos).stop = pos + h.text.length + (if eat then fin.length else 0))
    (hcan : ∀ (g : Gp) (pre post : Str), g.Ok → g.h.Canon → text = pre ++ (g.text sp ++ post) →
      canonTR p (mk g.h pre.length) text ns ew false = g.h.text)
    (hcanL : ∀ (pre : Str), text = pre ++ (hL.text ++ fin) → canonTR p (mkL hL pre.length) text ns ew false = hL.text) :
    ∀ (gs : List Gp) (pre mid : Str), (∀ x ∈ gs, x.Ok ∧ x.h.Canon) →
      text = pre ++ mid ++ hdrsF sp fin gs hL →
      rewrite p text ns ew false (hdrMs mk sp (pre ++ mid).length gs ++ [mkL hL ((pre ++ mid).length + (gpsSeg sp gs).length)]) pre.length =
        mid ++ hdrsF (newSep eat sp) (newSep eat fin) gs hL
  | [], pre, mid, _, htext => by
    have hm := hcanL (pre ++ mid) (by rw [htext]; simp [hdrsF])
    have hsl : slice text pre.length (pre ++ mid).length = mid :=
      slice_at text pre mid (hL.text ++ fin) _ _ (by rw [htext]; simp [hdrsF]) rfl (by simp)
    simp only [hdrMs, gpsSeg, List.nil_append, List.length_nil, Nat.add_zero, rewrite, hstartL, hstopL, hm, hsl, hdrsF]
    cases eat with
    | false =>
      have hd : text.drop ((pre ++ mid).length + hL.text.length + 0) = fin := by
        have : text = (pre ++ mid ++ hL.text) ++ fin := by rw [htext]; simp [hdrsF]
        rw [this]
        have hl : (pre ++ mid).length + hL.text.length + 0 = (pre ++ mid ++ hL.text).length := by simp; omega
        rw [hl, List.drop_left]
      simp only [Bool.false_eq_true, if_false, hd, newSep]
      simp
    | true =>
      have hd : text.drop ((pre ++ mid).length + hL.text.length + fin.length) = [] := by
        rw [List.drop_eq_nil_iff, htext]; simp [hdrsF]; omega
      simp only [if_true, hd, newSep]
      simp
  | g :: gs, pre, mid, hgs, htext => by
    have hg := hgs g (by simp)
    have hgs' : ∀ x ∈ gs, x.Ok ∧ x.h.Canon := fun x hx => hgs x (by simp [hx])
    have hm := hcan g (pre ++ mid) ('\n' :: hdrsF sp fin gs hL) hg.1 hg.2 (by rw [htext]; simp [hdrsF])
    have hsl : slice text pre.length (pre ++ mid).length = mid :=
      slice_at text pre mid (hdrsF sp fin (g :: gs) hL) _ _ (by rw [htext]; simp) rfl (by simp)
    have hms : hdrMs mk sp (pre ++ mid).length (g :: gs) ++ [mkL hL ((pre ++ mid).length + (gpsSeg sp (g :: gs)).length)] =
        mk g.h (pre ++ mid).length :: (hdrMs mk sp ((pre ++ mid).length + (g.text sp).length + 1) gs ++
          [mkL hL ((pre ++ mid).length + (g.text sp).length + 1 + (gpsSeg sp gs).length)]) := by
      have : (pre ++ mid).length + (gpsSeg sp (g :: gs)).length = (pre ++ mid).length + (g.text sp).length + 1 + (gpsSeg sp gs).length := by
        simp [gpsSeg]; omega
      rw [this]; rfl
    rw [hms]
    simp only [rewrite, hstart, hstop, hm, hsl]
    cases eat with
    | false =>
      have ih := rewrite_hdrsF p ns ew sp fin false mk mkL text hL hstart hstop hstartL hstopL hcan hcanL gs (pre ++ mid ++ g.h.text) (g.body sp ++ ['\n'])
        hgs' (by rw [htext]; simp [hdrsF, Gp.text])
      have hl1 : (pre ++ mid ++ g.h.text ++ (g.body sp ++ ['\n'])).length = (pre ++ mid).length + (g.text sp).length + 1 := by
        simp [Gp.text]; omega
      have hl2 : (pre ++ mid ++ g.h.text).length = (pre ++ mid).length + g.h.text.length + 0 := by simp; omega
      rw [hl1, hl2] at ih
      simp only [Bool.false_eq_true, if_false, ih, newSep]
      simp [Gp.text, Gp.body, hdrsF]
    | true =>
      have ih := rewrite_hdrsF p ns ew sp fin true mk mkL text hL hstart hstop hstartL hstopL hcan hcanL gs (pre ++ mid ++ g.h.text ++ sp) (g.l.text ++ lnsSeg g.ls ++ ['\n'])
        hgs' (by rw [htext]; simp [hdrsF, Gp.text, Gp.body])
      have hl1 : (pre ++ mid ++ g.h.text ++ sp ++ (g.l.text ++ lnsSeg g.ls ++ ['\n'])).length = (pre ++ mid).length + (g.text sp).length + 1 := by
        simp [Gp.text, Gp.body]; omega
      have hl2 : (pre ++ mid ++ g.h.text ++ sp).length = (pre ++ mid).length + g.h.text.length + sp.length := by simp; omega
      rw [hl1, hl2] at ih
      simp only [if_true, ih, newSep]
      simp [Gp.text, Gp.body, hdrsF]


/-- one pass of a scrubber whose matches are the headers -/
theorem scrub_sText (name : String) (p : Pat) (hp : findPat name = p) (hocr : (name == Gen.PLSS_OCR_SCRUBBER) = false)
    (hg : GapSkips p.rx) (sp fin : Str) (hsp : SepOk sp) (eat : Bool) (mk mkL : Hd → Nat → Match)
    (hstart : ∀ h pos, (mk h pos).start = pos)
    (hstop : ∀ h pos, (mk h pos).stop = pos + h.text.length + (if eat then sp.length else 0))
    (hstartL : ∀ h pos, (mkL h pos).start = pos)
    (hstopL : ∀ h pos, (mkL h pos).stop = pos + h.text.length + (if eat then fin.length else 0))
    (htok : ∀ (h : Hd) (l : Ln) (rest : Str) (prev : Option Char) (pos : Nat), h.Ok → l.Ok →
       isWord Gen.cs_14d6aa8a prev = false →
       matchHere p.rx ⟨prev, h.text ++ (sp ++ (l.ref ++ rest)), pos, []⟩ false = some (mk h pos))
    (htokL : ∀ (h : Hd) (prev : Option Char) (pos : Nat), h.Ok → isWord Gen.cs_14d6aa8a prev = false →
       matchHere p.rx ⟨prev, h.text ++ fin, pos, []⟩ false = some (mkL h pos))
    (hfinT : eat = false → ∀ pv pos, Tiles p.rx pv fin pos [])
    (ns ew : Str) (h1 : isLegal Gen.LEGAL_NS ns = true) (h2 : isLegal Gen.LEGAL_EW ew = true)
    (hcan : ∀ (text : Str) (g : Gp) (pre post : Str), g.Ok → g.h.Canon → text = pre ++ (g.text sp ++ post) →
      canonTR p (mk g.h pre.length) text ns ew false = g.h.text)
    (hcanL : ∀ (text : Str) (h : Hd) (pre : Str), h.Ok → h.Canon → text = pre ++ (h.text ++ fin) →
      canonTR p (mkL h pre.length) text ns ew false = h.text)
    (l : Ln) (ls : List Ln) (gs : List Gp) (hL : Hd) (hl : l.Ok) (hls : ∀ x ∈ ls, x.Ok) (hgs : ∀ x ∈ gs, x.Ok ∧ x.h.Canon)
    (hLok : hL.Ok) (hLc : hL.Canon) :
    subScrubber name (sTextF sp fin l ls gs hL) ns ew = .ok (sTextF (newSep eat sp) (newSep eat fin) l ls gs hL) := by
  have hgs' : ∀ x ∈ gs, x.Ok := fun x hx => (hgs x hx).1
  have hfi : p.rx.finditer (sTextF sp fin l ls gs hL) =
      hdrMs mk sp ((lnsText l ls).length + 1) gs ++ [mkL hL ((lnsText l ls).length + 1 + (gpsSeg sp gs).length)] :=
    (sTextTilesF p.rx hg sp fin hsp eat mk
      (fun h l rest prev pos hh hl hprev => ⟨htok h l rest prev pos hh hl hprev, hstart h pos, hstop h pos⟩) mkL
      (fun h prev pos hh hprev => ⟨htokL h prev pos hh hprev, hstartL h pos, hstopL h pos⟩) hfinT
      l ls gs hL hl hls hgs' hLok).finditer_eq
  rw [C08_subScrubber_rewrites name _ ns ew h1 h2, hp, hocr, hfi]
  have := rewrite_hdrsF p ns ew sp fin eat mk mkL (sTextF sp fin l ls gs hL) hL hstart hstop hstartL hstopL (hcan _)
    (fun pre ht => hcanL _ hL pre hLok hLc ht) gs [] (lnsText l ls ++ ['\n']) hgs (by simp [sTextF])
  have hlen : ([] ++ (lnsText l ls ++ ['\n'])).length = (lnsText l ls).length + 1 := by simp
  rw [hlen] at this
  simp only [List.length_nil] at this
  rw [this]
  simp [sTextF]

theorem twprge_mustDigit : Gen.twprge_regex.mustHitP (fun cs => cs.sub digitD) = true := by decide +kernel

/-- scrubber 1 (`twprge_regex`) -/
theorem scrub1_sText (sp fin : Str) (hsp : SepOk sp) (hfin : FinB fin) (ns ew : Str) (h1 : isLegal Gen.LEGAL_NS ns = true)
    (h2 : isLegal Gen.LEGAL_EW ew = true)
    (l : Ln) (ls : List Ln) (gs : List Gp) (hL : Hd) (hl : l.Ok) (hls : ∀ x ∈ ls, x.Ok) (hgs : ∀ x ∈ gs, x.Ok ∧ x.h.Canon)
    (hLok : hL.Ok) (hLc : hL.Canon) :
    subScrubber "twprge_regex" (sTextF sp fin l ls gs hL) ns ew = .ok (sTextF (' ' :: sp) (' ' :: fin) l ls gs hL) := by
  refine scrub_sText "twprge_regex" twprge rfl (by decide) twprge_gapSkips sp fin hsp false twMk twMk (fun _ _ => rfl)
    (fun h pos => by simp [twMk, Spelling.matchAt, h.sp_text]) (fun _ _ => rfl)
    (fun h pos => by simp [twMk, Spelling.matchAt, h.sp_text])
    (fun h l rest prev pos hh hl hprev => (twprge_tok sp hsp h l rest prev pos hh hl hprev).1) ?_
    (fun _ => fin_tiles twprge_mustDigit fin hfin) ns ew h1 h2
    (fun text g pre post hok hc ht => twprge_hcan sp hsp ns ew text g pre post hok hc ht) ?_ l ls gs hL hl hls hgs hLok hLc
  · intro h prev pos hh hprev
    have hv := h.valid hh fin (endsTwprge_fin fin hfin)
    have := C08_spelling_matchHere h.sp _ hv prev hprev pos false
    rw [h.sp_text] at this
    exact this
  · intro text h pre hh hc htext
    have hv := h.valid hh fin (endsTwprge_fin fin hfin)
    have htext' : text = pre ++ (h.sp.text ++ fin) := by rw [htext, h.sp_text]
    rw [htext']
    exact (h.sp.canonTR_at pre _ hv ns ew).trans (h.canon_text hh hc)

/-- the common part of scrubbers 2–4 -/
theorem scrubPP_sText (name : String) (p : Pat) (hp : findPat name = p) (hocr : (name == Gen.PLSS_OCR_SCRUBBER) = false)
    (hg : GapSkips p.rx) (hmust : p.rx.mustHitP (fun cs => cs.sub digitD) = true)
    (hidx : p.idx? "twpnum" = some 3 ∧ p.idx? "ns" = some 4 ∧ p.idx? "rgenum" = some 6 ∧ p.idx? "ew" = some 7)
    (caps : Str → Str → Nat → Caps) (hcaps : ∀ t r pos stop, CanonAt ⟨pos, stop, caps t r pos⟩ pos t r)
    (hat : ∀ (t r : Str) (nc ec : Char) (ctx : Str), CanonHyp t r nc ec ctx → ∀ (prev : Option Char) (pos : Nat),
      isWord Gen.cs_14d6aa8a prev = false →
      matchHere p.rx ⟨prev, canonText t nc r ec ++ ctx, pos, []⟩ false = some ⟨pos, pos + (5 + t.length + r.length), caps t r pos⟩)
    (sp fin : Str) (hsp : SepOk sp) (hfin : FinB fin) (ns ew : Str) (h1 : isLegal Gen.LEGAL_NS ns = true) (h2 : isLegal Gen.LEGAL_EW ew = true)
    (l : Ln) (ls : List Ln) (gs : List Gp) (hL : Hd) (hl : l.Ok) (hls : ∀ x ∈ ls, x.Ok) (hgs : ∀ x ∈ gs, x.Ok ∧ x.h.Canon)
    (hLok : hL.Ok) (hLc : hL.Canon) :
    subScrubber name (sTextF sp fin l ls gs hL) ns ew = .ok (sTextF (' ' :: sp) (' ' :: fin) l ls gs hL) := by
  refine scrub_sText name p hp hocr hg sp fin hsp false
    (fun h pos => ⟨pos, pos + (5 + h.t.length + h.r.length), caps h.t h.r pos⟩)
    (fun h pos => ⟨pos, pos + (5 + h.t.length + h.r.length), caps h.t h.r pos⟩) (fun _ _ => rfl)
    (fun h pos => by simp [h.text_length]) (fun _ _ => rfl) (fun h pos => by simp [h.text_length])
    (fun h l rest prev pos hh hl hprev => hat h.t h.r h.ns h.ew _ (h.canonHyp hh _ (endsTwprge_body sp hsp l rest)) prev pos hprev)
    (fun h prev pos hh hprev => hat h.t h.r h.ns h.ew _ (h.canonHyp hh _ (endsTwprge_fin fin hfin)) prev pos hprev)
    (fun _ => fin_tiles hmust fin hfin) ns ew h1 h2 ?_ ?_ l ls gs hL hl hls hgs hLok hLc
  · intro text g' pre post hok' hc' htext
    have htext' : text = pre ++ (canonText g'.h.t g'.h.ns g'.h.r g'.h.ew ++ (g'.body sp ++ post)) := by
      rw [htext]; simp [Gp.text, Hd.text]
    rw [htext']
    exact (canonTR_of_canonAt p hidx _ g'.h.t g'.h.r g'.h.ns g'.h.ew pre _ (hcaps _ _ _ _) hok'.h.ns hok'.h.ew ns ew).trans
      (g'.h.canon_canonText hc')
  · intro text h pre hh hc htext
    have htext' : text = pre ++ (canonText h.t h.ns h.r h.ew ++ fin) := by rw [htext]; rfl
    rw [htext']
    exact (canonTR_of_canonAt p hidx _ h.t h.r h.ns h.ew pre _ (hcaps _ _ _ _) hh.ns hh.ew ns ew).trans (h.canon_canonText hc)

/-- the characters of the text -/
theorem docCh_sTextF (sp fin : Str) (hsp : SepOk sp) (hfin : FinB fin) (l : Ln) (ls : List Ln) (gs : List Gp) (hL : Hd)
    (hl : l.Ok) (hls : ∀ x ∈ ls, x.Ok) (hgs : ∀ x ∈ gs, x.Ok) (hLok : hL.Ok) : ∀ c ∈ sTextF sp fin l ls gs hL, DocCh c := by
  intro c hc
  rw [sTextF_eq, sText_eq] at hc
  simp only [List.mem_append, List.mem_cons] at hc
  rcases hc with (hc | hc | hc | rfl | hc) | hc
  · exact docCh_line l hl c hc
  · exact docCh_lines ls hls c hc
  · exact docCh_groups sp hsp gs hgs c hc
  · exact Or.inl (by decide)
  · exact docCh_hdr hL hLok c hc
  · rcases hfin c hc with rfl | rfl <;> exact Or.inl (by decide)

/-- scrubber 5 (`pp_twprge_pm`) finds nothing -/
theorem scrub5_sText (sp fin : Str) (hsp : SepOk sp) (hfin : FinB fin) (ns ew : Str) (h1 : isLegal Gen.LEGAL_NS ns = true)
    (h2 : isLegal Gen.LEGAL_EW ew = true) (l : Ln) (ls : List Ln) (gs : List Gp) (hL : Hd)
    (hl : l.Ok) (hls : ∀ x ∈ ls, x.Ok) (hgs : ∀ x ∈ gs, x.Ok) (hLok : hL.Ok) :
    subScrubber "pp_twprge_pm" (sTextF sp fin l ls gs hL) ns ew = .ok (sTextF sp fin l ls gs hL) := by
  have hm : Gen.pp_twprge_pm.mustHitP (fun cs => cs.sub pD) = true := by decide +kernel
  refine scrub_none "pp_twprge_pm" ppPmPat rfl _ ns ew h1 h2 (finditer_nil_of_noHit hm _ ?_)
  intro c hc
  exact docCh_avoid pD (by decide) (by decide +kernel) (by decide) (docCh_sTextF sp fin hsp hfin l ls gs hL hl hls hgs hLok c hc)

theorem comma_tokL (fin : Str) (hfin : FinB fin) (h : Hd) (prev : Option Char) (pos : Nat) (hok : h.Ok)
    (hprev : isWord Gen.cs_14d6aa8a prev = false) :
    matchHere Gen.pp_twprge_comma_remove ⟨prev, h.text ++ fin, pos, []⟩ false = some (commaMk fin h pos) := by
  have hv := h.valid hok fin (endsTwprge_fin fin hfin)
  obtain ⟨c, t, htext, hc⟩ := hv.text_head
  obtain ⟨f, hf, hcaps⟩ := eats_twBody h.sp fin hv
  have h1 := leads_twG1 prev c t pos [] hprev hc
  rw [← htext] at h1
  have h2 := hf prev pos [(1, pos, pos)]
  have h12 : Leads Gen.twprge_regex _ _ := Leads.congr_rx twprge_decomp (Leads.seq h1 h2)
  have hws : ∀ c ∈ fin, Gen.cs_0c338893.mem c = true := by
    intro c hc
    rcases hfin c hc with rfl | rfl <;> decide
  have hstop : StopAt Gen.cs_0c338893 [] := StopAt.nil _
  have h15 := Eats.grp 15 (eats_dead Gen.cs_0c338893 fin [] hws hstop) (lastOr prev h.sp.text) (pos + h.sp.text.length)
    (f pos [(1, pos, pos)])
  rw [List.append_nil] at h15
  have hL := Leads.congr_rx comma_decomp (Leads.snoc (Leads.seq h12 h15))
  rw [h.sp_text] at hL
  rw [matchHere_of_leads false hL (Or.inl rfl), hcaps]
  simp [commaMk, h.sp_text]

/-- scrubber 6 (`pp_twprge_comma_remove`): every header with ALL the white space behind it becomes the header and one blank -/
theorem scrub6_sText (sp fin : Str) (hsp : SepOk sp) (hfin : FinB fin) (ns ew : Str) (h1 : isLegal Gen.LEGAL_NS ns = true)
    (h2 : isLegal Gen.LEGAL_EW ew = true)
    (l : Ln) (ls : List Ln) (gs : List Gp) (hL : Hd) (hl : l.Ok) (hls : ∀ x ∈ ls, x.Ok) (hgs : ∀ x ∈ gs, x.Ok ∧ x.h.Canon)
    (hLok : hL.Ok) (hLc : hL.Canon) :
    subScrubber "pp_twprge_comma_remove" (sTextF sp fin l ls gs hL) ns ew = .ok (sTextF [' '] [' '] l ls gs hL) := by
  refine scrub_sText "pp_twprge_comma_remove" commaPat rfl (by decide) comma_gapSkips sp fin hsp true (commaMk sp) (commaMk fin)
    (fun _ _ => rfl) (fun h pos => by simp [commaMk]) (fun _ _ => rfl) (fun h pos => by simp [commaMk])
    (fun h l rest prev pos hh _ hprev => comma_tok sp hsp h l rest prev pos hh hprev)
    (fun h prev pos hh hprev => comma_tokL fin hfin h prev pos hh hprev) (fun h => by cases h) ns ew h1 h2 ?_ ?_
    l ls gs hL hl hls hgs hLok hLc
  · intro text g' pre post hok' hc' htext
    have hv := g'.h.valid hok'.h (g'.body sp ++ post) (by
      have : g'.body sp ++ post = sp ++ (g'.l.text ++ lnsSeg g'.ls ++ post) := by simp [Gp.body]
      rw [this]; exact endsTwprge_sep sp _ hsp)
    have htext' : text = pre ++ (g'.h.sp.text ++ (g'.body sp ++ post)) := by rw [htext, g'.h.sp_text]; simp [Gp.text]
    have := (g'.h.sp.canonTR_at pre _ hv ns ew).trans (g'.h.canon_text hok'.h hc')
    rw [← htext'] at this
    rw [← this]
    simp only [canonTR, twpPart, rgePart, dirPart, commaMk, comma_group]
  · intro text h pre hh hc htext
    have hv := h.valid hh fin (endsTwprge_fin fin hfin)
    have htext' : text = pre ++ (h.sp.text ++ fin) := by rw [htext, h.sp_text]
    have := (h.sp.canonTR_at pre _ hv ns ew).trans (h.canon_text hh hc)
    rw [← htext'] at this
    rw [← this]
    simp only [canonTR, twpPart, rgePart, dirPart, commaMk, comma_group]


/-! ### white-space reduction -/

theorem good_sText (l : Ln) (ls : List Ln) (gs : List Gp) (hL : Hd) (hl : l.Ok) (hls : ∀ x ∈ ls, x.Ok) (hgs : ∀ x ∈ gs, x.Ok)
    (hLok : hL.Ok) : Good (sText [' '] l ls gs hL) := by
  have h1 := (good_ref l hl).join (good_desc l.d hl.d) ' '
  have h2 := good_lines ls _ h1 hls
  have h3 := good_groups gs _ h2 hgs
  have h4 := h3.join (good_hdr hL hLok) '\n'
  rw [sText_eq]
  simpa [Ln.text, List.append_assoc] using h4

theorem sText_head (sp : Str) (l : Ln) (ls : List Ln) (gs : List Gp) (hL : Hd) :
    sText sp l ls gs hL = 'S' :: (['e', 'c', ' ', l.n1, l.n2, ':'] ++ ' ' :: l.d ++ lnsSeg ls ++ '\n' :: hdrsFrom sp gs hL) := by
  simp [sText, lnsText, Ln.text, Ln.ref]

/-- the final strip removes what stands behind the last Twp/Rge -/
theorem pyStrip_sText_fin (sp fin : Str) (hfin : FinB fin) (l : Ln) (ls : List Ln) (gs : List Gp) (hL : Hd) (hLok : hL.Ok) :
    pyStrip (sText sp l ls gs hL ++ fin) = sText sp l ls gs hL := by
  have h0 := pyStrip_sText sp l ls gs hL hLok
  have hl : ∀ Y, lstripBy pyIsSpace ('S' :: Y) = 'S' :: Y := fun Y => Pretty.lstripBy_head_false _ _ _ (by decide)
  have hsp : ∀ c ∈ fin, pyIsSpace c = true := by
    intro c hc
    rcases hfin c hc with rfl | rfl
    · exact pyIsSpace_blank
    · exact pyIsSpace_nl'
  unfold pyStrip stripBy at h0 ⊢
  rw [sText_head] at h0 ⊢
  rw [hl] at h0
  rw [List.cons_append, hl, ← List.cons_append, Pretty.rstripBy_append_all _ _ _ hsp]
  exact h0

theorem reduceWhitespace_sText (fin : Str) (hfin : FinB fin) (l : Ln) (ls : List Ln) (gs : List Gp) (hL : Hd)
    (hl : l.Ok) (hls : ∀ x ∈ ls, x.Ok) (hgs : ∀ x ∈ gs, x.Ok) (hLok : hL.Ok) :
    reduceWhitespace (sTextF [' '] fin l ls gs hL) = some (sText [' '] l ls gs hL) := by
  have hgood := good_sText l ls gs hL hl hls hgs hLok
  have hch : ∀ c ∈ sText [' '] l ls gs hL, DocCh c := by
    have := docCh_sTextF [' '] [] sepOk_blank finB_nil l ls gs hL hl hls hgs hLok
    rwa [sTextF_nil] at this
  have hhead := sText_head [' '] l ls gs hL
  have hstep : reduceWhitespaceStep (sText [' '] l ls gs hL) = sText [' '] l ls gs hL := by
    generalize hT : sText [' '] l ls gs hL = T at hgood hch hhead
    have e0 : Gen.inl_plss_preprocess_reduce_whitespace_0.sub (S " ") T = T := sub_blank_runs T hgood.np
    have e1 : Gen.inl_plss_preprocess_reduce_whitespace_1.sub (S " ") T = T :=
      sub_id_of_noHit (P := fun cs => cs.sub [(9, 9)]) (by decide) _ _
        (fun c hc => docCh_avoid [(9, 9)] (by decide) (by decide +kernel) (by decide) (hch c hc))
    have e2 : Gen.inl_plss_preprocess_reduce_whitespace_2.sub (S "\n") T = T :=
      sub_id_of_noHit (P := fun cs => cs.sub [(13, 13)]) (by decide) _ _
        (fun c hc => docCh_avoid [(13, 13)] (by decide) (by decide +kernel) (by decide) (hch c hc))
    have e3 : Gen.inl_plss_preprocess_reduce_whitespace_3.sub (S "\n\n") T = T := sub_nl_runs T hgood.np
    have e4 : Gen.inl_plss_preprocess_reduce_whitespace_4.sub [] T = T := by
      rw [hhead]; exact sub_bos_blank 'S' _ (by decide)
    unfold reduceWhitespaceStep
    simp only [e0, e1, e2, e3, e4]
  unfold reduceWhitespace
  simp only [sTextF_eq, pyStrip_sText_fin [' '] fin hfin l ls gs hL hLok]
  rw [show 2 * (sText [' '] l ls gs hL).length + 8 = (2 * (sText [' '] l ls gs hL).length + 7) + 1 from rfl]
  exact Tract.untilStable_of_fixed _ _ _ hstep

/-! ### `find_twprge` and `plss_preprocess` -/

theorem twprge_tokLF (fin : Str) (hfin : FinB fin) (h : Hd) (prev : Option Char) (pos : Nat) (hh : h.Ok)
    (hprev : isWord Gen.cs_14d6aa8a prev = false) :
    matchHere Gen.twprge_regex ⟨prev, h.text ++ fin, pos, []⟩ false = some (twMk h pos) := by
  have hv := h.valid hh fin (endsTwprge_fin fin hfin)
  have := C08_spelling_matchHere h.sp _ hv prev hprev pos false
  rw [h.sp_text] at this
  exact this

theorem twprge_hcanL (fin : Str) (hfin : FinB fin) (ns ew text : Str) (h : Hd) (pre : Str) (hh : h.Ok) (hc : h.Canon)
    (htext : text = pre ++ (h.text ++ fin)) : canonTR twprge (twMk h pre.length) text ns ew false = h.text := by
  have hv := h.valid hh fin (endsTwprge_fin fin hfin)
  have htext' : text = pre ++ (h.sp.text ++ fin) := by rw [htext, h.sp_text]
  rw [htext']
  exact (h.sp.canonTR_at pre _ hv ns ew).trans (h.canon_text hh hc)

theorem map_canon_hdrsF (p : Pat) (mk mkL : Hd → Nat → Match) (sp fin ns ew text : Str) (hL : Hd)
    (hcan : ∀ (g : Gp) (pre post : Str), g.Ok → g.h.Canon → text = pre ++ (g.text sp ++ post) →
      canonTR p (mk g.h pre.length) text ns ew false = g.h.text)
    (hcanL : ∀ (pre : Str), text = pre ++ (hL.text ++ fin) → canonTR p (mkL hL pre.length) text ns ew false = hL.text) :
    ∀ (gs : List Gp) (pre : Str), (∀ x ∈ gs, x.Ok ∧ x.h.Canon) → text = pre ++ hdrsF sp fin gs hL →
      (hdrMs mk sp pre.length gs ++ [mkL hL (pre.length + (gpsSeg sp gs).length)]).map (fun m => canonTR p m text ns ew false) =
        gs.map (fun x => x.h.text) ++ [hL.text]
  | [], pre, _, htext => by
    simp only [hdrMs, gpsSeg, List.nil_append, List.length_nil, Nat.add_zero, List.map_cons, List.map_nil,
      hcanL pre (by rw [htext]; rfl)]
  | g :: gs, pre, hgs, htext => by
    have hg := hgs g (by simp)
    have ih := map_canon_hdrsF p mk mkL sp fin ns ew text hL hcan hcanL gs (pre ++ g.text sp ++ ['\n'])
      (fun x hx => hgs x (by simp [hx])) (by rw [htext]; simp [hdrsF])
    have hl : (pre ++ g.text sp ++ ['\n']).length = pre.length + (g.text sp).length + 1 := by simp; omega
    rw [hl] at ih
    have hpos : pre.length + (gpsSeg sp (g :: gs)).length = pre.length + (g.text sp).length + 1 + (gpsSeg sp gs).length := by
      simp [gpsSeg]; omega
    rw [show hdrMs mk sp pre.length (g :: gs) = mk g.h pre.length :: hdrMs mk sp (pre.length + (g.text sp).length + 1) gs from rfl, hpos]
    simp only [List.cons_append, List.map_cons, hcan g pre _ hg.1 hg.2 (by rw [htext]; rfl), ih]

/-- `find_twprge` on the text: the Twp/Rges, in order -/
theorem findTwprgeRaw_sText (sp fin : Str) (hsp : SepOk sp) (hfin : FinB fin) (ns ew : Str) (h1 : isLegal Gen.LEGAL_NS ns = true)
    (h2 : isLegal Gen.LEGAL_EW ew = true)
    (l : Ln) (ls : List Ln) (gs : List Gp) (hL : Hd) (hl : l.Ok) (hls : ∀ x ∈ ls, x.Ok) (hgs : ∀ x ∈ gs, x.Ok ∧ x.h.Canon)
    (hLok : hL.Ok) (hLc : hL.Canon) :
    findTwprgeRaw (sTextF sp fin l ls gs hL) ns ew = .ok (gs.map (fun x => x.h.text) ++ [hL.text]) := by
  have hfi : twprge.rx.finditer (sTextF sp fin l ls gs hL) =
      hdrMs twMk sp ((lnsText l ls).length + 1) gs ++ [twMk hL ((lnsText l ls).length + 1 + (gpsSeg sp gs).length)] :=
    (sTextTilesF Gen.twprge_regex twprge_gapSkips sp fin hsp false twMk
      (fun h l rest prev pos hok hl hprev => twprge_tok sp hsp h l rest prev pos hok hl hprev) twMk
      (fun h prev pos hh hprev => ⟨twprge_tokLF fin hfin h prev pos hh hprev, rfl, by simp [twMk, Spelling.matchAt, h.sp_text]⟩)
      (fun _ => fin_tiles twprge_mustDigit fin hfin) l ls gs hL hl hls (fun x hx => (hgs x hx).1) hLok).finditer_eq
  rw [C08_findTwprgeRaw_order _ ns ew h1 h2, hfi]
  have := map_canon_hdrsF twprge twMk twMk sp fin ns ew (sTextF sp fin l ls gs hL) hL
    (fun g' pre post hok' hc' ht => twprge_hcan sp hsp ns ew _ g' pre post hok' hc' ht)
    (fun pre ht => twprge_hcanL fin hfin ns ew _ hL pre hLok hLc ht) gs (lnsText l ls ++ ['\n']) hgs (by simp [sTextF])
  have hlen : (lnsText l ls ++ ['\n']).length = (lnsText l ls).length + 1 := by simp
  rw [hlen] at this
  rw [this]

theorem nswe_mustDigit : Gen.pp_twprge_no_nswe.mustHitP (fun cs => cs.sub digitD) = true := by decide +kernel
theorem nsr_mustDigit : Gen.pp_twprge_no_nsr.mustHitP (fun cs => cs.sub digitD) = true := by decide +kernel
theorem ewt_mustDigit : Gen.pp_twprge_no_ewt.mustHitP (fun cs => cs.sub digitD) = true := by decide +kernel

/-- **`plss_preprocess` on the canonical text of the layout Sec–desc–Twp/Rge** (whatever blanks / line breaks stand behind
    the Twp/Rges, also behind the last one): the separator behind every inner Twp/Rge becomes one blank, what stands behind
    the last Twp/Rge is removed, everything else is kept; no `fixed_twprge`, no divergence -/
theorem plssPreprocess_sText (mc : MC) (defNS defEW : Option Str)
    (hm1 : isLegal Gen.LEGAL_NS mc.ns = true) (hm2 : isLegal Gen.LEGAL_EW mc.ew = true)
    (h1 : isLegal Gen.LEGAL_NS (resolve defNS mc.ns) = true) (h2 : isLegal Gen.LEGAL_EW (resolve defEW mc.ew) = true)
    (sp fin : Str) (hsp : SepOk sp) (hfin : FinB fin)
    (l : Ln) (ls : List Ln) (gs : List Gp) (hL : Hd) (hl : l.Ok) (hls : ∀ x ∈ ls, x.Ok) (hgs : ∀ x ∈ gs, x.Ok ∧ x.h.Canon)
    (hLok : hL.Ok) (hLc : hL.Canon) :
    plssPreprocess mc (sTextF sp fin l ls gs hL) defNS defEW false =
      .ok { text := sText [' '] l ls gs hL, fixed := [], diverged := false } := by
  have hgs' : ∀ x ∈ gs, x.Ok := fun x hx => (hgs x hx).1
  have hsp1 := sepOk_cons_blank hsp
  have hsp2 := sepOk_cons_blank hsp1
  have hsp3 := sepOk_cons_blank hsp2
  have hsp4 := sepOk_cons_blank hsp3
  have hf1 := hfin.cons_blank
  have hf2 := hf1.cons_blank
  have hf3 := hf2.cons_blank
  have hf4 := hf3.cons_blank
  have ho := findTwprgeRaw_sText sp fin hsp hfin mc.ns mc.ew hm1 hm2 l ls gs hL hl hls hgs hLok hLc
  have hp := findTwprgeRaw_sText [' '] [] sepOk_blank finB_nil mc.ns mc.ew hm1 hm2 l ls gs hL hl hls hgs hLok hLc
  rw [sTextF_nil] at hp
  have s1 := scrub1_sText sp fin hsp hfin _ _ h1 h2 l ls gs hL hl hls hgs hLok hLc
  have s2 := scrubPP_sText "pp_twprge_no_nswe" ppNswePat rfl (by decide) nswe_gapSkips nswe_mustDigit (by decide) nsweCaps canonAt_nswe
    (fun t r nc ec ctx h prev pos hprev => no_nswe_at t r nc ec ctx h prev pos hprev) _ _ hsp1 hf1 _ _ h1 h2 l ls gs hL hl hls hgs hLok hLc
  have s3 := scrubPP_sText "pp_twprge_no_nsr" ppNsrPat rfl (by decide) nsr_gapSkips nsr_mustDigit (by decide) nsrCaps canonAt_nsr
    (fun t r nc ec ctx h prev pos hprev => no_nsr_at t r nc ec ctx h prev pos hprev) _ _ hsp2 hf2 _ _ h1 h2 l ls gs hL hl hls hgs hLok hLc
  have s4 := scrubPP_sText "pp_twprge_no_ewt" ppEwtPat rfl (by decide) ewt_gapSkips ewt_mustDigit (by decide) ewtCaps canonAt_ewt
    (fun t r nc ec ctx h prev pos hprev => no_ewt_at t r nc ec ctx h prev pos hprev) _ _ hsp3 hf3 _ _ h1 h2 l ls gs hL hl hls hgs hLok hLc
  have s5 := scrub5_sText _ _ hsp4 hf4 _ _ h1 h2 l ls gs hL hl hls hgs' hLok
  have s6 := scrub6_sText _ _ hsp4 hf4 _ _ h1 h2 l ls gs hL hl hls hgs hLok hLc
  have hrw := reduceWhitespace_sText [' '] finB_blank l ls gs hL hl hls hgs' hLok
  have hnames : scrubberNames false = ["twprge_regex", "pp_twprge_no_nswe", "pp_twprge_no_nsr", "pp_twprge_no_ewt",
    "pp_twprge_pm", "pp_twprge_comma_remove"] := rfl
  unfold plssPreprocess
  simp only [ho, hnames, List.foldlM_cons, List.foldlM_nil, s1, s2, s3, s4, s5, s6, bind, Except.bind, pure, Except.pure, hrw, hp,
    C08_fixed_nil_of_same]


theorem StdHd.canon {h : Hd} (hs : StdHd h) : h.Canon := by
  obtain ⟨a, b, ns, ew, _, _, _, _, rfl⟩ := hs
  exact ⟨strip_natToStr a, strip_natToStr b⟩

/-- **C01 — the layout Sec–desc–Twp/Rge on TEXT, through the whole parser, with no lexical premise.**
    For every abstract description — lines (two-digit section, inert block) grouped under standard Twp/Rges (numbers below
    1000) that CLOSE their groups — the canonical text (whatever blanks / line breaks `sp` stand behind an inner Twp/Rge and
    whatever blanks / line breaks `fin`, possibly none, behind the last one) is parsed by `PLSSParser` (layout deduced or given
    as S_desc_TR; any `require_colon` mode, any `clean_up`, any legal default directions; no OCR scrubbing, no segmenting, no
    `sec_within`) into exactly one tract per line, in reading order, with the Twp/Rge closing its group, its section and its
    block verbatim; the layout is S_desc_TR; no error flag; no tract has an error Twp/Rge/Sec. -/
theorem C01_canonical_forward_S_desc_TR (mc : MC) (uid0 : Nat) (a : ParserArgs) (sp fin : Str) (hsp : SepOk sp) (hfin : FinB fin)
    (l : Ln) (ls : List Ln) (gs : List Gp) (hL : Hd) (hstd : StdS l ls gs hL)
    (hm1 : isLegal Gen.LEGAL_NS mc.ns = true) (hm2 : isLegal Gen.LEGAL_EW mc.ew = true)
    (h1 : isLegal Gen.LEGAL_NS (resolve a.defaultNS mc.ns) = true) (h2 : isLegal Gen.LEGAL_EW (resolve a.defaultEW mc.ew) = true)
    (ha1 : a.ocrScrub = false) (ha2 : a.segment = false) (ha3 : a.secWithin = false)
    (hlay : a.layout = none ∨ a.layout = some S_DESC_TR) (hd : Str) (c : Config.Cfg)
    (hhd : handedDownText a = .ok hd) (hcfg : Config.ofText hd = .ok c) :
    ∃ out, plssParser mc uid0 (sTextF sp fin l ls gs hL) a = .ok out ∧ out.layout = S_DESC_TR ∧
      out.text = sText [' '] l ls gs hL ∧ out.fl.e = [] ∧
      out.tracts.map (fun t => (t.trs, t.desc)) = (sTracts l ls gs hL).map (fun p => (TRS.trsToDict (some p.1), p.2)) ∧
      (∀ t ∈ out.tracts, TRS.isError t.trs = false) := by
  have hpp := plssPreprocess_sText mc a.defaultNS a.defaultEW hm1 hm2 h1 h2 sp fin hsp hfin l ls gs hL hstd.l hstd.ls
    (fun x hx => ⟨(hstd.gs x hx).ok, (hstd.gs x hx).canon⟩) hstd.hL.ok hstd.hL.canon
  exact C01_canonical_forward_S_desc_TR_partial mc uid0 a _ l ls gs hL hstd hm1 hm2 (by rw [ha1]; exact hpp) ha2 ha3 hlay hd c
    hhd hcfg

/-- the full statement recorded in Part 5 holds -/
theorem C01_canonical_forward_S_desc_TR_full : C01_canonical_forward_S_desc_TR_statement := by
  intro mc uid0 a sp l ls gs hL hsp hstd hm1 hm2 h1 h2 ha1 ha2 ha3 hlay hd c hhd hcfg
  have := C01_canonical_forward_S_desc_TR mc uid0 a sp [] hsp finB_nil l ls gs hL hstd hm1 hm2 h1 h2 ha1 ha2 ha3 hlay hd c hhd hcfg
  rwa [sTextF_nil] at this


/-! ## Part 5c — the same, stated for a list of groups (lines, closing Twp/Rge) -/

/-- a group of the layout Sec–desc–Twp/Rge: its lines and the Twp/Rge that closes it -/
structure SGp where
  l : Ln
  ls : List Ln
  h : Hd

def SGp.lines (g : SGp) : List Ln := g.l :: g.ls
/-- `Sec nn: <block>` lines, a line break, the Twp/Rge -/
def SGp.text (g : SGp) : Str := lnsText g.l g.ls ++ '\n' :: g.h.text

/-- the canonical text of the groups `g :: gs`, separated by `sp` -/
def sDoc (sp : Str) : SGp → List SGp → Str
  | g, [] => g.text
  | g, g' :: gs => g.text ++ sp ++ sDoc sp g' gs

/-- lines with inert blocks, a standard Twp/Rge -/
structure StdSGp (g : SGp) : Prop where
  ls : ∀ l ∈ g.lines, l.Ok
  h : StdHd g.h

/-- the tracts the text stands for: (trs string, description), one per line, with the Twp/Rge closing its group -/
def sDocTracts (gs : List SGp) : List (Str × Str) :=
  gs.flatMap (fun g => g.lines.map (fun l => (g.h.key ++ [l.n1, l.n2], l.d)))

/-- the form used in the proofs: every Twp/Rge with the lines that FOLLOW it, and the last Twp/Rge -/
def shiftGps : Hd → List SGp → List Gp × Hd
  | h, [] => ([], h)
  | h, g :: gs => (⟨h, g.l, g.ls⟩ :: (shiftGps g.h gs).1, (shiftGps g.h gs).2)

theorem sDoc_eq (sp : Str) : ∀ (gs : List SGp) (g : SGp),
    sDoc sp g gs = sText sp g.l g.ls (shiftGps g.h gs).1 (shiftGps g.h gs).2
  | [], g => by simp [sDoc, SGp.text, sText, shiftGps, hdrsFrom]
  | g' :: gs, g => by
    have ih := sDoc_eq sp gs g'
    simp only [sDoc, ih, shiftGps]
    simp [SGp.text, sText, hdrsFrom, Gp.text, Gp.body, lnsText]

theorem sTracts_shift : ∀ (gs : List SGp) (g : SGp),
    sTracts g.l g.ls (shiftGps g.h gs).1 (shiftGps g.h gs).2 = sDocTracts (g :: gs)
  | [], g => by simp [sTracts, sPairs, shiftGps, sDocTracts, SGp.lines, List.map_map, Function.comp_def]
  | g' :: gs, g => by
    have ih := sTracts_shift gs g'
    simp only [sTracts, sDocTracts] at ih ⊢
    simp only [shiftGps, sPairs, List.map_append, ih, List.flatMap_cons]
    simp [SGp.lines, List.map_map, Function.comp_def]

theorem shift_std : ∀ (gs : List SGp) (h : Hd), StdHd h → (∀ x ∈ gs, StdSGp x) →
    (∀ y ∈ (shiftGps h gs).1, StdGp y) ∧ StdHd (shiftGps h gs).2
  | [], h, hh, _ => ⟨fun _ hy => (by simp [shiftGps] at hy), hh⟩
  | g :: gs, h, hh, hgs => by
    have hg := hgs g (by simp)
    obtain ⟨i1, i2⟩ := shift_std gs g.h hg.h (fun x hx => hgs x (by simp [hx]))
    refine ⟨?_, i2⟩
    intro y hy
    simp only [shiftGps, List.mem_cons] at hy
    rcases hy with rfl | hy
    · exact ⟨⟨hh.ok, hg.ls⟩, hh⟩
    · exact i1 y hy

/-- **C01 — the layout Sec–desc–Twp/Rge on TEXT, through the whole parser** (`C01_canonical_forward_S_desc_TR` stated for a
    non-empty list of groups): the text `Sec nn: <block>` lines / Twp/Rge, groups separated by any blanks / line breaks `sp`,
    any blanks / line breaks `fin` at the end, is parsed into one tract per line with the Twp/Rge that closes its group -/
theorem C01_canonical_forward_S_desc_TR_groups (mc : MC) (uid0 : Nat) (a : ParserArgs) (sp fin : Str) (hsp : SepOk sp)
    (hfin : FinB fin) (g : SGp) (gs : List SGp) (hstd : ∀ x ∈ g :: gs, StdSGp x)
    (hm1 : isLegal Gen.LEGAL_NS mc.ns = true) (hm2 : isLegal Gen.LEGAL_EW mc.ew = true)
    (h1 : isLegal Gen.LEGAL_NS (resolve a.defaultNS mc.ns) = true) (h2 : isLegal Gen.LEGAL_EW (resolve a.defaultEW mc.ew) = true)
    (ha1 : a.ocrScrub = false) (ha2 : a.segment = false) (ha3 : a.secWithin = false)
    (hlay : a.layout = none ∨ a.layout = some S_DESC_TR) (hd : Str) (c : Config.Cfg)
    (hhd : handedDownText a = .ok hd) (hcfg : Config.ofText hd = .ok c) :
    ∃ out, plssParser mc uid0 (sDoc sp g gs ++ fin) a = .ok out ∧ out.layout = S_DESC_TR ∧
      out.text = sDoc [' '] g gs ∧ out.fl.e = [] ∧
      out.tracts.map (fun t => (t.trs, t.desc)) = (sDocTracts (g :: gs)).map (fun p => (TRS.trsToDict (some p.1), p.2)) ∧
      (∀ t ∈ out.tracts, TRS.isError t.trs = false) := by
  have hg := hstd g (by simp)
  obtain ⟨i1, i2⟩ := shift_std gs g.h hg.h (fun x hx => hstd x (by simp [hx]))
  have hS : StdS g.l g.ls (shiftGps g.h gs).1 (shiftGps g.h gs).2 :=
    ⟨hg.ls g.l (by simp [SGp.lines]), fun x hx => hg.ls x (by simp [SGp.lines, hx]), i1, i2⟩
  have := C01_canonical_forward_S_desc_TR mc uid0 a sp fin hsp hfin g.l g.ls (shiftGps g.h gs).1 (shiftGps g.h gs).2 hS
    hm1 hm2 h1 h2 ha1 ha2 ha3 hlay hd c hhd hcfg
  rw [sTextF_eq, ← sDoc_eq, ← sDoc_eq, sTracts_shift] at this
  exact this


/-! ## Part 6 — non-vacuity: concrete instances -/

/-- a decidable check of a preprocessing result (the premise `hpp` of `C01_canonical_forward_S_desc_TR_partial`) -/
def ppCheck (x : Except PyErr PPResult) (t : Str) : Bool :=
  match x with
  | .ok r => r.text == t && r.fixed.isEmpty && !r.diverged
  | .error _ => false

theorem ppCheck_eq (x : Except PyErr PPResult) (t : Str) (h : ppCheck x t = true) :
    x = .ok { text := t, fixed := [], diverged := false } := by
  cases x with
  | error e => cases h
  | ok r =>
    obtain ⟨rt, rf, rd⟩ := r
    simp only [ppCheck, Bool.and_eq_true, beq_iff_eq, List.isEmpty_iff, Bool.not_eq_true'] at h
    obtain ⟨⟨h1, h2⟩, h3⟩ := h
    subst h1 h2 h3
    rfl

namespace Layout2Ex
open LayoutEx

def l0 : Ln := ⟨'1', '4', S "hog valley by bluff"⟩
def l1 : Ln := ⟨'1', '5', S "fern gully"⟩
/-- the Twp/Rge closing the first group, and the line of the second group -/
def gA : Gp := ⟨stdHd 154 97 'n' 'w', ⟨'3', '6', S "wy Wyoming; f/k/a marker"⟩, []⟩
/-- the Twp/Rge closing the second (last) group -/
def hZ : Hd := stdHd 7 102 's' 'e'

theorem l0_ok : l0.Ok := ⟨by decide, by decide, by decide +kernel⟩
theorem l1_ok : l1.Ok := ⟨by decide, by decide, by decide +kernel⟩
theorem ls_ok : ∀ x ∈ [l1], x.Ok := by
  intro x hx; simp only [List.mem_singleton] at hx; subst hx; exact l1_ok

theorem gA_std : StdGp gA :=
  ⟨⟨stdHd_ok 154 97 'n' 'w' (by decide) (by decide) (Or.inl rfl) (Or.inr rfl), by
      intro l hl
      simp only [Gp.lines, gA, List.mem_cons, List.not_mem_nil, or_false] at hl
      subst hl
      exact ⟨by decide, by decide, by decide +kernel⟩⟩,
    ⟨154, 97, 'n', 'w', by decide, by decide, Or.inl rfl, Or.inr rfl, rfl⟩⟩

theorem gs_std : ∀ x ∈ [gA], StdGp x := by
  intro x hx; simp only [List.mem_singleton] at hx; subst hx; exact gA_std

theorem hZ_std : StdHd hZ := ⟨7, 102, 's', 'e', by decide, by decide, Or.inr rfl, Or.inl rfl, rfl⟩

theorem ex_std : StdS l0 [l1] [gA] hZ := ⟨l0_ok, ls_ok, gs_std, hZ_std⟩

/-- the canonical text, with a line break / a blank behind the inner Twp/Rge -/
theorem text_nl : sText ['\n'] l0 [l1] [gA] hZ =
    S "Sec 14: hog valley by bluff\nSec 15: fern gully\nT154N-R97W\nSec 36: wy Wyoming; f/k/a marker\nT7S-R102E" := by decide +kernel
theorem text_blank : sText [' '] l0 [l1] [gA] hZ =
    S "Sec 14: hog valley by bluff\nSec 15: fern gully\nT154N-R97W Sec 36: wy Wyoming; f/k/a marker\nT7S-R102E" := by decide +kernel

/-- `C01_chunk_canonical_S_desc_TR` on the concrete text (layout deduced, colon required cautiously) -/
example : ∃ c, parseChunkCore {} pc (sText ['\n'] l0 [l1] [gA] hZ) false TRS_DESC = .ok c ∧ c.fl.e = [] ∧ c.fl.w = [] ∧
    (pc.secWithin = false → c.comps = sComps l0 [l1] [gA] hZ ∧ c.unused.map (·.2) = [gA].map (fun _ => ['\n']) ++ [[]]) :=
  C01_chunk_canonical_S_desc_TR {} pc (by decide) (by decide) ['\n'] sepOk_nl l0 [l1] [gA] hZ l0_ok ls_ok
    (fun x hx => (gs_std x hx).ok) hZ_std.ok TRS_DESC (fun h => by cases h)

example : (sComps l0 [l1] [gA] hZ).map (fun c => (c.twprge, c.sec, c.desc)) =
    [(some (S "154n97w"), some [S "14"], S "hog valley by bluff"), (some (S "154n97w"), some [S "15"], S "fern gully"),
     (some (S "7s102e"), some [S "36"], S "wy Wyoming; f/k/a marker")] := by decide +kernel

/-- the premise `hpp` on the concrete text: preprocessing turns the line break behind the inner Twp/Rge into a blank -/
theorem pp_ex : plssPreprocess {} (sText ['\n'] l0 [l1] [gA] hZ) none none false =
    .ok { text := sText [' '] l0 [l1] [gA] hZ, fixed := [], diverged := false } :=
  ppCheck_eq _ _ (by decide +kernel)

/-- `C01_canonical_forward_S_desc_TR_partial` on the concrete text, default arguments: the conclusion of the full statement -/
example : ∃ out, plssParser {} 0 (sText ['\n'] l0 [l1] [gA] hZ) {} = .ok out ∧ out.layout = S_DESC_TR ∧
    out.text = sText [' '] l0 [l1] [gA] hZ ∧ out.fl.e = [] ∧
    out.tracts.map (fun t => (t.trs, t.desc)) = (sTracts l0 [l1] [gA] hZ).map (fun p => (TRS.trsToDict (some p.1), p.2)) ∧
    (∀ t ∈ out.tracts, TRS.isError t.trs = false) :=
  C01_canonical_forward_S_desc_TR_partial {} 0 {} _ l0 [l1] [gA] hZ ex_std (by decide) (by decide) pp_ex rfl rfl (Or.inl rfl)
    hd0 cfg0 hd0_ok cfg0_ok

example : sTracts l0 [l1] [gA] hZ = [(S "154n97w14", S "hog valley by bluff"), (S "154n97w15", S "fern gully"),
    (S "7s102e36", S "wy Wyoming; f/k/a marker")] := by decide +kernel

/-- the lexical premise of `C20_chunk_run` / `C20_segment_*` (Lemmas/Segment.lean) for the concrete text -/
example : Reports {} .cautious (sText [' '] l0 [l1] [gA] hZ) .sDescTr (sGroups [' '] 0 l0 [l1] [gA] hZ) :=
  C01_reports_S_desc_TR {} (by decide) (by decide) [' '] sepOk_blank l0 [l1] [gA] hZ l0_ok ls_ok (fun x hx => (gs_std x hx).ok)
    hZ_std.ok .cautious

/-- `C01_canonical_forward_S_desc_TR` on the concrete text (line break behind the inner Twp/Rge, a line break at the end) -/
example : ∃ out, plssParser {} 0 (sTextF ['\n'] ['\n'] l0 [l1] [gA] hZ) {} = .ok out ∧ out.layout = S_DESC_TR ∧
    out.text = sText [' '] l0 [l1] [gA] hZ ∧ out.fl.e = [] ∧
    out.tracts.map (fun t => (t.trs, t.desc)) = (sTracts l0 [l1] [gA] hZ).map (fun p => (TRS.trsToDict (some p.1), p.2)) ∧
    (∀ t ∈ out.tracts, TRS.isError t.trs = false) :=
  C01_canonical_forward_S_desc_TR {} 0 {} ['\n'] ['\n'] sepOk_nl (fun c hc => by simp at hc; exact Or.inr hc) l0 [l1] [gA] hZ ex_std
    (by decide) (by decide) (by decide) (by decide) rfl rfl rfl (Or.inl rfl) hd0 cfg0 hd0_ok cfg0_ok

/-- `plssPreprocess_sText` on the concrete text -/
example : plssPreprocess {} (sTextF ['\n'] ['\n'] l0 [l1] [gA] hZ) none none false =
    .ok { text := sText [' '] l0 [l1] [gA] hZ, fixed := [], diverged := false } :=
  plssPreprocess_sText {} none none (by decide) (by decide) (by decide) (by decide) ['\n'] ['\n'] sepOk_nl
    (fun c hc => by simp at hc; exact Or.inr hc) l0 [l1] [gA] hZ l0_ok ls_ok (fun x hx => ⟨(gs_std x hx).ok, (gs_std x hx).canon⟩)
    hZ_std.ok hZ_std.canon

/-- the same description as a list of groups (lines, closing Twp/Rge) -/
def sg1 : SGp := ⟨l0, [l1], stdHd 154 97 'n' 'w'⟩
def sg2 : SGp := ⟨⟨'3', '6', S "wy Wyoming; f/k/a marker"⟩, [], hZ⟩

theorem sg_std : ∀ x ∈ [sg1, sg2], StdSGp x := by
  intro x hx
  simp only [List.mem_cons, List.not_mem_nil, or_false] at hx
  rcases hx with rfl | rfl
  · refine ⟨?_, ⟨154, 97, 'n', 'w', by decide, by decide, Or.inl rfl, Or.inr rfl, rfl⟩⟩
    intro l hl
    simp only [SGp.lines, sg1, List.mem_cons, List.not_mem_nil, or_false] at hl
    rcases hl with rfl | rfl
    · exact l0_ok
    · exact l1_ok
  · refine ⟨?_, hZ_std⟩
    intro l hl
    simp only [SGp.lines, sg2, List.mem_cons, List.not_mem_nil, or_false] at hl
    subst hl
    exact ⟨by decide, by decide, by decide +kernel⟩

example : sDoc ['\n'] sg1 [sg2] ++ ['\n'] =
    S "Sec 14: hog valley by bluff\nSec 15: fern gully\nT154N-R97W\nSec 36: wy Wyoming; f/k/a marker\nT7S-R102E\n" := by decide +kernel

/-- `C01_canonical_forward_S_desc_TR_groups` on the concrete groups, separator `"\n"`, a line break at the end -/
example : ∃ out, plssParser {} 0 (sDoc ['\n'] sg1 [sg2] ++ ['\n']) {} = .ok out ∧ out.layout = S_DESC_TR ∧
    out.text = sDoc [' '] sg1 [sg2] ∧ out.fl.e = [] ∧
    out.tracts.map (fun t => (t.trs, t.desc)) = (sDocTracts [sg1, sg2]).map (fun p => (TRS.trsToDict (some p.1), p.2)) ∧
    (∀ t ∈ out.tracts, TRS.isError t.trs = false) :=
  C01_canonical_forward_S_desc_TR_groups {} 0 {} ['\n'] ['\n'] sepOk_nl (fun c hc => by simp at hc; exact Or.inr hc) sg1 [sg2] sg_std
    (by decide) (by decide) (by decide) (by decide) rfl rfl rfl (Or.inl rfl) hd0 cfg0 hd0_ok cfg0_ok

example : sDocTracts [sg1, sg2] = [(S "154n97w14", S "hog valley by bluff"), (S "154n97w15", S "fern gully"),
    (S "7s102e36", S "wy Wyoming; f/k/a marker")] := by decide +kernel

end Layout2Ex

#print axioms hdrsTiles
#print axioms secFinder_sText
#print axioms twprgeFinder_sText
#print axioms populateMarkers_sText
#print axioms deduceLayout_sText
#print axioms C01_reports_S_desc_TR
#print axioms C01_chunk_canonical_S_desc_TR
#print axioms C01_canonical_forward_S_desc_TR_partial
#print axioms Layout2Ex.pp_ex
#print axioms plssPreprocess_sText
#print axioms C01_canonical_forward_S_desc_TR
#print axioms C01_canonical_forward_S_desc_TR_full
#print axioms C01_canonical_forward_S_desc_TR_groups

end PyTRS
