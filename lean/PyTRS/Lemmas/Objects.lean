/-
Helper lemmas about object construction (fields that parsing never touches).
-/
import PyTRS.Model.Objects
namespace PyTRS.Obj
open PyTRS

/-- the provenance fields of a tract: uid, trs, desc, orig_desc, orig_index, source -/
def prov (t : TractObj) : Nat × TRS.TrsDict × Str × OptStr × Int × OptStr :=
  (t.uid, t.trs, t.desc, t.origDesc, t.origIndex, t.source)

theorem tractParseMethod_prov (t : TractObj) (commit : Bool) (kw : TractKw) (r : TractObj × List Str)
    (h : tractParseMethod t commit kw = .ok r) : prov r.1 = prov t := by
  unfold tractParseMethod at h
  simp only [] at h
  cases hp : Tract.tractParse t.desc (effectiveTract t.attrs kw) (inheritedFlags t) with
  | error e => rw [hp] at h; cases h
  | ok r0 =>
    rw [hp] at h
    simp only [] at h
    cases commit <;> (simp only [Bool.false_eq_true, if_false, if_true] at h; cases h; rfl)

theorem tractPreprocess_prov (t : TractObj) (c : Option Bool) (commit : Bool) :
    prov (tractPreprocess t c commit).1 = prov t := by
  unfold tractPreprocess
  simp only []
  split
  · split <;> rfl
  · rfl

theorem tractInitCore_prov (t0 t : TractObj) (h : tractInitCore t0 = .ok t) : prov t = prov t0 := by
  unfold tractInitCore at h
  split at h
  · split at h
    · cases h
    · rename_i r hr
      cases h
      exact tractParseMethod_prov _ _ _ _ hr
  · cases h
    exact tractPreprocess_prov _ _ _

theorem tractInit_prov (uid : Nat) (desc : Str) (trs : Option Str) (cfg : CfgArg) (pq : Option Bool)
    (src od : OptStr) (oi : Int) (look : Option Str → TRS.TrsDict) (t : TractObj)
    (h : tractInit uid desc trs cfg pq src od oi look = .ok t) :
    prov t = (uid, look trs, desc, od, oi, src) := by
  unfold tractInit at h
  split at h
  · cases h
  · rw [tractInitCore_prov _ _ h]; rfl

end PyTRS.Obj
